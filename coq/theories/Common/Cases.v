(* Running correspondence cases inside Coq: a case is mapped to a nat code
   (0 = model and implementation agree and every checker accepts); [bad] lists
   the (index, code) pairs of the cases whose code is not 0. *)
From Coq Require Import List Arith.
Import ListNotations.

Fixpoint bad_from {A} (f : A -> nat) (i : nat) (l : list A) : list (nat * nat) :=
  match l with
  | [] => []
  | c :: tl => match f c with
               | O => bad_from f (S i) tl
               | k => (i, k) :: bad_from f (S i) tl
               end
  end.
Definition bad {A} (f : A -> nat) (l : list A) : list (nat * nat) := bad_from f 0 l.

(* code bits *)
Definition bit (k : nat) (ok : bool) : nat := if ok then 0 else 2 ^ k.

Fixpoint list_eqb {A} (eqb : A -> A -> bool) (l1 l2 : list A) : bool :=
  match l1, l2 with
  | [], [] => true
  | x :: t1, y :: t2 => andb (eqb x y) (list_eqb eqb t1 t2)
  | _, _ => false
  end.

Lemma list_eqb_spec {A} (eqb : A -> A -> bool) :
  (forall x y, eqb x y = true <-> x = y) ->
  forall l1 l2, list_eqb eqb l1 l2 = true <-> l1 = l2.
Proof.
  intros H. induction l1 as [|x t1 IH]; destruct l2 as [|y t2]; cbn; try (split; [discriminate|discriminate]).
  - split; reflexivity.
  - rewrite Bool.andb_true_iff, H, IH. split; [intros [-> ->]; reflexivity|intros E; inversion E; auto].
Qed.

Definition pair_eqb {A B} (ea : A -> A -> bool) (eb : B -> B -> bool) (p q : A * B) : bool :=
  andb (ea (fst p) (fst q)) (eb (snd p) (snd q)).

Definition option_eqb {A} (ea : A -> A -> bool) (p q : option A) : bool :=
  match p, q with
  | None, None => true
  | Some x, Some y => ea x y
  | _, _ => false
  end.
