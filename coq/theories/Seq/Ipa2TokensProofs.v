(* C14 - proofs about the ipa2tokens model: for every setting of the keyword predicates
   the tokens concatenate to the input with the break characters removed (+ the null glyph
   exactly when the first non-break character is a combiner), no token is empty, and the
   call raises exactly in the documented cases. *)
From Coq Require Import ZArith List Bool Lia.
From LV Require Import Common.Cases Seq.SeqCommon Seq.Ipa2Tokens.
Import ListNotations.
Local Open Scope Z_scope.

(* ------------------------------------------------------------------ *)
(* list facts *)

Definition flat (o : list token) : list char := concat (rev o).

Lemma flat_new (c : char) (o : list token) : flat (([c] : token) :: o) = flat o ++ [c].
Proof. unfold flat. cbn [rev]. rewrite concat_app. reflexivity. Qed.

Lemma flat_app_last (t : token) (r : list token) (c : char) :
  flat ((t ++ [c] : token) :: r) = flat (t :: r) ++ [c].
Proof.
  unfold flat. cbn [rev]. rewrite !concat_app. cbn [concat]. rewrite !app_nil_r. now rewrite app_assoc.
Qed.

Lemma flat_cons (t : token) (o : list token) : flat (t :: o) = flat o ++ t.
Proof. unfold flat. cbn [rev]. rewrite concat_app. cbn [concat]. now rewrite app_nil_r. Qed.

Lemma nobreaks_app k P c :
  nobreaks k (P ++ [c]) = nobreaks k P ++ (if k_break k c then [] else [c]).
Proof.
  unfold nobreaks. rewrite filter_app. cbn. now destruct (k_break k c).
Qed.

Lemma nobreaks_app_list k P l : nobreaks k (P ++ l) = nobreaks k P ++ nobreaks k l.
Proof. unfold nobreaks. apply filter_app. Qed.

Lemma glyph_nil_of k P : nobreaks k P = [] -> glyph k P = [].
Proof. unfold glyph. now intros ->. Qed.

Lemma glyph_snoc_break k P c : k_break k c = true -> glyph k (P ++ [c]) = glyph k P.
Proof. intros H. unfold glyph. rewrite nobreaks_app, H. now rewrite app_nil_r. Qed.

Lemma glyph_snoc_later k P c : nobreaks k P <> [] -> glyph k (P ++ [c]) = glyph k P.
Proof.
  intros H. unfold glyph. rewrite nobreaks_app.
  destruct (nobreaks k P) as [|x xs]; [congruence|]. reflexivity.
Qed.

Lemma glyph_snoc_first k P c :
  nobreaks k P = [] -> k_break k c = false ->
  glyph k (P ++ [c]) = if k_comb k c then [NULL_GLYPH] else [].
Proof. intros H B. unfold glyph. rewrite nobreaks_app, H, B. reflexivity. Qed.

(* ------------------------------------------------------------------ *)
(* what one step does to [out] *)

Inductive out_step (k : kw) (c : char) (o o' : list token) : Prop :=
| os_break : k_break k c = true -> o' = o -> out_step k c o o'
| os_app t r : k_break k c = false -> o = t :: r -> o' = (t ++ [c]) :: r -> out_step k c o o'
| os_new : k_break k c = false -> k_comb k c = false -> o' = [c] :: o -> out_step k c o o'
| os_glyph : k_break k c = false -> k_comb k c = true -> o = [] -> o' = [[NULL_GLYPH; c]] ->
             out_step k c o o'.

(* the flags that promise a previous token *)
Definition flags_ok (s : st) : Prop :=
  (s_start s = false -> s_out s <> []) /\ (s_vowel s = true -> s_out s <> []) /\
  (s_tone s = true -> s_out s <> []) /\ (s_merge s = true -> s_out s <> []) /\
  (s_nasal s = true -> s_out s <> []).

Lemma pre_nasal_out k s c :
  (pre_nasal k s c = s) \/
  (s_nasal s = true /\ s_out (pre_nasal k s c) = k_placeholder k :: s_out s /\
   s_nasal (pre_nasal k s c) = false /\ s_start (pre_nasal k s c) = s_start s /\
   s_vowel (pre_nasal k s c) = s_vowel s /\ s_tone (pre_nasal k s c) = s_tone s /\
   s_merge (pre_nasal k s c) = s_merge s).
Proof.
  unfold pre_nasal. destruct (s_nasal s) eqn:N; [|now left].
  destruct (negb (k_vowel k c) && negb (k_diac k c)); [right|now left]. cbn. auto 10.
Qed.

Lemma pre_nasal_flags k s c : flags_ok s -> flags_ok (pre_nasal k s c).
Proof.
  intros F. destruct (pre_nasal_out k s c) as [->|(N & O & N' & S & V & T & M)]; [exact F|].
  unfold flags_ok. rewrite O, N'. repeat split; intros; discriminate.
Qed.

Lemma pre_nasal_noexpand k s c : s_nasal s = false -> pre_nasal k s c = s.
Proof. unfold pre_nasal. now intros ->. Qed.

Ltac ne_out :=
  match goal with
  | H : ?a = false -> ?o <> [], E : ?a = false, O : ?o = [] |- _ => exfalso; exact (H E O)
  | H : ?a = true -> ?o <> [], E : ?a = true, O : ?o = [] |- _ => exfalso; exact (H E O)
  end.

(* the core case analysis: a step from a state whose flags are consistent never hits the
   IndexError, changes [out] in one of the four ways, and keeps the flags consistent *)
Lemma step1_ok k s c :
  flags_ok s ->
  exists s', (let s := s in
    if k_break k c then
      Some (mk_st (s_out s) false false false true (s_nasal s))
    else if k_comb k c then
      match s_out s with
      | [] => Some (mk_st [[NULL_GLYPH; c]] (s_vowel s) (s_tone s) false (s_start s) (s_nasal s))
      | t :: r => Some (mk_st ((t ++ [c]) :: r) (s_vowel s) (s_tone s) true (s_start s) (s_nasal s))
      end
    else if k_stress k c then
      Some (mk_st ([c] :: s_out s) false false true false (s_nasal s))
    else if s_merge s then
      option_map (fun o => mk_st o (if k_vowel k c then true else s_vowel s) (s_tone s) false
                                 (s_start s) (s_nasal s))
                 (app_last (s_out s) c)
    else if k_expand_nasals k && (c =? NASAL_CHAR) && s_vowel s then
      option_map (fun o => mk_st o (s_vowel s) (s_tone s) (s_merge s) false true)
                 (app_last (s_out s) c)
    else
      match semi_cond k s c with
      | None => None
      | Some true => option_map (with_out s) (app_last (s_out s) c)
      | Some false =>
        if k_diac k c then
          if negb (s_start s) then option_map (with_out s) (app_last (s_out s) c)
          else Some (mk_st ([c] :: s_out s) (s_vowel s) (s_tone s) true false (s_nasal s))
        else if k_vowel k c then
          let nas := if k_expand_nasals k && memc NASALS c then true else s_nasal s in
          if s_vowel s && k_merge_vowels k then
            option_map (fun o => mk_st o (s_vowel s) false (s_merge s) false nas)
                       (app_last (s_out s) c)
          else Some (mk_st ([c] :: s_out s) true false (s_merge s) false nas)
        else if k_tone k c then
          if s_tone s then
            option_map (fun o => mk_st o false (s_tone s) (s_merge s) false (s_nasal s))
                       (app_last (s_out s) c)
          else Some (mk_st ([c] :: s_out s) false true (s_merge s) false (s_nasal s))
        else
          Some (mk_st ([c] :: s_out s) false false (s_merge s) false (s_nasal s))
      end) = Some s' /\
    out_step k c (s_out s) (s_out s') /\ flags_ok s' /\
    (k_expand_nasals k = false -> s_nasal s = false -> s_nasal s' = false).
Proof.
  intros (Fs & Fv & Ft & Fm & Fn). cbv zeta.
  destruct (k_break k c) eqn:B.
  { eexists; split; [reflexivity|]. cbn. split; [now apply os_break|].
    split; [|auto]. unfold flags_ok; cbn. repeat split; try discriminate. exact Fn. }
  destruct (k_comb k c) eqn:C.
  { destruct (s_out s) as [|t r] eqn:O.
    - eexists; split; [reflexivity|]. cbn. split; [now apply os_glyph|].
      split; [|auto]. unfold flags_ok; cbn. repeat split; intros; discriminate.
    - eexists; split; [reflexivity|]. cbn. split; [now apply (os_app k c _ _ t r)|].
      split; [|auto]. unfold flags_ok; cbn. repeat split; intros; discriminate. }
  assert (NEW : forall v t m st n,
             (k_expand_nasals k = false -> s_nasal s = false -> n = false) ->
             exists s', Some (mk_st ([c] :: s_out s) v t m st n) = Some s' /\
                        out_step k c (s_out s) (s_out s') /\ flags_ok s' /\
                        (k_expand_nasals k = false -> s_nasal s = false -> s_nasal s' = false)).
  { intros v t m st n Hn. eexists; split; [reflexivity|]. cbn. split; [now apply os_new|].
    split; [|exact Hn]. unfold flags_ok; cbn. repeat split; intros; discriminate. }
  assert (APP : forall (f : list token -> st),
             s_out s <> [] -> (forall o, s_out (f o) = o) ->
             (k_expand_nasals k = false -> s_nasal s = false -> forall o, s_nasal (f o) = false) ->
             exists s', option_map f (app_last (s_out s) c) = Some s' /\
                        out_step k c (s_out s) (s_out s') /\ flags_ok s' /\
                        (k_expand_nasals k = false -> s_nasal s = false -> s_nasal s' = false)).
  { intros f NE Hf Hn. destruct (s_out s) as [|t r] eqn:O; [congruence|]. cbn.
    eexists; split; [reflexivity|]. rewrite Hf. split; [now apply (os_app k c _ _ t r)|].
    split; [|intros E N; now apply Hn].
    unfold flags_ok. rewrite Hf. repeat split; intros; discriminate. }
  destruct (k_stress k c) eqn:S; [apply NEW; auto|].
  destruct (s_merge s) eqn:M.
  { apply APP; [now apply Fm|reflexivity|cbn; auto]. }
  destruct (k_expand_nasals k && (c =? NASAL_CHAR) && s_vowel s) eqn:X.
  { apply andb_true_iff in X. destruct X as [X V]. apply andb_true_iff in X. destruct X as [X _].
    apply APP; [now apply Fv|reflexivity|]. intros E; congruence. }
  unfold semi_cond.
  destruct (k_semi k c && negb (s_start s) && negb (s_vowel s) && negb (s_tone s)) eqn:SC.
  { apply andb_true_iff in SC. destruct SC as [SC _]. apply andb_true_iff in SC. destruct SC as [SC _].
    apply andb_true_iff in SC. destruct SC as [_ SS]. apply negb_true_iff in SS.
    assert (SCv : exists b, match s_out s with [] => None | t :: _ => Some (negb (substrb t NOGOS)) end = Some b).
    { destruct (s_out s) as [|t r]; [exfalso; exact (Fs SS eq_refl)|eexists; reflexivity]. }
    destruct SCv as [b Hb]. rewrite Hb. destruct b.
    - apply APP; [now apply Fs|reflexivity|cbn; auto].
    - destruct (k_diac k c).
      + destruct (s_start s) eqn:SS'; [discriminate|]. cbn [negb].
        apply APP; [now apply Fs|reflexivity|cbn; auto].
      + destruct (k_vowel k c).
        * destruct (s_vowel s && k_merge_vowels k) eqn:VM.
          -- apply andb_true_iff in VM. destruct VM as [V _].
             apply APP; [now apply Fv|reflexivity|].
             cbn. intros E N o. rewrite E. exact N.
          -- apply NEW. intros E N. rewrite E. exact N.
        * destruct (k_tone k c).
          -- destruct (s_tone s) eqn:T.
             ++ apply APP; [now apply Ft|reflexivity|cbn; auto].
             ++ apply NEW; auto.
          -- apply NEW; auto. }
  destruct (k_diac k c).
  { destruct (s_start s) eqn:SS'; cbn [negb].
    - apply NEW; auto.
    - apply APP; [now apply Fs|reflexivity|cbn; auto]. }
  destruct (k_vowel k c).
  { destruct (s_vowel s && k_merge_vowels k) eqn:VM.
    - apply andb_true_iff in VM. destruct VM as [V _].
      apply APP; [now apply Fv|reflexivity|].
      cbn. intros E N o. rewrite E. exact N.
    - apply NEW. intros E N. rewrite E. exact N. }
  destruct (k_tone k c).
  { destruct (s_tone s) eqn:T.
    - apply APP; [now apply Ft|reflexivity|cbn; auto].
    - apply NEW; auto. }
  apply NEW; auto.
Qed.

Lemma step_ok k s c :
  flags_ok s ->
  exists s', step k s c = Some s' /\
             out_step k c (s_out (pre_nasal k s c)) (s_out s') /\ flags_ok s' /\
             (k_expand_nasals k = false -> s_nasal s = false -> s_nasal s' = false).
Proof.
  intros F. destruct (step1_ok k (pre_nasal k s c) c (pre_nasal_flags k s c F)) as (s' & E & O & F' & N).
  exists s'. split; [exact E|]. split; [exact O|]. split; [exact F'|].
  intros X Y. apply N; [exact X|]. now rewrite pre_nasal_noexpand.
Qed.

(* ------------------------------------------------------------------ *)
(* invariants *)

Definition ne_tokens (o : list token) : Prop := Forall (fun t => t <> []) o.

(* holds for every setting (placeholder non-empty or never used) *)
Record shape (k : kw) (P : list char) (s : st) : Prop := {
  sh_flags : flags_ok s;
  sh_ne : ne_tokens (s_out s);
  sh_nil : s_out s = [] <-> nobreaks k P = []
}.

Lemma out_step_shape k c o o' P :
  out_step k c o o' -> ne_tokens o -> (o <> [] -> nobreaks k P <> []) ->
  ne_tokens o' /\ (o' = [] <-> (o = [] /\ k_break k c = true)).
Proof.
  intros [B ->|t r B -> ->|B C ->|B C -> ->] NE NB.
  - split; [exact NE|]. tauto.
  - split.
    + inversion NE; subst. constructor; [|assumption]. now destruct t.
    + split; [discriminate|]. intros [? ?]; discriminate.
  - split; [constructor; [discriminate|exact NE]|]. split; [discriminate|]. intros [_ ?]; congruence.
  - split; [constructor; [discriminate|constructor]|]. split; [discriminate|]. intros [_ ?]; congruence.
Qed.

Lemma step_shape k P s c :
  (k_expand_nasals k = false \/ k_placeholder k <> []) ->
  (k_expand_nasals k = false -> s_nasal s = false) ->
  shape k P s ->
  exists s', step k s c = Some s' /\ shape k (P ++ [c]) s' /\
             (k_expand_nasals k = false -> s_nasal s' = false) /\
             out_step k c (s_out (pre_nasal k s c)) (s_out s').
Proof.
  intros PH NX [F NE NIL].
  destruct (step_ok k s c F) as (s' & E & O & F' & N).
  exists s'. split; [exact E|].
  assert (NE1 : ne_tokens (s_out (pre_nasal k s c))).
  { destruct (pre_nasal_out k s c) as [->|(Nt & Eo & _)]; [exact NE|]. rewrite Eo.
    constructor; [|exact NE]. destruct PH as [X|X]; [|exact X]. pose proof (NX X). congruence. }
  assert (NIL1 : s_out (pre_nasal k s c) = [] <-> nobreaks k P = []).
  { destruct (pre_nasal_out k s c) as [->|(Nt & Eo & _)]; [exact NIL|]. rewrite Eo.
    destruct F as (_ & _ & _ & _ & Fn). split; [discriminate|]. intros Z. exfalso. apply (Fn Nt). now apply NIL. }
  destruct (out_step_shape k c _ _ P O NE1) as [NE' NIL'].
  { intros X Y. apply X. now apply NIL1. }
  split; [|split; [intros X; apply N; auto|exact O]].
  constructor; [exact F'|exact NE'|].
  rewrite NIL', NIL1, nobreaks_app. destruct (k_break k c).
  - rewrite app_nil_r. tauto.
  - split; [intros [_ ?]; discriminate|]. intros X. apply app_eq_nil in X. destruct X; discriminate.
Qed.

Lemma loop_shape k :
  (k_expand_nasals k = false \/ k_placeholder k <> []) ->
  forall l P s, (k_expand_nasals k = false -> s_nasal s = false) -> shape k P s ->
  exists f, loop k l s = Some f /\ shape k (P ++ l) f /\ (k_expand_nasals k = false -> s_nasal f = false).
Proof.
  intros PH. induction l as [|c l IH]; intros P s NX SH.
  - exists s. rewrite app_nil_r. auto.
  - destruct (step_shape k P s c PH NX SH) as (s' & E & SH' & NX' & _).
    cbn [loop]. rewrite E. destruct (IH (P ++ [c]) s' NX' SH') as (f & L & SF & NF).
    exists f. rewrite <- app_assoc in SF. auto.
Qed.

(* concatenation: expand_nasals = False *)
Lemma step_flat k P s c s' :
  k_expand_nasals k = false -> s_nasal s = false -> shape k P s ->
  flat (s_out s) = glyph k P ++ nobreaks k P ->
  step k s c = Some s' ->
  out_step k c (s_out (pre_nasal k s c)) (s_out s') ->
  flat (s_out s') = glyph k (P ++ [c]) ++ nobreaks k (P ++ [c]).
Proof.
  intros X N [F NE NIL] FL E O. rewrite (pre_nasal_noexpand k s c N) in O.
  rewrite nobreaks_app.
  destruct O as [B ->|t r B Eo ->|B C ->|B C Eo ->].
  - rewrite B, app_nil_r, glyph_snoc_break by exact B. exact FL.
  - rewrite B, flat_app_last, <- Eo, FL.
    rewrite glyph_snoc_later; [now rewrite app_assoc|].
    intros Z. apply NIL in Z. congruence.
  - rewrite B, flat_new, FL.
    destruct (nobreaks k P) as [|x xs] eqn:NB.
    + rewrite glyph_snoc_first, C by assumption. rewrite (glyph_nil_of k P NB). reflexivity.
    + rewrite glyph_snoc_later by (rewrite NB; discriminate). now rewrite app_assoc.
  - rewrite B. assert (NB : nobreaks k P = []) by now apply NIL.
    rewrite glyph_snoc_first, C, NB by assumption. reflexivity.
Qed.

Lemma loop_flat k :
  k_expand_nasals k = false ->
  forall l P s f, s_nasal s = false -> shape k P s ->
  flat (s_out s) = glyph k P ++ nobreaks k P ->
  loop k l s = Some f ->
  flat (s_out f) = glyph k (P ++ l) ++ nobreaks k (P ++ l).
Proof.
  intros X. induction l as [|c l IH]; intros P s f N SH FL L.
  - cbn in L. injection L as <-. now rewrite app_nil_r.
  - destruct (step_shape k P s c (or_introl X) (fun _ => N) SH) as (s' & E & SH' & NX' & O).
    cbn [loop] in L. rewrite E in L.
    specialize (IH (P ++ [c]) s' f (NX' X) SH' (step_flat k P s c s' X N SH FL E O) L).
    now rewrite <- app_assoc in IH.
Qed.

Lemma init_shape k : shape k [] init_st.
Proof.
  constructor; cbn.
  - unfold flags_ok; cbn. repeat split; intros; discriminate.
  - constructor.
  - tauto.
Qed.

(* ------------------------------------------------------------------ *)
(* merge_geminates *)

Lemma gem_go_concat cur prev rest : concat (gem_go cur prev rest) = cur ++ concat rest.
Proof.
  revert cur prev. induction rest as [|b r IH]; intros cur prev; cbn [gem_go].
  - cbn. reflexivity.
  - destruct (tok_eqb prev b).
    + rewrite IH. cbn. now rewrite app_assoc.
    + cbn. now rewrite IH.
Qed.

Lemma gem_go_ne cur prev rest :
  cur <> [] -> ne_tokens rest -> ne_tokens (gem_go cur prev rest).
Proof.
  revert cur prev. induction rest as [|b r IH]; intros cur prev C NE; cbn [gem_go].
  - constructor; [exact C|constructor].
  - inversion NE; subst. destruct (tok_eqb prev b).
    + apply IH; [|assumption]. now destruct cur.
    + constructor; [exact C|]. now apply IH.
Qed.

Lemma ne_tokens_rev o : ne_tokens o -> ne_tokens (rev o).
Proof. unfold ne_tokens. rewrite !Forall_forall. intros H x Hx. apply H. now apply in_rev. Qed.

(* ------------------------------------------------------------------ *)
(* the theorems *)

Lemma memc_In s c : memc s c = true <-> In c s.
Proof.
  unfold memc. rewrite existsb_exists. split.
  - intros (x & Hx & E). apply Z.eqb_eq in E. now subst.
  - intros H. exists c. split; [exact H|apply Z.eqb_refl].
Qed.

Lemma final_out_noexpand k f : s_nasal f = false -> final_out k f = rev (s_out f).
Proof. unfold final_out. now intros ->. Qed.

(* tokens concatenate to the input with the breaks removed (+ null glyph rule) *)
Theorem ipa2tokens_concat k s toks :
  k_expand_nasals k = false ->
  ipa2tokens k s = Ok toks ->
  concat toks = glyph k s ++ nobreaks k s.
Proof.
  intros X. unfold ipa2tokens. destruct (memc s BLANK); [discriminate|].
  destruct (loop k s init_st) as [f|] eqn:L; [|discriminate].
  destruct (loop_shape k (or_introl X) s [] init_st (fun _ => eq_refl) (init_shape k)) as (f' & L' & SH & NF).
  rewrite L in L'. injection L' as <-.
  pose proof (loop_flat k X s [] init_st f eq_refl (init_shape k) eq_refl L) as FL. cbn [app] in FL.
  rewrite (final_out_noexpand k f (NF X)). unfold flat in FL.
  destruct (k_merge_geminates k).
  - unfold merge_gem. destruct (rev (s_out f)) as [|a r] eqn:R; [discriminate|].
    intros E. injection E as <-. rewrite gem_go_concat. rewrite <- FL. reflexivity.
  - intros E. injection E as <-. exact FL.
Qed.

(* no token is empty *)
Theorem ipa2tokens_nonempty k s toks :
  (k_expand_nasals k = false \/ k_placeholder k <> []) ->
  ipa2tokens k s = Ok toks ->
  Forall (fun t => t <> []) toks.
Proof.
  intros PH. unfold ipa2tokens. destruct (memc s BLANK); [discriminate|].
  destruct (loop_shape k PH s [] init_st (fun _ => eq_refl) (init_shape k)) as (f & L & [F NE NIL] & NF).
  rewrite L.
  assert (NEF : ne_tokens (final_out k f)).
  { unfold final_out. apply ne_tokens_rev. destruct (s_nasal f) eqn:N; [|exact NE].
    constructor; [|exact NE]. destruct PH as [X|X]; [|exact X]. pose proof (NF X). congruence. }
  destruct (k_merge_geminates k).
  - unfold merge_gem. destruct (final_out k f) as [|a r]; [discriminate|].
    intros E. injection E as <-. inversion NEF; subst. now apply gem_go_ne.
  - intros E. injection E as <-. exact NEF.
Qed.

(* the complete outcome table: which exception, exactly when (every setting) *)
Theorem ipa2tokens_outcome k s :
  (k_expand_nasals k = false \/ k_placeholder k <> []) ->
  match ipa2tokens k s with
  | Ok _ => memc s BLANK = false /\ (k_merge_geminates k = true -> nobreaks k s <> [])
  | ValueErr => memc s BLANK = true
  | IndexErr => memc s BLANK = false /\ k_merge_geminates k = true /\ nobreaks k s = []
  | KeyErr => False
  end.
Proof.
  intros PH. unfold ipa2tokens. destruct (memc s BLANK) eqn:Bk; [reflexivity|].
  destruct (loop_shape k PH s [] init_st (fun _ => eq_refl) (init_shape k)) as (f & L & [F NE NIL] & NF).
  rewrite L. cbn [app] in NIL.
  assert (FO : final_out k f = [] <-> nobreaks k s = []).
  { unfold final_out. destruct (s_nasal f) eqn:N.
    - destruct F as (_ & _ & _ & _ & Fn). split.
      + intros Z. cbn [rev] in Z. apply app_eq_nil in Z. destruct Z; discriminate.
      + intros Z. exfalso. apply (Fn N). now apply NIL.
    - rewrite <- NIL. split; intros Z.
      + rewrite <- (rev_involutive (s_out f)), Z. reflexivity.
      + now rewrite Z. }
  destruct (k_merge_geminates k).
  - unfold merge_gem. destruct (final_out k f) as [|a r] eqn:E.
    + split; [reflexivity|]. split; [reflexivity|]. now apply FO.
    + split; [reflexivity|]. intros _ Z. apply FO in Z. discriminate.
  - split; [reflexivity|discriminate].
Qed.

Corollary ipa2tokens_error_iff k s :
  (k_expand_nasals k = false \/ k_placeholder k <> []) ->
  (ipa2tokens k s = IndexErr <->
   (memc s BLANK = false /\ k_merge_geminates k = true /\ nobreaks k s = [])) /\
  (ipa2tokens k s = ValueErr <-> memc s BLANK = true) /\
  ((exists toks, ipa2tokens k s = Ok toks) <->
   (memc s BLANK = false /\ (k_merge_geminates k = true -> nobreaks k s <> []))).
Proof.
  intros PH. pose proof (ipa2tokens_outcome k s PH) as H.
  destruct (ipa2tokens k s) as [toks| | |] eqn:E; cbv beta iota in H.
  - destruct H as [H1 H2]. split; [|split].
    + split; [discriminate|]. intros (_ & M & Z). exfalso. exact (H2 M Z).
    + split; [discriminate|]. intros Z. congruence.
    + split; [intros _; split; assumption|]. intros _. now exists toks.
  - destruct H as (H1 & H2 & H3). split; [|split].
    + split; [intros _; auto|reflexivity].
    + split; [discriminate|]. intros Z. congruence.
    + split; [intros (t & Z); discriminate|]. intros (_ & Z). exfalso. exact (Z H2 H3).
  - split; [|split].
    + split; [discriminate|]. intros (Z & _). congruence.
    + split; [intros _; exact H|reflexivity].
    + split; [intros (t & Z); discriminate|]. intros (Z & _). congruence.
  - destruct H.
Qed.
