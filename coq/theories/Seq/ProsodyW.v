(* C14 - model of prosodic_weights (sound_classes.py:1022-1118).  The two default
   dictionaries are the GENERATED LVGen.ProsodyWeights tables. *)
From Coq Require Import ZArith QArith List Bool.
From LV Require Import Common.Cases Seq.SeqCommon Seq.Prosody.
From LVGen Require Import ProsodyWeights.
Import ListNotations.

(* _transform: a user dictionary (an empty one is falsy and selects the defaults) *)
Definition prosodic_weights (user : list (Z * Q)) (ps : list Z) : res (list Q) :=
  let tbl := match user with
             | _ :: _ => user
             | [] => if existsb (Z.eqb sT) ps then pw_tonal else pw_plain
             end in
  map_key tbl ps.
