(* C14 - class2tokens: for ALL inputs the loop equals the specification function [weave]
   (a gap is put BEFORE the token that the next non-gap class stands for; when the tokens run
   out the remaining gaps are appended); hence removing the gaps gives back the tokens, and -
   when the class string has one non-gap class per token - the output has exactly the gap
   pattern of the class string.  Same for the local form on the slice. *)
From Coq Require Import ZArith List Bool Lia Arith.
From LV Require Import Common.Cases Seq.SeqCommon Seq.Token2Class Seq.Token2ClassProofs Seq.ClassTokens.
Import ListNotations.
Local Open Scope nat_scope.

Lemma insert_at_end {A} i (x : A) l : length l <= i -> insert_at i x l = l ++ [x].
Proof. intros H. unfold insert_at. now rewrite firstn_all2, skipn_all2 by exact H. Qed.

Lemma insert_at_mid {A} (x : A) done rest : insert_at (length done) x (done ++ rest) = done ++ x :: rest.
Proof.
  unfold insert_at. rewrite firstn_app, skipn_app, Nat.sub_diag, firstn_all, skipn_all.
  cbn. now rewrite app_nil_r.
Qed.

Lemma c2t_loop_past gap : forall classes i out,
  length out <= i -> c2t_loop gap i classes out = out ++ repeat gap (gaps classes).
Proof.
  induction classes as [|c r IH]; intros i out H; cbn [c2t_loop].
  - cbn. now rewrite app_nil_r.
  - unfold gaps. cbn [filter]. destruct (is_gap_class c).
    + rewrite insert_at_end by exact H. rewrite IH by (rewrite app_length; cbn; lia).
      cbn [length repeat]. now rewrite <- app_assoc.
    + apply IH. lia.
Qed.

Lemma c2t_loop_weave gap : forall classes done rest,
  c2t_loop gap (length done) classes (done ++ rest) = done ++ weave gap classes rest.
Proof.
  induction classes as [|c r IH]; intros done rest; cbn [c2t_loop weave]; [reflexivity|].
  destruct (is_gap_class c).
  - rewrite insert_at_mid.
    replace (S (length done)) with (length (done ++ [gap])) by (rewrite app_length; cbn; lia).
    replace (done ++ gap :: rest) with ((done ++ [gap]) ++ rest) by (now rewrite <- app_assoc).
    rewrite IH. now rewrite <- app_assoc.
  - destruct rest as [|t rest'].
    + rewrite c2t_loop_past by (rewrite app_length; cbn; lia). now rewrite app_nil_r.
    + replace (S (length done)) with (length (done ++ [t])) by (rewrite app_length; cbn; lia).
      replace (done ++ t :: rest') with ((done ++ [t]) ++ rest') by (now rewrite <- app_assoc).
      rewrite IH. now rewrite <- app_assoc.
Qed.

(* the function equals its specification on every input *)
Theorem class2tokens_weave gap tokens classes :
  class2tokens gap tokens classes = weave gap classes tokens.
Proof. unfold class2tokens. exact (c2t_loop_weave gap classes [] tokens). Qed.

Theorem class2tokens_local_weave gap tokens pre mid suf :
  class2tokens_local gap tokens pre mid suf =
  weave gap mid (local_slice tokens (length pre) (length suf)).
Proof. unfold class2tokens_local. exact (c2t_loop_weave gap mid [] _). Qed.

(* ------------------------------------------------------------------ *)
(* consequences of the specification *)

Lemma degap_id gap l : ~ In gap l -> degap gap l = l.
Proof.
  induction l as [|t r IH]; intros H; [reflexivity|]. cbn [degap filter].
  destruct (tok_eqb t gap) eqn:E.
  - apply tok_eqb_eq in E. subst. exfalso. apply H. now left.
  - cbn [negb]. f_equal. apply IH. intros Z. apply H. now right.
Qed.

Lemma degap_repeat gap n : degap gap (repeat gap n) = [].
Proof.
  induction n as [|n IH]; [reflexivity|]. cbn [repeat degap filter].
  assert (E : tok_eqb gap gap = true) by now apply tok_eqb_eq. rewrite E. exact IH.
Qed.

Lemma weave_degap gap : forall classes rest, degap gap (weave gap classes rest) = degap gap rest.
Proof.
  induction classes as [|c r IH]; intros rest; cbn [weave]; [reflexivity|].
  assert (E : tok_eqb gap gap = true) by now apply tok_eqb_eq.
  destruct (is_gap_class c).
  - cbn [degap filter]. rewrite E. cbn [negb]. apply IH.
  - destruct rest as [|t rest']; [apply degap_repeat|].
    cbn [degap filter]. destruct (negb (tok_eqb t gap)); [f_equal|]; apply IH.
Qed.

(* removing the inserted gaps gives back exactly the tokens: nothing lost, duplicated, reordered *)
Theorem class2tokens_degap gap tokens classes :
  ~ In gap tokens -> degap gap (class2tokens gap tokens classes) = tokens.
Proof. intros H. rewrite class2tokens_weave, weave_degap. now apply degap_id. Qed.

Lemma weave_pattern gap : forall classes rest,
  ~ In gap rest -> nongaps classes = length rest ->
  Forall2 (fun o c => o = gap <-> is_gap_class c = true) (weave gap classes rest) classes.
Proof.
  induction classes as [|c r IH]; intros rest NI L; unfold nongaps in L; cbn [filter] in L.
  - destruct rest; [constructor|cbn in L; discriminate].
  - cbn [weave]. destruct (is_gap_class c) eqn:G; cbn [negb] in L.
    + constructor; [tauto|]. apply IH; assumption.
    + destruct rest as [|t rest']; cbn [length] in L; [discriminate|].
      constructor.
      * split; [|intros Z; rewrite G in Z; discriminate Z]. intros ->. exfalso. apply NI. now left.
      * apply IH; [|unfold nongaps; lia]. intros Z. apply NI. now right.
Qed.

(* when the class string has one non-gap class per token, the output has the length of the
   class string and a gap exactly where the class string has a gap class *)
Theorem class2tokens_pattern gap tokens classes :
  ~ In gap tokens -> nongaps classes = length tokens ->
  Forall2 (fun o c => o = gap <-> is_gap_class c = true) (class2tokens gap tokens classes) classes.
Proof. intros H L. rewrite class2tokens_weave. now apply weave_pattern. Qed.

Lemma weave_length gap : forall classes rest,
  length (weave gap classes rest) = length rest + gaps classes.
Proof.
  induction classes as [|c r IH]; intros rest; cbn [weave]; unfold gaps; cbn [filter]; [cbn; lia|].
  destruct (is_gap_class c).
  - cbn [length]. rewrite IH. unfold gaps. lia.
  - destruct rest as [|t rest']; [rewrite repeat_length; reflexivity|].
    cbn [length]. rewrite IH. unfold gaps. lia.
Qed.

Theorem class2tokens_length gap tokens classes :
  length (class2tokens gap tokens classes) = length tokens + gaps classes.
Proof. rewrite class2tokens_weave. apply weave_length. Qed.

(* the local form: the same three facts about the slice tokens[prefix:suffix] *)
Lemma in_firstn {A} n : forall (l : list A) x, In x (firstn n l) -> In x l.
Proof.
  induction n as [|n IH]; intros l x H; [destruct H|]. destruct l as [|y l]; [destruct H|].
  cbn [firstn] in H. destruct H as [<-|H]; [now left|right; now apply IH].
Qed.

Lemma in_skipn {A} n : forall (l : list A) x, In x (skipn n l) -> In x l.
Proof.
  induction n as [|n IH]; intros l x H; [exact H|]. destruct l as [|y l]; [destruct H|].
  right. now apply IH.
Qed.

Lemma local_slice_incl tokens p s t : In t (local_slice tokens p s) -> In t tokens.
Proof. unfold local_slice. intros H. apply in_skipn in H. now apply in_firstn in H. Qed.

Theorem class2tokens_local_spec gap tokens pre mid suf :
  ~ In gap tokens ->
  let sl := local_slice tokens (length pre) (length suf) in
  degap gap (class2tokens_local gap tokens pre mid suf) = sl /\
  (nongaps mid = length sl ->
   Forall2 (fun o c => o = gap <-> is_gap_class c = true) (class2tokens_local gap tokens pre mid suf) mid).
Proof.
  intros H sl.
  assert (Hs : ~ In gap sl) by (intros Z; apply H; now apply local_slice_incl in Z).
  rewrite class2tokens_local_weave. fold sl. split.
  - rewrite weave_degap. now apply degap_id.
  - intros L. now apply weave_pattern.
Qed.
