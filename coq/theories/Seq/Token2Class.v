(* C14 - model of token2class / tokens2class (sound_classes.py:619-793).

   The sound-class model enters only through  model[token]  (KeyError when absent):
   an arbitrary partial map [conv : token -> option token].  The try/except chain is
   written out branch by branch.  [stress]/[diacritics] are always
   rcParams['stress'] / rcParams['diacritics'] (lines 665-666 and 784-785 override the
   arguments); they enter through  token[0] in ...  only: boolean predicates. *)
From Coq Require Import ZArith List Bool.
From LV Require Import Common.Cases Seq.SeqCommon.
Import ListNotations.
Local Open Scope Z_scope.

Definition SLASH : char := 47.
Definition UNKNOWN : token := [48].       (* '0' *)
Definition QMARK : token := [63].         (* '?' *)

(* token.split('/')[1]  when '/' in token: the text between the first and the second slash *)
Fixpoint after_slash (t : token) : option token :=
  match t with
  | [] => None
  | c :: r => if c =? SLASH then Some r else after_slash r
  end.

Fixpoint upto_slash (t : token) : token :=
  match t with
  | [] => []
  | c :: r => if c =? SLASH then [] else c :: upto_slash r
  end.

(* line 670:  token = token.split('/')[1] or '?' if '/' in token else token *)
Definition cldf_rewrite (t : token) : token :=
  match after_slash t with
  | None => t
  | Some r => match upto_slash r with
              | [] => QMARK
              | x => x
              end
  end.

Section T2C.
  Variable conv : token -> option token.
  Variable is_stress : char -> bool.
  Variable is_diac : char -> bool.

  (* lines 687-694 / 697-703:  model[token[1:]], then model[token[1]], then '0';
     [rest] is token[1:], non-empty where this is reached *)
  Definition after_first (rest : token) : res token :=
    match conv rest with
    | Some c => Ok c
    | None => match rest with
              | [] => IndexErr                    (* token[1] *)
              | c1 :: _ => match conv [c1] with
                           | Some c => Ok c
                           | None => Ok UNKNOWN
                           end
              end
    end.

  Definition token2class (cldf : bool) (tok0 : token) : res token :=
    let tok := if cldf then cldf_rewrite tok0 else tok0 in
    match conv tok with
    | Some c => Ok c                                        (* 677 *)
    | None =>
      match tok with
      | [] => Ok UNKNOWN                                    (* 681-682: IndexError -> '0' *)
      | c0 :: rest =>
        match conv [c0] with
        | Some c => Ok c                                    (* 680 *)
        | None =>
          if is_stress c0 && (1 <? Z.of_nat (length tok)) then after_first rest        (* 686 *)
          else if is_diac c0 then                                                      (* 695 *)
                 if 1 <? Z.of_nat (length tok) then after_first rest else Ok UNKNOWN
               else Ok UNKNOWN
        end
      end
    end.

  (* the for loop of tokens2class: the first exception propagates *)
  Fixpoint map_res {A B} (f : A -> res B) (l : list A) : res (list B) :=
    match l with
    | [] => Ok []
    | x :: r => match f x with
                | Ok y => match map_res f r with
                          | Ok ys => Ok (y :: ys)
                          | IndexErr => IndexErr
                          | ValueErr => ValueErr
                          | KeyErr => KeyErr
                          end
                | IndexErr => IndexErr
                | ValueErr => ValueErr
                | KeyErr => KeyErr
                end
    end.

  Definition count_unknown (cls : list token) : nat :=
    length (filter (tok_eqb UNKNOWN) cls).

  (* lines 787-793; out.count('0') == len(out) raises ValueError (also for no tokens) *)
  Definition tokens2class (cldf : bool) (toks : list token) : res (list token) :=
    match map_res (token2class cldf) toks with
    | Ok cls => if Nat.eqb (count_unknown cls) (length cls) then ValueErr else Ok cls
    | e => e
    end.
End T2C.

(* a converter given as an association list; Python dict semantics = the LAST binding of a
   key wins when the table was built by successive assignments, so tables are rendered
   duplicate-free by the harness / translator and looked up first-match here *)
Fixpoint assoc_find (tbl : list (token * token)) (t : token) : option token :=
  match tbl with
  | [] => None
  | (k, v) :: r => if tok_eqb k t then Some v else assoc_find r t
  end.

(* the gap test of class2tokens,  c in '-X' *)
Definition GAPX : token := [45; 88].
Definition is_gap_class (c : token) : bool := substrb c GAPX.

(* int(t) for a plain ASCII digit string; anything else is outside the model (None) *)
Definition digit_val (c : char) : option Z :=
  if (48 <=? c) && (c <=? 57) then Some (c - 48) else None.

Fixpoint parse_digits (acc : Z) (t : token) : option Z :=
  match t with
  | [] => Some acc
  | c :: r => match digit_val c with
              | Some d => parse_digits (acc * 10 + d) r
              | None => None
              end
  end.

Definition parse_int (t : token) : option Z :=
  match t with
  | [] => None
  | _ => parse_digits 0 t
  end.
