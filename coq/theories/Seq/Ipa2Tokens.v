(* C14 - model of lingpy.sequence.sound_classes.ipa2tokens (sound_classes.py:16-242).

   Characters are code points.  The keyword strings (breaks, combiners, stress,
   diacritics, semi_diacritics, vowels, tones) enter only through  char in kw[...]
   tests, so they are modelled as arbitrary boolean predicates: everything proved
   here holds for every setting of those strings (overlapping classes included).
   The state machine performs one step per character and follows the if/elif
   order of the source exactly; an  out[-1]  access on an empty list is an explicit
   IndexError outcome ([None] of [step]), never a default. *)
From Coq Require Import ZArith List Bool.
From LV Require Import Common.Cases Seq.SeqCommon.
Import ListNotations.
Local Open Scope Z_scope.

Record kw := mk_kw {
  k_break : char -> bool;           (* char in kw['breaks'] *)
  k_comb : char -> bool;            (* char in kw['combiners'] *)
  k_stress : char -> bool;          (* char in kw['stress'] *)
  k_diac : char -> bool;            (* char in kw['diacritics'] *)
  k_semi : char -> bool;            (* char in semi_diacritics *)
  k_vowel : char -> bool;           (* char in kw['vowels'] *)
  k_tone : char -> bool;            (* char in kw['tones'] *)
  k_merge_vowels : bool;
  k_merge_geminates : bool;
  k_expand_nasals : bool;
  k_placeholder : token             (* rcParams['nasal_placeholder'] *)
}.

(* constants of the function body *)
Definition NULL_GLYPH : char := 8709.                         (* '∅' *)
Definition NASAL_CHAR : char := 771.                          (* "̃" *)
Definition NASALS : list char := [227; 361; 7869; 297; 245].  (* 'ãũẽĩõ' *)
Definition NOGOS : token := [95; 9702; 43].                   (* "_◦+" *)
Definition BLANK : char := 32.

(* [s_out] is the list  out  REVERSED: its head is  out[-1]. *)
Record st := mk_st {
  s_out : list token;
  s_vowel : bool;
  s_tone : bool;
  s_merge : bool;
  s_start : bool;
  s_nasal : bool
}.

Definition init_st : st := mk_st [] false false false true false.

(* out[-1] += char *)
Definition app_last (o : list token) (c : char) : option (list token) :=
  match o with
  | [] => None
  | t :: r => Some ((t ++ [c]) :: r)
  end.

(* lines 134-137 *)
Definition pre_nasal (k : kw) (s : st) (c : char) : st :=
  if s_nasal s then
    if negb (k_vowel k c) && negb (k_diac k c)
    then mk_st (k_placeholder k :: s_out s) (s_vowel s) (s_tone s) (s_merge s) (s_start s) false
    else s
  else s.

(* lines 185-186:  char in semi_diacritics and not start and not vowel and not tone
   and out[-1] not in nogos   (left to right, short-circuit) *)
Definition semi_cond (k : kw) (s : st) (c : char) : option bool :=
  if k_semi k c && negb (s_start s) && negb (s_vowel s) && negb (s_tone s) then
    match s_out s with
    | [] => None
    | t :: _ => Some (negb (substrb t NOGOS))
    end
  else Some false.

Definition with_out (s : st) (o : list token) : st :=
  mk_st o (s_vowel s) (s_tone s) (s_merge s) (s_start s) (s_nasal s).

(* one iteration of the loop, lines 132-226; None = IndexError *)
Definition step (k : kw) (s0 : st) (c : char) : option st :=
  let s := pre_nasal k s0 c in
  if k_break k c then
    Some (mk_st (s_out s) false false false true (s_nasal s))
  else if k_comb k c then
    match s_out s with
    | [] => Some (mk_st [[NULL_GLYPH; c]] (s_vowel s) (s_tone s) false (s_start s) (s_nasal s))
    | t :: r => Some (mk_st ((t ++ [c]) :: r) (s_vowel s) (s_tone s) true (s_start s) (s_nasal s))
    end
  else if k_stress k c then
    Some (mk_st ([c] :: s_out s) false false true false (s_nasal s))
  else if s_merge s then
    option_map (fun o => mk_st o (if k_vowel k c then true else s_vowel s) (s_tone s) false
                               (s_start s) (s_nasal s))
               (app_last (s_out s) c)
  else if k_expand_nasals k && (c =? NASAL_CHAR) && s_vowel s then
    option_map (fun o => mk_st o (s_vowel s) (s_tone s) (s_merge s) false true)
               (app_last (s_out s) c)
  else
    match semi_cond k s c with
    | None => None
    | Some true => option_map (with_out s) (app_last (s_out s) c)
    | Some false =>
      if k_diac k c then
        if negb (s_start s) then option_map (with_out s) (app_last (s_out s) c)
        else Some (mk_st ([c] :: s_out s) (s_vowel s) (s_tone s) true false (s_nasal s))
      else if k_vowel k c then
        let nas := if k_expand_nasals k && memc NASALS c then true else s_nasal s in
        if s_vowel s && k_merge_vowels k then
          option_map (fun o => mk_st o (s_vowel s) false (s_merge s) false nas)
                     (app_last (s_out s) c)
        else Some (mk_st ([c] :: s_out s) true false (s_merge s) false nas)
      else if k_tone k c then
        if s_tone s then
          option_map (fun o => mk_st o false (s_tone s) (s_merge s) false (s_nasal s))
                     (app_last (s_out s) c)
        else Some (mk_st ([c] :: s_out s) false true (s_merge s) false (s_nasal s))
      else
        Some (mk_st ([c] :: s_out s) false false (s_merge s) false (s_nasal s))
    end.

Fixpoint loop (k : kw) (l : list char) (s : st) : option st :=
  match l with
  | [] => Some s
  | c :: r => match step k s c with
              | None => None
              | Some s' => loop k r s'
              end
  end.

(* lines 231-240: new_out = [out[0]]; adjacent equal tokens OF THE UNMERGED LIST
   are glued.  [cur] is new_out[-1], [prev] is out[i]. *)
Fixpoint gem_go (cur prev : token) (rest : list token) : list token :=
  match rest with
  | [] => [cur]
  | b :: r => if tok_eqb prev b then gem_go (cur ++ b) b r
              else cur :: gem_go b b r
  end.

Definition merge_gem (o : list token) : res (list token) :=
  match o with
  | [] => IndexErr                 (* out[0] on an empty list *)
  | a :: r => Ok (gem_go a a r)
  end.

(* out after the loop, in source order *)
Definition final_out (k : kw) (s : st) : list token :=
  rev (if s_nasal s then k_placeholder k :: s_out s else s_out s).

Definition ipa2tokens (k : kw) (s : list char) : res (list token) :=
  if memc s BLANK then ValueErr
  else match loop k s init_st with
       | None => IndexErr
       | Some f =>
         if k_merge_geminates k then merge_gem (final_out k f)
         else Ok (final_out k f)
       end.

(* ------------------------------------------------------------------ *)
(* vocabulary of the specification *)

(* the input with the break characters removed *)
Definition nobreaks (k : kw) (s : list char) : list char :=
  filter (fun c => negb (k_break k c)) s.

(* the null-phoneme glyph is added exactly when the first non-break character
   is a combiner (a combining tie precedes any segment) *)
Definition glyph (k : kw) (s : list char) : list char :=
  match nobreaks k s with
  | c :: _ => if k_comb k c then [NULL_GLYPH] else []
  | [] => []
  end.

(* keyword strings given as code-point lists (the instance that is run) *)
Definition kw_of (breaks combs stress diacs semis vowels tones : list char)
           (mv mg ex : bool) (ph : token) : kw :=
  mk_kw (memc breaks) (memc combs) (memc stress) (memc diacs) (memc semis) (memc vowels)
        (memc tones) mv mg ex ph.
