(* C14 - proofs about prosodic_string / prosodic_weights.  The facts about the GENERATED
   loop body (LVGen.ProsodyStep.prosody_step) are proved by case analysis tactics that do not
   depend on the shape of the generated term, so they are re-established (or fail) for
   whatever the source file says on every run. *)
From Coq Require Import ZArith List Bool Lia ZifyBool.
From LV Require Import Common.Cases Seq.SeqCommon Seq.Token2Class Seq.Token2ClassProofs
     Seq.ProsodyBase Seq.Prosody.
From LVGen Require Import ProsodyStep ScTables.
Import ListNotations.
Local Open Scope Z_scope.

Ltac step_split :=
  unfold prosody_step, p_append, p_set_first, p_last, p_repl_last_append; cbv zeta;
  repeat match goal with
         | |- context [match ps_rev ?st with _ => _ end] => destruct (ps_rev st) eqn:?
         | |- context [if ?b then _ else _] => destruct b eqn:?
         end.

(* the  else: raise ValueError  branch of the chain is unreachable, for ALL integers a, b, c,
   either value of `first` and any string built so far *)
Theorem prosody_step_total a b c st : prosody_step a b c st <> PRaise.
Proof. step_split; try discriminate; exfalso; lia. Qed.

(* every iteration that ends normally emits exactly one symbol (the 'L'->'M' rewrite keeps
   the length) *)
Theorem prosody_step_len a b c st st' :
  prosody_step a b c st = POk st' -> length (ps_rev st') = S (length (ps_rev st)).
Proof.
  step_split; intros H; try discriminate; injection H as <-; cbn [ps_rev length];
    repeat match goal with E : ps_rev _ = _ |- _ => rewrite E end; reflexivity.
Qed.

(* pstring[-1] on an empty string can only be reached when nothing was emitted yet and the
   left neighbour is not the boundary value 9 - which never happens in the loop *)
Theorem prosody_step_index a b c st :
  prosody_step a b c st = PIndex -> ps_rev st = [] /\ a <> 9.
Proof.
  step_split; intros H; try discriminate; (split; [reflexivity || assumption|lia]).
Qed.

(* the emitted symbols *)
Definition pro_alphabet : list Z := [sA; sB; sC; sL; sM; sN; sX; sY; sZ; sT].
Definition in_pro (x : Z) : bool := memc pro_alphabet x.

Theorem prosody_step_alphabet a b c st st' :
  prosody_step a b c st = POk st' -> forallb in_pro (ps_rev st) = true ->
  forallb in_pro (ps_rev st') = true.
Proof.
  step_split; intros H; try discriminate; injection H as <-; cbn [ps_rev forallb];
    intros F;
    repeat match goal with E : ps_rev _ = _ |- _ => rewrite E in F; cbn [forallb] in F end;
    repeat match goal with
           | E : (_ =? _) = true |- _ => apply Z.eqb_eq in E; subst
           end;
    try (apply andb_true_iff in F; destruct F as [F1 F2]);
    rewrite ?F, ?F1, ?F2; reflexivity.
Qed.

(* ------------------------------------------------------------------ *)
(* the loop *)

Lemma pro_loop_ok : forall l prev st,
  (prev = 9 \/ ps_rev st <> []) ->
  exists st', pro_loop prev l st = POk st' /\
              length (ps_rev st') = (length l + length (ps_rev st))%nat /\
              (forallb in_pro (ps_rev st) = true -> forallb in_pro (ps_rev st') = true).
Proof.
  induction l as [|b r IH]; intros prev st G.
  - exists st. cbn. auto.
  - cbn [pro_loop].
    set (c := match r with [] => 9 | x :: _ => x end).
    destruct (prosody_step prev b c st) as [st1| |] eqn:E.
    + pose proof (prosody_step_len _ _ _ _ _ E) as L1.
      destruct (IH b st1) as (st' & E' & L' & A').
      { right. intros Z. rewrite Z in L1. discriminate. }
      exists st'. split; [exact E'|]. split; [cbn [length]; lia|].
      intros F. apply A'. exact (prosody_step_alphabet _ _ _ _ _ E F).
    + exfalso. exact (prosody_step_total _ _ _ _ E).
    + exfalso. apply prosody_step_index in E. destruct E as [E1 E2]. destruct G; contradiction.
Qed.

(* the core never raises and returns one symbol of the prosodic alphabet per value *)
Lemma pro_core_ok l :
  exists s, pro_core l = Ok s /\ length s = length l /\ forallb in_pro s = true.
Proof.
  unfold pro_core. destruct (pro_loop_ok l 9 init_pstate (or_introl eq_refl)) as (st & E & L & A).
  rewrite E. exists (rev (ps_rev st)). split; [reflexivity|]. split.
  - rewrite rev_length, L. cbn. lia.
  - specialize (A eq_refl). rewrite forallb_forall in *. intros x Hx. apply A. now apply in_rev.
Qed.

Lemma map_key_len {V} (tbl : list (Z * V)) l vs : map_key tbl l = Ok vs -> length vs = length l.
Proof.
  revert vs. induction l as [|x r IH]; intros vs; cbn [map_key].
  - intros H. injection H as <-. reflexivity.
  - destruct (zassoc tbl x); [|discriminate].
    destruct (map_key tbl r) as [v'| | |]; try discriminate.
    intros H. injection H as <-. cbn [length]. f_equal. now apply IH.
Qed.

Lemma map_key_total {V} (tbl : list (Z * V)) l :
  forallb (fun x => match zassoc tbl x with Some _ => true | None => false end) l = true ->
  exists vs, map_key tbl l = Ok vs.
Proof.
  induction l as [|x r IH]; cbn [forallb map_key]; [now exists []|].
  intros H. apply andb_true_iff in H. destruct H as [H1 H2].
  destruct (zassoc tbl x); [|discriminate]. destruct (IH H2) as (vs & ->). eexists; reflexivity.
Qed.

Lemma apply_mode_len m p s n :
  (forall s0, p = Ok s0 -> length s0 = n) -> apply_mode m p = Ok s -> length s = n.
Proof.
  intros H. unfold apply_mode. destruct p as [s0| | |]; try discriminate.
  specialize (H s0 eq_refl). destruct m; intros E.
  - injection E as <-. exact H.
  - apply map_key_len in E. congruence.
  - apply map_key_len in E. congruence.
  - apply map_key_len in E. congruence.
Qed.

Lemma pro_flat_len m l s : pro_flat m l = Ok s -> length s = length l.
Proof.
  unfold pro_flat. destruct l as [|x r].
  - intros H. injection H as <-. reflexivity.
  - apply apply_mode_len. intros s0 E. destruct (pro_core_ok (x :: r)) as (s1 & E1 & L1 & _). congruence.
Qed.

Fixpoint pieces_len (ps : list (list Z)) : nat :=
  match ps with
  | [] => 0
  | p :: rest => (length p + match rest with [] => 0 | _ :: _ => S (pieces_len rest) end)%nat
  end.

Lemma join_us_len m ps s : ps <> [] -> join_us m ps = Ok s -> length s = pieces_len ps.
Proof.
  revert s. induction ps as [|p rest IH]; intros s NE; [congruence|].
  destruct rest as [|q rest'].
  - cbn [join_us]. intros E. apply pro_flat_len in E. cbn [pieces_len]. lia.
  - change (join_us m (p :: q :: rest')) with
        (match pro_flat m p with
         | Ok s => match join_us m (q :: rest') with Ok t => Ok (s ++ sU :: t) | e => e end
         | e => e end).
    destruct (pro_flat m p) as [s1| | |] eqn:E1; try discriminate.
    destruct (join_us m (q :: rest')) as [t| | |] eqn:E2; try discriminate.
    intros H. injection H as <-. apply pro_flat_len in E1.
    specialize (IH t ltac:(discriminate) eq_refl).
    rewrite app_length. cbn [length]. rewrite E1, IH.
    change (pieces_len (p :: q :: rest')) with (length p + S (pieces_len (q :: rest')))%nat. lia.
Qed.

Lemma split9_len l : split9 l <> [] /\ pieces_len (split9 l) = length l.
Proof.
  induction l as [|x r [NE IH]]; [split; [discriminate|reflexivity]|].
  cbn [split9]. destruct (x =? 9).
  - split; [discriminate|]. destruct (split9 r) as [|h t] eqn:E; [congruence|].
    change (pieces_len ([] :: h :: t)) with (0 + S (pieces_len (h :: t)))%nat. cbn [length]. lia.
  - destruct (split9 r) as [|h t]; [congruence|]. split; [discriminate|].
    cbn [pieces_len length] in *. lia.
Qed.

(* the recursive calls never see a 9 (so they take the non-splitting path, as modelled) *)
Lemma split9_no9 l : Forall (fun p => has9 p = false) (split9 l).
Proof.
  induction l as [|x r IH]; [repeat constructor|].
  cbn [split9]. destruct (x =? 9) eqn:E.
  - constructor; [reflexivity|exact IH].
  - destruct (split9 r) as [|h t].
    { constructor; [|constructor]. unfold has9. cbn [existsb]. rewrite Z.eqb_sym, E. reflexivity. }
    inversion IH; subst. constructor; [|assumption]. unfold has9 in *. cbn [existsb].
    rewrite Z.eqb_sym, E. assumption.
Qed.

(* prosodic_string: exactly one symbol per sonority value, in every output mode, including
   across the '_' joins *)
Theorem prosodic_string_length m l s : prosodic_string m l = Ok s -> length s = length l.
Proof.
  unfold prosodic_string. destruct l as [|x r].
  - intros H. injection H as <-. reflexivity.
  - destruct (has9 (x :: r)).
    + intros E. destruct (split9_len (x :: r)) as [NE L]. rewrite <- L. now apply join_us_len in E.
    + apply apply_mode_len. intros s0 E. destruct (pro_core_ok (x :: r)) as (s1 & E1 & L1 & _). congruence.
Qed.

Lemma pro_flat_true_ok l : exists s, pro_flat OTrue l = Ok s /\ forallb in_pro s = true.
Proof.
  unfold pro_flat. destruct l as [|x r]; [now exists []|].
  destruct (pro_core_ok (x :: r)) as (s & E & _ & A). rewrite E. now exists s.
Qed.

Definition in_pro_us (x : Z) : bool := in_pro x || (x =? sU).

Lemma in_pro_weaken s : forallb in_pro s = true -> forallb in_pro_us s = true.
Proof.
  rewrite !forallb_forall. intros H x Hx. unfold in_pro_us. now rewrite (H x Hx).
Qed.

Lemma join_us_true_ok ps : exists s, join_us OTrue ps = Ok s /\ forallb in_pro_us s = true.
Proof.
  induction ps as [|p rest IH]; [now exists []|].
  destruct rest as [|q rest'].
  - cbn [join_us]. destruct (pro_flat_true_ok p) as (s & E & A). exists s. split; [exact E|].
    now apply in_pro_weaken.
  - change (join_us OTrue (p :: q :: rest')) with
        (match pro_flat OTrue p with
         | Ok s => match join_us OTrue (q :: rest') with Ok t => Ok (s ++ sU :: t) | e => e end
         | e => e end).
    destruct (pro_flat_true_ok p) as (s & E & A). destruct IH as (t & Et & At). rewrite E, Et.
    exists (s ++ sU :: t). split; [reflexivity|]. rewrite forallb_app. cbn [forallb].
    rewrite (in_pro_weaken s A), At. reflexivity.
Qed.

(* with the default output the function never raises (in particular never reaches the raise
   branch), for every list of integers; the result is over 'ABCLMNXYZT_' *)
Theorem prosodic_string_total l :
  exists s, prosodic_string OTrue l = Ok s /\ length s = length l /\ forallb in_pro_us s = true.
Proof.
  assert (H : exists s, prosodic_string OTrue l = Ok s /\ forallb in_pro_us s = true).
  { unfold prosodic_string. destruct l as [|x r]; [now exists []|].
    destruct (has9 (x :: r)); [apply join_us_true_ok|].
    destruct (pro_core_ok (x :: r)) as (s & E & _ & A). rewrite E. exists s. split; [reflexivity|].
    now apply in_pro_weaken. }
  destruct H as (s & E & A). exists s. split; [exact E|]. split; [|exact A].
  now apply prosodic_string_length in E.
Qed.

(* ------------------------------------------------------------------ *)
(* token input: the sonority profile has one value per token, and so has the prosodic string *)

Section Tokens.
  Variable art : token -> option token.
  Variable is_stress is_diac : char -> bool.

  Lemma map_int_len cls l : map_int cls = Ok l -> length l = length cls.
  Proof.
    revert l. induction cls as [|t r IH]; intros l; cbn [map_int].
    - intros H. injection H as <-. reflexivity.
    - destruct (parse_int t); [|discriminate].
      destruct (map_int r) as [vs| | |]; try discriminate.
      intros H. injection H as <-. cbn [length]. f_equal. now apply IH.
  Qed.

  Theorem sonority_length cldf toks l :
    sonority art is_stress is_diac cldf toks = Ok l -> length l = length toks.
  Proof.
    unfold sonority.
    destruct (tokens2class art is_stress is_diac cldf toks) as [cls| | |] eqn:E; try discriminate.
    intros H. apply map_int_len in H. apply tokens2class_length in E. congruence.
  Qed.

  Theorem prosodic_string_tokens_length cldf m toks s :
    prosodic_string_tokens art is_stress is_diac cldf m toks = Ok s -> length s = length toks.
  Proof.
    unfold prosodic_string_tokens. destruct toks as [|t r].
    - intros H. injection H as <-. reflexivity.
    - destruct (sonority art is_stress is_diac cldf (t :: r)) as [l| | |] eqn:E; try discriminate.
      intros H. apply prosodic_string_length in H. apply sonority_length in E. congruence.
  Qed.
End Tokens.

(* with a shipped 'art' table int(t) never fails: the profile exists whenever tokens2class returns *)
Lemma map_int_total cls :
  Forall (fun c => exists v, parse_int c = Some v) cls -> exists l, map_int cls = Ok l.
Proof.
  induction 1 as [|c r (v & Hv) _ (l & IH)]; [now exists []|].
  cbn [map_int]. rewrite Hv, IH. eexists; reflexivity.
Qed.

Lemma parse_unknown : parse_int UNKNOWN = Some 0.
Proof. reflexivity. Qed.

Theorem shipped_art_sonority_total :
  forall tbl is_stress is_diac cldf toks cls,
    In tbl sc_art_models ->
    tokens2class (assoc_find tbl) is_stress is_diac cldf toks = Ok cls ->
    exists l, sonority (assoc_find tbl) is_stress is_diac cldf toks = Ok l /\ length l = length toks.
Proof.
  intros tbl st di cldf toks cls H E.
  assert (T : exists l, sonority (assoc_find tbl) st di cldf toks = Ok l).
  { unfold sonority. rewrite E. apply map_int_total.
    apply tokens2class_alphabet in E. eapply Forall_impl; [|exact E].
    intros c [->|(key & K)]; [exists 0; reflexivity|].
    apply assoc_find_in in K. exact (shipped_art_classes_int tbl c H K). }
  destruct T as (l & El). exists l. split; [exact El|]. now apply sonority_length in El.
Qed.
