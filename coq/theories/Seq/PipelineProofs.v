(* C14 - the clauses composed: from the IPA string to the re-gapped tokens.
   The "never equal the gap class" clause is exactly what makes the way back well defined: an
   aligned class string is the class string of the tokens with gap classes inserted, so it has one
   non-gap class per token, and class2tokens puts the gaps where the alignment has them and
   returns the tokens untouched.  No length hypothesis is left; the only premise about the gap
   symbol is that it is a break character (as '-' is), which ipa2tokens can never emit. *)
From Coq Require Import ZArith List Bool Lia Arith.
From LV Require Import Common.Cases Seq.SeqCommon Seq.Ipa2Tokens Seq.Ipa2TokensProofs Seq.Token2Class
     Seq.Token2ClassProofs Seq.ClassTokens Seq.ClassTokensProofs.
From LVGen Require Import ScTables.
Import ListNotations.
Local Open Scope nat_scope.

(* [aligned] is [cls] with gap classes inserted *)
Definition aligned_of (cls aligned : list token) : Prop :=
  filter (fun c => negb (is_gap_class c)) aligned = cls.

Lemma aligned_nongaps cls aligned : aligned_of cls aligned -> nongaps aligned = length cls.
Proof. unfold aligned_of, nongaps. now intros ->. Qed.

(* from the tokens: every token list x every shipped model x every alignment of its class string *)
Theorem shipped_roundtrip :
  forall name tbl (is_stress is_diac : char -> bool) (cldf : bool) (gap : token)
         (toks cls aligned : list token),
    In (name, tbl) sc_all ->
    tokens2class (assoc_find tbl) is_stress is_diac cldf toks = Ok cls ->
    aligned_of cls aligned ->
    ~ In gap toks ->
    degap gap (class2tokens gap toks aligned) = toks /\
    Forall2 (fun o c => o = gap <-> is_gap_class c = true) (class2tokens gap toks aligned) aligned /\
    length (class2tokens gap toks aligned) = length aligned.
Proof.
  intros name tbl st di cldf gap toks cls aligned H E A NI.
  pose proof (tokens2class_length _ _ _ _ _ _ E) as L.
  pose proof (aligned_nongaps _ _ A) as NG.
  assert (P : Forall2 (fun o c => o = gap <-> is_gap_class c = true) (class2tokens gap toks aligned) aligned).
  { apply class2tokens_pattern; [exact NI|congruence]. }
  split; [now apply class2tokens_degap|]. split; [exact P|].
  clear -P. induction P; cbn [length]; congruence.
Qed.

(* a break character never comes out of ipa2tokens as a token of its own *)
Lemma in_concat_of {A} (x : A) (t : list A) (l : list (list A)) : In t l -> In x t -> In x (concat l).
Proof. intros Ht Hx. apply in_concat. exists t. now split. Qed.

Theorem ipa2tokens_no_break_token k s toks g :
  k_expand_nasals k = false -> k_break k g = true -> g <> NULL_GLYPH ->
  ipa2tokens k s = Ok toks -> ~ In [g] toks.
Proof.
  intros X B NG E Hin.
  pose proof (ipa2tokens_concat k s toks X E) as C.
  assert (G : In g (concat toks)) by (apply (in_concat_of g [g] toks Hin); now left).
  rewrite C in G. apply in_app_or in G. destruct G as [G|G].
  - unfold glyph in G. destruct (nobreaks k s) as [|c r]; [destruct G|].
    destruct (k_comb k c); [|destruct G]. destruct G as [G|[]]. congruence.
  - unfold nobreaks in G. apply filter_In in G. destruct G as [_ G]. rewrite B in G. discriminate.
Qed.

(* from the string: every string of the quantifier (no blank, at least one non-break character),
   every keyword setting, every shipped model, every alignment of the class string *)
Theorem string_roundtrip :
  forall (k : kw) (s : list char) name tbl (is_stress is_diac : char -> bool) (cldf : bool) (g : char),
    k_expand_nasals k = false ->
    memc s BLANK = false -> nobreaks k s <> [] ->
    In (name, tbl) sc_all ->
    k_break k g = true -> g <> NULL_GLYPH ->
    exists toks,
      ipa2tokens k s = Ok toks /\
      concat toks = glyph k s ++ nobreaks k s /\
      Forall (fun t => t <> []) toks /\
      forall cls aligned,
        tokens2class (assoc_find tbl) is_stress is_diac cldf toks = Ok cls ->
        aligned_of cls aligned ->
        length cls = length toks /\
        Forall (fun c => is_gap_class c = false) cls /\
        degap [g] (class2tokens [g] toks aligned) = toks /\
        Forall2 (fun o c => o = [g] <-> is_gap_class c = true) (class2tokens [g] toks aligned) aligned.
Proof.
  intros k s name tbl st di cldf g X Bk NB H B NG.
  destruct (ipa2tokens_error_iff k s (or_introl X)) as (_ & _ & T).
  destruct (proj2 T (conj Bk (fun _ => NB))) as (toks & E).
  exists toks. split; [exact E|]. split; [now apply ipa2tokens_concat|].
  split; [exact (ipa2tokens_nonempty k s toks (or_introl X) E)|].
  intros cls aligned Ec A.
  pose proof (ipa2tokens_no_break_token k s toks g X B NG E) as NI.
  destruct (shipped_roundtrip name tbl st di cldf [g] toks cls aligned H Ec A NI) as (D & P & _).
  split; [now apply tokens2class_length in Ec|].
  split; [exact (shipped_tokens2class_nogap name tbl st di cldf toks cls H Ec)|].
  split; assumption.
Qed.
