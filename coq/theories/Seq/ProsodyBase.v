(* C14 - vocabulary used by the GENERATED file coq/gen/ProsodyStep.v (the translation of
   the loop body of prosodic_string, sound_classes.py:908-970).

   The loop state is  (pstring, first);  [ps_rev] is pstring REVERSED (head = pstring[-1]).
   One iteration ends normally ([POk]), in the  else: raise ValueError  branch ([PRaise]),
   or with an IndexError of  pstring[-1]  on an empty string ([PIndex]). *)
From Coq Require Import ZArith List Bool.
Import ListNotations.
Local Open Scope Z_scope.

Record pstate := mk_pstate { ps_rev : list Z; ps_first : bool }.

Inductive presult :=
| POk (st : pstate)
| PRaise
| PIndex.

(* pstring += 'S' *)
Definition p_append (st : pstate) (s : Z) : pstate :=
  mk_pstate (s :: ps_rev st) (ps_first st).

(* first = b *)
Definition p_set_first (st : pstate) (b : bool) : pstate :=
  mk_pstate (ps_rev st) b.

(* pstring[-1] *)
Definition p_last (st : pstate) : option Z :=
  match ps_rev st with
  | [] => None
  | l :: _ => Some l
  end.

(* pstring = pstring[:-1] + pstring[-1].replace(old, new) + s *)
Definition p_repl_last_append (st : pstate) (old new s : Z) : option pstate :=
  match ps_rev st with
  | [] => None
  | l :: r => Some (mk_pstate (s :: (if l =? old then new else l) :: r) (ps_first st))
  end.
