(* C14 - model of prosodic_string (integer sonority profile and token input) and
   prosodic_weights (sound_classes.py:796-1118).  The loop body is the GENERATED
   LVGen.ProsodyStep.prosody_step; everything around it is written by hand. *)
From Coq Require Import ZArith List Bool.
From LV Require Import Common.Cases Seq.SeqCommon Seq.Token2Class Seq.ProsodyBase.
From LVGen Require Import ProsodyStep.
Import ListNotations.
Local Open Scope Z_scope.

(* lines 908-970 over  sstring = [9] + l + [9]:  a = previous value, b = current, c = next *)
Fixpoint pro_loop (prev : Z) (l : list Z) (st : pstate) : presult :=
  match l with
  | [] => POk st
  | b :: r =>
    let c := match r with [] => 9 | x :: _ => x end in
    match prosody_step prev b c st with
    | POk st' => pro_loop b r st'
    | e => e
    end
  end.

Definition init_pstate : pstate := mk_pstate [] true.

Definition pro_core (l : list Z) : res (list Z) :=
  match pro_loop 9 l init_pstate with
  | POk st => Ok (rev (ps_rev st))
  | PRaise => ValueErr
  | PIndex => IndexErr
  end.

(* the _output argument: True (default), 'cv', 'CcV', anything false *)
Inductive omode := OTrue | OCv | OCcV | OFalse.

Definition sA := 65. Definition sB := 66. Definition sC := 67. Definition sL := 76.
Definition sM := 77. Definition sN := 78. Definition sX := 88. Definition sY := 89.
Definition sZ := 90. Definition sT := 84. Definition sU := 95.   (* '_' *)

Definition conv_cv : list (Z * Z) :=
  [(sA, 67); (sB, 67); (sC, 67); (sM, 67); (sL, 67); (sN, 67); (sX, 86); (sY, 86); (sZ, 86); (sT, 84); (sU, 95)].
Definition conv_ccv : list (Z * Z) :=
  [(sA, 67); (sB, 67); (sC, 67); (sM, 99); (sL, 99); (sN, 99); (sX, 86); (sY, 86); (sZ, 118); (sT, 84); (sU, 95)].
Definition conv_false : list (Z * Z) :=
  [(sA, 35); (sB, 67); (sC, 67); (sM, 99); (sL, 99); (sN, 36); (sX, 86); (sY, 118); (sZ, 62)].

Fixpoint zassoc {V} (tbl : list (Z * V)) (k : Z) : option V :=
  match tbl with
  | [] => None
  | (k', v) :: r => if k' =? k then Some v else zassoc r k
  end.

(* [conv[x] for x in pstring]; a missing key is a KeyError *)
Fixpoint map_key {V} (tbl : list (Z * V)) (l : list Z) : res (list V) :=
  match l with
  | [] => Ok []
  | x :: r => match zassoc tbl x with
              | None => KeyErr
              | Some v => match map_key tbl r with
                          | Ok vs => Ok (v :: vs)
                          | e => e
                          end
              end
  end.

(* lines 972-1019 *)
Definition apply_mode (m : omode) (p : res (list Z)) : res (list Z) :=
  match p with
  | Ok s => match m with
            | OTrue => Ok s
            | OCv => map_key conv_cv s
            | OCcV => map_key conv_ccv s
            | OFalse => map_key conv_false s
            end
  | e => e
  end.

(* the function on a profile without an inner 9 (and the recursive calls, whose
   arguments never contain a 9): lines 874-875 and 903-1019 *)
Definition pro_flat (m : omode) (l : list Z) : res (list Z) :=
  match l with
  | [] => Ok []
  | _ => apply_mode m (pro_core l)
  end.

(* lines 891-896 *)
Fixpoint split9 (l : list Z) : list (list Z) :=
  match l with
  | [] => [[]]
  | x :: r => if x =? 9 then [] :: split9 r
              else match split9 r with
                   | h :: t => (x :: h) :: t
                   | [] => [[x]]
                   end
  end.

(* '_'.join(prosodic_string(x, _output) for x in nstrings); the first exception propagates *)
Fixpoint join_us (m : omode) (ps : list (list Z)) : res (list Z) :=
  match ps with
  | [] => Ok []
  | [p] => pro_flat m p
  | p :: rest => match pro_flat m p with
                 | Ok s => match join_us m rest with
                           | Ok t => Ok (s ++ sU :: t)
                           | e => e
                           end
                 | e => e
                 end
  end.

Definition has9 (l : list Z) : bool := existsb (Z.eqb 9) l.

(* prosodic_string on a list of integers *)
Definition prosodic_string (m : omode) (l : list Z) : res (list Z) :=
  match l with
  | [] => Ok []
  | _ => if has9 l then join_us m (split9 l) else apply_mode m (pro_core l)
  end.

(* prosodic_string on a list of tokens: lines 878-884, the sonority profile is
   [int(t) for t in tokens2class(string, rcParams['art'], cldf=False)] *)
Section Tokens.
  Variable art : token -> option token.
  Variable is_stress is_diac : char -> bool.

  Fixpoint map_int (cls : list token) : res (list Z) :=
    match cls with
    | [] => Ok []
    | t :: r => match parse_int t with
                | None => ValueErr                 (* int('..') fails *)
                | Some v => match map_int r with
                            | Ok vs => Ok (v :: vs)
                            | e => e
                            end
                end
    end.

  Definition sonority (cldf : bool) (toks : list token) : res (list Z) :=
    match tokens2class art is_stress is_diac cldf toks with
    | Ok cls => map_int cls
    | IndexErr => IndexErr
    | ValueErr => ValueErr
    | KeyErr => KeyErr
    end.

  (* [cldf] = keywords['cldf'] (default False) *)
  Definition prosodic_string_tokens (cldf : bool) (m : omode) (toks : list token) : res (list Z) :=
    match toks with
    | [] => Ok []
    | _ => match sonority cldf toks with
           | Ok l => prosodic_string m l
           | e => e
           end
    end.
End Tokens.
