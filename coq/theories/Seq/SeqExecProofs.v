(* C14 - specifications of the boolean checkers of SeqExec.v (they run on the implementation's
   outputs), and the fact that the model's own output always passes them. *)
From Coq Require Import ZArith List Bool Lia Arith.
From LV Require Import Common.Cases Seq.SeqCommon Seq.Ipa2Tokens Seq.Ipa2TokensProofs Seq.Token2Class
     Seq.Token2ClassProofs Seq.ClassTokens Seq.ClassTokensProofs Seq.PipelineProofs Seq.SeqExec.
Import ListNotations.
Local Open Scope nat_scope.

Lemma chars_eqb_eq a b : chars_eqb a b = true <-> a = b.
Proof. apply (list_eqb_spec Z.eqb Z.eqb_eq). Qed.

Lemma toks_eqb_eq a b : toks_eqb a b = true <-> a = b.
Proof. apply (list_eqb_spec tok_eqb tok_eqb_eq). Qed.

Lemma nonemptyb_forall {A} (l : list (list A)) :
  forallb nonemptyb l = true <-> Forall (fun t => t <> []) l.
Proof.
  rewrite forallb_forall, Forall_forall. split; intros H x Hx; specialize (H x Hx).
  - intros ->. discriminate.
  - now destruct x.
Qed.

(* ipa2tokens checker = the two clauses of the property *)
Theorem ipa_okb_spec k s toks :
  ipa_okb k s (Ok toks) = true <->
  ((concat toks = nobreaks k s \/ concat toks = glyph k s ++ nobreaks k s) /\
   Forall (fun t => t <> []) toks).
Proof.
  cbn [ipa_okb]. now rewrite andb_true_iff, orb_true_iff, !chars_eqb_eq, nonemptyb_forall.
Qed.

(* the model's output always passes the ipa2tokens checker (so a rejection of an implementation
   output implies a disagreement with the model) *)
Theorem ipa_okb_model k s : k_expand_nasals k = false -> ipa_okb k s (ipa2tokens k s) = true.
Proof.
  intros X. pose proof (ipa2tokens_outcome k s (or_introl X)) as O.
  destruct (ipa2tokens k s) as [toks| | |] eqn:E; cbv beta iota in O.
  - apply ipa_okb_spec. split; [right; now apply ipa2tokens_concat|].
    apply (ipa2tokens_nonempty k s toks (or_introl X) E).
  - destruct O as (B & G & N). cbn [ipa_okb]. rewrite B, G, N. reflexivity.
  - exact O.
  - destruct O.
Qed.

(* tokens2class checker *)
Theorem t2c_okb_spec tbl toks single cls :
  t2c_okb tbl toks single (Ok cls) = true <->
  (length cls = length toks /\
   Forall (fun c => (c = UNKNOWN \/ In c (values tbl)) /\ is_gap_class c = false) cls).
Proof.
  cbn [t2c_okb]. rewrite andb_true_iff, Nat.eqb_eq, forallb_forall, Forall_forall.
  split; intros [L H]; (split; [exact L|]); intros c Hc; specialize (H c Hc); unfold class_okb in *.
  - apply andb_true_iff in H. destruct H as [H G]. apply negb_true_iff in G. split; [|exact G].
    apply orb_true_iff in H. destruct H as [H|H]; [left; now apply tok_eqb_eq|right].
    apply existsb_exists in H. destruct H as (v & Hv & E). apply tok_eqb_eq in E. now subst.
  - destruct H as [H G]. rewrite G. cbn [negb]. rewrite andb_true_r. apply orb_true_iff.
    destruct H as [->|H]; [left; now apply tok_eqb_eq|right].
    apply existsb_exists. exists c. split; [exact H|now apply tok_eqb_eq].
Qed.

Theorem len_okb_spec {A B} (s : list A) (l : list B) : len_okb (Ok s) l = true <-> length s = length l.
Proof. cbn [len_okb]. apply Nat.eqb_eq. Qed.

(* class2tokens checker *)
Lemma pattern_okb_spec gap : forall out classes,
  pattern_okb gap out classes = true <->
  Forall2 (fun o c => o = gap <-> is_gap_class c = true) out classes.
Proof.
  induction out as [|o out IH]; intros [|c classes]; cbn [pattern_okb].
  - split; [constructor|reflexivity].
  - split; [discriminate|]. intros H; inversion H.
  - split; [discriminate|]. intros H; inversion H.
  - rewrite andb_true_iff, IH, eqb_true_iff. split.
    + intros [E F]. constructor; [|exact F]. rewrite <- E. apply and_comm, iff_sym, iff_sym.
      split; intros Z; [now apply tok_eqb_eq|now apply tok_eqb_eq in Z].
    + intros H. inversion H as [|? ? ? ? P F]; subst. split; [|exact F].
      destruct (is_gap_class c).
      * apply tok_eqb_eq. now apply P.
      * destruct (tok_eqb o gap) eqn:E; [|reflexivity]. apply tok_eqb_eq in E. apply P in E. discriminate.
Qed.

Lemma existsb_tok_In gap tokens : existsb (tok_eqb gap) tokens = true <-> In gap tokens.
Proof.
  rewrite existsb_exists. split.
  - intros (x & Hx & E). apply tok_eqb_eq in E. now subst.
  - intros H. exists gap. split; [exact H|now apply tok_eqb_eq].
Qed.

Theorem c2t_okb_spec gap tokens classes out :
  ~ In gap tokens ->
  (c2t_okb gap tokens classes out = true <->
   (degap gap out = tokens /\
    (nongaps classes = length tokens ->
     Forall2 (fun o c => o = gap <-> is_gap_class c = true) out classes))).
Proof.
  intros NI. unfold c2t_okb.
  assert (E : existsb (tok_eqb gap) tokens = false).
  { destruct (existsb (tok_eqb gap) tokens) eqn:E; [|reflexivity]. apply existsb_tok_In in E. contradiction. }
  rewrite E. cbn [orb]. rewrite andb_true_iff, toks_eqb_eq, orb_true_iff, negb_true_iff, Nat.eqb_neq,
    pattern_okb_spec.
  split; intros [D P]; (split; [exact D|]).
  - intros L. destruct P as [P|P]; [contradiction|exact P].
  - destruct (Nat.eq_dec (nongaps classes) (length tokens)) as [L|L]; [right; now apply P|now left].
Qed.

(* the model's output passes the class2tokens checker *)
Theorem c2t_okb_model gap tokens classes :
  c2t_okb gap tokens classes (class2tokens gap tokens classes) = true.
Proof.
  destruct (existsb (tok_eqb gap) tokens) eqn:E; [unfold c2t_okb; now rewrite E|].
  assert (NI : ~ In gap tokens) by (intros Z; apply existsb_tok_In in Z; congruence).
  apply (c2t_okb_spec gap tokens classes _ NI). split.
  - now apply class2tokens_degap.
  - intros L. now apply class2tokens_pattern.
Qed.

(* the "argument not modified" checker decides equality of the caller's list before and after *)
Theorem unchangedb_spec before after : unchangedb before after = true <-> before = after.
Proof. apply toks_eqb_eq. Qed.

Theorem unchangedzb_spec before after : unchangedzb before after = true <-> before = after.
Proof. apply (list_eqb_spec Z.eqb Z.eqb_eq). Qed.

(* the length checker of a history step: when the profile exists, profile, prosodic string and
   weights all exist and have exactly one element per token *)
Theorem pstep_lenb_spec p l :
  ps_son p = Ok l ->
  (pstep_lenb p = true <->
   (length l = length (ps_toks p) /\
    (exists s, ps_out p = Ok s /\ length s = length (ps_toks p)) /\
    (exists w, ps_weights p = Ok w /\ length w = length (ps_toks p)))).
Proof.
  intros E. unfold pstep_lenb. rewrite E. cbn [len_okb]. rewrite !andb_true_iff, Nat.eqb_eq.
  split.
  - intros [[L O] W]. split; [exact L|]. split.
    + destruct (ps_out p) as [s| | |]; cbn [len_okb] in O; try discriminate.
      exists s. split; [reflexivity|now apply Nat.eqb_eq].
    + destruct (ps_weights p) as [w| | |]; cbn [len_okb] in W; try discriminate.
      exists w. split; [reflexivity|now apply Nat.eqb_eq].
  - intros (L & (s & Es & Ls) & (w & Ew & Lw)). rewrite Es, Ew. cbn [len_okb].
    repeat split; [exact L|now apply Nat.eqb_eq|now apply Nat.eqb_eq].
Qed.

(* the checker of the way back in a pipeline case *)
Theorem aligned_ofb_spec cls aligned : aligned_ofb cls aligned = true <-> aligned_of cls aligned.
Proof. unfold aligned_ofb, aligned_of. apply toks_eqb_eq. Qed.

Theorem pipe_backb_spec p toks cls :
  pp_toks p = Ok toks -> pp_cls p = Ok cls ->
  aligned_of cls (pp_aligned p) -> length cls = length toks -> ~ In (pp_gap p) toks ->
  (pipe_backb p = true <->
   (degap (pp_gap p) (pp_out p) = toks /\
    Forall2 (fun o c => o = pp_gap p <-> is_gap_class c = true) (pp_out p) (pp_aligned p))).
Proof.
  intros Et Ec A L NI. unfold pipe_backb. rewrite Et, Ec.
  apply aligned_ofb_spec in A. rewrite A. apply Nat.eqb_eq in L. rewrite L. cbn [negb orb].
  assert (E : existsb (tok_eqb (pp_gap p)) toks = false).
  { destruct (existsb (tok_eqb (pp_gap p)) toks) eqn:E; [|reflexivity]. apply existsb_tok_In in E. contradiction. }
  rewrite E. cbn [orb]. now rewrite andb_true_iff, toks_eqb_eq, pattern_okb_spec.
Qed.
