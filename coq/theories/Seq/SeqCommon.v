(* C14 - shared vocabulary of the sequence models.
   A character is a Unicode code point (Z); a token, a sound class and a
   prosodic string are lists of code points.  [res] is the outcome of a Python
   call: a value or the exception it raised. *)
From Coq Require Import ZArith List Bool.
From LV Require Import Common.Cases.
Import ListNotations.

Definition char := Z.
Definition token := list char.

Inductive res (A : Type) : Type :=
| Ok (a : A)
| IndexErr            (* IndexError *)
| ValueErr            (* ValueError *)
| KeyErr.             (* KeyError *)
Arguments Ok {A} a.
Arguments IndexErr {A}.
Arguments ValueErr {A}.
Arguments KeyErr {A}.

Definition tok_eqb : token -> token -> bool := list_eqb Z.eqb.
Definition toks_eqb : list token -> list token -> bool := list_eqb tok_eqb.

(* membership of a character in a keyword string:  c in "..." *)
Definition memc (s : list char) (c : char) : bool := existsb (Z.eqb c) s.

(* Python's  p in s  for strings: p occurs as a contiguous substring of s *)
Fixpoint prefixb (p s : token) : bool :=
  match p, s with
  | [], _ => true
  | _ :: _, [] => false
  | x :: p', y :: s' => Z.eqb x y && prefixb p' s'
  end.

Fixpoint substrb (p s : token) : bool :=
  prefixb p s || match s with
                 | [] => false
                 | _ :: s' => substrb p s'
                 end.

Definition res_eqb {A} (eqb : A -> A -> bool) (x y : res A) : bool :=
  match x, y with
  | Ok a, Ok b => eqb a b
  | IndexErr, IndexErr => true
  | ValueErr, ValueErr => true
  | KeyErr, KeyErr => true
  | _, _ => false
  end.

Definition nonemptyb {A} (l : list A) : bool := match l with [] => false | _ => true end.
