(* C14 - correspondence cases, case code, and the boolean checkers that are run on the
   IMPLEMENTATION's outputs (their specifications are proved in SeqExecProofs.v).

   bit 0  model output differs from implementation output
   bit 1  ipa2tokens: tokens do not concatenate to the input without breaks (+ null glyph rule),
          an empty token, or an exception on an input the guard does not exclude
   bit 2  tokens2class: not one class per token, class outside alphabet / unknown marker, gap class,
          or an exception other than the all-unknown ValueError
   bit 3  prosodic_string / sonority / prosodic_weights: not one element per token, or an exception
   bit 4  class2tokens: tokens touched, or gap pattern differs from the class string
   bit 5  an argument list was modified by the call (the caller's list after the calls differs
          from a copy taken before), or a second call on the same list object returned
          something else than the first *)
From Coq Require Import ZArith QArith List Bool Arith.
From LV Require Import Common.Cases Seq.SeqCommon Seq.Ipa2Tokens Seq.Token2Class Seq.ProsodyBase
     Seq.Prosody Seq.ProsodyW Seq.ClassTokens.
Import ListNotations.
Local Open Scope nat_scope.

(* ------------------------------------------------------------------ *)
(* ipa2tokens *)

Record kwstrings := mk_ks {
  ks_breaks : list char; ks_combs : list char; ks_stress : list char; ks_diacs : list char;
  ks_semis : list char; ks_vowels : list char; ks_tones : list char; ks_placeholder : token }.

(* one implementation output shared by all the settings that produced it *)
Record ipa_flags := mk_fl {
  ir_mv : bool; ir_mg : bool; ir_semi : bool;      (* semi_diacritics = ks_semis or '' *)
  ir_ex : bool }.

Record ipa_run := mk_run {
  ir_flags : list ipa_flags;
  ir_out : res (list token) }.

Definition kw_of_run (ks : kwstrings) (r : ipa_flags) : kw :=
  kw_of (ks_breaks ks) (ks_combs ks) (ks_stress ks) (ks_diacs ks)
        (if ir_semi r then ks_semis ks else []) (ks_vowels ks) (ks_tones ks)
        (ir_mv r) (ir_mg r) (ir_ex r) (ks_placeholder ks).

Definition chars_eqb : list char -> list char -> bool := list_eqb Z.eqb.

(* the property clauses on an output, for expand_nasals = False: the tokens concatenate to the
   input without the breaks - with or without the null glyph where the glyph rule allows one
   (the exact rule is a theorem about the model; an implementation that stops adding the glyph
   still keeps every character, so only the correspondence bit reports it) - and none is empty *)
Definition ipa_okb (k : kw) (s : list char) (out : res (list token)) : bool :=
  match out with
  | Ok toks => (chars_eqb (concat toks) (nobreaks k s)
                || chars_eqb (concat toks) (glyph k s ++ nobreaks k s)) && forallb nonemptyb toks
  | IndexErr => k_merge_geminates k && negb (nonemptyb (nobreaks k s)) && negb (memc s BLANK)
  | ValueErr => memc s BLANK
  | KeyErr => false
  end.

Definition ipa_run_corr (ks : kwstrings) (s : list char) (r : ipa_run) : bool :=
  forallb (fun f => res_eqb toks_eqb (ipa2tokens (kw_of_run ks f) s) (ir_out r)) (ir_flags r).

Definition ipa_run_prop (ks : kwstrings) (s : list char) (r : ipa_run) : bool :=
  forallb (fun f =>
    if ir_ex f then
      match ir_out r with Ok toks => forallb nonemptyb toks | _ => true end
    else ipa_okb (kw_of_run ks f) s (ir_out r)) (ir_flags r).

(* ------------------------------------------------------------------ *)
(* tokens2class *)

Definition values (tbl : list (token * token)) : list token := map snd tbl.

Definition class_okb (tbl : list (token * token)) (c : token) : bool :=
  (tok_eqb c UNKNOWN || existsb (tok_eqb c) (values tbl)) && negb (is_gap_class c).

Definition is_unknown_res (r : res token) : bool :=
  match r with Ok c => tok_eqb c UNKNOWN | _ => false end.

(* [single] = the implementation's token2class on every token *)
Definition t2c_okb (tbl : list (token * token)) (toks : list token) (single : list (res token))
           (out : res (list token)) : bool :=
  match out with
  | Ok cls => Nat.eqb (length cls) (length toks) && forallb (class_okb tbl) cls
  | ValueErr => Nat.eqb (length single) (length toks) && forallb is_unknown_res single
  | _ => false
  end.

(* ------------------------------------------------------------------ *)
(* prosodic strings and weights *)

Definition zs_eqb : list Z -> list Z -> bool := list_eqb Z.eqb.
Definition qs_eqb : list Q -> list Q -> bool := list_eqb Qeq_bool.

Definition len_okb {A B} (out : res (list A)) (l : list B) : bool :=
  match out with
  | Ok s => Nat.eqb (length s) (length l)
  | _ => false
  end.

Definition is_ok {A} (r : res A) : bool := match r with Ok _ => true | _ => false end.
Definition is_some {A} (o : option A) : bool := match o with Some _ => true | None => false end.

(* ------------------------------------------------------------------ *)
(* class2tokens *)

Fixpoint pattern_okb (gap : token) (out classes : list token) : bool :=
  match out, classes with
  | [], [] => true
  | o :: out', c :: classes' => Bool.eqb (tok_eqb o gap) (is_gap_class c) && pattern_okb gap out' classes'
  | _, _ => false
  end.

(* degapping gives back the tokens; when the class string has one non-gap class per token the
   output has the gap pattern of the class string *)
Definition c2t_okb (gap : token) (tokens classes out : list token) : bool :=
  existsb (tok_eqb gap) tokens
  || (toks_eqb (degap gap out) tokens
      && (negb (Nat.eqb (nongaps classes) (length tokens)) || pattern_okb gap out classes)).

(* ------------------------------------------------------------------ *)
(* cases *)

(* [*_after] = the caller's argument list (the same Python object that was passed) read back after
   the calls; [out2]/[outl2] = a second call with the same objects (history of two calls).  The
   Gallina functions depend on the VALUES of their arguments only; aliasing is observed on the
   implementation side and decided by [unchangedb]. *)
Definition unchangedb (before after : list token) : bool := toks_eqb before after.
Definition unchangedzb (before after : list Z) : bool := zs_eqb before after.

(* one call of a HISTORY of calls made in one process on different segmentations of the same
   characters (and the same tokens with different cldf settings): the implementation's
   tokens2class, sonority profile, prosodic_string, prosodic_weights for [ps_toks].  The model is
   stateless, so every step is compared with the model applied to that step's own tokens; state
   carried between calls by the implementation shows up as a step whose lengths are wrong. *)
Record pstep := mk_pstep {
  ps_cldf : bool;
  ps_toks : list token;
  ps_cls : res (list token);
  ps_son : res (list Z);
  ps_out : res (list Z);
  ps_weights : res (list Q);
  ps_after : list token }.

Definition pstep_corr (conv : token -> option token) (st di : char -> bool) (p : pstep) : bool :=
  res_eqb toks_eqb (tokens2class conv st di (ps_cldf p) (ps_toks p)) (ps_cls p)
  && res_eqb zs_eqb (sonority conv st di (ps_cldf p) (ps_toks p)) (ps_son p)
  && res_eqb zs_eqb (prosodic_string_tokens conv st di (ps_cldf p) OTrue (ps_toks p)) (ps_out p)
  && match ps_out p with
     | Ok s => res_eqb qs_eqb (prosodic_weights [] s) (ps_weights p)
     | _ => true
     end.

(* len(prosodic_string) == len(tokens) == len(weights) == len(sonority profile) *)
Definition pstep_lenb (p : pstep) : bool :=
  match ps_son p with
  | Ok l => len_okb (ps_son p) (ps_toks p) && len_okb (ps_out p) (ps_toks p)
            && len_okb (ps_weights p) (ps_toks p)
  | ValueErr =>      (* only unknown sounds: tokens2class itself raised *)
    negb (is_ok (ps_cls p)) && (negb (is_ok (ps_out p)) || negb (nonemptyb (ps_toks p)))
  | _ => false
  end.

(* [aligned] is the class string [cls] with gap classes inserted (what an aligner returns) *)
Definition aligned_ofb (cls aligned : list token) : bool :=
  toks_eqb (filter (fun c => negb (is_gap_class c)) aligned) cls.

(* the whole chain in one case, every stage fed with the IMPLEMENTATION's own previous output:
   string -> ipa2tokens -> tokens2class (shipped model) -> gaps inserted by the harness ->
   class2tokens, and prosodic_string / prosodic_weights of the tokens *)
Record pipe := mk_pipe {
  pp_ks : kwstrings; pp_flags : ipa_flags; pp_s : list char;
  pp_tbl : list (token * token); pp_art : list (token * token);
  pp_stress : list char; pp_diacs : list char; pp_cldf : bool; pp_gap : token;
  pp_toks : res (list token);            (* ipa2tokens(s) *)
  pp_single : list (res token);          (* token2class of each token *)
  pp_cls : res (list token);             (* tokens2class(tokens) *)
  pp_aligned : list token;               (* cls with gaps inserted *)
  pp_out : list token;                   (* class2tokens(tokens, aligned) *)
  pp_pro : res (list Z);                 (* prosodic_string(tokens) *)
  pp_weights : res (list Q) }.

Definition pipe_corr (p : pipe) : bool :=
  let k := kw_of_run (pp_ks p) (pp_flags p) in
  let conv := assoc_find (pp_tbl p) in
  let st := memc (pp_stress p) in
  let di := memc (pp_diacs p) in
  res_eqb toks_eqb (ipa2tokens k (pp_s p)) (pp_toks p)
  && match pp_toks p with
     | Ok toks =>
       res_eqb toks_eqb (tokens2class conv st di (pp_cldf p) toks) (pp_cls p)
       && list_eqb (res_eqb tok_eqb) (map (token2class conv st di (pp_cldf p)) toks) (pp_single p)
       && match pp_cls p with
          | Ok _ => toks_eqb (class2tokens (pp_gap p) toks (pp_aligned p)) (pp_out p)
          | _ => true
          end
       && res_eqb zs_eqb (prosodic_string_tokens (assoc_find (pp_art p)) st di false OTrue toks) (pp_pro p)
       && match pp_pro p with
          | Ok ps => res_eqb qs_eqb (prosodic_weights [] ps) (pp_weights p)
          | _ => true
          end
     | _ => true
     end.

Definition pipe_ipab (p : pipe) : bool :=
  ipa_okb (kw_of_run (pp_ks p) (pp_flags p)) (pp_s p) (pp_toks p).

Definition pipe_t2cb (p : pipe) : bool :=
  match pp_toks p with
  | Ok toks => t2c_okb (pp_tbl p) toks (pp_single p) (pp_cls p)
  | _ => true
  end.

Definition pipe_prob (p : pipe) : bool :=
  match pp_toks p, pp_pro p with
  | Ok toks, Ok ps => len_okb (pp_pro p) toks && len_okb (pp_weights p) toks
  | Ok toks, ValueErr => true          (* only unknown sounds; judged by the prostok stream *)
  | Ok toks, _ => false
  | _, _ => true
  end.

(* the way back: with an aligned class string of the tokens' own classes the output has the
   length and gap pattern of the alignment and de-gaps to the tokens *)
Definition pipe_backb (p : pipe) : bool :=
  match pp_toks p, pp_cls p with
  | Ok toks, Ok cls =>
    negb (aligned_ofb cls (pp_aligned p)) || negb (Nat.eqb (length cls) (length toks))
    || existsb (tok_eqb (pp_gap p)) toks
    || (toks_eqb (degap (pp_gap p) (pp_out p)) toks && pattern_okb (pp_gap p) (pp_out p) (pp_aligned p))
  | _, _ => true
  end.

Inductive seq_case :=
| CIpa (ks : kwstrings) (s : list char) (runs : list ipa_run)
| CT2C (tbl : list (token * token)) (stress diacs : list char) (cldf : bool) (toks : list token)
       (single : list (res token)) (out : res (list token)) (toks_after : list token)
| CPros (mode : omode) (l : list Z) (out : res (list Z)) (user : list (Z * Q)) (weights : res (list Q))
        (l_after : list Z)
| CProsTok (art : list (token * token)) (stress diacs : list char) (toks : list token)
           (cls : res (list token)) (son : res (list Z)) (out : res (list Z)) (toks_after : list token)
| CProsSeq (art : list (token * token)) (stress diacs : list char) (steps : list pstep)
| CPipe (p : pipe)
| CC2T (gap : token) (tokens classes : list token) (out : list token)
       (pre suf : list token) (outl : list token)
       (out2 outl2 : list token) (tokens_after classes_after : list token).

Definition mode_is_true (m : omode) : bool := match m with OTrue => true | _ => false end.

Definition seq_case_code (c : seq_case) : nat :=
  match c with
  | CIpa ks s runs =>
    bit 0 (forallb (ipa_run_corr ks s) runs) + bit 1 (forallb (ipa_run_prop ks s) runs)
  | CT2C tbl stress diacs cldf toks single out toks_after =>
    let conv := assoc_find tbl in
    bit 0 (res_eqb toks_eqb (tokens2class conv (memc stress) (memc diacs) cldf toks) out
           && list_eqb (res_eqb tok_eqb) (map (token2class conv (memc stress) (memc diacs) cldf) toks) single)
    + bit 2 (t2c_okb tbl toks single out)
    + bit 5 (unchangedb toks toks_after)
  | CPros mode l out user weights l_after =>
    bit 0 (res_eqb zs_eqb (prosodic_string mode l) out
           && match out with
              | Ok s => res_eqb qs_eqb (prosodic_weights user s) weights
              | _ => true
              end)
    + bit 3 (((negb (mode_is_true mode) && negb (is_ok out)) || len_okb out l)
             && match out, weights with
                | Ok s, Ok w => Nat.eqb (length w) (length s)
                | Ok s, KeyErr => nonemptyb user && negb (forallb (fun x => is_some (zassoc user x)) s)
                | Ok s, _ => false
                | _, _ => true
                end)
    + bit 5 (unchangedzb l l_after)
  | CProsTok art stress diacs toks cls son out toks_after =>
    let conv := assoc_find art in
    bit 0 (res_eqb toks_eqb (tokens2class conv (memc stress) (memc diacs) false toks) cls
           && res_eqb zs_eqb (sonority conv (memc stress) (memc diacs) false toks) son
           && res_eqb zs_eqb (prosodic_string_tokens conv (memc stress) (memc diacs) false OTrue toks) out)
    + bit 3 (match son with
             | Ok l => len_okb son toks && len_okb out toks
             | ValueErr =>      (* only unknown sounds: tokens2class itself raised *)
               negb (is_ok cls) && (negb (is_ok out) || negb (nonemptyb toks))
             | _ => false
             end)
    + bit 5 (unchangedb toks toks_after)
  | CProsSeq art stress diacs steps =>
    let conv := assoc_find art in
    bit 0 (forallb (pstep_corr conv (memc stress) (memc diacs)) steps)
    + bit 3 (forallb pstep_lenb steps)
    + bit 5 (forallb (fun p => unchangedb (ps_toks p) (ps_after p)) steps)
  | CPipe p =>
    bit 0 (pipe_corr p) + bit 1 (pipe_ipab p) + bit 2 (pipe_t2cb p) + bit 3 (pipe_prob p)
    + bit 4 (pipe_backb p)
  | CC2T gap tokens classes out pre suf outl out2 outl2 tokens_after classes_after =>
    bit 0 (toks_eqb (class2tokens gap tokens classes) out
           && toks_eqb (class2tokens_local gap tokens pre classes suf) outl
           && toks_eqb (class2tokens gap tokens classes) out2
           && toks_eqb (class2tokens_local gap tokens pre classes suf) outl2)
    + bit 4 (c2t_okb gap tokens classes out
             && c2t_okb gap (local_slice tokens (length pre) (length suf)) classes outl)
    + bit 5 (unchangedb tokens tokens_after && unchangedb classes classes_after
             && toks_eqb out out2 && toks_eqb outl outl2)
  end.
