(* C14 - proofs about token2class / tokens2class, for every converter (partial map) and
   every stress / diacritic predicate; and the finite obligations over the shipped
   converter tables (LVGen.ScTables, regenerated from the files on every run). *)
From Coq Require Import ZArith List Bool Lia.
From LV Require Import Common.Cases Seq.SeqCommon Seq.Token2Class.
From LVGen Require Import ScTables.
Import ListNotations.
Local Open Scope Z_scope.

Lemma filter_len_le {A} (f : A -> bool) (l : list A) : (length (filter f l) <= length l)%nat.
Proof. induction l as [|x r IH]; cbn [filter length]; [lia|]. destruct (f x); cbn [length]; lia. Qed.

Section T2C.
  Variable conv : token -> option token.
  Variable is_stress is_diac : char -> bool.

  (* the class alphabet of a converter: its range, plus the unknown marker *)
  Definition in_alphabet (c : token) : Prop := c = UNKNOWN \/ exists key, conv key = Some c.

  Lemma after_first_ok rest :
    rest <> [] -> exists c, after_first conv rest = Ok c /\ in_alphabet c.
  Proof.
    intros NE. unfold after_first. destruct (conv rest) as [c|] eqn:E.
    - exists c. split; [reflexivity|]. right. now exists rest.
    - destruct rest as [|c1 r]; [congruence|].
      destruct (conv [c1]) as [c|] eqn:E1.
      + exists c. split; [reflexivity|]. right. now exists [c1].
      + exists UNKNOWN. split; [reflexivity|now left].
  Qed.

  (* token2class never raises and returns a class of the alphabet *)
  Lemma token2class_total cldf tok :
    exists c, token2class conv is_stress is_diac cldf tok = Ok c /\ in_alphabet c.
  Proof.
    unfold token2class. set (t := if cldf then cldf_rewrite tok else tok). clearbody t.
    destruct (conv t) as [c|] eqn:E.
    { exists c. split; [reflexivity|]. right. now exists t. }
    destruct t as [|c0 rest].
    { exists UNKNOWN. split; [reflexivity|now left]. }
    destruct (conv [c0]) as [c|] eqn:E0.
    { exists c. split; [reflexivity|]. right. now exists [c0]. }
    assert (L : (1 <? Z.of_nat (length (c0 :: rest))) = true -> rest <> []).
    { intros H. apply Z.ltb_lt in H. cbn [length] in H. destruct rest; [cbn in H; lia|discriminate]. }
    destruct (is_stress c0 && (1 <? Z.of_nat (length (c0 :: rest)))) eqn:S.
    { apply andb_true_iff in S. destruct S as [_ S]. apply after_first_ok. now apply L. }
    destruct (is_diac c0).
    - destruct (1 <? Z.of_nat (length (c0 :: rest))) eqn:S'.
      + apply after_first_ok. now apply L.
      + exists UNKNOWN. split; [reflexivity|now left].
    - exists UNKNOWN. split; [reflexivity|now left].
  Qed.

  Lemma map_res_token2class cldf toks :
    exists cls, map_res (token2class conv is_stress is_diac cldf) toks = Ok cls /\
                length cls = length toks /\ Forall in_alphabet cls.
  Proof.
    induction toks as [|t r IH].
    - exists []. cbn. auto.
    - destruct IH as (cls & E & L & A).
      destruct (token2class_total cldf t) as (c & Ec & Ac).
      exists (c :: cls). cbn [map_res]. rewrite Ec, E. cbn [length]. auto.
  Qed.

  (* one class per token *)
  Theorem tokens2class_length cldf toks cls :
    tokens2class conv is_stress is_diac cldf toks = Ok cls -> length cls = length toks.
  Proof.
    unfold tokens2class. destruct (map_res_token2class cldf toks) as (cls' & E & L & _). rewrite E.
    destruct (Nat.eqb (count_unknown cls') (length cls')); [discriminate|].
    intros H. injection H as <-. exact L.
  Qed.

  (* every class comes from the converter's range or is the unknown marker '0' *)
  Theorem tokens2class_alphabet cldf toks cls :
    tokens2class conv is_stress is_diac cldf toks = Ok cls -> Forall in_alphabet cls.
  Proof.
    unfold tokens2class. destruct (map_res_token2class cldf toks) as (cls' & E & _ & A). rewrite E.
    destruct (Nat.eqb (count_unknown cls') (length cls')); [discriminate|].
    intros H. injection H as <-. exact A.
  Qed.

  Lemma count_unknown_all cls :
    count_unknown cls = length cls <-> Forall (fun c => c = UNKNOWN) cls.
  Proof.
    unfold count_unknown. induction cls as [|c r IH]; cbn [filter length].
    - split; [constructor|reflexivity].
    - pose proof (filter_len_le (tok_eqb UNKNOWN) r) as LE.
      destruct (tok_eqb UNKNOWN c) eqn:E.
      + apply (list_eqb_spec Z.eqb Z.eqb_eq) in E. cbn [length]. split.
        * intros H. constructor; [now symmetry|]. apply IH. lia.
        * intros H. inversion H; subst. f_equal. now apply IH.
      + split; [lia|]. intros H. inversion H; subst.
        assert (T : tok_eqb UNKNOWN UNKNOWN = true) by reflexivity. congruence.
  Qed.

  (* the only exception is the ValueError "only unknown characters", raised exactly when every
     token (possibly none) maps to '0' *)
  Theorem tokens2class_outcome cldf toks :
    match tokens2class conv is_stress is_diac cldf toks with
    | Ok cls => exists c, In c cls /\ c <> UNKNOWN
    | ValueErr => forall t, In t toks -> token2class conv is_stress is_diac cldf t = Ok UNKNOWN
    | _ => False
    end.
  Proof.
    unfold tokens2class.
    assert (G : forall toks cls, map_res (token2class conv is_stress is_diac cldf) toks = Ok cls ->
                 Forall2 (fun t c => token2class conv is_stress is_diac cldf t = Ok c) toks cls).
    { induction toks0 as [|t r IH]; intros cls0 H; cbn [map_res] in H.
      - injection H as <-. constructor.
      - destruct (token2class conv is_stress is_diac cldf t) as [c| | |] eqn:Et; try discriminate.
        destruct (map_res (token2class conv is_stress is_diac cldf) r) as [cs| | |] eqn:Er; try discriminate.
        injection H as <-. constructor; [exact Et|now apply IH]. }
    destruct (map_res_token2class cldf toks) as (cls & E & L & _). rewrite E.
    destruct (Nat.eqb (count_unknown cls) (length cls)) eqn:C.
    - apply Nat.eqb_eq in C. apply count_unknown_all in C.
      specialize (G toks cls E). clear E L.
      induction G as [|t c ts cs Ht _ IH]; intros t0 Hin; [destruct Hin|].
      inversion C; subst. destruct Hin as [<-|Hin]; [exact Ht|]. now apply IH.
    - apply Nat.eqb_neq in C.
      assert (NA : ~ Forall (fun c => c = UNKNOWN) cls) by (intros Z; apply C; now apply count_unknown_all).
      clear -NA. induction cls as [|c r IH]; [exfalso; apply NA; constructor|].
      destruct (tok_eqb c UNKNOWN) eqn:Ec.
      + apply (list_eqb_spec Z.eqb Z.eqb_eq) in Ec. subst c.
        destruct IH as (c' & I & N'); [intros Z; apply NA; now constructor|].
        exists c'. split; [now right|exact N'].
      + exists c. split; [now left|]. intros ->. cbn in Ec. discriminate.
  Qed.
End T2C.

(* ------------------------------------------------------------------ *)
(* association-list converters *)

Lemma tok_eqb_eq a b : tok_eqb a b = true <-> a = b.
Proof. apply (list_eqb_spec Z.eqb Z.eqb_eq). Qed.

Lemma assoc_find_in tbl key c : assoc_find tbl key = Some c -> In c (map snd tbl).
Proof.
  induction tbl as [|[k v] r IH]; cbn [assoc_find map snd]; [discriminate|].
  destruct (tok_eqb k key).
  - intros H. injection H as <-. now left.
  - intros H. right. now apply IH.
Qed.

Definition table_nogapb (tbl : list (token * token)) : bool :=
  forallb (fun c => negb (is_gap_class c)) (map snd tbl).

Definition table_intb (tbl : list (token * token)) : bool :=
  forallb (fun c => match parse_int c with Some _ => true | None => false end) (map snd tbl).

(* a class of a table without gap values is never a gap class ('', '-', 'X', '-X') *)
Lemma tokens2class_nogap_table tbl is_stress is_diac cldf toks cls :
  table_nogapb tbl = true ->
  tokens2class (assoc_find tbl) is_stress is_diac cldf toks = Ok cls ->
  Forall (fun c => is_gap_class c = false) cls.
Proof.
  intros T H. apply tokens2class_alphabet in H.
  unfold table_nogapb in T. rewrite forallb_forall in T.
  eapply Forall_impl; [|exact H]. intros c [->|(key & K)]; [reflexivity|].
  apply assoc_find_in in K. apply T in K. now apply negb_true_iff in K.
Qed.

(* ------------------------------------------------------------------ *)
(* generated obligations over the shipped tables (vm_compute over the finite tables) *)

Lemma shipped_nogap_b : forallb (fun nt => table_nogapb (snd nt)) sc_all = true.
Proof. vm_compute. reflexivity. Qed.

Lemma shipped_art_int_b : forallb table_intb sc_art_models = true.
Proof. vm_compute. reflexivity. Qed.

Lemma shipped_nonempty : sc_all <> [] /\ sc_art_models <> [].
Proof. split; discriminate. Qed.

(* for every shipped model: no class is '-', 'X', '-X' or empty *)
Theorem shipped_classes_not_gap :
  forall name tbl c, In (name, tbl) sc_all -> In c (map snd tbl) -> is_gap_class c = false.
Proof.
  intros name tbl c H Hc. pose proof shipped_nogap_b as B. rewrite forallb_forall in B.
  specialize (B _ H). cbn [snd] in B. unfold table_nogapb in B. rewrite forallb_forall in B.
  apply B in Hc. now apply negb_true_iff in Hc.
Qed.

(* for every shipped model and every token list: no returned class is a gap class *)
Theorem shipped_tokens2class_nogap :
  forall name tbl is_stress is_diac cldf toks cls,
    In (name, tbl) sc_all ->
    tokens2class (assoc_find tbl) is_stress is_diac cldf toks = Ok cls ->
    Forall (fun c => is_gap_class c = false) cls.
Proof.
  intros name tbl st di cldf toks cls H. apply tokens2class_nogap_table.
  pose proof shipped_nogap_b as B. rewrite forallb_forall in B. exact (B _ H).
Qed.

(* every class of an 'art' model is a plain integer literal *)
Theorem shipped_art_classes_int :
  forall tbl c, In tbl sc_art_models -> In c (map snd tbl) -> exists v, parse_int c = Some v.
Proof.
  intros tbl c H Hc. pose proof shipped_art_int_b as B. rewrite forallb_forall in B.
  specialize (B _ H). unfold table_intb in B. rewrite forallb_forall in B. apply B in Hc.
  destruct (parse_int c) as [v|]; [now exists v|discriminate].
Qed.
