(* C14 - prosodic_weights: one weight per symbol; with the default (generated) tables the
   call never raises on a prosodic string produced by prosodic_string. *)
From Coq Require Import ZArith QArith List Bool Lia.
From LV Require Import Common.Cases Seq.SeqCommon Seq.Token2Class Seq.Token2ClassProofs
     Seq.ProsodyBase Seq.Prosody Seq.ProsodyProofs Seq.ProsodyW.
From LVGen Require Import ProsodyWeights ScTables.
Import ListNotations.
Local Open Scope nat_scope.

Theorem prosodic_weights_length user ps ws :
  prosodic_weights user ps = Ok ws -> length ws = length ps.
Proof. unfold prosodic_weights. apply map_key_len. Qed.

Definition has_key (tbl : list (Z * Q)) (x : Z) : bool :=
  match zassoc tbl x with Some _ => true | None => false end.

(* generated obligation: both default tables have a weight for every symbol of 'ABCLMNXYZT_' *)
Lemma default_tables_cover :
  forallb (has_key pw_tonal) (sU :: pro_alphabet) = true /\
  forallb (has_key pw_plain) (sU :: pro_alphabet) = true.
Proof. split; vm_compute; reflexivity. Qed.

Lemma in_pro_us_In x : in_pro_us x = true -> In x (sU :: pro_alphabet).
Proof.
  unfold in_pro_us, in_pro. intros H. apply orb_true_iff in H. destruct H as [H|H].
  - right. unfold memc in H. apply existsb_exists in H. destruct H as (y & Hy & E).
    apply Z.eqb_eq in E. now subst.
  - left. apply Z.eqb_eq in H. now symmetry.
Qed.

(* prosodic_weights(prosodic_string(profile)) is defined for every integer profile and has one
   weight per value *)
Theorem prosodic_weights_of_prostring l :
  exists s ws, prosodic_string OTrue l = Ok s /\ prosodic_weights [] s = Ok ws /\
               length ws = length l.
Proof.
  destruct (prosodic_string_total l) as (s & E & L & A).
  assert (T : exists ws, prosodic_weights [] s = Ok ws).
  { unfold prosodic_weights. destruct default_tables_cover as [CT CP].
    destruct (existsb (Z.eqb sT) s); apply map_key_total; rewrite forallb_forall in *; intros x Hx;
      [apply (CT x)|apply (CP x)]; apply in_pro_us_In; now apply A. }
  destruct T as (ws & W). exists s, ws. split; [exact E|]. split; [exact W|].
  apply prosodic_weights_length in W. congruence.
Qed.

(* the whole chain on tokens, for a shipped 'art' table: whenever tokens2class returns, the
   sonority profile, the prosodic string and the prosodic weights all exist and have exactly one
   element per token (the contract the aligners rely on when they index them by token position) *)
Theorem shipped_pipeline_lengths :
  forall tbl (is_stress is_diac : char -> bool) (cldf : bool) (toks cls : list token),
    In tbl sc_art_models ->
    tokens2class (assoc_find tbl) is_stress is_diac cldf toks = Ok cls ->
    exists l s ws,
      sonority (assoc_find tbl) is_stress is_diac cldf toks = Ok l /\
      prosodic_string_tokens (assoc_find tbl) is_stress is_diac cldf OTrue toks = Ok s /\
      prosodic_weights [] s = Ok ws /\
      length cls = length toks /\ length l = length toks /\ length s = length toks /\
      length ws = length toks.
Proof.
  intros tbl st di cldf toks cls H E.
  destruct (shipped_art_sonority_total tbl st di cldf toks cls H E) as (l & El & Ll).
  destruct (prosodic_weights_of_prostring l) as (s & ws & Es & Ew & Lw).
  exists l, s, ws. split; [exact El|].
  assert (Et : prosodic_string_tokens (assoc_find tbl) st di cldf OTrue toks = Ok s).
  { unfold prosodic_string_tokens. destruct toks as [|t r].
    - cbn [length] in Ll. destruct l; [|discriminate]. cbn in Es. exact Es.
    - rewrite El. exact Es. }
  split; [exact Et|]. split; [exact Ew|].
  apply tokens2class_length in E. apply prosodic_string_length in Es.
  repeat split; congruence.
Qed.
