(* C14 - model of class2tokens (sound_classes.py:1121-1183): gap re-insertion.
   [classes] is the aligned class string as a list of classes (a Python string is the
   list of its one-character strings); the gap test is  c in '-X'  as written (a substring
   test: '', '-', 'X', '-X' are gaps).  [gap] is gap_char. *)
From Coq Require Import ZArith List Bool.
From LV Require Import Common.Cases Seq.SeqCommon Seq.Token2Class.
Import ListNotations.

(* list.insert(i, x) for i >= 0: positions beyond the end append *)
Definition insert_at {A} (i : nat) (x : A) (l : list A) : list A :=
  firstn i l ++ x :: skipn i l.

(* for i, c in enumerate(classes): if c in '-X': out.insert(i, gap_char) *)
Fixpoint c2t_loop (gap : token) (i : nat) (classes : list token) (out : list token) : list token :=
  match classes with
  | [] => out
  | c :: r => c2t_loop gap (S i) r (if is_gap_class c then insert_at i gap out else out)
  end.

Definition class2tokens (gap : token) (tokens classes : list token) : list token :=
  c2t_loop gap 0 classes tokens.

(* tokens[prefix:suffix] with suffix = -len(classes[2]) or None when that is 0 *)
Definition local_slice (tokens : list token) (prefix suffix : nat) : list token :=
  skipn prefix (firstn (length tokens - suffix) tokens).

(* local=True: classes = (prefix, middle, suffix) *)
Definition class2tokens_local (gap : token) (tokens pre mid suf : list token) : list token :=
  c2t_loop gap 0 mid (local_slice tokens (length pre) (length suf)).

(* ------------------------------------------------------------------ *)
(* vocabulary of the specification *)

(* the output with the gap symbol removed *)
Definition degap (gap : token) (out : list token) : list token :=
  filter (fun t => negb (tok_eqb t gap)) out.

Definition gaps (classes : list token) : nat := length (filter is_gap_class classes).

Definition nongaps (classes : list token) : nat :=
  length (filter (fun c => negb (is_gap_class c)) classes).

(* specification of gap re-insertion: walk along the class string; a gap class emits the gap
   symbol, any other class emits the next token; when the tokens have run out the remaining gap
   classes still emit gaps (list.insert beyond the end appends) *)
Fixpoint weave (gap : token) (classes rest : list token) : list token :=
  match classes with
  | [] => rest
  | c :: r => if is_gap_class c then gap :: weave gap r rest
              else match rest with
                   | t :: rest' => t :: weave gap r rest'
                   | [] => repeat gap (gaps r)
                   end
  end.
