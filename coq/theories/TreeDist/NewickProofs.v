(* C15 - lemmas on the character-level string operations, the tree induction
   principle, and the decomposition of a printed tree into comma-separated
   pieces. *)
From Coq Require Import Ascii String Bool Arith Lia List.
From LV Require Import Common.Cases TreeDist.Newick TreeDist.Bipart TreeDist.SetProofs.
Import ListNotations.
Local Open Scope char_scope.
Local Open Scope nat_scope.

(* ---------- induction on rose trees ---------- *)

Lemma tree_ind' (P : tree -> Prop) :
  (forall n l, P (Leaf n l)) ->
  (forall cs l, Forall P cs -> P (Node cs l)) ->
  forall t, P t.
Proof.
  intros HL HN. fix IH 1. intros [n l|cs l]; [apply HL|]. apply HN.
  induction cs as [|c cs IHcs]; constructor; [apply IH|exact IHcs].
Qed.

(* ---------- characters ---------- *)

Lemma eqb_neq : forall a b : ascii, a <> b -> Ascii.eqb a b = false.
Proof. intros a b H. apply Ascii.eqb_neq. exact H. Qed.

Lemma has_char_In : forall c s, has_char c s = true <-> In c s.
Proof.
  intros c s. unfold has_char. rewrite existsb_exists. split.
  - intros [x [Hx E]]. apply Ascii.eqb_eq in E. subst. exact Hx.
  - intros H. exists c. split; [exact H|apply Ascii.eqb_refl].
Qed.

Lemma has_char_false : forall c s, has_char c s = false <-> ~ In c s.
Proof.
  intros c s. rewrite <- has_char_In. destruct (has_char c s); split; intros H; try reflexivity; try discriminate;
    try (exfalso; apply H; reflexivity).
Qed.

Lemma count_char_app : forall c a b, count_char c (a ++ b) = count_char c a + count_char c b.
Proof. intros c a b. unfold count_char. rewrite filter_app, app_length. reflexivity. Qed.

Lemma count_char_notin : forall c s, ~ In c s -> count_char c s = 0.
Proof.
  intros c. induction s as [|x s IH]; intros H; [reflexivity|].
  unfold count_char in *. cbn [filter]. rewrite eqb_neq.
  - apply IH. intros K. apply H. right. exact K.
  - intros E. apply H. left. symmetry. exact E.
Qed.

Lemma count_char_repeat : forall c n, count_char c (repeat c n) = n.
Proof.
  intros c. induction n as [|n IH]; [reflexivity|].
  unfold count_char in *. cbn [repeat filter]. rewrite Ascii.eqb_refl. cbn [length]. rewrite IH. reflexivity.
Qed.

Lemma count_char_cons_eq : forall c s, count_char c (c :: s) = S (count_char c s).
Proof. intros c s. unfold count_char. cbn [filter]. rewrite Ascii.eqb_refl. reflexivity. Qed.

Lemma count_char_cons_neq : forall c x s, x <> c -> count_char c (x :: s) = count_char c s.
Proof.
  intros c x s H. unfold count_char. cbn [filter]. rewrite eqb_neq; [reflexivity|].
  intros E. apply H. symmetry. exact E.
Qed.

Lemma replace_char_notin : forall a b s, ~ In a s -> replace_char a b s = s.
Proof.
  intros a b. induction s as [|x s IH]; intros H; [reflexivity|].
  unfold replace_char in *. cbn [map]. rewrite eqb_neq.
  - f_equal. apply IH. intros K. apply H. right. exact K.
  - intros E. apply H. left. exact E.
Qed.

Lemma remove_char_notin : forall a s, ~ In a s -> remove_char a s = s.
Proof.
  intros a. induction s as [|x s IH]; intros H; [reflexivity|].
  unfold remove_char in *. cbn [filter]. rewrite eqb_neq.
  - cbn [negb]. f_equal. apply IH. intros K. apply H. right. exact K.
  - intros E. apply H. left. exact E.
Qed.

Lemma remove_char_app : forall a x y, remove_char a (x ++ y) = remove_char a x ++ remove_char a y.
Proof. intros a x y. unfold remove_char. apply filter_app. Qed.

Lemma remove_char_cons_eq : forall a s, remove_char a (a :: s) = remove_char a s.
Proof. intros a s. unfold remove_char. cbn [filter]. rewrite Ascii.eqb_refl. reflexivity. Qed.

Lemma cut_at_app : forall c a b, ~ In c a -> cut_at c (a ++ c :: b) = a.
Proof.
  intros c. induction a as [|x a IH]; intros b H; cbn [app cut_at].
  - rewrite Ascii.eqb_refl. reflexivity.
  - rewrite eqb_neq.
    + f_equal. apply IH. intros K. apply H. right. exact K.
    + intros E. apply H. left. exact E.
Qed.

Lemma cut_at_notin : forall c a, ~ In c a -> cut_at c a = a.
Proof.
  intros c. induction a as [|x a IH]; intros H; cbn [cut_at]; [reflexivity|].
  rewrite eqb_neq.
  - f_equal. apply IH. intros K. apply H. right. exact K.
  - intros E. apply H. left. exact E.
Qed.

Lemma lstrip_by_repeat : forall p c n s, p c = true -> lstrip_by p (repeat c n ++ s) = lstrip_by p s.
Proof.
  intros p c n s H. induction n as [|n IH]; [reflexivity|].
  cbn [repeat app lstrip_by]. rewrite H. exact IH.
Qed.

Lemma lstrip_by_stop : forall p x s, p x = false -> lstrip_by p (x :: s) = x :: s.
Proof. intros p x s H. cbn [lstrip_by]. rewrite H. reflexivity. Qed.

(* a non-empty string whose first and last characters are kept by p is not stripped *)
Lemma strip_by_id : forall p s, s <> [] -> p (hd " " s) = false -> p (last s " ") = false -> strip_by p s = s.
Proof.
  intros p s Hne Hh Hl. unfold strip_by.
  destruct s as [|x s]; [congruence|]. cbn [hd] in Hh.
  rewrite lstrip_by_stop by exact Hh.
  destruct (rev (x :: s)) as [|y r] eqn:E.
  - apply (f_equal (@length ascii)) in E. rewrite rev_length in E. discriminate.
  - assert (Hy : y = last (x :: s) " ").
    { rewrite <- (rev_involutive (x :: s)), E. cbn [rev]. rewrite last_last. reflexivity. }
    rewrite lstrip_by_stop by (rewrite Hy; exact Hl).
    rewrite <- E. apply rev_involutive.
Qed.

(* ---------- split / join ---------- *)

Lemma split_acc_notin : forall c x cur rest, ~ In c x ->
  split_acc c cur (x ++ rest) = split_acc c (rev x ++ cur) rest.
Proof.
  intros c. induction x as [|a x IH]; intros cur rest H; [reflexivity|].
  cbn [app split_acc]. rewrite eqb_neq.
  - rewrite IH by (intros K; apply H; right; exact K). cbn [rev]. rewrite <- app_assoc. reflexivity.
  - intros E. apply H. left. exact E.
Qed.

Lemma split_on_join : forall c xs, xs <> [] -> Forall (fun x => ~ In c x) xs ->
  split_on c (join [c] xs) = xs.
Proof.
  intros c xs Hne HF. unfold split_on.
  induction xs as [|x tl IH]; [congruence|].
  inversion HF as [|? ? Hx Ht]; subst.
  destruct tl as [|y tl'].
  - cbn [join]. rewrite <- (app_nil_r x) at 1. rewrite split_acc_notin by exact Hx.
    cbn [split_acc]. rewrite app_nil_r, rev_involutive. reflexivity.
  - change (join [c] (x :: y :: tl')) with (x ++ [c] ++ join [c] (y :: tl')).
    rewrite split_acc_notin by exact Hx. cbn [app split_acc]. rewrite Ascii.eqb_refl.
    rewrite app_nil_r, rev_involutive. f_equal. apply IH; [discriminate|exact Ht].
Qed.

Lemma join_cons2 : forall (T : Type) (sep : list T) x y tl, join sep (x :: y :: tl) = x ++ sep ++ join sep (y :: tl).
Proof. reflexivity. Qed.

Lemma join_app : forall (T : Type) (sep : list T) a b, a <> [] -> b <> [] -> join sep (a ++ b) = join sep a ++ sep ++ join sep b.
Proof.
  intros T sep a b Ha Hb. induction a as [|x a IH]; [congruence|].
  destruct a as [|y a'].
  - cbn [app]. destruct b as [|z b']; [congruence|]. reflexivity.
  - change ((x :: y :: a') ++ b) with (x :: y :: (a' ++ b)).
    rewrite join_cons2. change (y :: a' ++ b) with ((y :: a') ++ b). rewrite IH by discriminate.
    rewrite join_cons2. rewrite <- !app_assoc. reflexivity.
Qed.

Lemma join_flat_map : forall (A T : Type) (sep : list T) (f : A -> list (list T)) (cs : list A),
  (forall c, In c cs -> f c <> []) ->
  join sep (map (fun c => join sep (f c)) cs) = join sep (flat_map f cs).
Proof.
  intros A T sep f. induction cs as [|c cs IH]; intros H; [reflexivity|].
  cbn [map flat_map].
  destruct cs as [|d cs'].
  - cbn [map flat_map join]. rewrite app_nil_r. reflexivity.
  - change (map (fun c0 => join sep (f c0)) (d :: cs')) with (join sep (f d) :: map (fun c0 => join sep (f c0)) cs').
    rewrite join_cons2.
    change (join sep (f d) :: map (fun c0 => join sep (f c0)) cs') with (map (fun c0 => join sep (f c0)) (d :: cs')).
    rewrite IH by (intros e He; apply H; right; exact He).
    rewrite join_app; [reflexivity|apply H; left; reflexivity|].
    cbn [flat_map]. intros E. apply app_eq_nil in E. destruct E as [E _].
    apply (H d); [right; left; reflexivity|exact E].
Qed.

(* ---------- clean characters ---------- *)

Definition special : list ascii := ["("; ")"; ","; ":"; ";"; "'"; """"; "["; "]"; "/"; " "; "009"; "010"].

Lemma clean_char_facts : forall c, clean_char c = true ->
  ~ In c special /\ is_space c = false /\ is_punct c = false /\ is_blank c = false /\ is_newline c = false
  /\ unmodelled_char c = false /\ Ascii.eqb c "'" = false
  /\ ((nat_of_ascii c <? 32) && negb (is_blank c) || (126 <? nat_of_ascii c)) = false.
Proof.
  intros [b0 b1 b2 b3 b4 b5 b6 b7];
    destruct b0, b1, b2, b3, b4, b5, b6, b7; vm_compute; intros H; try discriminate;
    (split; [intros K; repeat (destruct K as [K|K]; [discriminate K|]); exact K|]); repeat split; reflexivity.
Qed.

Lemma clean_Forall : forall s, clean s = true -> s <> [] /\ Forall (fun c => clean_char c = true) s.
Proof.
  intros s H. unfold clean in H. apply andb_true_iff in H. destruct H as [H1 H2]. split.
  - destruct s; [discriminate|discriminate].
  - apply Forall_forall. apply forallb_forall. exact H2.
Qed.

Lemma clean_notin : forall s c, clean s = true -> In c special -> ~ In c s.
Proof.
  intros s c H Hc K. apply clean_Forall in H. destruct H as [_ HF].
  rewrite Forall_forall in HF. specialize (HF c K). apply clean_char_facts in HF. tauto.
Qed.

Lemma last_In' : forall (A : Type) (l : list A) d, l <> [] -> In (last l d) l.
Proof.
  intros A. induction l as [|x l IH]; intros d H; [congruence|].
  destruct l as [|y l']; [left; reflexivity|].
  right. change (last (x :: y :: l') d) with (last (y :: l') d). apply IH. discriminate.
Qed.

Lemma clean_hd_last : forall s, clean s = true ->
  clean_char (hd " " s) = true /\ clean_char (last s " ") = true.
Proof.
  intros s H. apply clean_Forall in H. destruct H as [Hne HF]. rewrite Forall_forall in HF. split.
  - destruct s; [congruence|]. apply HF. left. reflexivity.
  - apply HF. apply last_In'. exact Hne.
Qed.

Lemma strip_ws_clean : forall s, clean s = true -> strip_ws s = s.
Proof.
  intros s H. destruct (clean_hd_last s H) as [H1 H2]. unfold strip_ws. apply strip_by_id.
  - apply clean_Forall in H. tauto.
  - apply clean_char_facts in H1. tauto.
  - apply clean_char_facts in H2. tauto.
Qed.

(* ---------- pieces of a printed tree ---------- *)

(* opens, name, length of the tip, lengths following each ")" *)
Definition relem : Type := (nat * str * option str * list (option str))%type.

Definition render (e : relem) : str :=
  let '(o, n, l, cl) := e in
  repeat "(" o ++ print_name n ++ plen l ++ flat_map (fun x => ")" :: plen x) cl.

Definition forget (e : relem) : elem := let '(o, n, l, cl) := e in (o, n, length cl).

Definition add_open (e : relem) : relem := let '(o, n, l, cl) := e in (S o, n, l, cl).
Definition add_close (x : option str) (e : relem) : relem := let '(o, n, l, cl) := e in (o, n, l, cl ++ [x]).

Definition map_first {A : Type} (f : A -> A) (l : list A) : list A :=
  match l with [] => [] | x :: tl => f x :: tl end.
Fixpoint map_last {A : Type} (f : A -> A) (l : list A) : list A :=
  match l with
  | [] => []
  | [x] => [f x]
  | x :: tl => x :: map_last f tl
  end.

Fixpoint pieces (t : tree) : list relem :=
  match t with
  | Leaf n l => [(0, n, l, [])]
  | Node cs l => map_last (add_close l) (map_first add_open (flat_map pieces cs))
  end.

(* every internal node has a child (weaker than [proper]) *)
Fixpoint inhabited (t : tree) : bool :=
  match t with
  | Leaf _ _ => true
  | Node cs _ => negb (match cs with [] => true | _ => false end) && forallb inhabited cs
  end.

Lemma proper_inhabited : forall t, proper t = true -> inhabited t = true.
Proof.
  induction t as [n l|cs l IH] using tree_ind'; [reflexivity|].
  cbn [proper inhabited]. intros H. apply andb_true_iff in H. destruct H as [H1 H2].
  apply andb_true_iff. split.
  - destruct cs; [discriminate|reflexivity].
  - apply forallb_forall. intros c Hc. rewrite Forall_forall in IH. apply IH; [exact Hc|].
    rewrite forallb_forall in H2. apply H2. exact Hc.
Qed.

Lemma map_first_nonempty : forall (A : Type) (f : A -> A) l, l <> [] -> map_first f l <> [].
Proof. intros A f [|x l] H; [congruence|discriminate]. Qed.
Lemma map_last_nonempty : forall (A : Type) (f : A -> A) l, l <> [] -> map_last f l <> [].
Proof. intros A f [|x [|y l]] H; [congruence|discriminate|discriminate]. Qed.

Lemma pieces_nonempty : forall t, inhabited t = true -> pieces t <> [].
Proof.
  induction t as [n l|cs l IH] using tree_ind'; intros H; [discriminate|].
  cbn [pieces]. apply map_last_nonempty, map_first_nonempty.
  cbn [inhabited] in H. apply andb_true_iff in H. destruct H as [H1 H2].
  destruct cs as [|c cs]; [discriminate|].
  cbn [flat_map]. intros E. apply app_eq_nil in E. destruct E as [E _].
  inversion IH as [|? ? Hc _]; subst. apply Hc; [|exact E].
  cbn [forallb] in H2. apply andb_true_iff in H2. tauto.
Qed.

Lemma render_add_open : forall e, render (add_open e) = "(" :: render e.
Proof. intros [[[o n] l] cl]. reflexivity. Qed.

Lemma render_add_close : forall x e, render (add_close x e) = render e ++ ")" :: plen x.
Proof.
  intros x [[[o n] l] cl]. unfold add_close, render. rewrite flat_map_app. cbn [flat_map].
  rewrite app_nil_r, <- !app_assoc. reflexivity.
Qed.

Lemma join_map_first : forall ps, ps <> [] ->
  "(" :: join [","] (map render ps) = join [","] (map render (map_first add_open ps)).
Proof.
  intros [|e [|e' ps]] H; [congruence| |].
  - cbn [map_first map join]. rewrite render_add_open. reflexivity.
  - cbn [map_first map]. rewrite !join_cons2, render_add_open. reflexivity.
Qed.

Lemma join_map_last : forall x ps, ps <> [] ->
  join [","] (map render ps) ++ ")" :: plen x = join [","] (map render (map_last (add_close x) ps)).
Proof.
  intros x. induction ps as [|e ps IH]; intros H; [congruence|].
  destruct ps as [|e' ps'].
  - cbn [map_last map join]. rewrite render_add_close. reflexivity.
  - change (map_last (add_close x) (e :: e' :: ps')) with (e :: map_last (add_close x) (e' :: ps')).
    cbn [map]. rewrite join_cons2.
    destruct (map_last (add_close x) (e' :: ps')) as [|q qs] eqn:E.
    + exfalso. revert E. apply map_last_nonempty. discriminate.
    + cbn [map]. rewrite join_cons2. rewrite <- !app_assoc. f_equal. f_equal.
      change (render q :: map render qs) with (map render (q :: qs)).
      change (render e' :: map render ps') with (map render (e' :: ps')). apply IH. discriminate.
Qed.

Lemma print_pieces : forall t, inhabited t = true ->
  print_node t = join [","] (map render (pieces t)).
Proof.
  induction t as [n l|cs l IH] using tree_ind'; intros H.
  - cbn [print_node pieces map join render repeat flat_map app]. rewrite app_nil_r. reflexivity.
  - cbn [inhabited] in H. apply andb_true_iff in H. destruct H as [H1 H2].
    rewrite forallb_forall in H2. rewrite Forall_forall in IH.
    cbn [print_node pieces].
    assert (E : map print_node cs = map (fun c => join [","] (map render (pieces c))) cs).
    { apply map_ext_in. intros c Hc. apply IH; [exact Hc|apply H2; exact Hc]. }
    rewrite E.
    assert (E2 : join [","] (map (fun c => join [","] (map render (pieces c))) cs)
                 = join [","] (map render (flat_map pieces cs))).
    { rewrite (join_flat_map tree ascii [","] (fun c => map render (pieces c)) cs).
      - f_equal. clear. induction cs as [|c cs IHc]; [reflexivity|]. cbn [flat_map]. rewrite map_app, IHc. reflexivity.
      - intros c Hc K. apply map_eq_nil in K. revert K. apply pieces_nonempty. apply H2. exact Hc. }
    rewrite E2.
    assert (Hne : flat_map pieces cs <> []).
    { destruct cs as [|c cs']; [discriminate|]. cbn [flat_map]. intros K. apply app_eq_nil in K. destruct K as [K _].
      revert K. apply pieces_nonempty. apply H2. left. reflexivity. }
    change ("(" :: join [","] (map render (flat_map pieces cs)) ++ ")" :: plen l)
      with (("(" :: join [","] (map render (flat_map pieces cs))) ++ ")" :: plen l).
    rewrite join_map_first by exact Hne.
    apply join_map_last. apply map_first_nonempty. exact Hne.
Qed.
