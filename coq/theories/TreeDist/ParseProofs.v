(* C15 - parse_print: the model of cogent's tokeniser and parser, applied to the
   printed text of a tree, returns that tree. *)
From Coq Require Import Ascii String Bool Arith Lia List Permutation.
From LV Require Import Common.Cases TreeDist.Newick TreeDist.Bipart TreeDist.RF TreeDist.Spec
  TreeDist.SetProofs TreeDist.NewickProofs TreeDist.BipartProofs TreeDist.TreeProofs.
Import ListNotations.
Local Open Scope char_scope.
Local Open Scope nat_scope.

(* ---------- the token sequence of a tree ---------- *)

Definition ltoks (l : option str) : list token :=
  match l with None => [] | Some x => [TPunct ":"; TLabel x] end.

Fixpoint ptoks (t : tree) : list token :=
  match t with
  | Leaf n l => TLabel n :: ltoks l
  | Node cs l => TPunct "(" :: join [TPunct ","] (map ptoks cs) ++ TPunct ")" :: ltoks l
  end.

(* ---------- tokeniser ---------- *)

Definition app_text (text : option str) (n : str) : str :=
  match text with None => n | Some t => t ++ n end.

Lemma tokenise_clean : forall n text s, Forall (fun c => clean_char c = true) n -> n <> [] ->
  tokenise text (n ++ s) = tokenise (Some (app_text text n)) s.
Proof.
  unfold tokenise.
  induction n as [|c n IH]; intros text s HF Hne; [congruence|].
  inversion HF as [|? ? Hc Hn]; subst.
  destruct (clean_char_facts c Hc) as [_ [_ [K1 [K2 [K3 [K4 [K5 _]]]]]]].
  cbn [app tokenise_q]. rewrite K1, K3, K5, K4, K2.
  destruct n as [|d n'].
  - cbn [app]. destruct text as [t|]; reflexivity.
  - rewrite IH by (auto; discriminate). f_equal.
    destruct text as [t|]; cbn [app_text]; [rewrite <- app_assoc|]; reflexivity.
Qed.

Lemma tokenise_punct : forall c text s, is_punct c = true ->
  tokenise text (c :: s) = option_map (fun r => flush text ++ TPunct c :: r) (tokenise None s).
Proof. intros c text s H. unfold tokenise. cbn [tokenise_q]. rewrite H. reflexivity. Qed.

(* a clean label followed by a punctuation character *)
Lemma tokenise_label : forall n p s r, clean n = true -> is_punct p = true ->
  tokenise None s = Some r ->
  tokenise None (n ++ p :: s) = Some (TLabel n :: TPunct p :: r).
Proof.
  intros n p s r Hn Hp Hs. destruct (clean_Forall n Hn) as [Hne HF].
  rewrite tokenise_clean by assumption. cbn [app_text]. rewrite tokenise_punct by exact Hp.
  rewrite Hs. cbn [option_map flush app]. rewrite strip_ws_clean by exact Hn. reflexivity.
Qed.

(* inside a quoted label clean characters are collected *)
Lemma tokenise_in_quote : forall n acc rest, Forall (fun c => clean_char c = true) n ->
  tokenise_q (Some acc) None (n ++ rest) = tokenise_q (Some (acc ++ n)) None rest.
Proof.
  induction n as [|c n IH]; intros acc rest HF; [rewrite app_nil_r; reflexivity|].
  inversion HF as [|? ? Hc Hn]; subst.
  destruct (clean_char_facts c Hc) as [_ [_ [K1 [K2 [K3 [K4 [K5 K6]]]]]]].
  cbn [app tokenise_q]. rewrite K5, K3, K6. rewrite IH by exact Hn. rewrite <- app_assoc. reflexivity.
Qed.

Lemma punct_not_quote : forall p, is_punct p = true -> Ascii.eqb p "'" = false.
Proof.
  intros p H. unfold is_punct in H. cbn [existsb] in H.
  repeat (apply orb_true_iff in H; destruct H as [H|H]; [apply Ascii.eqb_eq in H; subst; reflexivity|]).
  discriminate.
Qed.

(* a clean name in single quotes followed by a punctuation character *)
Lemma tokenise_quoted : forall n p s r, clean n = true -> is_punct p = true ->
  tokenise None s = Some r ->
  tokenise None ("'" :: n ++ "'" :: p :: s) = Some (TLabel n :: TPunct p :: r).
Proof.
  intros n p s r Hn Hp Hs. destruct (clean_Forall n Hn) as [Hne HF].
  unfold tokenise in *. destruct n as [|c n']; [congruence|].
  inversion HF as [|? ? Hc Hn']; subst.
  destruct (clean_char_facts c Hc) as [_ [_ [_ [_ [_ [_ [K5 _]]]]]]].
  cbn [app]. change (tokenise_q None None ("'" :: c :: n' ++ "'" :: p :: s))
    with (if Ascii.eqb c "'" then None else tokenise_q (Some []) None (c :: n' ++ "'" :: p :: s)).
  rewrite K5. change (c :: n' ++ "'" :: p :: s) with ((c :: n') ++ "'" :: p :: s).
  rewrite tokenise_in_quote by exact HF. cbn [app tokenise_q]. rewrite (punct_not_quote p Hp).
  rewrite Hp, Hs. reflexivity.
Qed.

Lemma tokenise_name : forall n p s r, clean n = true -> is_punct p = true ->
  tokenise None s = Some r ->
  tokenise None (print_name n ++ p :: s) = Some (TLabel n :: TPunct p :: r).
Proof.
  intros n p s r Hn Hp Hs. destruct (print_name_clean n Hn) as [E|E]; rewrite E.
  - apply tokenise_label; assumption.
  - cbn [app]. rewrite <- app_assoc. cbn [app]. apply tokenise_quoted; assumption.
Qed.

Lemma tokenise_plen : forall l p s r, clean_len l = true -> is_punct p = true ->
  tokenise None s = Some r ->
  tokenise None (plen l ++ p :: s) = Some (ltoks l ++ TPunct p :: r).
Proof.
  intros [x|] p s r Hl Hp Hs; cbn [plen ltoks app].
  - rewrite tokenise_punct by reflexivity. rewrite (tokenise_label x p s r Hl Hp Hs). reflexivity.
  - rewrite tokenise_punct by exact Hp. rewrite Hs. reflexivity.
Qed.

Lemma tokenise_tree : forall t p s r, inhabited t = true -> clean_tree t = true -> is_punct p = true ->
  tokenise None s = Some r ->
  tokenise None (print_node t ++ p :: s) = Some (ptoks t ++ TPunct p :: r).
Proof.
  induction t as [n l|cs l IH] using tree_ind'; intros p s r Hi Hc Hp Hs.
  - cbn [clean_tree] in Hc. apply andb_true_iff in Hc. destruct Hc as [Hn Hl].
    cbn [print_node ptoks]. rewrite <- app_assoc.
    destruct l as [x|]; cbn [plen ltoks app].
    + rewrite (tokenise_name n ":" (x ++ p :: s) (TLabel x :: TPunct p :: r) Hn eq_refl); [reflexivity|].
      apply tokenise_label; assumption.
    + apply tokenise_name; assumption.
  - apply clean_tree_node in Hc. destruct Hc as [Hcs Hl].
    cbn [inhabited] in Hi. apply andb_true_iff in Hi. destruct Hi as [Hne Hin].
    rewrite forallb_forall in Hin. rewrite Forall_forall in IH.
    cbn [print_node ptoks]. cbn [app]. rewrite tokenise_punct by reflexivity.
    assert (K : forall q s' r', is_punct q = true -> tokenise None s' = Some r' ->
      tokenise None (join [","] (map print_node cs) ++ q :: s')
      = Some (join [TPunct ","] (map ptoks cs) ++ TPunct q :: r')).
    { clear Hne. induction cs as [|c cs' IHc]; intros q s' r' Hq Hs'.
      - cbn [map join app]. rewrite tokenise_punct by exact Hq. rewrite Hs'. reflexivity.
      - destruct cs' as [|c' cs''].
        + cbn [map join]. apply IH; auto; [left; reflexivity|apply Hin; left; reflexivity|apply Hcs; left; reflexivity].
        + cbn [map]. rewrite !join_cons2.
          change (print_node c' :: map print_node cs'') with (map print_node (c' :: cs'')).
          change (ptoks c' :: map ptoks cs'') with (map ptoks (c' :: cs'')). rewrite <- !app_assoc. cbn [app].
          apply IH; [left; reflexivity|apply Hin; left; reflexivity|apply Hcs; left; reflexivity|reflexivity|].
          apply IHc; auto; intros x Hx; [apply IH|apply Hin|apply Hcs]; right; exact Hx. }
    rewrite <- app_assoc. cbn [app].
    rewrite (K ")" (plen l ++ p :: s) (ltoks l ++ TPunct p :: r) eq_refl).
    + cbn [option_map flush app]. rewrite <- app_assoc. reflexivity.
    + apply tokenise_plen; assumption.
Qed.

(* ---------- parser ---------- *)

(* about to read a node: nothing collected yet *)
Definition ready (stack : list frame) (nodes : list tree) (paren : bool) : pstate :=
  {| p_stack := stack; p_nodes := nodes; p_paren := paren; p_attr := None; p_children := None; p_name := None;
     p_expect := false |}.

(* the node t has been read, it is created by the next "," ")" ";" *)
Definition pending (stack : list frame) (nodes : list tree) (paren : bool) (t : tree) : pstate :=
  match t with
  | Leaf n l => {| p_stack := stack; p_nodes := nodes; p_paren := paren; p_attr := l; p_children := None;
                   p_name := Some n; p_expect := false |}
  | Node cs l => {| p_stack := stack; p_nodes := nodes; p_paren := paren; p_attr := l; p_children := Some cs;
                    p_name := None; p_expect := false |}
  end.

Lemma mk_node_pending : forall stack nodes paren t,
  mk_node (p_children (pending stack nodes paren t)) (p_name (pending stack nodes paren t))
          (p_attr (pending stack nodes paren t)) = Some t.
Proof. intros stack nodes paren [n l|cs l]; reflexivity. Qed.

Lemma pending_fields : forall stack nodes paren t,
  p_stack (pending stack nodes paren t) = stack /\ p_nodes (pending stack nodes paren t) = nodes /\
  p_paren (pending stack nodes paren t) = paren /\ p_expect (pending stack nodes paren t) = false.
Proof. intros stack nodes paren [n l|cs l]; repeat split. Qed.

(* reading the optional length of a node whose attribute slot is still empty *)
Lemma prun_ltoks : forall l stack nodes paren ch nm rest,
  prun {| p_stack := stack; p_nodes := nodes; p_paren := paren; p_attr := None; p_children := ch; p_name := nm;
          p_expect := false |} (ltoks l ++ rest)
  = prun {| p_stack := stack; p_nodes := nodes; p_paren := paren; p_attr := l; p_children := ch; p_name := nm;
            p_expect := false |} rest.
Proof. intros [x|] stack nodes paren ch nm rest; reflexivity. Qed.

Lemma pstep_comma : forall stack nodes t,
  pstep (pending stack nodes true t) (TPunct ",") = PCont (ready stack (nodes ++ [t]) true).
Proof. intros stack nodes [n l|cs l]; reflexivity. Qed.

Lemma pstep_close : forall fr stack nodes t,
  pstep (pending (fr :: stack) nodes true t) (TPunct ")")
  = PCont {| p_stack := stack; p_nodes := f_nodes fr; p_paren := f_paren fr; p_attr := f_attr fr;
             p_children := Some (nodes ++ [t]); p_name := None; p_expect := false |}.
Proof. intros fr stack nodes [n l|cs l]; reflexivity. Qed.

Lemma prun_tree : forall t stack nodes paren rest, inhabited t = true ->
  prun (ready stack nodes paren) (ptoks t ++ rest) = prun (pending stack nodes paren t) rest.
Proof.
  induction t as [n l|cs l IH] using tree_ind'; intros stack nodes paren rest Hi.
  - cbn [ptoks app prun]. unfold ready. cbn [pstep p_expect p_name p_attr p_stack p_nodes p_paren p_children].
    rewrite prun_ltoks. reflexivity.
  - cbn [inhabited] in Hi. apply andb_true_iff in Hi. destruct Hi as [Hne Hin].
    rewrite forallb_forall in Hin. rewrite Forall_forall in IH.
    cbn [ptoks app prun]. unfold ready at 1.
    cbn [pstep p_expect p_name p_attr p_stack p_nodes p_paren p_children].
    change (Ascii.eqb "(" "(") with true. cbv iota.
    set (fr := {| f_nodes := nodes; f_paren := paren; f_attr := None |}).
    fold (ready (fr :: stack) [] true).
    assert (K : forall acc rest',
      prun (ready (fr :: stack) acc true) (join [TPunct ","] (map ptoks cs) ++ TPunct ")" :: rest')
      = prun {| p_stack := stack; p_nodes := nodes; p_paren := paren; p_attr := None;
                p_children := Some (acc ++ cs); p_name := None; p_expect := false |} rest').
    { destruct cs as [|c cs']; [discriminate|]. clear Hne.
      revert c IH Hin. induction cs' as [|c' cs'' IHc]; intros c IH Hin acc rest'.
      - cbn [map join]. rewrite IH by (try (left; reflexivity); apply Hin; left; reflexivity).
        cbn [prun]. rewrite pstep_close. reflexivity.
      - cbn [map]. rewrite join_cons2. rewrite <- !app_assoc. cbn [app].
        rewrite IH by (try (left; reflexivity); apply Hin; left; reflexivity).
        cbn [prun]. rewrite pstep_comma.
        change (ptoks c' :: map ptoks cs'') with (map ptoks (c' :: cs'')).
        rewrite IHc.
        + rewrite <- app_assoc. reflexivity.
        + intros x Hx. apply IH. right. exact Hx.
        + intros x Hx. apply Hin. right. exact Hx. }
    rewrite <- app_assoc. cbn [app]. rewrite K. cbn [app]. rewrite prun_ltoks. reflexivity.
Qed.

Lemma prun_top : forall t, inhabited t = true ->
  prun p_init (ptoks t ++ [TPunct ";"; TEOT]) = Some t.
Proof.
  intros t Hi. change p_init with (ready [] [] false). rewrite prun_tree by exact Hi.
  destruct t as [n l|cs l]; reflexivity.
Qed.

Lemma print_has_semicolon : forall t, has_char ";" (print t) = true.
Proof. intros t. apply has_char_In. unfold print. apply in_or_app. right. left. reflexivity. Qed.

(* parse_print *)
Theorem load_print : forall t, inhabited t = true -> clean_tree t = true -> names_ok (leaves t) = true ->
  load (print t) = Some t.
Proof.
  intros t Hi Hc Hn. unfold load. rewrite print_has_semicolon. rewrite andb_false_r. cbn [andb].
  unfold print. rewrite (tokenise_tree t ";" [] [TEOT] Hi Hc eq_refl eq_refl).
  rewrite prun_top by exact Hi. rewrite Hn. reflexivity.
Qed.
