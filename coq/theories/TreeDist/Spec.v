(* C15 - specification level: bipartitions of a rose tree computed directly
   from its clades (no strings involved), the reference distance formulas,
   and the relation "the same tree with the children of some nodes listed in
   a different order".

   A bipartition {X, R \ X} of the taxon enumeration R is represented by the
   characteristic vector of X over R, complemented if necessary so that the
   first taxon is outside: two subsets of R get the same vector iff they are
   equal as sets or complementary ([canon_eq_iff] in SpecProofs.v). *)
From Coq Require Import Ascii String Bool Arith ZArith QArith List Permutation.
From LV Require Import Common.Cases TreeDist.Newick TreeDist.Bipart TreeDist.RF.
Import ListNotations.
Local Open Scope nat_scope.

Definition bvec := list bool.
Definition bvec_eqb (u v : bvec) : bool := list_eqb Bool.eqb u v.
Definition vmem (v : bvec) (l : list bvec) : bool := existsb (bvec_eqb v) l.
Fixpoint vdedup (l : list bvec) : list bvec :=
  match l with
  | [] => []
  | x :: tl => if vmem x tl then vdedup tl else x :: vdedup tl
  end.

Definition cvec (R c : list str) : bvec := map (fun r => mem r c) R.
Definition vneg (v : bvec) : bvec := map negb v.
Definition canon (R c : list str) : bvec :=
  match cvec R c with
  | true :: _ => vneg (cvec R c)
  | v => v
  end.

(* a clade is a non-trivial split of n taxa if it has between 2 and n-2 members *)
Definition nontrivial (n : nat) (c : list str) : bool := (2 <=? card c) && (card c + 2 <=? n).

(* the set of non-trivial bipartitions of t, as canonical vectors over R, without repetition *)
Definition biparts (R : list str) (t : tree) : list bvec :=
  vdedup (map (canon R) (filter (nontrivial (length R)) (clades t))).

Definition vdiff (a b : list bvec) : list bvec := filter (fun v => negb (vmem v b)) a.
Definition vinter (a b : list bvec) : list bvec := filter (fun v => vmem v b) a.

(* Robinson-Foulds: normalised symmetric difference of two bipartition sets.
   None when the first set is empty (the Python raises ZeroDivisionError). *)
Definition rf_of (sa sb : list bvec) : option Q :=
  if length sa =? 0 then None
  else Some (frac (Z.of_nat (length (vdiff sa sb) + length (vdiff sb sa))) (length sa + length sb)).

Definition spec_rf (R : list str) (a b : tree) : option Q := rf_of (biparts R a) (biparts R b).

(* two bipartitions are compatible iff one side of one is inside one side of the other *)
Fixpoint vle (u v : bvec) : bool :=
  match u, v with
  | x :: u', y :: v' => implb x y && vle u' v'
  | _, _ => true
  end.
Definition vcompat (u v : bvec) : bool :=
  vle u v || vle (vneg u) v || vle u (vneg v) || vle (vneg u) (vneg v).

(* generalised Robinson-Foulds: share of the bipartitions of a that conflict with some
   bipartition of b (all of them when b has none) *)
Definition grf_of (sa sb : list bvec) : option Q :=
  if length sa =? 0 then None
  else
    let ok := filter (fun u => negb (match sb with [] => true | _ => false end) && forallb (vcompat u) sb) sa in
    Some (frac (Z.of_nat (length sa) - Z.of_nat (length ok))%Z (length sa)).

Definition spec_grf (R : list str) (a b : tree) : option Q := grf_of (biparts R a) (biparts R b).

Definition has_split (t : tree) : bool :=
  negb (match biparts (leaves t) t with [] => true | _ => false end).

Definition same_taxa (a b : tree) : bool := set_eqb (leaves a) (leaves b).

(* ---------- the same tree written with another child order ---------- *)

Inductive tperm : tree -> tree -> Prop :=
| tp_refl : forall t, tperm t t
| tp_trans : forall a b c, tperm a b -> tperm b c -> tperm a c
| tp_perm : forall cs cs' l, Permutation cs cs' -> tperm (Node cs l) (Node cs' l)
| tp_child : forall pre a b post l, tperm a b -> tperm (Node (pre ++ a :: post) l) (Node (pre ++ b :: post) l).

Definition optstr_eqb (a b : option str) : bool := option_eqb str_eqb a b.

(* remove the first element satisfying p *)
Fixpoint extract (p : tree -> bool) (l : list tree) : option (list tree) :=
  match l with
  | [] => None
  | x :: tl => if p x then Some tl else option_map (cons x) (extract p tl)
  end.

(* decides (soundly) that b is a re-ordering of a *)
Fixpoint tree_permb (a b : tree) {struct a} : bool :=
  match a, b with
  | Leaf n l, Leaf n' l' => str_eqb n n' && optstr_eqb l l'
  | Node cs l, Node ds l' =>
    optstr_eqb l l' &&
    (fix go (cs ds : list tree) {struct cs} : bool :=
       match cs with
       | [] => match ds with [] => true | _ => false end
       | c :: tl => match extract (tree_permb c) ds with
                    | None => false
                    | Some ds' => go tl ds'
                    end
       end) cs ds
  | _, _ => false
  end.

Fixpoint tree_eqb (a b : tree) {struct a} : bool :=
  match a, b with
  | Leaf n l, Leaf n' l' => str_eqb n n' && optstr_eqb l l'
  | Node cs l, Node ds l' =>
    optstr_eqb l l' &&
    (fix go (cs ds : list tree) {struct cs} : bool :=
       match cs, ds with
       | [], [] => true
       | c :: tl, d :: tl' => tree_eqb c d && go tl tl'
       | _, _ => false
       end) cs ds
  | _, _ => false
  end.

Definition spec_both (R : list str) (a b : tree) : option (Q * Q) :=
  match spec_grf R a b, spec_rf R a b with
  | Some g, Some r => Some (g, r)
  | _, _ => None
  end.

(* the trees the theorems speak about: every internal node has at least two children, names and
   length texts are clean, leaf names are distinct and do not start with 'edge' (cogent renames
   those), at least four taxa *)
Definition wf_tree (t : tree) : Prop :=
  proper t = true /\ clean_tree t = true /\ names_ok (leaves t) = true /\ 4 <= length (leaves t).

(* the same tree without any branch length *)
Fixpoint strip_len (t : tree) : tree :=
  match t with
  | Leaf n _ => Leaf n None
  | Node cs _ => Node (map strip_len cs) None
  end.
