(* C15 - correspondence cases and boolean checkers evaluated inside Coq.
   A case carries two rose trees a, b (and re-ordered copies a', b') chosen by
   the harness, the Newick texts handed to lingpy, and everything lingpy
   returned.  Bit 0 compares the model with the implementation; bits 1..6 run
   the checkers of the property's clauses on the implementation's outputs. *)
From Coq Require Import Ascii String Bool Arith ZArith QArith List.
From LV Require Import Common.Cases TreeDist.Newick TreeDist.Bipart TreeDist.RF TreeDist.Spec.
Import ListNotations.
Local Open Scope nat_scope.

(* short constructors for rendered cases *)
Definition Lf (n : str) : tree := Leaf n None.
Definition Lfl (n l : str) : tree := Leaf n (Some l).
Definition Nd (cs : list tree) : tree := Node cs None.
Definition Ndl (cs : list tree) (l : str) : tree := Node cs (Some l).
Definition codes (l : list nat) : str := map ascii_of_nat l.
Definition ss (l : list string) : list str := map s2l l.

Definition strs_eqb (a b : list str) : bool := list_eqb str_eqb a b.
Definition strss_eqb (a b : list (list str)) : bool := list_eqb strs_eqb a b.
Definition sets_eqb (a b : list (list str)) : bool := list_eqb set_eqb a b.   (* same order, each equal as a set *)

Definition setsets_eqb (a b : list (list str)) : bool :=
  forallb (fun c => set_mem c b) a && forallb (fun c => set_mem c a) b.

Definition q_eqb (a b : Q) : bool := Qeq_bool a b.
Definition oq_eqb (a b : option Q) : bool := option_eqb q_eqb a b.
Definition dist_eqb (m : option (Q * Q)) (g r : option Q) : bool :=
  oq_eqb (option_map fst m) g && oq_eqb (option_map snd m) r.

Definition bip_eqb (m i : option (list (list str) * list str)) : bool :=
  match m, i with
  | None, None => true
  | Some (p, l), Some (p', l') => sets_eqb p p' && set_eqb l l'
  | _, _ => false
  end.

Record td_case := {
  tc_a : tree; tc_b : tree; tc_a' : tree; tc_b' : tree;
  tc_srcA : str; tc_srcB : str;                      (* texts given to Tree(...) *)
  tc_strA : str; tc_strB : str;                      (* impl: str(Tree(src)) *)
  tc_taxaA : list str; tc_cladesA : list (list str); (* impl: .taxa, tip names of the internal nodes (post-order) *)
  tc_taxaB : list str; tc_cladesB : list (list str);
  tc_str2A : str; tc_taxa2A : list str; tc_clades2A : list (list str);   (* impl: the same for Tree(str(Tree(srcA))) *)
  tc_str2B : str; tc_taxa2B : list str; tc_clades2B : list (list str);
  tc_bipA : option (list (list str) * list str);     (* impl: get_bipartition(str with ';' removed) *)
  tc_bipB : option (list (list str) * list str);
  (* impl: get_distance(.., 'grf'), get_distance(.., 'rf'); None = raised *)
  tc_ab : option Q * option Q; tc_ba : option Q * option Q;
  tc_aa : option Q * option Q; tc_bb : option Q * option Q;
  tc_pab : option Q * option Q                       (* a' against b' *)
}.

Definition in01 (x : option Q) : bool :=
  match x with None => true | Some q => Qle_bool 0 q && Qle_bool q 1 end.
Definition is0 (x : option Q) : bool := oq_eqb x (Some 0%Q).

(* decides wf_tree (wfb_spec in TreeDistExecProofs.v) *)
Definition wfb (t : tree) : bool :=
  proper t && clean_tree t && names_ok (leaves t) && (4 <=? length (leaves t)).

Definition td_case_code (c : td_case) : nat :=
  let a := tc_a c in let b := tc_b c in
  let sa := print a in let sb := print b in
  let guard := wfb a && wfb b && same_taxa a b && has_split a && has_split b in
  let R := leaves a in
  bit 0 (option_eqb tree_eqb (load (tc_srcA c)) (Some a) && option_eqb tree_eqb (load (tc_srcB c)) (Some b)
         && str_eqb sa (tc_strA c) && str_eqb sb (tc_strB c)
         && strs_eqb (leaves a) (tc_taxaA c) && strss_eqb (clades a) (tc_cladesA c)
         && strs_eqb (leaves b) (tc_taxaB c) && strss_eqb (clades b) (tc_cladesB c)
         && bip_eqb (get_bipartition (norm3 sa)) (tc_bipA c)
         && bip_eqb (get_bipartition (norm3 sb)) (tc_bipB c)
         && dist_eqb (grf_both sa sb) (fst (tc_ab c)) (snd (tc_ab c))
         && dist_eqb (grf_both sb sa) (fst (tc_ba c)) (snd (tc_ba c))
         && dist_eqb (grf_both sa sa) (fst (tc_aa c)) (snd (tc_aa c))
         && dist_eqb (grf_both sb sb) (fst (tc_bb c)) (snd (tc_bb c))
         && dist_eqb (grf_both (print (tc_a' c)) (print (tc_b' c))) (fst (tc_pab c)) (snd (tc_pab c))
         && str_eqb sa (tc_str2A c) && str_eqb sb (tc_str2B c)
         && strs_eqb (leaves a) (tc_taxa2A c) && strss_eqb (clades a) (tc_clades2A c)
         && strs_eqb (leaves b) (tc_taxa2B c) && strss_eqb (clades b) (tc_clades2B c)
         && (negb (wfb a && wfb b && same_taxa a b) || oq_eqb (spec_grf R a b) (fst (tc_ab c))))
  (* a tree against itself: both distances 0 *)
  + bit 1 ((negb (wfb a && has_split a) || is0 (fst (tc_aa c)) && is0 (snd (tc_aa c)))
           && (negb (wfb b && has_split b) || is0 (fst (tc_bb c)) && is0 (snd (tc_bb c))))
  (* re-ordered children: same distances *)
  + bit 2 (negb (guard && tree_permb a (tc_a' c) && tree_permb b (tc_b' c))
           || oq_eqb (fst (tc_pab c)) (fst (tc_ab c)) && oq_eqb (snd (tc_pab c)) (snd (tc_ab c))
              && negb (match fst (tc_ab c) with None => true | _ => false end))
  (* range *)
  + bit 3 (in01 (fst (tc_ab c)) && in01 (snd (tc_ab c)) && in01 (fst (tc_ba c)) && in01 (snd (tc_ba c))
           && in01 (fst (tc_pab c)) && in01 (snd (tc_pab c)))
  (* rf symmetric *)
  + bit 4 (negb guard || oq_eqb (snd (tc_ab c)) (snd (tc_ba c)))
  (* rf = normalised symmetric difference of the bipartition sets of the rose trees *)
  + bit 5 (negb guard || oq_eqb (snd (tc_ab c)) (spec_rf R a b))
  (* parsing the printed text gives back a tree with the same leaves and the same clades (as sets) *)
  + bit 6 ((negb (wfb a) || set_eqb (tc_taxa2A c) (tc_taxaA c) && setsets_eqb (tc_clades2A c) (tc_cladesA c))
           && (negb (wfb b) || set_eqb (tc_taxa2B c) (tc_taxaB c) && setsets_eqb (tc_clades2B c) (tc_cladesB c))).
