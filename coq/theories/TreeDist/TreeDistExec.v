(* C15 - correspondence cases and boolean checkers evaluated inside Coq.
   A case carries two rose trees a, b (and re-ordered copies a', b') chosen by
   the harness, the Newick texts handed to lingpy, and everything lingpy
   returned.  Bit 0 compares the model with the implementation; bits 1..6 run
   the checkers of the property's clauses on the implementation's outputs. *)
From Coq Require Import Ascii String Bool Arith ZArith QArith List.
From LV Require Import Common.Cases TreeDist.Newick TreeDist.Bipart TreeDist.RF TreeDist.Spec.
Import ListNotations.
Local Open Scope nat_scope.

(* short constructors for rendered cases *)
Definition Lf (n : str) : tree := Leaf n None.
Definition Lfl (n l : str) : tree := Leaf n (Some l).
Definition Nd (cs : list tree) : tree := Node cs None.
Definition Ndl (cs : list tree) (l : str) : tree := Node cs (Some l).
Definition codes (l : list nat) : str := map ascii_of_nat l.
Definition ss (l : list string) : list str := map s2l l.

Definition strs_eqb (a b : list str) : bool := list_eqb str_eqb a b.
Definition strss_eqb (a b : list (list str)) : bool := list_eqb strs_eqb a b.
Definition sets_eqb (a b : list (list str)) : bool := list_eqb set_eqb a b.   (* same order, each equal as a set *)

Definition setsets_eqb (a b : list (list str)) : bool :=
  forallb (fun c => set_mem c b) a && forallb (fun c => set_mem c a) b.

Definition q_eqb (a b : Q) : bool := Qeq_bool a b.
Definition oq_eqb (a b : option Q) : bool := option_eqb q_eqb a b.
Definition dist_eqb (m : option (Q * Q)) (g r : option Q) : bool :=
  oq_eqb (option_map fst m) g && oq_eqb (option_map snd m) r.

Definition bip_eqb (m i : option (list (list str) * list str)) : bool :=
  match m, i with
  | None, None => true
  | Some (p, l), Some (p', l') => sets_eqb p p' && set_eqb l l'
  | _, _ => false
  end.

Record td_case := {
  tc_a : tree; tc_b : tree; tc_a' : tree; tc_b' : tree;
  tc_srcA : str; tc_srcB : str;                      (* texts given to Tree(...) *)
  tc_strA : str; tc_strB : str;                      (* impl: str(Tree(src)) *)
  tc_taxaA : list str; tc_cladesA : list (list str); (* impl: .taxa, tip names of the internal nodes (post-order) *)
  tc_taxaB : list str; tc_cladesB : list (list str);
  tc_str2A : str; tc_taxa2A : list str; tc_clades2A : list (list str);   (* impl: the same for Tree(str(Tree(srcA))) *)
  tc_str2B : str; tc_taxa2B : list str; tc_clades2B : list (list str);
  tc_bipA : option (list (list str) * list str);     (* impl: get_bipartition(str with ';' removed) *)
  tc_bipB : option (list (list str) * list str);
  (* impl: get_distance(.., 'grf'), get_distance(.., 'rf'); None = raised *)
  tc_ab : option Q * option Q; tc_ba : option Q * option Q;
  tc_aa : option Q * option Q; tc_bb : option Q * option Q;
  tc_pab : option Q * option Q                       (* a' against b' *)
}.

Definition in01 (x : option Q) : bool :=
  match x with None => true | Some q => Qle_bool 0 q && Qle_bool q 1 end.
Definition is0 (x : option Q) : bool := oq_eqb x (Some 0%Q).

(* decides wf_tree (wfb_spec in TreeDistExecProofs.v) *)
Definition wfb (t : tree) : bool :=
  proper t && clean_tree t && names_ok (leaves t) && (4 <=? length (leaves t)).

Section Checks.
  Variable c : td_case.
  Let a := tc_a c.
  Let b := tc_b c.
  Let sa := print a.
  Let sb := print b.
  Let R := leaves a.
  Definition valid_pair : bool := wfb a && wfb b && same_taxa a b.
  Definition guard : bool := valid_pair && has_split a && has_split b.
  Definition reordered : bool := tree_permb a (tc_a' c) && tree_permb b (tc_b' c).

  (* bit 0: the model reproduces everything the implementation returned *)
  Definition chk0 : bool :=
    option_eqb tree_eqb (load (tc_srcA c)) (Some a) && option_eqb tree_eqb (load (tc_srcB c)) (Some b)
    && str_eqb sa (tc_strA c) && str_eqb sb (tc_strB c)
    && strs_eqb (leaves a) (tc_taxaA c) && strss_eqb (clades a) (tc_cladesA c)
    && strs_eqb (leaves b) (tc_taxaB c) && strss_eqb (clades b) (tc_cladesB c)
    && bip_eqb (get_bipartition (norm3 sa)) (tc_bipA c)
    && bip_eqb (get_bipartition (norm3 sb)) (tc_bipB c)
    && dist_eqb (grf_both sa sb) (fst (tc_ab c)) (snd (tc_ab c))
    && dist_eqb (grf_both sb sa) (fst (tc_ba c)) (snd (tc_ba c))
    && dist_eqb (grf_both sa sa) (fst (tc_aa c)) (snd (tc_aa c))
    && dist_eqb (grf_both sb sb) (fst (tc_bb c)) (snd (tc_bb c))
    && dist_eqb (grf_both (print (tc_a' c)) (print (tc_b' c))) (fst (tc_pab c)) (snd (tc_pab c))
    && str_eqb sa (tc_str2A c) && str_eqb sb (tc_str2B c)
    && strs_eqb (leaves a) (tc_taxa2A c) && strss_eqb (clades a) (tc_clades2A c)
    && strs_eqb (leaves b) (tc_taxa2B c) && strss_eqb (clades b) (tc_clades2B c)
    && (negb valid_pair || oq_eqb (spec_grf R a b) (fst (tc_ab c))).

  (* bit 1: a tree against itself: both distances 0 *)
  Definition chk1 : bool :=
    (negb (wfb a && has_split a) || is0 (fst (tc_aa c)) && is0 (snd (tc_aa c)))
    && (negb (wfb b && has_split b) || is0 (fst (tc_bb c)) && is0 (snd (tc_bb c))).

  (* bit 2: re-ordered children: same distances *)
  Definition chk2 : bool :=
    negb (guard && reordered)
    || oq_eqb (fst (tc_pab c)) (fst (tc_ab c)) && oq_eqb (snd (tc_pab c)) (snd (tc_ab c))
       && negb (match fst (tc_ab c) with None => true | _ => false end).

  (* bit 3: range (grf for whatever came back; rf for trees on one taxon set) *)
  Definition chk3 : bool :=
    in01 (fst (tc_ab c)) && in01 (fst (tc_ba c)) && in01 (fst (tc_pab c))
    && (negb valid_pair
        || in01 (snd (tc_ab c)) && in01 (snd (tc_ba c)) && (negb reordered || in01 (snd (tc_pab c)))).

  (* bit 4: rf symmetric *)
  Definition chk4 : bool := negb guard || oq_eqb (snd (tc_ab c)) (snd (tc_ba c)).

  (* bit 5: rf = normalised symmetric difference of the bipartition sets of the rose trees *)
  Definition chk5 : bool := negb guard || oq_eqb (snd (tc_ab c)) (spec_rf R a b).

  (* bit 6: parsing the printed text gives back a tree with the same leaves and the same clades (as sets) *)
  Definition chk6 : bool :=
    (negb (wfb a) || set_eqb (tc_taxa2A c) (tc_taxaA c) && setsets_eqb (tc_clades2A c) (tc_cladesA c))
    && (negb (wfb b) || set_eqb (tc_taxa2B c) (tc_taxaB c) && setsets_eqb (tc_clades2B c) (tc_cladesB c)).
End Checks.

Definition td_case_code (c : td_case) : nat :=
  bit 0 (chk0 c) + bit 1 (chk1 c) + bit 2 (chk2 c) + bit 3 (chk3 c) + bit 4 (chk4 c) + bit 5 (chk5 c)
  + bit 6 (chk6 c).

(* the case whose "implementation" fields are filled with what the model computes *)
Definition model_case (a b a' b' : tree) : td_case :=
  let sa := print a in let sb := print b in
  let both x y := (option_map fst (grf_both x y), option_map snd (grf_both x y)) in
  {| tc_a := a; tc_b := b; tc_a' := a'; tc_b' := b';
     tc_srcA := sa; tc_srcB := sb; tc_strA := sa; tc_strB := sb;
     tc_taxaA := leaves a; tc_cladesA := clades a; tc_taxaB := leaves b; tc_cladesB := clades b;
     tc_str2A := sa; tc_taxa2A := leaves a; tc_clades2A := clades a;
     tc_str2B := sb; tc_taxa2B := leaves b; tc_clades2B := clades b;
     tc_bipA := get_bipartition (norm3 sa); tc_bipB := get_bipartition (norm3 sb);
     tc_ab := both sa sb; tc_ba := both sb sa; tc_aa := both sa sa; tc_bb := both sb sb;
     tc_pab := both (print a') (print b') |}.

(* ------------------------------------------------------------------------
   Object-level cases (wave 3): Tree OBJECTS with odd-but-legal taxon names
   (blanks, quoted labels) and histories on one object (compare, modify in
   place, compare again).  Quoted labels are outside the character-level model,
   so there is no bit 0 here: the checkers test the property's clauses on the
   implementation's outputs against the string-free reference (Spec.v) computed
   from the rose trees a, b the harness expects the objects to be. *)

Definition printable (c : ascii) : bool := let n := nat_of_ascii c in (32 <=? n) && (n <=? 126).
Local Open Scope char_scope.
(* the cogent writer quotes a name containing one of these *)
Definition quote_trigger (c : ascii) : bool :=
  existsb (Ascii.eqb c) ["["; "]"; "'"; """"; "("; ")"; ","; ":"; ";"; "_"].
(* get_bipartition cuts the text at these, quoted or not *)
Definition scanner_char (c : ascii) : bool := existsb (Ascii.eqb c) ["("; ")"; ","; ":"; ";"].
Definition edge_blank (n : str) : bool :=
  match n with [] => true | c :: _ => Ascii.eqb c " " || Ascii.eqb (last n " ") " " end.
Local Close Scope char_scope.

(* names for which the distance clauses are checked: printable, no blank at either end, no "/"
   (grf rewrites it), none of the characters get_bipartition cuts the text at (a quoted label with
   , : ; ( ) is legal Newick and survives the round trip, but the comma/parenthesis scanner cannot
   represent it: parentheses raise ValueError, the others are silently cut); names the writer
   quotes only when [lift] (the finding "quoted-name-position", fixed by 3e3442f, does not reproduce).
   [lift_s] is set only when the witness of the scanner-character class itself is evaluated. *)
Definition name_dist_ok (lift lift_s : bool) (n : str) : bool :=
  forallb printable n && negb (edge_blank n) && negb (has_char "/"%char n)
  && (lift_s || negb (existsb scanner_char n)) && (lift || negb (existsb quote_trigger n)).

(* names for which the write -> parse round trip is checked: a name written unquoted with its blanks
   turned into "_" comes back with underscores (known finding "blank-name-roundtrip") unless [lift] *)
Definition name_rt_ok (lift : bool) (n : str) : bool :=
  forallb printable n && negb (edge_blank n)
  && (lift || existsb quote_trigger n || negb (has_char " "%char n)).

Definition owfb (lift lift_s : bool) (t : tree) : bool :=
  proper t && names_ok (leaves t) && (4 <=? length (leaves t)) && forallb (name_dist_ok lift lift_s) (leaves t).

Record ob_case := {
  oc_a : tree; oc_b : tree; oc_a' : tree; oc_b' : tree;   (* what the objects are expected to be *)
  oc_lift_q : bool; oc_lift_s : bool; oc_lift_b : bool;
  oc_tipsA : list str; oc_cladesA : list (list str);      (* impl: getTipNames(), tip names of the internal nodes *)
  oc_tipsB : list str; oc_cladesB : list (list str);
  oc_rts : list (list str * list (list str));             (* impl: tips/clades of Tree(w) for every writer w of object A *)
  oc_ab : option Q * option Q; oc_ba : option Q * option Q;
  oc_aa : option Q * option Q; oc_bb : option Q * option Q;
  oc_pab : option Q * option Q
}.

Section ObChecks.
  Variable c : ob_case.
  Let a := oc_a c.
  Let b := oc_b c.
  Let R := leaves a.
  Let lq := oc_lift_q c.
  Let ls := oc_lift_s c.
  Definition ovalid : bool := owfb lq ls a && owfb lq ls b && same_taxa a b.
  Definition oguard : bool := ovalid && has_split a && has_split b.
  Definition oreordered : bool := tree_permb a (oc_a' c) && tree_permb b (oc_b' c).

  Definition ochk1 : bool :=
    (negb (owfb lq ls a && has_split a) || is0 (fst (oc_aa c)) && is0 (snd (oc_aa c)))
    && (negb (owfb lq ls b && has_split b) || is0 (fst (oc_bb c)) && is0 (snd (oc_bb c))).
  Definition ochk2 : bool :=
    negb (oguard && oreordered)
    || oq_eqb (fst (oc_pab c)) (fst (oc_ab c)) && oq_eqb (snd (oc_pab c)) (snd (oc_ab c))
       && negb (match fst (oc_ab c) with None => true | _ => false end).
  Definition ochk3 : bool :=
    in01 (fst (oc_ab c)) && in01 (fst (oc_ba c)) && in01 (fst (oc_pab c))
    && (negb ovalid || in01 (snd (oc_ab c)) && in01 (snd (oc_ba c)) && (negb oreordered || in01 (snd (oc_pab c)))).
  Definition ochk4 : bool := negb oguard || oq_eqb (snd (oc_ab c)) (snd (oc_ba c)).
  (* the values are those of the reference formulas on the expected trees, i.e. those of fresh objects *)
  Definition ochk5 : bool :=
    negb ovalid || oq_eqb (snd (oc_ab c)) (spec_rf R a b) && oq_eqb (fst (oc_ab c)) (spec_grf R a b).
  Definition ochk6 : bool :=
    negb (forallb (name_rt_ok (oc_lift_b c)) (oc_tipsA c) && names_ok (oc_tipsA c))
    || forallb (fun r => set_eqb (fst r) (oc_tipsA c) && setsets_eqb (snd r) (oc_cladesA c)) (oc_rts c).
  (* the object is in the state the history should have produced *)
  Definition ochk7 : bool :=
    strs_eqb (oc_tipsA c) (leaves a) && setsets_eqb (oc_cladesA c) (clades a)
    && strs_eqb (oc_tipsB c) (leaves b) && setsets_eqb (oc_cladesB c) (clades b).
End ObChecks.

Definition ob_case_code (c : ob_case) : nat :=
  bit 1 (ochk1 c) + bit 2 (ochk2 c) + bit 3 (ochk3 c) + bit 4 (ochk4 c) + bit 5 (ochk5 c) + bit 6 (ochk6 c)
  + bit 7 (ochk7 c).

(* ------------------------------------------------------------------------
   Raw scanner cases: _TreeDist.get_bipartition on arbitrary texts (quotes,
   blanks, underscores, stray parentheses and colons) against the model;
   correspondence only. *)
Record sc_case := {
  sc_text : str;
  sc_out : option (list (list str) * list str)      (* impl: (keys of the dict, lang_set); None = raised *)
}.
Definition sc_case_code (c : sc_case) : nat := bit 0 (bip_eqb (get_bipartition (sc_text c)) (sc_out c)).
