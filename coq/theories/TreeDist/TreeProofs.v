(* C15 - structural facts on rose trees: clades, bipartition sets, re-ordering
   of children, laminarity of the clade family. *)
From Coq Require Import Ascii String Bool Arith Lia List Permutation.
From LV Require Import Common.Cases TreeDist.Newick TreeDist.Bipart TreeDist.RF TreeDist.Spec
  TreeDist.SetProofs TreeDist.NewickProofs.
Import ListNotations.
Local Open Scope nat_scope.

Lemma in_flat_map_leaves : forall cs c x, In c cs -> In x (leaves c) -> In x (flat_map leaves cs).
Proof. intros cs c x Hc Hx. apply in_flat_map. exists c. auto. Qed.

Lemma clades_incl : forall t c, In c (clades t) -> incl c (leaves t).
Proof.
  induction t as [n l|cs l IH] using tree_ind'; intros c H; [destruct H|].
  cbn [clades leaves] in *. apply in_app_or in H. destruct H as [H|[<-|[]]].
  - apply in_flat_map in H. destruct H as [d [Hd Hc]]. rewrite Forall_forall in IH.
    intros x Hx. apply (in_flat_map_leaves cs d); [exact Hd|]. apply (IH d Hd c Hc). exact Hx.
  - apply incl_refl.
Qed.

Lemma Forall_clades_incl : forall t, Forall (fun p => incl p (leaves t)) (clades t).
Proof. intros t. apply Forall_forall. intros c Hc. apply clades_incl. exact Hc. Qed.

(* ---------- bipartition sets ---------- *)

Lemma biparts_NoDup : forall R t, NoDup (biparts R t).
Proof. intros R t. apply vdedup_NoDup. Qed.

Lemma biparts_In : forall R t v,
  In v (biparts R t) <-> exists c, In c (clades t) /\ nontrivial (length R) c = true /\ v = canon R c.
Proof.
  intros R t v. unfold biparts. rewrite vdedup_In, in_map_iff. split.
  - intros [c [E Hc]]. apply filter_In in Hc. exists c. intuition.
  - intros [c [Hc [Hn E]]]. exists c. split; [auto|]. apply filter_In. auto.
Qed.

Lemma biparts_nil_iff : forall R t, biparts R t = [] <-> filter (nontrivial (length R)) (clades t) = [].
Proof.
  intros R t. split.
  - intros E. destruct (filter (nontrivial (length R)) (clades t)) as [|c cl] eqn:F; [reflexivity|].
    exfalso. assert (K : In (canon R c) (biparts R t)).
    { apply biparts_In. exists c. assert (In c (c :: cl)) by (left; reflexivity). rewrite <- F in H.
      apply filter_In in H. intuition. }
    rewrite E in K. destruct K.
  - intros E. unfold biparts. rewrite E. reflexivity.
Qed.

Lemma nontrivial_seteq : forall n c d, seteq c d -> nontrivial n c = nontrivial n d.
Proof. intros n c d H. unfold nontrivial. rewrite (card_seteq c d H). reflexivity. Qed.

(* ---------- re-ordering of children ---------- *)

Lemma Permutation_flat_map' : forall (A B : Type) (f : A -> list B) l l',
  Permutation l l' -> Permutation (flat_map f l) (flat_map f l').
Proof.
  intros A B f l l' P. induction P as [|x l l' P IH|x y l|l l' l'' P1 IH1 P2 IH2]; cbn [flat_map].
  - constructor.
  - apply Permutation_app_head. exact IH.
  - rewrite !app_assoc. apply Permutation_app_tail. apply Permutation_app_comm.
  - eapply Permutation_trans; eassumption.
Qed.

Definition clades_sub (a b : tree) : Prop :=
  forall c, In c (clades a) -> exists d, In d (clades b) /\ Permutation c d.

Lemma tperm_leaves_clades : forall a b, tperm a b ->
  Permutation (leaves a) (leaves b) /\ clades_sub a b /\ clades_sub b a.
Proof.
  intros a b H. induction H as [t|a b c H1 IH1 H2 IH2|cs cs' l P|pre a b post l H IH].
  - repeat split; [apply Permutation_refl| |]; intros c Hc; exists c; split; auto.
  - destruct IH1 as [P1 [S1 S1']], IH2 as [P2 [S2 S2']]. repeat split.
    + eapply Permutation_trans; eassumption.
    + intros x Hx. destruct (S1 x Hx) as [y [Hy Pxy]]. destruct (S2 y Hy) as [z [Hz Pyz]].
      exists z. split; [exact Hz|eapply Permutation_trans; eassumption].
    + intros x Hx. destruct (S2' x Hx) as [y [Hy Pxy]]. destruct (S1' y Hy) as [z [Hz Pyz]].
      exists z. split; [exact Hz|eapply Permutation_trans; eassumption].
  - assert (PL : Permutation (flat_map leaves cs) (flat_map leaves cs')) by (apply Permutation_flat_map'; exact P).
    assert (K : forall cs1 cs2, Permutation cs1 cs2 -> clades_sub (Node cs1 l) (Node cs2 l)).
    { intros cs1 cs2 P12 c Hc. cbn [clades] in *. apply in_app_or in Hc. destruct Hc as [Hc|[<-|[]]].
      - exists c. split; [|apply Permutation_refl]. apply in_or_app. left.
        eapply Permutation_in; [apply Permutation_flat_map'; exact P12|exact Hc].
      - exists (flat_map leaves cs2). split; [apply in_or_app; right; left; reflexivity|].
        apply Permutation_flat_map'. exact P12. }
    repeat split; [exact PL|apply K; exact P|apply K; apply Permutation_sym; exact P].
  - destruct IH as [PL [S S']].
    assert (K : forall x y, Permutation (leaves x) (leaves y) -> clades_sub x y ->
                clades_sub (Node (pre ++ x :: post) l) (Node (pre ++ y :: post) l)).
    { intros x y Pxy Sxy c Hc. cbn [clades] in *. rewrite !flat_map_app in *. cbn [flat_map] in *.
      apply in_app_or in Hc. destruct Hc as [Hc|[<-|[]]].
      - apply in_app_or in Hc. destruct Hc as [Hc|Hc].
        + exists c. split; [|apply Permutation_refl]. apply in_or_app. left. apply in_or_app. left. exact Hc.
        + apply in_app_or in Hc. destruct Hc as [Hc|Hc].
          * destruct (Sxy c Hc) as [d [Hd Pd]]. exists d. split; [|exact Pd].
            apply in_or_app. left. apply in_or_app. right. apply in_or_app. left. exact Hd.
          * exists c. split; [|apply Permutation_refl].
            apply in_or_app. left. apply in_or_app. right. apply in_or_app. right. exact Hc.
      - eexists. split; [apply in_or_app; right; left; reflexivity|].
        apply Permutation_app_head. apply Permutation_app_tail. exact Pxy. }
    repeat split.
    + cbn [leaves]. rewrite !flat_map_app. cbn [flat_map]. apply Permutation_app_head. apply Permutation_app_tail. exact PL.
    + apply K; assumption.
    + apply K; [apply Permutation_sym; exact PL|exact S'].
Qed.

Lemma tperm_sym : forall a b, tperm a b -> tperm b a.
Proof.
  intros a b H. induction H as [t|a b c H1 IH1 H2 IH2|cs cs' l P|pre a b post l H IH].
  - apply tp_refl.
  - eapply tp_trans; eassumption.
  - apply tp_perm. apply Permutation_sym. exact P.
  - apply tp_child. exact IH.
Qed.

Lemma tperm_proper_clean : forall a b, tperm a b ->
  (proper a = proper b) /\ (clean_tree a = clean_tree b).
Proof.
  intros a b H. induction H as [t|a b c H1 IH1 H2 IH2|cs cs' l P|pre a b post l H IH].
  - auto.
  - destruct IH1, IH2. split; congruence.
  - cbn [proper clean_tree]. rewrite (Permutation_length P).
    rewrite (forallb_perm _ proper cs cs' P), (forallb_perm _ clean_tree cs cs' P). auto.
  - destruct IH as [E1 E2]. cbn [proper clean_tree]. rewrite !app_length. cbn [length].
    rewrite !forallb_app. cbn [forallb]. rewrite E1, E2. auto.
Qed.

Lemma distinct_NoDup : forall l, distinct l = true <-> NoDup l.
Proof.
  induction l as [|x l IH]; cbn [distinct].
  - split; [constructor|reflexivity].
  - rewrite andb_true_iff, negb_true_iff, mem_false, IH. split.
    + intros [H1 H2]. constructor; assumption.
    + intros H. inversion H; subst. auto.
Qed.

Lemma names_ok_NoDup : forall l, names_ok l = true -> NoDup l.
Proof. intros l H. unfold names_ok in H. apply andb_true_iff in H. apply distinct_NoDup. tauto. Qed.

Lemma existsb_perm : forall (A : Type) (f : A -> bool) l l', Permutation l l' -> existsb f l = existsb f l'.
Proof.
  intros A f l l' P. induction P as [|x l l' P IH|x y l|l l' l'' P1 IH1 P2 IH2]; cbn [existsb].
  - reflexivity.
  - rewrite IH. reflexivity.
  - destruct (f x), (f y); reflexivity.
  - congruence.
Qed.

Lemma names_ok_perm : forall l l', Permutation l l' -> names_ok l = true -> names_ok l' = true.
Proof.
  intros l l' P H. unfold names_ok in *. apply andb_true_iff in H. destruct H as [H1 H2].
  apply andb_true_iff. split.
  - apply distinct_NoDup. apply distinct_NoDup in H1. eapply Permutation_NoDup; eassumption.
  - rewrite <- (existsb_perm _ _ l l' P). exact H2.
Qed.

Lemma wf_NoDup : forall t, wf_tree t -> NoDup (leaves t).
Proof. intros t [_ [_ [H _]]]. apply names_ok_NoDup. exact H. Qed.

Lemma tperm_wf : forall a b, tperm a b -> wf_tree a -> wf_tree b.
Proof.
  intros a b H [W1 [W2 [W3 W4]]]. destruct (tperm_proper_clean a b H) as [E1 E2].
  destruct (tperm_leaves_clades a b H) as [P _]. unfold wf_tree.
  rewrite <- E1, <- E2, <- (Permutation_length P). repeat split; auto.
  eapply names_ok_perm; eassumption.
Qed.

(* the bipartition set does not depend on the order of the children *)
Lemma biparts_sub : forall R a b, clades_sub a b -> incl (biparts R a) (biparts R b).
Proof.
  intros R a b S v Hv. apply biparts_In in Hv. destruct Hv as [c [Hc [Hn ->]]].
  destruct (S c Hc) as [d [Hd P]]. apply biparts_In. exists d. split; [exact Hd|]. split.
  - rewrite <- (nontrivial_seteq _ c d); [exact Hn|apply Permutation_seteq; exact P].
  - apply canon_seteq. apply Permutation_seteq. exact P.
Qed.

Lemma biparts_tperm : forall R a b, tperm a b -> Permutation (biparts R a) (biparts R b).
Proof.
  intros R a b H. destruct (tperm_leaves_clades a b H) as [_ [S S']].
  apply NoDup_Permutation; try apply biparts_NoDup.
  intros v. split; apply biparts_sub; assumption.
Qed.

(* ---------- laminarity: two clades of one tree are nested or disjoint ---------- *)

Definition disjoint (c d : list str) : Prop := forall x, In x c -> ~ In x d.

Lemma disjoint_sym : forall c d, disjoint c d -> disjoint d c.
Proof. intros c d H x Hd Hc. exact (H x Hc Hd). Qed.

Lemma NoDup_app_inv' : forall (A : Type) (a b : list A), NoDup (a ++ b) ->
  NoDup a /\ NoDup b /\ (forall x, In x a -> ~ In x b).
Proof.
  intros A. induction a as [|y a IH]; intros b H; cbn [app] in H.
  - repeat split; [constructor|exact H|intros x []].
  - inversion H as [|? ? Hy H']; subst. destruct (IH b H') as [Ha [Hb Hd]]. repeat split.
    + constructor; [|exact Ha]. intros K. apply Hy. apply in_or_app. left. exact K.
    + exact Hb.
    + intros x [<-|Hx]; [|apply Hd; exact Hx]. intros K. apply Hy. apply in_or_app. right. exact K.
Qed.

Definition laminar2 (c d : list str) : Prop := incl c d \/ incl d c \/ disjoint c d.

Lemma clades_in_children : forall cs c, In c (flat_map clades cs) -> incl c (flat_map leaves cs).
Proof.
  intros cs c H x Hx. apply in_flat_map in H. destruct H as [t [Ht Hc]].
  apply (in_flat_map_leaves cs t); [exact Ht|]. apply (clades_incl t c Hc). exact Hx.
Qed.

Lemma laminar_children : forall cs,
  Forall (fun t => NoDup (leaves t) -> forall c d, In c (clades t) -> In d (clades t) -> laminar2 c d) cs ->
  NoDup (flat_map leaves cs) ->
  forall c d, In c (flat_map clades cs) -> In d (flat_map clades cs) -> laminar2 c d.
Proof.
  induction cs as [|t cs IH]; intros HF HN c d Hc Hd; [destruct Hc|].
  inversion HF as [|? ? Ht Hcs]; subst. cbn [flat_map] in *.
  apply NoDup_app_inv' in HN. destruct HN as [N1 [N2 Dis]].
  apply in_app_or in Hc. apply in_app_or in Hd.
  destruct Hc as [Hc|Hc], Hd as [Hd|Hd].
  - apply Ht; assumption.
  - right. right. intros x Hx Hx'. apply (Dis x).
    + apply (clades_incl t c Hc). exact Hx.
    + apply (clades_in_children cs d Hd). exact Hx'.
  - right. right. intros x Hx Hx'. apply (Dis x).
    + apply (clades_incl t d Hd). exact Hx'.
    + apply (clades_in_children cs c Hc). exact Hx.
  - apply IH; assumption.
Qed.

Lemma clades_laminar : forall t, NoDup (leaves t) ->
  forall c d, In c (clades t) -> In d (clades t) -> laminar2 c d.
Proof.
  induction t as [n l|cs l IH] using tree_ind'; intros HN c d Hc Hd; [destruct Hc|].
  cbn [clades leaves] in *. apply in_app_or in Hc. apply in_app_or in Hd.
  destruct Hc as [Hc|[<-|[]]].
  - destruct Hd as [Hd|[<-|[]]].
    + apply (laminar_children cs IH HN); assumption.
    + left. apply clades_in_children. exact Hc.
  - right. left. destruct Hd as [Hd|[<-|[]]]; [apply clades_in_children; exact Hd|apply incl_refl].
Qed.

(* nested or disjoint clades give compatible bipartitions *)
Lemma laminar_vcompat : forall R c d, laminar2 c d -> vcompat (canon R c) (canon R d) = true.
Proof.
  intros R c d H. rewrite !canon_vcanon, vcompat_vcanon. unfold vcompat.
  destruct H as [H|[H|H]].
  - rewrite (vle_cvec R c d H). reflexivity.
  - assert (E : vle (vneg (cvec R c)) (vneg (cvec R d)) = true).
    { clear -H. induction R as [|r R IHR]; [reflexivity|]. cbn [cvec map vneg vle].
      fold (cvec R c). fold (cvec R d). fold (vneg (cvec R c)). fold (vneg (cvec R d)). rewrite IHR, andb_true_r.
      destruct (mem r d) eqn:E; [|destruct (mem r c); reflexivity].
      apply mem_In in E. apply H in E. apply mem_In in E. rewrite E. reflexivity. }
    rewrite E. rewrite !orb_true_r. reflexivity.
  - assert (E : vle (cvec R c) (vneg (cvec R d)) = true).
    { clear -H. induction R as [|r R IHR]; [reflexivity|]. cbn [cvec map vneg vle].
      fold (cvec R c). fold (cvec R d). fold (vneg (cvec R d)). rewrite IHR, andb_true_r.
      destruct (mem r c) eqn:E; [|reflexivity]. apply mem_In in E.
      destruct (mem r d) eqn:E2; [|reflexivity]. apply mem_In in E2. exfalso. exact (H r E E2). }
    rewrite E. rewrite !orb_true_r. reflexivity.
Qed.
