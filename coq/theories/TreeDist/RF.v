(* C15 - _TreeDist.grf (lingpy/algorithm/_tree.py), model only: the string
   normalisation, the taxa-count check through the Newick parser, the two
   distance formulas.  Distances are exact rationals. *)
From Coq Require Import Ascii String Bool Arith ZArith QArith List.
From LV Require Import Common.Cases TreeDist.Newick TreeDist.Bipart.
Import ListNotations.
Local Open Scope char_scope.
Local Open Scope nat_scope.

(* for old, new in [(";", ""), ("/", "-"), ("\n", "")]: tree = tree.replace(old, new) *)
Definition norm3 (s : str) : str := remove_char "010" (replace_char "/" "-" (remove_char ";" s)).
Definition normA (s : str) : str := replace_char " " "_" (norm3 s).     (* only treeA gets " " -> "_" *)
Definition normB (s : str) : str := norm3 s.

(* len(set(Tree(s + ';').taxa)) *)
Definition taxa_count (s : str) : option nat :=
  match load (s ++ [";"]) with
  | None => None
  | Some t => Some (card (leaves t))
  end.

(* number of parts of A that are parts of B, directly or as complement *)
Definition shared (lA : list str) (pA pB : list (list str)) : nat :=
  length (filter (fun u => set_mem u pB || set_mem (set_diff lA u) pB) pA).

Definition compat (lA lB u e : list str) : bool :=
  let u1 := set_diff lA u in
  let e1 := set_diff lB e in
  subset u e || subset u1 e || subset u e1 || subset u1 e1.

(* number of parts of A compatible with every part of B (none if B has no part: emod stays None) *)
Definition compatible (lA lB : list str) (pA pB : list (list str)) : nat :=
  length (filter (fun u => negb (match pB with [] => true | _ => false end) && forallb (compat lA lB u) pB) pA).

Definition frac (num : Z) (den : nat) : Q := Qmake num (Pos.of_nat den).

(* the part of grf after the taxa check, on the normalised strings: (grf, rf);
   None = the Python raises (get_bipartition error, or ZeroDivisionError when A has no part) *)
Definition grf_core (sA sB : str) : option (Q * Q) :=
  match get_bipartition sA, get_bipartition sB with
  | Some (pA, lA), Some (pB, lB) =>
    let iA := length pA in
    let iB := length pB in
    if iA =? 0 then None
    else
      let e := shared lA pA pB in
      let em := compatible lA lB pA pB in
      Some (frac (Z.of_nat iA - Z.of_nat em)%Z iA,
            frac (Z.of_nat iA + Z.of_nat iB - 2 * Z.of_nat e)%Z (iA + iB))
  | _, _ => None
  end.

(* _TreeDist.grf(treeA, treeB): (value for distance='grf', value for distance='rf') *)
Definition grf_both (tA tB : str) : option (Q * Q) :=
  let sA := normA tA in
  let sB := normB tB in
  match taxa_count sA, taxa_count sB with
  | Some nA, Some nB => if nA =? nB then grf_core sA sB else None
  | _, _ => None
  end.

Definition grf (tA tB : str) : option Q := option_map fst (grf_both tA tB).
Definition rf (tA tB : str) : option Q := option_map snd (grf_both tA tB).

(* Tree.get_distance(other, 'grf' | 'rf') = grf(str(self), str(other)) *)
Definition tree_grf (a b : tree) : option Q := grf (print a) (print b).
Definition tree_rf (a b : tree) : option Q := rf (print a) (print b).
