(* C15 - the distance computed by the model of _TreeDist.grf on two printed
   trees is the reference distance of their bipartition sets; consequences:
   invariance under re-ordering of children, self distance, range, symmetry. *)
From Coq Require Import Ascii String Bool Arith ZArith QArith Lia List Permutation.
From LV Require Import Common.Cases TreeDist.Newick TreeDist.Bipart TreeDist.RF TreeDist.Spec
  TreeDist.SetProofs TreeDist.NewickProofs TreeDist.BipartProofs TreeDist.TreeProofs TreeDist.ParseProofs.
Import ListNotations.
Local Open Scope char_scope.
Local Open Scope nat_scope.

(* ---------- the normalisation is the identity on printed clean trees ---------- *)

Definition structural (c : ascii) : Prop := c = "(" \/ c = ")" \/ c = "," \/ c = ":" \/ c = "'".

Lemma in_join : forall (sep : str) l c, In c (join sep l) -> In c sep \/ exists x, In x l /\ In c x.
Proof.
  intros sep. induction l as [|x l IH]; intros c H; [destruct H|].
  destruct l as [|y l'].
  - right. exists x. split; [left; reflexivity|exact H].
  - rewrite join_cons2 in H. apply in_app_or in H. destruct H as [H|H].
    + right. exists x. split; [left; reflexivity|exact H].
    + apply in_app_or in H. destruct H as [H|H]; [left; exact H|].
      destruct (IH c H) as [K|[z [Hz Hc]]]; [left; exact K|]. right. exists z. split; [right; exact Hz|exact Hc].
Qed.

Lemma plen_chars : forall l c, clean_len l = true -> In c (plen l) -> structural c \/ clean_char c = true.
Proof.
  intros [x|] c H Hc; [|destruct Hc]. destruct Hc as [<-|Hc].
  - left. unfold structural. auto.
  - right. apply clean_Forall in H. destruct H as [_ H]. rewrite Forall_forall in H. apply H. exact Hc.
Qed.

Lemma print_node_chars : forall t, clean_tree t = true ->
  forall c, In c (print_node t) -> structural c \/ clean_char c = true.
Proof.
  induction t as [n l|cs l IH] using tree_ind'; intros H c Hc.
  - cbn [clean_tree] in H. apply andb_true_iff in H. destruct H as [Hn Hl].
    cbn [print_node] in Hc. apply in_app_or in Hc. destruct Hc as [Hc|Hc].
    + destruct (pname_in _ n c (print_name_clean n Hn) Hc) as [->|Hc'].
      * left. unfold structural. tauto.
      * right. apply clean_Forall in Hn. destruct Hn as [_ Hn]. rewrite Forall_forall in Hn. apply Hn. exact Hc'.
    + apply (plen_chars l); assumption.
  - apply clean_tree_node in H. destruct H as [Hcs Hl]. rewrite Forall_forall in IH.
    cbn [print_node] in Hc. destruct Hc as [<-|Hc]; [left; unfold structural; auto|].
    apply in_app_or in Hc. destruct Hc as [Hc|[<-|Hc]].
    + apply in_join in Hc. destruct Hc as [[<-|[]]|[x [Hx Hc]]]; [left; unfold structural; auto|].
      apply in_map_iff in Hx. destruct Hx as [t [<- Ht]]. apply (IH t Ht (Hcs t Ht)). exact Hc.
    + left. unfold structural. auto.
    + apply (plen_chars l); assumption.
Qed.

Lemma print_node_no : forall t c, clean_tree t = true -> In c [";"; "/"; "010"; " "] -> ~ In c (print_node t).
Proof.
  intros t c H Hc K. destruct (print_node_chars t H c K) as [S|S].
  - unfold structural in S. cbn [In] in Hc. intuition; subst; discriminate.
  - apply clean_char_facts in S. destruct S as [S _]. apply S. unfold special. cbn [In] in *. intuition.
Qed.

Lemma norm3_print : forall t, clean_tree t = true -> norm3 (print t) = print_node t.
Proof.
  intros t H. unfold norm3, print. rewrite remove_char_app. cbn [remove_char filter Ascii.eqb negb].
  change (filter (fun x => negb (Ascii.eqb x ";")) [";"]) with (@nil ascii). rewrite app_nil_r.
  rewrite (remove_char_notin ";") by (apply print_node_no; [exact H|cbn [In]; auto]).
  rewrite (replace_char_notin "/") by (apply print_node_no; [exact H|cbn [In]; auto]).
  apply remove_char_notin. apply print_node_no; [exact H|cbn [In]; auto].
Qed.

Lemma normA_print : forall t, clean_tree t = true -> normA (print t) = print_node t.
Proof.
  intros t H. unfold normA. rewrite norm3_print by exact H.
  apply replace_char_notin. apply print_node_no; [exact H|cbn [In]; auto].
Qed.

(* ---------- the taxa check ---------- *)

Lemma wf_inhabited : forall t, wf_tree t -> inhabited t = true.
Proof. intros t [H _]. apply proper_inhabited. exact H. Qed.

Lemma taxa_count_print : forall t, wf_tree t -> taxa_count (print_node t) = Some (length (leaves t)).
Proof.
  intros t W. unfold taxa_count. fold (print t).
  destruct W as [W1 [W2 [W3 W4]]].
  rewrite load_print; auto; [|apply proper_inhabited; exact W1].
  rewrite card_NoDup by (apply names_ok_NoDup; exact W3). reflexivity.
Qed.

Lemma seteq_NoDup_length : forall a b : list str, NoDup a -> NoDup b -> seteq a b -> length a = length b.
Proof. intros a b Ha Hb H. apply Permutation_length. apply NoDup_Permutation; assumption. Qed.

(* ---------- bipartitions of a printed tree ---------- *)

Lemma wf_not_leaf : forall t, wf_tree t -> is_leaf t = false.
Proof. intros [n l|cs l] [_ [_ [_ H]]]; [cbn in H; lia|reflexivity]. Qed.

Lemma final_parts_biparts : forall R t, NoDup (leaves t) -> NoDup R -> seteq R (leaves t) ->
  Forall (fun p => incl p (leaves t)) (final_parts (leaves t) (clades t)) /\
  NoDup (map (canon R) (final_parts (leaves t) (clades t))) /\
  Permutation (map (canon R) (final_parts (leaves t) (clades t))) (biparts R t).
Proof.
  intros R t HL HR HRL.
  destruct (final_parts_inv R (leaves t) (clades t) [] [] HL HR HRL (Forall_clades_incl t)
              (Forall_nil _) (NoDup_nil _) (fun v => iff_refl _)) as [F [N I]].
  split; [exact F|]. split; [exact N|].
  apply NoDup_Permutation; [exact N|apply biparts_NoDup|].
  intros v. unfold final_parts. rewrite I. cbn [app]. unfold biparts. rewrite vdedup_In. tauto.
Qed.

Definition both_of (sa sb : list bvec) : option (Q * Q) :=
  match grf_of sa sb, rf_of sa sb with
  | Some g, Some r => Some (g, r)
  | _, _ => None
  end.

Lemma both_of_perm : forall a a' b b', Permutation a a' -> Permutation b b' -> both_of a b = both_of a' b'.
Proof.
  intros a a' b b' Pa Pb. unfold both_of. rewrite (grf_of_perm a a' b b' Pa Pb), (rf_of_perm a a' b b' Pa Pb).
  reflexivity.
Qed.

Lemma forallb_map' : forall (A B : Type) (h : A -> B) (g : B -> bool) l, forallb g (map h l) = forallb (fun x => g (h x)) l.
Proof. intros A B h g. induction l as [|x l IH]; [reflexivity|]. cbn [map forallb]. rewrite IH. reflexivity. Qed.

Lemma forallb_ext_in' : forall (A : Type) (f g : A -> bool) l, (forall x, In x l -> f x = g x) -> forallb f l = forallb g l.
Proof.
  intros A f g. induction l as [|x l IH]; intros H; [reflexivity|]. cbn [forallb].
  rewrite (H x) by (left; reflexivity). rewrite IH; [reflexivity|]. intros y Hy. apply H. right. exact Hy.
Qed.

(* the two counts of the Python loops, on canonical vectors *)
Lemma core_counts : forall R lA lB pA pB,
  seteq R lA -> seteq R lB ->
  Forall (fun p => incl p lA) pA -> Forall (fun p => incl p lB) pB ->
  shared lA pA pB = length (vinter (map (canon R) pA) (map (canon R) pB)) /\
  compatible lA lB pA pB =
    length (filter (fun u => negb (match map (canon R) pB with [] => true | _ => false end)
                             && forallb (vcompat u) (map (canon R) pB)) (map (canon R) pA)).
Proof.
  intros R lA lB pA pB HA HB FA FB.
  assert (FB' : Forall (fun p => incl p lA) pB).
  { rewrite Forall_forall in *. intros p Hp x Hx. apply HA. apply HB. apply (FB p Hp). exact Hx. }
  rewrite Forall_forall in FA. split.
  - unfold shared, vinter. apply filter_map_length. intros u Hu.
    destruct (set_mem u pB || set_mem (set_diff lA u) pB) eqn:E.
    + symmetry. apply vmem_In. apply (split_mem_canon R lA pB u HA (FA u Hu) FB'). exact E.
    + symmetry. apply vmem_false. intros K. apply (split_mem_canon R lA pB u HA (FA u Hu) FB') in K. congruence.
  - unfold compatible. apply filter_map_length. intros u Hu. f_equal.
    + destruct pB; reflexivity.
    + rewrite forallb_map'. apply forallb_ext_in'. intros e He.
      rewrite Forall_forall in FB.
      apply compat_vcompat.
      * intros x Hx. apply HA. exact Hx.
      * intros x Hx. apply HB. exact Hx.
      * intros x Hx. apply HA. apply (FA u Hu). exact Hx.
      * intros x Hx. apply HB. apply (FB e He). exact Hx.
      * intros x Hx. apply HA. exact Hx.
      * intros x Hx. apply HB. exact Hx.
Qed.

Lemma rf_numerator : forall a b : list bvec, NoDup a -> NoDup b ->
  (Z.of_nat (length a) + Z.of_nat (length b) - 2 * Z.of_nat (length (vinter a b)))%Z
  = Z.of_nat (length (vdiff a b) + length (vdiff b a)).
Proof.
  intros a b Ha Hb.
  assert (E1 := vdiff_length a b). assert (E2 := vdiff_length b a).
  assert (E3 := vinter_comm_length a b Ha Hb). lia.
Qed.

Theorem grf_core_spec : forall R a b, wf_tree a -> wf_tree b -> seteq (leaves a) (leaves b) ->
  NoDup R -> seteq R (leaves a) ->
  grf_core (print_node a) (print_node b) = spec_both R a b.
Proof.
  intros R a b Wa Wb Hab HR HRa.
  assert (HRb : seteq R (leaves b)) by (eapply seteq_trans; eassumption).
  assert (Na := wf_NoDup a Wa). assert (Nb := wf_NoDup b Wb).
  unfold grf_core.
  rewrite (get_bipartition_print a) by (try apply wf_not_leaf; auto; apply Wa).
  rewrite (get_bipartition_print b) by (try apply wf_not_leaf; auto; apply Wb).
  destruct (final_parts_biparts R a Na HR HRa) as [FA [NA PA]].
  destruct (final_parts_biparts R b Nb HR HRb) as [FB [NB PB]].
  set (pA := final_parts (leaves a) (clades a)) in *.
  set (pB := final_parts (leaves b) (clades b)) in *.
  destruct (core_counts R (leaves a) (leaves b) pA pB HRa HRb FA FB) as [Es Ec].
  change (spec_both R a b) with (both_of (biparts R a) (biparts R b)).
  rewrite <- (both_of_perm _ _ _ _ PA PB).
  unfold both_of, grf_of, rf_of. rewrite !map_length.
  destruct (length pA =? 0) eqn:E0; [reflexivity|].
  rewrite Es, Ec. f_equal. f_equal.
  f_equal. rewrite <- (rf_numerator _ _ NA NB). rewrite !map_length. reflexivity.
Qed.

(* the model of _TreeDist.grf, applied to the printed trees, is the reference distance *)
Theorem grf_both_spec : forall R a b, wf_tree a -> wf_tree b -> seteq (leaves a) (leaves b) ->
  NoDup R -> seteq R (leaves a) ->
  grf_both (print a) (print b) = spec_both R a b.
Proof.
  intros R a b Wa Wb Hab HR HRa. unfold grf_both, normB.
  rewrite normA_print by apply Wa. rewrite norm3_print by apply Wb.
  rewrite !taxa_count_print by assumption.
  rewrite (seteq_NoDup_length (leaves a) (leaves b)) by (try apply wf_NoDup; assumption).
  rewrite Nat.eqb_refl. apply grf_core_spec; assumption.
Qed.

(* ---------- consequences ---------- *)

Lemma fst_both_of : forall sa sb, option_map fst (both_of sa sb) = grf_of sa sb.
Proof. intros sa sb. unfold both_of, grf_of, rf_of. destruct (length sa =? 0); reflexivity. Qed.

Lemma snd_both_of : forall sa sb, option_map snd (both_of sa sb) = rf_of sa sb.
Proof. intros sa sb. unfold both_of, grf_of, rf_of. destruct (length sa =? 0); reflexivity. Qed.

Theorem tree_rf_spec : forall a b, wf_tree a -> wf_tree b -> seteq (leaves a) (leaves b) ->
  tree_rf a b = spec_rf (leaves a) a b.
Proof.
  intros a b Wa Wb H. unfold tree_rf, rf.
  rewrite (grf_both_spec (leaves a) a b Wa Wb H (wf_NoDup a Wa) (seteq_refl _)).
  apply snd_both_of.
Qed.

Theorem tree_grf_spec : forall a b, wf_tree a -> wf_tree b -> seteq (leaves a) (leaves b) ->
  tree_grf a b = spec_grf (leaves a) a b.
Proof.
  intros a b Wa Wb H. unfold tree_grf, grf.
  rewrite (grf_both_spec (leaves a) a b Wa Wb H (wf_NoDup a Wa) (seteq_refl _)).
  apply fst_both_of.
Qed.

(* re-ordering the children of any nodes of either tree changes nothing *)
Theorem grf_both_perm_invariant : forall a b a' b', wf_tree a -> wf_tree b -> seteq (leaves a) (leaves b) ->
  tperm a a' -> tperm b b' ->
  grf_both (print a') (print b') = grf_both (print a) (print b).
Proof.
  intros a b a' b' Wa Wb H Ta Tb.
  assert (Wa' := tperm_wf a a' Ta Wa). assert (Wb' := tperm_wf b b' Tb Wb).
  destruct (tperm_leaves_clades a a' Ta) as [Pa _]. destruct (tperm_leaves_clades b b' Tb) as [Pb _].
  assert (Sa : seteq (leaves a) (leaves a')) by (apply Permutation_seteq; exact Pa).
  assert (Sb : seteq (leaves b) (leaves b')) by (apply Permutation_seteq; exact Pb).
  rewrite (grf_both_spec (leaves a) a b Wa Wb H (wf_NoDup a Wa) (seteq_refl _)).
  rewrite (grf_both_spec (leaves a) a' b' Wa' Wb').
  - change (both_of (biparts (leaves a) a') (biparts (leaves a) b') = both_of (biparts (leaves a) a) (biparts (leaves a) b)).
    apply both_of_perm; apply Permutation_sym; apply biparts_tperm; assumption.
  - eapply seteq_trans; [apply seteq_sym; exact Sa|]. eapply seteq_trans; [exact H|exact Sb].
  - apply wf_NoDup. exact Wa.
  - exact Sa.
Qed.

Theorem rf_perm_invariant : forall a b a' b', wf_tree a -> wf_tree b -> seteq (leaves a) (leaves b) ->
  tperm a a' -> tperm b b' -> tree_rf a' b' = tree_rf a b.
Proof.
  intros a b a' b' Wa Wb H Ta Tb. unfold tree_rf, rf.
  rewrite (grf_both_perm_invariant a b a' b'); auto.
Qed.

Theorem grf_perm_invariant : forall a b a' b', wf_tree a -> wf_tree b -> seteq (leaves a) (leaves b) ->
  tperm a a' -> tperm b b' -> tree_grf a' b' = tree_grf a b.
Proof.
  intros a b a' b' Wa Wb H Ta Tb. unfold tree_grf, grf.
  rewrite (grf_both_perm_invariant a b a' b'); auto.
Qed.

(* ----- a tree against itself ----- *)

Lemma filter_all : forall (A : Type) (f : A -> bool) l, (forall x, In x l -> f x = true) -> filter f l = l.
Proof.
  intros A f. induction l as [|x l IH]; intros H; [reflexivity|]. cbn [filter].
  rewrite (H x) by (left; reflexivity). f_equal. apply IH. intros y Hy. apply H. right. exact Hy.
Qed.

Lemma filter_none : forall (A : Type) (f : A -> bool) l, (forall x, In x l -> f x = false) -> filter f l = [].
Proof.
  intros A f. induction l as [|x l IH]; intros H; [reflexivity|]. cbn [filter].
  rewrite (H x) by (left; reflexivity). apply IH. intros y Hy. apply H. right. exact Hy.
Qed.

Lemma biparts_compatible : forall R t, NoDup (leaves t) ->
  forall u v, In u (biparts R t) -> In v (biparts R t) -> vcompat u v = true.
Proof.
  intros R t HN u v Hu Hv. apply biparts_In in Hu. apply biparts_In in Hv.
  destruct Hu as [c [Hc [_ ->]]]. destruct Hv as [d [Hd [_ ->]]].
  apply laminar_vcompat. apply (clades_laminar t HN); assumption.
Qed.

Lemma frac_zero : forall d, (frac 0 d == 0)%Q.
Proof. intros d. unfold frac, Qeq. reflexivity. Qed.

Lemma has_split_nonempty : forall t, has_split t = true -> length (biparts (leaves t) t) =? 0 = false.
Proof.
  intros t H. unfold has_split in H. destruct (biparts (leaves t) t); [discriminate|reflexivity].
Qed.

Theorem self_distance_zero : forall t, wf_tree t -> has_split t = true ->
  exists g r, grf_both (print t) (print t) = Some (g, r) /\ (g == 0)%Q /\ (r == 0)%Q.
Proof.
  intros t W Hs. assert (N := wf_NoDup t W).
  rewrite (grf_both_spec (leaves t) t t W W (seteq_refl _) N (seteq_refl _)).
  change (spec_both (leaves t) t t) with (both_of (biparts (leaves t) t) (biparts (leaves t) t)).
  set (S := biparts (leaves t) t). assert (E0 := has_split_nonempty t Hs). fold S in E0.
  unfold both_of, grf_of, rf_of. rewrite E0.
  assert (Ed : vdiff S S = []).
  { unfold vdiff. apply filter_none. intros v Hv. apply negb_false_iff. apply vmem_In. exact Hv. }
  assert (Eo : filter (fun u => negb (match S with [] => true | _ => false end) && forallb (vcompat u) S) S = S).
  { apply filter_all. intros u Hu. apply andb_true_iff. split.
    - destruct S; [destruct Hu|reflexivity].
    - apply forallb_forall. intros v Hv. apply (biparts_compatible (leaves t) t N); assumption. }
  rewrite Ed, Eo. eexists. eexists. split; [reflexivity|]. split.
  - rewrite Z.sub_diag. apply frac_zero.
  - cbn [length Nat.add Z.of_nat]. apply frac_zero.
Qed.

Theorem rf_self_zero : forall t t', wf_tree t -> has_split t = true -> tperm t t' ->
  exists r, tree_rf t t' = Some r /\ (r == 0)%Q.
Proof.
  intros t t' W Hs T. destruct (self_distance_zero t W Hs) as [g [r [E [_ Hr]]]].
  exists r. split; [|exact Hr]. unfold tree_rf, rf.
  rewrite (grf_both_perm_invariant t t t t' W W (seteq_refl _) (tp_refl t) T). rewrite E. reflexivity.
Qed.

Theorem grf_self_zero : forall t t', wf_tree t -> has_split t = true -> tperm t t' ->
  exists g, tree_grf t t' = Some g /\ (g == 0)%Q.
Proof.
  intros t t' W Hs T. destruct (self_distance_zero t W Hs) as [g [r [E [Hg _]]]].
  exists g. split; [|exact Hg]. unfold tree_grf, grf.
  rewrite (grf_both_perm_invariant t t t t' W W (seteq_refl _) (tp_refl t) T). rewrite E. reflexivity.
Qed.

(* ----- range ----- *)

Lemma frac_range : forall n d, (0 <= n)%Z -> (n <= Z.of_nat d)%Z -> d <> 0 ->
  (0 <= frac n d)%Q /\ (frac n d <= 1)%Q.
Proof.
  intros n d H0 H1 Hd. unfold frac, Qle. cbn [Qnum Qden].
  assert (E : Zpos (Pos.of_nat d) = Z.of_nat d).
  { rewrite <- positive_nat_Z. rewrite Nat2Pos.id by exact Hd. reflexivity. }
  rewrite E. lia.
Qed.

Lemma filter_length_le : forall (A : Type) (f : A -> bool) l, length (filter f l) <= length l.
Proof.
  intros A f. induction l as [|x l IH]; [reflexivity|]. cbn [filter]. destruct (f x); cbn [length]; lia.
Qed.

Lemma both_of_range : forall sa sb g r, both_of sa sb = Some (g, r) ->
  ((0 <= g)%Q /\ (g <= 1)%Q) /\ ((0 <= r)%Q /\ (r <= 1)%Q).
Proof.
  intros sa sb g r H. unfold both_of, grf_of, rf_of in H.
  destruct (length sa =? 0) eqn:E0; [discriminate|]. apply Nat.eqb_neq in E0.
  inversion H; subst. split.
  - apply frac_range; [| |exact E0].
    + assert (K := filter_length_le _ (fun u => negb (match sb with [] => true | _ => false end) && forallb (vcompat u) sb) sa). lia.
    + assert (K := filter_length_le _ (fun u => negb (match sb with [] => true | _ => false end) && forallb (vcompat u) sb) sa). lia.
  - apply frac_range; [lia| |lia].
    assert (K1 := filter_length_le _ (fun v => negb (vmem v sb)) sa).
    assert (K2 := filter_length_le _ (fun v => negb (vmem v sa)) sb). unfold vdiff. lia.
Qed.

Theorem distances_range : forall a b g r, wf_tree a -> wf_tree b -> seteq (leaves a) (leaves b) ->
  grf_both (print a) (print b) = Some (g, r) ->
  ((0 <= g)%Q /\ (g <= 1)%Q) /\ ((0 <= r)%Q /\ (r <= 1)%Q).
Proof.
  intros a b g r Wa Wb H E.
  rewrite (grf_both_spec (leaves a) a b Wa Wb H (wf_NoDup a Wa) (seteq_refl _)) in E.
  apply (both_of_range _ _ _ _ E).
Qed.

Theorem rf_range : forall a b r, wf_tree a -> wf_tree b -> seteq (leaves a) (leaves b) ->
  tree_rf a b = Some r -> (0 <= r)%Q /\ (r <= 1)%Q.
Proof.
  intros a b r Wa Wb H E. unfold tree_rf, rf in E.
  destruct (grf_both (print a) (print b)) as [[g r']|] eqn:F; [|discriminate]. inversion E; subst.
  apply (distances_range a b g r Wa Wb H F).
Qed.

Theorem grf_range : forall a b g, wf_tree a -> wf_tree b -> seteq (leaves a) (leaves b) ->
  tree_grf a b = Some g -> (0 <= g)%Q /\ (g <= 1)%Q.
Proof.
  intros a b g Wa Wb H E. unfold tree_grf, grf in E.
  destruct (grf_both (print a) (print b)) as [[g' r]|] eqn:F; [|discriminate]. inversion E; subst.
  apply (distances_range a b g r Wa Wb H F).
Qed.

(* grf lies in [0,1] whatever the two strings are *)
Theorem grf_range_any : forall sA sB g, grf sA sB = Some g -> (0 <= g)%Q /\ (g <= 1)%Q.
Proof.
  intros sA sB g E. unfold grf, grf_both in E.
  destruct (taxa_count (normA sA)); [|discriminate]. destruct (taxa_count (normB sB)); [|discriminate].
  destruct (n =? n0); [|discriminate]. unfold grf_core in E.
  destruct (get_bipartition (normA sA)) as [[pA lA]|]; [|discriminate].
  destruct (get_bipartition (normB sB)) as [[pB lB]|]; [|discriminate].
  destruct (length pA =? 0) eqn:E0; [discriminate|]. apply Nat.eqb_neq in E0.
  cbn [option_map fst] in E. inversion E; subst.
  assert (K : compatible lA lB pA pB <= length pA) by apply filter_length_le.
  apply frac_range; [lia|lia|exact E0].
Qed.

(* ----- symmetry of rf ----- *)

Lemma rf_of_sym : forall sa sb, length sa <> 0 -> length sb <> 0 -> rf_of sa sb = rf_of sb sa.
Proof.
  intros sa sb Ha Hb. unfold rf_of.
  apply Nat.eqb_neq in Ha. apply Nat.eqb_neq in Hb. rewrite Ha, Hb.
  rewrite (Nat.add_comm (length (vdiff sa sb))), (Nat.add_comm (length sa)). reflexivity.
Qed.

Lemma has_split_R : forall R t, NoDup R -> NoDup (leaves t) -> seteq R (leaves t) -> has_split t = true ->
  length (biparts R t) <> 0.
Proof.
  intros R t HR HN H Hs E. apply length_zero_iff_nil in E. apply biparts_nil_iff in E.
  rewrite (seteq_NoDup_length R (leaves t) HR HN H) in E. apply biparts_nil_iff in E.
  unfold has_split in Hs. rewrite E in Hs. discriminate.
Qed.

Theorem rf_symmetric : forall a b, wf_tree a -> wf_tree b -> seteq (leaves a) (leaves b) ->
  has_split a = true -> has_split b = true -> tree_rf a b = tree_rf b a.
Proof.
  intros a b Wa Wb H Ha Hb. assert (Na := wf_NoDup a Wa). assert (Nb := wf_NoDup b Wb).
  unfold tree_rf, rf.
  rewrite (grf_both_spec (leaves a) a b Wa Wb H Na (seteq_refl _)).
  rewrite (grf_both_spec (leaves a) b a Wb Wa (seteq_sym _ _ H) Na H).
  change (option_map snd (both_of (biparts (leaves a) a) (biparts (leaves a) b))
          = option_map snd (both_of (biparts (leaves a) b) (biparts (leaves a) a))).
  rewrite !snd_both_of. apply rf_of_sym.
  - apply has_split_R; auto. apply seteq_refl.
  - apply has_split_R; auto.
Qed.

(* ----- when do the distances exist: exactly when the first tree has a non-trivial bipartition ----- *)

Theorem distances_defined : forall a b, wf_tree a -> wf_tree b -> seteq (leaves a) (leaves b) ->
  (grf_both (print a) (print b) = None <-> has_split a = false).
Proof.
  intros a b Wa Wb H.
  rewrite (grf_both_spec (leaves a) a b Wa Wb H (wf_NoDup a Wa) (seteq_refl _)).
  change (spec_both (leaves a) a b) with (both_of (biparts (leaves a) a) (biparts (leaves a) b)).
  unfold both_of, grf_of, rf_of, has_split. destruct (biparts (leaves a) a); cbn [length Nat.eqb negb]; split;
    intros K; try reflexivity; discriminate.
Qed.

(* ---------- bipart_of_print, stated on sets of names ---------- *)

Lemma final_parts_members : forall L parts acc, NoDup L -> Forall (fun p => incl p L) parts ->
  forall p, In p (fold_left (final_step L) parts acc) ->
  In p acc \/ (In p parts /\ nontrivial (length L) p = true).
Proof.
  intros L. induction parts as [|x parts IH]; intros acc HL HF p Hp; cbn [fold_left] in Hp; [left; exact Hp|].
  inversion HF as [|? ? Hx Hps]; subst.
  destruct (IH _ HL Hps p Hp) as [K|[K1 K2]].
  - rewrite final_step_alt in K by assumption.
    destruct (nontrivial (length L) x) eqn:En; [|left; exact K].
    destruct (set_mem x acc || set_mem (set_diff L x) acc); [left; exact K|].
    apply in_app_or in K. destruct K as [K|[<-|[]]]; [left; exact K|].
    right. split; [left; reflexivity|exact En].
  - right. split; [right; exact K1|exact K2].
Qed.

Theorem bipart_of_print : forall t, wf_tree t ->
  exists P, get_bipartition (norm3 (print t)) = Some (P, leaves t) /\
    (forall p, In p P -> In p (clades t) /\ nontrivial (length (leaves t)) p = true) /\
    (forall c, In c (clades t) -> nontrivial (length (leaves t)) c = true ->
               exists p, In p P /\ splitsame (leaves t) c p) /\
    (forall i j p q, nth_error P i = Some p -> nth_error P j = Some q -> splitsame (leaves t) p q -> i = j).
Proof.
  intros t W. assert (N := wf_NoDup t W). destruct W as [W1 [W2 [W3 W4]]].
  exists (final_parts (leaves t) (clades t)).
  rewrite norm3_print by exact W2.
  rewrite get_bipartition_print; auto; [|destruct t; [cbn in W4; lia|reflexivity]].
  destruct (final_parts_biparts (leaves t) t N N (seteq_refl _)) as [F [ND P]].
  split; [reflexivity|]. split; [|split].
  - intros p Hp. unfold final_parts in Hp.
    destruct (final_parts_members (leaves t) (clades t) [] N (Forall_clades_incl t) p Hp) as [[]|K]. exact K.
  - intros c Hc Hn.
    assert (K : In (canon (leaves t) c) (biparts (leaves t) t)) by (apply biparts_In; exists c; auto).
    apply (Permutation_in _ (Permutation_sym P)) in K. apply in_map_iff in K. destruct K as [p [E Hp]].
    exists p. split; [exact Hp|]. symmetry in E. apply canon_eq_iff in E; [exact E|apply clades_incl; exact Hc|].
    rewrite Forall_forall in F. apply F. exact Hp.
  - intros i j p q Hi Hj S.
    assert (Ip : In p (final_parts (leaves t) (clades t))) by (eapply nth_error_In; exact Hi).
    assert (Iq : In q (final_parts (leaves t) (clades t))) by (eapply nth_error_In; exact Hj).
    rewrite Forall_forall in F.
    apply canon_eq_iff in S; [|apply F; exact Ip|apply F; exact Iq].
    apply (proj1 (NoDup_nth_error _) ND).
    + rewrite map_length. apply nth_error_Some. rewrite Hi. discriminate.
    + rewrite !nth_error_map, Hi, Hj. cbn [option_map]. f_equal. exact S.
Qed.

(* ---------- the boolean test for "re-ordered copy" is sound ---------- *)

Lemma extract_spec : forall p l l', extract p l = Some l' ->
  exists pre x post, l = pre ++ x :: post /\ p x = true /\ l' = pre ++ post.
Proof.
  intros p. induction l as [|y l IH]; intros l' H; [discriminate|]. cbn [extract] in H.
  destruct (p y) eqn:E.
  - inversion H; subst. exists [], y, l'. auto.
  - destruct (extract p l) as [r|] eqn:F; [|discriminate]. inversion H; subst.
    destruct (IH r eq_refl) as [pre [x [post [-> [Hx ->]]]]].
    exists (y :: pre), x, post. auto.
Qed.

Lemma tperm_children : forall l cs ds, Forall2 tperm cs ds -> forall pre, tperm (Node (pre ++ cs) l) (Node (pre ++ ds) l).
Proof.
  intros l cs ds H. induction H as [|x y cs ds Hxy _ IH]; intros pre; [apply tp_refl|].
  eapply tp_trans; [apply tp_child; exact Hxy|].
  replace (pre ++ y :: cs) with ((pre ++ [y]) ++ cs) by (rewrite <- app_assoc; reflexivity).
  replace (pre ++ y :: ds) with ((pre ++ [y]) ++ ds) by (rewrite <- app_assoc; reflexivity).
  apply IH.
Qed.

Lemma optstr_eqb_eq : forall a b, optstr_eqb a b = true -> a = b.
Proof.
  intros [x|] [y|] H; cbn in H; try discriminate; [|reflexivity].
  apply str_eqb_iff in H. subst. reflexivity.
Qed.

Theorem tree_permb_sound : forall a b, tree_permb a b = true -> tperm a b.
Proof.
  induction a as [n l|cs l IH] using tree_ind'; intros [n' l'|ds l'] H; cbn [tree_permb] in H; try discriminate.
  - apply andb_true_iff in H. destruct H as [H1 H2]. apply str_eqb_iff in H1. apply optstr_eqb_eq in H2.
    subst. apply tp_refl.
  - apply andb_true_iff in H. destruct H as [H1 H2]. apply optstr_eqb_eq in H1. subst l'.
    assert (K : exists ds1, Forall2 tperm cs ds1 /\ Permutation ds1 ds).
    { revert ds H2. induction cs as [|c cs IHc]; intros ds H2.
      - destruct ds; [|discriminate]. exists []. split; constructor.
      - inversion IH as [|? ? Hc Hcs]; subst.
        destruct (extract (tree_permb c) ds) as [ds'|] eqn:E; [|discriminate].
        destruct (extract_spec _ _ _ E) as [pre [x [post [-> [Hx ->]]]]].
        destruct (IHc Hcs _ H2) as [ds1 [F P]].
        exists (x :: ds1). split.
        + constructor; [apply Hc; exact Hx|exact F].
        + apply Permutation_cons_app. exact P. }
    destruct K as [ds1 [F P]].
    eapply tp_trans; [apply (tperm_children l cs ds1 F [])|]. apply tp_perm. exact P.
Qed.

(* ---------- parse_print on well-formed trees ---------- *)

Theorem parse_print : forall t, wf_tree t -> load (print t) = Some t.
Proof.
  intros t [W1 [W2 [W3 W4]]]. apply load_print; auto. apply proper_inhabited. exact W1.
Qed.

(* ---------- branch lengths do not matter ---------- *)

Lemma strip_len_leaves : forall t, leaves (strip_len t) = leaves t.
Proof.
  induction t as [n l|cs l IH] using tree_ind'; [reflexivity|]. cbn [strip_len leaves].
  induction cs as [|c cs IHc]; [reflexivity|]. inversion IH as [|? ? Hc Hcs]; subst.
  cbn [map flat_map]. rewrite Hc, IHc by exact Hcs. reflexivity.
Qed.

Lemma strip_len_leaves_map : forall cs, flat_map leaves (map strip_len cs) = flat_map leaves cs.
Proof.
  induction cs as [|c cs IH]; [reflexivity|]. cbn [map flat_map]. rewrite strip_len_leaves, IH. reflexivity.
Qed.

Lemma strip_len_clades : forall t, clades (strip_len t) = clades t.
Proof.
  induction t as [n l|cs l IH] using tree_ind'; [reflexivity|]. cbn [strip_len clades].
  rewrite strip_len_leaves_map. f_equal.
  induction cs as [|c cs IHc]; [reflexivity|]. inversion IH as [|? ? Hc Hcs]; subst.
  cbn [map flat_map]. rewrite Hc, IHc by exact Hcs. reflexivity.
Qed.

Lemma strip_len_wf : forall t, wf_tree t -> wf_tree (strip_len t).
Proof.
  intros t [W1 [W2 [W3 W4]]]. unfold wf_tree. rewrite strip_len_leaves. repeat split; auto.
  - clear W2 W3 W4. induction t as [n l|cs l IH] using tree_ind'; [reflexivity|].
    apply proper_node in W1. destruct W1 as [Hl Hc]. cbn [strip_len proper]. rewrite map_length.
    apply andb_true_iff. split; [apply Nat.leb_le; exact Hl|].
    apply forallb_forall. intros x Hx. apply in_map_iff in Hx. destruct Hx as [c [<- Hin]].
    rewrite Forall_forall in IH. apply IH; auto.
  - clear W1 W3 W4. induction t as [n l|cs l IH] using tree_ind'.
    + cbn [strip_len clean_tree clean_len] in *. apply andb_true_iff in W2. destruct W2 as [W2 _]. rewrite W2. reflexivity.
    + apply clean_tree_node in W2. destruct W2 as [Hc _]. cbn [strip_len clean_tree clean_len]. rewrite andb_true_r.
      apply forallb_forall. intros x Hx. apply in_map_iff in Hx. destruct Hx as [c [<- Hin]].
      rewrite Forall_forall in IH. apply IH; auto.
Qed.

Lemma strip_len_biparts : forall R t, biparts R (strip_len t) = biparts R t.
Proof. intros R t. unfold biparts. rewrite strip_len_clades. reflexivity. Qed.

Theorem distances_ignore_lengths : forall a b, wf_tree a -> wf_tree b -> seteq (leaves a) (leaves b) ->
  grf_both (print (strip_len a)) (print (strip_len b)) = grf_both (print a) (print b).
Proof.
  intros a b Wa Wb S.
  rewrite (grf_both_spec (leaves a) a b Wa Wb S (wf_NoDup a Wa) (seteq_refl _)).
  rewrite (grf_both_spec (leaves a) (strip_len a) (strip_len b) (strip_len_wf a Wa) (strip_len_wf b Wb)).
  - unfold spec_both, spec_grf, spec_rf. rewrite !strip_len_biparts. reflexivity.
  - rewrite !strip_len_leaves. exact S.
  - apply wf_NoDup. exact Wa.
  - rewrite strip_len_leaves. apply seteq_refl.
Qed.
