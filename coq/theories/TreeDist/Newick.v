(* C15 - Newick layer (model only).

   Trees with named leaves and optional branch-length texts; the printer
   ([str(tree)] of lingpy.thirdparty.cogent.tree.PhyloNode for trees whose
   internal nodes carry no loaded name); a character-level model of the
   cogent tokeniser and of the stack machine [parse_string]
   (thirdparty/cogent/newick.py) restricted to texts without quotes and
   comments.

   Strings are lists of [ascii].  A branch length is carried as its text
   (what [repr(float)] prints); the model never interprets it. *)
From Coq Require Import Ascii String Bool Arith List.
From LV Require Import Common.Cases.
Import ListNotations.
Local Open Scope char_scope.
Local Open Scope nat_scope.

Definition str := list ascii.
Definition s2l (s : string) : str := list_ascii_of_string s.

Definition str_eqb (a b : str) : bool := list_eqb Ascii.eqb a b.
Definition mem (a : str) (l : list str) : bool := existsb (str_eqb a) l.

(* ---------- character-level string operations (Python str methods) ---------- *)

Definition count_char (c : ascii) (s : str) : nat := length (filter (Ascii.eqb c) s).
Definition has_char (c : ascii) (s : str) : bool := existsb (Ascii.eqb c) s.
(* s.replace(a, b) for single characters *)
Definition replace_char (a b : ascii) (s : str) : str := map (fun x => if Ascii.eqb x a then b else x) s.
(* s.replace(a, "") *)
Definition remove_char (a : ascii) (s : str) : str := filter (fun x => negb (Ascii.eqb x a)) s.

Fixpoint lstrip_by (p : ascii -> bool) (s : str) : str :=
  match s with
  | [] => []
  | x :: tl => if p x then lstrip_by p tl else s
  end.
Definition strip_by (p : ascii -> bool) (s : str) : str := rev (lstrip_by p (rev (lstrip_by p s))).

(* Python's str.strip() white space restricted to 7-bit characters *)
Definition is_space (c : ascii) : bool :=
  let n := nat_of_ascii c in ((9 <=? n) && (n <=? 13)) || ((28 <=? n) && (n <=? 32)).
Definition strip_ws (s : str) : str := strip_by is_space s.

(* s.split(c)[0] *)
Fixpoint cut_at (c : ascii) (s : str) : str :=
  match s with
  | [] => []
  | x :: tl => if Ascii.eqb x c then [] else x :: cut_at c tl
  end.

(* s.split(c) : always at least one piece *)
Fixpoint split_acc (c : ascii) (cur : str) (s : str) : list str :=
  match s with
  | [] => [rev cur]
  | x :: tl => if Ascii.eqb x c then rev cur :: split_acc c [] tl else split_acc c (x :: cur) tl
  end.
Definition split_on (c : ascii) (s : str) : list str := split_acc c [] s.

Fixpoint join {A : Type} (sep : list A) (l : list (list A)) : list A :=
  match l with
  | [] => []
  | [x] => x
  | x :: tl => x ++ sep ++ join sep tl
  end.

(* ---------- trees ---------- *)

Inductive tree : Type :=
| Leaf : str -> option str -> tree                (* name, length text *)
| Node : list tree -> option str -> tree.         (* children, length text *)

Fixpoint leaves (t : tree) : list str :=
  match t with
  | Leaf n _ => [n]
  | Node cs _ => flat_map leaves cs
  end.

(* leaf lists of the internal nodes, post-order *)
Fixpoint clades (t : tree) : list (list str) :=
  match t with
  | Leaf _ _ => []
  | Node cs _ => flat_map clades cs ++ [flat_map leaves cs]
  end.

(* every internal node has at least two children *)
Fixpoint proper (t : tree) : bool :=
  match t with
  | Leaf _ _ => true
  | Node cs _ => (2 <=? length cs) && forallb proper cs
  end.

Definition is_leaf (t : tree) : bool := match t with Leaf _ _ => true | _ => false end.

(* ---------- the printer: PhyloNode.__str__ = getNewick(with_distances=True) ---------- *)

Definition plen (l : option str) : str :=
  match l with None => [] | Some x => ":" :: x end.

(* getNewick(escape_name=True): a name containing a bracket, quote, parenthesis, comma, colon,
   semicolon or underscore is wrapped in single quotes (inner single quotes doubled, unless the name
   already starts and ends with one), otherwise its blanks are turned into underscores *)
Definition must_quote (c : ascii) : bool :=
  existsb (Ascii.eqb c) ["["; "]"; "'"; """"; "("; ")"; ","; ":"; ";"; "_"].
Fixpoint double_quotes (s : str) : str :=
  match s with
  | [] => []
  | c :: tl => if Ascii.eqb c "'" then "'" :: "'" :: double_quotes tl else c :: double_quotes tl
  end.
Definition print_name (n : str) : str :=
  if Ascii.eqb (hd " " n) "'" && Ascii.eqb (last n " ") "'" then n
  else if existsb must_quote n then "'" :: double_quotes n ++ ["'"]
  else replace_char " " "_" n.

Fixpoint print_node (t : tree) : str :=
  match t with
  | Leaf n l => print_name n ++ plen l
  | Node cs l => "(" :: join [","] (map print_node cs) ++ ")" :: plen l
  end.

Definition print (t : tree) : str := print_node t ++ [";"].

(* characters that are printed verbatim, survive the normalisation in grf, the
   element scanner and the tokeniser: printable, not blank, not a parenthesis, comma, colon, semicolon, quote, bracket or slash
   (an underscore is allowed: the printer then quotes the name) *)
Definition clean_char (c : ascii) : bool :=
  let n := nat_of_ascii c in
  (33 <=? n) && (n <=? 126) &&
  negb (existsb (Ascii.eqb c) ["("; ")"; ","; ":"; ";"; "'"; """"; "["; "]"; "/"]).
Definition clean (s : str) : bool := negb (match s with [] => true | _ => false end) && forallb clean_char s.

Definition clean_len (l : option str) : bool := match l with None => true | Some x => clean x end.

Fixpoint clean_tree (t : tree) : bool :=
  match t with
  | Leaf n l => clean n && clean_len l
  | Node cs l => forallb clean_tree cs && clean_len l
  end.

(* ---------- the tokeniser (newick._Tokeniser.tokens) ---------- *)

Inductive token : Type :=
| TLabel : str -> token
| TPunct : ascii -> token        (* one of ( ) : , ; *)
| TEOT : token.

Definition is_punct (c : ascii) : bool := existsb (Ascii.eqb c) ["("; ")"; ":"; ","; ";"].
Definition is_blank (c : ascii) : bool := Ascii.eqb c " " || Ascii.eqb c "009".
Definition is_newline (c : ascii) : bool := Ascii.eqb c "010".
(* quotes, comments and control characters are outside the model *)
Definition unmodelled_char (c : ascii) : bool :=
  let n := nat_of_ascii c in
  existsb (Ascii.eqb c) ["'"; """"; "["; "]"] || (n <? 32) && negb (is_blank c) && negb (is_newline c) || (126 <? n).

Definition flush (text : option str) : list token :=
  match text with None => [] | Some t => [TLabel (strip_ws t)] end.

(* [quoted = Some acc]: inside a single-quoted label whose text so far is acc *)
Fixpoint tokenise_q (quoted : option str) (text : option str) (s : str) {struct s} : option (list token) :=
  match quoted with
  | Some acc =>
    match s with
    | [] => None                                        (* text ended inside quoted label *)
    | c :: tl =>
      if Ascii.eqb c "'" then
        match tl with
        | c2 :: tl2 =>
          if Ascii.eqb c2 "'" then tokenise_q (Some (acc ++ ["'"])) None tl2      (* doubled quote inside: one quote character *)
          else option_map (cons (TLabel acc)) (tokenise_q None None tl)
        | [] => option_map (cons (TLabel acc)) (tokenise_q None None tl)
        end
      else if is_newline c then None                    (* line ended inside quoted label *)
      else if (nat_of_ascii c <? 32) && negb (is_blank c) || (126 <? nat_of_ascii c) then None
      else tokenise_q (Some (acc ++ [c])) None tl
    end
  | None =>
    match s with
    | [] => Some (flush text ++ [TEOT])
    | c :: tl =>
      if is_punct c then option_map (fun r => flush text ++ TPunct c :: r) (tokenise_q None None tl)
      else if is_newline c then option_map (fun r => flush text ++ r) (tokenise_q None None tl)
      else if Ascii.eqb c "'" then
        match text, tl with
        | None, c2 :: _ => if Ascii.eqb c2 "'" then None else tokenise_q (Some []) None tl
        | _, _ => None                                  (* quote inside an unquoted label, empty quoted label: not modelled *)
        end
      else if unmodelled_char c then None
      else if is_blank c then
        tokenise_q None (match text with None => None | Some t => Some (t ++ [c]) end) tl
      else tokenise_q None (Some (match text with None => [c] | Some t => t ++ [c] end)) tl
    end
  end.

Definition tokenise (text : option str) (s : str) : option (list token) := tokenise_q None text s.

(* ---------- the parser (newick.parse_string with TreeBuilder.createEdge) ---------- *)

Record frame := { f_nodes : list tree; f_paren : bool; f_attr : option str }.

Record pstate := {
  p_stack : list frame;
  p_nodes : list tree;            (* nodes of the current level, in order *)
  p_paren : bool;                 (* sentinels = [')'] (true) or [';', EOT] (false) *)
  p_attr : option str;            (* attributes['length'] *)
  p_children : option (list tree);
  p_name : option str;
  p_expect : bool                 (* expected_attribute is not None *)
}.

Inductive presult : Type :=
| PCont : pstate -> presult
| PDone : list tree -> presult    (* break: the nodes of the top level *)
| PFail : presult.                (* TreeParseError / out of the model *)

(* constructor(children, name, attributes); unnamed tips and named internal nodes are not modelled *)
Definition mk_node (children : option (list tree)) (name : option str) (attr : option str) : option tree :=
  match children, name with
  | None, Some n => Some (Leaf n attr)
  | Some cs, None => Some (Node cs attr)
  | _, _ => None
  end.

Definition p_init : pstate :=
  {| p_stack := []; p_nodes := []; p_paren := false; p_attr := None; p_children := None; p_name := None;
     p_expect := false |}.

Definition close_node (st : pstate) (is_sentinel is_comma : bool) : presult :=
  match mk_node (p_children st) (p_name st) (p_attr st) with
  | None => PFail
  | Some nd =>
    let nodes := p_nodes st ++ [nd] in
    if is_sentinel then
      match p_stack st with
      | fr :: rest =>
        PCont {| p_stack := rest; p_nodes := f_nodes fr; p_paren := f_paren fr; p_attr := f_attr fr;
                 p_children := Some nodes; p_name := None; p_expect := false |}
      | [] => PDone nodes
      end
    else if is_comma && p_paren st then
      PCont {| p_stack := p_stack st; p_nodes := nodes; p_paren := p_paren st; p_attr := None;
               p_children := None; p_name := None; p_expect := false |}
    else PFail
  end.

Definition pstep (st : pstate) (tk : token) : presult :=
  if p_expect st then
    match tk with
    | TLabel s =>
      PCont {| p_stack := p_stack st; p_nodes := p_nodes st; p_paren := p_paren st; p_attr := Some s;
               p_children := p_children st; p_name := p_name st; p_expect := false |}
    | _ => PFail
    end
  else
    match tk with
    | TPunct c =>
      if Ascii.eqb c "(" then
        match p_children st, p_name st, p_attr st with
        | None, None, None =>
          PCont {| p_stack := {| f_nodes := p_nodes st; f_paren := p_paren st; f_attr := p_attr st |} :: p_stack st;
                   p_nodes := []; p_paren := true; p_attr := None; p_children := None; p_name := None;
                   p_expect := false |}
        | _, _, _ => PFail
        end
      else if Ascii.eqb c ":" then
        match p_attr st with
        | Some _ => PFail
        | None =>
          PCont {| p_stack := p_stack st; p_nodes := p_nodes st; p_paren := p_paren st; p_attr := None;
                   p_children := p_children st; p_name := p_name st; p_expect := true |}
        end
      else if Ascii.eqb c ")" then close_node st (p_paren st) false
      else if Ascii.eqb c ";" then close_node st (negb (p_paren st)) false
      else close_node st false true
    | TEOT => close_node st (negb (p_paren st)) false
    | TLabel s =>
      match p_name st, p_attr st with
      | None, None =>
        PCont {| p_stack := p_stack st; p_nodes := p_nodes st; p_paren := p_paren st; p_attr := None;
                 p_children := p_children st; p_name := Some s; p_expect := false |}
      | _, _ => PFail
      end
    end.

Fixpoint prun (st : pstate) (tks : list token) : option tree :=
  match tks with
  | [] => None                       (* cannot happen: EOT always ends or fails *)
  | tk :: rest =>
    match pstep st tk with
    | PCont st' => prun st' rest
    | PDone [t] => Some t
    | PDone _ => None
    | PFail => None
    end
  end.

Definition str_edge : str := s2l "edge".

(* TreeBuilder._unique_name renames duplicate names and names that collide with
   the names it invents for unnamed nodes ('edge', 'edge.0', ...): such texts
   are outside the model *)
Fixpoint distinct (l : list str) : bool :=
  match l with
  | [] => true
  | x :: tl => negb (mem x tl) && distinct tl
  end.
Fixpoint has_prefix (p s : str) : bool :=
  match p, s with
  | [], _ => true
  | x :: p', y :: s' => Ascii.eqb x y && has_prefix p' s'
  | _ :: _, [] => false
  end.
Definition names_ok (l : list str) : bool := distinct l && negb (existsb (has_prefix str_edge) l).

(* Tree(text) / LoadTree(treestring=text) *)
Definition load (text : str) : option tree :=
  if negb (has_char "(" text) && negb (has_char ";" text)
     && negb (match strip_ws text with [] => true | _ => false end) then None
  else
    match tokenise None text with
    | None => None
    | Some tks =>
      match prun p_init tks with
      | Some t => if names_ok (leaves t) then Some t else None
      | None => None
      end
    end.
