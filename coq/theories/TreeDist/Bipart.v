(* C15 - _TreeDist.get_bipartition (lingpy/algorithm/_tree.py), model only.

   The string is split at ",", each piece is turned into an *element*
   (number of "(" to push, name, number of ")" to pop) exactly as the three
   branches of the Python loop do it, the elements drive a stack machine
   (temp_stack = all names so far, ind_list = stack of open indices), and the
   collected partitions are filtered (trivial splits and complements
   dropped). *)
From Coq Require Import Ascii String Bool Arith List.
From LV Require Import Common.Cases TreeDist.Newick.
Import ListNotations.
Local Open Scope char_scope.
Local Open Scope nat_scope.

(* ---------- sets of names as lists ---------- *)

Definition subset (a b : list str) : bool := forallb (fun x => mem x b) a.
Definition set_eqb (a b : list str) : bool := subset a b && subset b a.
Definition set_diff (a b : list str) : list str := filter (fun x => negb (mem x b)) a.
Fixpoint dedup (l : list str) : list str :=
  match l with
  | [] => []
  | x :: tl => if mem x tl then dedup tl else x :: dedup tl
  end.
Definition card (a : list str) : nat := length (dedup a).      (* len(frozenset(a)) *)
Definition set_mem (a : list str) (l : list (list str)) : bool := existsb (set_eqb a) l.

(* ---------- one comma-separated piece -> element ---------- *)

Definition elem : Type := (nat * str * nat)%type.     (* opens, name, closes *)

(* lang.replace(" ", "_").replace("'", ""): since fix 3e3442f applied at every position *)
Definition unquote (lang : str) : str := remove_char "'" (replace_char " " "_" lang).

Definition elementise (e : str) : elem :=
  if has_char "(" e then
    (* ind_list gets one entry per "("; the ")" of such a piece are never popped *)
    let lang := cut_at ":" (strip_by (Ascii.eqb "(") e) in
    let lang := replace_char ")" "-" (replace_char "(" "-" lang) in
    (count_char "(" e, unquote lang, 0)
  else if has_char ")" e then
    (* the tip name is what precedes the first ")": inner labels and their lengths follow it *)
    (0, unquote (strip_ws (cut_at ":" (cut_at ")" e))), count_char ")" e)
  else (0, unquote (cut_at ":" e), 0).

(* ---------- the stack machine ---------- *)

Record sstate := { s_ind : list nat; s_stack : list str; s_parts : list (list str) }.

(* k times: partition = temp_stack[ind_list.pop():] ; IndexError on an empty ind_list *)
Fixpoint pops (k : nat) (ind : list nat) (stack : list str) (parts : list (list str))
  : option (list nat * list (list str)) :=
  match k with
  | O => Some (ind, parts)
  | S k' =>
    match ind with
    | [] => None
    | j :: ind' => pops k' ind' stack (parts ++ [skipn j stack])
    end
  end.

(* element number i = length of temp_stack before the push *)
Definition sstep (st : sstate) (e : elem) : option sstate :=
  let '(o, name, c) := e in
  let i := length (s_stack st) in
  let ind := repeat i o ++ s_ind st in
  let stack := s_stack st ++ [name] in
  match pops c ind stack (s_parts st) with
  | None => None
  | Some (ind', parts') => Some {| s_ind := ind'; s_stack := stack; s_parts := parts' |}
  end.

Fixpoint srun (st : sstate) (es : list elem) : option sstate :=
  match es with
  | [] => Some st
  | e :: tl => match sstep st e with None => None | Some st' => srun st' tl end
  end.

Definition s_init : sstate := {| s_ind := []; s_stack := []; s_parts := [] |}.

(* ---------- filtering of the partition list ---------- *)

Definition final_step (lang : list str) (acc : list (list str)) (x : list str) : list (list str) :=
  let x1 := set_diff lang x in
  if (card x1 =? 1) || (card x =? 1) then acc
  else if (0 <? card x) && (0 <? card x1) then
    if negb (set_mem x acc) && negb (set_mem x1 acc) then acc ++ [x] else acc
  else acc.

Definition final_parts (lang : list str) (parts : list (list str)) : list (list str) :=
  fold_left (final_step lang) parts [].

(* get_bipartition(tree): None = the Python raises (ValueError or IndexError) *)
Definition get_bipartition (s : str) : option (list (list str) * list str) :=
  match srun s_init (map elementise (split_on "," s)) with
  | None => None
  | Some st =>
    match s_ind st with
    | _ :: _ => None
    | [] =>
      match s_parts st with
      | [] => None
      | _ => let lang := last (s_parts st) [] in Some (final_parts lang (s_parts st), lang)
      end
    end
  end.
