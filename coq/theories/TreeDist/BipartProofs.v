(* C15 - get_bipartition applied to a printed tree: the comma-separated pieces
   are turned into the expected elements, the stack machine collects exactly
   the clades of the tree (post-order), the last one being the leaf list. *)
From Coq Require Import Ascii String Bool Arith Lia List Permutation.
From LV Require Import Common.Cases TreeDist.Newick TreeDist.Bipart TreeDist.RF TreeDist.Spec
  TreeDist.SetProofs TreeDist.NewickProofs.
Import ListNotations.
Local Open Scope char_scope.
Local Open Scope nat_scope.

(* ---------- elementise (render e) ---------- *)

Lemma in_special : forall c, In c ["("; ")"; ","; ":"; ";"; "'"; " "; "/"; "010"] -> In c special.
Proof.
  intros c H. unfold special. cbn [In] in *. intuition.
Qed.

Lemma clean_no : forall s c, clean s = true -> In c ["("; ")"; ","; ":"; ";"; "'"; " "; "/"; "010"] -> ~ In c s.
Proof. intros s c H Hc. apply clean_notin; [exact H|apply in_special; exact Hc]. Qed.

Lemma plen_no : forall l c, clean_len l = true -> In c ["("; ")"; ","; ";"; "'"; " "; "/"; "010"] -> ~ In c (plen l).
Proof.
  intros [x|] c H Hc; cbn [plen]; [|intros []].
  intros [E|K].
  - subst c. cbn [In] in Hc. repeat (destruct Hc as [Hc|Hc]; [discriminate Hc|]). exact Hc.
  - revert K. apply clean_no; [exact H|]. cbn [In] in *. intuition.
Qed.

Lemma strip_by_all : forall p s, s <> [] -> (forall c, In c s -> p c = false) -> strip_by p s = s.
Proof.
  intros p s Hne H. apply strip_by_id; [exact Hne| |].
  - destruct s as [|x s]; [congruence|]. apply H. left. reflexivity.
  - apply H. apply last_In'. exact Hne.
Qed.

Lemma strip_by_repeat : forall p c n s, p c = true -> strip_by p (repeat c n ++ s) = strip_by p s.
Proof. intros p c n s H. unfold strip_by. rewrite lstrip_by_repeat by exact H. reflexivity. Qed.

Definition plens (cl : list (option str)) : str := flat_map plen cl.
Definition closings (cl : list (option str)) : str := flat_map (fun x => ")" :: plen x) cl.

Lemma plens_head : forall l cl, plen l ++ plens cl = [] \/ exists z, plen l ++ plens cl = ":" :: z.
Proof.
  intros [x|] cl; cbn [plen app].
  - right. eexists. reflexivity.
  - induction cl as [|[y|] cl IH]; cbn [plens flat_map plen app].
    + left. reflexivity.
    + right. eexists. reflexivity.
    + exact IH.
Qed.

Lemma closings_cons : forall x cl, closings (x :: cl) = (")" :: plen x) ++ closings cl.
Proof. reflexivity. Qed.

Lemma remove_closings : forall cl, Forall (fun l => clean_len l = true) cl ->
  remove_char ")" (closings cl) = plens cl.
Proof.
  induction cl as [|x cl IH]; intros H; [reflexivity|].
  inversion H as [|? ? Hx Hc]; subst.
  cbn [closings plens flat_map]. change (")" :: plen x ++ closings cl) with ((")" :: plen x) ++ closings cl).
  rewrite remove_char_app, remove_char_cons_eq.
  rewrite remove_char_notin by (apply plen_no; [exact Hx|cbn [In]; intuition]).
  f_equal. apply IH. exact Hc.
Qed.

Lemma count_closings : forall cl, Forall (fun l => clean_len l = true) cl ->
  count_char ")" (closings cl) = length cl.
Proof.
  induction cl as [|x cl IH]; intros H; [reflexivity|].
  inversion H as [|? ? Hx Hc]; subst.
  rewrite closings_cons. cbn [length].
  rewrite count_char_app, count_char_cons_eq.
  rewrite count_char_notin by (apply plen_no; [exact Hx|cbn [In]; intuition]).
  rewrite IH by exact Hc. reflexivity.
Qed.

Lemma closings_no_open : forall cl, Forall (fun l => clean_len l = true) cl -> ~ In "(" (closings cl).
Proof.
  induction cl as [|x cl IH]; intros H; [intros []|].
  inversion H as [|? ? Hx Hc]; subst.
  cbn [closings flat_map]. intros [E|K]; [discriminate E|].
  apply in_app_or in K. destruct K as [K|K].
  - revert K. apply plen_no; [exact Hx|cbn [In]; intuition].
  - revert K. apply IH. exact Hc.
Qed.

Definition okp (e : relem) : Prop := let '(o, n, l, cl) := e in o = 0 \/ cl = [].
Definition cleanp (e : relem) : Prop :=
  let '(o, n, l, cl) := e in clean n = true /\ clean_len l = true /\ Forall (fun x => clean_len x = true) cl.

(* ----- the printed form of a clean name: the name itself, or the name in single quotes ----- *)

Lemma double_quotes_id : forall n, ~ In "'" n -> double_quotes n = n.
Proof.
  induction n as [|c n IH]; intros H; [reflexivity|]. cbn [double_quotes].
  rewrite eqb_neq by (intros E; apply H; left; exact E). f_equal. apply IH. intros K. apply H. right. exact K.
Qed.

Lemma unquote_clean : forall n, clean n = true -> unquote n = n.
Proof.
  intros n Hn. unfold unquote.
  rewrite (replace_char_notin " ") by (apply clean_no; [exact Hn|cbn [In]; intuition]).
  apply remove_char_notin. apply clean_no; [exact Hn|cbn [In]; intuition].
Qed.

Definition pname_ok (pn n : str) : Prop := pn = n \/ pn = "'" :: n ++ ["'"].

Lemma print_name_clean : forall n, clean n = true -> pname_ok (print_name n) n.
Proof.
  intros n Hn. unfold print_name.
  destruct (clean_hd_last n Hn) as [Hh _].
  assert (Eh : Ascii.eqb (hd " " n) "'" = false).
  { apply eqb_neq. intros E. apply clean_char_facts in Hh. destruct Hh as [Hh _]. apply Hh. rewrite E.
    unfold special. cbn [In]. intuition. }
  rewrite Eh. cbn [andb].
  destruct (existsb must_quote n).
  - right. rewrite double_quotes_id; [reflexivity|]. apply clean_no; [exact Hn|cbn [In]; intuition].
  - left. apply replace_char_notin. apply clean_no; [exact Hn|cbn [In]; intuition].
Qed.

Lemma pname_in : forall pn n c, pname_ok pn n -> In c pn -> c = "'" \/ In c n.
Proof.
  intros pn n c [->| ->] H; [right; exact H|].
  destruct H as [<-|H]; [left; reflexivity|]. apply in_app_or in H. destruct H as [H|[<-|[]]]; auto.
Qed.

Lemma pname_no : forall pn n c, clean n = true -> pname_ok pn n ->
  In c ["("; ")"; ","; ":"; ";"; " "; "/"; "010"] -> ~ In c pn.
Proof.
  intros pn n c Hn Hp Hc K. destruct (pname_in pn n c Hp K) as [->|K'].
  - cbn [In] in Hc. repeat (destruct Hc as [Hc|Hc]; [discriminate Hc|]). exact Hc.
  - revert K'. apply clean_no; [exact Hn|]. cbn [In] in *. intuition.
Qed.

Lemma pname_nonempty : forall pn n, clean n = true -> pname_ok pn n -> pn <> [].
Proof. intros pn n Hn [->| ->]; [apply clean_Forall in Hn; tauto|discriminate]. Qed.

Lemma pname_unquote : forall pn n, clean n = true -> pname_ok pn n -> unquote pn = n.
Proof.
  intros pn n Hn [->| ->]; [apply unquote_clean; exact Hn|].
  unfold unquote.
  assert (E : replace_char " " "_" ("'" :: n ++ ["'"]) = "'" :: n ++ ["'"]).
  { apply replace_char_notin. intros [K|K]; [discriminate K|]. apply in_app_or in K. destruct K as [K|[K|[]]]; [|discriminate K].
    revert K. apply clean_no; [exact Hn|cbn [In]; intuition]. }
  rewrite E. change ("'" :: n ++ ["'"]) with (["'"] ++ n ++ ["'"]).
  rewrite !remove_char_app. rewrite (remove_char_notin "'" n) by (apply clean_no; [exact Hn|cbn [In]; intuition]).
  cbn. rewrite app_nil_r. reflexivity.
Qed.

Lemma pname_strip_ws : forall pn n, clean n = true -> pname_ok pn n -> strip_ws pn = pn.
Proof.
  intros pn n Hn [->| ->]; [apply strip_ws_clean; exact Hn|].
  unfold strip_ws. apply strip_by_id; [discriminate|reflexivity|].
  change ("'" :: n ++ ["'"]) with (("'" :: n) ++ ["'"]). rewrite last_last. reflexivity.
Qed.

Lemma cut_name : forall pn z, ~ In ":" pn -> (z = [] \/ exists w, z = ":" :: w) -> cut_at ":" (pn ++ z) = pn.
Proof.
  intros pn z Hn [->|[w ->]].
  - rewrite app_nil_r. apply cut_at_notin. exact Hn.
  - apply cut_at_app. exact Hn.
Qed.

Lemma elementise_render : forall e, cleanp e -> okp e -> elementise (render e) = forget e.
Proof.
  intros [[[o n] l] cl] [Hn [Hl Hcl]] Hok. unfold okp in Hok. unfold render, forget.
  fold (closings cl).
  assert (Hp := print_name_clean n Hn). set (pn := print_name n) in *.
  assert (PN : forall c, In c ["("; ")"; ","; ":"; ";"; " "; "/"; "010"] -> ~ In c pn) by (intros c; apply (pname_no pn n c Hn Hp)).
  assert (Nopen : ~ In "(" (pn ++ plen l ++ closings cl)).
  { intros K. apply in_app_or in K. destruct K as [K|K].
    - revert K. apply PN. cbn [In]; intuition.
    - apply in_app_or in K. destruct K as [K|K].
      + revert K. apply plen_no; [exact Hl|cbn [In]; intuition].
      + revert K. apply closings_no_open. exact Hcl. }
  destruct o as [|o].
  - (* no opening parenthesis *)
    cbn [repeat app]. unfold elementise.
    rewrite (proj2 (has_char_false "(" _) Nopen).
    destruct cl as [|x cl].
    + (* a plain tip *)
      cbn [closings flat_map length]. rewrite app_nil_r.
      assert (Nclose : ~ In ")" (pn ++ plen l)).
      { intros K. apply in_app_or in K. destruct K as [K|K].
        - revert K. apply PN. cbn [In]; intuition.
        - revert K. apply plen_no; [exact Hl|cbn [In]; intuition]. }
      rewrite (proj2 (has_char_false ")" _) Nclose).
      rewrite (cut_name pn (plen l)); [rewrite (pname_unquote pn n Hn Hp); reflexivity|apply PN; cbn [In]; intuition|].
      destruct l as [x|]; [right; eexists; reflexivity|left; reflexivity].
    + (* closes clades *)
      assert (Hc : has_char ")" (pn ++ plen l ++ closings (x :: cl)) = true).
      { apply has_char_In. apply in_or_app. right. apply in_or_app. right. left. reflexivity. }
      rewrite Hc.
      assert (Ec : cut_at ")" (pn ++ plen l ++ closings (x :: cl)) = pn ++ plen l).
      { rewrite closings_cons. rewrite app_assoc. cbn [app]. apply cut_at_app.
        intros K. apply in_app_or in K. destruct K as [K|K].
        - revert K. apply PN. cbn [In]; intuition.
        - revert K. apply plen_no; [exact Hl|cbn [In]; intuition]. }
      rewrite Ec.
      rewrite (cut_name pn (plen l)) by (try (destruct l as [y|]; [right; eexists; reflexivity|left; reflexivity]); apply PN; cbn [In]; intuition).
      rewrite (pname_strip_ws pn n Hn Hp). rewrite (pname_unquote pn n Hn Hp).
      rewrite !count_char_app.
      rewrite (count_char_notin ")" pn) by (apply PN; cbn [In]; intuition).
      rewrite (count_char_notin ")" (plen l)) by (apply plen_no; [exact Hl|cbn [In]; intuition]).
      rewrite count_closings by exact Hcl. reflexivity.
  - (* opening parentheses: no closing ones *)
    destruct Hok as [Hok|Hok]; [discriminate|]. subst cl.
    cbn [closings flat_map length] in *. rewrite app_nil_r in *.
    unfold elementise.
    assert (Ho : has_char "(" (repeat "(" (S o) ++ pn ++ plen l) = true).
    { apply has_char_In. left. reflexivity. }
    rewrite Ho.
    rewrite count_char_app, count_char_repeat, (count_char_notin "(" _ Nopen), Nat.add_0_r.
    rewrite strip_by_repeat by reflexivity.
    rewrite strip_by_all.
    + rewrite (cut_name pn (plen l)) by (try (destruct l as [x|]; [right; eexists; reflexivity|left; reflexivity]); apply PN; cbn [In]; intuition).
      rewrite (replace_char_notin "(") by (apply PN; cbn [In]; intuition).
      rewrite (replace_char_notin ")") by (apply PN; cbn [In]; intuition).
      rewrite (pname_unquote pn n Hn Hp).
      reflexivity.
    + intros E. apply app_eq_nil in E. destruct E as [E _]. revert E. apply (pname_nonempty pn n Hn Hp).
    + intros c Hc. apply eqb_neq. intros E. subst c. apply Nopen. exact Hc.
Qed.

(* ---------- the pieces of a proper clean tree ---------- *)

Lemma Forall_map_first : forall (A : Type) (P : A -> Prop) (f : A -> A) l,
  (forall x, P x -> P (f x)) -> Forall P l -> Forall P (map_first f l).
Proof.
  intros A P f [|x tl] Hf H; [constructor|]. inversion H; subst. constructor; auto.
Qed.

Lemma Forall_map_last : forall (A : Type) (P : A -> Prop) (f : A -> A) l,
  (forall x, P x -> P (f x)) -> Forall P l -> Forall P (map_last f l).
Proof.
  intros A P f. induction l as [|x tl IH]; intros Hf H; [constructor|].
  inversion H as [|? ? Hx Ht]; subst. destruct tl as [|y tl'].
  - constructor; auto.
  - change (map_last f (x :: y :: tl')) with (x :: map_last f (y :: tl')). constructor; auto.
Qed.

Lemma Forall_flat_map' : forall (A B : Type) (P : B -> Prop) (f : A -> list B) cs,
  (forall c, In c cs -> Forall P (f c)) -> Forall P (flat_map f cs).
Proof.
  intros A B P f. induction cs as [|c cs IH]; intros H; [constructor|].
  cbn [flat_map]. apply Forall_app. split.
  - apply H. left. reflexivity.
  - apply IH. intros d Hd. apply H. right. exact Hd.
Qed.

Lemma clean_tree_node : forall cs l, clean_tree (Node cs l) = true ->
  (forall c, In c cs -> clean_tree c = true) /\ clean_len l = true.
Proof.
  intros cs l H. cbn [clean_tree] in H. apply andb_true_iff in H. destruct H as [H1 H2].
  split; [|exact H2]. apply forallb_forall. exact H1.
Qed.

Lemma pieces_clean : forall t, clean_tree t = true -> Forall cleanp (pieces t).
Proof.
  induction t as [n l|cs l IH] using tree_ind'; intros H.
  - cbn [clean_tree] in H. apply andb_true_iff in H. destruct H as [H1 H2].
    cbn [pieces]. constructor; [|constructor]. unfold cleanp. auto.
  - apply clean_tree_node in H. destruct H as [Hc Hl]. rewrite Forall_forall in IH.
    cbn [pieces]. apply Forall_map_last.
    + intros [[[o n] l'] cl] [K1 [K2 K3]]. unfold add_close, cleanp. repeat split; auto.
      apply Forall_app. split; [exact K3|]. constructor; [exact Hl|constructor].
    + apply Forall_map_first.
      * intros [[[o n] l'] cl] K. exact K.
      * apply Forall_flat_map'. intros c Hcin. apply IH; [exact Hcin|apply Hc; exact Hcin].
Qed.

Lemma render_nocomma : forall e, cleanp e -> ~ In "," (render e).
Proof.
  intros [[[o n] l] cl] [Hn [Hl Hcl]]. unfold render. intros K.
  apply in_app_or in K. destruct K as [K|K].
  - apply repeat_spec in K. discriminate K.
  - apply in_app_or in K. destruct K as [K|K].
    + revert K. apply (pname_no _ n "," Hn (print_name_clean n Hn)). cbn [In]; intuition.
    + apply in_app_or in K. destruct K as [K|K].
      * revert K. apply plen_no; [exact Hl|cbn [In]; intuition].
      * fold (closings cl) in K. induction cl as [|x cl IHc]; [destruct K|].
        inversion Hcl as [|? ? Hx Hc]; subst. rewrite closings_cons in K.
        apply in_app_or in K. destruct K as [[E|K]|K].
        -- discriminate E.
        -- revert K. apply plen_no; [exact Hx|cbn [In]; intuition].
        -- apply IHc; assumption.
Qed.

Definition p_o (e : relem) : nat := let '(o, _, _, _) := e in o.
Definition p_cl (e : relem) : list (option str) := let '(_, _, _, cl) := e in cl.
Definition dfl : relem := (0, [], None, []).

Lemma okp_alt : forall e, okp e <-> (p_o e = 0 \/ p_cl e = []).
Proof. intros [[[o n] l] cl]. reflexivity. Qed.

Lemma hd_app_l : forall (A : Type) (a b : list A) d, a <> [] -> hd d (a ++ b) = hd d a.
Proof. intros A [|x a] b d H; [congruence|reflexivity]. Qed.

Lemma last_app_r : forall (A : Type) (a b : list A) d, b <> [] -> last (a ++ b) d = last b d.
Proof.
  intros A a b d H. induction a as [|x a IH]; [reflexivity|].
  cbn [app]. destruct (a ++ b) as [|y r] eqn:E.
  - apply app_eq_nil in E. destruct E as [_ E]. congruence.
  - change (last (x :: y :: r) d) with (last (y :: r) d). exact IH.
Qed.

Lemma last_cons2 : forall (A : Type) (x : A) tl d, tl <> [] -> last (x :: tl) d = last tl d.
Proof. intros A x [|y tl] d H; [congruence|reflexivity]. Qed.

Lemma map_last_length : forall (A : Type) (f : A -> A) l, length (map_last f l) = length l.
Proof.
  intros A f. induction l as [|x tl IH]; [reflexivity|]. destruct tl as [|y tl']; [reflexivity|].
  change (map_last f (x :: y :: tl')) with (x :: map_last f (y :: tl')). cbn [length] in *. rewrite IH. reflexivity.
Qed.

Lemma last_map_last : forall (A : Type) (f : A -> A) l d, l <> [] -> last (map_last f l) d = f (last l d).
Proof.
  intros A f. induction l as [|x tl IH]; intros d H; [congruence|]. destruct tl as [|y tl'].
  - reflexivity.
  - change (map_last f (x :: y :: tl')) with (x :: map_last f (y :: tl')).
    rewrite last_cons2 by (apply map_last_nonempty; discriminate).
    rewrite IH by discriminate. reflexivity.
Qed.

Lemma Forall_map_last_strong : forall (A : Type) (P : A -> Prop) (f : A -> A) l d,
  Forall P l -> P (f (last l d)) -> Forall P (map_last f l).
Proof.
  intros A P f. induction l as [|x tl IH]; intros d H Hl; [constructor|].
  inversion H as [|? ? Hx Ht]; subst. destruct tl as [|y tl'].
  - constructor; [exact Hl|constructor].
  - change (map_last f (x :: y :: tl')) with (x :: map_last f (y :: tl')). constructor; [exact Hx|].
    apply (IH d); [exact Ht|]. exact Hl.
Qed.

Lemma flat_map_length_ge : forall (A B : Type) (f : A -> list B) cs,
  (forall c, In c cs -> 1 <= length (f c)) -> length cs <= length (flat_map f cs).
Proof.
  intros A B f. induction cs as [|c cs IH]; intros H; [reflexivity|].
  cbn [flat_map length]. rewrite app_length.
  assert (1 <= length (f c)) by (apply H; left; reflexivity).
  assert (length cs <= length (flat_map f cs)) by (apply IH; intros d Hd; apply H; right; exact Hd). lia.
Qed.

Lemma last_flat_map : forall (A B : Type) (f : A -> list B) cs c0 d,
  cs <> [] -> (forall c, In c cs -> f c <> []) -> last (flat_map f cs) d = last (f (last cs c0)) d.
Proof.
  intros A B f. induction cs as [|c cs IH]; intros c0 d Hne H; [congruence|].
  destruct cs as [|c' cs'].
  - cbn [flat_map last]. rewrite app_nil_r. reflexivity.
  - cbn [flat_map]. rewrite last_app_r.
    + change (last (c :: c' :: cs') c0) with (last (c' :: cs') c0).
      apply (IH c0 d); [discriminate|]. intros x Hx. apply H. right. exact Hx.
    + intros E. apply app_eq_nil in E. destruct E as [E _]. revert E. apply H. right. left. reflexivity.
Qed.

Lemma proper_node : forall cs l, proper (Node cs l) = true ->
  2 <= length cs /\ (forall c, In c cs -> proper c = true).
Proof.
  intros cs l H. cbn [proper] in H. apply andb_true_iff in H. destruct H as [H1 H2]. split.
  - apply Nat.leb_le. exact H1.
  - apply forallb_forall. exact H2.
Qed.

Lemma pieces_good : forall t, proper t = true ->
  Forall okp (pieces t) /\ p_cl (hd dfl (pieces t)) = [] /\ p_o (last (pieces t) dfl) = 0
  /\ 1 <= length (pieces t).
Proof.
  induction t as [n l|cs l IH] using tree_ind'; intros H.
  - cbn [pieces hd last length p_cl p_o]. repeat split; auto. constructor; [left; reflexivity|constructor].
  - apply proper_node in H. destruct H as [Hlen Hc]. rewrite Forall_forall in IH.
    cbn [pieces].
    set (ps0 := flat_map pieces cs).
    assert (Hne : forall c, In c cs -> pieces c <> []).
    { intros c Hin E. destruct (IH c Hin (Hc c Hin)) as [_ [_ [_ K]]]. rewrite E in K. cbn in K. lia. }
    assert (F0 : Forall okp ps0).
    { apply Forall_flat_map'. intros c Hin. apply (IH c Hin (Hc c Hin)). }
    assert (L0 : 2 <= length ps0).
    { eapply Nat.le_trans; [exact Hlen|]. apply flat_map_length_ge. intros c Hin.
      apply (IH c Hin (Hc c Hin)). }
    destruct cs as [|c1 cs']; [cbn in Hlen; lia|].
    assert (H0 : p_cl (hd dfl ps0) = []).
    { unfold ps0. cbn [flat_map]. rewrite hd_app_l by (apply Hne; left; reflexivity).
      apply (IH c1 (or_introl eq_refl) (Hc c1 (or_introl eq_refl))). }
    assert (Z0 : p_o (last ps0 dfl) = 0).
    { unfold ps0. rewrite (last_flat_map _ _ pieces (c1 :: cs') c1 dfl) by (try discriminate; exact Hne).
      assert (Hin : In (last (c1 :: cs') c1) (c1 :: cs')) by (apply last_In'; discriminate).
      apply (IH _ Hin (Hc _ Hin)). }
    clearbody ps0.
    destruct ps0 as [|e tl]; [cbn in L0; lia|].
    destruct tl as [|e2 tl']; [cbn in L0; lia|].
    cbn [map_first].
    change (map_last (add_close l) (add_open e :: e2 :: tl')) with (add_open e :: map_last (add_close l) (e2 :: tl')).
    cbn [hd] in *. change (last (e :: e2 :: tl') dfl) with (last (e2 :: tl') dfl) in Z0.
    inversion F0 as [|? ? Fe Ft]; subst.
    repeat split.
    + constructor.
      * destruct e as [[[o n] l'] cl]. cbn [p_cl] in H0. subst cl. right. reflexivity.
      * apply (Forall_map_last_strong _ okp (add_close l) (e2 :: tl') dfl); [exact Ft|].
        destruct (last (e2 :: tl') dfl) as [[[o n] l'] cl]. cbn [p_o] in Z0. subst o. left. reflexivity.
    + destruct e as [[[o n] l'] cl]. exact H0.
    + rewrite last_cons2 by (apply map_last_nonempty; discriminate).
      rewrite last_map_last by discriminate.
      destruct (last (e2 :: tl') dfl) as [[[o n] l'] cl]. exact Z0.
    + cbn [length]. lia.
Qed.

(* the comma-separated pieces of a printed tree are the expected elements *)
Lemma elements_of_print : forall t, proper t = true -> clean_tree t = true ->
  map elementise (split_on "," (print_node t)) = map forget (pieces t).
Proof.
  intros t Hp Hc.
  rewrite print_pieces by (apply proper_inhabited; exact Hp).
  assert (HC := pieces_clean t Hc). destruct (pieces_good t Hp) as [HO [_ [_ HL]]].
  rewrite split_on_join.
  - rewrite map_map. apply map_ext_in. intros e He.
    rewrite Forall_forall in HC, HO. apply elementise_render; auto.
  - intros E. apply map_eq_nil in E. rewrite E in HL. cbn in HL. lia.
  - apply Forall_forall. intros x Hx. apply in_map_iff in Hx. destruct Hx as [e [<- He]].
    apply render_nocomma. rewrite Forall_forall in HC. apply HC. exact He.
Qed.

(* ---------- the stack machine, one token at a time ---------- *)

Inductive stok : Type := SOpen | SName (n : str) | SClose.

Definition tstep (st : sstate) (k : stok) : option sstate :=
  match k with
  | SOpen => Some {| s_ind := length (s_stack st) :: s_ind st; s_stack := s_stack st; s_parts := s_parts st |}
  | SName n => Some {| s_ind := s_ind st; s_stack := s_stack st ++ [n]; s_parts := s_parts st |}
  | SClose =>
    match s_ind st with
    | [] => None
    | j :: ind' => Some {| s_ind := ind'; s_stack := s_stack st; s_parts := s_parts st ++ [skipn j (s_stack st)] |}
    end
  end.

Fixpoint trun (st : sstate) (ks : list stok) : option sstate :=
  match ks with
  | [] => Some st
  | k :: tl => match tstep st k with None => None | Some st' => trun st' tl end
  end.

Lemma trun_app : forall a b st, trun st (a ++ b) = match trun st a with None => None | Some st' => trun st' b end.
Proof.
  induction a as [|k a IH]; intros b st; [reflexivity|].
  cbn [app trun]. destruct (tstep st k); [apply IH|reflexivity].
Qed.

Definition toks_of (e : elem) : list stok :=
  let '(o, n, c) := e in repeat SOpen o ++ [SName n] ++ repeat SClose c.

Lemma trun_opens : forall o ind stack parts,
  trun {| s_ind := ind; s_stack := stack; s_parts := parts |} (repeat SOpen o)
  = Some {| s_ind := repeat (length stack) o ++ ind; s_stack := stack; s_parts := parts |}.
Proof.
  induction o as [|o IH]; intros ind stack parts; [reflexivity|].
  cbn [repeat trun tstep s_ind s_stack s_parts]. rewrite IH.
  f_equal. f_equal. change (length stack :: ind) with ([length stack] ++ ind).
  rewrite app_assoc. f_equal. clear. induction o as [|o IH]; [reflexivity|]. cbn [repeat app]. f_equal. exact IH.
Qed.

Lemma trun_closes : forall c ind stack parts,
  trun {| s_ind := ind; s_stack := stack; s_parts := parts |} (repeat SClose c)
  = match pops c ind stack parts with
    | None => None
    | Some (ind', parts') => Some {| s_ind := ind'; s_stack := stack; s_parts := parts' |}
    end.
Proof.
  induction c as [|c IH]; intros ind stack parts; [reflexivity|].
  cbn [repeat trun tstep pops s_ind s_stack s_parts]. destruct ind as [|j ind']; [reflexivity|]. apply IH.
Qed.

Lemma sstep_trun : forall st e, sstep st e = trun st (toks_of e).
Proof.
  intros [ind stack parts] [[o n] c]. unfold sstep, toks_of. cbn [s_ind s_stack s_parts].
  rewrite trun_app, trun_opens. cbn [app trun tstep s_ind s_stack s_parts].
  rewrite trun_closes. reflexivity.
Qed.

Lemma srun_trun : forall es st, srun st es = trun st (flat_map toks_of es).
Proof.
  induction es as [|e es IH]; intros st; [reflexivity|].
  cbn [srun flat_map]. rewrite trun_app, <- sstep_trun. destruct (sstep st e); [apply IH|reflexivity].
Qed.

(* tokens of a tree *)
Fixpoint ttoks (t : tree) : list stok :=
  match t with
  | Leaf n _ => [SName n]
  | Node cs _ => SOpen :: flat_map ttoks cs ++ [SClose]
  end.

Lemma toks_add_open : forall e, toks_of (forget (add_open e)) = SOpen :: toks_of (forget e).
Proof. intros [[[o n] l] cl]. reflexivity. Qed.

Lemma toks_add_close : forall x e, toks_of (forget (add_close x e)) = toks_of (forget e) ++ [SClose].
Proof.
  intros x [[[o n] l] cl]. unfold add_close, forget, toks_of. rewrite app_length. cbn [length].
  rewrite Nat.add_1_r. rewrite <- !app_assoc. f_equal. cbn [app]. f_equal.
  clear. induction (length cl) as [|k IH]; [reflexivity|]. cbn [repeat app]. f_equal. exact IH.
Qed.

Lemma toks_map_first : forall ps, ps <> [] ->
  flat_map toks_of (map forget (map_first add_open ps)) = SOpen :: flat_map toks_of (map forget ps).
Proof.
  intros [|e ps] H; [congruence|]. cbn [map_first map flat_map]. rewrite toks_add_open. reflexivity.
Qed.

Lemma toks_map_last : forall x ps, ps <> [] ->
  flat_map toks_of (map forget (map_last (add_close x) ps)) = flat_map toks_of (map forget ps) ++ [SClose].
Proof.
  intros x. induction ps as [|e ps IH]; intros H; [congruence|]. destruct ps as [|e' ps'].
  - cbn [map_last map flat_map]. rewrite toks_add_close, !app_nil_r. reflexivity.
  - change (map_last (add_close x) (e :: e' :: ps')) with (e :: map_last (add_close x) (e' :: ps')).
    cbn [map flat_map] in *. rewrite IH by discriminate. rewrite <- !app_assoc. reflexivity.
Qed.

Lemma toks_pieces : forall t, inhabited t = true -> flat_map toks_of (map forget (pieces t)) = ttoks t.
Proof.
  induction t as [n l|cs l IH] using tree_ind'; intros H; [reflexivity|].
  cbn [inhabited] in H. apply andb_true_iff in H. destruct H as [H1 H2].
  rewrite forallb_forall in H2. rewrite Forall_forall in IH.
  assert (Hne : flat_map pieces cs <> []).
  { destruct cs as [|c cs']; [discriminate|]. cbn [flat_map]. intros K. apply app_eq_nil in K. destruct K as [K _].
    revert K. apply pieces_nonempty. apply H2. left. reflexivity. }
  cbn [pieces ttoks]. rewrite toks_map_last by (apply map_first_nonempty; exact Hne).
  rewrite toks_map_first by exact Hne. cbn [app]. f_equal. f_equal.
  clear H1 Hne. induction cs as [|c cs IHc]; [reflexivity|].
  cbn [flat_map]. rewrite map_app, flat_map_app. f_equal.
  - apply IH; [left; reflexivity|apply H2; left; reflexivity].
  - apply IHc; intros d Hd; [apply IH|apply H2]; right; exact Hd.
Qed.

(* running the machine over the tokens of a tree appends its leaves to the stack and its
   clades (post-order) to the partition list, and leaves the open indices alone *)
Lemma trun_tree : forall t ind stack parts rest,
  trun {| s_ind := ind; s_stack := stack; s_parts := parts |} (ttoks t ++ rest)
  = trun {| s_ind := ind; s_stack := stack ++ leaves t; s_parts := parts ++ clades t |} rest.
Proof.
  induction t as [n l|cs l IH] using tree_ind'; intros ind stack parts rest.
  - cbn [ttoks app trun tstep s_ind s_stack s_parts leaves clades]. rewrite app_nil_r. reflexivity.
  - cbn [ttoks leaves clades]. cbn [app trun tstep s_ind s_stack s_parts].
    rewrite <- app_assoc.
    assert (K : forall ind0 stack0 parts0 rest0,
      trun {| s_ind := ind0; s_stack := stack0; s_parts := parts0 |} (flat_map ttoks cs ++ rest0)
      = trun {| s_ind := ind0; s_stack := stack0 ++ flat_map leaves cs; s_parts := parts0 ++ flat_map clades cs |} rest0).
    { clear ind stack parts rest. induction cs as [|c cs IHc]; intros ind0 stack0 parts0 rest0.
      - cbn [flat_map app]. rewrite !app_nil_r. reflexivity.
      - inversion IH as [|? ? Hc Hcs]; subst.
        cbn [flat_map]. rewrite <- app_assoc, Hc, IHc by exact Hcs. rewrite <- !app_assoc. reflexivity. }
    rewrite K. cbn [app trun tstep s_ind s_stack s_parts].
    rewrite skipn_app, skipn_all, Nat.sub_diag. cbn [skipn app]. rewrite <- app_assoc. reflexivity.
Qed.

Lemma clades_last : forall cs l, last (clades (Node cs l)) [] = leaves (Node cs l).
Proof. intros cs l. cbn [clades leaves]. apply last_last. Qed.

Lemma clades_node_nonempty : forall cs l, clades (Node cs l) <> [].
Proof. intros cs l. cbn [clades]. intros E. apply app_eq_nil in E. destruct E as [_ E]. discriminate. Qed.

(* get_bipartition of the printed tree filters the clades of the tree *)
Lemma get_bipartition_print : forall t, proper t = true -> clean_tree t = true -> is_leaf t = false ->
  get_bipartition (print_node t) = Some (final_parts (leaves t) (clades t), leaves t).
Proof.
  intros t Hp Hc Hl. unfold get_bipartition.
  rewrite elements_of_print by assumption.
  rewrite srun_trun, toks_pieces by (apply proper_inhabited; exact Hp).
  rewrite <- (app_nil_r (ttoks t)). unfold s_init. rewrite trun_tree. cbn [trun app s_ind s_parts].
  destruct t as [n l|cs l]; [discriminate|].
  destruct (clades (Node cs l)) eqn:E; [exfalso; revert E; apply clades_node_nonempty|].
  rewrite <- E, clades_last. reflexivity.
Qed.

(* ---------- the filtering of the partition list, in canonical vectors ---------- *)

Lemma final_step_alt : forall L acc x, NoDup L -> incl x L ->
  final_step L acc x =
  if nontrivial (length L) x
  then (if set_mem x acc || set_mem (set_diff L x) acc then acc else acc ++ [x])
  else acc.
Proof.
  intros L acc x HL Hx. unfold final_step, nontrivial.
  assert (E := card_set_diff L x HL Hx).
  destruct (card (set_diff L x) =? 1) eqn:E1.
  - apply Nat.eqb_eq in E1. cbn [orb].
    replace (card x + 2 <=? length L) with false by (symmetry; apply Nat.leb_gt; lia).
    rewrite andb_false_r. reflexivity.
  - apply Nat.eqb_neq in E1. cbn [orb].
    destruct (card x =? 1) eqn:E2.
    + apply Nat.eqb_eq in E2. replace (2 <=? card x) with false by (symmetry; apply Nat.leb_gt; lia). reflexivity.
    + apply Nat.eqb_neq in E2.
      destruct (0 <? card x) eqn:E3; cbn [andb].
      * apply Nat.ltb_lt in E3.
        destruct (0 <? card (set_diff L x)) eqn:E4.
        -- apply Nat.ltb_lt in E4.
           replace (2 <=? card x) with true by (symmetry; apply Nat.leb_le; lia).
           replace (card x + 2 <=? length L) with true by (symmetry; apply Nat.leb_le; lia).
           cbn [andb]. destruct (set_mem x acc), (set_mem (set_diff L x) acc); reflexivity.
        -- apply Nat.ltb_ge in E4.
           replace (card x + 2 <=? length L) with false by (symmetry; apply Nat.leb_gt; lia).
           rewrite andb_false_r. reflexivity.
      * apply Nat.ltb_ge in E3. replace (2 <=? card x) with false by (symmetry; apply Nat.leb_gt; lia). reflexivity.
Qed.

Lemma set_diff_seteq : forall L R x, seteq R L -> seteq (set_diff L x) (set_diff R x).
Proof. intros L R x H a. rewrite !set_diff_In. rewrite (H a). tauto. Qed.

Lemma incl_seteq_r : forall x L R, seteq R L -> incl x L -> incl x R.
Proof. intros x L R H Hx a Ha. apply H. apply Hx. exact Ha. Qed.

(* membership of x, directly or as complement, = membership of its canonical vector *)
Lemma split_mem_canon : forall R L acc x, seteq R L -> incl x L -> Forall (fun p => incl p L) acc ->
  (set_mem x acc || set_mem (set_diff L x) acc = true <-> In (canon R x) (map (canon R) acc)).
Proof.
  intros R L acc x HRL Hx Hacc. rewrite orb_true_iff, !set_mem_iff, in_map_iff.
  rewrite Forall_forall in Hacc. split.
  - intros [[p [Hp E]]|[p [Hp E]]]; exists p; (split; [|exact Hp]); symmetry;
      apply canon_eq_iff; try (eapply incl_seteq_r; [exact HRL|auto]).
    + left. exact E.
    + right. eapply seteq_trans; [apply seteq_sym, set_diff_seteq; exact HRL|exact E].
  - intros [p [E Hp]]. symmetry in E.
    apply canon_eq_iff in E; try (eapply incl_seteq_r; [exact HRL|auto]).
    destruct E as [E|E]; [left|right]; exists p; split; auto.
    eapply seteq_trans; [apply set_diff_seteq; exact HRL|exact E].
Qed.

Lemma NoDup_app_single : forall (A : Type) (l : list A) x, NoDup l -> ~ In x l -> NoDup (l ++ [x]).
Proof.
  intros A. induction l as [|y l IH]; intros x Hl Hx; cbn [app].
  - constructor; [intros []|constructor].
  - inversion Hl as [|? ? Hy Hl']; subst. constructor.
    + rewrite in_app_iff. cbn [In]. intros [K|[K|[]]]; [exact (Hy K)|]. apply Hx. left. symmetry. exact K.
    + apply IH; [exact Hl'|]. intros K. apply Hx. right. exact K.
Qed.

Lemma final_parts_inv : forall R L parts acc done, NoDup L -> NoDup R -> seteq R L ->
  Forall (fun p => incl p L) parts ->
  Forall (fun p => incl p L) acc ->
  NoDup (map (canon R) acc) ->
  (forall v, In v (map (canon R) acc) <-> In v (map (canon R) (filter (nontrivial (length R)) done))) ->
  let res := fold_left (final_step L) parts acc in
  Forall (fun p => incl p L) res /\ NoDup (map (canon R) res) /\
  (forall v, In v (map (canon R) res) <-> In v (map (canon R) (filter (nontrivial (length R)) (done ++ parts)))).
Proof.
  intros R L parts acc done HL HR HRL. revert acc done.
  assert (Hlen : length R = length L).
  { apply Permutation_length. apply NoDup_Permutation; auto. }
  induction parts as [|x parts IH]; intros acc done Hparts Hacc Hnd Hin; cbn [fold_left].
  - rewrite app_nil_r. auto.
  - inversion Hparts as [|? ? Hx Hps]; subst.
    replace (done ++ x :: parts) with ((done ++ [x]) ++ parts) by (rewrite <- app_assoc; reflexivity).
    apply IH; [exact Hps| | |]; rewrite final_step_alt by assumption; rewrite <- Hlen;
      destruct (nontrivial (length R) x) eqn:Ent.
    + destruct (set_mem x acc || set_mem (set_diff L x) acc); [exact Hacc|].
      apply Forall_app. split; [exact Hacc|]. constructor; [exact Hx|constructor].
    + exact Hacc.
    + destruct (set_mem x acc || set_mem (set_diff L x) acc) eqn:Em; [exact Hnd|].
      rewrite map_app. cbn [map].
      apply NoDup_app_single; [exact Hnd|].
      intros K. apply (split_mem_canon R L acc x HRL Hx Hacc) in K. congruence.
    + exact Hnd.
    + intros v. rewrite filter_app, map_app, in_app_iff. cbn [filter]. rewrite Ent. cbn [map In].
      destruct (set_mem x acc || set_mem (set_diff L x) acc) eqn:Em.
      * rewrite Hin. split; [tauto|]. intros [K|[<-|[]]]; [exact K|].
        apply Hin. apply (split_mem_canon R L acc x HRL Hx Hacc). exact Em.
      * rewrite map_app, in_app_iff. cbn [map In]. rewrite Hin. tauto.
    + intros v. rewrite filter_app, map_app, in_app_iff. cbn [filter]. rewrite Ent. cbn [map In].
      rewrite Hin. tauto.
Qed.
