(* C15 - what the boolean checkers of TreeDistExec.v decide, and the proof that
   the check cannot raise a false alarm: on a case whose implementation fields
   equal the model's outputs every bit of td_case_code is 0. *)
From Coq Require Import Ascii String Bool Arith ZArith QArith Lia List Permutation.
From LV Require Import Common.Cases TreeDist.Newick TreeDist.Bipart TreeDist.RF TreeDist.Spec
  TreeDist.SetProofs TreeDist.NewickProofs TreeDist.TreeProofs TreeDist.ParseProofs TreeDist.RFProofs.
From LV Require Import TreeDist.TreeDistExec.
Import ListNotations.
Local Open Scope nat_scope.

Lemma wfb_spec : forall t, wfb t = true <-> wf_tree t.
Proof.
  intros t. unfold wfb, wf_tree. rewrite !andb_true_iff, Nat.leb_le. tauto.
Qed.

Lemma is0_spec : forall x, is0 x = true <-> exists q, x = Some q /\ (q == 0)%Q.
Proof.
  intros [q|]; unfold is0, oq_eqb, option_eqb, q_eqb; split.
  - intros H. exists q. split; [reflexivity|]. apply Qeq_bool_iff. exact H.
  - intros [q' [E H]]. inversion E; subst. apply Qeq_bool_iff. exact H.
  - discriminate.
  - intros [q' [E _]]. discriminate.
Qed.

Lemma in01_spec : forall q, in01 (Some q) = true <-> (0 <= q)%Q /\ (q <= 1)%Q.
Proof. intros q. unfold in01. rewrite andb_true_iff, !Qle_bool_iff. tauto. Qed.

Lemma oq_eqb_spec : forall x y, oq_eqb x y = true <->
  (x = None /\ y = None) \/ exists p q, x = Some p /\ y = Some q /\ (p == q)%Q.
Proof.
  intros [p|] [q|]; unfold oq_eqb, option_eqb, q_eqb; split; intros H.
  - right. exists p, q. repeat split. apply Qeq_bool_iff. exact H.
  - destruct H as [[H _]|[p' [q' [E1 [E2 H]]]]]; [discriminate|]. inversion E1; inversion E2; subst.
    apply Qeq_bool_iff. exact H.
  - discriminate.
  - destruct H as [[H _]|[p' [q' [_ [E2 _]]]]]; discriminate.
  - discriminate.
  - destruct H as [[_ H]|[p' [q' [E1 _]]]]; discriminate.
  - left. auto.
  - reflexivity.
Qed.

Lemma same_taxa_spec : forall a b, same_taxa a b = true <-> seteq (leaves a) (leaves b).
Proof. intros a b. apply set_eqb_iff. Qed.

(* the leaf sets / clade families compared by the round-trip checker *)
Lemma setsets_eqb_spec : forall a b, setsets_eqb a b = true <->
  (forall c, In c a -> exists d, In d b /\ seteq c d) /\ (forall d, In d b -> exists c, In c a /\ seteq d c).
Proof.
  intros a b. unfold setsets_eqb. rewrite andb_true_iff, !forallb_forall. split.
  - intros [H1 H2]. split; intros c Hc; apply set_mem_iff; auto.
  - intros [H1 H2]. split; intros c Hc; apply set_mem_iff; auto.
Qed.

(* ---------- reflexivity of the comparisons ---------- *)

Lemma list_eqb_refl : forall (A : Type) (e : A -> A -> bool) l, (forall x, In x l -> e x x = true) -> list_eqb e l l = true.
Proof.
  intros A e. induction l as [|x l IH]; intros H; [reflexivity|]. cbn [list_eqb].
  rewrite (H x) by (left; reflexivity). apply IH. intros y Hy. apply H. right. exact Hy.
Qed.

Lemma strs_eqb_refl : forall l, strs_eqb l l = true.
Proof. intros l. apply list_eqb_refl. intros x _. apply str_eqb_refl. Qed.

Lemma strss_eqb_refl : forall l, strss_eqb l l = true.
Proof. intros l. apply list_eqb_refl. intros x _. apply strs_eqb_refl. Qed.

Lemma set_eqb_refl : forall l, set_eqb l l = true.
Proof. intros l. apply set_eqb_iff. apply seteq_refl. Qed.

Lemma sets_eqb_refl : forall l, sets_eqb l l = true.
Proof. intros l. apply list_eqb_refl. intros x _. apply set_eqb_refl. Qed.

Lemma setsets_eqb_refl : forall l, setsets_eqb l l = true.
Proof.
  intros l. apply setsets_eqb_spec. split; intros c Hc; exists c; split; auto; apply seteq_refl.
Qed.

Lemma optstr_eqb_refl : forall l, optstr_eqb l l = true.
Proof. intros [x|]; [apply str_eqb_refl|reflexivity]. Qed.

Lemma tree_eqb_refl : forall t, tree_eqb t t = true.
Proof.
  induction t as [n l|cs l IH] using tree_ind'; cbn [tree_eqb].
  - rewrite str_eqb_refl, optstr_eqb_refl. reflexivity.
  - rewrite optstr_eqb_refl. cbn [andb]. induction cs as [|c cs IHc]; [reflexivity|].
    inversion IH as [|? ? Hc Hcs]; subst. rewrite Hc. cbn [andb]. apply IHc. exact Hcs.
Qed.

Lemma oq_eqb_refl : forall x, oq_eqb x x = true.
Proof. intros [q|]; [apply Qeq_bool_refl|reflexivity]. Qed.

Lemma dist_eqb_refl : forall m, dist_eqb m (option_map fst m) (option_map snd m) = true.
Proof. intros m. unfold dist_eqb. rewrite !oq_eqb_refl. reflexivity. Qed.

Lemma bip_eqb_refl : forall m, bip_eqb m m = true.
Proof. intros [[p l]|]; [|reflexivity]. cbn [bip_eqb]. rewrite sets_eqb_refl, set_eqb_refl. reflexivity. Qed.

(* ---------- no false alarm ---------- *)

Section NoFalseAlarm.
  Variables a b a' b' : tree.
  Hypothesis Wa : wf_tree a.
  Hypothesis Wb : wf_tree b.
  Let c := model_case a b a' b'.

  Lemma valid_pair_inv : valid_pair c = true -> seteq (leaves a) (leaves b).
  Proof.
    unfold valid_pair. cbn [c model_case tc_a tc_b]. rewrite !andb_true_iff. intros [_ H]. apply same_taxa_spec. exact H.
  Qed.

  Lemma guard_inv : guard c = true -> seteq (leaves a) (leaves b) /\ has_split a = true /\ has_split b = true.
  Proof.
    unfold guard. rewrite !andb_true_iff. intros [[H1 H2] H3]. split; [apply valid_pair_inv; exact H1|]. auto.
  Qed.

  Lemma reordered_inv : reordered c = true -> tperm a a' /\ tperm b b'.
  Proof.
    unfold reordered. cbn [c model_case tc_a tc_b tc_a' tc_b']. rewrite andb_true_iff.
    intros [H1 H2]. split; apply tree_permb_sound; assumption.
  Qed.

  Lemma chk0_model : chk0 c = true.
  Proof.
    unfold chk0. cbn [c model_case tc_a tc_b tc_a' tc_b' tc_srcA tc_srcB tc_strA tc_strB tc_taxaA tc_cladesA tc_taxaB
      tc_cladesB tc_str2A tc_taxa2A tc_clades2A tc_str2B tc_taxa2B tc_clades2B tc_bipA tc_bipB tc_ab tc_ba tc_aa tc_bb
      tc_pab fst snd].
    rewrite !(parse_print _ Wa), !(parse_print _ Wb). cbn [option_eqb].
    rewrite !tree_eqb_refl, !str_eqb_refl, !strs_eqb_refl, !strss_eqb_refl, !bip_eqb_refl, !dist_eqb_refl.
    cbn [andb].
    destruct (valid_pair c) eqn:V; [|reflexivity]. cbn [negb orb].
    change (option_map fst (grf_both (print a) (print b))) with (tree_grf a b).
    rewrite (tree_grf_spec a b Wa Wb (valid_pair_inv V)). apply oq_eqb_refl.
  Qed.

  Lemma self_is0 : forall t, wf_tree t -> has_split t = true ->
    is0 (option_map fst (grf_both (print t) (print t))) && is0 (option_map snd (grf_both (print t) (print t))) = true.
  Proof.
    intros t W H. destruct (self_distance_zero t W H) as [g [r [E [Hg Hr]]]]. rewrite E. cbn [option_map fst snd].
    apply andb_true_iff. split; apply is0_spec; eexists; split; try reflexivity; assumption.
  Qed.

  Lemma chk1_model : chk1 c = true.
  Proof.
    unfold chk1. cbn [c model_case tc_a tc_b tc_aa tc_bb fst snd].
    apply andb_true_iff. split.
    - destruct (wfb a && has_split a) eqn:G; [|reflexivity]. cbn [negb orb].
      apply andb_true_iff in G. apply self_is0; [exact Wa|tauto].
    - destruct (wfb b && has_split b) eqn:G; [|reflexivity]. cbn [negb orb].
      apply andb_true_iff in G. apply self_is0; [exact Wb|tauto].
  Qed.

  Lemma chk2_model : chk2 c = true.
  Proof.
    unfold chk2. destruct (guard c && reordered c) eqn:G; [|reflexivity]. cbn [negb orb].
    apply andb_true_iff in G. destruct G as [G P].
    destruct (guard_inv G) as [S [Ha Hb]]. destruct (reordered_inv P) as [Ta Tb].
    cbn [c model_case tc_ab tc_pab fst snd].
    rewrite (grf_both_perm_invariant a b a' b' Wa Wb S Ta Tb). rewrite !oq_eqb_refl. cbn [andb].
    destruct (grf_both (print a) (print b)) as [[g r]|] eqn:E; [reflexivity|].
    apply (distances_defined a b Wa Wb S) in E. congruence.
  Qed.

  Lemma in01_grf : forall x y, in01 (option_map fst (grf_both x y)) = true.
  Proof.
    intros x y. change (option_map fst (grf_both x y)) with (grf x y).
    destruct (grf x y) as [g|] eqn:E; [|reflexivity]. apply in01_spec. apply (grf_range_any x y g E).
  Qed.

  Lemma in01_rf : forall x y, wf_tree x -> wf_tree y -> seteq (leaves x) (leaves y) ->
    in01 (option_map snd (grf_both (print x) (print y))) = true.
  Proof.
    intros x y Wx Wy S. destruct (grf_both (print x) (print y)) as [[g r]|] eqn:E; [|reflexivity].
    cbn [option_map snd]. apply in01_spec. apply (distances_range x y g r Wx Wy S E).
  Qed.

  Lemma chk3_model : chk3 c = true.
  Proof.
    unfold chk3. cbn [c model_case tc_ab tc_ba tc_pab fst snd]. rewrite !in01_grf. cbn [andb].
    destruct (valid_pair c) eqn:V; [|reflexivity]. cbn [negb orb].
    assert (S := valid_pair_inv V).
    rewrite (in01_rf a b Wa Wb S), (in01_rf b a Wb Wa (seteq_sym _ _ S)). cbn [andb].
    destruct (reordered c) eqn:P; [|reflexivity]. cbn [negb orb].
    destruct (reordered_inv P) as [Ta Tb].
    apply in01_rf; [apply (tperm_wf a a' Ta Wa)|apply (tperm_wf b b' Tb Wb)|].
    destruct (tperm_leaves_clades a a' Ta) as [Pa _]. destruct (tperm_leaves_clades b b' Tb) as [Pb _].
    eapply seteq_trans; [apply seteq_sym, Permutation_seteq; exact Pa|].
    eapply seteq_trans; [exact S|apply Permutation_seteq; exact Pb].
  Qed.

  Lemma chk4_model : chk4 c = true.
  Proof.
    unfold chk4. destruct (guard c) eqn:G; [|reflexivity]. cbn [negb orb].
    destruct (guard_inv G) as [S [Ha Hb]]. cbn [c model_case tc_ab tc_ba snd].
    change (option_map snd (grf_both (print a) (print b))) with (tree_rf a b).
    change (option_map snd (grf_both (print b) (print a))) with (tree_rf b a).
    rewrite (rf_symmetric a b Wa Wb S Ha Hb). apply oq_eqb_refl.
  Qed.

  Lemma chk5_model : chk5 c = true.
  Proof.
    unfold chk5. destruct (guard c) eqn:G; [|reflexivity]. cbn [negb orb].
    destruct (guard_inv G) as [S _]. cbn [c model_case tc_ab tc_a tc_b snd].
    change (option_map snd (grf_both (print a) (print b))) with (tree_rf a b).
    rewrite (tree_rf_spec a b Wa Wb S). apply oq_eqb_refl.
  Qed.

  Lemma chk6_model : chk6 c = true.
  Proof.
    unfold chk6. cbn [c model_case tc_a tc_b tc_taxaA tc_taxa2A tc_cladesA tc_clades2A tc_taxaB tc_taxa2B tc_cladesB
                        tc_clades2B].
    rewrite !set_eqb_refl, !setsets_eqb_refl. cbn [andb]. rewrite !orb_true_r. reflexivity.
  Qed.

  (* if lingpy returns what the model computes, the check is silent *)
  Theorem no_false_alarm : td_case_code c = 0.
  Proof.
    unfold td_case_code.
    rewrite chk0_model, chk1_model, chk2_model, chk3_model, chk4_model, chk5_model, chk6_model. reflexivity.
  Qed.
End NoFalseAlarm.
