(* C15 - what the boolean checkers of TreeDistExec.v decide. *)
From Coq Require Import Ascii String Bool Arith ZArith QArith Lia List Permutation.
From LV Require Import Common.Cases TreeDist.Newick TreeDist.Bipart TreeDist.RF TreeDist.Spec
  TreeDist.SetProofs TreeDist.TreeProofs TreeDist.TreeDistExec.
Import ListNotations.
Local Open Scope nat_scope.

Lemma wfb_spec : forall t, wfb t = true <-> wf_tree t.
Proof.
  intros t. unfold wfb, wf_tree. rewrite !andb_true_iff, Nat.leb_le. tauto.
Qed.

Lemma is0_spec : forall x, is0 x = true <-> exists q, x = Some q /\ (q == 0)%Q.
Proof.
  intros [q|]; unfold is0, oq_eqb, option_eqb, q_eqb; split.
  - intros H. exists q. split; [reflexivity|]. apply Qeq_bool_iff. exact H.
  - intros [q' [E H]]. inversion E; subst. apply Qeq_bool_iff. exact H.
  - discriminate.
  - intros [q' [E _]]. discriminate.
Qed.

Lemma in01_spec : forall q, in01 (Some q) = true <-> (0 <= q)%Q /\ (q <= 1)%Q.
Proof. intros q. unfold in01. rewrite andb_true_iff, !Qle_bool_iff. tauto. Qed.

Lemma oq_eqb_spec : forall x y, oq_eqb x y = true <->
  (x = None /\ y = None) \/ exists p q, x = Some p /\ y = Some q /\ (p == q)%Q.
Proof.
  intros [p|] [q|]; unfold oq_eqb, option_eqb, q_eqb; split; intros H.
  - right. exists p, q. repeat split. apply Qeq_bool_iff. exact H.
  - destruct H as [[H _]|[p' [q' [E1 [E2 H]]]]]; [discriminate|]. inversion E1; inversion E2; subst.
    apply Qeq_bool_iff. exact H.
  - discriminate.
  - destruct H as [[H _]|[p' [q' [_ [E2 _]]]]]; discriminate.
  - discriminate.
  - destruct H as [[_ H]|[p' [q' [E1 _]]]]; discriminate.
  - left. auto.
  - reflexivity.
Qed.

Lemma same_taxa_spec : forall a b, same_taxa a b = true <-> seteq (leaves a) (leaves b).
Proof. intros a b. apply set_eqb_iff. Qed.

(* the leaf sets / clade families compared by the round-trip checker *)
Lemma setsets_eqb_spec : forall a b, setsets_eqb a b = true <->
  (forall c, In c a -> exists d, In d b /\ seteq c d) /\ (forall d, In d b -> exists c, In c a /\ seteq d c).
Proof.
  intros a b. unfold setsets_eqb. rewrite andb_true_iff, !forallb_forall. split.
  - intros [H1 H2]. split; intros c Hc; apply set_mem_iff; auto.
  - intros [H1 H2]. split; intros c Hc; apply set_mem_iff; auto.
Qed.
