(* C15 - lemmas on name lists used as sets, on canonical bipartition vectors and
   on counting modulo permutation. *)
From Coq Require Import Ascii String Bool Arith Lia List Permutation.
From LV Require Import Common.Cases TreeDist.Newick TreeDist.Bipart TreeDist.RF TreeDist.Spec.
Import ListNotations.
Local Open Scope nat_scope.

(* ---------- equality tests ---------- *)

Lemma ascii_eqb_iff : forall a b, Ascii.eqb a b = true <-> a = b.
Proof. intros a b. apply Ascii.eqb_eq. Qed.

Lemma str_eqb_iff : forall a b, str_eqb a b = true <-> a = b.
Proof. apply list_eqb_spec. apply ascii_eqb_iff. Qed.

Lemma str_eqb_refl : forall a, str_eqb a a = true.
Proof. intros a. apply str_eqb_iff. reflexivity. Qed.

Lemma mem_In : forall a l, mem a l = true <-> In a l.
Proof.
  intros a l. unfold mem. rewrite existsb_exists. split.
  - intros [x [Hx E]]. apply str_eqb_iff in E. subst. exact Hx.
  - intros H. exists a. split; [exact H|apply str_eqb_refl].
Qed.

Lemma mem_false : forall a l, mem a l = false <-> ~ In a l.
Proof.
  intros a l. rewrite <- mem_In. destruct (mem a l); split; intros H; try reflexivity; try discriminate;
    try (exfalso; apply H; reflexivity).
Qed.

(* ---------- sets as lists ---------- *)

Definition seteq (a b : list str) : Prop := forall x, In x a <-> In x b.

Lemma seteq_refl : forall a, seteq a a.
Proof. intros a x. tauto. Qed.
Lemma seteq_sym : forall a b, seteq a b -> seteq b a.
Proof. intros a b H x. symmetry. apply H. Qed.
Lemma seteq_trans : forall a b c, seteq a b -> seteq b c -> seteq a c.
Proof. intros a b c H1 H2 x. rewrite (H1 x). apply H2. Qed.

Lemma Permutation_seteq : forall a b, Permutation a b -> seteq a b.
Proof. intros a b P x. split; apply Permutation_in; [exact P|apply Permutation_sym; exact P]. Qed.

Lemma subset_incl : forall a b, subset a b = true <-> incl a b.
Proof.
  intros a b. unfold subset. rewrite forallb_forall. unfold incl. split.
  - intros H x Hx. apply mem_In. apply H. exact Hx.
  - intros H x Hx. apply mem_In. apply H. exact Hx.
Qed.

Lemma set_eqb_iff : forall a b, set_eqb a b = true <-> seteq a b.
Proof.
  intros a b. unfold set_eqb. rewrite andb_true_iff, !subset_incl. unfold incl, seteq. split.
  - intros [H1 H2] x. split; auto.
  - intros H. split; intros x; apply H.
Qed.

Lemma set_diff_In : forall a b x, In x (set_diff a b) <-> In x a /\ ~ In x b.
Proof.
  intros a b x. unfold set_diff. rewrite filter_In, negb_true_iff, mem_false. tauto.
Qed.

Lemma set_mem_iff : forall x l, set_mem x l = true <-> exists p, In p l /\ seteq x p.
Proof.
  intros x l. unfold set_mem. rewrite existsb_exists. split; intros [p [Hp E]]; exists p; split; auto;
  apply set_eqb_iff; exact E.
Qed.

Lemma dedup_In : forall l x, In x (dedup l) <-> In x l.
Proof.
  induction l as [|a tl IH]; intros x; cbn [dedup]; [tauto|].
  destruct (mem a tl) eqn:E.
  - rewrite IH. cbn [In]. split; [tauto|]. intros [<-|H]; [apply mem_In; exact E|exact H].
  - cbn [In]. rewrite IH. tauto.
Qed.

Lemma dedup_NoDup : forall l, NoDup (dedup l).
Proof.
  induction l as [|a tl IH]; cbn [dedup]; [constructor|].
  destruct (mem a tl) eqn:E; [exact IH|].
  constructor; [|exact IH]. rewrite dedup_In. apply mem_false. exact E.
Qed.

Lemma dedup_id : forall l, NoDup l -> dedup l = l.
Proof.
  induction l as [|a tl IH]; intros H; cbn [dedup]; [reflexivity|].
  inversion H as [|? ? Hn Ht]; subst.
  apply mem_false in Hn. rewrite Hn. f_equal. apply IH. exact Ht.
Qed.

Lemma card_NoDup : forall l, NoDup l -> card l = length l.
Proof. intros l H. unfold card. rewrite dedup_id; auto. Qed.

Lemma card_seteq : forall a b, seteq a b -> card a = card b.
Proof.
  intros a b H. unfold card. apply Permutation_length.
  apply NoDup_Permutation; try apply dedup_NoDup.
  intros x. rewrite !dedup_In. apply H.
Qed.

(* a NoDup list included in another is not longer *)
Lemma card_incl_le : forall a b, incl a b -> card a <= card b.
Proof.
  intros a b H. unfold card. apply NoDup_incl_length; [apply dedup_NoDup|].
  intros x. rewrite !dedup_In. apply H.
Qed.

Lemma filter_length_split : forall (A : Type) (f : A -> bool) (l : list A),
  length (filter f l) + length (filter (fun x => negb (f x)) l) = length l.
Proof.
  intros A f. induction l as [|x tl IH]; cbn [filter length]; [reflexivity|].
  destruct (f x); cbn [negb length]; lia.
Qed.

(* complement inside a duplicate-free universe *)
Lemma card_set_diff : forall L x, NoDup L -> incl x L -> card (set_diff L x) + card x = length L.
Proof.
  intros L x HL Hx.
  assert (E : card x = length (filter (fun r => mem r x) L)).
  { unfold card. apply Permutation_length. apply NoDup_Permutation.
    - apply dedup_NoDup.
    - apply NoDup_filter. exact HL.
    - intros r. rewrite dedup_In, filter_In, mem_In. split; [intros H; split; auto|tauto]. }
  rewrite E. rewrite card_NoDup by (unfold set_diff; apply NoDup_filter; exact HL).
  unfold set_diff. rewrite Nat.add_comm. apply (filter_length_split str (fun r => mem r x) L).
Qed.

(* ---------- boolean vectors ---------- *)

Lemma bvec_eqb_iff : forall u v, bvec_eqb u v = true <-> u = v.
Proof. apply list_eqb_spec. intros x y. destruct x, y; cbn; split; congruence. Qed.

Lemma vmem_In : forall v l, vmem v l = true <-> In v l.
Proof.
  intros v l. unfold vmem. rewrite existsb_exists. split.
  - intros [x [Hx E]]. apply bvec_eqb_iff in E. subst. exact Hx.
  - intros H. exists v. split; [exact H|apply bvec_eqb_iff; reflexivity].
Qed.

Lemma vmem_false : forall v l, vmem v l = false <-> ~ In v l.
Proof.
  intros v l. rewrite <- vmem_In. destruct (vmem v l); split; intros H; try reflexivity; try discriminate;
    try (exfalso; apply H; reflexivity).
Qed.

Lemma vdedup_In : forall l x, In x (vdedup l) <-> In x l.
Proof.
  induction l as [|a tl IH]; intros x; cbn [vdedup]; [tauto|].
  destruct (vmem a tl) eqn:E.
  - rewrite IH. cbn [In]. split; [tauto|]. intros [<-|H]; [apply vmem_In; exact E|exact H].
  - cbn [In]. rewrite IH. tauto.
Qed.

Lemma vdedup_NoDup : forall l, NoDup (vdedup l).
Proof.
  induction l as [|a tl IH]; cbn [vdedup]; [constructor|].
  destruct (vmem a tl) eqn:E; [exact IH|].
  constructor; [|exact IH]. rewrite vdedup_In. apply vmem_false. exact E.
Qed.

Lemma vneg_invol : forall v, vneg (vneg v) = v.
Proof.
  induction v as [|b v IH]; cbn [vneg map]; [reflexivity|].
  rewrite negb_involutive. f_equal. exact IH.
Qed.

Definition vcanon (v : bvec) : bvec := match v with true :: _ => vneg v | _ => v end.

Lemma canon_vcanon : forall R c, canon R c = vcanon (cvec R c).
Proof. intros R c. unfold canon, vcanon. destruct (cvec R c) as [|[|] t]; reflexivity. Qed.

Lemma vcanon_cases : forall v, vcanon v = v \/ vcanon v = vneg v.
Proof. intros [|[|] t]; cbn; auto. Qed.

Lemma vneg_inj : forall a b, vneg a = vneg b -> a = b.
Proof. intros a b E. rewrite <- (vneg_invol a), <- (vneg_invol b). f_equal. exact E. Qed.

Lemma vneg_cons : forall b v, vneg (b :: v) = negb b :: vneg v.
Proof. reflexivity. Qed.

Lemma vcanon_eq_iff : forall u v, vcanon u = vcanon v <-> (u = v \/ u = vneg v).
Proof.
  intros u v. split.
  - destruct u as [|[|] u'], v as [|[|] v']; cbn [vcanon]; rewrite ?vneg_cons; cbn [negb]; intros E;
      try discriminate.
    + left. reflexivity.
    + left. inversion E as [E']. apply vneg_inj in E'. subst. reflexivity.
    + right. inversion E as [E']. rewrite vneg_invol. reflexivity.
    + right. inversion E as [E']. reflexivity.
    + left. exact E.
  - intros [->| ->]; [reflexivity|].
    destruct v as [|[|] v']; cbn [vcanon]; rewrite ?vneg_cons; cbn [negb vcanon]; rewrite ?vneg_cons; cbn [negb];
      rewrite ?vneg_invol; reflexivity.
Qed.

Lemma cvec_ext : forall R x y, (forall r, In r R -> (In r x <-> In r y)) -> cvec R x = cvec R y.
Proof.
  intros R x y H. unfold cvec. apply map_ext_in. intros r Hr.
  destruct (mem r x) eqn:E1, (mem r y) eqn:E2; try reflexivity.
  - apply mem_In in E1. apply H in E1; [|exact Hr]. apply mem_In in E1. congruence.
  - apply mem_In in E2. apply H in E2; [|exact Hr]. apply mem_In in E2. congruence.
Qed.

Lemma cvec_inj : forall R x y, incl x R -> incl y R -> cvec R x = cvec R y -> seteq x y.
Proof.
  intros R x y Hx Hy E a.
  assert (K : forall r, In r R -> mem r x = mem r y).
  { intros r Hr. unfold cvec in E.
    apply (f_equal (fun l => nth_error l)) in E.
    apply In_nth_error in Hr. destruct Hr as [n Hn].
    assert (E' := f_equal (fun f => f n) E). cbn in E'.
    rewrite !nth_error_map, Hn in E'. cbn in E'. congruence. }
  split; intros H.
  - apply mem_In. rewrite <- K by (apply Hx; exact H). apply mem_In. exact H.
  - apply mem_In. rewrite K by (apply Hy; exact H). apply mem_In. exact H.
Qed.

(* complement: for a universe lB that contains R *)
Lemma cvec_diff : forall R L x, incl R L -> cvec R (set_diff L x) = vneg (cvec R x).
Proof.
  intros R L x H. unfold cvec, vneg. rewrite map_map. apply map_ext_in. intros r Hr.
  destruct (mem r (set_diff L x)) eqn:E1.
  - apply mem_In, set_diff_In in E1. destruct E1 as [_ N]. apply mem_false in N. rewrite N. reflexivity.
  - apply mem_false in E1. rewrite set_diff_In in E1.
    destruct (mem r x) eqn:E2; [reflexivity|]. exfalso. apply E1. split; [apply H; exact Hr|apply mem_false; exact E2].
Qed.

Definition splitsame (R x y : list str) : Prop := seteq x y \/ seteq (set_diff R x) y.

Lemma canon_eq_iff : forall R x y, incl x R -> incl y R ->
  (canon R x = canon R y <-> splitsame R x y).
Proof.
  intros R x y Hx Hy. rewrite !canon_vcanon, vcanon_eq_iff. unfold splitsame.
  assert (HD : incl (set_diff R x) R) by (intros a Ha; apply set_diff_In in Ha; tauto).
  split.
  - intros [E|E].
    + left. apply (cvec_inj R); assumption.
    + right. apply (cvec_inj R); [exact HD|exact Hy|].
      rewrite (cvec_diff R R x) by apply incl_refl. rewrite E. apply vneg_invol.
  - intros [E|E].
    + left. apply cvec_ext. intros r _. apply E.
    + right. rewrite <- (vneg_invol (cvec R x)). f_equal.
      rewrite <- (cvec_diff R R x) by apply incl_refl. apply cvec_ext. intros r _. apply E.
Qed.

Lemma canon_seteq : forall R x y, seteq x y -> canon R x = canon R y.
Proof.
  intros R x y E. rewrite !canon_vcanon. f_equal. apply cvec_ext. intros r _. apply E.
Qed.

(* ---------- vle / vcompat ---------- *)

Lemma vle_cvec : forall R x y, incl x y -> vle (cvec R x) (cvec R y) = true.
Proof.
  intros R x y H. induction R as [|r R IH]; cbn [cvec map vle]; [reflexivity|].
  fold (cvec R x). fold (cvec R y). rewrite IH, andb_true_r.
  destruct (mem r x) eqn:E; [|reflexivity]. cbn. apply mem_In. apply H. apply mem_In. exact E.
Qed.

Lemma vle_cvec_inv : forall R x y, incl x R -> vle (cvec R x) (cvec R y) = true -> incl x y.
Proof.
  intros R x y Hx H a Ha. specialize (Hx a Ha).
  induction R as [|r R IH]; [destruct Hx|].
  cbn [cvec map vle] in H. apply andb_true_iff in H. destruct H as [H1 H2].
  destruct Hx as [->|Hx].
  - apply mem_In in Ha. rewrite Ha in H1. cbn in H1. apply mem_In. exact H1.
  - apply IH; assumption.
Qed.

Lemma vle_length_ext : forall u v u' v', u = u' -> v = v' -> vle u v = vle u' v'.
Proof. intros; subst; reflexivity. Qed.

Lemma vcompat_neg_l : forall u v, vcompat (vneg u) v = vcompat u v.
Proof.
  intros u v. unfold vcompat. rewrite vneg_invol.
  destruct (vle u v), (vle (vneg u) v), (vle u (vneg v)), (vle (vneg u) (vneg v)); reflexivity.
Qed.

Lemma vcompat_neg_r : forall u v, vcompat u (vneg v) = vcompat u v.
Proof.
  intros u v. unfold vcompat. rewrite vneg_invol.
  destruct (vle u v), (vle (vneg u) v), (vle u (vneg v)), (vle (vneg u) (vneg v)); reflexivity.
Qed.

Lemma vcompat_vcanon : forall u v, vcompat (vcanon u) (vcanon v) = vcompat u v.
Proof.
  intros u v.
  destruct (vcanon_cases u) as [-> | ->], (vcanon_cases v) as [-> | ->];
    rewrite ?vcompat_neg_l, ?vcompat_neg_r; reflexivity.
Qed.

(* the four subset tests of the Python loop, on vectors *)
Lemma compat_vcompat : forall R lA lB u e, incl R lA -> incl R lB -> incl u R -> incl e R ->
  incl lA R -> incl lB R ->
  compat lA lB u e = vcompat (canon R u) (canon R e).
Proof.
  intros R lA lB u e HA HB Hu He HA' HB'.
  rewrite !canon_vcanon, vcompat_vcanon. unfold compat, vcompat.
  rewrite <- (cvec_diff R lA u HA), <- (cvec_diff R lB e HB).
  assert (D1 : incl (set_diff lA u) R) by (intros a Ha; apply set_diff_In in Ha; apply HA'; tauto).
  assert (K : forall x y, incl x R -> subset x y = vle (cvec R x) (cvec R y)).
  { intros x y Hx. destruct (subset x y) eqn:E.
    - symmetry. apply vle_cvec. apply subset_incl. exact E.
    - destruct (vle (cvec R x) (cvec R y)) eqn:E2; [|reflexivity].
      apply vle_cvec_inv in E2; [|exact Hx]. apply subset_incl in E2. congruence. }
  rewrite !K by assumption. reflexivity.
Qed.

(* ---------- counting modulo permutation ---------- *)

Lemma filter_ext_in_length : forall (A : Type) (f g : A -> bool) (l : list A),
  (forall x, In x l -> f x = g x) -> length (filter f l) = length (filter g l).
Proof.
  intros A f g l H. rewrite (filter_ext_in f g l H). reflexivity.
Qed.

Lemma filter_map_length : forall (A B : Type) (h : A -> B) (f : A -> bool) (g : B -> bool) (l : list A),
  (forall x, In x l -> f x = g (h x)) -> length (filter f l) = length (filter g (map h l)).
Proof.
  intros A B h f g. induction l as [|x tl IH]; intros H; cbn [filter map]; [reflexivity|].
  rewrite <- (H x) by (left; reflexivity).
  destruct (f x); cbn [length]; rewrite IH; auto; intros y Hy; apply H; right; exact Hy.
Qed.

Lemma Permutation_filter : forall (A : Type) (f : A -> bool) (l l' : list A),
  Permutation l l' -> Permutation (filter f l) (filter f l').
Proof.
  intros A f l l' P. induction P as [|x l l' P IH|x y l|l l' l'' P1 IH1 P2 IH2]; cbn [filter].
  - constructor.
  - destruct (f x); [constructor|]; exact IH.
  - destruct (f x), (f y); try apply Permutation_refl. apply perm_swap.
  - eapply Permutation_trans; eassumption.
Qed.

Lemma vinter_comm_length : forall a b, NoDup a -> NoDup b -> length (vinter a b) = length (vinter b a).
Proof.
  intros a b Ha Hb. apply Permutation_length. apply NoDup_Permutation.
  - apply NoDup_filter. exact Ha.
  - apply NoDup_filter. exact Hb.
  - intros x. unfold vinter. rewrite !filter_In, !vmem_In. tauto.
Qed.

Lemma vdiff_length : forall a b, length (vdiff a b) + length (vinter a b) = length a.
Proof.
  intros a b. unfold vdiff, vinter. rewrite Nat.add_comm. apply (filter_length_split bvec (fun v => vmem v b) a).
Qed.

Lemma vinter_le_r : forall a b, NoDup a -> length (vinter a b) <= length b.
Proof.
  intros a b Ha. apply NoDup_incl_length.
  - apply NoDup_filter. exact Ha.
  - intros x Hx. unfold vinter in Hx. apply filter_In in Hx. apply vmem_In. tauto.
Qed.

Lemma vmem_perm : forall v a a', Permutation a a' -> vmem v a = vmem v a'.
Proof.
  intros v a a' P. destruct (vmem v a) eqn:E.
  - symmetry. apply vmem_In. apply vmem_In in E. eapply Permutation_in; eassumption.
  - symmetry. apply vmem_false. apply vmem_false in E. intros H. apply E.
    eapply Permutation_in; [apply Permutation_sym; exact P|exact H].
Qed.

Lemma forallb_perm : forall (A : Type) (f : A -> bool) l l', Permutation l l' -> forallb f l = forallb f l'.
Proof.
  intros A f l l' P. induction P as [|x l l' P IH|x y l|l l' l'' P1 IH1 P2 IH2]; cbn [forallb].
  - reflexivity.
  - rewrite IH. reflexivity.
  - destruct (f x), (f y); reflexivity.
  - congruence.
Qed.

Lemma rf_of_perm : forall a a' b b', Permutation a a' -> Permutation b b' -> rf_of a b = rf_of a' b'.
Proof.
  intros a a' b b' Pa Pb. unfold rf_of.
  rewrite (Permutation_length Pa), (Permutation_length Pb).
  assert (E1 : length (vdiff a b) = length (vdiff a' b')).
  { unfold vdiff. rewrite (filter_ext (fun v => negb (vmem v b)) (fun v => negb (vmem v b'))).
    - apply Permutation_length. apply Permutation_filter. exact Pa.
    - intros v. rewrite (vmem_perm v b b' Pb). reflexivity. }
  assert (E2 : length (vdiff b a) = length (vdiff b' a')).
  { unfold vdiff. rewrite (filter_ext (fun v => negb (vmem v a)) (fun v => negb (vmem v a'))).
    - apply Permutation_length. apply Permutation_filter. exact Pb.
    - intros v. rewrite (vmem_perm v a a' Pa). reflexivity. }
  rewrite E1, E2. reflexivity.
Qed.

Lemma grf_of_perm : forall a a' b b', Permutation a a' -> Permutation b b' -> grf_of a b = grf_of a' b'.
Proof.
  intros a a' b b' Pa Pb. unfold grf_of.
  rewrite (Permutation_length Pa).
  assert (E : length (filter (fun u => negb (match b with [] => true | _ => false end) && forallb (vcompat u) b) a)
            = length (filter (fun u => negb (match b' with [] => true | _ => false end) && forallb (vcompat u) b') a')).
  { rewrite (filter_ext (fun u => negb (match b with [] => true | _ => false end) && forallb (vcompat u) b)
                        (fun u => negb (match b' with [] => true | _ => false end) && forallb (vcompat u) b')).
    - apply Permutation_length. apply Permutation_filter. exact Pa.
    - intros u. rewrite (forallb_perm _ (vcompat u) b b' Pb). f_equal.
      destruct b, b'; try reflexivity.
      + apply Permutation_nil in Pb. discriminate.
      + apply Permutation_sym, Permutation_nil in Pb. discriminate. }
  rewrite E. reflexivity.
Qed.
