(* C03: alignments as lists of moves, and their score under position-dependent
   column costs.  A move is coded like a column type: 1 match, 3 gap in A
   (consumes a symbol of B), 2 gap in B (consumes a symbol of A). *)
From Coq Require Import QArith ZArith List Bool Arith.
From LV Require Import Align.DP Align.Calign Align.LibScore.
Import ListNotations.
Local Open Scope Q_scope.

Inductive move := MM | MA | MB.       (* match, gap in A, gap in B *)

Definition mcode (m : move) : Z := match m with MM => 1 | MA => 3 | MB => 2 end.
Definition cntA (ms : list move) : nat := length (filter (fun m => match m with MA => false | _ => true end) ms).
Definition cntB (ms : list move) : nat := length (filter (fun m => match m with MB => false | _ => true end) ms).

(* the moves of an alignment given as two gapped rows; None for a malformed one *)
Fixpoint moves_of (a b : list (option Z)) : option (list move) :=
  match a, b with
  | [], [] => Some []
  | None :: ta, Some _ :: tb => option_map (cons MA) (moves_of ta tb)
  | Some _ :: ta, Some _ :: tb => option_map (cons MM) (moves_of ta tb)
  | Some _ :: ta, None :: tb => option_map (cons MB) (moves_of ta tb)
  | _, _ => None
  end.

Section Moves.
  Variable p : cin.
  Variable md : mode.
  Variable sec : bool.

  (* the library's score of a move list started at position (i, j) after a column of type prev *)
  Fixpoint sc_moves (i j : nat) (prev : Z) (ms : list move) : Q :=
    match ms with
    | [] => 0
    | MA :: t => costA p md sec true (S i) j prev + sc_moves (S i) j 3 t
    | MM :: t => mcost p md sec (S i) (S j) + sc_moves (S i) (S j) 1 t
    | MB :: t => costB p md sec true i (S j) prev + sc_moves i (S j) 2 t
    end.
End Moves.

(* a generic position-dependent scheme *)
Section Generic.
  Variable cA cB cM : nat -> nat -> Q.
  Fixpoint scoreP (i j : nat) (ms : list move) : Q :=
    match ms with
    | [] => 0
    | MA :: t => cA (S i) j + scoreP (S i) j t
    | MM :: t => cM (S i) (S j) + scoreP (S i) (S j) t
    | MB :: t => cB i (S j) + scoreP i (S j) t
    end.
End Generic.

(* edit scripts for edit_dist: MM = keep or substitute *)
Section Edit.
  Variable A B : list Z.
  Local Open Scope Z_scope.
  (* cost of the column that pairs A[j] with B[i] (0-based): 0 for equal symbols, 1 for a substitution *)
  Definition sub_cost (i j : nat) : Z := if nthZ A j =? nthZ B i then 0 else 1.
  Fixpoint edit_cost (i j : nat) (ms : list move) : Z :=
    match ms with
    | [] => 0
    | MA :: t => 1 + edit_cost (S i) j t
    | MB :: t => 1 + edit_cost i (S j) t
    | MM :: t => sub_cost i j + edit_cost (S i) (S j) t
    end.
End Edit.
