(* C01 for the eight functions of _calign and the four of _talign: for every
   non-empty input and every setting, the value returned by [align] is a valid
   alignment (global / overlap / dialign) or a valid prefix/aligned/suffix split
   (local).  Only the boundary of the traceback matrix matters. *)
From Coq Require Import QArith ZArith List Bool Arith Lia.
From LV Require Import Align.DP Align.DPProofs Align.Calign.
Import ListNotations.
Local Open Scope nat_scope.

Section Valid.
  Variable p : cin.
  Variable md : mode.
  Variable sec : bool.

  Lemma mget_row0 j : j <= lenA p -> mget p md sec 0 j = row0 p md sec j.
  Proof.
    intros Hj. unfold mget, matrix. destruct md.
    1-3: rewrite fill_spec by lia; reflexivity.
    apply fillD_row0. exact Hj.
  Qed.

  Lemma mget_col0 i : 0 < i -> i <= lenB p -> mget p md sec i 0 = col0 p md sec i.
  Proof.
    intros Hi Hi'. unfold mget, matrix. destruct md.
    1-3: rewrite fill_spec by lia; destruct i; [lia|reflexivity].
    apply fillD_boundary; assumption.
  Qed.

  Lemma tbf_row0_nonlocal j : md <> Local -> 0 < j -> j <= lenA p -> tbf p md sec 0 j = 2%Z.
  Proof.
    intros Hm Hj Hj'. unfold tbf. rewrite mget_row0 by exact Hj'. unfold row0.
    destruct md; try congruence; destruct j; try lia; reflexivity.
  Qed.

  Lemma tbf_col0_nonlocal i : md <> Local -> 0 < i -> i <= lenB p -> tbf p md sec i 0 = 3%Z.
  Proof.
    intros Hm Hi Hi'. unfold tbf. rewrite mget_col0 by assumption. unfold col0.
    destruct md; try congruence; reflexivity.
  Qed.

  Lemma tbf_row0_local j : md = Local -> j <= lenA p -> tbf p md sec 0 j = 0%Z.
  Proof.
    intros Hm Hj. unfold tbf. rewrite mget_row0 by exact Hj. unfold row0. rewrite Hm. reflexivity.
  Qed.

  Lemma tbf_col0_local i : md = Local -> i <= lenB p -> tbf p md sec i 0 = 0%Z.
  Proof.
    intros Hm Hi. destruct i as [|i].
    - apply tbf_row0_local; [exact Hm|lia].
    - unfold tbf. rewrite mget_col0 by lia. unfold col0. rewrite Hm. reflexivity.
  Qed.

  (* the start cell of the local traceback lies inside the matrix *)
  Lemma local_best_bounds :
    let '(k, l, _) := local_best p md sec in k <= lenB p /\ l <= lenA p.
  Proof.
    unfold local_best.
    set (inner := fun (acc : nat * nat * Q) (i : nat) =>
      fold_left (fun acc j => let v := fst (mget p md sec i j) in
                              if qge v (snd acc) then (i, j, v) else acc) (seq 1 (lenA p)) acc).
    assert (Hin : forall i l acc, i <= lenB p -> (forall j, In j l -> j <= lenA p) ->
              (let '(k, l', _) := acc in k <= lenB p /\ l' <= lenA p) ->
              let '(k, l', _) := fold_left (fun acc j => let v := fst (mget p md sec i j) in
                              if qge v (snd acc) then (i, j, v) else acc) l acc in
              k <= lenB p /\ l' <= lenA p).
    { intros i l. induction l as [|j l IH]; intros acc Hi Hl Hacc; cbn [fold_left]; [exact Hacc|].
      apply IH; [exact Hi|intros j' Hj'; apply Hl; right; exact Hj'|].
      cbn zeta. destruct (qge _ _); [|exact Hacc]. split; [exact Hi|apply Hl; left; reflexivity]. }
    assert (Hout : forall l acc, (forall i, In i l -> i <= lenB p) ->
              (let '(k, l', _) := acc in k <= lenB p /\ l' <= lenA p) ->
              let '(k, l', _) := fold_left inner l acc in k <= lenB p /\ l' <= lenA p).
    { induction l as [|i l IH]; intros acc Hl Hacc; cbn [fold_left]; [exact Hacc|].
      apply IH; [intros i' Hi'; apply Hl; right; exact Hi'|].
      unfold inner. apply Hin; [apply Hl; left; reflexivity| |exact Hacc].
      intros j Hj. apply in_seq in Hj. lia. }
    apply Hout; [|lia].
    intros i Hi. apply in_seq in Hi. lia.
  Qed.

  Theorem align_valid :
    seqA p <> [] -> seqB p <> [] ->
    match align p md sec with
    | RGlobal a b _ => md <> Local /\ valid_aln a b (seqA p) (seqB p)
    | RLocal pa a sa pb b sb _ =>
        md = Local /\ length a = length b /\ no_double_gap a b /\
        pa ++ degap a ++ sa = seqA p /\ pb ++ degap b ++ sb = seqB p
    | RError => False
    end.
  Proof.
    intros HA HB. unfold align.
    assert (EA : (lenA p =? 0) = false).
    { apply Nat.eqb_neq. unfold lenA. destruct (seqA p); [congruence|discriminate]. }
    assert (EB : (lenB p =? 0) = false).
    { apply Nat.eqb_neq. unfold lenB. destruct (seqB p); [congruence|discriminate]. }
    rewrite EA, EB. cbn [orb].
    assert (G : md <> Local ->
      match trace_global (tbf p md sec) (seqA p) (seqB p) (lenB p + lenA p) (lenB p) (lenA p) [] [] with
      | Some (a, b) => valid_aln a b (seqA p) (seqB p)
      | None => False
      end).
    { intros Hm.
      destruct (trace_global_from_corner Z (tbf p md sec) (seqA p) (seqB p)
                  (fun j H1 H2 => tbf_row0_nonlocal j Hm H1 H2)
                  (fun i H1 H2 => tbf_col0_nonlocal i Hm H1 H2)) as [a [b [Ht Hv]]].
      unfold lenA, lenB. rewrite Ht. exact Hv. }
    destruct md eqn:Emd.
    - specialize (G ltac:(discriminate)). destruct (trace_global _ _ _ _ _ _ _ _) as [[a b]|]; [|exact G].
      split; [discriminate|exact G].
    - specialize (G ltac:(discriminate)). destruct (trace_global _ _ _ _ _ _ _ _) as [[a b]|]; [|exact G].
      split; [discriminate|exact G].
    - clear G. pose proof local_best_bounds as HB'. rewrite Emd in HB'.
      destruct (local_best p Local sec) as [[k l] v]. destruct HB' as [Hk Hl].
      destruct (trace_local_from Z (tbf p Local sec) (seqA p) (seqB p)
                  (fun j H => eq_ind _ (fun m => tbf p m sec 0 j = 0%Z) (tbf_row0_local j Emd H) _ Emd)
                  (fun i H => eq_ind _ (fun m => tbf p m sec i 0 = 0%Z) (tbf_col0_local i Emd H) _ Emd)
                  k l Hk Hl)
        as [i' [j' [a [b [Ht [L [ND [Da Db]]]]]]]].
      rewrite Ht. auto.
    - specialize (G ltac:(discriminate)). destruct (trace_global _ _ _ _ _ _ _ _) as [[a b]|]; [|exact G].
      split; [discriminate|exact G].
  Qed.
End Valid.

(* the dispatchers *)
Theorem align_pair_valid (p : cin) (gop : Q) (md : mode) :
  seqA p <> [] -> seqB p <> [] ->
  match align_pair p gop md with
  | RGlobal a b _ => md <> Local /\ valid_aln a b (seqA p) (seqB p)
  | RLocal pa a sa pb b sb _ =>
      md = Local /\ length a = length b /\ no_double_gap a b /\
      pa ++ degap a ++ sa = seqA p /\ pb ++ degap b ++ sb = seqB p
  | RError => False
  end.
Proof.
  intros HA HB. unfold align_pair. exact (align_valid (with_gop p gop) md (any_restricted p) HA HB).
Qed.

Theorem talign_valid (sA sB : list Z) (gop scl : Q) (sc : list (Z * Z * Q)) (md : mode) :
  sA <> [] -> sB <> [] ->
  match talign sA sB gop scl sc md with
  | RGlobal a b _ => md <> Local /\ valid_aln a b sA sB
  | RLocal pa a sa pb b sb _ =>
      md = Local /\ length a = length b /\ no_double_gap a b /\
      pa ++ degap a ++ sa = sA /\ pb ++ degap b ++ sb = sB
  | RError => False
  end.
Proof.
  intros HA HB. unfold talign. exact (align_valid (talign_in sA sB gop scl sc) md false HA HB).
Qed.
