(* C03: with linear gap costs (scale = 1) the returned score is the maximum over
   ALL alignments of the pair (global; overlap with free end gaps; local: over
   all alignments of all pairs of contiguous slices). *)
From Coq Require Import QArith ZArith List Bool Arith Lia Lqa.
From LV Require Import Align.DP Align.DPProofs Align.Calign Align.CalignProofs Align.LibScore
  Align.LibScoreProofs Align.Opt.
Import ListNotations.
Local Open Scope Q_scope.

Ltac qb E := first [ apply Qle_bool_iff in E
                   | apply not_true_iff_false in E; rewrite Qle_bool_iff in E; apply Qnot_le_lt in E ].

Lemma choose3_ge gA m gB :
  gA <= fst (choose3 gA m gB) /\ m <= fst (choose3 gA m gB) /\ gB <= fst (choose3 gA m gB).
Proof.
  unfold choose3, qgt, qge.
  destruct (Qle_bool gA m) eqn:E1; qb E1; destruct (Qle_bool gB gA) eqn:E2; qb E2;
    destruct (Qle_bool gB m) eqn:E3; qb E3; cbn [negb andb fst]; repeat split; lra.
Qed.

Lemma choose4_ge gA m gB :
  gA <= fst (choose4 gA m gB) /\ m <= fst (choose4 gA m gB) /\ gB <= fst (choose4 gA m gB) /\
  0 <= fst (choose4 gA m gB).
Proof.
  unfold choose4, qge.
  destruct (Qle_bool m gA) eqn:E1; qb E1; destruct (Qle_bool gB gA) eqn:E2; qb E2;
    destruct (Qle_bool 0 gA) eqn:E3; qb E3; destruct (Qle_bool gB m) eqn:E4; qb E4;
    destruct (Qle_bool 0 m) eqn:E5; qb E5; destruct (Qle_bool 0 gB) eqn:E6; qb E6;
    cbn [negb andb fst]; repeat split; lra.
Qed.

Lemma mode_eq_Local (md : mode) : md = Local \/ md <> Local.
Proof. destruct md; [right|right|left|right]; congruence. Qed.

Section GenericOpt.
  Variable cA cB cM : nat -> nat -> Q.
  Variable F : nat -> nat -> Q.
  Variable N M : nat.
  Hypothesis Hcol : forall i, (i < N)%nat -> F i 0 + cA (S i) 0 <= F (S i) 0.
  Hypothesis Hrow : forall j, (j < M)%nat -> F 0 j + cB 0 (S j) <= F 0 (S j).
  Hypothesis Hint : forall i j, (i < N)%nat -> (j < M)%nat ->
    F i (S j) + cA (S i) (S j) <= F (S i) (S j) /\
    F i j + cM (S i) (S j) <= F (S i) (S j) /\
    F (S i) j + cB (S i) (S j) <= F (S i) (S j).

  (* every path through the lattice scores at most what the matrix holds at its end point *)
  Lemma upper_bound : forall ms i0 j0,
    (i0 + cntB ms <= N)%nat -> (j0 + cntA ms <= M)%nat ->
    F i0 j0 + scoreP cA cB cM i0 j0 ms <= F (i0 + cntB ms)%nat (j0 + cntA ms)%nat.
  Proof.
    induction ms as [|m t IH]; intros i0 j0 Hi Hj.
    - cbn. rewrite !Nat.add_0_r. lra.
    - destruct m; cbn [scoreP].
      + (* match *)
        assert (EB : cntB (MM :: t) = S (cntB t)) by reflexivity.
        assert (EA : cntA (MM :: t) = S (cntA t)) by reflexivity.
        rewrite EB, EA in *. specialize (IH (S i0) (S j0) ltac:(lia) ltac:(lia)).
        replace (i0 + S (cntB t))%nat with (S i0 + cntB t)%nat by lia.
        replace (j0 + S (cntA t))%nat with (S j0 + cntA t)%nat by lia.
        destruct (Hint i0 j0 ltac:(lia) ltac:(lia)) as [_ [H _]]. lra.
      + (* gap in A: consumes B *)
        assert (EB : cntB (MA :: t) = S (cntB t)) by reflexivity.
        assert (EA : cntA (MA :: t) = cntA t) by reflexivity.
        rewrite EB, EA in *. specialize (IH (S i0) j0 ltac:(lia) ltac:(lia)).
        replace (i0 + S (cntB t))%nat with (S i0 + cntB t)%nat by lia.
        assert (H : F i0 j0 + cA (S i0) j0 <= F (S i0) j0).
        { destruct j0 as [|j0]; [apply Hcol; lia|]. destruct (Hint i0 j0 ltac:(lia) ltac:(lia)) as [H _]. exact H. }
        lra.
      + assert (EB : cntB (MB :: t) = cntB t) by reflexivity.
        assert (EA : cntA (MB :: t) = S (cntA t)) by reflexivity.
        rewrite EB, EA in *. specialize (IH i0 (S j0) ltac:(lia) ltac:(lia)).
        replace (j0 + S (cntA t))%nat with (S j0 + cntA t)%nat by lia.
        assert (H : F i0 j0 + cB i0 (S j0) <= F i0 (S j0)).
        { destruct i0 as [|i0]; [apply Hrow; lia|]. destruct (Hint i0 j0 ltac:(lia) ltac:(lia)) as [_ [_ H]]. exact H. }
        lra.
  Qed.
End GenericOpt.

Section CalignOpt.
  Variable p : cin.
  Variable md : mode.
  Variable sec : bool.
  Hypothesis not_dialign : md <> Dialign.
  Hypothesis linear : scale p == 1.

  Notation SP := (spec (row0 p md sec) (col0 p md sec) (cell p md sec)).
  Notation cA := (fun i j => costA p md sec true i j 0).
  Notation cB := (fun i j => costB p md sec true i j 0).
  Notation cM := (mcost p md sec).

  Lemma costA_linear i j prev : costA p md sec true i j prev == costA p md sec true i j 0.
  Proof.
    unfold costA. destruct j; [reflexivity|].
    destruct (match md with Overlap => (S j =? lenA p)%nat | _ => false end); [reflexivity|].
    destruct (restrictedA p sec i (S j)); [reflexivity|].
    destruct (prev =? 3)%Z; cbn [Z.eqb]; rewrite ?linear; lra.
  Qed.

  Lemma costB_linear i j prev : costB p md sec true i j prev == costB p md sec true i j 0.
  Proof.
    unfold costB. destruct i; [reflexivity|].
    destruct (match md with Overlap => (S i =? lenB p)%nat | _ => false end); [reflexivity|].
    destruct (restrictedB p sec (S i) j); [reflexivity|].
    destruct (prev =? 2)%Z; cbn [Z.eqb]; rewrite ?linear; lra.
  Qed.

  Lemma sc_moves_linear : forall ms i j prev,
    sc_moves p md sec i j prev ms == scoreP cA cB cM i j ms.
  Proof.
    induction ms as [|m t IH]; intros i j prev; cbn [sc_moves scoreP]; [reflexivity|].
    destruct m; rewrite IH; [reflexivity| |].
    - rewrite (costA_linear (S i) j prev). reflexivity.
    - rewrite (costB_linear i (S j) prev). reflexivity.
  Qed.

  Lemma cell_ge_raw i j up left diag :
    gapA_val p md sec i j up <= fst (cell p md sec i j up left diag) /\
    match_val p md sec i j (fst diag) <= fst (cell p md sec i j up left diag) /\
    gapB_val p md sec i j left <= fst (cell p md sec i j up left diag) /\
    (md = Local -> 0 <= fst (cell p md sec i j up left diag)).
  Proof.
    unfold cell. cbv zeta.
    pose proof (choose3_ge (gapA_val p md sec i j up) (match_val p md sec i j (fst diag)) (gapB_val p md sec i j left))
      as [A1 [A2 A3]].
    pose proof (choose4_ge (gapA_val p md sec i j up) (match_val p md sec i j (fst diag)) (gapB_val p md sec i j left))
      as [B1 [B2 [B3 B4]]].
    destruct md; (split; [assumption|split; [assumption|split; [assumption|]]]); intros E; try discriminate E.
    exact B4.
  Qed.

  Lemma cell_ge i j :
    fst (SP i (S j)) + cA (S i) (S j) <= fst (SP (S i) (S j)) /\
    fst (SP i j) + cM (S i) (S j) <= fst (SP (S i) (S j)) /\
    fst (SP (S i) j) + cB (S i) (S j) <= fst (SP (S i) (S j)) /\
    (md = Local -> 0 <= fst (SP (S i) (S j))).
  Proof.
    rewrite spec_cell.
    pose proof (gapA_decomp p md sec not_dialign (S i) j (SP i (S j))) as GA.
    pose proof (gapB_decomp p md sec not_dialign i (S j) (SP (S i) j)) as GB.
    pose proof (match_decomp p md sec (S i) (S j) (fst (SP i j))) as GM.
    rewrite (costA_linear (S i) (S j) _) in GA. rewrite (costB_linear (S i) (S j) _) in GB.
    destruct (cell_ge_raw (S i) (S j) (SP i (S j)) (SP (S i) j) (SP i j)) as [A1 [A2 [A3 A4]]].
    split; [lra|split; [lra|split; [lra|exact A4]]].
  Qed.
End CalignOpt.

(* ---------- alignments as gapped rows <-> move lists ---------- *)
Lemma moves_of_valid : forall (a b : list (option Z)),
  length a = length b -> no_double_gap a b ->
  exists ms, moves_of a b = Some ms /\ cntA ms = length (degap a) /\ cntB ms = length (degap b).
Proof.
  induction a as [|x ta IH]; intros b HL HN; destruct b as [|y tb]; try discriminate.
  - exists []. auto.
  - cbn [length] in HL. cbn [no_double_gap] in HN. destruct HN as [Hxy HN].
    destruct (IH tb ltac:(lia) HN) as [ms [E [CA CB]]].
    destruct x as [x|], y as [y|]; cbn [moves_of degap length]; rewrite ?E; cbn [option_map].
    + exists (MM :: ms). split; [reflexivity|]. split; [change (cntA (MM :: ms)) with (S (cntA ms))|change (cntB (MM :: ms)) with (S (cntB ms))]; lia.
    + exists (MB :: ms). split; [reflexivity|]. split; [change (cntA (MB :: ms)) with (S (cntA ms))|change (cntB (MB :: ms)) with (cntB ms)]; lia.
    + exists (MA :: ms). split; [reflexivity|]. split; [change (cntA (MA :: ms)) with (cntA ms)|change (cntB (MA :: ms)) with (S (cntB ms))]; lia.
    + destruct Hxy; congruence.
Qed.

Lemma sc_from_moves (p : cin) (md : mode) (sec : bool) : forall a b ms i j prev,
  moves_of a b = Some ms -> sc_from p md sec true i j prev a b = sc_moves p md sec i j prev ms.
Proof.
  induction a as [|x ta IH]; intros b ms i j prev E; destruct b as [|y tb]; cbn [moves_of] in E.
  - inversion E. reflexivity.
  - discriminate.
  - destruct x; discriminate.
  - destruct x as [x|], y as [y|]; try discriminate;
      destruct (moves_of ta tb) as [ms'|] eqn:E'; try discriminate; cbn [option_map] in E; inversion E; subst;
      cbn [sc_from sc_moves]; rewrite (IH tb ms' _ _ _ E'); reflexivity.
Qed.

Section CalignTop.
  Variable p : cin.
  Variable md : mode.
  Variable sec : bool.
  Hypothesis not_dialign : md <> Dialign.
  Hypothesis linear : scale p == 1.

  Notation SP := (spec (row0 p md sec) (col0 p md sec) (cell p md sec)).
  Notation cA := (fun i j => costA p md sec true i j 0).
  Notation cB := (fun i j => costB p md sec true i j 0).
  Notation F := (fun i j => fst (SP i j)).

  Lemma F_col i : F i 0%nat + cA (S i) 0%nat <= F (S i) 0%nat.
  Proof.
    cbv beta. destruct (mode_eq_Local md) as [HL|HL].
    - assert (E : forall k, fst (SP k 0) == 0).
      { intros k. destruct k; [cbn [spec]; unfold row0|rewrite spec_col0; unfold col0]; rewrite HL; reflexivity. }
      rewrite !E. unfold costA, lead_charged. rewrite HL. lra.
    - destruct (col0_decomp p md sec not_dialign i HL) as [_ D].
      rewrite (costA_linear p md sec linear (S i) 0 _) in D. lra.
  Qed.

  Lemma F_row j : F 0%nat j + cB 0%nat (S j) <= F 0%nat (S j).
  Proof.
    cbv beta. destruct (mode_eq_Local md) as [HL|HL].
    - assert (E : forall k, fst (SP 0 k) == 0).
      { intros k. cbn [spec]. unfold row0. rewrite HL. reflexivity. }
      rewrite !E. unfold costB, lead_charged. rewrite HL. lra.
    - destruct (row0_decomp p md sec not_dialign j HL) as [_ D].
      rewrite (costB_linear p md sec linear 0 (S j) _) in D. lra.
  Qed.

  Lemma F_upper ms i0 j0 :
    (i0 + cntB ms <= lenB p)%nat -> (j0 + cntA ms <= lenA p)%nat ->
    F i0 j0 + sc_moves p md sec i0 j0 0 ms <= F (i0 + cntB ms)%nat (j0 + cntA ms)%nat.
  Proof.
    intros Hi Hj. rewrite (sc_moves_linear p md sec linear ms i0 j0 0).
    apply (upper_bound cA cB (mcost p md sec) F (lenB p) (lenA p)); try assumption.
    - intros i _. apply F_col.
    - intros j _. apply F_row.
    - intros i j _ _. destruct (cell_ge p md sec not_dialign linear i j) as [A1 [A2 [A3 _]]]. auto.
  Qed.

  Lemma F_nonneg_local : md = Local -> forall i j, 0 <= F i j.
  Proof.
    intros HL i j. cbv beta. destruct i as [|i]; [cbn [spec]; unfold row0; rewrite HL; cbn; lra|].
    destruct j as [|j]; [rewrite spec_col0; unfold col0; rewrite HL; cbn; lra|].
    destruct (cell_ge p md sec not_dialign linear i j) as [_ [_ [_ A4]]]. exact (A4 HL).
  Qed.
End CalignTop.

(* the cell the local traceback starts from holds the maximum of the matrix *)
Section LocalBest.
  Variable p : cin.
  Variable md : mode.
  Variable sec : bool.

  Definition lb_inv (acc : nat * nat * Q) (P : nat -> nat -> Prop) : Prop :=
    let '(k, l, v) := acc in
    0 <= v /\ v == fst (mget p md sec k l) /\ forall i j, P i j -> fst (mget p md sec i j) <= v.

  Lemma lb_inner i : forall js acc P, lb_inv acc P ->
    lb_inv (fold_left (fun acc j => let v := fst (mget p md sec i j) in
                                    if qge v (snd acc) then (i, j, v) else acc) js acc)
           (fun i' j' => P i' j' \/ (i' = i /\ In j' js)).
  Proof.
    induction js as [|j js IH]; intros acc P H; cbn [fold_left].
    - destruct acc as [[k l] v]. destruct H as [H1 [H2 H3]]. repeat split; auto.
      intros i' j' [HP|[_ []]]. auto.
    - set (acc' := (let v := fst (mget p md sec i j) in if qge v (snd acc) then (i, j, v) else acc)).
      assert (H' : lb_inv acc' (fun i' j' => P i' j' \/ (i' = i /\ j' = j))).
      { subst acc'. destruct acc as [[k l] v]. destruct H as [H1 [H2 H3]]. cbv zeta. cbn [snd]. unfold qge.
        destruct (Qle_bool v (fst (mget p md sec i j))) eqn:E; qb E.
        - split; [lra|]. split; [reflexivity|]. intros i' j' [HP|[-> ->]]; [specialize (H3 _ _ HP); lra|lra].
        - split; [lra|]. split; [exact H2|]. intros i' j' [HP|[-> ->]]; [auto|lra]. }
      specialize (IH acc' _ H').
      destruct (fold_left _ js acc') as [[k l] v]. destruct IH as [H1 [H2 H3]].
      split; [exact H1|]. split; [exact H2|]. intros i' j' [HP|[-> [<-|Hin]]]; apply H3; auto.
  Qed.

  Lemma lb_outer : forall is_ acc P, lb_inv acc P ->
    lb_inv (fold_left (fun acc i => fold_left (fun acc j => let v := fst (mget p md sec i j) in
                                    if qge v (snd acc) then (i, j, v) else acc) (seq 1 (lenA p)) acc) is_ acc)
           (fun i' j' => P i' j' \/ (In i' is_ /\ In j' (seq 1 (lenA p)))).
  Proof.
    induction is_ as [|i is_ IH]; intros acc P H; cbn [fold_left].
    - destruct acc as [[k l] v]. destruct H as [H1 [H2 H3]]. repeat split; auto.
      intros i' j' [HP|[[] _]]. auto.
    - pose proof (lb_inner i (seq 1 (lenA p)) acc P H) as H'.
      specialize (IH _ _ H').
      destruct (fold_left _ is_ _) as [[k l] v]. destruct IH as [H1 [H2 H3]].
      split; [exact H1|]. split; [exact H2|]. intros i' j' [HP|[[<-|Hin] Hj]]; apply H3; auto.
  Qed.

  Theorem local_best_max :
    let '(k, l, v) := local_best p md sec in
    0 <= fst (mget p md sec k l) /\
    forall i j, (1 <= i <= lenB p)%nat -> (1 <= j <= lenA p)%nat ->
      fst (mget p md sec i j) <= fst (mget p md sec k l).
  Proof.
    unfold local_best.
    assert (H0 : lb_inv (0%nat, 0%nat, 0) (fun _ _ => False)).
    { split; [lra|]. split; [|intros i j []].
      rewrite (mget_row0 p md sec 0 (Nat.le_0_l _)). unfold row0.
      destruct md; cbn [fst]; try reflexivity; destruct (cumulative _ _); rewrite ?cum_0; reflexivity. }
    pose proof (lb_outer (seq 1 (lenB p)) _ _ H0) as H.
    destruct (fold_left _ (seq 1 (lenB p)) _) as [[k l] v]. destruct H as [H1 [H2 H3]].
    split; [lra|]. intros i j Hi Hj. rewrite <- H2. apply H3. right. split; apply in_seq; lia.
  Qed.
End LocalBest.

(* ---------- the property-level statements for _calign / _talign ---------- *)
Section Optimal.
  Variable p : cin.
  Variable sec : bool.
  Hypothesis linear : scale p == 1.

  Theorem calign_global_optimal (md : mode) :
    md = Global \/ md = Overlap -> seqA p <> [] -> seqB p <> [] ->
    match align p md sec with
    | RGlobal a b s =>
        valid_aln a b (seqA p) (seqB p) /\ s == libscore p md sec true a b /\
        forall a' b', valid_aln a' b' (seqA p) (seqB p) -> libscore p md sec true a' b' <= s
    | _ => False
    end.
  Proof.
    intros Hm HA HB.
    assert (ND : md <> Dialign) by (destruct Hm; subst; discriminate).
    assert (NL : md <> Local) by (destruct Hm; subst; discriminate).
    pose proof (align_valid p md sec HA HB) as V.
    pose proof (calign_score_exact_global p md sec Hm HA HB) as S.
    assert (SIM : forall a b s, align p md sec = RGlobal a b s -> s = fst (mget p md sec (lenB p) (lenA p))).
    { intros a b s E. unfold align in E. destruct (_ || _); [discriminate|].
      destruct md; try congruence; destruct (trace_global _ _ _ _ _ _ _ _) as [[a0 b0]|]; inversion E; reflexivity. }
    destruct (align p md sec) as [a b s| |] eqn:E; try exact S.
    destruct V as [_ V]. split; [exact V|]. split; [exact S|].
    intros a' b' [L' [N' [DA DB]]].
    destruct (moves_of_valid a' b' L' N') as [ms [EM [CA CB]]].
    unfold libscore. rewrite (sc_from_moves p md sec a' b' ms 0 0 1 EM).
    rewrite (SIM a b s eq_refl). rewrite mget_spec by (assumption || lia).
    pose proof (F_upper p md sec ND linear ms 0 0) as U. cbv beta in U.
    rewrite CA, CB, DA, DB in U. cbn [plus] in U. specialize (U (le_n _) (le_n _)).
    destruct (SP_00 p md sec ND NL) as [_ Z0].
    (* sc_moves with start state 1 or 0: the same under linear gap costs *)
    rewrite (sc_moves_linear p md sec linear ms 0 0 1). rewrite (sc_moves_linear p md sec linear ms 0 0 0) in U.
    unfold lenA, lenB. lra.
  Qed.

  Theorem calign_local_optimal :
    seqA p <> [] -> seqB p <> [] ->
    match align p Local sec with
    | RLocal pa a _ pb b _ s =>
        s == libscore_local p Local sec true pa pb a b /\ 0 <= s /\
        forall i0 j0 ms, (i0 + cntB ms <= lenB p)%nat -> (j0 + cntA ms <= lenA p)%nat ->
          sc_moves p Local sec i0 j0 0 ms <= s
    | _ => False
    end.
  Proof.
    intros HA HB.
    pose proof (calign_score_exact_local p Local sec eq_refl HA HB) as S.
    pose proof (local_best_max p Local sec) as MX.
    assert (ND : Local <> Dialign) by discriminate.
    unfold align in *. destruct (_ || _); [exact S|].
    destruct (local_best p Local sec) as [[k l] v]. destruct MX as [M0 MX].
    destruct (trace_local _ _ _ _ _ _ _ _) as [[[[i' j'] a] b]|]; [|exact S].
    split; [exact S|]. split; [exact M0|].
    intros i0 j0 ms Hi Hj.
    pose proof (F_upper p Local sec ND linear ms i0 j0 Hi Hj) as U. cbv beta in U.
    pose proof (F_nonneg_local p Local sec ND linear eq_refl i0 j0) as P0. cbv beta in P0.
    set (ie := (i0 + cntB ms)%nat) in *. set (je := (j0 + cntA ms)%nat) in *.
    assert (E : fst (spec (row0 p Local sec) (col0 p Local sec) (cell p Local sec) ie je) <= fst (mget p Local sec k l)).
    { destruct ie as [|ie]; [cbn [spec]; unfold row0; cbn [fst]; exact M0|].
      destruct je as [|je]; [rewrite spec_col0; unfold col0; cbn [fst]; exact M0|].
      rewrite <- mget_spec by (discriminate || lia). apply MX; lia. }
    lra.
  Qed.
End Optimal.
