(* Model of lingpy.algorithm.cython._calign (globalign, secondary_globalign,
   semi_globalign, secondary_semi_globalign, localign, secondary_localign,
   dialign, secondary_dialign, align_pair) and, as instances, of
   lingpy.algorithm.cython._talign (globalign, semi_globalign, localign,
   dialign, align_pair).  Scores are exact rationals.  Symbols (sound classes,
   tokens) and prosodic characters are integers (code points / harness ids).
   Model only. *)
From Coq Require Import QArith ZArith List Bool Arith.
From LV Require Import Align.DP.
Import ListNotations.
Local Open Scope Q_scope.

Definition cellT := (Q * Z)%type.          (* matrix[i][j], traceback[i][j] *)

Inductive mode := Global | Overlap | Local | Dialign.

Record cin := {
  seqA : list Z; seqB : list Z;
  gopA : list Q; gopB : list Q;            (* as received by globalign &c.: gop * weight *)
  proA : list Z; proB : list Z;            (* code points of the prosodic characters *)
  scale : Q; factor : Q;
  scorer : list (Z * Z * Q);               (* scorer[a, b] *)
  rchars : list Z                          (* restricted characters *)
}.

Definition nthQ (l : list Q) (k : nat) : Q := nth k l 0.
Definition nthZ (l : list Z) (k : nat) : Z := nth k l 0%Z.

Fixpoint score_lookup (sc : list (Z * Z * Q)) (a b : Z) : Q :=
  match sc with
  | [] => 0
  | (a', b', q) :: tl => if (a =? a')%Z && (b =? b')%Z then q else score_lookup tl a b
  end.

Definition memz (r : list Z) (c : Z) : bool := existsb (Z.eqb c) r.

Definition big : Q := 1000000 # 1.

Definition qge (a b : Q) : bool := Qle_bool b a.      (* a >= b *)
Definition qgt (a b : Q) : bool := negb (Qle_bool a b). (* a > b *)

Section Cells.
  Variable p : cin.
  Variable md : mode.
  Variable sec : bool.                     (* the secondary_* twin *)

  Definition lenA := length (seqA p).      (* M *)
  Definition lenB := length (seqB p).      (* N *)

  Definition pa (j : nat) : Z := nthZ (proA p) (j - 1).
  Definition pb (i : nat) : Z := nthZ (proB p) (i - 1).
  Definition sub (i j : nat) : Q :=
    score_lookup (scorer p) (nthZ (seqA p) (j - 1)) (nthZ (seqB p) (i - 1)).

  (* abs(ord(proA[j-1]) - ord(proB[i-1])) >= 2 in the two global functions, <= 2 elsewhere *)
  Definition pro_near (i j : nat) : bool :=
    match md with
    | Global => (2 <=? Z.abs (pa j - pb i))%Z
    | _ => (Z.abs (pa j - pb i) <=? 2)%Z
    end.

  Definition restrictedA (i j : nat) : bool :=   (* gapA branch *)
    sec && memz (rchars p) (pb i) && negb (memz (rchars p) (pa j)) && negb (j =? lenA)%nat.
  Definition restrictedB (i j : nat) : bool :=   (* gapB branch *)
    sec && memz (rchars p) (pa j) && negb (memz (rchars p) (pb i)) && negb (i =? lenB)%nat.

  (* match = scorer[..]; match += matrix[i-1][j-1] + match * factor, &c. *)
  Definition match_val (i j : nat) (mdiag : Q) : Q :=
    let s := sub i j in
    if (pa j =? pb i)%Z then s + (mdiag + s * factor p)
    else if sec && memz (rchars p) (pa j) && negb (memz (rchars p) (pb i)) then s + (mdiag - big)
    else if sec && negb (memz (rchars p) (pa j)) && memz (rchars p) (pb i) then s + (mdiag - big)
    else if pro_near i j then s + (mdiag + s * factor p / (2 # 1))
    else s + mdiag.

  Definition gapA_val (i j : nat) (up : cellT) : Q :=
    let g := nthQ (gopB p) (i - 1) in
    match md with
    | Overlap =>
        if (j =? lenA)%nat then fst up
        else if restrictedA i j then fst up - big
        else if (snd up =? 3)%Z then fst up + g * scale p
        else fst up + g
    | _ =>
        if restrictedA i j then fst up - big
        else if (snd up =? 3)%Z then fst up + g * scale p
        else fst up + g
    end.

  Definition gapB_val (i j : nat) (left : cellT) : Q :=
    let g := nthQ (gopA p) (j - 1) in
    match md with
    | Overlap =>
        if (i =? lenB)%nat then fst left
        else if restrictedB i j then fst left - big
        else if (snd left =? 2)%Z then fst left + g * scale p
        else fst left + g
    | _ =>
        if restrictedB i j then fst left - big
        else if (snd left =? 2)%Z then fst left + g * scale p
        else fst left + g
    end.

  (* if gapA > match and gapA >= gapB: 3 / elif match >= gapB: 1 / else: 2 *)
  Definition choose3 (gA m gB : Q) : cellT :=
    if qgt gA m && qge gA gB then (gA, 3%Z)
    else if qge m gB then (m, 1%Z)
    else (gB, 2%Z).

  (* local: if gapA >= match and gapA >= gapB and gapA >= 0 / elif match >= gapB and match >= 0 /
     elif gapB >= 0 / else 0 *)
  Definition choose4 (gA m gB : Q) : cellT :=
    if qge gA m && qge gA gB && qge gA 0 then (gA, 3%Z)
    else if qge m gB && qge m 0 then (m, 1%Z)
    else if qge gB 0 then (gB, 2%Z)
    else (0, 0%Z).

  Definition cell (i j : nat) (up left diag : cellT) : cellT :=
    let gA := gapA_val i j up in
    let gB := gapB_val i j left in
    let m := match_val i j (fst diag) in
    match md with
    | Local => choose4 gA m gB
    | _ => choose3 gA m gB
    end.

  Fixpoint cum (l : list Q) (k : nat) : Q :=     (* sum of the first k entries, each * scale *)
    match k, l with
    | S k', x :: tl => x * scale p + cum tl k'
    | _, _ => 0
    end.

  (* boundary: cumulative scaled penalties in the two global functions and in
     secondary_semi_globalign; zeros in semi_globalign and dialign; zeros with
     traceback 0 in local mode *)
  Definition cumulative : bool :=
    match md with
    | Global => true
    | Overlap => sec
    | _ => false
    end.

  Definition row0 (j : nat) : cellT :=
    match md with
    | Local => (0, 0%Z)
    | _ => (if cumulative then cum (gopA p) j else 0, match j with O => 1%Z | _ => 2%Z end)
    end.

  Definition col0 (i : nat) : cellT :=
    match md with
    | Local => (0, 0%Z)
    | _ => (if cumulative then cum (gopB p) i else 0, 3%Z)
    end.

  (* ---- dialign: the cell looks back along the whole diagonal ---- *)
  Definition dia_tmp (i j : nat) : Q :=      (* tmp_match for the pair (A[j-1], B[i-1]) *)
    let s := sub i j in
    if sec then
      if (pa j =? pb i)%Z then s + s * factor p
      else if memz (rchars p) (pa j) && negb (memz (rchars p) (pb i)) then s + - big
      else if negb (memz (rchars p) (pa j)) && memz (rchars p) (pb i) then s + - big
      else if (Z.abs (pa j - pb i) <=? 2)%Z then s + s * factor p / (2 # 1)
      else s
    else
      if (pa j =? pb i)%Z then s * (1 + factor p)
      else if (Z.abs (pa j - pb i) <=? 2)%Z then s * (1 + factor p / (2 # 1))
      else s.

  (* match as left behind by the last iteration k = min(i,j)-1 of the loop:
     matrix[i-k-1][j-k-1] + sum_{l=k..0} tmp(i-l, j-l) *)
  Fixpoint dia_sum (i j l : nat) (acc : Q) : Q :=
    match l with
    | O => acc + dia_tmp i j
    | S l' => dia_sum i j l' (acc + dia_tmp (i - l) (j - l))
    end.

  Definition dia_match (done : list (list cellT)) (i j : nat) : Q :=
    let k := (Nat.min i j - 1)%nat in
    let start := fst (nth (j - k - 1) (nth k done []) (0, 0%Z)) in
    dia_sum i j k start.

  Definition cellD (done : list (list cellT)) (i j : nat) (up left diag : cellT) : cellT :=
    let gA := if restrictedA i j then fst up - big else fst up in
    let gB := if restrictedB i j then fst left - big else fst left in
    choose3 gA (dia_match done i j) gB.

  Definition matrix : list (list cellT) :=
    match md with
    | Dialign => fillD row0 col0 cellD lenB lenA
    | _ => fill row0 col0 cell lenB lenA
    end.

  Definition mget (i j : nat) : cellT := get (0, 0%Z) matrix i j.
  Definition tbf (i j : nat) : Z := snd (mget i j).

  (* local mode: the last cell (row-major) with matrix[i][j] >= running maximum *)
  Definition local_best : nat * nat * Q :=
    fold_left (fun acc i =>
      fold_left (fun acc j =>
        let v := fst (mget i j) in
        if qge v (snd acc) then (i, j, v) else acc) (seq 1 lenA) acc)
      (seq 1 lenB) (0%nat, 0%nat, 0).

  Inductive result :=
  | RGlobal (almA almB : list (option Z)) (sim : Q)
  | RLocal (preA : list Z) (almA : list (option Z)) (sufA : list Z)
           (preB : list Z) (almB : list (option Z)) (sufB : list Z) (sim : Q)
  | RError.

  Definition align : result :=
    if (lenA =? 0)%nat || (lenB =? 0)%nat then RError      (* the Python raises *)
    else match md with
    | Local =>
        let '(k, l, _) := local_best in
        match trace_local tbf (seqA p) (seqB p) (k + l) k l [] [] with
        | Some (i', j', a, b) =>
            RLocal (firstn j' (seqA p)) a (skipn l (seqA p))
                   (firstn i' (seqB p)) b (skipn k (seqB p)) (fst (mget k l))
        | None => RError
        end
    | _ =>
        match trace_global tbf (seqA p) (seqB p) (lenB + lenA) lenB lenA [] [] with
        | Some (a, b) => RGlobal a b (fst (mget lenB lenA))
        | None => RError
        end
    end.
End Cells.

(* align_pair: pre-multiplication of the weights by gop, dispatch to the
   secondary twin when a restricted character occurs in proA+proB *)
Definition any_restricted (p : cin) : bool :=
  existsb (fun c => memz (proA p ++ proB p) c) (rchars p).

Definition with_gop (p : cin) (gop : Q) : cin :=
  {| seqA := seqA p; seqB := seqB p;
     gopA := map (fun w => gop * w) (firstn (length (seqA p)) (gopA p));
     gopB := map (fun w => gop * w) (firstn (length (seqB p)) (gopB p));
     proA := proA p; proB := proB p; scale := scale p; factor := factor p;
     scorer := scorer p; rchars := rchars p |}.

Definition align_pair (p : cin) (gop : Q) (md : mode) : result :=
  let p' := with_gop p gop in
  align p' md (any_restricted p).

(* simA = sum((1+factor)*scorer[a,a]); dist = 1 - 2*sim/(simA+simB) *)
Definition self_score (p : cin) (s : list Z) : Q :=
  fold_left (fun acc a => acc + (1 + factor p) * score_lookup (scorer p) a a) s 0.

Definition distance (p : cin) (sim : Q) : Q :=
  1 - (2 # 1) * sim / (self_score p (seqA p) + self_score p (seqB p)).

(* ---- _talign: no prosody, one gap penalty ---- *)
Definition talign_in (sA sB : list Z) (gop scl : Q) (sc : list (Z * Z * Q)) : cin :=
  {| seqA := sA; seqB := sB;
     gopA := repeat gop (length sA); gopB := repeat gop (length sB);
     proA := repeat 0%Z (length sA); proB := repeat 0%Z (length sB);
     scale := scl; factor := 0; scorer := sc; rchars := [] |}.

Definition talign (sA sB : list Z) (gop scl : Q) (sc : list (Z * Z * Q)) (md : mode) : result :=
  align (talign_in sA sB gop scl sc) md false.

Definition talign_self (sc : list (Z * Z * Q)) (s : list Z) : Q :=
  fold_left (fun acc a => acc + score_lookup sc a a) s 0.
