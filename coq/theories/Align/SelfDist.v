(* C03, self-distance clause: a sequence aligned with itself has similarity equal
   to its self-score, hence normalised distance 0 - for global, overlap and local
   mode, primary and secondary, at EVERY scale - provided the scorer is
   "diagonally dominant on average" on the symbols of the word:
       0 <= s(a,a)   and   2*s(a,b) <= s(a,a) + s(b,b),
   gap costs are <= 0, scale >= 0 and factor >= 0. *)
From Coq Require Import QArith ZArith List Bool Arith Lia Lqa.
From LV Require Import Align.DP Align.DPProofs Align.Calign Align.CalignProofs Align.LibScore
  Align.LibScoreProofs Align.Opt Align.OptProofs.
Import ListNotations.
Local Open Scope Q_scope.

Lemma skipn_S_cons {X} : forall (j : nat) (l : list X) (a : X) (t : list X),
  skipn j l = a :: t -> skipn (S j) l = t.
Proof.
  induction j as [|j IH]; intros l a t E.
  - cbn in E. subst l. reflexivity.
  - destruct l as [|y l']; [discriminate|]. cbn [skipn] in E |- *. exact (IH l' a t E).
Qed.

Section Self.
  Variable p : cin.
  Variable md : mode.
  Variable sec : bool.
  Hypothesis not_dialign : md <> Dialign.
  Hypothesis same_seq : seqB p = seqA p.
  Hypothesis same_pro : proB p = proA p.
  Hypothesis gopA_nonpos : forall k, nthQ (gopA p) k <= 0.
  Hypothesis gopB_nonpos : forall k, nthQ (gopB p) k <= 0.
  Hypothesis scale_nonneg : 0 <= scale p.
  Hypothesis factor_nonneg : 0 <= factor p.
  Notation x := (seqA p).
  Notation s := (score_lookup (scorer p)).
  Hypothesis diag_nonneg : forall a, In a x -> 0 <= s a a.
  Hypothesis diag_dominant : forall a b, In a x -> In b x -> (2 # 1) * s a b <= s a a + s b b.

  Notation SP := (spec (row0 p md sec) (col0 p md sec) (cell p md sec)).

  (* half of the self-score contribution of position k (0-based) *)
  Definition w (k : nat) : Q := (1 + factor p) * s (nthZ x k) (nthZ x k) * (1 # 2).
  Fixpoint wsum (j n : nat) : Q := match n with O => 0 | S n' => w j + wsum (S j) n' end.

  Lemma nth_in k : (k < length x)%nat -> In (nthZ x k) x.
  Proof. intros H. unfold nthZ. apply nth_In. exact H. Qed.

  Lemma w_nonneg k : (k < length x)%nat -> 0 <= w k.
  Proof.
    intros H. unfold w. pose proof (diag_nonneg _ (nth_in k H)) as D.
    assert (0 <= (1 + factor p) * s (nthZ x k) (nthZ x k)) by (apply Qmult_le_0_compat; lra).
    lra.
  Qed.

  Lemma wsum_nonneg : forall n j, (j + n <= length x)%nat -> 0 <= wsum j n.
  Proof.
    induction n as [|n IH]; intros j H; cbn [wsum]; [lra|].
    pose proof (w_nonneg j ltac:(lia)). pose proof (IH (S j) ltac:(lia)). lra.
  Qed.

  Lemma costA_nonpos i j prev : costA p md sec true i j prev <= 0.
  Proof.
    unfold costA. pose proof (gopB_nonpos (i - 1)) as G.
    assert (GS : nthQ (gopB p) (i - 1) * scale p <= 0).
    { assert (0 <= (- nthQ (gopB p) (i - 1)) * scale p) by (apply Qmult_le_0_compat; lra). lra. }
    destruct j; [destruct (lead_charged md sec true); lra|].
    destruct (match md with Overlap => (S j =? lenA p)%nat | _ => false end); [lra|].
    destruct (restrictedA p sec i (S j)); [unfold big; lra|].
    destruct (prev =? 3)%Z; lra.
  Qed.

  Lemma costB_nonpos i j prev : costB p md sec true i j prev <= 0.
  Proof.
    unfold costB. pose proof (gopA_nonpos (j - 1)) as G.
    assert (GS : nthQ (gopA p) (j - 1) * scale p <= 0).
    { assert (0 <= (- nthQ (gopA p) (j - 1)) * scale p) by (apply Qmult_le_0_compat; lra). lra. }
    destruct i; [destruct (lead_charged md sec true); lra|].
    destruct (match md with Overlap => (S i =? lenB p)%nat | _ => false end); [lra|].
    destruct (restrictedB p sec (S i) j); [unfold big; lra|].
    destruct (prev =? 2)%Z; lra.
  Qed.

  (* a match column pairing A[j] with B[i] scores at most w j + w i *)
  Lemma mcost_le i j : (i < length x)%nat -> (j < length x)%nat ->
    mcost p md sec (S i) (S j) <= w j + w i.
  Proof.
    intros Hi Hj. unfold mcost, sub. cbv zeta. rewrite same_seq.
    replace (S j - 1)%nat with j by lia. replace (S i - 1)%nat with i by lia.
    pose proof (diag_nonneg _ (nth_in i Hi)) as Di. pose proof (diag_nonneg _ (nth_in j Hj)) as Dj.
    pose proof (diag_dominant _ _ (nth_in j Hj) (nth_in i Hi)) as DD.
    unfold w. set (Sab := s (nthZ x j) (nthZ x i)) in *.
    set (a := s (nthZ x j) (nthZ x j)) in *. set (b := s (nthZ x i) (nthZ x i)) in *.
    set (f := factor p) in *.
    assert (Hf : 0 <= f) by exact factor_nonneg.
    assert (E : (1 + f) * a * (1 # 2) + (1 + f) * b * (1 # 2) == (1 + f) * ((a + b) * (1 # 2))) by ring.
    rewrite E. set (D := (a + b) * (1 # 2)).
    assert (E2 : Sab * f / (2 # 1) == Sab * f * (1 # 2)) by field.
    assert (HD : Sab <= D) by (unfold D; lra). assert (D0 : 0 <= D) by (unfold D; lra).
    assert (FD : 0 <= f * D) by (apply Qmult_le_0_compat; assumption).
    assert (FDS : 0 <= f * (D - Sab)) by (apply Qmult_le_0_compat; lra).
    assert (FDS2 : 0 <= (f * (1 # 2)) * (D - Sab)) by (apply Qmult_le_0_compat; lra).
    destruct (pa p (S j) =? pb p (S i))%Z; [lra|].
    destruct (sec && memz (rchars p) (pa p (S j)) && negb (memz (rchars p) (pb p (S i)))); [unfold big; lra|].
    destruct (sec && negb (memz (rchars p) (pa p (S j))) && memz (rchars p) (pb p (S i))); [unfold big; lra|].
    destruct (pro_near p md (S i) (S j)); lra.
  Qed.

  (* no alignment of the word with itself scores more than the two half self-scores it consumes *)
  Lemma sc_moves_le : forall ms i j prev,
    (i + cntB ms <= length x)%nat -> (j + cntA ms <= length x)%nat ->
    sc_moves p md sec i j prev ms <= wsum j (cntA ms) + wsum i (cntB ms).
  Proof.
    induction ms as [|m t IH]; intros i j prev Hi Hj; cbn [sc_moves].
    - cbn. lra.
    - destruct m.
      + change (cntA (MM :: t)) with (S (cntA t)) in *. change (cntB (MM :: t)) with (S (cntB t)) in *.
        cbn [wsum]. specialize (IH (S i) (S j) 1%Z ltac:(lia) ltac:(lia)).
        pose proof (mcost_le i j ltac:(lia) ltac:(lia)). lra.
      + change (cntA (MA :: t)) with (cntA t) in *. change (cntB (MA :: t)) with (S (cntB t)) in *.
        cbn [wsum]. specialize (IH (S i) j 3%Z ltac:(lia) ltac:(lia)).
        pose proof (costA_nonpos (S i) j prev). pose proof (w_nonneg i ltac:(lia)). lra.
      + change (cntA (MB :: t)) with (S (cntA t)) in *. change (cntB (MB :: t)) with (cntB t) in *.
        cbn [wsum]. specialize (IH i (S j) 2%Z ltac:(lia) ltac:(lia)).
        pose proof (costB_nonpos i (S j) prev). pose proof (w_nonneg j ltac:(lia)). lra.
  Qed.

  Lemma wsum_app : forall n j m, wsum j (n + m) == wsum j n + wsum (j + n) m.
  Proof.
    induction n as [|n IH]; intros j m; cbn [wsum plus].
    - rewrite Nat.add_0_r. lra.
    - rewrite IH. replace (S j + n)%nat with (j + S n)%nat by lia. lra.
  Qed.

  Lemma wsum_le j m : (j + m <= length x)%nat -> wsum j m <= wsum 0 (length x).
  Proof.
    intros H. replace (length x) with (j + (m + (length x - j - m)))%nat by lia.
    rewrite (wsum_app j 0 _), (wsum_app m (0 + j) _). cbn [plus].
    pose proof (wsum_nonneg j 0 ltac:(lia)). pose proof (wsum_nonneg (length x - j - m) (j + m) ltac:(lia)). lra.
  Qed.

  (* the diagonal of the matrix dominates the identity alignment *)
  Lemma diag_ge : forall k, (k <= length x)%nat -> (2 # 1) * wsum 0 k <= fst (SP k k).
  Proof.
    induction k as [|k IH]; intros Hk.
    - cbn [wsum spec]. unfold row0. destruct md; cbn [fst]; try lra; destruct (cumulative _ _); rewrite ?cum_0; lra.
    - specialize (IH ltac:(lia)).
      replace (S k) with (k + 1)%nat at 1 by lia. rewrite wsum_app. cbn [wsum plus].
      rewrite spec_cell.
      destruct (cell_ge_raw p md sec not_dialign (S k) (S k) (SP k (S k)) (SP (S k) k) (SP k k)) as [_ [H _]].
      pose proof (match_decomp p md sec (S k) (S k) (fst (SP k k))) as MD.
      assert (MC : mcost p md sec (S k) (S k) == (2 # 1) * w k).
      { unfold mcost, sub, pa, pb. cbv zeta. rewrite same_seq, same_pro. rewrite Z.eqb_refl.
        replace (S k - 1)%nat with k by lia. unfold w. ring. }
      lra.
  Qed.

  Definition self2 : Q := (2 # 1) * wsum 0 (length x).

  Lemma sc_from_le a b i j prev : length a = length b -> no_double_gap a b ->
    (i + length (degap b) <= length x)%nat -> (j + length (degap a) <= length x)%nat ->
    sc_from p md sec true i j prev a b <= self2.
  Proof.
    intros L N Hi Hj. destruct (moves_of_valid a b L N) as [ms [EM [CA CB]]].
    rewrite (sc_from_moves p md sec a b ms i j prev EM).
    pose proof (sc_moves_le ms i j prev ltac:(lia) ltac:(lia)) as U.
    pose proof (wsum_le j (cntA ms) ltac:(lia)). pose proof (wsum_le i (cntB ms) ltac:(lia)).
    unfold self2. lra.
  Qed.

  (* the similarity of a word with itself is its self-score *)
  Theorem self_similarity : x <> [] ->
    match align p md sec with
    | RGlobal _ _ sim => sim == self2
    | RLocal _ _ _ _ _ _ sim => sim == self2
    | RError => False
    end.
  Proof.
    intros HX. assert (HB : seqB p <> []) by (rewrite same_seq; exact HX).
    assert (LB : lenB p = length x) by (unfold lenB; rewrite same_seq; reflexivity).
    pose proof (align_valid p md sec HX HB) as V.
    destruct (mode_eq_Local md) as [HL|HL].
    - pose proof (calign_score_exact_local p md sec HL HX HB) as SE.
      pose proof (local_best_max p md sec) as MX.
      pose proof (diag_ge (length x) (le_n _)) as DG.
      assert (0 < length x)%nat as Hpos by (destruct x; [congruence|cbn; lia]).
      pose proof (mget_spec p md sec not_dialign (length x) (length x) ltac:(lia) ltac:(unfold lenA; lia)) as MS.
      pose proof (fun a b i j prev => sc_from_le a b i j prev) as SFL.
      unfold align in *. destruct (_ || _); [exact V|].
      rewrite HL in V, SE, MX, DG, MS, SFL |- *.
      destruct (local_best p Local sec) as [[k l] v]. destruct MX as [_ MX].
      destruct (trace_local _ _ _ _ _ _ _ _) as [[[[i' j'] a] b]|]; [|exact V].
      destruct V as [_ [L [N [DA DB]]]].
      assert (LO : self2 <= fst (mget p Local sec k l)).
      { specialize (MX (length x) (length x) ltac:(lia) ltac:(unfold lenA; lia)).
        rewrite MS in MX. unfold self2. lra. }
      assert (UP : libscore_local p Local sec true (firstn j' x) (firstn i' (seqB p)) a b <= self2).
      { pose proof (f_equal (@length Z) DB) as LDB. pose proof (f_equal (@length Z) DA) as LDA.
        rewrite !app_length in LDB, LDA.
        assert (LBx : length (seqB p) = length x) by (rewrite same_seq; reflexivity).
        unfold libscore_local. apply SFL; try assumption; lia. }
      lra.
    - assert (Hm : md = Global \/ md = Overlap) by (destruct md; try congruence; auto).
      pose proof (calign_score_exact_global p md sec Hm HX HB) as SE.
      assert (SIM : forall a b s0, align p md sec = RGlobal a b s0 -> s0 = fst (mget p md sec (lenB p) (lenA p))).
      { intros a b s0 E. unfold align in E. destruct (_ || _); [discriminate|].
        destruct md; try congruence; destruct (trace_global _ _ _ _ _ _ _ _) as [[a0 b0]|]; inversion E; reflexivity. }
      destruct (align p md sec) as [a b sim| |] eqn:E; [|exfalso; exact SE|exact SE].
      destruct V as [_ [L [N [DA DB]]]].
      assert (LO : self2 <= sim).
      { rewrite (SIM a b sim eq_refl). rewrite mget_spec by (assumption || lia). rewrite LB. unfold lenA.
        pose proof (diag_ge (length x) (le_n _)). unfold self2. lra. }
      assert (UP : libscore p md sec true a b <= self2).
      { unfold libscore. apply sc_from_le; try assumption; rewrite ?DA, ?DB, ?same_seq; cbn [plus]; lia. }
      lra.
  Qed.

  (* self2 is the self-score the distance formula uses *)
  Lemma fold_self : forall (l : list Z) (acc : Q),
    fold_left (fun acc a => acc + (1 + factor p) * s a a) l acc ==
    acc + fold_right (fun a r => (1 + factor p) * s a a + r) 0 l.
  Proof.
    induction l as [|a l IH]; intros acc; cbn [fold_left fold_right]; [lra|]. rewrite IH. lra.
  Qed.

  Lemma wsum_skipn : forall (l : list Z) (j : nat), skipn j x = l ->
    (2 # 1) * wsum j (length l) == fold_right (fun a r => (1 + factor p) * s a a + r) 0 l.
  Proof.
    induction l as [|a l IH]; intros j E; cbn [length wsum fold_right]; [lra|].
    assert (Ea : nthZ x j = a).
    { unfold nthZ. rewrite <- (firstn_skipn j x) at 1. rewrite E.
      assert (L : length (firstn j x) = j).
      { rewrite firstn_length. apply Nat.min_l.
        assert (length (skipn j x) = S (length l)) by (rewrite E; reflexivity).
        rewrite skipn_length in H. lia. }
      rewrite app_nth2 by lia. rewrite L, Nat.sub_diag. reflexivity. }
    assert (El : skipn (S j) x = l).
    { exact (skipn_S_cons j x a l E). }
    rewrite <- (IH (S j) El). unfold w. rewrite Ea. ring.
  Qed.

  Lemma self_score_self2 : self_score p x == self2.
  Proof.
    unfold self_score, self2. rewrite fold_self. rewrite <- (wsum_skipn x 0 eq_refl). lra.
  Qed.

  (* hence the normalised distance of a word to itself is 0 (guard: the self-score is not 0,
     otherwise the Python divides by zero) *)
  Theorem self_distance_zero (sim : Q) : sim == self2 -> ~ self2 == 0 -> distance p sim == 0.
  Proof.
    intros E NZ. unfold distance. rewrite same_seq, self_score_self2, E. field. lra.
  Qed.
End Self.

(* ---------- the finite obligation over a scorer table, and what it gives ---------- *)
(* cs: the classes a word can receive (the range of the model's converter) *)
Definition entry_okb (cs : list Z) (sc : list (Z * Z * Q)) (e : Z * Z * Q) : bool :=
  let '(a, b, v) := e in
  if memz cs a && memz cs b then
    Qle_bool ((2 # 1) * v) (score_lookup sc a a + score_lookup sc b b) &&
    (if (a =? b)%Z then Qle_bool 0 v else true)
  else true.
Definition scorer_okb (cs : list Z) (sc : list (Z * Z * Q)) : bool := forallb (entry_okb cs sc) sc.

Lemma score_lookup_cases (sc : list (Z * Z * Q)) (a b : Z) :
  In (a, b, score_lookup sc a b) sc \/ score_lookup sc a b = 0.
Proof.
  induction sc as [|[[a' b'] q] tl IH]; cbn [score_lookup]; [right; reflexivity|].
  destruct ((a =? a')%Z && (b =? b')%Z) eqn:E.
  - apply andb_true_iff in E. destruct E as [E1 E2]. apply Z.eqb_eq in E1, E2. subst. left. left. reflexivity.
  - destruct IH as [H|H]; [left; right; exact H|right; exact H].
Qed.

Lemma memz_in (cs : list Z) (a : Z) : In a cs -> memz cs a = true.
Proof.
  intros H. unfold memz. apply existsb_exists. exists a. split; [exact H|apply Z.eqb_refl].
Qed.

Theorem scorer_ok_dominant (cs : list Z) (sc : list (Z * Z * Q)) : scorer_okb cs sc = true ->
  forall a b, In a cs -> In b cs ->
    0 <= score_lookup sc a a /\ (2 # 1) * score_lookup sc a b <= score_lookup sc a a + score_lookup sc b b.
Proof.
  intros H. unfold scorer_okb in H. rewrite forallb_forall in H.
  assert (D : forall a, In a cs -> 0 <= score_lookup sc a a).
  { intros a Ha. destruct (score_lookup_cases sc a a) as [I|E]; [|rewrite E; lra].
    specialize (H _ I). unfold entry_okb in H. rewrite (memz_in cs a Ha) in H. cbn [andb] in H.
    apply andb_true_iff in H. destruct H as [_ H].
    rewrite Z.eqb_refl in H. apply Qle_bool_iff in H. exact H. }
  intros a b Ha Hb. split; [apply D; exact Ha|].
  destruct (score_lookup_cases sc a b) as [I|E].
  - specialize (H _ I). unfold entry_okb in H. rewrite (memz_in cs a Ha), (memz_in cs b Hb) in H. cbn [andb] in H.
    apply andb_true_iff in H. destruct H as [H _]. apply Qle_bool_iff in H. exact H.
  - rewrite E. pose proof (D a Ha). pose proof (D b Hb). lra.
Qed.
