(* C01 for _malign: nw_align returns a valid alignment; sw_align's insert-based
   traceback returns prefix / aligned part / suffix that concatenate (after
   de-gapping) to the inputs. *)
From Coq Require Import QArith ZArith List Bool Arith Lia.
From LV Require Import Align.DP Align.DPProofs Align.Calign Align.Malign.
Import ListNotations.
Local Open Scope nat_scope.

(* ---------- list helpers ---------- *)
Lemma somes_length (l : list Z) : length (somes l) = length l.
Proof. apply map_length. Qed.

Lemma degap_somes (l : list Z) : degap (somes l) = l.
Proof. induction l as [|x l IH]; cbn; [reflexivity|f_equal; exact IH]. Qed.

Lemma insert_at_app {X} (l1 l2 : list X) (x : X) :
  insert_at (length l1) x (l1 ++ l2) = l1 ++ x :: l2.
Proof.
  unfold insert_at. rewrite firstn_app, skipn_app, Nat.sub_diag, firstn_all, skipn_all. cbn.
  rewrite app_nil_r. reflexivity.
Qed.

Lemma firstn_app_exact {X} (l1 l2 : list X) : firstn (length l1) (l1 ++ l2) = l1.
Proof. rewrite firstn_app, Nat.sub_diag, firstn_all. cbn. apply app_nil_r. Qed.

Lemma skipn_app_exact {X} (l1 l2 : list X) : skipn (length l1) (l1 ++ l2) = l2.
Proof. rewrite skipn_app, Nat.sub_diag, skipn_all. reflexivity. Qed.

Lemma slice_mid {X} (l1 l2 l3 : list X) :
  slice (length l1) (length l1 + length l2) (l1 ++ l2 ++ l3) = l2.
Proof.
  unfold slice. rewrite skipn_app_exact. replace (length l1 + length l2 - length l1) with (length l2) by lia.
  apply firstn_app_exact.
Qed.

Lemma skipn_two {X} (l1 l2 l3 : list X) :
  skipn (length l1 + length l2) (l1 ++ l2 ++ l3) = l3.
Proof.
  rewrite app_assoc. rewrite <- app_length. apply skipn_app_exact.
Qed.

Section NW.
  Variable A B : list Z.
  Variable sc : list (Z * Z * Q).
  Variable gap : Q.

  Theorem nw_align_valid : A <> [] -> B <> [] ->
    match nw_align A B sc gap with
    | RGlobal a b _ => valid_aln a b A B
    | _ => False
    end.
  Proof.
    intros HA HB. unfold nw_align.
    assert (EA : (M A =? 0) = false) by (apply Nat.eqb_neq; unfold M; destruct A; [congruence|discriminate]).
    assert (EB : (N B =? 0) = false) by (apply Nat.eqb_neq; unfold N; destruct B; [congruence|discriminate]).
    rewrite EA, EB. cbn [orb].
    destruct (trace_global_from_corner Z (fun i j => snd (nw_get A B sc gap i j)) A B) as [a [b [Ht Hv]]].
    - intros j Hj Hj'. unfold nw_get, nw_matrix. rewrite fill_spec by (unfold M, N; lia).
      cbn [spec]. unfold nw_row0. destruct j; [lia|reflexivity].
    - intros i Hi Hi'. unfold nw_get, nw_matrix. rewrite fill_spec by (unfold M, N; lia).
      destruct i; [lia|reflexivity].
    - unfold M, N. rewrite Ht. exact Hv.
  Qed.
End NW.

Section InsTrace.
  Variable A B : list Z.
  Variable tb : nat -> nat -> Z.
  Hypothesis tb_row0 : forall j, j <= length A -> tb 0 j = 0%Z.
  Hypothesis tb_col0 : forall i, i <= length B -> tb i 0 = 0%Z.
  Variable imax jmax : nat.
  Variable sA sB : list (option Z).

  Lemma firstn_pred_somes (l : list Z) k x : nth_error l (k - 1) = Some x -> 0 < k ->
    somes (firstn k l) = somes (firstn (k - 1) l) ++ [Some x].
  Proof.
    intros H Hk. replace k with (S (k - 1)) at 1 by lia.
    rewrite (firstn_S_nth_error l (k - 1) x H). unfold somes. rewrite map_app. reflexivity.
  Qed.

  Lemma ins_trace_inv : forall fuel i j ra rb igap jgap,
    i + j <= fuel -> i <= length B -> j <= length A ->
    length ra + j = jmax + jgap -> length rb + i = imax + igap ->
    length ra = length rb -> no_double_gap ra rb ->
    exists i' j' ra' rb' igap' jgap',
      ins_trace tb fuel i j (somes (firstn j A) ++ ra ++ sA) (somes (firstn i B) ++ rb ++ sB) igap jgap
        = Some (i', j', somes (firstn j' A) ++ ra' ++ sA, somes (firstn i' B) ++ rb' ++ sB, igap', jgap') /\
      i' <= length B /\ j' <= length A /\
      length ra' + j' = jmax + jgap' /\ length rb' + i' = imax + igap' /\
      length ra' = length rb' /\ no_double_gap ra' rb' /\
      firstn j' A ++ degap ra' = firstn j A ++ degap ra /\
      firstn i' B ++ degap rb' = firstn i B ++ degap rb.
  Proof.
    induction fuel as [|f IH]; intros i j ra rb igap jgap Hf Hi Hj La Lb HL HN.
    - assert (i = 0) by lia. assert (j = 0) by lia. subst. cbn [ins_trace].
      rewrite tb_row0 by lia. cbn [Z.eqb].
      exists 0, 0, ra, rb, igap, jgap. repeat split; auto; lia.
    - cbn [ins_trace]. destruct (Z.eqb_spec (tb i j) 0) as [E0|N0].
      { exists i, j, ra, rb, igap, jgap. repeat split; auto. }
      assert (Hi0 : 0 < i) by (destruct i; [rewrite tb_row0 in N0 by lia; congruence|lia]).
      assert (Hj0 : 0 < j) by (destruct j; [rewrite tb_col0 in N0 by lia; congruence|lia]).
      destruct (nth_error_some_lt B (i - 1)) as [x Hx]; [lia|].
      destruct (nth_error_some_lt A (j - 1)) as [y Hy]; [lia|].
      pose proof (firstn_pred_somes A j y Hy Hj0) as SA.
      pose proof (firstn_pred_somes B i x Hx Hi0) as SB.
      assert (FA : firstn j A = firstn (j - 1) A ++ [y]).
      { replace j with (S (j - 1)) at 1 by lia. apply firstn_S_nth_error. exact Hy. }
      assert (FB : firstn i B = firstn (i - 1) B ++ [x]).
      { replace i with (S (i - 1)) at 1 by lia. apply firstn_S_nth_error. exact Hx. }
      assert (LjA : length (somes (firstn j A)) = j) by (rewrite somes_length, firstn_length; lia).
      assert (LiB : length (somes (firstn i B)) = i) by (rewrite somes_length, firstn_length; lia).
      destruct (Z.eqb_spec (tb i j) 3) as [E3|N3].
      + (* gap inserted into A at j; B's symbol i-1 joins the aligned part *)
        pose proof (insert_at_app (somes (firstn j A)) (ra ++ sA) None) as IA. rewrite LjA in IA. rewrite IA. clear IA.
        rewrite SB. rewrite <- (app_assoc (somes (firstn (i - 1) B)) [Some x]). cbn [app].
        change (None :: ra ++ sA) with ((None :: ra) ++ sA).
        change (Some x :: rb ++ sB) with ((Some x :: rb) ++ sB).
        destruct (IH (i - 1) j (None :: ra) (Some x :: rb) igap (S jgap))
          as [i' [j' [ra' [rb' [ig' [jg' [Ht [Bi [Bj [La' [Lb' [HL' [HN' [Da Db]]]]]]]]]]]]]];
          try lia; try (cbn [length]; lia).
        { cbn [no_double_gap]. split; [right; discriminate|exact HN]. }
        exists i', j', ra', rb', ig', jg'. split; [exact Ht|]. repeat split; auto.
        rewrite Db, FB. cbn [degap]. rewrite <- app_assoc. reflexivity.
      + destruct (Z.eqb_spec (tb i j) 1) as [E1|N1].
        * rewrite SA, SB.
          rewrite <- (app_assoc (somes (firstn (j - 1) A)) [Some y]).
          rewrite <- (app_assoc (somes (firstn (i - 1) B)) [Some x]). cbn [app].
          change (Some y :: ra ++ sA) with ((Some y :: ra) ++ sA).
          change (Some x :: rb ++ sB) with ((Some x :: rb) ++ sB).
          destruct (IH (i - 1) (j - 1) (Some y :: ra) (Some x :: rb) igap jgap)
            as [i' [j' [ra' [rb' [ig' [jg' [Ht [Bi [Bj [La' [Lb' [HL' [HN' [Da Db]]]]]]]]]]]]]];
            try lia; try (cbn [length]; lia).
          { cbn [no_double_gap]. split; [left; discriminate|exact HN]. }
          exists i', j', ra', rb', ig', jg'. split; [exact Ht|]. repeat split; auto.
          -- rewrite Da, FA. cbn [degap]. rewrite <- app_assoc. reflexivity.
          -- rewrite Db, FB. cbn [degap]. rewrite <- app_assoc. reflexivity.
        * destruct (Z.eqb_spec (tb i j) 2) as [E2|N2].
          -- pose proof (insert_at_app (somes (firstn i B)) (rb ++ sB) None) as IB. rewrite LiB in IB. rewrite IB. clear IB.
             rewrite SA. rewrite <- (app_assoc (somes (firstn (j - 1) A)) [Some y]). cbn [app].
             change (None :: rb ++ sB) with ((None :: rb) ++ sB).
             change (Some y :: ra ++ sA) with ((Some y :: ra) ++ sA).
             destruct (IH i (j - 1) (Some y :: ra) (None :: rb) (S igap) jgap)
               as [i' [j' [ra' [rb' [ig' [jg' [Ht [Bi [Bj [La' [Lb' [HL' [HN' [Da Db]]]]]]]]]]]]]];
               try lia; try (cbn [length]; lia).
             { cbn [no_double_gap]. split; [left; discriminate|exact HN]. }
             exists i', j', ra', rb', ig', jg'. split; [exact Ht|]. repeat split; auto.
             rewrite Da, FA. cbn [degap]. rewrite <- app_assoc. reflexivity.
          -- exists i, j, ra, rb, igap, jgap. repeat split; auto.
  Qed.
End InsTrace.

Section SW.
  Variable A B : list Z.
  Variable sc : list (Z * Z * Q).
  Variable gap : Q.

  Lemma sw_best_bounds :
    let '(k, l, _) := sw_best A B sc gap in k <= N B /\ l <= M A.
  Proof.
    unfold sw_best.
    set (g := fun i (acc : nat * nat * Q) j => let v := fst (sw_get A B sc gap i j) in
                              if qge v (snd acc) then (i, j, v) else acc).
    assert (Hin : forall i l acc, i <= N B -> (forall j, In j l -> j <= M A) ->
              (let '(k, l', _) := acc in k <= N B /\ l' <= M A) ->
              let '(k, l', _) := fold_left (g i) l acc in k <= N B /\ l' <= M A).
    { intros i l. induction l as [|j l IH]; intros acc Hi Hl Hacc; cbn [fold_left]; [exact Hacc|].
      apply IH; [exact Hi|intros j' Hj'; apply Hl; right; exact Hj'|].
      unfold g. cbn zeta. destruct (qge _ _); [|exact Hacc]. split; [exact Hi|apply Hl; left; reflexivity]. }
    assert (Hout : forall l acc, (forall i, In i l -> i <= N B) ->
              (let '(k, l', _) := acc in k <= N B /\ l' <= M A) ->
              let '(k, l', _) := fold_left (fun acc i => fold_left (g i) (seq 1 (M A)) acc) l acc in
              k <= N B /\ l' <= M A).
    { induction l as [|i l IH]; intros acc Hl Hacc; cbn [fold_left]; [exact Hacc|].
      apply IH; [intros i' Hi'; apply Hl; right; exact Hi'|].
      apply Hin; [apply Hl; left; reflexivity| |exact Hacc].
      intros j Hj. apply in_seq in Hj. lia. }
    apply Hout; [|lia].
    intros i Hi. apply in_seq in Hi. lia.
  Qed.

  (* C01 for sw_align: the three slices of each gapped copy *)
  Theorem sw_align_valid : A <> [] -> B <> [] ->
    match sw_align A B sc gap with
    | SW pa a sa pb b sb _ =>
        (exists j' l, pa = somes (firstn j' A) /\ sa = somes (skipn l A)) /\
        (exists i' k, pb = somes (firstn i' B) /\ sb = somes (skipn k B)) /\
        length a = length b /\ no_double_gap a b /\
        degap pa ++ degap a ++ degap sa = A /\ degap pb ++ degap b ++ degap sb = B
    | SWError => False
    end.
  Proof.
    intros HA HB. unfold sw_align.
    assert (EA : (M A =? 0) = false) by (apply Nat.eqb_neq; unfold M; destruct A; [congruence|discriminate]).
    assert (EB : (N B =? 0) = false) by (apply Nat.eqb_neq; unfold N; destruct B; [congruence|discriminate]).
    rewrite EA, EB. cbn [orb].
    pose proof sw_best_bounds as Hb. destruct (sw_best A B sc gap) as [[imax jmax] v]. destruct Hb as [Hk Hl].
    unfold M, N in Hk, Hl.
    assert (R0 : forall j, j <= length A -> snd (sw_get A B sc gap 0 j) = 0%Z).
    { intros j Hj. unfold sw_get, sw_matrix. rewrite fill_spec by (unfold M, N; lia). reflexivity. }
    assert (C0 : forall i, i <= length B -> snd (sw_get A B sc gap i 0) = 0%Z).
    { intros i Hi. unfold sw_get, sw_matrix. rewrite fill_spec by (unfold M, N; lia).
      destruct i; reflexivity. }
    destruct (ins_trace_inv A B (fun i j => snd (sw_get A B sc gap i j)) R0 C0 imax jmax
                (somes (skipn jmax A)) (somes (skipn imax B)) (imax + jmax) imax jmax [] [] 0 0)
      as [i' [j' [ra' [rb' [ig' [jg' [Ht [Bi [Bj [La [Lb [HL [HN [Da Db]]]]]]]]]]]]]]; try lia; try exact I; try (cbn [length]; lia).
    cbn [app] in Ht. unfold somes in Ht at 1 2 3 4. rewrite <- !map_app, !firstn_skipn in Ht.
    fold (somes A) in Ht. fold (somes B) in Ht. rewrite Ht.
      assert (L1 : length (somes (firstn j' A)) = j') by (rewrite somes_length, firstn_length; lia).
      assert (L2 : length (somes (firstn i' B)) = i') by (rewrite somes_length, firstn_length; lia).
      assert (E1 : jmax + jg' = length (somes (firstn j' A)) + length ra') by lia.
      assert (E2 : imax + ig' = length (somes (firstn i' B)) + length rb') by lia.
      rewrite E1, E2.
      pose proof (firstn_app_exact (somes (firstn j' A)) (ra' ++ somes (skipn jmax A))) as F1. rewrite L1 in F1.
      pose proof (firstn_app_exact (somes (firstn i' B)) (rb' ++ somes (skipn imax B))) as F2. rewrite L2 in F2.
      pose proof (slice_mid (somes (firstn j' A)) ra' (somes (skipn jmax A))) as S1. rewrite L1 in S1 at 1.
      pose proof (slice_mid (somes (firstn i' B)) rb' (somes (skipn imax B))) as S2. rewrite L2 in S2 at 1.
      rewrite F1, F2, S1, S2, !skipn_two.
      split; [exists j', jmax; auto|]. split; [exists i', imax; auto|].
      split; [exact HL|]. split; [exact HN|].
      rewrite !degap_somes. cbn [degap] in Da, Db. rewrite app_nil_r in Da, Db.
      split; rewrite app_assoc; [rewrite Da|rewrite Db]; apply firstn_skipn.
  Qed.
End SW.
