(* C01 for _malign.we_align (Waterman-Eggert): every returned triple has rows of equal length,
   no double-gap column, and de-gapped rows that are contiguous sub-lists of the inputs; and the
   outer `while True` loop terminates (each round zeroes the cell it started from). *)
From Coq Require Import QArith ZArith List Bool Arith Lia Lqa.
From LV Require Import Align.DP Align.DPProofs Align.Calign Align.LibScoreProofs Align.Malign Align.MalignProofs.
Import ListNotations.
Local Open Scope nat_scope.

(* ---------- tables built by map over seq ---------- *)
Lemma nth_map_seq {X} (f : nat -> X) (n k : nat) (d : X) : k < n -> nth k (map f (seq 0 n)) d = f k.
Proof.
  intros H. rewrite (nth_indep _ d (f 0)) by (rewrite map_length, seq_length; exact H).
  rewrite (map_nth f). rewrite seq_nth by exact H. reflexivity.
Qed.

Lemma length_concat_rows {X} (f : nat -> nat -> X) (r c : nat) :
  length (concat (map (fun i => map (f i) (seq 0 c)) (seq 0 r))) = r * c.
Proof.
  generalize 0 at 2. induction r as [|r IH]; intros s; cbn [seq map concat length mult]; [reflexivity|].
  rewrite app_length, map_length, seq_length, IH. reflexivity.
Qed.

Lemma nth_concat_rows {X} (f : nat -> nat -> X) (r c i j : nat) (d : X) : i < r -> j < c ->
  nth (i * c + j) (concat (map (fun i => map (f i) (seq 0 c)) (seq 0 r))) d = f i j.
Proof.
  assert (G : forall r s i, i < r -> j < c ->
            nth (i * c + j) (concat (map (fun i => map (f i) (seq 0 c)) (seq s r))) d = f (s + i) j).
  { induction r0 as [|r0 IH]; intros s i0 Hi Hj; [lia|]. cbn [seq map concat].
    destruct i0 as [|i0].
    - cbn [mult plus]. rewrite app_nth1 by (rewrite map_length, seq_length; exact Hj).
      rewrite nth_map_seq by exact Hj. rewrite Nat.add_0_r. reflexivity.
    - rewrite app_nth2 by (rewrite map_length, seq_length; cbn [mult]; lia).
      rewrite map_length, seq_length. replace (S i0 * c + j - c) with (i0 * c + j) by (cbn [mult]; lia).
      rewrite IH by lia. f_equal. lia. }
  intros Hi Hj. rewrite G by assumption. reflexivity.
Qed.

Section WE.
  Variable A B : list Z.
  Variable sc : list (Z * Z * Q).
  Variable gap : Q.
  Notation Mx := (length A).
  Notation Nx := (length B).

  Definition tb_ok (tb : list (list Z)) : Prop :=
    (forall j, j <= Mx -> tb_get tb 0 j = 0%Z) /\ (forall i, i <= Nx -> tb_get tb i 0 = 0%Z).

  Lemma tb_get_table (f : nat -> nat -> Z) i j : i <= Nx -> j <= Mx ->
    tb_get (map (fun i => map (fun j => f i j) (seq 0 (S Mx))) (seq 0 (S Nx))) i j = f i j.
  Proof.
    intros Hi Hj. unfold tb_get.
    rewrite (nth_map_seq (fun i => map (fun j => f i j) (seq 0 (S Mx))) (S Nx) i []) by lia.
    apply nth_map_seq. lia.
  Qed.

  Lemma zero_region_tb_ok imin imax jmin jmax tracer tb : tb_ok tb ->
    tb_ok (snd (zero_region A B imin imax jmin jmax tracer tb)).
  Proof.
    intros [R C]. unfold zero_region. cbn [snd]. unfold Malign.M, Malign.N. split.
    - intros j Hj. rewrite tb_get_table by lia. cbn [Nat.ltb Nat.leb andb]. apply R. exact Hj.
    - intros i Hi. rewrite tb_get_table by lia.
      replace (0 <? 0) with false by reflexivity. rewrite andb_false_r. cbn [andb]. apply C. exact Hi.
  Qed.

  Lemma tb_get_map_snd (m : list (list cellT)) i j :
    tb_get (map (map snd) m) i j = snd (get (0%Q, 0%Z) m i j).
  Proof.
    unfold tb_get, get.
    pose proof (map_nth (map (@snd Q Z)) m [] i) as E1. cbn [map] in E1. rewrite E1.
    pose proof (map_nth (@snd Q Z) (nth i m []) (0%Q, 0%Z) j) as E2. cbn [snd] in E2. exact E2.
  Qed.

  Lemma we_tb0_ok : tb_ok (we_tb0 A B sc gap).
  Proof.
    unfold we_tb0. split.
    - intros j Hj. rewrite tb_get_map_snd. unfold sw_matrix. rewrite fill_spec by (unfold Malign.N, Malign.M; lia).
      reflexivity.
    - intros i Hi. rewrite tb_get_map_snd. unfold sw_matrix. rewrite fill_spec by (unfold Malign.N, Malign.M; lia).
      destruct i; reflexivity.
  Qed.

  (* what one extraction returns *)
  Definition triple_ok (t : list (option Z) * list (option Z) * Q) : Prop :=
    let '(a, b, _) := t in
    length a = length b /\ no_double_gap a b /\
    (exists pre suf, A = pre ++ degap a ++ suf) /\ (exists pre suf, B = pre ++ degap b ++ suf).

  Lemma extraction_ok tb i j : tb_ok tb -> i <= Nx -> j <= Mx ->
    exists imin jmin almA almB igap jgap,
      ins_trace (tb_get tb) (i + j) i j (somes A) (somes B) 0 0 = Some (imin, jmin, almA, almB, igap, jgap) /\
      forall s, triple_ok (slice jmin (j + jgap) almA, slice imin (i + igap) almB, s).
  Proof.
    intros [R C] Hi Hj.
    destruct (ins_trace_inv A B (tb_get tb) R C i j (somes (skipn j A)) (somes (skipn i B)) (i + j) i j [] [] 0 0)
      as [i' [j' [ra' [rb' [ig' [jg' [Ht [Bi [Bj [La [Lb [HL [HN [Da Db]]]]]]]]]]]]]];
      try lia; try exact I; try (cbn [length]; lia).
    cbn [app] in Ht. unfold somes in Ht at 1 2 3 4. rewrite <- !map_app, !firstn_skipn in Ht.
    fold (somes A) in Ht. fold (somes B) in Ht.
    exists i', j', (somes (firstn j' A) ++ ra' ++ somes (skipn j A)),
      (somes (firstn i' B) ++ rb' ++ somes (skipn i B)), ig', jg'.
    split; [exact Ht|]. intros s.
    assert (L1 : length (somes (firstn j' A)) = j') by (rewrite somes_length, firstn_length; lia).
    assert (L2 : length (somes (firstn i' B)) = i') by (rewrite somes_length, firstn_length; lia).
    cbn [degap] in Da, Db. rewrite app_nil_r in Da, Db.
    assert (E1 : j + jg' = length (somes (firstn j' A)) + length ra') by lia.
    assert (E2 : i + ig' = length (somes (firstn i' B)) + length rb') by lia.
    pose proof (slice_mid (somes (firstn j' A)) ra' (somes (skipn j A))) as S1. rewrite L1 in S1 at 1.
    pose proof (slice_mid (somes (firstn i' B)) rb' (somes (skipn i B))) as S2. rewrite L2 in S2 at 1.
    unfold triple_ok. rewrite E1, E2, S1, S2.
    split; [exact HL|]. split; [exact HN|]. split.
    - exists (firstn j' A), (skipn j A). rewrite app_assoc, Da. symmetry. apply firstn_skipn.
    - exists (firstn i' B), (skipn i B). rewrite app_assoc, Db. symmetry. apply firstn_skipn.
  Qed.

  Lemma idx_bounds (idx : nat) : idx < S Nx * S Mx ->
    idx / S Mx <= Nx /\ idx - idx / S Mx * S Mx <= Mx.
  Proof.
    intros H. split.
    - assert (idx / S Mx < S Nx) by (apply Nat.div_lt_upper_bound; lia). lia.
    - pose proof (Nat.mod_upper_bound idx (S Mx) ltac:(lia)) as U.
      pose proof (Nat.div_mod idx (S Mx) ltac:(lia)) as D. lia.
  Qed.

  Lemma last_index_lt (l : list Q) (v : Q) : l <> [] -> last_index_eq l v < length l.
  Proof.
    intros NE. unfold last_index_eq.
    assert (G : forall l k best,
              let r := snd (fold_left (fun '(k, best) x => (S k, if Qeq_bool x v then k else best)) l (k, best)) in
              r = best \/ (k <= r /\ r < k + length l)).
    { induction l0 as [|x t IH]; intros k best; cbn [fold_left length snd]; [left; reflexivity|].
      specialize (IH (S k) (if Qeq_bool x v then k else best)). cbv zeta in IH.
      destruct IH as [E|[E1 E2]].
      - rewrite E. destruct (Qeq_bool x v); [right; lia|left; reflexivity].
      - right. lia. }
    specialize (G l 0 0). cbv zeta in G. destruct l as [|x t]; [congruence|].
    destruct G as [E|[_ E]]; [rewrite E; cbn [length]; lia|exact E].
  Qed.

  Lemma tracer_len_zero imin imax jmin jmax tracer tb :
    length (fst (zero_region A B imin imax jmin jmax tracer tb)) = S Nx * S Mx.
  Proof. unfold zero_region. cbn [fst]. unfold Malign.N, Malign.M. apply length_concat_rows. Qed.

  (* every triple we_align returns is a valid local alignment *)
  Theorem we_loop_valid : forall fuel tracer tb out,
    length tracer = S Nx * S Mx -> tb_ok tb ->
    we_loop A B sc gap fuel tracer tb = Some out -> Forall triple_ok out.
  Proof.
    induction fuel as [|f IH]; intros tracer tb out HL HT HW; cbn [we_loop] in HW.
    - destruct (Qeq_bool _ 0); [inversion HW; constructor|discriminate].
    - destruct (Qeq_bool _ 0); [inversion HW; constructor|].
      set (idx := last_index_eq tracer (qmax_list tracer)) in *.
      assert (Hidx : idx < S Nx * S Mx).
      { rewrite <- HL. apply last_index_lt. intros E. rewrite E in HL. cbn [length] in HL. lia. }
      destruct (idx_bounds idx Hidx) as [Bi Bj]. unfold Malign.M in HW.
      destruct (extraction_ok tb (idx / S Mx) (idx - idx / S Mx * S Mx) HT Bi Bj)
        as [imin [jmin [almA [almB [ig [jg [Ht OK]]]]]]].
      rewrite Ht in HW.
      destruct (zero_region A B imin (idx / S Mx) jmin (idx - idx / S Mx * S Mx) tracer tb) as [tracer' tb'] eqn:EZ.
      destruct (we_loop A B sc gap f tracer' tb') as [rest|] eqn:ER; [|discriminate].
      inversion HW; subst. constructor; [apply OK|].
      apply (IH tracer' tb' rest); [| |exact ER].
      + pose proof (tracer_len_zero imin (idx / S Mx) jmin (idx - idx / S Mx * S Mx) tracer tb) as L. rewrite EZ in L. exact L.
      + pose proof (zero_region_tb_ok imin (idx / S Mx) jmin (idx - idx / S Mx * S Mx) tracer tb HT) as T. rewrite EZ in T. exact T.
  Qed.

  Theorem we_align_valid : forall out, we_align A B sc gap = Some out -> Forall triple_ok out.
  Proof.
    intros out H. unfold we_align in H.
    apply (we_loop_valid _ _ _ out) in H; [exact H| |exact we_tb0_ok].
    unfold we_tracer0, Malign.N, Malign.M. apply length_concat_rows.
  Qed.

  (* ---------------- termination of the outer loop ---------------- *)
  Definition nzb (x : Q) : bool := negb (Qeq_bool x 0).
  Definition nz (l : list Q) : nat := length (filter nzb l).

  Lemma nz_le : forall (l l' : list Q), length l = length l' ->
    (forall k, k < length l -> nzb (nth k l' 0%Q) = false \/ nth k l' 0%Q = nth k l 0%Q) -> nz l' <= nz l.
  Proof.
    induction l as [|x t IH]; intros l' HL H; destruct l' as [|x' t']; try discriminate; [unfold nz; cbn; lia|].
    cbn [length] in HL. unfold nz in *. cbn [filter].
    assert (IH' : length (filter nzb t') <= length (filter nzb t)).
    { apply IH; [lia|]. intros k Hk. apply (H (S k)). cbn [length]. lia. }
    destruct (H 0 ltac:(cbn [length]; lia)) as [E|E]; cbn [nth] in E.
    - rewrite E. destruct (nzb x); cbn [length]; lia.
    - subst x'. destruct (nzb x); cbn [length]; lia.
  Qed.

  Lemma nz_lt : forall (l l' : list Q) (k0 : nat), length l = length l' -> k0 < length l ->
    (forall k, k < length l -> nzb (nth k l' 0%Q) = false \/ nth k l' 0%Q = nth k l 0%Q) ->
    nzb (nth k0 l 0%Q) = true -> nzb (nth k0 l' 0%Q) = false -> nz l' < nz l.
  Proof.
    induction l as [|x t IH]; intros l' k0 HL Hk H N1 N2; destruct l' as [|x' t']; try discriminate;
      [cbn [length] in Hk; lia|].
    cbn [length] in HL, Hk. unfold nz in *. cbn [filter].
    destruct k0 as [|k0].
    - cbn [nth] in N1, N2. rewrite N1, N2. cbn [length].
      assert (length (filter nzb t') <= length (filter nzb t)).
      { apply nz_le; [lia|]. intros k Hk'. apply (H (S k)). cbn [length]. lia. }
      lia.
    - assert (IH' : length (filter nzb t') < length (filter nzb t)).
      { apply (IH t' k0); [lia|lia| |exact N1|exact N2]. intros k Hk'. apply (H (S k)). cbn [length]. lia. }
      destruct (H 0 ltac:(cbn [length]; lia)) as [E|E]; cbn [nth] in E.
      + rewrite E. destruct (nzb x); cbn [length]; lia.
      + subst x'. destruct (nzb x); cbn [length]; lia.
  Qed.

  (* the maximum of a non-empty list is one of its elements, and last_index_eq finds it *)
  Lemma qmax_in : forall (l : list Q) (m : Q), In (fold_left (fun m x => if qgt x m then x else m) l m) (m :: l).
  Proof.
    induction l as [|x t IH]; intros m; cbn [fold_left]; [left; reflexivity|].
    destruct (IH (if qgt x m then x else m)) as [E|E].
    - rewrite <- E. destruct (qgt x m); [right; left; reflexivity|left; reflexivity].
    - right. right. exact E.
  Qed.

  Lemma last_index_hit (l : list Q) (v : Q) : (exists x, In x l /\ Qeq_bool x v = true) ->
    Qeq_bool (nth (last_index_eq l v) l 0%Q) v = true.
  Proof.
    unfold last_index_eq.
    assert (G : forall t pre best,
              (best < length pre /\ Qeq_bool (nth best (pre ++ t) 0%Q) v = true) \/
              (exists x, In x t /\ Qeq_bool x v = true) ->
              let r := snd (fold_left (fun '(k, best) x => (S k, if Qeq_bool x v then k else best)) t (length pre, best)) in
              Qeq_bool (nth r (pre ++ t) 0%Q) v = true).
    { induction t as [|x t IH]; intros pre best H; cbn [fold_left snd].
      - destruct H as [[_ H]|[y [[] _]]]. exact H.
      - specialize (IH (pre ++ [x]) (if Qeq_bool x v then length pre else best)).
        rewrite app_length in IH. cbn [length] in IH. replace (length pre + 1) with (S (length pre)) in IH by lia.
        rewrite <- app_assoc in IH. cbn [app] in IH. apply IH.
        destruct (Qeq_bool x v) eqn:Ex.
        + left. split; [lia|]. rewrite app_nth2 by lia. rewrite Nat.sub_diag. exact Ex.
        + destruct H as [[H1 H2]|[y [[Ey|Hy] Hv]]].
          * left. split; [lia|exact H2].
          * subst y. congruence.
          * right. exists y. auto. }
    intros H. specialize (G l [] 0). cbn [app length] in G. apply G. right. exact H.
  Qed.

  Lemma ins_trace_mono (tb : nat -> nat -> Z) : forall f i j a b ig jg i' j' a' b' ig' jg',
    ins_trace tb f i j a b ig jg = Some (i', j', a', b', ig', jg') -> i' <= i /\ j' <= j.
  Proof.
    induction f as [|f IH]; intros i j a b ig jg i' j' a' b' ig' jg' H; cbn [ins_trace] in H.
    - destruct (_ =? 0)%Z; [inversion H; subst; lia|discriminate].
    - destruct (_ =? 0)%Z; [inversion H; subst; lia|].
      destruct (_ =? 3)%Z; [apply IH in H; lia|].
      destruct (_ =? 1)%Z; [apply IH in H; lia|].
      destruct (_ =? 2)%Z; [apply IH in H; lia|inversion H; subst; lia].
  Qed.

  Lemma ins_trace_progress (tb : nat -> nat -> Z) f i j a b ig jg i' j' a' b' ig' jg' :
    (tb i j = 1 \/ tb i j = 2 \/ tb i j = 3)%Z -> 0 < i -> 0 < j ->
    ins_trace tb (S f) i j a b ig jg = Some (i', j', a', b', ig', jg') -> i' < i \/ j' < j.
  Proof.
    intros T Hi Hj H. cbn [ins_trace] in H.
    destruct (Z.eqb_spec (tb i j) 0) as [E|N0]; [lia|].
    destruct (Z.eqb_spec (tb i j) 3) as [E|N3]; [apply ins_trace_mono in H; lia|].
    destruct (Z.eqb_spec (tb i j) 1) as [E|N1]; [apply ins_trace_mono in H; lia|].
    destruct (Z.eqb_spec (tb i j) 2) as [E|N2]; [apply ins_trace_mono in H; lia|lia].
  Qed.

  Definition we_inv (tracer : list Q) (tb : list (list Z)) : Prop :=
    length tracer = S Nx * S Mx /\ tb_ok tb /\
    (forall i j, i <= Nx -> j <= Mx ->
       (tb_get tb i j = 0 \/ tb_get tb i j = 1 \/ tb_get tb i j = 2 \/ tb_get tb i j = 3)%Z) /\
    (forall i j, i <= Nx -> j <= Mx -> nzb (nth (i * S Mx + j) tracer 0%Q) = true -> tb_get tb i j <> 0%Z).

  Lemma nzb_eq (x y : Q) : Qeq_bool x y = true -> nzb x = nzb y.
  Proof.
    intros E. apply Qeq_bool_iff in E. unfold nzb. f_equal.
    destruct (Qeq_bool x 0) eqn:A1; destruct (Qeq_bool y 0) eqn:A2; try reflexivity.
    - apply Qeq_bool_iff in A1. assert (H : (y == 0)%Q) by (rewrite <- E; exact A1).
      apply Qeq_bool_iff in H. congruence.
    - apply Qeq_bool_iff in A2. assert (H : (x == 0)%Q) by (rewrite E; exact A2).
      apply Qeq_bool_iff in H. congruence.
  Qed.

  Lemma nz_zero_all (l : list Q) : nz l = 0 -> forall x, In x l -> nzb x = false.
  Proof.
    unfold nz. induction l as [|y t IH]; intros H x Hx; [destruct Hx|].
    cbn [filter] in H. destruct (nzb y) eqn:E; [cbn [length] in H; lia|].
    destruct Hx as [<-|Hx]; [exact E|apply IH; assumption].
  Qed.

  Lemma qmax_list_in (l : list Q) : l <> [] -> In (qmax_list l) l.
  Proof.
    intros NE. destruct l as [|x t]; [congruence|]. unfold qmax_list. cbn [hd tl]. apply qmax_in.
  Qed.

  Theorem we_loop_total : forall fuel tracer tb,
    we_inv tracer tb -> nz tracer <= fuel -> we_loop A B sc gap fuel tracer tb <> None.
  Proof.
    induction fuel as [|f IH]; intros tracer tb [HL [HT [H4 H3]]] HN.
    - cbn [we_loop].
      assert (NE : tracer <> []) by (intros E; rewrite E in HL; cbn [length] in HL; lia).
      pose proof (nz_zero_all tracer ltac:(lia) _ (qmax_list_in tracer NE)) as Z.
      unfold nzb in Z. apply negb_false_iff in Z. rewrite Z. discriminate.
    - cbn [we_loop].
      assert (NE : tracer <> []) by (intros E; rewrite E in HL; cbn [length] in HL; lia).
      destruct (Qeq_bool (qmax_list tracer) 0) eqn:EM; [discriminate|].
      set (mx := qmax_list tracer) in *.
      set (idx := last_index_eq tracer mx).
      assert (Hidx : idx < S Nx * S Mx) by (rewrite <- HL; apply last_index_lt; exact NE).
      destruct (idx_bounds idx Hidx) as [Bi Bj]. unfold Malign.M.
      set (i := idx / S Mx) in *. set (j := idx - i * S Mx) in *.
      assert (Eidx : idx = i * S Mx + j).
      { subst j. pose proof (Nat.mul_div_le idx (S Mx) ltac:(lia)). subst i. lia. }
      assert (NZ : nzb (nth idx tracer 0%Q) = true).
      { assert (Hhit : Qeq_bool (nth idx tracer 0%Q) mx = true).
        { apply last_index_hit. exists mx. split; [apply qmax_list_in; exact NE|]. apply Qeq_bool_iff. reflexivity. }
        rewrite (nzb_eq _ _ Hhit). unfold nzb. rewrite EM. reflexivity. }
      assert (T0 : tb_get tb i j <> 0%Z) by (apply H3; [exact Bi|exact Bj|rewrite <- Eidx; exact NZ]).
      destruct HT as [R C].
      assert (Hi0 : 0 < i) by (destruct i; [exfalso; apply T0; apply R; exact Bj|lia]).
      assert (Hj0 : 0 < j) by (destruct j; [exfalso; apply T0; apply C; exact Bi|lia]).
      destruct (extraction_ok tb i j (conj R C) Bi Bj) as [imin [jmin [almA [almB [ig [jg [Ht _]]]]]]].
      rewrite Ht.
      assert (PR : imin < i \/ jmin < j).
      { destruct (i + j) eqn:Ef; [lia|].
        apply (ins_trace_progress (tb_get tb) n i j (somes A) (somes B) 0 0 imin jmin almA almB ig jg); try assumption.
        destruct (H4 i j Bi Bj) as [E|E]; [congruence|exact E]. }
      pose proof (ins_trace_mono _ _ _ _ _ _ _ _ _ _ _ _ _ _ Ht) as [Mi Mj].
      rewrite (surjective_pairing (zero_region A B imin i jmin j tracer tb)).
      set (tracer' := fst (zero_region A B imin i jmin j tracer tb)).
      set (tb' := snd (zero_region A B imin i jmin j tracer tb)).
      assert (INV' : we_inv tracer' tb' /\ nz tracer' < nz tracer).
      { pose proof (tracer_len_zero imin i jmin j tracer tb) as L'. fold tracer' in L'.
        pose proof (zero_region_tb_ok imin i jmin j tracer tb (conj R C)) as T'. fold tb' in T'.
        set (hit := fun i0 j0 => (0 <? i0) && (0 <? j0) &&
                                 ((imin <? i0) && (i0 <=? i) || (jmin <? j0) && (j0 <=? j))).
        assert (TR : forall i0 j0, i0 <= Nx -> j0 <= Mx ->
                  nth (i0 * S Mx + j0) tracer' 0%Q = if hit i0 j0 then 0%Q else nth (i0 * S Mx + j0) tracer 0%Q).
        { intros i0 j0 Hi Hj. subst tracer'. unfold zero_region. cbn [fst]. unfold Malign.N, Malign.M.
          apply (nth_concat_rows (fun i1 j1 => if hit i1 j1 then 0%Q else nth (i1 * S Mx + j1) tracer 0%Q)); lia. }
        assert (TB : forall i0 j0, i0 <= Nx -> j0 <= Mx ->
                  tb_get tb' i0 j0 = if hit i0 j0 then 0%Z else tb_get tb i0 j0).
        { intros i0 j0 Hi Hj. subst tb'. unfold zero_region. cbn [snd]. unfold Malign.N, Malign.M.
          apply (tb_get_table (fun i1 j1 => if hit i1 j1 then 0%Z else tb_get tb i1 j1)); assumption. }
        split.
        - split; [exact L'|]. split; [exact T'|]. split.
          + intros i0 j0 Hi Hj. rewrite TB by assumption. destruct (hit i0 j0); [left; reflexivity|apply H4; assumption].
          + intros i0 j0 Hi Hj. rewrite TR, TB by assumption. destruct (hit i0 j0); [discriminate|apply H3; assumption].
        - apply (nz_lt tracer tracer' idx); [congruence|lia| |exact NZ|].
          + intros k Hk. rewrite HL in Hk.
            destruct (idx_bounds k Hk) as [Ki Kj].
            assert (Ek : k = k / S Mx * S Mx + (k - k / S Mx * S Mx)).
            { pose proof (Nat.mul_div_le k (S Mx) ltac:(lia)). lia. }
            rewrite Ek. rewrite TR by assumption. destruct (hit _ _); [left; reflexivity|right; reflexivity].
          + rewrite Eidx. rewrite TR by assumption.
            assert (HH : hit i j = true).
            { unfold hit. apply andb_true_iff. split.
              - apply andb_true_iff. split; apply Nat.ltb_lt; assumption.
              - apply orb_true_iff. destruct PR as [P|P]; [left|right]; apply andb_true_iff;
                  (split; [apply Nat.ltb_lt; exact P|apply Nat.leb_le; lia]). }
            rewrite HH. reflexivity. }
      destruct INV' as [INV' LT].
      specialize (IH tracer' tb' INV' ltac:(lia)).
      destruct (we_loop A B sc gap f tracer' tb'); [discriminate|congruence].
  Qed.

  Lemma we_inv_init : we_inv (we_tracer0 A B sc gap) (we_tb0 A B sc gap).
  Proof.
    assert (TBG : forall i j, tb_get (we_tb0 A B sc gap) i j = snd (sw_get A B sc gap i j))
      by (intros; apply tb_get_map_snd).
    assert (SG : forall i j, i <= Nx -> j <= Mx ->
              sw_get A B sc gap i j = spec z0 z0 (sw_cell A B sc gap) i j).
    { intros i j Hi Hj. unfold sw_get, sw_matrix. apply fill_spec; unfold Malign.N, Malign.M; lia. }
    assert (CC : forall i j, let c := spec z0 z0 (sw_cell A B sc gap) i j in
              (snd c = 0 \/ snd c = 1 \/ snd c = 2 \/ snd c = 3)%Z /\ (snd c = 0%Z -> fst c = 0%Q)).
    { intros i j. cbv zeta. destruct i as [|i]; [cbn [spec]; unfold z0; cbn; auto|].
      destruct j as [|j]; [rewrite spec_col0; unfold z0; cbn; auto|].
      rewrite spec_cell. unfold sw_cell.
      match goal with |- context [choose4 ?a ?b ?c] =>
        destruct (choose4_cases a b c) as [E|[E|[E|E]]]; rewrite E; cbn [fst snd] end;
        (split; [auto|intros; try discriminate; reflexivity]). }
    split; [unfold we_tracer0, Malign.N, Malign.M; apply length_concat_rows|].
    split; [exact we_tb0_ok|]. split.
    - intros i j Hi Hj. rewrite TBG, SG by assumption. exact (proj1 (CC i j)).
    - intros i j Hi Hj NZ E. rewrite TBG, SG in E by assumption.
      unfold we_tracer0, Malign.N, Malign.M in NZ.
      rewrite (nth_concat_rows (fun i0 j0 => match i0, j0 with
                                             | S _, S _ => fst (sw_get A B sc gap i0 j0) | _, _ => 0%Q end)) in NZ by lia.
      destruct i as [|i]; [discriminate|]. destruct j as [|j]; [discriminate|].
      rewrite SG in NZ by assumption. rewrite (proj2 (CC (S i) (S j)) E) in NZ. discriminate.
  Qed.

  (* the `while True` loop of we_align terminates: the fuel (N+1)(M+1) is sufficient *)
  Theorem we_align_total : we_align A B sc gap <> None.
  Proof.
    unfold we_align. apply we_loop_total; [exact we_inv_init|].
    destruct we_inv_init as [L _]. unfold nz, Malign.N, Malign.M. rewrite <- L.
    generalize (we_tracer0 A B sc gap). induction l as [|x t IHt]; cbn [filter length]; [lia|].
    destruct (nzb x); cbn [length]; lia.
  Qed.
End WE.
