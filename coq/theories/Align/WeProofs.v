(* C01 for _malign.we_align (Waterman-Eggert): every returned triple has rows of equal length,
   no double-gap column, and de-gapped rows that are contiguous sub-lists of the inputs; and the
   outer `while True` loop terminates (each round zeroes the cell it started from). *)
From Coq Require Import QArith ZArith List Bool Arith Lia Lqa.
From LV Require Import Align.DP Align.DPProofs Align.Calign Align.LibScoreProofs Align.Malign Align.MalignProofs.
Import ListNotations.
Local Open Scope nat_scope.

(* ---------- tables built by map over seq ---------- *)
Lemma nth_map_seq {X} (f : nat -> X) (n k : nat) (d : X) : k < n -> nth k (map f (seq 0 n)) d = f k.
Proof.
  intros H. rewrite (nth_indep _ d (f 0)) by (rewrite map_length, seq_length; exact H).
  rewrite (map_nth f). rewrite seq_nth by exact H. reflexivity.
Qed.

Lemma length_concat_rows {X} (f : nat -> nat -> X) (r c : nat) :
  length (concat (map (fun i => map (f i) (seq 0 c)) (seq 0 r))) = r * c.
Proof.
  generalize 0 at 2. induction r as [|r IH]; intros s; cbn [seq map concat length mult]; [reflexivity|].
  rewrite app_length, map_length, seq_length, IH. reflexivity.
Qed.

Lemma nth_concat_rows {X} (f : nat -> nat -> X) (r c i j : nat) (d : X) : i < r -> j < c ->
  nth (i * c + j) (concat (map (fun i => map (f i) (seq 0 c)) (seq 0 r))) d = f i j.
Proof.
  assert (G : forall r s i, i < r -> j < c ->
            nth (i * c + j) (concat (map (fun i => map (f i) (seq 0 c)) (seq s r))) d = f (s + i) j).
  { induction r0 as [|r0 IH]; intros s i0 Hi Hj; [lia|]. cbn [seq map concat].
    destruct i0 as [|i0].
    - cbn [mult plus]. rewrite app_nth1 by (rewrite map_length, seq_length; exact Hj).
      rewrite nth_map_seq by exact Hj. rewrite Nat.add_0_r. reflexivity.
    - rewrite app_nth2 by (rewrite map_length, seq_length; cbn [mult]; lia).
      rewrite map_length, seq_length. replace (S i0 * c + j - c) with (i0 * c + j) by (cbn [mult]; lia).
      rewrite IH by lia. f_equal. lia. }
  intros Hi Hj. rewrite G by assumption. reflexivity.
Qed.

Section WE.
  Variable A B : list Z.
  Variable sc : list (Z * Z * Q).
  Variable gap : Q.
  Notation Mx := (length A).
  Notation Nx := (length B).

  Definition tb_ok (tb : list (list Z)) : Prop :=
    (forall j, j <= Mx -> tb_get tb 0 j = 0%Z) /\ (forall i, i <= Nx -> tb_get tb i 0 = 0%Z).

  Lemma tb_get_table (f : nat -> nat -> Z) i j : i <= Nx -> j <= Mx ->
    tb_get (map (fun i => map (fun j => f i j) (seq 0 (S Mx))) (seq 0 (S Nx))) i j = f i j.
  Proof.
    intros Hi Hj. unfold tb_get.
    rewrite (nth_map_seq (fun i => map (fun j => f i j) (seq 0 (S Mx))) (S Nx) i []) by lia.
    apply nth_map_seq. lia.
  Qed.

  Lemma zero_region_tb_ok imin imax jmin jmax tracer tb : tb_ok tb ->
    tb_ok (snd (zero_region A B imin imax jmin jmax tracer tb)).
  Proof.
    intros [R C]. unfold zero_region. cbn [snd]. unfold Malign.M, Malign.N. split.
    - intros j Hj. rewrite tb_get_table by lia. cbn [Nat.ltb Nat.leb andb]. apply R. exact Hj.
    - intros i Hi. rewrite tb_get_table by lia.
      replace (0 <? 0) with false by reflexivity. rewrite andb_false_r. cbn [andb]. apply C. exact Hi.
  Qed.

  Lemma tb_get_map_snd (m : list (list cellT)) i j :
    tb_get (map (map snd) m) i j = snd (get (0%Q, 0%Z) m i j).
  Proof.
    unfold tb_get, get.
    pose proof (map_nth (map (@snd Q Z)) m [] i) as E1. cbn [map] in E1. rewrite E1.
    pose proof (map_nth (@snd Q Z) (nth i m []) (0%Q, 0%Z) j) as E2. cbn [snd] in E2. exact E2.
  Qed.

  Lemma we_tb0_ok : tb_ok (we_tb0 A B sc gap).
  Proof.
    unfold we_tb0. split.
    - intros j Hj. rewrite tb_get_map_snd. unfold sw_matrix. rewrite fill_spec by (unfold Malign.N, Malign.M; lia).
      reflexivity.
    - intros i Hi. rewrite tb_get_map_snd. unfold sw_matrix. rewrite fill_spec by (unfold Malign.N, Malign.M; lia).
      destruct i; reflexivity.
  Qed.

  (* what one extraction returns *)
  Definition triple_ok (t : list (option Z) * list (option Z) * Q) : Prop :=
    let '(a, b, _) := t in
    length a = length b /\ no_double_gap a b /\
    (exists pre suf, A = pre ++ degap a ++ suf) /\ (exists pre suf, B = pre ++ degap b ++ suf).

  Lemma extraction_ok tb i j : tb_ok tb -> i <= Nx -> j <= Mx ->
    exists imin jmin almA almB igap jgap,
      ins_trace (tb_get tb) (i + j) i j (somes A) (somes B) 0 0 = Some (imin, jmin, almA, almB, igap, jgap) /\
      forall s, triple_ok (slice jmin (j + jgap) almA, slice imin (i + igap) almB, s).
  Proof.
    intros [R C] Hi Hj.
    destruct (ins_trace_inv A B (tb_get tb) R C i j (somes (skipn j A)) (somes (skipn i B)) (i + j) i j [] [] 0 0)
      as [i' [j' [ra' [rb' [ig' [jg' [Ht [Bi [Bj [La [Lb [HL [HN [Da Db]]]]]]]]]]]]]];
      try lia; try exact I; try (cbn [length]; lia).
    cbn [app] in Ht. unfold somes in Ht at 1 2 3 4. rewrite <- !map_app, !firstn_skipn in Ht.
    fold (somes A) in Ht. fold (somes B) in Ht.
    exists i', j', (somes (firstn j' A) ++ ra' ++ somes (skipn j A)),
      (somes (firstn i' B) ++ rb' ++ somes (skipn i B)), ig', jg'.
    split; [exact Ht|]. intros s.
    assert (L1 : length (somes (firstn j' A)) = j') by (rewrite somes_length, firstn_length; lia).
    assert (L2 : length (somes (firstn i' B)) = i') by (rewrite somes_length, firstn_length; lia).
    cbn [degap] in Da, Db. rewrite app_nil_r in Da, Db.
    assert (E1 : j + jg' = length (somes (firstn j' A)) + length ra') by lia.
    assert (E2 : i + ig' = length (somes (firstn i' B)) + length rb') by lia.
    pose proof (slice_mid (somes (firstn j' A)) ra' (somes (skipn j A))) as S1. rewrite L1 in S1 at 1.
    pose proof (slice_mid (somes (firstn i' B)) rb' (somes (skipn i B))) as S2. rewrite L2 in S2 at 1.
    unfold triple_ok. rewrite E1, E2, S1, S2.
    split; [exact HL|]. split; [exact HN|]. split.
    - exists (firstn j' A), (skipn j A). rewrite app_assoc, Da. symmetry. apply firstn_skipn.
    - exists (firstn i' B), (skipn i B). rewrite app_assoc, Db. symmetry. apply firstn_skipn.
  Qed.

  Lemma idx_bounds (idx : nat) : idx < S Nx * S Mx ->
    idx / S Mx <= Nx /\ idx - idx / S Mx * S Mx <= Mx.
  Proof.
    intros H. split.
    - assert (idx / S Mx < S Nx) by (apply Nat.div_lt_upper_bound; lia). lia.
    - pose proof (Nat.mod_upper_bound idx (S Mx) ltac:(lia)) as U.
      pose proof (Nat.div_mod idx (S Mx) ltac:(lia)) as D. lia.
  Qed.

  Lemma last_index_lt (l : list Q) (v : Q) : l <> [] -> last_index_eq l v < length l.
  Proof.
    intros NE. unfold last_index_eq.
    assert (G : forall l k best,
              let r := snd (fold_left (fun '(k, best) x => (S k, if Qeq_bool x v then k else best)) l (k, best)) in
              r = best \/ (k <= r /\ r < k + length l)).
    { induction l0 as [|x t IH]; intros k best; cbn [fold_left length snd]; [left; reflexivity|].
      specialize (IH (S k) (if Qeq_bool x v then k else best)). cbv zeta in IH.
      destruct IH as [E|[E1 E2]].
      - rewrite E. destruct (Qeq_bool x v); [right; lia|left; reflexivity].
      - right. lia. }
    specialize (G l 0 0). cbv zeta in G. destruct l as [|x t]; [congruence|].
    destruct G as [E|[_ E]]; [rewrite E; cbn [length]; lia|exact E].
  Qed.

  Lemma tracer_len_zero imin imax jmin jmax tracer tb :
    length (fst (zero_region A B imin imax jmin jmax tracer tb)) = S Nx * S Mx.
  Proof. unfold zero_region. cbn [fst]. unfold Malign.N, Malign.M. apply length_concat_rows. Qed.

  (* every triple we_align returns is a valid local alignment *)
  Theorem we_loop_valid : forall fuel tracer tb out,
    length tracer = S Nx * S Mx -> tb_ok tb ->
    we_loop A B sc gap fuel tracer tb = Some out -> Forall triple_ok out.
  Proof.
    induction fuel as [|f IH]; intros tracer tb out HL HT HW; cbn [we_loop] in HW.
    - destruct (Qeq_bool _ 0); [inversion HW; constructor|discriminate].
    - destruct (Qeq_bool _ 0); [inversion HW; constructor|].
      set (idx := last_index_eq tracer (qmax_list tracer)) in *.
      assert (Hidx : idx < S Nx * S Mx).
      { rewrite <- HL. apply last_index_lt. intros E. rewrite E in HL. cbn [length] in HL. lia. }
      destruct (idx_bounds idx Hidx) as [Bi Bj]. unfold Malign.M in HW.
      destruct (extraction_ok tb (idx / S Mx) (idx - idx / S Mx * S Mx) HT Bi Bj)
        as [imin [jmin [almA [almB [ig [jg [Ht OK]]]]]]].
      rewrite Ht in HW.
      destruct (zero_region A B imin (idx / S Mx) jmin (idx - idx / S Mx * S Mx) tracer tb) as [tracer' tb'] eqn:EZ.
      destruct (we_loop A B sc gap f tracer' tb') as [rest|] eqn:ER; [|discriminate].
      inversion HW; subst. constructor; [apply OK|].
      apply (IH tracer' tb' rest); [| |exact ER].
      + pose proof (tracer_len_zero imin (idx / S Mx) jmin (idx - idx / S Mx * S Mx) tracer tb) as L. rewrite EZ in L. exact L.
      + pose proof (zero_region_tb_ok imin (idx / S Mx) jmin (idx - idx / S Mx * S Mx) tracer tb HT) as T. rewrite EZ in T. exact T.
  Qed.

  Theorem we_align_valid : forall out, we_align A B sc gap = Some out -> Forall triple_ok out.
  Proof.
    intros out H. unfold we_align in H.
    apply (we_loop_valid _ _ _ out) in H; [exact H| |exact we_tb0_ok].
    unfold we_tracer0, Malign.N, Malign.M. apply length_concat_rows.
  Qed.
End WE.
