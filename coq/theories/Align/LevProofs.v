(* C03: metric laws of edit_dist that follow from its characterisation as the least
   edit-script cost: non-negativity, identity of indiscernibles, symmetry.
   (The triangle inequality is not proved.) *)
From Coq Require Import ZArith List Bool Arith Lia.
From LV Require Import Align.DP Align.Calign Align.Opt Align.Malign Align.MalignOptProofs.
Import ListNotations.
Local Open Scope Z_scope.

Lemma edit_cost_nonneg (A B : list Z) : forall ms i j, 0 <= edit_cost A B i j ms.
Proof.
  induction ms as [|m t IH]; intros i j; cbn [edit_cost]; [lia|].
  destruct m.
  - pose proof (IH (S i) (S j)). unfold sub_cost. destruct (_ =? _); lia.
  - pose proof (IH (S i) j). lia.
  - pose proof (IH i (S j)). lia.
Qed.

Theorem edit_dist_nonneg (A B : list Z) : 0 <= edit_dist A B.
Proof.
  destruct (edit_dist_levenshtein A B) as [_ [ms [_ [_ E]]]]. rewrite <- E. apply edit_cost_nonneg.
Qed.

(* identity script *)
Lemma edit_cost_diag (A : list Z) : forall n i, edit_cost A A i i (repeat MM n) = 0.
Proof.
  induction n as [|n IH]; intros i; cbn [repeat edit_cost]; [reflexivity|].
  rewrite IH. unfold sub_cost. rewrite Z.eqb_refl. reflexivity.
Qed.

Lemma cnt_repeat_MM n : cntA (repeat MM n) = n /\ cntB (repeat MM n) = n.
Proof.
  induction n as [|n [IA IB]]; [split; reflexivity|]. cbn [repeat].
  change (cntA (MM :: repeat MM n)) with (S (cntA (repeat MM n))).
  change (cntB (MM :: repeat MM n)) with (S (cntB (repeat MM n))). split; congruence.
Qed.

Theorem edit_dist_self (A : list Z) : edit_dist A A = 0.
Proof.
  destruct (edit_dist_levenshtein A A) as [L _].
  destruct (cnt_repeat_MM (length A)) as [CA CB].
  pose proof (L (repeat MM (length A)) CB CA) as H. rewrite edit_cost_diag in H.
  pose proof (edit_dist_nonneg A A). lia.
Qed.

(* a script of cost 0 only keeps symbols *)
Lemma zero_cost_equal (A B : list Z) : forall ms i j,
  edit_cost A B i j ms = 0 ->
  cntA ms = cntB ms /\ forall k, (k < cntA ms)%nat -> nthZ A (j + k) = nthZ B (i + k).
Proof.
  induction ms as [|m t IH]; intros i j E; cbn [edit_cost] in E.
  - split; [reflexivity|]. intros k Hk. change (cntA []) with 0%nat in Hk. lia.
  - destruct m.
    + pose proof (edit_cost_nonneg A B t (S i) (S j)) as P. unfold sub_cost in E.
      destruct (Z.eqb_spec (nthZ A j) (nthZ B i)) as [Eq|Ne]; [|lia].
      destruct (IH (S i) (S j) ltac:(lia)) as [C H].
      change (cntA (MM :: t)) with (S (cntA t)). change (cntB (MM :: t)) with (S (cntB t)).
      split; [congruence|]. intros k Hk. destruct k as [|k].
      * rewrite !Nat.add_0_r. exact Eq.
      * replace (j + S k)%nat with (S j + k)%nat by lia. replace (i + S k)%nat with (S i + k)%nat by lia.
        apply H. lia.
    + pose proof (edit_cost_nonneg A B t (S i) j). lia.
    + pose proof (edit_cost_nonneg A B t i (S j)). lia.
Qed.

Theorem edit_dist_zero_eq (A B : list Z) : edit_dist A B = 0 -> A = B.
Proof.
  intros E. destruct (edit_dist_levenshtein A B) as [_ [ms [CB [CA Ec]]]]. rewrite E in Ec.
  destruct (zero_cost_equal A B ms 0 0 Ec) as [C H].
  assert (L : length A = length B) by congruence.
  apply (nth_ext A B 0 0 L). intros k Hk. specialize (H k ltac:(lia)). cbn [plus] in H. exact H.
Qed.

(* symmetry: mirror the script *)
Definition mirror (m : move) : move := match m with MM => MM | MA => MB | MB => MA end.

Lemma edit_cost_mirror (A B : list Z) : forall ms i j,
  edit_cost B A j i (map mirror ms) = edit_cost A B i j ms.
Proof.
  induction ms as [|m t IH]; intros i j; cbn [map edit_cost]; [reflexivity|].
  destruct m; cbn [mirror edit_cost]; rewrite IH; [|reflexivity|reflexivity].
  unfold sub_cost. rewrite (Z.eqb_sym (nthZ B i) (nthZ A j)). reflexivity.
Qed.

Lemma cnt_mirror ms : cntA (map mirror ms) = cntB ms /\ cntB (map mirror ms) = cntA ms.
Proof.
  induction ms as [|m t [IA IB]]; [split; reflexivity|].
  destruct m; cbn [map mirror].
  - change (cntA (MM :: map mirror t)) with (S (cntA (map mirror t))).
    change (cntB (MM :: map mirror t)) with (S (cntB (map mirror t))).
    change (cntA (MM :: t)) with (S (cntA t)). change (cntB (MM :: t)) with (S (cntB t)). split; congruence.
  - change (cntA (MB :: map mirror t)) with (S (cntA (map mirror t))).
    change (cntB (MB :: map mirror t)) with (cntB (map mirror t)).
    change (cntA (MA :: t)) with (cntA t). change (cntB (MA :: t)) with (S (cntB t)). split; congruence.
  - change (cntA (MA :: map mirror t)) with (cntA (map mirror t)).
    change (cntB (MA :: map mirror t)) with (S (cntB (map mirror t))).
    change (cntA (MB :: t)) with (S (cntA t)). change (cntB (MB :: t)) with (cntB t). split; congruence.
Qed.

Lemma edit_dist_le_sym (A B : list Z) : edit_dist B A <= edit_dist A B.
Proof.
  destruct (edit_dist_levenshtein A B) as [_ [ms [CB [CA Ec]]]].
  destruct (edit_dist_levenshtein B A) as [L _].
  destruct (cnt_mirror ms) as [MA' MB'].
  specialize (L (map mirror ms) ltac:(congruence) ltac:(congruence)).
  rewrite edit_cost_mirror in L. lia.
Qed.

Theorem edit_dist_sym (A B : list Z) : edit_dist A B = edit_dist B A.
Proof. pose proof (edit_dist_le_sym A B). pose proof (edit_dist_le_sym B A). lia. Qed.

(* ---------- triangle inequality: compose an A->B script with a B->C script ---------- *)
Fixpoint compose (fuel : nat) (m1 m2 : list move) : list move :=
  match fuel with
  | O => []
  | S f =>
      match m1, m2 with
      | MB :: t1, _ => MB :: compose f t1 m2            (* delete a symbol of A *)
      | _, MA :: t2 => MA :: compose f m1 t2            (* insert a symbol of C *)
      | MA :: t1, MB :: t2 => compose f t1 t2           (* a symbol of B inserted, then deleted *)
      | MA :: t1, MM :: t2 => MA :: compose f t1 t2
      | MM :: t1, MB :: t2 => MB :: compose f t1 t2
      | MM :: t1, MM :: t2 => MM :: compose f t1 t2
      | _, _ => []
      end
  end.

Lemma sub_cost_triangle (A B C : list Z) i j k :
  sub_cost A C k j <= sub_cost A B i j + sub_cost B C k i.
Proof.
  unfold sub_cost.
  destruct (Z.eqb_spec (nthZ A j) (nthZ C k)); destruct (Z.eqb_spec (nthZ A j) (nthZ B i));
    destruct (Z.eqb_spec (nthZ B i) (nthZ C k)); try lia; congruence.
Qed.

Lemma cnt_cons_MM t : cntA (MM :: t) = S (cntA t) /\ cntB (MM :: t) = S (cntB t).
Proof. split; reflexivity. Qed.
Lemma cnt_cons_MA t : cntA (MA :: t) = cntA t /\ cntB (MA :: t) = S (cntB t).
Proof. split; reflexivity. Qed.
Lemma cnt_cons_MB t : cntA (MB :: t) = S (cntA t) /\ cntB (MB :: t) = cntB t.
Proof. split; reflexivity. Qed.

Lemma compose_spec (A B C : list Z) : forall fuel m1 m2 i j k,
  (length m1 + length m2 <= fuel)%nat -> cntB m1 = cntA m2 ->
  cntA (compose fuel m1 m2) = cntA m1 /\ cntB (compose fuel m1 m2) = cntB m2 /\
  edit_cost A C k j (compose fuel m1 m2) <= edit_cost A B i j m1 + edit_cost B C k i m2.
Proof.
  induction fuel as [|f IH]; intros m1 m2 i j k HF HC.
  - destruct m1; [|cbn [length] in HF; lia]. destruct m2; [|cbn [length] in HF; lia].
    cbn. repeat split; lia.
  - destruct m1 as [|x t1].
    + destruct m2 as [|y t2]; [cbn; repeat split; lia|].
      destruct y.
      * (* m2 = MM :: _ consumes a symbol of B that m1 does not provide *)
        destruct (cnt_cons_MM t2) as [E _]. rewrite E in HC. change (cntB []) with 0%nat in HC. lia.
      * cbn [compose]. destruct (cnt_cons_MA t2) as [EA EB]. rewrite EA in HC.
        cbn [length] in HF. destruct (IH [] t2 i j (S k) ltac:(cbn [length]; lia) HC) as [H1 [H2 H3]].
        destruct (cnt_cons_MA (compose f [] t2)) as [FA FB]. rewrite FA, FB, EB. cbn [edit_cost] in *.
        repeat split; lia.
      * destruct (cnt_cons_MB t2) as [E _]. rewrite E in HC. change (cntB []) with 0%nat in HC. lia.
    + destruct x.
      * (* m1 = MM :: t1 *)
        destruct (cnt_cons_MM t1) as [E1A E1B].
        destruct m2 as [|y t2]; [rewrite E1B in HC; change (cntA []) with 0%nat in HC; lia|].
        destruct y; cbn [compose].
        -- destruct (cnt_cons_MM t2) as [E2A E2B]. rewrite E1B, E2A in HC. cbn [length] in HF.
           destruct (IH t1 t2 (S i) (S j) (S k) ltac:(lia) ltac:(lia)) as [H1 [H2 H3]].
           destruct (cnt_cons_MM (compose f t1 t2)) as [FA FB]. rewrite FA, FB, E1A, E2B. cbn [edit_cost].
           pose proof (sub_cost_triangle A B C i j k). repeat split; lia.
        -- destruct (cnt_cons_MA t2) as [E2A E2B]. rewrite E2A in HC. cbn [length] in HF.
           destruct (IH (MM :: t1) t2 i j (S k) ltac:(cbn [length]; lia) HC) as [H1 [H2 H3]].
           destruct (cnt_cons_MA (compose f (MM :: t1) t2)) as [FA FB]. rewrite FA, FB, E2B.
           cbn [edit_cost] in *. repeat split; lia.
        -- destruct (cnt_cons_MB t2) as [E2A E2B]. rewrite E1B, E2A in HC. cbn [length] in HF.
           destruct (IH t1 t2 (S i) (S j) k ltac:(lia) ltac:(lia)) as [H1 [H2 H3]].
           destruct (cnt_cons_MB (compose f t1 t2)) as [FA FB]. rewrite FA, FB, E1A, E2B. cbn [edit_cost].
           pose proof (sub_cost_01 A B i j). repeat split; lia.
      * (* m1 = MA :: t1: a symbol of B is inserted *)
        destruct (cnt_cons_MA t1) as [E1A E1B].
        destruct m2 as [|y t2]; [rewrite E1B in HC; change (cntA []) with 0%nat in HC; lia|].
        destruct y; cbn [compose].
        -- destruct (cnt_cons_MM t2) as [E2A E2B]. rewrite E1B, E2A in HC. cbn [length] in HF.
           destruct (IH t1 t2 (S i) j (S k) ltac:(lia) ltac:(lia)) as [H1 [H2 H3]].
           destruct (cnt_cons_MA (compose f t1 t2)) as [FA FB]. rewrite FA, FB, E1A, E2B. cbn [edit_cost].
           pose proof (sub_cost_01 B C k i). repeat split; lia.
        -- destruct (cnt_cons_MA t2) as [E2A E2B]. rewrite E2A in HC. cbn [length] in HF.
           destruct (IH (MA :: t1) t2 i j (S k) ltac:(cbn [length]; lia) HC) as [H1 [H2 H3]].
           destruct (cnt_cons_MA (compose f (MA :: t1) t2)) as [FA FB]. rewrite FA, FB, E2B.
           cbn [edit_cost] in *. repeat split; lia.
        -- destruct (cnt_cons_MB t2) as [E2A E2B]. rewrite E1B, E2A in HC. cbn [length] in HF.
           destruct (IH t1 t2 (S i) j k ltac:(lia) ltac:(lia)) as [H1 [H2 H3]].
           rewrite E1A, E2B. cbn [edit_cost]. repeat split; lia.
      * (* m1 = MB :: t1: a symbol of A is deleted *)
        destruct (cnt_cons_MB t1) as [E1A E1B]. rewrite E1B in HC. cbn [length] in HF.
        destruct (IH t1 m2 i (S j) k ltac:(lia) HC) as [H1 [H2 H3]].
        assert (EQ : compose (S f) (MB :: t1) m2 = MB :: compose f t1 m2) by (destruct m2 as [|[] ?]; reflexivity).
        rewrite EQ. destruct (cnt_cons_MB (compose f t1 m2)) as [FA FB]. rewrite FA, FB, E1A.
        cbn [edit_cost]. repeat split; lia.
Qed.

Theorem edit_dist_triangle (A B C : list Z) : edit_dist A C <= edit_dist A B + edit_dist B C.
Proof.
  destruct (edit_dist_levenshtein A B) as [_ [m1 [C1B [C1A E1]]]].
  destruct (edit_dist_levenshtein B C) as [_ [m2 [C2B [C2A E2]]]].
  destruct (edit_dist_levenshtein A C) as [L _].
  destruct (compose_spec A B C (length m1 + length m2) m1 m2 0 0 0 (le_n _) ltac:(congruence)) as [H1 [H2 H3]].
  specialize (L (compose (length m1 + length m2) m1 m2) ltac:(congruence) ltac:(congruence)). lia.
Qed.
