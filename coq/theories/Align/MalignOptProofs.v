(* C03 for _malign: nw_align returns the optimal global score, sw_align (and the
   first match of we_align) the optimal local score, edit_dist the Levenshtein
   distance (least number of substitutions, insertions, deletions). *)
From Coq Require Import QArith ZArith List Bool Arith Lia Lqa.
From LV Require Import Align.DP Align.DPProofs Align.Calign Align.LibScoreProofs Align.Opt Align.OptProofs Align.Malign Align.MalignProofs.
Import ListNotations.
Local Open Scope Q_scope.

Lemma cntB_app ms1 ms2 : cntB (ms1 ++ ms2) = (cntB ms1 + cntB ms2)%nat.
Proof. unfold cntB. rewrite filter_app, app_length. reflexivity. Qed.
Lemma cntA_app ms1 ms2 : cntA (ms1 ++ ms2) = (cntA ms1 + cntA ms2)%nat.
Proof. unfold cntA. rewrite filter_app, app_length. reflexivity. Qed.

Section Attain.
  Variable cA cB cM : nat -> nat -> Q.

  Definition cost_at (i j : nat) (m : move) : Q :=
    match m with MA => cA (S i) j | MM => cM (S i) (S j) | MB => cB i (S j) end.

  Lemma scoreP_snoc : forall ms i j m,
    scoreP cA cB cM i j (ms ++ [m]) == scoreP cA cB cM i j ms + cost_at (i + cntB ms) (j + cntA ms) m.
  Proof.
    induction ms as [|x t IH]; intros i j m.
    - cbn [app scoreP]. change (cntB []) with 0%nat. change (cntA []) with 0%nat. rewrite !Nat.add_0_r.
      destruct m; cbn [scoreP cost_at]; lra.
    - destruct x; cbn [app scoreP]; rewrite IH.
      + change (cntB (MM :: t)) with (S (cntB t)). change (cntA (MM :: t)) with (S (cntA t)).
        replace (S i + cntB t)%nat with (i + S (cntB t))%nat by lia.
        replace (S j + cntA t)%nat with (j + S (cntA t))%nat by lia. lra.
      + change (cntB (MA :: t)) with (S (cntB t)). change (cntA (MA :: t)) with (cntA t).
        replace (S i + cntB t)%nat with (i + S (cntB t))%nat by lia. lra.
      + change (cntB (MB :: t)) with (cntB t). change (cntA (MB :: t)) with (S (cntA t)).
        replace (S j + cntA t)%nat with (j + S (cntA t))%nat by lia. lra.
  Qed.

  Variable F : nat -> nat -> Q.

  (* global: every cell is reached by a path from (0,0) whose score it holds *)
  Section Global.
    Hypothesis F00 : F 0%nat 0%nat == 0.
    Hypothesis Fcol : forall i, F (S i) 0%nat == F i 0%nat + cA (S i) 0%nat.
    Hypothesis Frow : forall j, F 0%nat (S j) == F 0%nat j + cB 0%nat (S j).
    Hypothesis Fint : forall i j,
      F (S i) (S j) == F i (S j) + cA (S i) (S j) \/
      F (S i) (S j) == F i j + cM (S i) (S j) \/
      F (S i) (S j) == F (S i) j + cB (S i) (S j).

    Lemma attained_global : forall i j,
      exists ms, cntB ms = i /\ cntA ms = j /\ scoreP cA cB cM 0 0 ms == F i j.
    Proof.
      induction i as [|i IHi].
      - induction j as [|j IHj].
        + exists []. cbn. repeat split; try reflexivity. lra.
        + destruct IHj as [ms [HB [HA HS]]]. exists (ms ++ [MB]).
          rewrite cntB_app, cntA_app, scoreP_snoc, HB, HA. cbn [cost_at plus].
          change (cntB [MB]) with 0%nat. change (cntA [MB]) with 1%nat.
          split; [lia|]. split; [lia|]. rewrite Frow. lra.
      - induction j as [|j IHj].
        + destruct (IHi 0%nat) as [ms [HB [HA HS]]]. exists (ms ++ [MA]).
          rewrite cntB_app, cntA_app, scoreP_snoc, HB, HA. cbn [cost_at plus].
          change (cntB [MA]) with 1%nat. change (cntA [MA]) with 0%nat.
          split; [lia|]. split; [lia|]. rewrite Fcol. lra.
        + destruct (Fint i j) as [E|[E|E]].
          * destruct (IHi (S j)) as [ms [HB [HA HS]]]. exists (ms ++ [MA]).
            rewrite cntB_app, cntA_app, scoreP_snoc, HB, HA. cbn [cost_at plus].
            change (cntB [MA]) with 1%nat. change (cntA [MA]) with 0%nat.
            split; [lia|]. split; [lia|]. rewrite E. lra.
          * destruct (IHi j) as [ms [HB [HA HS]]]. exists (ms ++ [MM]).
            rewrite cntB_app, cntA_app, scoreP_snoc, HB, HA. cbn [cost_at plus].
            change (cntB [MM]) with 1%nat. change (cntA [MM]) with 1%nat.
            split; [lia|]. split; [lia|]. rewrite E. lra.
          * destruct IHj as [ms [HB [HA HS]]]. exists (ms ++ [MB]).
            rewrite cntB_app, cntA_app, scoreP_snoc, HB, HA. cbn [cost_at plus].
            change (cntB [MB]) with 0%nat. change (cntA [MB]) with 1%nat.
            split; [lia|]. split; [lia|]. rewrite E. lra.
    Qed.
  End Global.

  (* local: every cell is reached by a path from SOME cell, started with score 0 *)
  Section Local.
    Hypothesis Fcol : forall i, F i 0%nat == 0.
    Hypothesis Frow : forall j, F 0%nat j == 0.
    Hypothesis Fint : forall i j,
      F (S i) (S j) == F i (S j) + cA (S i) (S j) \/
      F (S i) (S j) == F i j + cM (S i) (S j) \/
      F (S i) (S j) == F (S i) j + cB (S i) (S j) \/
      F (S i) (S j) == 0.

    Lemma attained_local : forall i j,
      exists i0 j0 ms, (i0 + cntB ms = i)%nat /\ (j0 + cntA ms = j)%nat /\ scoreP cA cB cM i0 j0 ms == F i j.
    Proof.
      assert (Z : forall i j, F i j == 0 -> exists i0 j0 ms, (i0 + cntB ms = i)%nat /\ (j0 + cntA ms = j)%nat /\
                                            scoreP cA cB cM i0 j0 ms == F i j).
      { intros i j E. exists i, j, []. cbn. repeat split; try lia. lra. }
      induction i as [|i IHi]; [intros j; apply Z; apply Frow|].
      induction j as [|j IHj]; [apply Z; apply Fcol|].
      destruct (Fint i j) as [E|[E|[E|E]]]; [| | |apply Z; exact E].
      - destruct (IHi (S j)) as [i0 [j0 [ms [HB [HA HS]]]]]. exists i0, j0, (ms ++ [MA]).
        rewrite cntB_app, cntA_app, scoreP_snoc, HB, HA. cbn [cost_at].
        change (cntB [MA]) with 1%nat. change (cntA [MA]) with 0%nat.
        split; [lia|]. split; [lia|]. rewrite E. lra.
      - destruct (IHi j) as [i0 [j0 [ms [HB [HA HS]]]]]. exists i0, j0, (ms ++ [MM]).
        rewrite cntB_app, cntA_app, scoreP_snoc, HB, HA. cbn [cost_at].
        change (cntB [MM]) with 1%nat. change (cntA [MM]) with 1%nat.
        split; [lia|]. split; [lia|]. rewrite E. lra.
      - destruct IHj as [i0 [j0 [ms [HB [HA HS]]]]]. exists i0, j0, (ms ++ [MB]).
        rewrite cntB_app, cntA_app, scoreP_snoc, HB, HA. cbn [cost_at].
        change (cntB [MB]) with 0%nat. change (cntA [MB]) with 1%nat.
        split; [lia|]. split; [lia|]. rewrite E. lra.
    Qed.
  End Local.
End Attain.

(* ---------------- nw_align ---------------- *)
Section NWOpt.
  Variable A B : list Z.
  Variable sc : list (Z * Z * Q).
  Variable gap : Q.
  Notation SPn := (spec (nw_row0 gap) (nw_col0 gap) (nw_cell A B sc gap)).
  Notation cG := (fun (_ _ : nat) => gap).
  Notation cMn := (fun i j => sAB A B sc i j).
  Notation Fn := (fun i j => fst (SPn i j)).

  Lemma injZ_S (k : nat) : inject_Z (Z.of_nat (S k)) == inject_Z (Z.of_nat k) + 1.
  Proof. rewrite Nat2Z.inj_succ. unfold Z.succ. rewrite inject_Z_plus. reflexivity. Qed.

  Lemma nw_F_col i : Fn (S i) 0%nat == Fn i 0%nat + gap.
  Proof.
    cbv beta. rewrite spec_col0. unfold nw_col0 at 1. cbn [fst].
    assert (E : fst (SPn i 0) == inject_Z (Z.of_nat i) * gap).
    { destruct i; [cbn [spec]; unfold nw_row0|rewrite spec_col0; unfold nw_col0]; reflexivity. }
    rewrite E, injZ_S. lra.
  Qed.

  Lemma nw_F_row j : Fn 0%nat (S j) == Fn 0%nat j + gap.
  Proof. cbv beta. cbn [spec]. unfold nw_row0. cbn [fst]. rewrite injZ_S. lra. Qed.

  Lemma nw_cell_facts i j up left diag :
    let c := nw_cell A B sc gap i j up left diag in
    (fst up + gap <= fst c /\ fst diag + sAB A B sc i j <= fst c /\ fst left + gap <= fst c) /\
    (fst c == fst up + gap \/ fst c == fst diag + sAB A B sc i j \/ fst c == fst left + gap).
  Proof.
    cbv zeta. unfold nw_cell, qge.
    destruct (Qle_bool (fst diag + sAB A B sc i j) (fst up + gap)) eqn:E1; qb E1;
      destruct (Qle_bool (fst left + gap) (fst up + gap)) eqn:E2; qb E2;
      destruct (Qle_bool (fst left + gap) (fst diag + sAB A B sc i j)) eqn:E3; qb E3;
      cbn [andb fst]; (split; [repeat split; lra|]); auto; try (left; reflexivity);
      try (right; left; reflexivity); try (right; right; reflexivity).
  Qed.

  Lemma nw_int i j :
    (Fn i (S j) + gap <= Fn (S i) (S j) /\ Fn i j + sAB A B sc (S i) (S j) <= Fn (S i) (S j) /\
     Fn (S i) j + gap <= Fn (S i) (S j)) /\
    (Fn (S i) (S j) == Fn i (S j) + gap \/ Fn (S i) (S j) == Fn i j + sAB A B sc (S i) (S j) \/
     Fn (S i) (S j) == Fn (S i) j + gap).
  Proof. cbv beta. rewrite spec_cell. apply nw_cell_facts. Qed.

  Theorem nw_align_optimal : A <> [] -> B <> [] ->
    match nw_align A B sc gap with
    | RGlobal _ _ s =>
        (forall ms, cntB ms = length B -> cntA ms = length A -> scoreP cG cG cMn 0 0 ms <= s) /\
        (exists ms, cntB ms = length B /\ cntA ms = length A /\ scoreP cG cG cMn 0 0 ms == s)
    | _ => False
    end.
  Proof.
    intros HA HB. pose proof (MalignProofs.nw_align_valid A B sc gap HA HB) as V. unfold nw_align in *.
    destruct (_ || _); [exact V|]. destruct (trace_global _ _ _ _ _ _ _ _) as [[a b]|]; [|exact V].
    unfold nw_get, nw_matrix. rewrite fill_spec by (unfold Malign.N, Malign.M; lia).
    unfold Malign.N, Malign.M.
    assert (F00 : Fn 0%nat 0%nat == 0).
    { cbv beta. cbn [spec]. unfold nw_row0. cbn [fst Z.of_nat]. change (inject_Z 0) with 0. ring. }
    split.
    - intros ms HBm HAm.
      assert (U : Fn 0%nat 0%nat + scoreP cG cG cMn 0 0 ms <= Fn (0 + cntB ms)%nat (0 + cntA ms)%nat).
      { apply (upper_bound cG cG cMn Fn (length B) (length A)); try (cbn [plus]; lia).
        - intros i _. pose proof (nw_F_col i) as E. cbv beta in E |- *. lra.
        - intros j _. pose proof (nw_F_row j) as E. cbv beta in E |- *. lra.
        - intros i j _ _. destruct (nw_int i j) as [[A1 [A2 A3]] _]. cbv beta in *. auto. }
      cbv beta in U, F00. cbn [plus] in U. rewrite HBm, HAm in U. lra.
    - destruct (attained_global cG cG cMn Fn F00 nw_F_col nw_F_row (fun i j => proj2 (nw_int i j))
                  (length B) (length A)) as [ms [H1 [H2 H3]]].
      exists ms. auto.
  Qed.
End NWOpt.

(* ---------------- sw_align ---------------- *)
Section SWOpt.
  Variable A B : list Z.
  Variable sc : list (Z * Z * Q).
  Variable gap : Q.
  Notation SPs := (spec z0 z0 (sw_cell A B sc gap)).
  Notation cG := (fun (_ _ : nat) => gap).
  Notation cMn := (fun i j => sAB A B sc i j).
  Notation Fs := (fun i j => fst (SPs i j)).

  Lemma sw_col i : Fs i 0%nat == 0.
  Proof. cbv beta. destruct i; [cbn [spec]|rewrite spec_col0]; reflexivity. Qed.
  Lemma sw_row j : Fs 0%nat j == 0.
  Proof. cbv beta. cbn [spec]. reflexivity. Qed.

  Lemma sw_cell_facts i j up left diag :
    let c := sw_cell A B sc gap i j up left diag in
    (fst up + gap <= fst c /\ fst diag + sAB A B sc i j <= fst c /\ fst left + gap <= fst c /\ 0 <= fst c) /\
    (fst c == fst up + gap \/ fst c == fst diag + sAB A B sc i j \/ fst c == fst left + gap \/ fst c == 0).
  Proof.
    cbv zeta. unfold sw_cell.
    set (gA := fst up + gap). set (m := fst diag + sAB A B sc i j). set (gB := fst left + gap).
    pose proof (choose4_ge gA m gB) as [A1 [A2 [A3 A4]]].
    split; [auto|].
    destruct (LibScoreProofs.choose4_cases gA m gB) as [E|[E|[E|E]]]; rewrite E; cbn [fst].
    - left. reflexivity.
    - right. left. reflexivity.
    - right. right. left. reflexivity.
    - right. right. right. reflexivity.
  Qed.

  Lemma sw_int i j :
    (Fs i (S j) + gap <= Fs (S i) (S j) /\ Fs i j + sAB A B sc (S i) (S j) <= Fs (S i) (S j) /\
     Fs (S i) j + gap <= Fs (S i) (S j) /\ 0 <= Fs (S i) (S j)) /\
    (Fs (S i) (S j) == Fs i (S j) + gap \/ Fs (S i) (S j) == Fs i j + sAB A B sc (S i) (S j) \/
     Fs (S i) (S j) == Fs (S i) j + gap \/ Fs (S i) (S j) == 0).
  Proof. cbv beta. rewrite spec_cell. apply sw_cell_facts. Qed.

  Lemma sw_nonneg i j : 0 <= Fs i j.
  Proof.
    destruct i as [|i]; [pose proof (sw_row j) as E; cbv beta in E |- *; lra|].
    destruct j as [|j]; [pose proof (sw_col (S i)) as E; cbv beta in E |- *; lra|].
    destruct (sw_int i j) as [[_ [_ [_ H]]] _]. exact H.
  Qed.

  Definition swb_inv (acc : nat * nat * Q) (P : nat -> nat -> Prop) : Prop :=
    let '(k, l, v) := acc in
    0 <= v /\ v == fst (sw_get A B sc gap k l) /\ forall i j, P i j -> fst (sw_get A B sc gap i j) <= v.

  Lemma swb_inner i : forall js acc P, swb_inv acc P ->
    swb_inv (fold_left (fun acc j => let v := fst (sw_get A B sc gap i j) in
                                     if qge v (snd acc) then (i, j, v) else acc) js acc)
            (fun i' j' => P i' j' \/ (i' = i /\ In j' js)).
  Proof.
    induction js as [|j js IH]; intros acc P H; cbn [fold_left].
    - destruct acc as [[k l] v]. destruct H as [H1 [H2 H3]]. repeat split; auto.
      intros i' j' [HP|[_ []]]. auto.
    - set (acc' := (let v := fst (sw_get A B sc gap i j) in if qge v (snd acc) then (i, j, v) else acc)).
      assert (H' : swb_inv acc' (fun i' j' => P i' j' \/ (i' = i /\ j' = j))).
      { subst acc'. destruct acc as [[k l] v]. destruct H as [H1 [H2 H3]]. cbv zeta. cbn [snd]. unfold qge.
        destruct (Qle_bool v (fst (sw_get A B sc gap i j))) eqn:E; qb E.
        - split; [lra|]. split; [reflexivity|]. intros i' j' [HP|[-> ->]]; [specialize (H3 _ _ HP); lra|lra].
        - split; [lra|]. split; [exact H2|]. intros i' j' [HP|[-> ->]]; [auto|lra]. }
      specialize (IH acc' _ H').
      destruct (fold_left _ js acc') as [[k l] v]. destruct IH as [H1 [H2 H3]].
      split; [exact H1|]. split; [exact H2|]. intros i' j' [HP|[-> [<-|Hin]]]; apply H3; auto.
  Qed.

  Lemma swb_outer : forall is_ acc P, swb_inv acc P ->
    swb_inv (fold_left (fun acc i => fold_left (fun acc j => let v := fst (sw_get A B sc gap i j) in
                                     if qge v (snd acc) then (i, j, v) else acc) (seq 1 (Malign.M A)) acc) is_ acc)
            (fun i' j' => P i' j' \/ (In i' is_ /\ In j' (seq 1 (Malign.M A)))).
  Proof.
    induction is_ as [|i is_ IH]; intros acc P H; cbn [fold_left].
    - destruct acc as [[k l] v]. destruct H as [H1 [H2 H3]]. repeat split; auto.
      intros i' j' [HP|[[] _]]. auto.
    - pose proof (swb_inner i (seq 1 (Malign.M A)) acc P H) as H'.
      specialize (IH _ _ H').
      destruct (fold_left _ is_ _) as [[k l] v]. destruct IH as [H1 [H2 H3]].
      split; [exact H1|]. split; [exact H2|]. intros i' j' [HP|[[<-|Hin] Hj]]; apply H3; auto.
  Qed.

  (* sw_align returns the best local score: no alignment of any pair of contiguous slices scores
     more, and some alignment of some pair of slices scores exactly that *)
  Theorem sw_align_optimal : gap <= 0 -> A <> [] -> B <> [] ->
    match sw_align A B sc gap with
    | SW _ _ _ _ _ _ s =>
        0 <= s /\
        (forall i0 j0 ms, (i0 + cntB ms <= length B)%nat -> (j0 + cntA ms <= length A)%nat ->
           scoreP cG cG cMn i0 j0 ms <= s) /\
        (exists i0 j0 ms, (i0 + cntB ms <= length B)%nat /\ (j0 + cntA ms <= length A)%nat /\
           scoreP cG cG cMn i0 j0 ms == s)
    | SWError => False
    end.
  Proof.
    intros Hgap HA HB. pose proof (MalignProofs.sw_align_valid A B sc gap HA HB) as V.
    pose proof (MalignProofs.sw_best_bounds A B sc gap) as Bd.
    unfold sw_align in *. destruct (_ || _); [exact V|].
    assert (H0 : swb_inv (0%nat, 0%nat, 0) (fun _ _ => False)).
    { split; [lra|]. split; [|intros i j []]. unfold sw_get, sw_matrix. rewrite fill_spec by lia. reflexivity. }
    assert (MX : swb_inv (sw_best A B sc gap)
                   (fun i' j' => False \/ (In i' (seq 1 (Malign.N B)) /\ In j' (seq 1 (Malign.M A))))).
    { unfold sw_best. apply swb_outer. exact H0. }
    destruct (sw_best A B sc gap) as [[imax jmax] v]. destruct Bd as [Bk Bl]. unfold swb_inv in MX.
    destruct MX as [M1 [M2 M3]].
    destruct (ins_trace _ _ _ _ _ _ _ _) as [[[[[[i j] almA] almB] ig] jg]|]; [|exact V].
    unfold Malign.N, Malign.M in *.
    assert (GE : forall i' j', (i' <= length B)%nat -> (j' <= length A)%nat -> Fs i' j' <= fst (sw_get A B sc gap imax jmax)).
    { intros i' j' Hi' Hj'. rewrite <- M2.
      destruct i' as [|i']; [pose proof (sw_row j') as E; cbv beta in E |- *; lra|].
      destruct j' as [|j']; [pose proof (sw_col (S i')) as E; cbv beta in E |- *; lra|].
      cbv beta. rewrite <- (fill_spec _ (0, 0%Z) z0 z0 (sw_cell A B sc gap) (length B) (length A)) by lia.
      apply M3. right. split; apply in_seq; lia. }
    split; [rewrite <- M2; exact M1|]. split.
    - intros i0 j0 ms Hi Hj.
      assert (U : Fs i0 j0 + scoreP cG cG cMn i0 j0 ms <= Fs (i0 + cntB ms)%nat (j0 + cntA ms)%nat).
      { apply (upper_bound cG cG cMn Fs (length B) (length A)); try assumption.
        - intros i1 _. pose proof (sw_col i1) as E1. pose proof (sw_col (S i1)) as E2. cbv beta in *. lra.
        - intros j1 _. pose proof (sw_row j1) as E1. pose proof (sw_row (S j1)) as E2. cbv beta in *. lra.
        - intros i1 j1 _ _. destruct (sw_int i1 j1) as [[A1 [A2 [A3 _]]] _]. cbv beta in *. auto. }
      pose proof (sw_nonneg i0 j0) as P0. pose proof (GE _ _ Hi Hj) as G. cbv beta in *. lra.
    - destruct (attained_local cG cG cMn Fs sw_col sw_row (fun i j => proj2 (sw_int i j)) imax jmax)
        as [i0 [j0 [ms [H1 [H2 H3]]]]].
      exists i0, j0, ms. split; [lia|]. split; [lia|].
      rewrite H3. cbv beta. unfold sw_get, sw_matrix. rewrite fill_spec by (unfold Malign.N, Malign.M; lia). reflexivity.
  Qed.
End SWOpt.

(* ---------------- edit_dist = Levenshtein distance ---------------- *)
Section EDOpt.
  Variable A B : list Z.
  Local Open Scope Z_scope.
  Notation SPe := (spec (fun j => Z.of_nat j) (fun i => Z.of_nat i) (ed_cell A B)).

  Notation sub_cost := (sub_cost A B).

  Lemma ed_cell_facts i j up left diag :
    let c := ed_cell A B (S i) (S j) up left diag in
    (c <= up + 1 /\ c <= diag + sub_cost i j /\ c <= left + 1) /\
    (c = up + 1 \/ c = diag + sub_cost i j \/ c = left + 1).
  Proof.
    cbv zeta. unfold ed_cell, Opt.sub_cost. replace (S j - 1)%nat with j by lia. replace (S i - 1)%nat with i by lia.
    destruct (nthZ A j =? nthZ B i).
    - destruct (Z.ltb_spec (up + 1) diag); destruct (Z.ltb_spec (up + 1) (left + 1));
        destruct (Z.leb_spec diag (left + 1)); cbn [andb]; lia.
    - destruct (Z.ltb_spec (up + 1) (diag + 1)); destruct (Z.ltb_spec (up + 1) (left + 1));
        destruct (Z.leb_spec (diag + 1) (left + 1)); cbn [andb]; lia.
  Qed.

  Definition Fe (i j : nat) : Z := SPe i j.

  Lemma ed_col i : Fe i 0%nat = Z.of_nat i.
  Proof. unfold Fe. destruct i; reflexivity. Qed.
  Lemma ed_row j : Fe 0%nat j = Z.of_nat j.
  Proof. reflexivity. Qed.
  Lemma ed_int i j :
    (Fe (S i) (S j) <= Fe i (S j) + 1 /\ Fe (S i) (S j) <= Fe i j + sub_cost i j /\
     Fe (S i) (S j) <= Fe (S i) j + 1) /\
    (Fe (S i) (S j) = Fe i (S j) + 1 \/ Fe (S i) (S j) = Fe i j + sub_cost i j \/
     Fe (S i) (S j) = Fe (S i) j + 1).
  Proof. unfold Fe. rewrite spec_cell. apply ed_cell_facts. Qed.
  Lemma sub_cost_01 i j : 0 <= sub_cost i j <= 1.
  Proof. unfold Opt.sub_cost. destruct (_ =? _); lia. Qed.

  Ltac absFe := repeat match goal with |- context [Fe ?a ?b] => let z := fresh "z" in set (z := Fe a b) in *; clearbody z end;
    repeat match goal with H : context [Fe ?a ?b] |- _ => let z := fresh "z" in set (z := Fe a b) in *; clearbody z end.

  (* every edit script from (i0,j0) costs at least the difference of the cell values *)
  Lemma ed_lower : forall ms i0 j0,
    Fe (i0 + cntB ms)%nat (j0 + cntA ms)%nat <= Fe i0 j0 + edit_cost A B i0 j0 ms.
  Proof.
    induction ms as [|m t IH]; intros i0 j0.
    - cbn [edit_cost]. change (cntB []) with 0%nat. change (cntA []) with 0%nat. rewrite !Nat.add_0_r. (absFe; lia).
    - destruct m; cbn [edit_cost].
      + change (cntB (MM :: t)) with (S (cntB t)). change (cntA (MM :: t)) with (S (cntA t)).
        replace (i0 + S (cntB t))%nat with (S i0 + cntB t)%nat by lia.
        replace (j0 + S (cntA t))%nat with (S j0 + cntA t)%nat by lia.
        specialize (IH (S i0) (S j0)).
        pose proof (ed_int i0 j0) as [[_ [H _]] _]. (absFe; lia).
      + change (cntB (MA :: t)) with (S (cntB t)). change (cntA (MA :: t)) with (cntA t).
        replace (i0 + S (cntB t))%nat with (S i0 + cntB t)%nat by lia.
        specialize (IH (S i0) j0).
        assert (H : Fe (S i0) j0 <= Fe i0 j0 + 1).
        { destruct j0 as [|j0]; [rewrite (ed_col (S i0)), (ed_col i0); lia|]. pose proof (ed_int i0 j0) as [[H _] _]. exact H. }
        (absFe; lia).
      + change (cntB (MB :: t)) with (cntB t). change (cntA (MB :: t)) with (S (cntA t)).
        replace (j0 + S (cntA t))%nat with (S j0 + cntA t)%nat by lia.
        specialize (IH i0 (S j0)).
        assert (H : Fe i0 (S j0) <= Fe i0 j0 + 1).
        { destruct i0 as [|i0]; [rewrite (ed_row (S j0)), (ed_row j0); lia|]. pose proof (ed_int i0 j0) as [[_ [_ H]] _]. exact H. }
        (absFe; lia).
  Qed.

  Lemma edit_cost_snoc : forall ms i j m,
    edit_cost A B i j (ms ++ [m]) =
    edit_cost A B i j ms + match m with MM => sub_cost (i + cntB ms) (j + cntA ms) | _ => 1 end.
  Proof.
    induction ms as [|x t IH]; intros i j m.
    - cbn [app edit_cost]. change (cntB []) with 0%nat. change (cntA []) with 0%nat. rewrite !Nat.add_0_r.
      destruct m; cbn [edit_cost]; (absFe; lia).
    - destruct x; cbn [app edit_cost]; rewrite IH.
      + change (cntB (MM :: t)) with (S (cntB t)). change (cntA (MM :: t)) with (S (cntA t)).
        replace (S i + cntB t)%nat with (i + S (cntB t))%nat by lia.
        replace (S j + cntA t)%nat with (j + S (cntA t))%nat by lia. (absFe; lia).
      + change (cntB (MA :: t)) with (S (cntB t)). change (cntA (MA :: t)) with (cntA t).
        replace (S i + cntB t)%nat with (i + S (cntB t))%nat by lia. (absFe; lia).
      + change (cntB (MB :: t)) with (cntB t). change (cntA (MB :: t)) with (S (cntA t)).
        replace (S j + cntA t)%nat with (j + S (cntA t))%nat by lia. (absFe; lia).
  Qed.

  Lemma ed_attained : forall i j, exists ms, cntB ms = i /\ cntA ms = j /\ edit_cost A B 0 0 ms = Fe i j.
  Proof.
    induction i as [|i IHi].
    - induction j as [|j IHj].
      + exists []. repeat split.
      + destruct IHj as [ms [HB [HA HS]]]. exists (ms ++ [MB]).
        rewrite cntB_app, cntA_app, edit_cost_snoc, HB, HA, HS, (ed_row (S j)), (ed_row j).
        change (cntB [MB]) with 0%nat. change (cntA [MB]) with 1%nat. repeat split; (absFe; lia).
    - induction j as [|j IHj].
      + destruct (IHi 0%nat) as [ms [HB [HA HS]]]. exists (ms ++ [MA]).
        rewrite cntB_app, cntA_app, edit_cost_snoc, HB, HA, HS, (ed_col (S i)), (ed_col i).
        change (cntB [MA]) with 1%nat. change (cntA [MA]) with 0%nat. repeat split; (absFe; lia).
      + pose proof (ed_int i j) as [_ [E|[E|E]]].
        * destruct (IHi (S j)) as [ms [HB [HA HS]]]. exists (ms ++ [MA]).
          rewrite cntB_app, cntA_app, edit_cost_snoc, HB, HA, HS.
          change (cntB [MA]) with 1%nat. change (cntA [MA]) with 0%nat. repeat split; (absFe; lia).
        * destruct (IHi j) as [ms [HB [HA HS]]]. exists (ms ++ [MM]).
          rewrite cntB_app, cntA_app, edit_cost_snoc, HB, HA, HS. cbn [plus].
          change (cntB [MM]) with 1%nat. change (cntA [MM]) with 1%nat. repeat split; (absFe; lia).
        * destruct IHj as [ms [HB [HA HS]]]. exists (ms ++ [MB]).
          rewrite cntB_app, cntA_app, edit_cost_snoc, HB, HA, HS.
          change (cntB [MB]) with 0%nat. change (cntA [MB]) with 1%nat. repeat split; (absFe; lia).
  Qed.

  Lemma edit_dist_Fe : edit_dist A B = Fe (length B) (length A).
  Proof. unfold edit_dist, ed_matrix, Fe. rewrite fill_spec by lia. reflexivity. Qed.

  (* edit_dist is the least cost of an edit script turning one sequence into the other *)
  Theorem edit_dist_levenshtein :
    (forall ms, cntB ms = length B -> cntA ms = length A -> edit_dist A B <= edit_cost A B 0 0 ms) /\
    (exists ms, cntB ms = length B /\ cntA ms = length A /\ edit_cost A B 0 0 ms = edit_dist A B).
  Proof.
    rewrite edit_dist_Fe. split.
    - intros ms HB HA. pose proof (ed_lower ms 0 0) as L. cbn [plus] in L. rewrite HB, HA in L.
      rewrite (ed_row 0) in L. cbn [Z.of_nat] in L. (absFe; lia).
    - destruct (ed_attained (length B) (length A)) as [ms [H1 [H2 H3]]]. exists ms. auto.
  Qed.

  (* bounds: | |A| - |B| | <= d <= max(|A|, |B|) *)
  Lemma Fe_bounds : forall i j,
    Z.abs (Z.of_nat i - Z.of_nat j) <= Fe i j <= Z.max (Z.of_nat i) (Z.of_nat j).
  Proof.
    induction i as [|i IHi]; [intros j; pose proof (ed_row j) as E; absFe; lia|].
    induction j as [|j IHj]; [pose proof (ed_col (S i)) as E; absFe; lia|].
    pose proof (ed_int i j) as [[L1 [L2 L3]] E]. pose proof (sub_cost_01 i j) as S01.
    pose proof (IHi (S j)) as H1. pose proof (IHi j) as H2. pose proof IHj as H3.
    destruct E as [E|[E|E]]; rewrite E; (absFe; lia).
  Qed.

  Theorem edit_dist_bounds :
    Z.abs (Z.of_nat (length A) - Z.of_nat (length B)) <= edit_dist A B <=
    Z.max (Z.of_nat (length A)) (Z.of_nat (length B)).
  Proof. rewrite edit_dist_Fe. pose proof (Fe_bounds (length B) (length A)). (absFe; lia). Qed.
End EDOpt.
