(* C02: the similarity returned with an alignment equals the declarative
   re-scoring [LibScore.sc_from] of the returned columns, for global, overlap
   and local mode, primary and secondary, every input and every setting. *)
From Coq Require Import QArith ZArith List Bool Arith Lia Lqa.
From LV Require Import Align.DP Align.DPProofs Align.Calign Align.CalignProofs Align.LibScore.
Import ListNotations.
Local Open Scope Q_scope.

Lemma choose3_cases gA m gB :
  (choose3 gA m gB = (gA, 3%Z)) \/ (choose3 gA m gB = (m, 1%Z)) \/ (choose3 gA m gB = (gB, 2%Z)).
Proof. unfold choose3. destruct (_ && _); [auto|]. destruct (qge m gB); auto. Qed.

Lemma choose4_cases gA m gB :
  (choose4 gA m gB = (gA, 3%Z)) \/ (choose4 gA m gB = (m, 1%Z)) \/ (choose4 gA m gB = (gB, 2%Z)) \/
  (choose4 gA m gB = (0, 0%Z)).
Proof.
  unfold choose4. destruct (_ && _ && _); [auto|]. destruct (_ && _); [auto|]. destruct (qge gB 0); auto.
Qed.

Lemma cum_S (sc : Q) : forall (l : list Q) (k : nat),
  (fix cum (l : list Q) (k : nat) : Q :=
     match k, l with S k', x :: tl => x * sc + cum tl k' | _, _ => 0 end) l (S k)
  == (fix cum (l : list Q) (k : nat) : Q :=
     match k, l with S k', x :: tl => x * sc + cum tl k' | _, _ => 0 end) l k + nth k l 0 * sc.
Proof.
  induction l as [|x tl IH]; intros k.
  - destruct k; cbn; lra.
  - destruct k as [|k].
    + cbn. destruct tl; lra.
    + specialize (IH k). cbn [nth]. 
      change ((fix cum (l : list Q) (k : nat) : Q :=
     match k, l with S k', x :: tl => x * sc + cum tl k' | _, _ => 0 end) (x :: tl) (S (S k)))
        with (x * sc + (fix cum (l : list Q) (k : nat) : Q :=
     match k, l with S k', x :: tl => x * sc + cum tl k' | _, _ => 0 end) tl (S k)).
      change ((fix cum (l : list Q) (k : nat) : Q :=
     match k, l with S k', x :: tl => x * sc + cum tl k' | _, _ => 0 end) (x :: tl) (S k))
        with (x * sc + (fix cum (l : list Q) (k : nat) : Q :=
     match k, l with S k', x :: tl => x * sc + cum tl k' | _, _ => 0 end) tl k).
      lra.
Qed.

Section Score.
  Variable p : cin.
  Variable md : mode.
  Variable sec : bool.
  Hypothesis not_dialign : md <> Dialign.

  Notation SP := (spec (row0 p md sec) (col0 p md sec) (cell p md sec)).
  Notation costA := (costA p md sec true).
  Notation costB := (costB p md sec true).
  Notation mcost := (mcost p md sec).
  Notation sc_from := (sc_from p md sec true).

  Lemma mget_spec i j : (i <= lenB p)%nat -> (j <= lenA p)%nat -> mget p md sec i j = SP i j.
  Proof.
    intros Hi Hj. unfold mget, matrix. destruct md; try congruence; apply fill_spec; assumption.
  Qed.

  Lemma cum_0 l : cum p l 0 = 0.
  Proof. destruct l; reflexivity. Qed.

  Lemma cum_step l k : cum p l (S k) == cum p l k + nthQ l k * scale p.
  Proof. unfold cum, nthQ. apply cum_S. Qed.

  Lemma gapA_decomp i j up : gapA_val p md sec i (S j) up == fst up + costA i (S j) (snd up).
  Proof.
    unfold gapA_val, LibScore.costA. cbv zeta.
    destruct md; try congruence.
    - destruct (restrictedA p sec i (S j)); [lra|]. destruct (snd up =? 3)%Z; lra.
    - destruct (S j =? lenA p)%nat; [lra|].
      destruct (restrictedA p sec i (S j)); [lra|]. destruct (snd up =? 3)%Z; lra.
    - destruct (restrictedA p sec i (S j)); [lra|]. destruct (snd up =? 3)%Z; lra.
  Qed.

  Lemma gapB_decomp i j left : gapB_val p md sec (S i) j left == fst left + costB (S i) j (snd left).
  Proof.
    unfold gapB_val, LibScore.costB. cbv zeta.
    destruct md; try congruence.
    - destruct (restrictedB p sec (S i) j); [lra|]. destruct (snd left =? 2)%Z; lra.
    - destruct (S i =? lenB p)%nat; [lra|].
      destruct (restrictedB p sec (S i) j); [lra|]. destruct (snd left =? 2)%Z; lra.
    - destruct (restrictedB p sec (S i) j); [lra|]. destruct (snd left =? 2)%Z; lra.
  Qed.

  Lemma match_decomp i j d : match_val p md sec i j d == d + mcost i j.
  Proof.
    unfold match_val, LibScore.mcost. cbv zeta.
    destruct (pa p j =? pb p i)%Z; [lra|].
    destruct (sec && memz (rchars p) (pa p j) && negb (memz (rchars p) (pb p i))); [lra|].
    destruct (sec && negb (memz (rchars p) (pa p j)) && memz (rchars p) (pb p i)); [lra|].
    destruct (pro_near p md i j); lra.
  Qed.

  Lemma cell_cases i j up left diag :
    let gA := gapA_val p md sec i j up in
    let gB := gapB_val p md sec i j left in
    let m := match_val p md sec i j (fst diag) in
    let c := cell p md sec i j up left diag in
    c = (gA, 3%Z) \/ c = (m, 1%Z) \/ c = (gB, 2%Z) \/ (c = (0, 0%Z) /\ md = Local).
  Proof.
    cbv zeta. unfold cell. destruct md; try congruence.
    - destruct (choose3_cases (gapA_val p Global sec i j up) (match_val p Global sec i j (fst diag))
                  (gapB_val p Global sec i j left)) as [E|[E|E]]; auto.
    - destruct (choose3_cases (gapA_val p Overlap sec i j up) (match_val p Overlap sec i j (fst diag))
                  (gapB_val p Overlap sec i j left)) as [E|[E|E]]; auto.
    - destruct (choose4_cases (gapA_val p Local sec i j up) (match_val p Local sec i j (fst diag))
                  (gapB_val p Local sec i j left)) as [E|[E|[E|E]]]; auto.
  Qed.

  (* what an interior cell holds, by the move it records *)
  Lemma cell_decomp i j :
    let c := SP (S i) (S j) in
    ((snd c = 3%Z /\ fst c == fst (SP i (S j)) + costA (S i) (S j) (snd (SP i (S j)))) \/
     (snd c = 1%Z /\ fst c == fst (SP i j) + mcost (S i) (S j)) \/
     (snd c = 2%Z /\ fst c == fst (SP (S i) j) + costB (S i) (S j) (snd (SP (S i) j))) \/
     (snd c = 0%Z /\ fst c == 0 /\ md = Local)).
  Proof.
    cbv zeta. rewrite spec_cell.
    pose proof (gapA_decomp (S i) j (SP i (S j))) as GA.
    pose proof (gapB_decomp i (S j) (SP (S i) j)) as GB.
    pose proof (match_decomp (S i) (S j) (fst (SP i j))) as GM.
    destruct (cell_cases (S i) (S j) (SP i (S j)) (SP (S i) j) (SP i j)) as [E|[E|[E|[E EL]]]];
      cbv zeta in E; rewrite E; cbn [fst snd]; auto.
    right. right. right. split; [reflexivity|]. split; [lra|exact EL].
  Qed.

  (* boundary cells *)
  Lemma row0_decomp j : md <> Local ->
    snd (SP 0 (S j)) = 2%Z /\ fst (SP 0 (S j)) == fst (SP 0 j) + costB 0 (S j) (snd (SP 0 j)).
  Proof.
    intros HL. cbn [spec]. unfold row0, LibScore.costB, lead_charged, cumulative.
    destruct md; try congruence; cbn [fst snd]; (split; [reflexivity|]).
    - rewrite cum_step. replace (S j - 1)%nat with j by lia. lra.
    - rewrite andb_true_r. destruct sec; [|lra]. rewrite cum_step. replace (S j - 1)%nat with j by lia. lra.
  Qed.

  Lemma col0_decomp i : md <> Local ->
    snd (SP (S i) 0) = 3%Z /\ fst (SP (S i) 0) == fst (SP i 0) + costA (S i) 0 (snd (SP i 0)).
  Proof.
    intros HL. rewrite spec_col0.
    assert (E : fst (SP i 0) == if cumulative md sec then cum p (gopB p) i else 0).
    { assert (C0 : forall l, cum p l 0 = 0) by (intros l; destruct l; reflexivity).
      destruct i; [cbn [spec]|rewrite spec_col0]; unfold row0, col0; destruct md; try congruence; cbn [fst];
        rewrite ?C0; destruct (cumulative _ _); reflexivity. }
    unfold col0, LibScore.costA, lead_charged in *. unfold cumulative in *.
    destruct md; try congruence; cbn [fst snd] in *; (split; [reflexivity|]); rewrite E.
    - rewrite cum_step. replace (S i - 1)%nat with i by lia. lra.
    - rewrite andb_true_r. destruct sec; [|lra]. rewrite cum_step. replace (S i - 1)%nat with i by lia. lra.
  Qed.

  Lemma SP_00 : md <> Local -> snd (SP 0 0) = 1%Z /\ fst (SP 0 0) == 0.
  Proof.
    intros HL. cbn [spec]. unfold row0. destruct md; try congruence; cbn [fst snd]; rewrite cum_0; split;
      try reflexivity; destruct (cumulative _ _); reflexivity.
  Qed.

  Notation tbS := (fun i j => snd (SP i j)).

  (* global / overlap: value at the cell the traceback is at + score of the columns already
     emitted (to the right), given the move recorded at that cell = score of the whole alignment *)
  Lemma trace_global_score : md <> Local -> forall fuel i j ra rb a b,
    (i <= lenB p)%nat -> (j <= lenA p)%nat ->
    trace_global tbS (seqA p) (seqB p) fuel i j ra rb = Some (a, b) ->
    fst (SP i j) + sc_from i j (snd (SP i j)) ra rb == sc_from 0 0 1 a b.
  Proof.
    intros HL. induction fuel as [|f IH]; intros i j ra rb a b Hi Hj Ht.
    - cbn [trace_global] in Ht. destruct ((i =? 0)%nat && (j =? 0)%nat) eqn:E0; [|discriminate].
      apply andb_true_iff in E0. destruct E0 as [Ei Ej]. apply Nat.eqb_eq in Ei, Ej. subst. inversion Ht; subst.
      destruct (SP_00 HL) as [E1 E2]. rewrite E1, E2. lra.
    - cbn [trace_global] in Ht. destruct ((i =? 0)%nat && (j =? 0)%nat) eqn:E0.
      { apply andb_true_iff in E0. destruct E0 as [Ei Ej]. apply Nat.eqb_eq in Ei, Ej. subst. inversion Ht; subst.
        destruct (SP_00 HL) as [E1 E2]. rewrite E1, E2. lra. }
      destruct i as [|i]; destruct j as [|j]; try discriminate.
      + (* row 0: gap in B *)
        destruct (row0_decomp j HL) as [T2 D]. rewrite T2 in Ht. cbn [Z.eqb Pos.eqb] in Ht.
        replace (S j - 1)%nat with j in Ht by lia.
        destruct (nth_error_some_lt (seqA p) j) as [y Hy]; [unfold lenA in Hj; lia|].
        rewrite Hy in Ht. specialize (IH 0%nat j (Some y :: ra) (None :: rb) a b Hi ltac:(lia) Ht).
        cbn [LibScore.sc_from] in IH. rewrite T2. lra.
      + (* column 0: gap in A *)
        destruct (col0_decomp i HL) as [T3 D]. rewrite T3 in Ht. cbn [Z.eqb Pos.eqb] in Ht.
        replace (S i - 1)%nat with i in Ht by lia.
        destruct (nth_error_some_lt (seqB p) i) as [x Hx]; [unfold lenB in Hi; lia|].
        rewrite Hx in Ht. specialize (IH i 0%nat (None :: ra) (Some x :: rb) a b ltac:(lia) Hj Ht).
        cbn [LibScore.sc_from] in IH. rewrite T3. lra.
      + (* interior *)
        replace (S i - 1)%nat with i in Ht by lia. replace (S j - 1)%nat with j in Ht by lia.
        destruct (nth_error_some_lt (seqB p) i) as [x Hx]; [unfold lenB in Hi; lia|].
        destruct (nth_error_some_lt (seqA p) j) as [y Hy]; [unfold lenA in Hj; lia|].
        rewrite Hx, Hy in Ht.
        destruct (cell_decomp i j) as [[T D]|[[T D]|[[T D]|[T [D EL]]]]]; cbv zeta in T, D; [| | |congruence];
          rewrite T in Ht |- *; cbn [Z.eqb Pos.eqb] in Ht.
        * specialize (IH i (S j) (None :: ra) (Some x :: rb) a b ltac:(lia) Hj Ht).
          cbn [LibScore.sc_from] in IH. lra.
        * specialize (IH i j (Some y :: ra) (Some x :: rb) a b ltac:(lia) ltac:(lia) Ht).
          cbn [LibScore.sc_from] in IH. lra.
        * specialize (IH (S i) j (Some y :: ra) (None :: rb) a b Hi ltac:(lia) Ht).
          cbn [LibScore.sc_from] in IH. lra.
  Qed.

  (* local: the same invariant; the traceback stops at a cell holding (0, 0) *)
  Lemma trace_local_score : md = Local -> forall fuel i j ra rb i' j' a b,
    (i <= lenB p)%nat -> (j <= lenA p)%nat ->
    trace_local tbS (seqA p) (seqB p) fuel i j ra rb = Some (i', j', a, b) ->
    fst (SP i j) + sc_from i j (snd (SP i j)) ra rb == sc_from i' j' 0 a b.
  Proof.
    intros HL.
    assert (Z0 : forall i j, snd (SP i j) = 0%Z -> fst (SP i j) == 0).
    { intros i j. destruct i as [|i]; [cbn [spec]; unfold row0; rewrite HL; reflexivity|].
      destruct j as [|j]; [rewrite spec_col0; unfold col0; rewrite HL; reflexivity|].
      intros T. destruct (cell_decomp i j) as [[T' D]|[[T' D]|[[T' D]|[T' [D _]]]]]; cbv zeta in T', D;
        try congruence. }
    induction fuel as [|f IH]; intros i j ra rb i' j' a b Hi Hj Ht; cbn [trace_local] in Ht.
    - destruct (Z.eqb_spec (snd (SP i j)) 0) as [E|E]; [|discriminate]. inversion Ht; subst.
      rewrite E. rewrite (Z0 _ _ E). lra.
    - destruct (Z.eqb_spec (snd (SP i j)) 0) as [E|E].
      { inversion Ht; subst. rewrite E. rewrite (Z0 _ _ E). lra. }
      destruct i as [|i]; [exfalso; apply E; cbn [spec]; unfold row0; rewrite HL; reflexivity|].
      destruct j as [|j]; [exfalso; apply E; rewrite spec_col0; unfold col0; rewrite HL; reflexivity|].
      replace (S i - 1)%nat with i in Ht by lia. replace (S j - 1)%nat with j in Ht by lia.
      destruct (nth_error_some_lt (seqB p) i) as [x Hx]; [unfold lenB in Hi; lia|].
      destruct (nth_error_some_lt (seqA p) j) as [y Hy]; [unfold lenA in Hj; lia|].
      rewrite Hx, Hy in Ht.
      destruct (cell_decomp i j) as [[T D]|[[T D]|[[T D]|[T [D _]]]]]; cbv zeta in T, D; try congruence;
        rewrite T in Ht |- *; cbn [Z.eqb Pos.eqb] in Ht.
      * specialize (IH i (S j) (None :: ra) (Some x :: rb) i' j' a b ltac:(lia) Hj Ht).
        cbn [LibScore.sc_from] in IH. lra.
      * specialize (IH i j (Some y :: ra) (Some x :: rb) i' j' a b ltac:(lia) ltac:(lia) Ht).
        cbn [LibScore.sc_from] in IH. lra.
      * specialize (IH (S i) j (Some y :: ra) (None :: rb) i' j' a b Hi ltac:(lia) Ht).
        cbn [LibScore.sc_from] in IH. lra.
  Qed.
End Score.

(* ---------- the property-level statements ---------- *)
Section Top.
  Variable p : cin.
  Variable md : mode.
  Variable sec : bool.

  Notation SP := (spec (row0 p md sec) (col0 p md sec) (cell p md sec)).

  Theorem calign_score_exact_global :
    md = Global \/ md = Overlap -> seqA p <> [] -> seqB p <> [] ->
    match align p md sec with
    | RGlobal a b s => s == libscore p md sec true a b
    | _ => False
    end.
  Proof.
    intros Hm HA HB.
    assert (ND : md <> Dialign) by (destruct Hm; subst; discriminate).
    assert (NL : md <> Local) by (destruct Hm; subst; discriminate).
    pose proof (align_valid p md sec HA HB) as V. unfold align in *.
    destruct ((lenA p =? 0)%nat || (lenB p =? 0)%nat); [exact V|].
    destruct md eqn:Emd; try congruence; rewrite <- Emd in *;
      (destruct (trace_global (tbf p md sec) (seqA p) (seqB p) (lenB p + lenA p) (lenB p) (lenA p) [] [])
         as [[a b]|] eqn:Ht; [|exact V];
       rewrite (trace_global_ext (tbf p md sec) (fun i j => snd (SP i j))) in Ht
         by (intros i' j' Hi' Hj'; unfold tbf; rewrite mget_spec by assumption; reflexivity);
       pose proof (trace_global_score p md sec ND NL _ _ _ _ _ _ _ (le_n _) (le_n _) Ht) as S;
       cbn [sc_from] in S; rewrite mget_spec by (assumption || lia); unfold libscore; lra).
  Qed.

  Theorem calign_score_exact_local :
    md = Local -> seqA p <> [] -> seqB p <> [] ->
    match align p md sec with
    | RLocal pa a _ pb b _ s => s == libscore_local p md sec true pa pb a b
    | _ => False
    end.
  Proof.
    intros Hm HA HB.
    assert (ND : md <> Dialign) by (subst; discriminate).
    pose proof (align_valid p md sec HA HB) as V. unfold align in *.
    destruct ((lenA p =? 0)%nat || (lenB p =? 0)%nat); [exact V|].
    pose proof (local_best_bounds p md sec) as Bd.
    rewrite Hm in V |- *. rewrite <- Hm in V |- *.
    destruct (local_best p md sec) as [[k l] v]. destruct Bd as [Hk Hl].
    assert (R0 : forall j, (j <= length (seqA p))%nat -> tbf p md sec 0 j = 0%Z)
      by (intros j Hj; apply tbf_row0_local; assumption).
    assert (C0 : forall i, (i <= length (seqB p))%nat -> tbf p md sec i 0 = 0%Z)
      by (intros i Hi; apply tbf_col0_local; assumption).
    destruct (trace_local_valid Z (tbf p md sec) (seqA p) (seqB p) R0 C0 (k + l) k l [] [] (le_n _) Hk Hl eq_refl I)
      as [i' [j' [a [b [Ht [Li [Lj _]]]]]]].
    rewrite Ht in V |- *.
    rewrite (trace_local_ext (tbf p md sec) (fun i j => snd (SP i j))) in Ht
      by (intros i'' j'' Hi'' Hj''; unfold tbf; rewrite mget_spec by (assumption || lia); reflexivity).
    pose proof (trace_local_score p md sec ND Hm _ _ _ _ _ _ _ _ _ Hk Hl Ht) as S.
    cbn [sc_from] in S. rewrite mget_spec by assumption. unfold libscore_local.
    rewrite !firstn_length. unfold lenA, lenB in *.
    rewrite (Nat.min_l i') by lia. rewrite (Nat.min_l j') by lia. lra.
  Qed.
End Top.

(* outside secondary overlap mode the faithful scheme IS the scheme of the property *)
Lemma sc_from_f8 (p : cin) (md : mode) (sec : bool) : md <> Overlap \/ sec = false ->
  forall a b i j prev, sc_from p md sec false i j prev a b = sc_from p md sec true i j prev a b.
Proof.
  intros H.
  assert (LC : lead_charged md sec false = lead_charged md sec true).
  { unfold lead_charged. destruct md; try reflexivity. destruct H as [H|H]; [congruence|subst; reflexivity]. }
  induction a as [|x ta IH]; intros b i j prev; [reflexivity|].
  destruct b as [|y tb]; [destruct x; reflexivity|].
  destruct x, y; cbn [sc_from]; try reflexivity; rewrite IH; try reflexivity.
  - unfold costB. rewrite LC. reflexivity.
  - unfold costA. rewrite LC. reflexivity.
Qed.
