(* Model of lingpy.algorithm.cython._malign: nw_align, edit_dist, sw_align,
   we_align, restricted_edit_dist.  Symbols are integers, scores exact
   rationals (edit distances integers).  Model only. *)
From Coq Require Import QArith ZArith List Bool Arith.
From LV Require Import Align.DP Align.Calign.
Import ListNotations.
Local Open Scope Q_scope.

Definition insert_at {X} (k : nat) (x : X) (l : list X) : list X := firstn k l ++ x :: skipn k l.
Definition slice {X} (a b : nat) (l : list X) : list X := firstn (b - a) (skipn a l).

Section M.
  Variable A B : list Z.                 (* seqA (columns), seqB (rows) *)
  Variable sc : list (Z * Z * Q).
  Variable gap : Q.

  Definition M := length A.
  Definition N := length B.
  Definition sAB (i j : nat) : Q := score_lookup sc (nthZ A (j - 1)) (nthZ B (i - 1)).

  (* ---------------- nw_align ---------------- *)
  (* if gapA >= match and gapA >= gapB: 3 / elif match >= gapB: 1 / else 2 *)
  Definition nw_cell (i j : nat) (up left diag : cellT) : cellT :=
    let gA := fst up + gap in
    let gB := fst left + gap in
    let m := fst diag + sAB i j in
    if qge gA m && qge gA gB then (gA, 3%Z)
    else if qge m gB then (m, 1%Z)
    else (gB, 2%Z).
  Definition nw_row0 (j : nat) : cellT :=
    (inject_Z (Z.of_nat j) * gap, match j with O => 0%Z | _ => 2%Z end).
  Definition nw_col0 (i : nat) : cellT := (inject_Z (Z.of_nat i) * gap, 3%Z).
  Definition nw_matrix := fill nw_row0 nw_col0 nw_cell N M.
  Definition nw_get (i j : nat) : cellT := get (0, 0%Z) nw_matrix i j.

  Definition nw_align : result :=
    if (M =? 0)%nat || (N =? 0)%nat then RError            (* the Python raises NameError *)
    else match trace_global (fun i j => snd (nw_get i j)) A B (N + M) N M [] [] with
         | Some (a, b) => RGlobal a b (fst (nw_get N M))
         | None => RError
         end.

  (* ---------------- sw_align / we_align: local matrix ---------------- *)
  Definition sw_cell (i j : nat) (up left diag : cellT) : cellT :=
    choose4 (fst up + gap) (fst diag + sAB i j) (fst left + gap).
  Definition z0 (_ : nat) : cellT := (0, 0%Z).
  Definition sw_matrix := fill z0 z0 sw_cell N M.
  Definition sw_get (i j : nat) : cellT := get (0, 0%Z) sw_matrix i j.

  Definition sw_best : nat * nat * Q :=
    fold_left (fun acc i =>
      fold_left (fun acc j =>
        let v := fst (sw_get i j) in
        if qge v (snd acc) then (i, j, v) else acc) (seq 1 M) acc)
      (seq 1 N) (0%nat, 0%nat, 0).

  (* the traceback of sw_align / we_align: gaps are INSERTED into copies of the
     sequences (almA.insert(j,'-')), and the pieces are cut out afterwards *)
  Fixpoint ins_trace (tb : nat -> nat -> Z) (fuel i j : nat) (almA almB : list (option Z)) (igap jgap : nat)
    : option (nat * nat * list (option Z) * list (option Z) * nat * nat) :=
    if (tb i j =? 0)%Z then Some (i, j, almA, almB, igap, jgap)
    else match fuel with
         | O => None
         | S f =>
             if (tb i j =? 3)%Z then ins_trace tb f (i - 1) j (insert_at j None almA) almB igap (S jgap)
             else if (tb i j =? 1)%Z then ins_trace tb f (i - 1) (j - 1) almA almB igap jgap
             else if (tb i j =? 2)%Z then ins_trace tb f i (j - 1) almA (insert_at i None almB) (S igap) jgap
             else Some (i, j, almA, almB, igap, jgap)
         end.

  Definition somes (l : list Z) : list (option Z) := map Some l.

  (* sw_align's return value: three slices of each gapped copy *)
  Inductive sw_result :=
  | SW (preA almA sufA preB almB sufB : list (option Z)) (sim : Q)
  | SWError.

  Definition sw_align : sw_result :=
    if (M =? 0)%nat || (N =? 0)%nat then SWError           (* imax is unbound: NameError *)
    else let '(imax, jmax, _) := sw_best in
      match ins_trace (fun i j => snd (sw_get i j)) (imax + jmax) imax jmax (somes A) (somes B) 0 0 with
      | Some (i, j, almA, almB, igap, jgap) =>
          SW (firstn j almA) (slice j (jmax + jgap) almA) (skipn (jmax + jgap) almA)
             (firstn i almB) (slice i (imax + igap) almB) (skipn (imax + igap) almB)
             (fst (sw_get imax jmax))
      | None => SWError
      end.

  (* ---------------- we_align ---------------- *)
  (* tracer: flat list, index i*(M+1)+j; traceback as a list of lists that is
     zeroed after each extraction *)
  Definition we_tracer0 : list Q :=
    concat (map (fun i => map (fun j => match i, j with
                                        | S _, S _ => fst (sw_get i j)
                                        | _, _ => 0 end) (seq 0 (S M))) (seq 0 (S N))).
  Definition we_tb0 : list (list Z) := map (map snd) sw_matrix.

  Definition qmax_list (l : list Q) : Q :=
    fold_left (fun m x => if qgt x m then x else m) (tl l) (hd 0 l).
  (* max([i for i in range(len(tracer)) if tracer[i] == max_score]) *)
  Definition last_index_eq (l : list Q) (v : Q) : nat :=
    snd (fold_left (fun '(k, best) x => (S k, if Qeq_bool x v then k else best)) l (0%nat, 0%nat)).

  Definition tb_get (tb : list (list Z)) (i j : nat) : Z := nth j (nth i tb []) 0%Z.

  Definition zero_region (imin imax jmin jmax : nat) (tracer : list Q) (tb : list (list Z))
    : list Q * list (list Z) :=
    let hit i j := ((0 <? i) && (0 <? j) &&
                    (((imin <? i) && (i <=? imax)) || ((jmin <? j) && (j <=? jmax))))%nat in
    (concat (map (fun i => map (fun j => if hit i j then 0 else nth (i * S M + j) tracer 0)
                               (seq 0 (S M))) (seq 0 (S N))),
     map (fun i => map (fun j => if hit i j then 0%Z else tb_get tb i j) (seq 0 (S M))) (seq 0 (S N))).

  Fixpoint we_loop (fuel : nat) (tracer : list Q) (tb : list (list Z))
    : option (list (list (option Z) * list (option Z) * Q)) :=
    let mx := qmax_list tracer in
    if Qeq_bool mx 0 then Some []
    else match fuel with
         | O => None
         | S f =>
             let idx := last_index_eq tracer mx in
             let i := (idx / S M)%nat in
             let j := (idx - (idx / S M) * S M)%nat in
             match ins_trace (tb_get tb) (i + j) i j (somes A) (somes B) 0 0 with
             | Some (imin, jmin, almA, almB, igap, jgap) =>
                 let '(tracer', tb') := zero_region imin i jmin j tracer tb in
                 match we_loop f tracer' tb' with
                 | Some rest => Some ((slice jmin (j + jgap) almA, slice imin (i + igap) almB,
                                       fst (sw_get i j)) :: rest)
                 | None => None
                 end
             | None => None
             end
         end.

  Definition we_align := we_loop (S N * S M) we_tracer0 we_tb0.
End M.

(* ---------------- edit_dist ---------------- *)
Section ED.
  Variable A B : list Z.
  Local Open Scope Z_scope.
  (* if gapA < match and gapA < gapB: gapA / elif match <= gapB: match / else gapB *)
  Definition ed_cell (i j : nat) (up left diag : Z) : Z :=
    let m := if (nthZ A (j - 1) =? nthZ B (i - 1)) then diag else diag + 1 in
    let gA := up + 1 in
    let gB := left + 1 in
    if (gA <? m) && (gA <? gB) then gA else if (m <=? gB) then m else gB.
  Definition ed_matrix := fill (fun j => Z.of_nat j) (fun i => Z.of_nat i) ed_cell (length B) (length A).
  Definition edit_dist : Z := get 0 ed_matrix (length B) (length A).
  (* normalized: float(sim) / max([M,N]); raises ZeroDivisionError when both are empty *)
  Definition edit_dist_norm : option Q :=
    match Nat.max (length A) (length B) with
    | O => None
    | S k => Some (inject_Z edit_dist / inject_Z (Z.of_nat (S k)))%Q
    end.

  (* restricted_edit_dist: restriction strings, mismatching restrictions cost 1000 *)
  Variable rA rB : list Z.
  Definition red_cell (i j : nat) (up left diag : Z * Z) : Z * Z :=
    let m := if (nthZ A (j - 1) =? nthZ B (i - 1)) then fst diag
             else if (nthZ rA (j - 1) =? nthZ rB (i - 1)) then fst diag + 1
             else fst diag + 1000 in
    let gA := fst up + 1 in
    let gB := fst left + 1 in
    if (gA <? m) && (gA <? gB) then (gA, 3) else if (m <=? gB) then (m, 1) else (gB, 2).
  Definition red_matrix :=
    fill (fun j => (Z.of_nat j, match j with O => 0 | _ => 2 end)) (fun i => (Z.of_nat i, 3))
         red_cell (length B) (length A).
  Definition red_get (i j : nat) := get (0, 0) red_matrix i j.
  (* returns (sim, length of the alignment) *)
  Definition restricted_edit_dist : option (Z * nat) :=
    if (length A =? 0)%nat || (length B =? 0)%nat then None     (* i, j unbound: NameError *)
    else match trace_global (fun i j => snd (red_get i j)) A B (length B + length A) (length B) (length A) [] [] with
         | Some (a, _) => Some (fst (red_get (length B) (length A)), length a)
         | None => None
         end.
End ED.
