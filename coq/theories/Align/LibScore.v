(* C02: a DECLARATIVE re-scoring of a finished alignment under the library's
   scoring scheme.  [sc_from] looks only at the columns of the alignment: it
   recovers the positions by counting non-gap cells and remembers the type of
   the previous column.  It never looks at the DP matrices.

   Column types are coded like the traceback values: 1 match, 3 gap in A (the
   column consumes a symbol of B), 2 gap in B.  The start state is 1 (global,
   overlap) or 0 (local). *)
From Coq Require Import QArith ZArith List Bool Arith.
From LV Require Import Align.DP Align.Calign.
Import ListNotations.
Local Open Scope Q_scope.

Section Lib.
  Variable p : cin.
  Variable md : mode.
  Variable sec : bool.
  (* [f8 = true] is the faithful scheme: secondary_semi_globalign charges leading gaps
     (known finding F8); [f8 = false] is the scheme the property describes (free terminal
     gaps in overlap mode) *)
  Variable f8 : bool.

  Definition lead_charged : bool :=
    match md with
    | Global => true
    | Overlap => sec && f8
    | _ => false
    end.

  (* substitution score of A[j-1] with B[i-1] increased by the prosodic factor, or the
     boundary penalty of secondary alignment *)
  Definition mcost (i j : nat) : Q :=
    let s := sub p i j in
    if (pa p j =? pb p i)%Z then s + s * factor p
    else if sec && memz (rchars p) (pa p j) && negb (memz (rchars p) (pb p i)) then s - big
    else if sec && negb (memz (rchars p) (pa p j)) && memz (rchars p) (pb p i) then s - big
    else if pro_near p md i j then s + s * factor p / (2 # 1)
    else s.

  (* a column with a gap in A that consumes B[i-1] when j symbols of A are already out;
     [prev] is the type of the previous column *)
  Definition costA (i j : nat) (prev : Z) : Q :=
    let g := nthQ (gopB p) (i - 1) in
    match j with
    | O => if lead_charged then g * scale p else 0           (* leading gap *)
    | _ =>
        if (match md with Overlap => (j =? lenA p)%nat | _ => false end) then 0   (* trailing gap, overlap *)
        else if restrictedA p sec i j then - big
        else if (prev =? 3)%Z then g * scale p                  (* continues a gap in A *)
        else g
    end.

  Definition costB (i j : nat) (prev : Z) : Q :=
    let g := nthQ (gopA p) (j - 1) in
    match i with
    | O => if lead_charged then g * scale p else 0
    | _ =>
        if (match md with Overlap => (i =? lenB p)%nat | _ => false end) then 0
        else if restrictedB p sec i j then - big
        else if (prev =? 2)%Z then g * scale p
        else g
    end.

  (* i symbols of B and j symbols of A are out, the previous column had type prev *)
  Fixpoint sc_from (i j : nat) (prev : Z) (a b : list (option Z)) : Q :=
    match a, b with
    | None :: ta, Some _ :: tb => costA (S i) j prev + sc_from (S i) j 3 ta tb
    | Some _ :: ta, Some _ :: tb => mcost (S i) (S j) + sc_from (S i) (S j) 1 ta tb
    | Some _ :: ta, None :: tb => costB i (S j) prev + sc_from i (S j) 2 ta tb
    | _, _ => 0
    end.

  Definition libscore (a b : list (option Z)) : Q := sc_from 0 0 1 a b.
  (* local mode: the aligned part starts after the prefixes *)
  Definition libscore_local (preA preB : list Z) (a b : list (option Z)) : Q :=
    sc_from (length preB) (length preA) 0 a b.
End Lib.

(* dist = 1 - 2*sim/(self(A)+self(B)) is Calign.distance *)

(* re-scoring a result under the property's scheme / under the faithful scheme *)
Definition rescore (f8 : bool) (p : cin) (md : mode) (sec : bool) (r : result) : option Q :=
  match r with
  | RGlobal a b _ => Some (libscore p md sec f8 a b)
  | RLocal pa a _ pb b _ _ => Some (libscore_local p md sec f8 pa pb a b)
  | RError => None
  end.
Definition result_sim (r : result) : option Q :=
  match r with
  | RGlobal _ _ s => Some s
  | RLocal _ _ _ _ _ _ s => Some s
  | RError => None
  end.
