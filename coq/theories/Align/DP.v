(* Generic dynamic-programming skeleton shared by the pairwise aligners of
   lingpy.algorithm.cython._calign / _talign / _malign:

   - [fill]: the row-major matrix fill (score and traceback stored together in
     one cell value), as a list program that is evaluated against the Python,
     and [spec], the same recurrence as a function, with [fill_spec] relating
     the two once and for all;
   - [trace_global], [trace_local]: the traceback loops.

   Model only; proofs are in DPProofs.v. *)
From Coq Require Import List Arith ZArith Bool.
Import ListNotations.

Section Fill.
  Variable V : Type.
  Variable dflt : V.
  Variable row0 : nat -> V.          (* matrix[0][j], traceback[0][j] *)
  Variable col0 : nat -> V.          (* matrix[i][0], traceback[i][0], i >= 1 *)
  (* cell i j up left diag : the value stored at [i][j], 1 <= i, 1 <= j *)
  Variable cell : nat -> nat -> V -> V -> V -> V.

  Fixpoint build_row (i j : nat) (diag : V) (ups : list V) (left : V) : list V :=
    match ups with
    | [] => []
    | up :: tl => let c := cell i j up left diag in c :: build_row i (S j) up tl c
    end.

  Definition next_row (i : nat) (prev : list V) : list V :=
    match prev with
    | [] => []
    | d :: ups => col0 i :: build_row i 1 d ups (col0 i)
    end.

  Fixpoint rows (n i : nat) (prev : list V) : list (list V) :=
    match n with
    | O => []
    | S n' => let r := next_row i prev in r :: rows n' (S i) r
    end.

  (* N = number of rows - 1 (length of seqB), M = number of columns - 1 (length of seqA) *)
  Definition fill (N M : nat) : list (list V) :=
    let r0 := map row0 (seq 0 (S M)) in r0 :: rows N 1 r0.

  Definition get (m : list (list V)) (i j : nat) : V := nth j (nth i m []) dflt.

  (* the recurrence as a function *)
  Fixpoint spec_row (i : nat) (prev : nat -> V) (j : nat) : V :=
    match j with
    | O => col0 i
    | S j' => cell i j (prev j) (spec_row i prev j') (prev j')
    end.

  Fixpoint spec (i : nat) : nat -> V :=
    match i with
    | O => row0
    | S i' => spec_row i (spec i')
    end.
End Fill.

Arguments build_row {V}.
Arguments next_row {V}.
Arguments rows {V}.
Arguments fill {V}.
Arguments get {V}.
Arguments spec_row {V}.
Arguments spec {V}.

(* A variant whose cell function may also read every completed row (needed by
   the dialign recurrence, which looks back along the whole diagonal). [done]
   holds the completed rows, most recent first. *)
Section FillD.
  Variable V : Type.
  Variable row0 : nat -> V.
  Variable col0 : nat -> V.
  Variable cellD : list (list V) -> nat -> nat -> V -> V -> V -> V.

  Fixpoint rowsD (n i : nat) (done : list (list V)) : list (list V) :=
    match n with
    | O => rev done
    | S n' =>
        let prev := hd [] done in
        let r := next_row col0 (cellD done) i prev in
        rowsD n' (S i) (r :: done)
    end.

  Definition fillD (N M : nat) : list (list V) :=
    rowsD N 1 [map row0 (seq 0 (S M))].
End FillD.

Arguments rowsD {V}.
Arguments fillD {V}.

Section Trace.
  Variable sym : Type.
  Variable tb : nat -> nat -> Z.      (* traceback[i][j] *)
  Variable A B : list sym.            (* seqA (columns, index j), seqB (rows, index i) *)

  Definition col := (option sym * option sym)%type.

  (* while i > 0 or j > 0: ... ; the two rows are accumulated right-to-left,
     which is the final [::-1] of the Python *)
  Fixpoint trace_global (fuel i j : nat) (ra rb : list (option sym))
    : option (list (option sym) * list (option sym)) :=
    if (i =? 0) && (j =? 0) then Some (ra, rb)
    else match fuel with
         | O => None
         | S f =>
             if (tb i j =? 3)%Z then
               trace_global f (i - 1) j (None :: ra) (nth_error B (i - 1) :: rb)
             else if (tb i j =? 1)%Z then
               trace_global f (i - 1) (j - 1) (nth_error A (j - 1) :: ra) (nth_error B (i - 1) :: rb)
             else
               trace_global f i (j - 1) (nth_error A (j - 1) :: ra) (None :: rb)
         end.

  (* while traceback[i][j] != 0: ... else: break.  Returns the end point and the rows. *)
  Fixpoint trace_local (fuel i j : nat) (ra rb : list (option sym))
    : option (nat * nat * list (option sym) * list (option sym)) :=
    if (tb i j =? 0)%Z then Some (i, j, ra, rb)
    else match fuel with
         | O => None
         | S f =>
             if (tb i j =? 3)%Z then
               trace_local f (i - 1) j (None :: ra) (nth_error B (i - 1) :: rb)
             else if (tb i j =? 1)%Z then
               trace_local f (i - 1) (j - 1) (nth_error A (j - 1) :: ra) (nth_error B (i - 1) :: rb)
             else if (tb i j =? 2)%Z then
               trace_local f i (j - 1) (nth_error A (j - 1) :: ra) (None :: rb)
             else Some (i, j, ra, rb)
         end.
End Trace.

Arguments trace_global {sym}.
Arguments trace_local {sym}.

(* de-gapping and the validity predicate (shared vocabulary, DESIGN section 4) *)
Fixpoint degap {A} (l : list (option A)) : list A :=
  match l with
  | [] => []
  | Some x :: tl => x :: degap tl
  | None :: tl => degap tl
  end.

Fixpoint no_double_gap {A} (a b : list (option A)) : Prop :=
  match a, b with
  | [], [] => True
  | x :: ta, y :: tb => (x <> None \/ y <> None) /\ no_double_gap ta tb
  | _, _ => False
  end.

Definition valid_aln {A} (a b : list (option A)) (sA sB : list A) : Prop :=
  length a = length b /\ no_double_gap a b /\ degap a = sA /\ degap b = sB.

Section ValidB.
  Variable A : Type.
  Variable eqb : A -> A -> bool.

  Fixpoint no_double_gapb (a b : list (option A)) : bool :=
    match a, b with
    | [], [] => true
    | x :: ta, y :: tb =>
        (match x, y with None, None => false | _, _ => true end) && no_double_gapb ta tb
    | _, _ => false
    end.

  Fixpoint seq_eqb (l1 l2 : list A) : bool :=
    match l1, l2 with
    | [], [] => true
    | x :: t1, y :: t2 => eqb x y && seq_eqb t1 t2
    | _, _ => false
    end.

  Definition valid_alnb (a b : list (option A)) (sA sB : list A) : bool :=
    Nat.eqb (length a) (length b) && no_double_gapb a b
    && seq_eqb (degap a) sA && seq_eqb (degap b) sB.
End ValidB.

Arguments no_double_gapb {A}.
Arguments seq_eqb {A}.
Arguments valid_alnb {A}.
