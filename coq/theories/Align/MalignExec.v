(* Correspondence cases and output checkers for _malign and the pairwise.py wrappers. *)
From Coq Require Import QArith Qabs ZArith List Bool Arith.
From LV Require Import Common.Cases Align.DP Align.Calign Align.LibScore Align.CalignExec Align.Opt Align.Malign.
Import ListNotations.


Definition sw_result_eqb (r1 r2 : sw_result) : bool :=
  match r1, r2 with
  | SW pa a sa pb b sb s, SW pa' a' sa' pb' b' sb' s' =>
      row_eqb pa pa' && row_eqb a a' && row_eqb sa sa' &&
      row_eqb pb pb' && row_eqb b b' && row_eqb sb sb' && Qeq_bool s s'
  | SWError, SWError => true
  | _, _ => false
  end.

Definition nogap (l : list (option Z)) : bool := forallb (fun o => match o with Some _ => true | None => false end) l.

(* C01 on sw_align's output *)
Definition sw_validb (A B : list Z) (r : sw_result) : bool :=
  match r with
  | SW pa a sa pb b sb _ =>
      nogap pa && nogap sa && nogap pb && nogap sb &&
      Nat.eqb (length a) (length b) && no_double_gapb a b &&
      zs_eqb (degap pa ++ degap a ++ degap sa) A && zs_eqb (degap pb ++ degap b ++ degap sb) B
  | SWError => false
  end.

(* l1 is a contiguous sub-list of l2 *)
Fixpoint prefixb (l1 l2 : list Z) : bool :=
  match l1, l2 with
  | [], _ => true
  | x :: t1, y :: t2 => Z.eqb x y && prefixb t1 t2
  | _, [] => false
  end.
Fixpoint sublistb (l1 l2 : list Z) : bool :=
  prefixb l1 l2 || match l2 with [] => false | _ :: t2 => sublistb l1 t2 end.

Definition triple := (list (option Z) * list (option Z) * Q)%type.
Definition triple_eqb (t1 t2 : triple) : bool :=
  let '(a, b, s) := t1 in let '(a', b', s') := t2 in row_eqb a a' && row_eqb b b' && Qeq_bool s s'.
Definition we_validb (A B : list Z) (l : list triple) : bool :=
  forallb (fun '(a, b, _) => Nat.eqb (length a) (length b) && no_double_gapb a b &&
                             sublistb (degap a) A && sublistb (degap b) B) l.

Inductive mcase :=
| MNW (A B : list Z) (sc : list (Z * Z * Q)) (gap : Q) (out : result)
| MSW (A B : list Z) (sc : list (Z * Z * Q)) (gap : Q) (out : sw_result)
| MWE (A B : list Z) (sc : list (Z * Z * Q)) (gap : Q) (out : list triple)
| MED (A B : list Z) (out : Z) (norm : option Q)
| MRED (A B rA rB : list Z) (out : Z) (norm : Q)
(* IPA-level entry point Pairwise.align: token lists and the returned gapped token rows *)
| MPW (A B : list Z) (local : bool) (almA almB : list (option Z)).

(* C03 on implementation outputs: brute force over all move lists (short sequences) *)
Definition small (A B : list Z) (k : nat) : bool := (length A <=? k)%nat && (length B <=? k)%nat.
Definition sP (A B : list Z) (sc : list (Z * Z * Q)) (gap : Q) :=
  scoreP (fun _ _ => gap) (fun _ _ => gap) (fun i j => sAB A B sc i j).
Definition nw_brute (A B : list Z) (sc : list (Z * Z * Q)) (gap : Q) : Q :=
  match map (sP A B sc gap 0 0) (all_moves (length B + length A) (length B) (length A)) with
  | [] => 0 | x :: t => qmaxl t x end.
Definition sw_brute (A B : list Z) (sc : list (Z * Z * Q)) (gap : Q) : Q :=
  let nb := length B in let na := length A in
  qmaxl (flat_map (fun i0 => flat_map (fun j0 => flat_map (fun di => flat_map (fun dj =>
           map (sP A B sc gap i0 j0) (all_moves (di + dj) di dj))
           (seq 0 (S (na - j0)))) (seq 0 (S (nb - i0)))) (seq 0 (S na))) (seq 0 (S nb))) 0.
Definition zminl (l : list Z) (d : Z) : Z := fold_left Z.min l d.
Definition ed_brute (A B : list Z) : Z :=
  match map (edit_cost A B 0 0) (all_moves (length B + length A) (length B) (length A)) with
  | [] => 0%Z | x :: t => zminl t x end.
Definition sw_sim (r : sw_result) : option Q := match r with SW _ _ _ _ _ _ s => Some s | SWError => None end.

Definition mcase_opt_ok (c : mcase) : bool :=
  match c with
  | MNW A B sc gap out =>
      if small A B 4 then oq_eqb (result_sim out) (Some (nw_brute A B sc gap)) else true
  | MSW A B sc gap out =>
      if small A B 3 && Qle_bool gap 0 then oq_eqb (sw_sim out) (Some (sw_brute A B sc gap)) else true
  | MWE A B sc gap out =>
      if small A B 3 && Qle_bool gap 0 then
        match out with
        | [] => Qeq_bool (sw_brute A B sc gap) 0
        | (_, _, s) :: _ => Qeq_bool s (sw_brute A B sc gap)
        end
      else true
  | MED A B out norm =>
      (Z.abs (Z.of_nat (length A) - Z.of_nat (length B)) <=? out)%Z &&
      (out <=? Z.max (Z.of_nat (length A)) (Z.of_nat (length B)))%Z &&
      (if small A B 5 then Z.eqb out (ed_brute A B) else true) &&
      (* the normalised distance is the returned distance over the longer length (no value when both are empty) *)
      match Nat.max (length A) (length B), norm with
      | O, None => true
      | S k, Some q => qclose q (inject_Z out / inject_Z (Z.of_nat (S k)))
      | _, _ => false
      end
  | MRED _ _ _ _ _ _ => true
  | MPW _ _ _ _ _ => true
  end.

(* score-only correspondence *)
Definition mcase_score_ok (c : mcase) : bool :=
  match c with
  | MNW A B sc gap out => oq_eqb (result_sim (nw_align A B sc gap)) (result_sim out)
  | MSW A B sc gap out => oq_eqb (sw_sim (sw_align A B sc gap)) (sw_sim out)
  | MWE A B sc gap out =>
      match we_align A B sc gap with
      | Some l => list_eqb Qeq_bool (map snd l) (map snd out)
      | None => false end
  | MED A B out norm =>
      Z.eqb (edit_dist A B) out &&
      match edit_dist_norm A B, norm with
      | Some q, Some q' => qclose q q'
      | None, None => true
      | _, _ => false end
  | MRED A B rA rB out norm =>
      match restricted_edit_dist A B rA rB with
      | Some (s, len) => Z.eqb s out && qclose (inject_Z s / inject_Z (Z.of_nat len)) norm
      | None => false end
  | MPW _ _ _ _ _ => true
  end.

Definition mcase_code (c : mcase) : nat :=
  bit 3 (mcase_opt_ok c) + bit 5 (mcase_score_ok c) +
  match c with
  | MNW A B sc gap out =>
      bit 0 (result_eqb (nw_align A B sc gap) out) + bit 1 (result_validb A B out)
  | MSW A B sc gap out =>
      bit 0 (sw_result_eqb (sw_align A B sc gap) out) + bit 1 (sw_validb A B out)
  | MWE A B sc gap out =>
      bit 0 (match we_align A B sc gap with
             | Some l => list_eqb triple_eqb l out
             | None => false end) + bit 1 (we_validb A B out)
  | MED A B out norm =>
      bit 0 (Z.eqb (edit_dist A B) out &&
             match edit_dist_norm A B, norm with
             | Some q, Some q' => qclose q q'
             | None, None => true
             | _, _ => false end)
  | MRED A B rA rB out norm =>
      bit 0 (match restricted_edit_dist A B rA rB with
             | Some (s, len) => Z.eqb s out && qclose (inject_Z s / inject_Z (Z.of_nat len)) norm
             | None => false end)
  | MPW A B local a b =>
      bit 1 (if local then Nat.eqb (length a) (length b) && no_double_gapb a b &&
                           sublistb (degap a) A && sublistb (degap b) B
             else valid_alnb Z.eqb a b A B)
  end.
