(* Correspondence cases and output checkers for _malign and the pairwise.py wrappers. *)
From Coq Require Import QArith Qabs ZArith List Bool Arith.
From LV Require Import Common.Cases Align.DP Align.Calign Align.CalignExec Align.Malign.
Import ListNotations.


Definition sw_result_eqb (r1 r2 : sw_result) : bool :=
  match r1, r2 with
  | SW pa a sa pb b sb s, SW pa' a' sa' pb' b' sb' s' =>
      row_eqb pa pa' && row_eqb a a' && row_eqb sa sa' &&
      row_eqb pb pb' && row_eqb b b' && row_eqb sb sb' && Qeq_bool s s'
  | SWError, SWError => true
  | _, _ => false
  end.

Definition nogap (l : list (option Z)) : bool := forallb (fun o => match o with Some _ => true | None => false end) l.

(* C01 on sw_align's output *)
Definition sw_validb (A B : list Z) (r : sw_result) : bool :=
  match r with
  | SW pa a sa pb b sb _ =>
      nogap pa && nogap sa && nogap pb && nogap sb &&
      Nat.eqb (length a) (length b) && no_double_gapb a b &&
      zs_eqb (degap pa ++ degap a ++ degap sa) A && zs_eqb (degap pb ++ degap b ++ degap sb) B
  | SWError => false
  end.

(* l1 is a contiguous sub-list of l2 *)
Fixpoint prefixb (l1 l2 : list Z) : bool :=
  match l1, l2 with
  | [], _ => true
  | x :: t1, y :: t2 => Z.eqb x y && prefixb t1 t2
  | _, [] => false
  end.
Fixpoint sublistb (l1 l2 : list Z) : bool :=
  prefixb l1 l2 || match l2 with [] => false | _ :: t2 => sublistb l1 t2 end.

Definition triple := (list (option Z) * list (option Z) * Q)%type.
Definition triple_eqb (t1 t2 : triple) : bool :=
  let '(a, b, s) := t1 in let '(a', b', s') := t2 in row_eqb a a' && row_eqb b b' && Qeq_bool s s'.
Definition we_validb (A B : list Z) (l : list triple) : bool :=
  forallb (fun '(a, b, _) => Nat.eqb (length a) (length b) && no_double_gapb a b &&
                             sublistb (degap a) A && sublistb (degap b) B) l.

Inductive mcase :=
| MNW (A B : list Z) (sc : list (Z * Z * Q)) (gap : Q) (out : result)
| MSW (A B : list Z) (sc : list (Z * Z * Q)) (gap : Q) (out : sw_result)
| MWE (A B : list Z) (sc : list (Z * Z * Q)) (gap : Q) (out : list triple)
| MED (A B : list Z) (out : Z) (norm : option Q)
| MRED (A B rA rB : list Z) (out : Z) (norm : Q).

Definition mcase_code (c : mcase) : nat :=
  match c with
  | MNW A B sc gap out =>
      bit 0 (result_eqb (nw_align A B sc gap) out) + bit 1 (result_validb A B out)
  | MSW A B sc gap out =>
      bit 0 (sw_result_eqb (sw_align A B sc gap) out) + bit 1 (sw_validb A B out)
  | MWE A B sc gap out =>
      bit 0 (match we_align A B sc gap with
             | Some l => list_eqb triple_eqb l out
             | None => false end) + bit 1 (we_validb A B out)
  | MED A B out norm =>
      bit 0 (Z.eqb (edit_dist A B) out &&
             match edit_dist_norm A B, norm with
             | Some q, Some q' => qclose q q'
             | None, None => true
             | _, _ => false end)
  | MRED A B rA rB out norm =>
      bit 0 (match restricted_edit_dist A B rA rB with
             | Some (s, len) => Z.eqb s out && qclose (inject_Z s / inject_Z (Z.of_nat len)) norm
             | None => false end)
  end.
