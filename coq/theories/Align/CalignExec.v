(* Correspondence cases and output checkers for the pairwise aligners. *)
From Coq Require Import QArith ZArith List Bool Arith.
From LV Require Import Common.Cases Align.DP Align.Calign.
Import ListNotations.

Definition oz_eqb : option Z -> option Z -> bool := option_eqb Z.eqb.
Definition row_eqb : list (option Z) -> list (option Z) -> bool := list_eqb oz_eqb.
Definition zs_eqb : list Z -> list Z -> bool := list_eqb Z.eqb.

Definition result_eqb (r1 r2 : result) : bool :=
  match r1, r2 with
  | RGlobal a b s, RGlobal a' b' s' => row_eqb a a' && row_eqb b b' && Qeq_bool s s'
  | RLocal pa a sa pb b sb s, RLocal pa' a' sa' pb' b' sb' s' =>
      zs_eqb pa pa' && row_eqb a a' && zs_eqb sa sa' &&
      zs_eqb pb pb' && row_eqb b b' && zs_eqb sb sb' && Qeq_bool s s'
  | RError, RError => true
  | _, _ => false
  end.

(* C01 on an implementation output *)
Definition result_validb (sA sB : list Z) (r : result) : bool :=
  match r with
  | RGlobal a b _ => valid_alnb Z.eqb a b sA sB
  | RLocal pa a sa pb b sb _ =>
      Nat.eqb (length a) (length b) && no_double_gapb a b &&
      zs_eqb (pa ++ degap a ++ sa) sA && zs_eqb (pb ++ degap b ++ sb) sB
  | RError => false
  end.

Record align_case := {
  ac_in : cin;
  ac_fn : nat;          (* 0: calign.<mode function>; 1: calign.align_pair; 2: talign.<fn>; 3: talign.align_pair *)
  ac_mode : mode;
  ac_sec : bool;        (* for ac_fn = 0: the secondary_* twin was called *)
  ac_gop : Q;           (* gop argument (align_pair, talign) *)
  ac_out : result;      (* implementation *)
  ac_dist : option Q    (* implementation's distance, when requested (checked in Python) *)
}.

Definition model_of (c : align_case) : result :=
  match ac_fn c with
  | 0%nat => align (ac_in c) (ac_mode c) (ac_sec c)
  | 1%nat => align_pair (ac_in c) (ac_gop c) (ac_mode c)
  | _ => talign (seqA (ac_in c)) (seqB (ac_in c)) (ac_gop c) (scale (ac_in c)) (scorer (ac_in c)) (ac_mode c)
  end.

Definition align_case_code (c : align_case) : nat :=
  bit 0 (result_eqb (model_of c) (ac_out c))
  + bit 1 (result_validb (seqA (ac_in c)) (seqB (ac_in c)) (ac_out c)).
