(* Correspondence cases and output checkers for the pairwise aligners. *)
From Coq Require Import QArith Qabs ZArith List Bool Arith.
From LV Require Import Common.Cases Align.DP Align.Calign Align.LibScore Align.Opt.
Import ListNotations.

Definition oz_eqb : option Z -> option Z -> bool := option_eqb Z.eqb.
Definition row_eqb : list (option Z) -> list (option Z) -> bool := list_eqb oz_eqb.
Definition zs_eqb : list Z -> list Z -> bool := list_eqb Z.eqb.

Definition result_eqb (r1 r2 : result) : bool :=
  match r1, r2 with
  | RGlobal a b s, RGlobal a' b' s' => row_eqb a a' && row_eqb b b' && Qeq_bool s s'
  | RLocal pa a sa pb b sb s, RLocal pa' a' sa' pb' b' sb' s' =>
      zs_eqb pa pa' && row_eqb a a' && zs_eqb sa sa' &&
      zs_eqb pb pb' && row_eqb b b' && zs_eqb sb sb' && Qeq_bool s s'
  | RError, RError => true
  | _, _ => false
  end.

(* C01 on an implementation output *)
Definition result_validb (sA sB : list Z) (r : result) : bool :=
  match r with
  | RGlobal a b _ => valid_alnb Z.eqb a b sA sB
  | RLocal pa a sa pb b sb _ =>
      Nat.eqb (length a) (length b) && no_double_gapb a b &&
      zs_eqb (pa ++ degap a ++ sa) sA && zs_eqb (pb ++ degap b ++ sb) sB
  | RError => false
  end.

Record align_case := {
  ac_in : cin;
  ac_fn : nat;          (* 0: calign.<mode function>; 1: calign.align_pair; 2: talign.<fn>; 3: talign.align_pair;
                           4: calign.align_pairwise (mode function with the batch-level secondary flag and the
                              calign distance) *)
  ac_mode : mode;
  ac_sec : bool;        (* for ac_fn = 0: the secondary_* twin was called *)
  ac_gop : Q;           (* gop argument (align_pair, talign) *)
  ac_out : result;      (* implementation *)
  ac_dist : option Q    (* implementation's distance, when requested (checked in Python) *)
}.

Definition model_of (c : align_case) : result :=
  match ac_fn c with
  | 0%nat => align (ac_in c) (ac_mode c) (ac_sec c)
  | 1%nat => align_pair (ac_in c) (ac_gop c) (ac_mode c)
  | 4%nat => align (ac_in c) (ac_mode c) (ac_sec c)
  | _ => talign (seqA (ac_in c)) (seqB (ac_in c)) (ac_gop c) (scale (ac_in c)) (scorer (ac_in c)) (ac_mode c)
  end.

(* the parameters the mode function finally runs with *)
Definition eff_in (c : align_case) : cin :=
  match ac_fn c with
  | 0%nat => ac_in c
  | 1%nat => with_gop (ac_in c) (ac_gop c)
  | 4%nat => ac_in c
  | _ => talign_in (seqA (ac_in c)) (seqB (ac_in c)) (ac_gop c) (scale (ac_in c)) (scorer (ac_in c))
  end.
Definition eff_sec (c : align_case) : bool :=
  match ac_fn c with
  | 0%nat => ac_sec c
  | 1%nat => any_restricted (ac_in c)
  | 4%nat => ac_sec c
  | _ => false
  end.

Definition oq_eqb (x y : option Q) : bool :=
  match x, y with Some a, Some b => Qeq_bool a b | None, None => true | _, _ => false end.

(* C02 on an implementation output: re-scoring the returned columns gives the returned score
   (f8 = false: the scheme of the property; f8 = true: the faithful scheme with the known
   finding F8); dialign is excluded by the property *)
Definition rescore_ok (f8 : bool) (c : align_case) : bool :=
  match ac_mode c with
  | Dialign => true
  | md => oq_eqb (rescore f8 (eff_in c) md (eff_sec c) (ac_out c)) (result_sim (ac_out c))
  end.

Definition qclose (a b : Q) : bool := Qle_bool (Qabs.Qabs (a - b)) (1 # 1099511627776).

(* the distance returned on request is 1 - 2*sim/(self(A)+self(B)) of the returned similarity *)
Definition dist_ok (c : align_case) : bool :=
  match ac_dist c, result_sim (ac_out c) with
  | Some d, Some s =>
      match ac_fn c with
      | 1%nat => qclose d (distance (ac_in c) s)
      | 4%nat => qclose d (distance (ac_in c) s)
      | _ => qclose d (1 - (2 # 1) * s / (talign_self (scorer (ac_in c)) (seqA (ac_in c))
                                          + talign_self (scorer (ac_in c)) (seqB (ac_in c))))
      end
  | _, _ => true
  end.

(* C03 on an implementation output (scale = 1, short sequences): brute-force maximum over ALL
   move lists (global/overlap), over all slice pairs and move lists (local) *)
Fixpoint all_moves (fuel nb na : nat) : list (list move) :=
  match fuel with
  | O => [[]]
  | S f =>
      match nb, na with
      | O, O => [[]]
      | _, _ =>
          (match nb with S nb' => map (cons MA) (all_moves f nb' na) | O => [] end) ++
          (match nb, na with S nb', S na' => map (cons MM) (all_moves f nb' na') | _, _ => [] end) ++
          (match na with S na' => map (cons MB) (all_moves f nb na') | O => [] end)
      end
  end.

Definition qmaxl (l : list Q) (d : Q) : Q := fold_left (fun m x => if Qle_bool m x then x else m) l d.

Definition brute_global (p : cin) (md : mode) (sec : bool) : Q :=
  let nb := length (seqB p) in let na := length (seqA p) in
  match map (sc_moves p md sec 0 0 1) (all_moves (nb + na) nb na) with
  | [] => 0
  | x :: t => qmaxl t x
  end.

Definition brute_local (p : cin) (sec : bool) : Q :=
  let nb := length (seqB p) in let na := length (seqA p) in
  qmaxl (flat_map (fun i0 => flat_map (fun j0 => flat_map (fun di => flat_map (fun dj =>
           map (sc_moves p Local sec i0 j0 0) (all_moves (di + dj) di dj))
           (seq 0 (S (na - j0)))) (seq 0 (S (nb - i0)))) (seq 0 (S na))) (seq 0 (S nb))) 0.

Definition optimal_ok (c : align_case) : bool :=
  let p := eff_in c in
  if Qeq_bool (scale p) 1 && (length (seqA p) <=? 4)%nat && (length (seqB p) <=? 4)%nat then
    match ac_mode c, result_sim (ac_out c) with
    | Dialign, _ => true
    | Local, Some s => if (length (seqA p) + length (seqB p) <=? 6)%nat then Qeq_bool s (brute_local p (eff_sec c)) else true
    | md, Some s => Qeq_bool s (brute_global p md (eff_sec c))
    | _, None => false
    end
  else true.

(* score-only correspondence (C03 is about scores, not about which optimal alignment is returned) *)
Definition score_eqb (c : align_case) : bool :=
  oq_eqb (result_sim (model_of c)) (result_sim (ac_out c)).

Definition align_case_code (c : align_case) : nat :=
  bit 0 (result_eqb (model_of c) (ac_out c))
  + bit 1 (result_validb (seqA (ac_in c)) (seqB (ac_in c)) (ac_out c))
  + bit 2 (rescore_ok false c && dist_ok c)
  + bit 3 (optimal_ok c)
  + bit 4 (rescore_ok true c)
  + bit 5 (score_eqb c).
