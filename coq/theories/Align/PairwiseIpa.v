(* C01, IPA-string-level entry point (Pairwise.align): the class-level alignment returned by
   calign.align_pairs is mapped back onto the IPA tokens with class2tokens (C14's model).  If the
   class-level rows are a valid alignment of the class strings (C01_calign), the class strings
   have one class per token (C14_tokens2class_length) and no class is a gap class
   (C14_shipped_classes_not_gap), then the IPA-level rows are a valid alignment of the tokens:
   equal length, no column with two gaps, de-gapping gives back the tokens. *)
From Coq Require Import ZArith List Bool Arith Lia.
From LV Require Import Common.Cases Align.DP Seq.SeqCommon Seq.Token2Class Seq.ClassTokens Seq.ClassTokensProofs.
Import ListNotations.

Definition gapc : token := [45%Z].                        (* '-' *)
Definition tk (c : Z) : token := [c].                     (* a class as a one-character string *)
Definition render (r : list (option Z)) : list token :=   (* the aligned class string *)
  map (fun o => match o with None => gapc | Some c => tk c end) r.

Lemma gapc_is_gap : is_gap_class gapc = true.
Proof. reflexivity. Qed.

Lemma F2_length {X Y} (R : X -> Y -> Prop) (l1 : list X) (l2 : list Y) : Forall2 R l1 l2 -> length l1 = length l2.
Proof. induction 1; cbn; congruence. Qed.

Lemma no_double_ipa : forall (a b : list (option Z)) (xa xb ca cb : list token),
  no_double_gap a b ->
  Forall2 (fun o c => o = gapc <-> is_gap_class c = true) xa ca ->
  Forall2 (fun o c => o = gapc <-> is_gap_class c = true) xb cb ->
  Forall2 (fun c o => is_gap_class c = true <-> o = None) ca a ->
  Forall2 (fun c o => is_gap_class c = true <-> o = None) cb b ->
  forall k, ~ (nth k xa [] = gapc /\ nth k xb [] = gapc).
Proof.
  induction a as [|x ta IH]; intros b xa xb ca cb ND PA PB RA RB k.
  - inversion RA; subst. inversion PA; subst. destruct k; cbn [nth]; intros [E _]; discriminate.
  - destruct b as [|y tb]; [destruct ND|]. cbn [no_double_gap] in ND. destruct ND as [Hxy ND].
    inversion RA as [|c1 o1 ca' ta' R1 RA']; subst. inversion RB as [|c2 o2 cb' tb' R2 RB']; subst.
    inversion PA as [|p1 q1 xa' ca'' P1 PA']; subst. inversion PB as [|p2 q2 xb' cb'' P2 PB']; subst.
    destruct k as [|k]; cbn [nth].
    + intros [E1 E2]. apply P1 in E1. apply P2 in E2. apply R1 in E1. apply R2 in E2. destruct Hxy; congruence.
    + apply (IH tb xa' xb' ca' cb'); assumption.
Qed.

Section Ipa.
  Variable a b : list (option Z).         (* class-level rows *)
  Variable clA clB : list Z.              (* class strings *)
  Variable tokA tokB : list token.        (* IPA tokens *)
  Hypothesis class_valid : valid_aln a b clA clB.
  Hypothesis lenA : length clA = length tokA.
  Hypothesis lenB : length clB = length tokB.
  Hypothesis no_gap_tokA : ~ In gapc tokA.
  Hypothesis no_gap_tokB : ~ In gapc tokB.
  Hypothesis classes_ok : forall c, In c clA \/ In c clB -> is_gap_class (tk c) = false.

  Lemma nongaps_render (r : list (option Z)) (cl : list Z) :
    DP.degap r = cl -> (forall c, In c cl -> is_gap_class (tk c) = false) ->
    nongaps (render r) = length cl.
  Proof.
    revert cl. induction r as [|[c|] t IH]; intros cl E H; cbn [DP.degap] in E; subst cl.
    - reflexivity.
    - unfold nongaps in *. cbn [render map filter]. rewrite (H c (or_introl eq_refl)). cbn [negb length].
      f_equal. apply IH; [reflexivity|]. intros c' Hc'. apply H. right. exact Hc'.
    - unfold nongaps in *. cbn [render map filter]. rewrite gapc_is_gap. cbn [negb]. apply IH; [reflexivity|exact H].
  Qed.

  Lemma render_pattern (r : list (option Z)) (cl : list Z) :
    DP.degap r = cl -> (forall c, In c cl -> is_gap_class (tk c) = false) ->
    Forall2 (fun c o => is_gap_class c = true <-> o = None) (render r) r.
  Proof.
    revert cl. induction r as [|[c|] t IH]; intros cl E H; cbn [DP.degap] in E; subst cl; cbn [render map].
    - constructor.
    - constructor.
      + rewrite (H c (or_introl eq_refl)). split; discriminate.
      + apply (IH (DP.degap t) eq_refl). intros c' Hc'. apply H. right. exact Hc'.
    - constructor; [rewrite gapc_is_gap; split; reflexivity|]. apply (IH (DP.degap t) eq_refl). exact H.
  Qed.

  Let ra := class2tokens gapc tokA (render a).
  Let rb := class2tokens gapc tokB (render b).

  Theorem ipa_alignment_valid :
    length ra = length rb /\
    (forall k, k < length ra -> ~ (nth k ra [] = gapc /\ nth k rb [] = gapc)) /\
    ClassTokens.degap gapc ra = tokA /\ ClassTokens.degap gapc rb = tokB.
  Proof.
    destruct class_valid as [L [ND [DA DB]]].
    assert (OKA : forall c, In c clA -> is_gap_class (tk c) = false) by (intros c H; apply classes_ok; left; exact H).
    assert (OKB : forall c, In c clB -> is_gap_class (tk c) = false) by (intros c H; apply classes_ok; right; exact H).
    pose proof (class2tokens_pattern gapc tokA (render a) no_gap_tokA
                  ltac:(rewrite (nongaps_render a clA DA OKA); exact lenA)) as PA.
    pose proof (class2tokens_pattern gapc tokB (render b) no_gap_tokB
                  ltac:(rewrite (nongaps_render b clB DB OKB); exact lenB)) as PB.
    fold ra in PA. fold rb in PB.
    pose proof (render_pattern a clA DA OKA) as RA. pose proof (render_pattern b clB DB OKB) as RB.
    assert (LA : length ra = length a).
    { rewrite (F2_length _ _ _ PA). unfold render. apply map_length. }
    assert (LB : length rb = length b).
    { rewrite (F2_length _ _ _ PB). unfold render. apply map_length. }
    split; [lia|]. split.
    - intros k _. apply (no_double_ipa a b ra rb (render a) (render b)); assumption.
    - split; [apply class2tokens_degap; exact no_gap_tokA|apply class2tokens_degap; exact no_gap_tokB].
  Qed.
End Ipa.
