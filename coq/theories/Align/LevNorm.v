(* The normalised edit distance: edit_dist / max(len A, len B).  It is the Levenshtein distance over the longer
   length, lies in [0, 1], and is 0 exactly for equal sequences; for two empty sequences there is no value (the
   Python divides by zero). *)
From Coq Require Import ZArith QArith List Bool Arith Lia.
From LV Require Import Align.DP Align.Calign Align.Opt Align.Malign Align.MalignOptProofs Align.LevProofs.
Import ListNotations.

Lemma edit_dist_norm_empty : edit_dist_norm [] [] = None.
Proof. reflexivity. Qed.

Theorem edit_dist_norm_spec (A B : list Z) :
  A <> [] \/ B <> [] ->
  exists q, edit_dist_norm A B = Some q /\
    q == inject_Z (edit_dist A B) / inject_Z (Z.of_nat (Nat.max (length A) (length B))) /\
    0 <= q /\ q <= 1 /\ (q == 0 <-> A = B).
Proof.
  intros NE. unfold edit_dist_norm.
  destruct (Nat.max (length A) (length B)) as [|k] eqn:E.
  - exfalso. destruct A, B; cbn in E; try lia. destruct NE as [H|H]; apply H; reflexivity.
  - pose proof (edit_dist_bounds A B) as [_ Hub]. pose proof (edit_dist_nonneg A B) as Hlb.
    assert (Hm : Z.max (Z.of_nat (length A)) (Z.of_nat (length B)) = Z.of_nat (S k)) by lia.
    rewrite Hm in Hub. clear Hm.
    set (e := edit_dist A B) in *. set (m := Z.of_nat (S k)) in *.
    assert (Hmpos : (0 < m)%Z) by (subst m; lia).
    assert (Hq0 : 0 < inject_Z m) by (change 0 with (inject_Z 0); rewrite <- Zlt_Qlt; exact Hmpos).
    exists (inject_Z e / inject_Z m). split; [reflexivity|]. split; [reflexivity|].
    split; [|split].
    + apply Qle_shift_div_l; [exact Hq0|]. rewrite Qmult_0_l. change 0 with (inject_Z 0). rewrite <- Zle_Qle. exact Hlb.
    + apply Qle_shift_div_r; [exact Hq0|]. rewrite Qmult_1_l. rewrite <- Zle_Qle. exact Hub.
    + split.
      * intros Z0. apply edit_dist_zero_eq. fold e.
        assert (H : inject_Z e == 0).
        { rewrite <- (Qmult_div_r (inject_Z e) (inject_Z m)); [|intros X; rewrite X in Hq0; discriminate].
          rewrite Z0. apply Qmult_0_r. }
        exact (proj1 (inject_Z_injective e 0) H).
      * intros ->. subst e. rewrite edit_dist_self. unfold Qdiv. apply Qmult_0_l.
Qed.
