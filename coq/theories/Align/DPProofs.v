(* Proofs about the generic DP skeleton: the list program computes the
   recurrence ([fill_spec]); the traceback loops return valid alignments for an
   ARBITRARY interior of the traceback matrix (only the boundary matters), which
   therefore covers every scorer, gap weight, scale, factor, restricted-character
   set and the dialign recurrence at once. *)
From Coq Require Import List Arith ZArith Bool Lia.
From LV Require Import Align.DP.
Import ListNotations.

Section FillProofs.
  Variable V : Type.
  Variable dflt : V.
  Variable row0 : nat -> V.
  Variable col0 : nat -> V.
  Variable cell : nat -> nat -> V -> V -> V -> V.

  Notation spec_row := (spec_row col0 cell).
  Notation spec := (spec row0 col0 cell).

  Lemma build_row_spec i prev : forall len j,
    build_row cell i (S j) (prev j) (map prev (seq (S j) len)) (spec_row i prev j)
    = map (spec_row i prev) (seq (S j) len).
  Proof.
    induction len as [|len IH]; intros j; [reflexivity|].
    cbn [seq map build_row]. f_equal. apply IH.
  Qed.

  Lemma next_row_spec i prev M :
    next_row col0 cell i (map prev (seq 0 (S M))) = map (spec_row i prev) (seq 0 (S M)).
  Proof.
    cbn [seq map next_row]. f_equal. apply (build_row_spec i prev M 0).
  Qed.

  Lemma rows_spec M : forall n i,
    rows col0 cell n (S i) (map (spec i) (seq 0 (S M)))
    = map (fun k => map (spec k) (seq 0 (S M))) (seq (S i) n).
  Proof.
    induction n as [|n IH]; intros i; [reflexivity|].
    cbn [rows]. rewrite next_row_spec.
    change (spec_row (S i) (spec i)) with (spec (S i)).
    change (seq (S i) (S n)) with (S i :: seq (S (S i)) n). cbn [map]. f_equal. apply IH.
  Qed.

  Lemma fill_rows N M :
    fill row0 col0 cell N M = map (fun k => map (spec k) (seq 0 (S M))) (seq 0 (S N)).
  Proof.
    unfold fill. cbn zeta. change (map row0 (seq 0 (S M))) with (map (spec 0) (seq 0 (S M))).
    rewrite rows_spec. reflexivity.
  Qed.

  Theorem fill_spec N M i j : i <= N -> j <= M ->
    get dflt (fill row0 col0 cell N M) i j = spec i j.
  Proof.
    intros Hi Hj. unfold get. rewrite fill_rows.
    rewrite (nth_indep _ [] (map (spec 0) (seq 0 (S M)))) by (rewrite map_length, seq_length; lia).
    rewrite (map_nth (fun k => map (spec k) (seq 0 (S M)))).
    rewrite seq_nth by lia. cbn [plus].
    rewrite (nth_indep _ dflt (spec i 0)) by (rewrite map_length, seq_length; lia).
    rewrite (map_nth (spec i)). rewrite seq_nth by lia. reflexivity.
  Qed.

  Lemma spec_col0 i : spec (S i) 0 = col0 (S i).
  Proof. reflexivity. Qed.

  Lemma spec_row0 j : spec 0 j = row0 j.
  Proof. reflexivity. Qed.

  Lemma spec_cell i j : spec (S i) (S j) = cell (S i) (S j) (spec i (S j)) (spec (S i) j) (spec i j).
  Proof. reflexivity. Qed.
End FillProofs.

(* ------------------------------------------------------------------ *)
(* the dialign variant: only the boundary is needed *)
Section FillDProofs.
  Variable V : Type.
  Variable dflt : V.
  Variable row0 : nat -> V.
  Variable col0 : nat -> V.
  Variable cellD : list (list V) -> nat -> nat -> V -> V -> V -> V.

  Definition row_ok (M i : nat) (r : list V) : Prop :=
    length r = S M /\ nth 0 r dflt = (match i with O => row0 0 | _ => col0 i end).

  Lemma length_build_row (c : nat -> nat -> V -> V -> V -> V) i : forall ups j diag left,
    length (build_row c i j diag ups left) = length ups.
  Proof. induction ups as [|u tl IH]; intros; cbn [build_row length]; [reflexivity|]. f_equal. apply IH. Qed.

  Lemma next_row_ok c M i prev : length prev = S M ->
    length (next_row col0 c (S i) prev) = S M /\ nth 0 (next_row col0 c (S i) prev) dflt = col0 (S i).
  Proof.
    destruct prev as [|d ups]; [discriminate|]. cbn [length next_row nth]. intros H.
    rewrite length_build_row. split; [exact H|reflexivity].
  Qed.

  (* invariant of rowsD: done (reversed) holds rows i0 .. i-1, each of length S M
     and with the right first column *)
  Lemma rowsD_ok M : forall n i done,
    done <> [] ->
    (forall k, k < length done -> row_ok M (i - 1 - k) (nth k done [])) ->
    length done = i ->
    let m := rowsD col0 cellD n i done in
    length m = i + n /\ forall k, k < i + n -> row_ok M k (nth k m []).
  Proof.
    induction n as [|n IH]; intros i done NE OK L; cbn [rowsD].
    - rewrite rev_length. split; [lia|]. intros k Hk. rewrite rev_nth by lia.
      replace (length done - S k) with (i - 1 - k) by lia.
      assert (E : k = i - 1 - (i - 1 - k)) by lia. rewrite E at 1. apply OK. lia.
    - destruct done as [|r0 rest]; [congruence|]. cbn [hd].
      destruct i as [|i]; [discriminate|].
      assert (Hr0 : row_ok M i r0).
      { specialize (OK 0). cbn [length nth] in OK. replace (S i - 1 - 0) with i in OK by lia. apply OK. lia. }
      destruct Hr0 as [Lr0 _].
      destruct (next_row_ok (cellD (r0 :: rest)) M i r0 Lr0) as [Ln Hn].
      specialize (IH (S (S i)) (next_row col0 (cellD (r0 :: rest)) (S i) r0 :: r0 :: rest)).
      cbn zeta in IH. replace (S i + S n) with (S (S i) + n) by lia. apply IH.
      + discriminate.
      + intros k Hk. destruct k as [|k].
        * cbn [nth]. replace (S (S i) - 1 - 0) with (S i) by lia. split; assumption.
        * cbn [nth]. replace (S (S i) - 1 - S k) with (S i - 1 - k) by lia. apply OK.
          cbn [length] in Hk |- *. lia.
      + cbn [length] in L |- *. lia.
  Qed.

  Lemma fillD_boundary N M :
    let m := fillD row0 col0 cellD N M in
    (forall i, 0 < i -> i <= N -> get dflt m i 0 = col0 i).
  Proof.
    cbn zeta. intros i Hi Hi'. unfold fillD, get.
    destruct (rowsD_ok M N 1 [map row0 (seq 0 (S M))]) as [_ H].
    - discriminate.
    - intros k Hk. cbn [length] in Hk. assert (k = 0) by lia. subst k. cbn [nth].
      split; [rewrite map_length, seq_length; reflexivity|reflexivity].
    - reflexivity.
    - destruct (H i ltac:(lia)) as [_ E]. rewrite E. destruct i; [lia|reflexivity].
  Qed.

  Lemma rowsD_first : forall n i done r,
    nth 0 (rowsD col0 cellD n i (done ++ [r])) [] = r.
  Proof.
    induction n as [|n IH]; intros i done r; cbn [rowsD].
    - rewrite rev_app_distr. reflexivity.
    - rewrite app_comm_cons. apply IH.
  Qed.

  Lemma fillD_row0 N M j : j <= M -> get dflt (fillD row0 col0 cellD N M) 0 j = row0 j.
  Proof.
    intros Hj. unfold fillD, get.
    change [map row0 (seq 0 (S M))] with ([] ++ [map row0 (seq 0 (S M))]).
    rewrite (rowsD_first N 1 [] (map row0 (seq 0 (S M)))).
    rewrite (nth_indep _ dflt (row0 0)) by (rewrite map_length, seq_length; lia).
    rewrite (map_nth row0). rewrite seq_nth by lia. reflexivity.
  Qed.
End FillDProofs.

(* ------------------------------------------------------------------ *)
Lemma degap_app {A} (l1 l2 : list (option A)) : degap (l1 ++ l2) = degap l1 ++ degap l2.
Proof.
  induction l1 as [|[x|] tl IH]; cbn [app degap]; [reflexivity| |exact IH]. f_equal. exact IH.
Qed.

Lemma firstn_S_nth_error {A} (l : list A) n x :
  nth_error l n = Some x -> firstn (S n) l = firstn n l ++ [x].
Proof.
  revert l; induction n as [|n IH]; intros [|y tl] H; try discriminate.
  - inversion H; reflexivity.
  - cbn [nth_error] in H. cbn [firstn app]. f_equal. apply IH. exact H.
Qed.

Lemma nth_error_some_lt {A} (l : list A) n : n < length l -> exists x, nth_error l n = Some x.
Proof.
  intros H. destruct (nth_error l n) eqn:E; [eauto|]. apply nth_error_None in E. lia.
Qed.

Section TraceProofs.
  Variable sym : Type.
  Variable tb : nat -> nat -> Z.
  Variable A B : list sym.

  (* what fill writes on the boundary; the interior is arbitrary *)
  Hypothesis tb_row0 : forall j, 0 < j -> j <= length A -> tb 0 j = 2%Z.
  Hypothesis tb_col0 : forall i, 0 < i -> i <= length B -> tb i 0 = 3%Z.

  Lemma trace_global_valid : forall fuel i j ra rb,
    i + j <= fuel -> i <= length B -> j <= length A ->
    length ra = length rb -> no_double_gap ra rb ->
    exists a b, trace_global tb A B fuel i j ra rb = Some (a, b) /\
      length a = length b /\ no_double_gap a b /\
      degap a = firstn j A ++ degap ra /\ degap b = firstn i B ++ degap rb.
  Proof.
    induction fuel as [|f IH]; intros i j ra rb Hf Hi Hj HL HN.
    - assert (i = 0) by lia. assert (j = 0) by lia. subst. cbn. exists ra, rb. auto.
    - cbn [trace_global]. destruct ((i =? 0) && (j =? 0)) eqn:E0.
      { apply andb_true_iff in E0. destruct E0 as [Ei Ej]. apply Nat.eqb_eq in Ei, Ej. subst.
        exists ra, rb. cbn. auto. }
      destruct (Z.eqb_spec (tb i j) 3) as [E3|N3].
      + (* gap in A, consume B[i-1] *)
        assert (Hi0 : 0 < i).
        { destruct i; [|lia]. destruct j; [discriminate|]. rewrite tb_row0 in E3 by lia. discriminate. }
        destruct (nth_error_some_lt B (i - 1)) as [x Hx]; [lia|].
        destruct (IH (i - 1) j (None :: ra) (nth_error B (i - 1) :: rb)) as [a [b [Ht [L1 [ND [Da Db]]]]]];
          try lia; [cbn [length]; lia| |].
        { cbn [no_double_gap]. split; [right; rewrite Hx; discriminate|exact HN]. }
        exists a, b. split; [exact Ht|]. split; [exact L1|]. split; [exact ND|].
        rewrite Hx in Db. cbn [degap] in Da, Db. split; [exact Da|].
        rewrite Db. replace i with (S (i - 1)) at 2 by lia.
        rewrite (firstn_S_nth_error B (i - 1) x Hx). rewrite <- app_assoc. reflexivity.
      + destruct (Z.eqb_spec (tb i j) 1) as [E1|N1].
        * (* match column *)
          assert (Hi0 : 0 < i).
          { destruct i; [|lia]. destruct j; [discriminate|]. rewrite tb_row0 in E1 by lia. discriminate. }
          assert (Hj0 : 0 < j).
          { destruct j; [|lia]. rewrite tb_col0 in E1 by lia. discriminate. }
          destruct (nth_error_some_lt B (i - 1)) as [x Hx]; [lia|].
          destruct (nth_error_some_lt A (j - 1)) as [y Hy]; [lia|].
          destruct (IH (i - 1) (j - 1) (nth_error A (j - 1) :: ra) (nth_error B (i - 1) :: rb))
            as [a [b [Ht [L1 [ND [Da Db]]]]]]; try lia; [cbn [length]; lia| |].
          { cbn [no_double_gap]. split; [left; rewrite Hy; discriminate|exact HN]. }
          exists a, b. split; [exact Ht|]. split; [exact L1|]. split; [exact ND|].
          rewrite Hx in Db. rewrite Hy in Da. cbn [degap] in Da, Db. split.
          -- rewrite Da. replace j with (S (j - 1)) at 2 by lia.
             rewrite (firstn_S_nth_error A (j - 1) y Hy). rewrite <- app_assoc. reflexivity.
          -- rewrite Db. replace i with (S (i - 1)) at 2 by lia.
             rewrite (firstn_S_nth_error B (i - 1) x Hx). rewrite <- app_assoc. reflexivity.
        * (* gap in B, consume A[j-1] *)
          assert (Hj0 : 0 < j).
          { destruct j; [|lia]. destruct i; [discriminate|]. rewrite tb_col0 in N3 by lia. congruence. }
          destruct (nth_error_some_lt A (j - 1)) as [y Hy]; [lia|].
          destruct (IH i (j - 1) (nth_error A (j - 1) :: ra) (None :: rb))
            as [a [b [Ht [L1 [ND [Da Db]]]]]]; try lia; [cbn [length]; lia| |].
          { cbn [no_double_gap]. split; [left; rewrite Hy; discriminate|exact HN]. }
          exists a, b. split; [exact Ht|]. split; [exact L1|]. split; [exact ND|].
          rewrite Hy in Da. cbn [degap] in Da, Db. split; [|exact Db].
          rewrite Da. replace j with (S (j - 1)) at 2 by lia.
          rewrite (firstn_S_nth_error A (j - 1) y Hy). rewrite <- app_assoc. reflexivity.
  Qed.

  (* C01, global / overlap / dialign: whatever the interior of the traceback
     matrix holds, the traceback from (N, M) yields a valid alignment *)
  Theorem trace_global_from_corner :
    exists a b, trace_global tb A B (length B + length A) (length B) (length A) [] [] = Some (a, b) /\
      valid_aln a b A B.
  Proof.
    destruct (trace_global_valid (length B + length A) (length B) (length A) [] []
                (le_n _) (le_n _) (le_n _) eq_refl I)
      as [a [b [Ht [L [ND [Da Db]]]]]].
    exists a, b. split; [exact Ht|]. unfold valid_aln.
    rewrite !firstn_all, !app_nil_r in *. auto.
  Qed.
End TraceProofs.

Section TraceLocalProofs.
  Variable sym : Type.
  Variable tb : nat -> nat -> Z.
  Variable A B : list sym.

  (* local mode: the boundary of the traceback matrix is 0 *)
  Hypothesis tb_row0 : forall j, j <= length A -> tb 0 j = 0%Z.
  Hypothesis tb_col0 : forall i, i <= length B -> tb i 0 = 0%Z.

  Lemma trace_local_valid : forall fuel i j ra rb,
    i + j <= fuel -> i <= length B -> j <= length A ->
    length ra = length rb -> no_double_gap ra rb ->
    exists i' j' a b, trace_local tb A B fuel i j ra rb = Some (i', j', a, b) /\
      i' <= i /\ j' <= j /\
      length a = length b /\ no_double_gap a b /\
      firstn j' A ++ degap a = firstn j A ++ degap ra /\
      firstn i' B ++ degap b = firstn i B ++ degap rb.
  Proof.
    induction fuel as [|f IH]; intros i j ra rb Hf Hi Hj HL HN.
    - assert (i = 0) by lia. assert (j = 0) by lia. subst. cbn [trace_local].
      rewrite tb_row0 by lia. cbn. exists 0, 0, ra, rb. auto 10.
    - cbn [trace_local]. destruct (Z.eqb_spec (tb i j) 0) as [E0|N0].
      { exists i, j, ra, rb. auto 10. }
      assert (Hi0 : 0 < i) by (destruct i; [rewrite tb_row0 in N0 by lia; congruence|lia]).
      assert (Hj0 : 0 < j) by (destruct j; [rewrite tb_col0 in N0 by lia; congruence|lia]).
      destruct (nth_error_some_lt B (i - 1)) as [x Hx]; [lia|].
      destruct (nth_error_some_lt A (j - 1)) as [y Hy]; [lia|].
      assert (FA : firstn j A = firstn (j - 1) A ++ [y]).
      { replace j with (S (j - 1)) at 1 by lia. apply firstn_S_nth_error. exact Hy. }
      assert (FB : firstn i B = firstn (i - 1) B ++ [x]).
      { replace i with (S (i - 1)) at 1 by lia. apply firstn_S_nth_error. exact Hx. }
      destruct (Z.eqb_spec (tb i j) 3) as [E3|N3].
      + destruct (IH (i - 1) j (None :: ra) (nth_error B (i - 1) :: rb))
          as [i' [j' [a [b [Ht [Li [Lj [L1 [ND [Da Db]]]]]]]]]]; try lia; [cbn [length]; lia| |].
        { cbn [no_double_gap]. split; [right; rewrite Hx; discriminate|exact HN]. }
        exists i', j', a, b. split; [exact Ht|]. repeat split; try lia; try assumption.
        rewrite Db, Hx, FB. cbn [degap]. rewrite <- app_assoc. reflexivity.
      + destruct (Z.eqb_spec (tb i j) 1) as [E1|N1].
        * destruct (IH (i - 1) (j - 1) (nth_error A (j - 1) :: ra) (nth_error B (i - 1) :: rb))
            as [i' [j' [a [b [Ht [Li [Lj [L1 [ND [Da Db]]]]]]]]]]; try lia; [cbn [length]; lia| |].
          { cbn [no_double_gap]. split; [left; rewrite Hy; discriminate|exact HN]. }
          exists i', j', a, b. split; [exact Ht|]. repeat split; try lia; try assumption.
          -- rewrite Da, Hy, FA. cbn [degap]. rewrite <- app_assoc. reflexivity.
          -- rewrite Db, Hx, FB. cbn [degap]. rewrite <- app_assoc. reflexivity.
        * destruct (Z.eqb_spec (tb i j) 2) as [E2|N2].
          -- destruct (IH i (j - 1) (nth_error A (j - 1) :: ra) (None :: rb))
               as [i' [j' [a [b [Ht [Li [Lj [L1 [ND [Da Db]]]]]]]]]]; try lia; [cbn [length]; lia| |].
             { cbn [no_double_gap]. split; [left; rewrite Hy; discriminate|exact HN]. }
             exists i', j', a, b. split; [exact Ht|]. repeat split; try lia; try assumption.
             rewrite Da, Hy, FA. cbn [degap]. rewrite <- app_assoc. reflexivity.
          -- exists i, j, ra, rb. auto 10.
  Qed.

  (* C01, local mode: prefix ++ degap(aligned) ++ suffix is the input, for both rows;
     the aligned parts have equal length and no double-gap column.  [k], [l] is the
     cell the traceback starts from. *)
  Theorem trace_local_from k l : k <= length B -> l <= length A ->
    exists i' j' a b, trace_local tb A B (k + l) k l [] [] = Some (i', j', a, b) /\
      length a = length b /\ no_double_gap a b /\
      firstn j' A ++ degap a ++ skipn l A = A /\
      firstn i' B ++ degap b ++ skipn k B = B.
  Proof.
    intros Hk Hl.
    destruct (trace_local_valid (k + l) k l [] [] (le_n _) Hk Hl eq_refl I)
      as [i' [j' [a [b [Ht [_ [_ [L [ND [Da Db]]]]]]]]]].
    exists i', j', a, b. split; [exact Ht|]. split; [exact L|]. split; [exact ND|].
    cbn [degap] in Da, Db. rewrite app_nil_r in Da, Db.
    split; rewrite app_assoc; [rewrite Da|rewrite Db]; apply firstn_skipn.
  Qed.
End TraceLocalProofs.

(* the traceback loops only read the traceback matrix inside the rectangle they start from *)
Lemma trace_global_ext {sym} (tb1 tb2 : nat -> nat -> Z) (A B : list sym) : forall fuel i j ra rb,
  (forall i' j', i' <= i -> j' <= j -> tb1 i' j' = tb2 i' j') ->
  trace_global tb1 A B fuel i j ra rb = trace_global tb2 A B fuel i j ra rb.
Proof.
  induction fuel as [|f IH]; intros i j ra rb H; cbn [trace_global]; [reflexivity|].
  destruct ((i =? 0) && (j =? 0)); [reflexivity|].
  rewrite (H i j (le_n _) (le_n _)).
  destruct (tb2 i j =? 3)%Z; [apply IH; intros; apply H; lia|].
  destruct (tb2 i j =? 1)%Z; apply IH; intros; apply H; lia.
Qed.

Lemma trace_local_ext {sym} (tb1 tb2 : nat -> nat -> Z) (A B : list sym) : forall fuel i j ra rb,
  (forall i' j', i' <= i -> j' <= j -> tb1 i' j' = tb2 i' j') ->
  trace_local tb1 A B fuel i j ra rb = trace_local tb2 A B fuel i j ra rb.
Proof.
  induction fuel as [|f IH]; intros i j ra rb H; cbn [trace_local]; rewrite (H i j (le_n _) (le_n _));
    [reflexivity|].
  destruct (tb2 i j =? 0)%Z; [reflexivity|].
  destruct (tb2 i j =? 3)%Z; [apply IH; intros; apply H; lia|].
  destruct (tb2 i j =? 1)%Z; [apply IH; intros; apply H; lia|].
  destruct (tb2 i j =? 2)%Z; [apply IH; intros; apply H; lia|reflexivity].
Qed.

(* a row invariant carried through the dialign fill: if row 0 satisfies [RI 0] and every new row
   satisfies [RI i] whenever all completed rows satisfy theirs, every row of the result does *)
Section FillDInv.
  Variable V : Type.
  Variable row0 : nat -> V.
  Variable col0 : nat -> V.
  Variable cellD : list (list V) -> nat -> nat -> V -> V -> V -> V.
  Variable RI : nat -> list V -> Prop.
  Hypothesis RI_step : forall i done, done <> [] -> length done = S i ->
    (forall k, k < length done -> RI (S i - 1 - k) (nth k done [])) ->
    RI (S i) (next_row col0 (cellD done) (S i) (hd [] done)).

  Lemma rowsD_inv : forall n i done,
    done <> [] -> length done = i ->
    (forall k, k < length done -> RI (i - 1 - k) (nth k done [])) ->
    forall k, k < i + n -> RI k (nth k (rowsD col0 cellD n i done) []).
  Proof.
    induction n as [|n IH]; intros i done NE L OK k Hk; cbn [rowsD].
    - rewrite rev_nth by lia. replace (length done - S k) with (i - 1 - k) by lia.
      assert (E : k = i - 1 - (i - 1 - k)) by lia. rewrite E at 1. apply OK. lia.
    - destruct i as [|i]; [destruct done; [congruence|discriminate]|].
      apply (IH (S (S i)) (next_row col0 (cellD done) (S i) (hd [] done) :: done)); [discriminate|cbn [length]; lia| |lia].
      intros k' Hk'. destruct k' as [|k'].
      + cbn [nth]. replace (S (S i) - 1 - 0) with (S i) by lia. apply RI_step; assumption.
      + cbn [nth]. replace (S (S i) - 1 - S k') with (S i - 1 - k') by lia. apply OK. cbn [length] in Hk'. lia.
  Qed.

  Theorem fillD_inv N M : RI 0 (map row0 (seq 0 (S M))) ->
    forall k, k <= N -> RI k (nth k (fillD row0 col0 cellD N M) []).
  Proof.
    intros R0 k Hk. unfold fillD. apply (rowsD_inv N 1 [map row0 (seq 0 (S M))]); [discriminate|reflexivity| |lia].
    intros k' Hk'. cbn [length] in Hk'. assert (k' = 0) by lia. subst. exact R0.
  Qed.
End FillDInv.
