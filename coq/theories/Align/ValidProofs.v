(* The boolean checkers that are run on implementation outputs decide the
   validity predicates of C01. *)
From Coq Require Import ZArith List Bool Arith Lia.
From LV Require Import Common.Cases Align.DP.
Import ListNotations.

Lemma no_double_gapb_spec {A} (a b : list (option A)) :
  no_double_gapb a b = true <-> (length a = length b /\ no_double_gap a b).
Proof.
  revert b. induction a as [|x ta IH]; destruct b as [|y tb]; cbn [no_double_gapb no_double_gap length].
  - split; auto.
  - split; [discriminate|intros [H _]; discriminate].
  - split; [discriminate|intros [H _]; discriminate].
  - rewrite andb_true_iff, IH. split.
    + intros [H [L N]]. split; [f_equal; exact L|]. split; [|exact N].
      destruct x; [left; discriminate|]. destruct y; [right; discriminate|discriminate].
    + intros [L [[H|H] N]]; (split; [|split; [congruence|exact N]]).
      * destruct x; [reflexivity|congruence].
      * destruct x; [reflexivity|]. destruct y; [reflexivity|congruence].
Qed.

Lemma seq_eqb_spec (l1 l2 : list Z) : seq_eqb Z.eqb l1 l2 = true <-> l1 = l2.
Proof.
  revert l2. induction l1 as [|x t1 IH]; destruct l2 as [|y t2]; cbn [seq_eqb];
    try (split; [discriminate|discriminate]).
  - split; reflexivity.
  - rewrite andb_true_iff, Z.eqb_eq, IH. split; [intros [-> ->]; reflexivity|intros E; inversion E; auto].
Qed.

Theorem valid_alnb_spec (a b : list (option Z)) (sA sB : list Z) :
  valid_alnb Z.eqb a b sA sB = true <-> valid_aln a b sA sB.
Proof.
  unfold valid_alnb, valid_aln. rewrite !andb_true_iff, Nat.eqb_eq, no_double_gapb_spec, !seq_eqb_spec.
  tauto.
Qed.
