(* C03, self-distance clause instantiated for every shipped sound-class model: the scoring
   matrices are REGENERATED from /repo on every run (gen/Scorers.v, harness/translate/scorers.py)
   together with their finite obligation. *)
From Coq Require Import QArith ZArith List Bool Arith.
From LV Require Import Align.DP Align.Calign Align.SelfDist Align.DialignSelf.
From LVGen Require Import Scorers.
Import ListNotations.
Local Open Scope Q_scope.

Theorem shipped_self_similarity :
  forall cs sc, In (cs, sc) shipped_scorers ->
  forall (p : cin) (md : mode) (sec : bool),
    scorer p = sc -> md <> Dialign ->
    seqB p = seqA p -> proB p = proA p ->
    (forall a, In a (seqA p) -> In a cs) ->             (* a word over the model's inventory *)
    (forall k, nthQ (gopA p) k <= 0) -> (forall k, nthQ (gopB p) k <= 0) ->
    0 <= scale p -> 0 <= factor p -> seqA p <> [] ->
    match align p md sec with
    | RGlobal _ _ sim => sim == self2 p /\ (~ self2 p == 0 -> distance p sim == 0)
    | RLocal _ _ _ _ _ _ sim => sim == self2 p /\ (~ self2 p == 0 -> distance p sim == 0)
    | RError => False
    end.
Proof.
  intros cs sc Hin p md sec Hsc ND SS SP Hcs GA GB S0 F0 NE.
  pose proof shipped_scorers_ok as OK. rewrite forallb_forall in OK. specialize (OK _ Hin). cbn [fst snd] in OK.
  pose proof (scorer_ok_dominant cs sc OK) as DOM.
  assert (D1 : forall a, In a (seqA p) -> 0 <= score_lookup (scorer p) a a).
  { intros a Ha. rewrite Hsc. exact (proj1 (DOM a a (Hcs a Ha) (Hcs a Ha))). }
  assert (D2 : forall a b, In a (seqA p) -> In b (seqA p) ->
                 (2 # 1) * score_lookup (scorer p) a b <= score_lookup (scorer p) a a + score_lookup (scorer p) b b).
  { intros a b Ha Hb. rewrite Hsc. exact (proj2 (DOM a b (Hcs a Ha) (Hcs b Hb))). }
  pose proof (self_similarity p md sec ND SS SP GA GB S0 F0 D1 D2 NE) as SIM.
  destruct (align p md sec) as [a b sim|pa a sa pb b sb sim|]; [| |exact SIM];
    (split; [exact SIM|intros NZ; exact (self_distance_zero p SS sim SIM NZ)]).
Qed.

(* dialign mode (no gap costs: no condition on weights, gop or scale) *)
Theorem shipped_self_similarity_dialign :
  forall cs sc, In (cs, sc) shipped_scorers ->
  forall (p : cin) (sec : bool),
    scorer p = sc -> seqB p = seqA p -> proB p = proA p ->
    (forall a, In a (seqA p) -> In a cs) ->
    0 <= factor p -> seqA p <> [] ->
    match align p Dialign sec with
    | RGlobal _ _ sim => sim == self2 p /\ (~ self2 p == 0 -> distance p sim == 0)
    | _ => False
    end.
Proof.
  intros cs sc Hin p sec Hsc SS SP Hcs F0 NE.
  pose proof shipped_scorers_ok as OK. rewrite forallb_forall in OK. specialize (OK _ Hin). cbn [fst snd] in OK.
  pose proof (scorer_ok_dominant cs sc OK) as DOM.
  assert (D1 : forall a, In a (seqA p) -> 0 <= score_lookup (scorer p) a a).
  { intros a Ha. rewrite Hsc. exact (proj1 (DOM a a (Hcs a Ha) (Hcs a Ha))). }
  assert (D2 : forall a b, In a (seqA p) -> In b (seqA p) ->
                 (2 # 1) * score_lookup (scorer p) a b <= score_lookup (scorer p) a a + score_lookup (scorer p) b b).
  { intros a b Ha Hb. rewrite Hsc. exact (proj2 (DOM a b (Hcs a Ha) (Hcs b Hb))). }
  pose proof (dialign_self_similarity p sec SS SP F0 D1 D2 NE) as SIM.
  destruct (align p Dialign sec) as [a b sim| |]; try exact SIM.
  split; [exact SIM|intros NZ; exact (self_distance_zero p SS sim SIM NZ)].
Qed.
