(* C03, self-distance clause for DIALIGN mode (primary and secondary): a word aligned with itself
   has similarity equal to its self-score, under the same conditions as SelfDist.v (scorer
   non-negative on the diagonal and dominated by the average of the two diagonal entries on the
   symbols of the word; factor >= 0).  The dialign recurrence has no gap costs:
       M(i,j) = max( M(i-1,j) [- 10^6], M(i,j-1) [- 10^6],  M(i-m, j-m) + sum of the diagonal ),  m = min(i,j)
   Upper bound  M(i,j) <= W(i) + W(j)  (W = half self-score of the prefix) and lower bound
   M(k,k) >= 2 W(k), carried as a row invariant through the fill. *)
From Coq Require Import QArith ZArith List Bool Arith Lia Lqa.
From LV Require Import Align.DP Align.DPProofs Align.Calign Align.CalignProofs Align.OptProofs Align.SelfDist.
Import ListNotations.
Local Open Scope Q_scope.

Section DSelf.
  Variable p : cin.
  Variable sec : bool.
  Hypothesis same_seq : seqB p = seqA p.
  Hypothesis same_pro : proB p = proA p.
  Hypothesis factor_nonneg : 0 <= factor p.
  Notation x := (seqA p).
  Notation s := (score_lookup (scorer p)).
  Notation n := (length (seqA p)).
  Hypothesis diag_nonneg : forall a, In a x -> 0 <= s a a.
  Hypothesis diag_dominant : forall a b, In a x -> In b x -> (2 # 1) * s a b <= s a a + s b b.

  Notation w := (w p).
  Notation wsum := (wsum p).
  Notation W := (fun k => wsum 0%nat k).

  Lemma wk_nonneg k : (k < n)%nat -> 0 <= w k.
  Proof. apply (w_nonneg p factor_nonneg diag_nonneg). Qed.
  Lemma ws_nonneg j m : (j + m <= n)%nat -> 0 <= wsum j m.
  Proof. apply (wsum_nonneg p factor_nonneg diag_nonneg). Qed.

  Ltac blra := cbv beta in *; lra.

  Lemma W_S k : W (S k)%nat == W k + w k.
  Proof.
    replace (S k) with (k + 1)%nat by lia. rewrite (wsum_app p k 0 1). cbn [plus SelfDist.wsum]. blra.
  Qed.
  Lemma W_mono a b : (a <= b)%nat -> (b <= n)%nat -> W a <= W b.
  Proof.
    intros H Hb. replace b with (a + (b - a))%nat by lia. rewrite (wsum_app p a 0 (b - a)). cbn [plus].
    pose proof (ws_nonneg a (b - a) ltac:(lia)). blra.
  Qed.

  (* a diagonal step pairing A[j-1] with B[i-1] *)
  Lemma tmp_le i j : (1 <= i <= n)%nat -> (1 <= j <= n)%nat ->
    dia_tmp p sec i j <= w (j - 1) + w (i - 1).
  Proof.
    intros Hi Hj. unfold dia_tmp, sub. rewrite same_seq.
    pose proof (diag_nonneg _ (nth_in p (i - 1) ltac:(lia))) as Di.
    pose proof (diag_nonneg _ (nth_in p (j - 1) ltac:(lia))) as Dj.
    pose proof (diag_dominant _ _ (nth_in p (j - 1) ltac:(lia)) (nth_in p (i - 1) ltac:(lia))) as DD.
    unfold SelfDist.w. set (Sab := s (nthZ x (j - 1)) (nthZ x (i - 1))) in *.
    set (a := s (nthZ x (j - 1)) (nthZ x (j - 1))) in *. set (b := s (nthZ x (i - 1)) (nthZ x (i - 1))) in *.
    set (f := factor p) in *.
    assert (Hf : 0 <= f) by exact factor_nonneg.
    assert (E : (1 + f) * a * (1 # 2) + (1 + f) * b * (1 # 2) == (1 + f) * ((a + b) * (1 # 2))) by ring.
    rewrite E. set (D := (a + b) * (1 # 2)).
    assert (HD : Sab <= D) by (unfold D; blra). assert (D0 : 0 <= D) by (unfold D; blra).
    assert (FD : 0 <= f * D) by (apply Qmult_le_0_compat; assumption).
    assert (FDS : 0 <= f * (D - Sab)) by (apply Qmult_le_0_compat; blra).
    assert (FDS2 : 0 <= (f * (1 # 2)) * (D - Sab)) by (apply Qmult_le_0_compat; blra).
    assert (E2 : Sab * f / (2 # 1) == Sab * f * (1 # 2)) by field.
    assert (E3 : Sab * (1 + f / (2 # 1)) == Sab + Sab * f * (1 # 2)) by field.
    destruct sec.
    - destruct (pa p j =? pb p i)%Z; [blra|].
      destruct (memz (rchars p) (pa p j) && negb (memz (rchars p) (pb p i))); [unfold big; blra|].
      destruct (negb (memz (rchars p) (pa p j)) && memz (rchars p) (pb p i)); [unfold big; blra|].
      destruct (Z.abs (pa p j - pb p i) <=? 2)%Z; blra.
    - destruct (pa p j =? pb p i)%Z; [blra|].
      destruct (Z.abs (pa p j - pb p i) <=? 2)%Z; blra.
  Qed.

  Lemma tmp_diag t : (1 <= t <= n)%nat -> dia_tmp p sec t t == (2 # 1) * w (t - 1).
  Proof.
    intros Ht. unfold dia_tmp, sub, pa, pb. rewrite same_seq, same_pro, Z.eqb_refl. unfold SelfDist.w.
    destruct sec; ring.
  Qed.

  (* the diagonal sum the loop accumulates *)
  Fixpoint ds (i j k : nat) : Q :=
    match k with
    | O => dia_tmp p sec i j
    | S k' => dia_tmp p sec (i - k) (j - k) + ds i j k'
    end.

  Lemma dia_sum_ds : forall k i j acc, dia_sum p sec i j k acc == acc + ds i j k.
  Proof.
    induction k as [|k IH]; intros i j acc; cbn [dia_sum ds]; [blra|]. rewrite IH. blra.
  Qed.

  Lemma ds_le : forall k i j, (k < i)%nat -> (k < j)%nat -> (i <= n)%nat -> (j <= n)%nat ->
    ds i j k <= wsum (i - k - 1) (S k) + wsum (j - k - 1) (S k).
  Proof.
    induction k as [|k IH]; intros i j Hi Hj Bi Bj.
    - cbn [ds SelfDist.wsum]. rewrite !Nat.sub_0_r. pose proof (tmp_le i j ltac:(lia) ltac:(lia)). blra.
    - cbn [ds]. specialize (IH i j ltac:(lia) ltac:(lia) Bi Bj).
      pose proof (tmp_le (i - S k) (j - S k) ltac:(lia) ltac:(lia)) as T.
      assert (E1 : wsum (i - S k - 1) (S (S k)) == w (i - S k - 1) + wsum (i - k - 1) (S k)).
      { cbn [SelfDist.wsum]. replace (S (i - S k - 1)) with (i - k - 1)%nat by lia. blra. }
      assert (E2 : wsum (j - S k - 1) (S (S k)) == w (j - S k - 1) + wsum (j - k - 1) (S k)).
      { cbn [SelfDist.wsum]. replace (S (j - S k - 1)) with (j - k - 1)%nat by lia. blra. }
      rewrite E1, E2. blra.
  Qed.

  Lemma ds_diag : forall k i, (k < i)%nat -> (i <= n)%nat -> ds i i k == (2 # 1) * wsum (i - k - 1) (S k).
  Proof.
    induction k as [|k IH]; intros i Hi Bi.
    - cbn [ds SelfDist.wsum]. rewrite !Nat.sub_0_r. rewrite (tmp_diag i ltac:(lia)). blra.
    - cbn [ds]. rewrite (IH i ltac:(lia) Bi). rewrite (tmp_diag (i - S k) ltac:(lia)).
      assert (E1 : wsum (i - S k - 1) (S (S k)) == w (i - S k - 1) + wsum (i - k - 1) (S k)).
      { cbn [SelfDist.wsum]. replace (S (i - S k - 1)) with (i - k - 1)%nat by lia. blra. }
      rewrite E1. blra.
  Qed.

  (* ---- the row invariant ---- *)
  Definition cellv (r : list cellT) (j : nat) : Q := fst (nth j r (0, 0%Z)).
  Definition RI (i : nat) (r : list cellT) : Prop :=
    length r = S n /\
    (forall j, (j <= n)%nat -> (i <= n)%nat -> cellv r j <= W i + W j) /\
    ((i <= n)%nat -> (2 # 1) * W i <= cellv r i).

  Notation rowD0 := (row0 p Dialign sec).
  Notation colD0 := (col0 p Dialign sec).

  Lemma RI_row0 : RI 0 (map rowD0 (seq 0 (S n))).
  Proof.
    split; [rewrite map_length, seq_length; reflexivity|].
    assert (E : forall j, (j <= n)%nat -> cellv (map rowD0 (seq 0 (S n))) j == 0).
    { intros j Hj. unfold cellv. rewrite (nth_indep _ (0, 0%Z) (rowD0 0)) by (rewrite map_length, seq_length; lia).
      rewrite (map_nth rowD0). rewrite seq_nth by lia. unfold row0. cbn. reflexivity. }
    split.
    - intros j Hj _. rewrite (E j Hj). cbn [SelfDist.wsum]. pose proof (ws_nonneg 0 j ltac:(lia)). blra.
    - intros _. rewrite (E 0%nat ltac:(lia)). cbn [SelfDist.wsum]. blra.
  Qed.

  (* the value the dialign cell computes, bounded *)
  Lemma cellD_bounds done i j up left diag :
    (1 <= i <= n)%nat -> (1 <= j <= n)%nat -> length done = i ->
    (forall k, (k < length done)%nat -> RI (i - 1 - k) (nth k done [])) ->
    fst up <= W (i - 1)%nat + W j -> fst left <= W i + W (j - 1)%nat ->
    let c := cellD p sec done i j up left diag in
    fst c <= W i + W j /\ (i = j -> (2 # 1) * W i <= fst c).
  Proof.
    intros Hi Hj HL OK Hup Hleft. cbv zeta. unfold cellD.
    set (gA := if restrictedA p sec i j then fst up - big else fst up).
    set (gB := if restrictedB p sec i j then fst left - big else fst left).
    set (m := dia_match p sec done i j).
    assert (GA : gA <= fst up) by (subst gA; destruct (restrictedA p sec i j); unfold big; blra).
    assert (GB : gB <= fst left) by (subst gB; destruct (restrictedB p sec i j); unfold big; blra).
    (* the diagonal candidate *)
    set (k := (Nat.min i j - 1)%nat).
    assert (Hk1 : (k < i)%nat) by (subst k; lia). assert (Hk2 : (k < j)%nat) by (subst k; lia).
    assert (Em : m == cellv (nth k done []) (j - k - 1) + ds i j k).
    { subst m. unfold dia_match. fold k. rewrite dia_sum_ds. unfold cellv. reflexivity. }
    pose proof (OK k ltac:(lia)) as [Lk [Uk Dk]].
    assert (Mup : m <= W i + W j).
    { rewrite Em. pose proof (Uk (j - k - 1)%nat ltac:(lia) ltac:(lia)) as U.
      pose proof (ds_le k i j Hk1 Hk2 ltac:(lia) ltac:(lia)) as D.
      assert (Ei : W i == W (i - 1 - k)%nat + wsum (i - k - 1) (S k)).
      { replace i with ((i - 1 - k) + S k)%nat at 1 by lia. rewrite (wsum_app p (i - 1 - k) 0 (S k)). cbn [plus].
        replace (i - 1 - k)%nat with (i - k - 1)%nat by lia. blra. }
      assert (Ej : W j == W (j - k - 1)%nat + wsum (j - k - 1) (S k)).
      { replace j with ((j - k - 1) + S k)%nat at 1 by lia. rewrite (wsum_app p (j - k - 1) 0 (S k)). cbn [plus]. blra. }
      blra. }
    pose proof (W_mono (i - 1) i ltac:(lia) ltac:(lia)) as Wi.
    pose proof (W_mono (j - 1) j ltac:(lia) ltac:(lia)) as Wj.
    destruct (choose3_ge gA m gB) as [C1 [C2 C3]].
    split.
    - destruct (LibScoreProofs.choose3_cases gA m gB) as [E|[E|E]]; rewrite E; cbn [fst]; blra.
    - intros Eij. subst j.
      assert (Ek : k = (i - 1)%nat) by (subst k; lia).
      assert (Lm : (2 # 1) * W i <= m).
      { rewrite Em, Ek. rewrite (ds_diag (i - 1) i ltac:(lia) ltac:(lia)).
        replace (i - (i - 1) - 1)%nat with 0%nat by lia. replace (S (i - 1)) with i by lia.
        rewrite Ek in Dk, Lk, Uk. replace (i - 1 - (i - 1))%nat with 0%nat in Dk by lia.
        specialize (Dk ltac:(lia)). cbn [SelfDist.wsum] in Dk. blra. }
      blra.
  Qed.

  Lemma build_row_RI done i : (1 <= i <= n)%nat -> length done = i ->
    (forall k, (k < length done)%nat -> RI (i - 1 - k) (nth k done [])) ->
    forall ups j dg left,
      (1 <= j)%nat -> (j + length ups = S n)%nat ->
      (forall t, (t < length ups)%nat -> fst (nth t ups (0, 0%Z)) <= W (i - 1)%nat + W (j + t)%nat) ->
      fst left <= W i + W (j - 1)%nat ->
      let r := build_row (cellD p sec done) i j dg ups left in
      (forall t, (t < length ups)%nat -> fst (nth t r (0, 0%Z)) <= W i + W (j + t)%nat) /\
      (forall t, (t < length ups)%nat -> (j + t)%nat = i -> (2 # 1) * W i <= fst (nth t r (0, 0%Z))).
  Proof.
    intros Hi HL OK. induction ups as [|up tl IH]; intros j dg left Hj HLen Hups Hleft; cbn [build_row length] in *.
    - split; intros t Ht; lia.
    - pose proof (cellD_bounds done i j up left dg Hi ltac:(lia) HL OK) as CB.
      specialize (Hups 0%nat ltac:(lia)) as Hup0. cbn [nth] in Hup0. rewrite Nat.add_0_r in Hup0.
      specialize (CB Hup0 Hleft). cbv zeta in CB. destruct CB as [CU CD].
      set (c := cellD p sec done i j up left dg) in *.
      destruct (IH (S j) up c ltac:(lia) ltac:(lia)) as [IU ID].
      { intros t Ht. specialize (Hups (S t) ltac:(lia)). cbn [nth] in Hups.
        replace (S j + t)%nat with (j + S t)%nat by lia. exact Hups. }
      { replace (S j - 1)%nat with j by lia. exact CU. }
      split; intros t Ht.
      + destruct t as [|t]; cbn [nth]; [rewrite Nat.add_0_r; exact CU|].
        replace (j + S t)%nat with (S j + t)%nat by lia. apply IU. lia.
      + intros E. destruct t as [|t]; cbn [nth]; [apply CD; lia|]. apply ID; lia.
  Qed.

  Lemma RI_next i done : done <> [] -> length done = S i ->
    (forall k, (k < length done)%nat -> RI (S i - 1 - k) (nth k done [])) ->
    RI (S i) (next_row colD0 (cellD p sec done) (S i) (hd [] done)).
  Proof.
    intros NE HL OK.
    destruct done as [|prev rest]; [congruence|]. cbn [hd].
    pose proof (OK 0%nat ltac:(cbn [length]; lia)) as [Lp [Up Dp]]. cbn [nth] in Lp, Up, Dp.
    replace (S i - 1 - 0)%nat with i in Up, Dp by lia.
    destruct prev as [|d ups]; [discriminate|]. cbn [next_row]. cbn [length] in Lp.
    assert (Lu : @length (Q * Z) ups = n) by (clear - Lp; unfold cellT in *; lia). clear Lp.
    assert (Lu' : @length cellT ups = n) by exact Lu.
    unfold RI. split; [cbn [length]; rewrite length_build_row; lia|].
    destruct (Nat.le_gt_cases (S i) n) as [Hin|Hin].
    2:{ split; [intros j _ H; lia|intros H; lia]. }
    assert (C0 : colD0 (S i) = (0, 3%Z)) by reflexivity.
    destruct (build_row_RI ((d :: ups) :: rest) (S i) ltac:(lia) HL OK ups 1%nat d (colD0 (S i))) as [BU BD].
    - clear. lia.
    - clear - Lu Lu'. lia.
    - intros t Ht. specialize (Up (S t) ltac:(lia) ltac:(lia)). unfold cellv in Up. cbn [nth] in Up.
      replace (S i - 1)%nat with i by lia. exact Up.
    - rewrite C0. cbv beta. replace (1 - 1)%nat with 0%nat by reflexivity.
      pose proof (ws_nonneg 0 (S i) ltac:(lia)). cbn [fst SelfDist.wsum] in *. blra.
    - split.
      + intros j Hj _. destruct j as [|j]; unfold cellv; cbn [nth].
        * rewrite C0. pose proof (ws_nonneg 0 (S i) ltac:(lia)). cbn [fst SelfDist.wsum] in *. blra.
        * specialize (BU j ltac:(lia)). exact BU.
      + intros _. unfold cellv. cbn [nth]. apply BD; lia.
  Qed.

  (* every row of the dialign matrix satisfies the invariant *)
  Lemma matrix_RI k : (k <= n)%nat -> RI k (nth k (matrix p Dialign sec) []).
  Proof.
    intros Hk. unfold matrix, lenA, lenB. rewrite same_seq.
    apply (fillD_inv cellT rowD0 colD0 (cellD p sec) RI); [|exact RI_row0|exact Hk].
    intros i done NE HL OK. apply RI_next; assumption.
  Qed.

  (* similarity of a word with itself in dialign mode = its self-score *)
  Theorem dialign_self_similarity : x <> [] ->
    match align p Dialign sec with
    | RGlobal _ _ sim => sim == self2 p
    | _ => False
    end.
  Proof.
    intros HX. assert (HB : seqB p <> []) by (rewrite same_seq; exact HX).
    pose proof (align_valid p Dialign sec HX HB) as V. unfold align in *.
    destruct (_ || _); [exact V|].
    destruct (trace_global _ _ _ _ _ _ _ _) as [[a b]|]; [|exact V].
    unfold mget, get, lenA, lenB. rewrite same_seq.
    destruct (matrix_RI n (le_n _)) as [_ [U D]].
    specialize (U n (le_n _) (le_n _)). specialize (D (le_n _)). unfold cellv in U, D. unfold self2. unfold cellT in *. blra.
  Qed.
End DSelf.
