(* C20 - instances of the cache theorems and the specifications of the boolean checkers.
     1. byte lists (prefix = list prefix, truncation = firstn): the general theorems with only
        the two decoder premises left
     2. the shipped start-up (LVGen.SettingsModels) passes the guard; the guard is needed
     3. the codec evaluated against the implementation (CacheExec) and its checkers
     4. a codec on bit lists satisfying the decoder premises, and a worked damage/restart run *)
From Coq Require Import String List Bool ZArith Arith Lia.
From LV Require Import Common.Cases Runtime.Cache Runtime.CacheProofs Runtime.CacheExec.
From LVGen Require Import SettingsModels.
Import ListNotations.
Local Open Scope string_scope.

(* ---- 1. byte lists ------------------------------------------------------------------------ *)
Section BytesInstance.
  Variables value byte : Type.
  Variable enc : value -> list byte.
  Variable dec : list byte -> option value.
  Variables conv_of scorer_of dvt_of : string -> value.
  Hypothesis dec_enc : forall v, dec (enc v) = Some v.
  Hypothesis dec_strict : decoder_rejects_strict_prefixes enc dec.

  Lemma bytes_prefix_sane (s : cstate (list byte)) :
    prefix_state enc conv_of dvt_of (@bpre byte) s -> sane dec conv_of dvt_of s.
  Proof.
    apply (@prefix_sane value (list byte) enc dec conv_of dvt_of (@bpre byte) dec_enc).
    apply bytes_dec_pre. exact dec_strict.
  Qed.

  Lemma bytes_restarts (D : dirs) (seq : list step) :
    wf_seq D seq = true ->
    forall (rounds : list (list dmg)) (s : cstate (list byte)),
      prefix_state enc conv_of dvt_of (@bpre byte) s ->
      exists s' outs,
        run_rounds enc dec conv_of scorer_of dvt_of (@firstn byte) D seq rounds s = Ok (s', outs)
        /\ length outs = length rounds
        /\ Forall (fun o => snd o = map (ref_val conv_of scorer_of dvt_of D) seq) outs
        /\ prefix_state enc conv_of dvt_of (@bpre byte) s'
        /\ (rounds <> [] -> clean dec conv_of dvt_of seq s').
  Proof.
    apply (@restarts value (list byte) enc dec conv_of scorer_of dvt_of (@firstn byte) (@bpre byte) dec_enc).
    - apply bytes_dec_pre. exact dec_strict.
    - apply bpre_refl.
    - apply bpre_trans.
    - apply firstn_bpre.
  Qed.
End BytesInstance.

Lemma bytes_crash_reach_prefix (value byte : Type) (enc : value -> list byte)
      (conv_of dvt_of : string -> value) (s : cstate (list byte)) :
  crash_reach enc conv_of dvt_of (@firstn byte) s -> prefix_state enc conv_of dvt_of (@bpre byte) s.
Proof.
  apply (@crash_reach_prefix value (list byte) enc conv_of dvt_of (@firstn byte) (@bpre byte)).
  - apply bpre_refl.
  - apply firstn_bpre.
Qed.

(* ---- 2. the shipped start-up --------------------------------------------------------------- *)
Lemma shipped_wf : wf_seq model_dirs import_seq = true.
Proof. vm_compute. reflexivity. Qed.

Lemma shipped_restarts (value byte : Type) (enc : value -> list byte) (dec : list byte -> option value)
      (conv_of scorer_of dvt_of : string -> value) :
  (forall v, dec (enc v) = Some v) ->
  decoder_rejects_strict_prefixes enc dec ->
  forall rounds : list (list dmg),
    exists s' outs,
      run_rounds enc dec conv_of scorer_of dvt_of (@firstn byte) model_dirs import_seq rounds
                 (no_dir (list byte)) = Ok (s', outs)
      /\ length outs = length rounds
      /\ Forall (fun o => snd o = map (ref_val conv_of scorer_of dvt_of model_dirs) import_seq) outs
      /\ (rounds <> [] -> clean dec conv_of dvt_of import_seq s').
Proof.
  intros RT ST rounds.
  destruct (@bytes_restarts value byte enc dec conv_of scorer_of dvt_of RT ST model_dirs import_seq
                            shipped_wf rounds (no_dir (list byte)))
    as [s' [outs [E [Ln [F [_ C]]]]]].
  - apply no_dir_prefix.
  - exists s', outs. auto.
Qed.

(* the accepted spellings of load_dvt's path, and the *_el models rc(schema='asjp') loads *)
Definition alias_seq : list step :=
  [LoadDvt ""; LoadDvt "el"; LoadDvt "evolaemp"; NewModel "asjp_el"; NewModel "sca_el"; NewModel "dolgo_el";
   NewModel "art_el"; NewModel "jaeger_el"; NewModel "color_el"].
Lemma alias_wf : wf_seq model_dirs alias_seq = true.
Proof. vm_compute. reflexivity. Qed.

(* sessions of the shipped library: import, then any number of rc(schema=v) with ANY strings v *)
Lemma shipped_schema_wf : forallb (fun b => wf_seq model_dirs (snd b)) schema_seqs = true.
Proof. vm_compute. reflexivity. Qed.

Lemma shipped_session_wf (vs : list string) :
  wf_seq model_dirs (session_seq schema_seqs import_seq vs) = true.
Proof. apply session_wf; [exact shipped_wf|exact shipped_schema_wf]. Qed.

Lemma shipped_session_ok (value content : Type) (enc : value -> content) (dec : content -> option value)
      (conv_of scorer_of dvt_of : string -> value) :
  (forall v, dec (enc v) = Some v) ->
  forall (vs : list string) (s : cstate content),
    sane dec conv_of dvt_of s ->
    exists s' ev,
      import_run enc dec conv_of scorer_of dvt_of model_dirs (session_seq schema_seqs import_seq vs) s
      = Ok (s', ev, map (ref_val conv_of scorer_of dvt_of model_dirs) (session_seq schema_seqs import_seq vs))
      /\ clean dec conv_of dvt_of (session_seq schema_seqs import_seq vs) s'
      /\ sane dec conv_of dvt_of s'
      /\ exists ev2,
           import_run enc dec conv_of scorer_of dvt_of model_dirs (session_seq schema_seqs import_seq vs) s'
           = Ok (s', ev2, map (ref_val conv_of scorer_of dvt_of model_dirs) (session_seq schema_seqs import_seq vs))
           /\ existsb is_compile ev2 = false.
Proof.
  intros RT vs s S. pose proof (shipped_session_wf vs) as W.
  destruct (@import_total value content enc dec conv_of scorer_of dvt_of RT model_dirs _ s S W) as [s' [ev [vals E]]].
  destruct (@import_value_independent value content enc dec conv_of scorer_of dvt_of RT model_dirs _ s s' ev vals S W E)
    as [-> _].
  destruct (@import_repairs value content enc dec conv_of scorer_of dvt_of RT model_dirs _ s s' ev _ S W E)
    as [C [_ [_ S']]].
  destruct (@second_start_clean value content enc dec conv_of scorer_of dvt_of RT model_dirs _ s s' ev _ S W E)
    as [ev2 [E2 Q]].
  exists s', ev. split; [exact E|]. split; [exact C|]. split; [exact S'|]. now exists ev2.
Qed.

Lemma schema_switch_examples :
  schema_seq schema_seqs "asjp" <> [] /\ schema_seq schema_seqs "ipa" <> []
  /\ schema_seq schema_seqs "el" = schema_seq schema_seqs "evolaemp"
  /\ schema_seq schema_seqs "no such schema" = [].
Proof. vm_compute. repeat split; discriminate. Qed.

Lemma scorer_bin_guard_needed :
  exists (D : dirs) (s : cstate xcontent),
    sane xdec xconv xdvt s /\
    import_run xenc xdec xconv xscorer xdvt D [NewModel "m"] s = Raise.
Proof.
  exists [("m", ["converter"; "INFO"; "scorer.bin"])],
         (state_of true [("m.scorer.pkl", ((1, "m"), Some 3%Z))]).
  split.
  - intros n v _ c L v' Dv. unfold look, state_of in L. cbn in L.
    destruct (String.eqb (path n) "m.scorer.pkl"); [|discriminate L].
    injection L as <-. discriminate Dv.
  - vm_compute. reflexivity.
Qed.

(* ---- 3. the evaluated codec and the checkers ------------------------------------------------ *)
Lemma xdec_xenc v : xdec (xenc v) = Some v.
Proof. reflexivity. Qed.

Lemma xvalue_eqb_spec a b : xvalue_eqb a b = true <-> a = b.
Proof.
  destruct a as [k n], b as [k' n']. unfold xvalue_eqb. cbn [fst snd].
  rewrite andb_true_iff, Nat.eqb_eq, String.eqb_eq. split; [intros [-> ->]; reflexivity|].
  intros E. injection E as -> ->. auto.
Qed.

Lemma option_eqb_spec {A} (eqb : A -> A -> bool) :
  (forall x y, eqb x y = true <-> x = y) ->
  forall p q, option_eqb eqb p q = true <-> p = q.
Proof.
  intros H [x|] [y|]; cbn; try (split; discriminate); [|split; reflexivity].
  rewrite H. split; [intros ->; reflexivity|intros E; now injection E].
Qed.

Lemma xcontent_eqb_spec a b : xcontent_eqb a b = true <-> a = b.
Proof.
  destruct a as [v k], b as [v' k']. unfold xcontent_eqb. cbn [fst snd].
  rewrite andb_true_iff, xvalue_eqb_spec, (option_eqb_spec Z.eqb Z.eqb_eq).
  split; [intros [-> ->]; reflexivity|]. intros E. injection E as -> ->. auto.
Qed.

Lemma sval_eqb_spec a b : sval_eqb a b = true <-> a = b.
Proof.
  destruct a as [x|c s], b as [y|c' s']; cbn [sval_eqb]; try (split; discriminate).
  - rewrite xvalue_eqb_spec. split; [intros ->; reflexivity|intros E; now injection E].
  - rewrite andb_true_iff, xvalue_eqb_spec, (option_eqb_spec xvalue_eqb xvalue_eqb_spec).
    split; [intros [-> ->]; reflexivity|]. intros E. injection E as -> ->. auto.
Qed.

Lemma vals_refb_spec (o : start_obs) :
  vals_refb o = true <-> so_vals o = map (ref_val xconv xscorer xdvt model_dirs) (so_seq o).
Proof. unfold vals_refb. apply (list_eqb_spec sval_eqb sval_eqb_spec). Qed.

(* for the evaluated codec "valid" and "holds the complete pickle of the right object" coincide *)
Lemma xvalid_spec (s : cstate xcontent) n v :
  option_eqb xcontent_eqb (look s (path n)) (Some (xenc v)) = true <-> load xdec s n = Loaded v.
Proof.
  rewrite (option_eqb_spec xcontent_eqb xcontent_eqb_spec). unfold load, xenc.
  destruct (look s (path n)) as [[w [k|]]|]; cbn [xdec]; split; intros E; try discriminate E.
  - injection E as ->. reflexivity.
  - injection E as ->. reflexivity.
Qed.

Lemma cleanb_spec (seq : list step) (dir : bool) (fl : list (string * xcontent)) :
  cleanb seq dir fl = true <-> clean xdec xconv xdvt seq (state_of dir fl).
Proof.
  unfold cleanb, clean. rewrite forallb_forall, Forall_forall.
  split; intros H st I; specialize (H st I); unfold step_valid in *; now apply xvalid_spec.
Qed.

Lemma rebuild_onlyb_spec (dir : bool) (fl : list (string * xcontent)) (o : start_obs) :
  rebuild_onlyb dir fl o = true <->
  forall st, In st (rebuilds (so_events o)) -> ~ step_valid xdec xconv xdvt (state_of dir fl) st.
Proof.
  unfold rebuild_onlyb. rewrite forallb_forall. split; intros H st I; specialize (H st I).
  - rewrite negb_true_iff in H. intros V. apply xvalid_spec in V. unfold validb in H. rewrite V in H. discriminate.
  - rewrite negb_true_iff. unfold validb. destruct (option_eqb xcontent_eqb _ _) eqn:V; [|reflexivity].
    exfalso. apply H. now apply xvalid_spec.
Qed.

Lemma bool_eqb_spec a b : Bool.eqb a b = true <-> a = b.
Proof. destruct a, b; cbn; split; intros; auto; discriminate. Qed.

(* quiet: no compile / dump event, and every compared file is as it was *)
Lemma quietb_spec (names : list string) (dir : bool) (fl : list (string * xcontent)) (o : start_obs) :
  quietb names dir fl o = true <->
  (forall e, In e (so_events o) -> is_compile e = false) /\
  dir = so_dir o /\
  (forall f, In f names -> look (state_of dir fl) f = look (state_of (so_dir o) (so_files o)) f).
Proof.
  unfold quietb, same_files. rewrite !andb_true_iff, negb_true_iff, bool_eqb_spec, forallb_forall.
  split.
  - intros [NE [Ed H]]. split; [|split; [exact Ed|]].
    + intros e I. destruct (is_compile e) eqn:C; [|reflexivity].
      assert (X : existsb is_compile (so_events o) = true) by (apply existsb_exists; eauto).
      rewrite X in NE. discriminate.
    + intros f I. apply (option_eqb_spec xcontent_eqb xcontent_eqb_spec). now apply H.
  - intros [NE [Ed H]]. split; [|split; [exact Ed|]].
    + destruct (existsb is_compile (so_events o)) eqn:X; [|reflexivity].
      apply existsb_exists in X. destruct X as [e [I C]]. rewrite (NE e I) in C. discriminate.
    + intros f I. apply (option_eqb_spec xcontent_eqb xcontent_eqb_spec). now apply H.
Qed.

(* decoder observations: every file found was tried, and unpickling raised exactly on the
   contents that are not complete pickles *)
Lemma decb_spec (fl : list (string * xcontent)) (obs : list (string * bool)) :
  decb fl obs = true <->
  (forall f r, In (f, r) obs -> exists c, assoc f fl = Some c /\ (r = true <-> xdec c = None)) /\
  (forall f c, In (f, c) fl -> exists r, In (f, r) obs).
Proof.
  unfold decb. rewrite andb_true_iff, !forallb_forall. split.
  - intros [A B]. split.
    + intros f r I. specialize (A (f, r) I). cbn [fst snd] in A.
      destruct (assoc f fl) as [c|]; [|discriminate]. exists c. split; [reflexivity|].
      apply (proj1 (bool_eqb_spec _ _)) in A. rewrite A. destruct (xdec c); split; intros; auto; discriminate.
    + intros f c I. specialize (B (f, c) I). apply existsb_exists in B.
      destruct B as [[g r] [I2 E]]. cbn [fst] in E. apply String.eqb_eq in E. subst g. now exists r.
  - intros [A B]. split.
    + intros [f r] I. cbn [fst snd]. destruct (A f r I) as [c [-> H]].
      apply bool_eqb_spec. destruct (xdec c); destruct r; auto.
      * destruct H as [H _]. specialize (H eq_refl). discriminate.
      * destruct H as [_ H]. specialize (H eq_refl). discriminate.
    + intros [f c] I. destruct (B f c I) as [r I2]. apply existsb_exists. exists (f, r).
      split; [exact I2|]. cbn [fst]. apply String.eqb_refl.
Qed.

(* ---- 4. a codec on bit lists with the decoder premises ---------------------------------------- *)
Definition uenc (n : nat) : list bool := (repeat false n ++ [true])%list.
Fixpoint udec (l : list bool) : option nat :=
  match l with
  | [] => None
  | true :: tl => match tl with [] => Some 0 | _ => None end
  | false :: tl => option_map S (udec tl)
  end.

Lemma udec_uenc v : udec (uenc v) = Some v.
Proof. induction v as [|v IH]; [reflexivity|]. unfold uenc in *. cbn [repeat app udec]. now rewrite IH. Qed.

Lemma udec_strict : decoder_rejects_strict_prefixes uenc udec.
Proof.
  intros v. induction v as [|v IH]; intros c r N E.
  - destruct c as [|b c]; [reflexivity|]. exfalso. unfold uenc in E. cbn in E.
    injection E as _ E. destruct c; destruct r; try discriminate. now apply N.
  - destruct c as [|b c]; [reflexivity|]. unfold uenc in E. cbn [repeat app] in E.
    injection E as <- E. cbn [udec]. now rewrite (IH c r N E).
Qed.

Lemma unary_codec_ok :
  (forall v, udec (uenc v) = Some v) /\ decoder_rejects_strict_prefixes uenc udec.
Proof. split; [exact udec_uenc|exact udec_strict]. Qed.

Definition uconv (m : string) : nat := String.length m.
Definition uscorer (m : string) : nat := 20 + String.length m.
Definition udvt (d : string) : nat := 40 + String.length d.

(* first round: start on the absent directory; second round: truncate sca.converter to 2
   bytes, empty dvt, delete asjp.converter, truncate the never-read cv.scorer; start again *)
Definition example_rounds : list (list dmg) :=
  [[]; [Cut "sca.converter.pkl" 2; Cut "dvt.pkl" 0; Delete "asjp.converter.pkl"; Cut "cv.scorer.pkl" 1]].

Lemma example_restart_ok :
  exists s' ev1 ev2,
    run_rounds uenc udec uconv uscorer udvt (@firstn bool) model_dirs import_seq example_rounds
               (no_dir (list bool))
    = Ok (s', [(ev1, map (ref_val uconv uscorer udvt model_dirs) import_seq);
               (ev2, map (ref_val uconv uscorer udvt model_dirs) import_seq)])
    /\ dumps_of ev2 = ["dvt.pkl"; "asjp.converter.pkl"; "asjp.scorer.pkl"; "sca.converter.pkl"; "sca.scorer.pkl"]
    /\ look s' "cv.scorer.pkl" = Some [false].
Proof.
  eexists _, _, _. split; [vm_compute; reflexivity|]. split; vm_compute; reflexivity.
Qed.
