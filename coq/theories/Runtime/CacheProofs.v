(* C20 - proofs about the cache model (Runtime/Cache.v).

   Section hypotheses (explicit premises of every theorem that leaves the section):
     dec_enc   : unpickling a complete pickle gives the object back
     dec_pre   : a prefix of a complete pickle either IS the complete pickle or does not decode
                 (the decoder hypothesis of DESIGN 5/C20: a pickle ends with its only
                 top-level STOP opcode, so an empty file and every strict prefix fail)
     pre_refl, pre_trans, cut_pre : `pre` is a prefix order and truncation yields a prefix
   They are discharged for byte lists (pre := list prefix, cut := firstn) at the end of
   the file, which leaves exactly the two statements about the decoder. *)
From Coq Require Import String List Bool Ascii Arith Lia.
From LV Require Import Runtime.Cache.
Import ListNotations.
Local Open Scope string_scope.

(* ------------------------------------------------------------------------------------ *)
(* file names: the naming scheme never maps two different entries to one file          *)

Fixpoint chars (s : string) : list ascii :=
  match s with EmptyString => [] | String c t => c :: chars t end.

Lemma chars_app a b : chars (a ++ b) = (chars a ++ chars b)%list.
Proof. induction a as [|c a IH]; cbn; [reflexivity|now rewrite IH]. Qed.

Lemma chars_inj a : forall b, chars a = chars b -> a = b.
Proof.
  induction a as [|c a IH]; intros [|d b] H; cbn in H; try discriminate; [reflexivity|].
  injection H as -> H. now rewrite (IH _ H).
Qed.

Lemma append_inv_tail a b s : a ++ s = b ++ s -> a = b.
Proof.
  intros H. apply chars_inj. apply (f_equal chars) in H. rewrite !chars_app in H.
  now apply app_inv_tail in H.
Qed.

Definition rchars (s : string) : list ascii := rev (chars s).
Lemma rchars_app a b : rchars (a ++ b) = (rchars b ++ rchars a)%list.
Proof. unfold rchars. now rewrite chars_app, rev_app_distr. Qed.

Ltac name_clash H :=
  apply (f_equal rchars) in H; unfold path in H; rewrite ?rchars_app in H;
  cbv [rchars chars rev app] in H; fold chars in H; discriminate H.

Lemma path_inj a b : path a = path b -> a = b.
Proof. apply append_inv_tail. Qed.

Lemma conv_inj a b : a ++ ".converter" = b ++ ".converter" -> a = b.
Proof. apply append_inv_tail. Qed.

Lemma conv_not_scorer a b : a ++ ".converter" <> b ++ ".scorer".
Proof.
  intros H. apply (f_equal rchars) in H. rewrite !rchars_app in H.
  change (rchars ".converter") with ["r";"e";"t";"r";"e";"v";"n";"o";"c";"."]%char in H.
  change (rchars ".scorer") with ["r";"e";"r";"o";"c";"s";"."]%char in H.
  cbn [app] in H. discriminate H.
Qed.

Lemma conv_not_dvt a : a ++ ".converter" <> "dvt".
Proof.
  intros H. apply (f_equal rchars) in H. rewrite !rchars_app in H.
  change (rchars ".converter") with ["r";"e";"t";"r";"e";"v";"n";"o";"c";"."]%char in H.
  change (rchars "dvt") with ["t";"v";"d"]%char in H.
  cbn [app] in H. discriminate H.
Qed.

Lemma conv_not_dvt_el a : a ++ ".converter" <> "dvt_el".
Proof.
  intros H. apply (f_equal rchars) in H. rewrite !rchars_app in H.
  change (rchars ".converter") with ["r";"e";"t";"r";"e";"v";"n";"o";"c";"."]%char in H.
  change (rchars "dvt_el") with ["l";"e";"_";"t";"v";"d"]%char in H.
  cbn [app] in H. discriminate H.
Qed.

Lemma scorer_not_dvt a : a ++ ".scorer" <> "dvt".
Proof.
  intros H. apply (f_equal rchars) in H. rewrite !rchars_app in H.
  change (rchars ".scorer") with ["r";"e";"r";"o";"c";"s";"."]%char in H.
  change (rchars "dvt") with ["t";"v";"d"]%char in H.
  cbn [app] in H. discriminate H.
Qed.

Lemma scorer_not_dvt_el a : a ++ ".scorer" <> "dvt_el".
Proof.
  intros H. apply (f_equal rchars) in H. rewrite !rchars_app in H.
  change (rchars ".scorer") with ["r";"e";"r";"o";"c";"s";"."]%char in H.
  change (rchars "dvt_el") with ["l";"e";"_";"t";"v";"d"]%char in H.
  cbn [app] in H. discriminate H.
Qed.

(* the steps whose `path` argument is one of the three known spellings use the entry and
   the data directory of the same name *)
Lemma dvt_known_cases p :
  dvt_path_known p = true ->
  (dvt_fn p = "dvt" /\ dvt_dir p = "dvt") \/ (dvt_fn p = "dvt_el" /\ dvt_dir p = "dvt_el").
Proof.
  unfold dvt_path_known, dvt_fn, dvt_dir, is_el. intros H.
  destruct (String.eqb p "") eqn:E0; [apply String.eqb_eq in E0; subst p; left; now cbn|].
  destruct (String.eqb p "el") eqn:E1; [apply String.eqb_eq in E1; subst p; right; now cbn|].
  destruct (String.eqb p "evolaemp") eqn:E2; [apply String.eqb_eq in E2; subst p; right; now cbn|].
  cbn in H. discriminate.
Qed.

(* sessions: the guard of a session follows from the guard of the import sequence and of every
   branch of the schema switch *)
Lemma wf_seq_app D a b : wf_seq D (a ++ b) = wf_seq D a && wf_seq D b.
Proof. unfold wf_seq. apply forallb_app. Qed.

Lemma schema_seq_wf D T :
  forallb (fun b => wf_seq D (snd b)) T = true -> forall v, wf_seq D (schema_seq T v) = true.
Proof.
  induction T as [|[names seq] tl IH]; intros H v; [reflexivity|].
  cbn [forallb snd] in H. apply andb_true_iff in H. destruct H as [H1 H2]. cbn [schema_seq].
  destruct (existsb (String.eqb v) names); [exact H1|now apply IH].
Qed.

Lemma session_wf D T imp :
  wf_seq D imp = true -> forallb (fun b => wf_seq D (snd b)) T = true ->
  forall vs, wf_seq D (session_seq T imp vs) = true.
Proof.
  intros Hi HT vs. unfold session_seq. rewrite wf_seq_app, Hi. cbn [andb].
  induction vs as [|v tl IH]; [reflexivity|]. cbn [flat_map]. rewrite wf_seq_app, IH.
  now rewrite (schema_seq_wf D T HT v).
Qed.

(* ------------------------------------------------------------------------------------ *)
Set Implicit Arguments.
Section Proofs.
  Variables value content : Type.
  Variable enc : value -> content.
  Variable dec : content -> option value.
  Variables conv_of scorer_of dvt_of : string -> value.
  Variable cut : nat -> content -> content.
  Variable pre : content -> content -> Prop.

  Hypothesis dec_enc : forall v, dec (enc v) = Some v.
  Hypothesis dec_pre : forall c v, pre c (enc v) -> dec c = None \/ c = enc v.
  Hypothesis pre_refl : forall c, pre c c.
  Hypothesis pre_trans : forall a b c, pre a b -> pre b c -> pre a c.
  Hypothesis cut_pre : forall k c, pre (cut k c) c.

  Notation cstate := (cstate content).
  Notation look := (@look content).
  Notation load := (load dec).
  Notation dump := (dump enc).
  Notation run_step := (run_step enc dec conv_of scorer_of dvt_of).
  Notation import_run := (import_run enc dec conv_of scorer_of dvt_of).
  Notation ref_val := (ref_val conv_of scorer_of dvt_of).
  Notation entry_val := (entry_val conv_of dvt_of).
  Notation step_valid := (step_valid dec conv_of dvt_of).
  Notation clean := (clean dec conv_of dvt_of).
  Notation apply_dmg := (apply_dmg cut).
  Notation apply_dmgs := (apply_dmgs cut).
  Notation run_rounds := (run_rounds enc dec conv_of scorer_of dvt_of cut).

  (* the entries a start may consult, with the object that belongs in each *)
  Inductive governed : string -> value -> Prop :=
  | GConv m : governed (m ++ ".converter") (conv_of m)
  | GDvt : governed "dvt" (dvt_of "dvt")
  | GDvtEl : governed "dvt_el" (dvt_of "dvt_el").

  Lemma governed_inv n v :
    governed n v ->
    (exists m, n = m ++ ".converter" /\ v = conv_of m) \/
    (n = "dvt" /\ v = dvt_of "dvt") \/ (n = "dvt_el" /\ v = dvt_of "dvt_el").
  Proof. destruct 1; [left; eauto|right; left; auto|right; right; auto]. Qed.

  Lemma governed_fun n v v' : governed n v -> governed n v' -> v = v'.
  Proof.
    intros H1 H2. apply governed_inv in H1. apply governed_inv in H2.
    destruct H1 as [[m [E1 V1]]|[[E1 V1]|[E1 V1]]]; destruct H2 as [[m' [E2 V2]]|[[E2 V2]|[E2 V2]]];
      subst v v'; rewrite E1 in E2.
    - apply conv_inj in E2. now subst.
    - exfalso. revert E2. apply conv_not_dvt.
    - exfalso. revert E2. apply conv_not_dvt_el.
    - exfalso. symmetry in E2. revert E2. apply conv_not_dvt.
    - reflexivity.
    - discriminate.
    - exfalso. symmetry in E2. revert E2. apply conv_not_dvt_el.
    - discriminate.
    - reflexivity.
  Qed.

  Lemma scorer_not_governed m v : ~ governed (m ++ ".scorer") v.
  Proof.
    intros H. apply governed_inv in H. destruct H as [[m' [E _]]|[[E _]|[E _]]].
    - symmetry in E. revert E. apply conv_not_scorer.
    - revert E. apply scorer_not_dvt.
    - revert E. apply scorer_not_dvt_el.
  Qed.

  Lemma governed_entry D st : wf_step D st = true -> governed (entry_of st) (entry_val st).
  Proof.
    destruct st as [p|m]; cbn [wf_step entry_of Cache.entry_val]; intros H.
    - rewrite !andb_true_iff in H. destruct H as [[[K _] _] _].
      destruct (dvt_known_cases p K) as [[-> ->]|[-> ->]]; constructor.
    - constructor.
  Qed.

  (* ---- the cache map -------------------------------------------------------------- *)
  Lemma look_dump_same s n v : look (dump s n v) (path n) = Some (enc v).
  Proof. unfold Cache.look, Cache.dump. cbn. now rewrite String.eqb_refl. Qed.

  Lemma look_dump_other s n v f : f <> path n -> look (dump s n v) f = look s f.
  Proof.
    intros N. unfold Cache.look at 1, Cache.dump. cbn.
    destruct (String.eqb_spec f (path n)); [contradiction|reflexivity].
  Qed.

  Lemma load_dump_same s n v : load (dump s n v) n = Loaded v.
  Proof. unfold Cache.load. now rewrite look_dump_same, dec_enc. Qed.

  Lemma load_dump_other s n v n' : n' <> n -> load (dump s n v) n' = load s n'.
  Proof.
    intros N. unfold Cache.load. rewrite look_dump_other; [reflexivity|].
    intros E. apply N. now apply path_inj.
  Qed.

  (* ---- invariants: every governed file that is present satisfies P ---------------- *)
  Definition inv (P : content -> value -> Prop) (s : cstate) : Prop :=
    forall n v, governed n v -> forall c, look s (path n) = Some c -> P c v.

  (* sane: a governed file either fails to decode or decodes to the right object *)
  Definition sane : cstate -> Prop := inv (fun c v => forall v', dec c = Some v' -> v' = v).
  (* prefix_state: a governed file is a prefix (possibly all) of the right pickle:
     what an interrupted first start, deletions and truncations leave behind *)
  Definition prefix_state : cstate -> Prop := inv (fun c v => pre c (enc v)).

  Lemma inv_dump_governed (P : content -> value -> Prop) (s : cstate) n v :
    governed n v -> P (enc v) v -> inv P s -> inv P (dump s n v).
  Proof.
    intros G Pv I n0 v0 G0 c L.
    destruct (String.eqb_spec n0 n) as [->|N].
    - rewrite look_dump_same in L. injection L as <-. now rewrite (governed_fun G0 G).
    - rewrite look_dump_other in L; [now apply (I n0 v0 G0)|].
      intros E. apply N. now apply path_inj.
  Qed.

  Lemma inv_dump_free (P : content -> value -> Prop) (s : cstate) n v :
    (forall v', ~ governed n v') -> inv P s -> inv P (dump s n v).
  Proof.
    intros F I n0 v0 G0 c L.
    destruct (String.eqb_spec n0 n) as [->|N]; [exfalso; now apply (F v0)|].
    rewrite look_dump_other in L; [now apply (I n0 v0 G0)|].
    intros E. apply N. now apply path_inj.
  Qed.

  Lemma prefix_sane s : prefix_state s -> sane s.
  Proof.
    intros I n v G c L v' Dv. destruct (@dec_pre c v (I n v G c L)) as [E|E].
    - rewrite E in Dv. discriminate.
    - subst c. rewrite dec_enc in Dv. now injection Dv as <-.
  Qed.

  Lemma sane_load s n v v' : sane s -> governed n v -> load s n = Loaded v' -> v' = v.
  Proof.
    intros I G. unfold Cache.load. destruct (look s (path n)) as [c|] eqn:L; [|discriminate].
    destruct (dec c) as [w|] eqn:Dc; [|discriminate]. intros E. injection E as <-.
    exact (I n v G c L w Dc).
  Qed.

  Lemma no_dir_sane : sane (no_dir content).
  Proof. intros n v _ c L. discriminate L. Qed.
  Lemma no_dir_prefix : prefix_state (no_dir content).
  Proof. intros n v _ c L. discriminate L. Qed.
  Lemma empty_dir_prefix : prefix_state (empty_dir content).
  Proof. intros n v _ c L. discriminate L. Qed.

  (* what an interrupted start can leave behind: complete dumps of the right objects and
     dumps cut short at any point *)
  Inductive crash_reach : cstate -> Prop :=
  | CR_none : crash_reach (no_dir content)
  | CR_dump s n v : crash_reach s -> governed n v -> crash_reach (dump s n v)
  | CR_scorer s m v : crash_reach s -> crash_reach (dump s (m ++ ".scorer") v)
  | CR_partial s n v k : crash_reach s -> governed n v ->
      crash_reach {| dir_ok := true;
                     files := fun f => if String.eqb f (path n) then Some (cut k (enc v))
                                       else look s f |}.

  Lemma crash_reach_prefix s : crash_reach s -> prefix_state s.
  Proof.
    induction 1 as [|s n v _ IH G|s m v _ IH|s n v k _ IH G].
    - apply no_dir_prefix.
    - apply inv_dump_governed; auto.
    - apply inv_dump_free; [intros v'; apply scorer_not_governed|exact IH].
    - intros n0 v0 G0 c L. unfold Cache.look in L. cbn in L.
      destruct (String.eqb_spec (path n0) (path n)) as [E|N].
      + apply path_inj in E. subst n0. injection L as <-.
        rewrite (governed_fun G0 G). apply cut_pre.
      + exact (IH n0 v0 G0 c L).
  Qed.

  (* ---- transitions ----------------------------------------------------------------- *)
  Definition dumps_of (ev : list event) : list string :=
    flat_map (fun e => match e with EDump n => [path n] | _ => [] end) ev.

  Lemma dumps_of_app a b : dumps_of (a ++ b) = (dumps_of a ++ dumps_of b)%list.
  Proof. unfold dumps_of. now rewrite flat_map_app. Qed.

  (* what every piece of the start-up guarantees about the files, ds = the files it wrote *)
  Record tp (s s' : cstate) (ds : list string) : Prop := {
    tp_keeps : forall n v, governed n v -> load s n = Loaded v -> load s' n = Loaded v;
    tp_frame : forall f, ~ In f ds -> look s' f = look s f;
    tp_inv : forall P : content -> value -> Prop, (forall v, P (enc v) v) -> inv P s -> inv P s';
    tp_written : forall f, In f ds -> exists v, look s' f = Some (enc v)
  }.

  Lemma tp_refl s : tp s s [].
  Proof. split; auto. intros f []. Qed.

  Lemma tp_trans s s1 s2 d1 d2 : tp s s1 d1 -> tp s1 s2 d2 -> tp s s2 (d1 ++ d2).
  Proof.
    intros A B. split.
    - intros n v G L. apply (tp_keeps B G). now apply (tp_keeps A G).
    - intros f N. rewrite (tp_frame B), (tp_frame A); [reflexivity| |]; intros I; apply N;
        apply in_or_app; auto.
    - intros P HP I. apply (tp_inv B HP). now apply (tp_inv A HP).
    - intros f I. destruct (in_dec string_dec f d2) as [I2|N2]; [now apply (tp_written B)|].
      apply in_app_or in I. destruct I as [I1|I2]; [|contradiction].
      rewrite (tp_frame B f N2). now apply (tp_written A).
  Qed.

  Lemma tp_dump_governed s n v : governed n v -> tp s (dump s n v) [path n].
  Proof.
    intros G. split.
    - intros n0 v0 G0 L. destruct (String.eqb_spec n0 n) as [->|N].
      + rewrite load_dump_same. now rewrite (governed_fun G0 G).
      + now rewrite load_dump_other.
    - intros f N. apply look_dump_other. intros E. apply N. now left.
    - intros P HP I. now apply inv_dump_governed.
    - intros f [<-|[]]. exists v. apply look_dump_same.
  Qed.

  Lemma tp_dump_free s n v : (forall v', ~ governed n v') -> tp s (dump s n v) [path n].
  Proof.
    intros F. split.
    - intros n0 v0 G0 L. destruct (String.eqb_spec n0 n) as [->|N]; [exfalso; now apply (F v0)|].
      now rewrite load_dump_other.
    - intros f N. apply look_dump_other. intros E. apply N. now left.
    - intros P HP I. now apply inv_dump_free.
    - intros f [<-|[]]. exists v. apply look_dump_same.
  Qed.

  (* ---- compile_model / compile_dvt ------------------------------------------------- *)
  Lemma compile_model_ok D m s :
    wf_step D (NewModel m) = true ->
    exists s1 ev, compile_model enc conv_of scorer_of D m s = Ok (s1, ev)
                  /\ tp s s1 (dumps_of ev) /\ load s1 (m ++ ".converter") = Loaded (conv_of m).
  Proof.
    intros W. cbn [wf_step] in W. rewrite !andb_true_iff in W. destruct W as [[Wc _] Wm].
    unfold compile_model. rewrite Wc.
    destruct (has_file D m "matrix") eqn:Hm.
    - eexists _, _. split; [reflexivity|]. split.
      + change (dumps_of _) with ([path (m ++ ".converter")] ++ [path (m ++ ".scorer")])%list.
        eapply tp_trans; [apply tp_dump_governed; constructor|].
        apply tp_dump_free. intros v'. apply scorer_not_governed.
      + rewrite load_dump_other; [apply load_dump_same|apply conv_not_scorer].
    - cbn in Wm. rewrite andb_true_iff, !negb_true_iff in Wm. destruct Wm as [-> _].
      eexists _, _. split; [reflexivity|]. split.
      + change (dumps_of _) with [path (m ++ ".converter")]. apply tp_dump_governed. constructor.
      + apply load_dump_same.
  Qed.

  Lemma compile_dvt_ok D p s :
    wf_step D (LoadDvt p) = true ->
    exists s1 ev, compile_dvt enc dvt_of D p s = Ok (s1, ev)
                  /\ tp s s1 (dumps_of ev) /\ load s1 (dvt_fn p) = Loaded (dvt_of (dvt_dir p)).
  Proof.
    intros W. pose proof (@governed_entry D (LoadDvt p) W) as G. cbn [entry_of Cache.entry_val] in G.
    cbn [wf_step] in W. rewrite !andb_true_iff in W. destruct W as [[[K W1] W2] W3].
    unfold compile_dvt. rewrite K, W1, W2, W3. cbn [andb].
    eexists _, _. split; [reflexivity|]. split.
    - change (dumps_of _) with [path (dvt_fn p)]. now apply tp_dump_governed.
    - apply load_dump_same.
  Qed.

  (* ---- try load / except: build, load again ----------------------------------------- *)
  Lemma load_or_build_ok n v build s :
    sane s -> governed n v ->
    (exists s1 ev1, build s = Ok (s1, ev1) /\ tp s s1 (dumps_of ev1) /\ load s1 n = Loaded v) ->
    exists s' ev, load_or_build dec n build s = Ok (s', ev, v)
                  /\ tp s s' (dumps_of ev) /\ load s' n = Loaded v.
  Proof.
    intros S G [s1 [ev1 [B [T L1]]]]. unfold load_or_build.
    assert (DS : forall o, dumps_of (ELoad n o :: ev1 ++ [ELoad n OLoaded]) = dumps_of ev1).
    { intros o. change (ELoad n o :: ev1 ++ [ELoad n OLoaded])%list
        with ([ELoad n o] ++ ev1 ++ [ELoad n OLoaded])%list.
      rewrite !dumps_of_app. cbn. now rewrite app_nil_r. }
    destruct (load s n) as [| |v0] eqn:L.
    - rewrite B, L1. eexists _, _. split; [reflexivity|]. rewrite DS. auto.
    - rewrite B, L1. eexists _, _. split; [reflexivity|]. rewrite DS. auto.
    - pose proof (sane_load S G L) as E0. subst v0. eexists _, _. split; [reflexivity|]. split; [apply tp_refl|exact L].
  Qed.

  Lemma load_or_build_quiet n v build s :
    load s n = Loaded v -> load_or_build dec n build s = Ok (s, [ELoad n OLoaded], v).
  Proof. intros L. unfold load_or_build. now rewrite L. Qed.

  (* ---- one module-level call --------------------------------------------------------- *)
  Lemma get_scorer_ok D m s :
    wf_step D (NewModel m) = true ->
    get_scorer dec scorer_of D m s = Ok ([], if has_file D m "matrix" then Some (scorer_of m) else None).
  Proof.
    intros W. cbn [wf_step] in W. rewrite !andb_true_iff in W. destruct W as [_ Wm].
    unfold get_scorer. destruct (has_file D m "matrix"); [reflexivity|].
    cbn in Wm. rewrite andb_true_iff, !negb_true_iff in Wm. destruct Wm as [_ ->]. reflexivity.
  Qed.

  Lemma step_ok D st s :
    sane s -> wf_step D st = true ->
    exists s' ev, run_step D st s = Ok (s', ev, ref_val D st)
                  /\ tp s s' (dumps_of ev) /\ step_valid s' st.
  Proof.
    intros S W. pose proof (@governed_entry D st W) as G. destruct st as [p|m]; cbn [Cache.run_step].
    - destruct (@load_or_build_ok _ _ (compile_dvt enc dvt_of D p) s S G (@compile_dvt_ok D p s W))
        as [s' [ev [E [T L]]]].
      unfold load_dvt. cbn [entry_of Cache.entry_val] in E. rewrite E.
      eexists _, _. split; [reflexivity|]. split; [exact T|exact L].
    - destruct (@load_or_build_ok _ _ (compile_model enc conv_of scorer_of D m) s S G
                                 (@compile_model_ok D m s W)) as [s' [ev [E [T L]]]].
      unfold model_init, get_converter. cbn [entry_of Cache.entry_val] in E. rewrite E.
      rewrite (@get_scorer_ok D m s' W).
      assert (Wi : has_file D m "INFO" = true).
      { cbn [wf_step] in W. rewrite !andb_true_iff in W. tauto. }
      rewrite Wi. eexists _, _. split; [reflexivity|]. split; [|exact L].
      change (dumps_of _) with (dumps_of (ev ++ [])). now rewrite app_nil_r.
  Qed.

  Lemma step_quiet D st s :
    step_valid s st -> wf_step D st = true ->
    run_step D st s = Ok (s, quiet_events st, ref_val D st).
  Proof.
    intros V W. destruct st as [p|m]; cbn [Cache.run_step].
    - unfold load_dvt. unfold Cache.step_valid in V. cbn [entry_of Cache.entry_val] in V.
      now rewrite (@load_or_build_quiet _ _ (compile_dvt enc dvt_of D p) s V).
    - unfold model_init, get_converter. unfold Cache.step_valid in V. cbn [entry_of Cache.entry_val] in V.
      rewrite (@load_or_build_quiet _ _ (compile_model enc conv_of scorer_of D m) s V), (@get_scorer_ok D m s W).
      assert (Wi : has_file D m "INFO" = true).
      { cbn [wf_step] in W. rewrite !andb_true_iff in W. tauto. }
      now rewrite Wi.
  Qed.

  Lemma sane_tp s s' ds : tp s s' ds -> sane s -> sane s'.
  Proof.
    intros T. apply (tp_inv T). intros v v' E. rewrite dec_enc in E. now injection E as <-.
  Qed.

  Lemma prefix_tp s s' ds : tp s s' ds -> prefix_state s -> prefix_state s'.
  Proof. intros T. apply (tp_inv T). intros v. apply pre_refl. Qed.

  (* ---- the whole start ---------------------------------------------------------------- *)
  Lemma import_ok D seq : forall s,
    sane s -> wf_seq D seq = true ->
    exists s' ev, import_run D seq s = Ok (s', ev, map (ref_val D) seq)
                  /\ tp s s' (dumps_of ev) /\ clean seq s'.
  Proof.
    induction seq as [|st tl IH]; intros s S W.
    - exists s, []. split; [reflexivity|]. split; [apply tp_refl|constructor].
    - cbn [wf_seq forallb] in W. rewrite andb_true_iff in W. destruct W as [W1 W2].
      destruct (@step_ok D st s S W1) as [s1 [e1 [E1 [T1 V1]]]].
      destruct (IH s1 (sane_tp T1 S) W2) as [s2 [e2 [E2 [T2 C2]]]].
      exists s2, (e1 ++ e2)%list. cbn [Cache.import_run map]. rewrite E1, E2.
      split; [reflexivity|]. split.
      + rewrite dumps_of_app. now apply (tp_trans T1 T2).
      + constructor; [|exact C2]. apply (tp_keeps T2 (@governed_entry D st W1)). exact V1.
  Qed.

  Lemma import_quiet D seq s :
    clean seq s -> wf_seq D seq = true ->
    import_run D seq s = Ok (s, flat_map quiet_events seq, map (ref_val D) seq).
  Proof.
    induction seq as [|st tl IH]; intros C W; [reflexivity|].
    cbn [wf_seq forallb] in W. rewrite andb_true_iff in W. destruct W as [W1 W2].
    inversion C as [|x l V C']; subst.
    cbn [Cache.import_run map flat_map]. now rewrite (@step_quiet D st s V W1), (IH C' W2).
  Qed.

  (* ---- a start rebuilds only what is damaged ------------------------------------------------ *)
  Lemma rebuilds_app a b : rebuilds (a ++ b) = (rebuilds a ++ rebuilds b)%list.
  Proof. unfold rebuilds. now rewrite flat_map_app. Qed.

  Lemma rebuilds_quiet st : rebuilds (quiet_events st) = [].
  Proof. destruct st; reflexivity. Qed.

  Lemma lob_events n build s s' ev v :
    load_or_build dec n build s = Ok (s', ev, v) ->
    ev = [ELoad n OLoaded] \/
    exists s1 ev1 o, build s = Ok (s1, ev1) /\ ev = (ELoad n o :: ev1 ++ [ELoad n OLoaded])%list.
  Proof.
    unfold load_or_build. intros E.
    destruct (load s n) as [| |v0].
    - destruct (build s) as [[s1 ev1]| |]; try discriminate E.
      destruct (load s1 n) as [| |v1]; try discriminate E. injection E as _ <- _. right. eauto.
    - destruct (build s) as [[s1 ev1]| |]; try discriminate E.
      destruct (load s1 n) as [| |v1]; try discriminate E. injection E as _ <- _. right. eauto.
    - injection E as _ <- _. now left.
  Qed.

  Lemma rebuilds_wrap n o ev1 : rebuilds (ELoad n o :: ev1 ++ [ELoad n OLoaded]) = rebuilds ev1.
  Proof.
    change (ELoad n o :: ev1 ++ [ELoad n OLoaded])%list with ([ELoad n o] ++ ev1 ++ [ELoad n OLoaded])%list.
    rewrite !rebuilds_app. cbn. now rewrite app_nil_r.
  Qed.

  Lemma dumps_wrap n o ev1 : dumps_of (ELoad n o :: ev1 ++ [ELoad n OLoaded]) = dumps_of ev1.
  Proof.
    change (ELoad n o :: ev1 ++ [ELoad n OLoaded])%list with ([ELoad n o] ++ ev1 ++ [ELoad n OLoaded])%list.
    rewrite !dumps_of_app. cbn. now rewrite app_nil_r.
  Qed.

  Lemma compile_model_events D m s s1 ev1 :
    compile_model enc conv_of scorer_of D m s = Ok (s1, ev1) ->
    rebuilds ev1 = [NewModel m] /\ incl (dumps_of ev1) (step_files (NewModel m)).
  Proof.
    unfold compile_model. intros E.
    destruct (has_file D m "converter"); [|discriminate E].
    destruct (has_file D m "matrix").
    - injection E as _ <-. split; [reflexivity|]. cbn. intros f I. exact I.
    - destruct (has_file D m "scorer"); [discriminate E|]. injection E as _ <-.
      split; [reflexivity|]. cbn. intros f [<-|[]]. now left.
  Qed.

  Lemma compile_dvt_events D p s s1 ev1 :
    compile_dvt enc dvt_of D p s = Ok (s1, ev1) ->
    rebuilds ev1 = [LoadDvt p] /\ incl (dumps_of ev1) (step_files (LoadDvt p)).
  Proof.
    unfold compile_dvt. intros E.
    destruct (dvt_path_known p); [|discriminate E].
    destruct (has_file D (dvt_dir p) "diacritics" && has_file D (dvt_dir p) "vowels"
              && has_file D (dvt_dir p) "tones"); [|discriminate E].
    injection E as _ <-. split; [reflexivity|]. cbn. intros f I. exact I.
  Qed.

  (* shape of the trace of one call: it compiles nothing but its own entry, and writes nothing
     but the files of its own compile *)
  Lemma step_events D st s s' ev v :
    run_step D st s = Ok (s', ev, v) ->
    (forall x, In x (rebuilds ev) -> x = st) /\
    (forall f, In f (dumps_of ev) -> In st (rebuilds ev) /\ In f (step_files st)).
  Proof.
    intros E. destruct st as [p|m]; cbn [Cache.run_step] in E.
    - unfold load_dvt in E.
      destruct (load_or_build dec (dvt_fn p) (compile_dvt enc dvt_of D p) s) as [[[s1 e1] v1]| |] eqn:L;
        try discriminate E.
      injection E as _ <- _. destruct (lob_events _ _ _ L) as [->|[s2 [ev1 [o [B ->]]]]].
      + cbn. split; [intros x []|intros f []].
      + destruct (compile_dvt_events _ _ _ B) as [R I].
        change (EDvt p :: ELoad (dvt_fn p) o :: ev1 ++ [ELoad (dvt_fn p) OLoaded])%list
          with ([EDvt p] ++ (ELoad (dvt_fn p) o :: ev1 ++ [ELoad (dvt_fn p) OLoaded]))%list.
        rewrite rebuilds_app, dumps_of_app, rebuilds_wrap, dumps_wrap, R. cbn [rebuilds dumps_of flat_map app].
        split; [intros x [<-|[]]; reflexivity|]. intros f If. split; [now left|now apply I].
    - unfold model_init, get_converter in E.
      destruct (load_or_build dec (m ++ ".converter") (compile_model enc conv_of scorer_of D m) s)
        as [[[s1 e1] v1]| |] eqn:L; try discriminate E.
      assert (GS : exists sc, (get_scorer dec scorer_of D m s1 = Ok ([], sc))
                              \/ (exists o, get_scorer dec scorer_of D m s1 = Ok ([ELoad (m ++ ".scorer") o], sc))
                              \/ get_scorer dec scorer_of D m s1 = Raise).
      { unfold get_scorer. destruct (has_file D m "matrix"); [eexists; now left|].
        destruct (has_file D m "scorer.bin"); [|eexists; now left].
        destruct (load s1 (m ++ ".scorer")); eexists; eauto. Unshelve. all: exact None. }
      destruct GS as [sc [G|[[o G]|G]]]; rewrite G in E; try discriminate E;
        (destruct (has_file D m "INFO"); [|discriminate E]); injection E as _ <- _.
      + rewrite app_nil_r.
        change (EModel m :: e1) with ([EModel m] ++ e1)%list. rewrite rebuilds_app, dumps_of_app.
        cbn [rebuilds dumps_of flat_map app].
        destruct (lob_events _ _ _ L) as [->|[s2 [ev1 [o' [B ->]]]]].
        * cbn. split; [intros x []|intros f []].
        * destruct (compile_model_events _ _ _ B) as [R I]. rewrite rebuilds_wrap, dumps_wrap, R.
          split; [intros x [<-|[]]; reflexivity|]. intros f If. split; [now left|now apply I].
      + change (EModel m :: e1 ++ [ELoad (m ++ ".scorer") o])%list
          with ([EModel m] ++ e1 ++ [ELoad (m ++ ".scorer") o])%list.
        rewrite !rebuilds_app, !dumps_of_app. cbn [rebuilds dumps_of flat_map app]. rewrite !app_nil_r.
        destruct (lob_events _ _ _ L) as [->|[s2 [ev1 [o' [B ->]]]]].
        * cbn. split; [intros x []|intros f []].
        * destruct (compile_model_events _ _ _ B) as [R I]. rewrite rebuilds_wrap, dumps_wrap, R.
          split; [intros x [<-|[]]; reflexivity|]. intros f If. split; [now left|now apply I].
  Qed.

  Theorem import_rebuilds_only_damaged D seq : forall s s' ev vs,
    sane s -> wf_seq D seq = true -> import_run D seq s = Ok (s', ev, vs) ->
    (forall st, In st (rebuilds ev) -> In st seq /\ ~ step_valid s st) /\
    (forall f, In f (dumps_of ev) -> exists st, In st (rebuilds ev) /\ In f (step_files st)).
  Proof.
    induction seq as [|st tl IH]; intros s s' ev vs S W E.
    - cbn in E. injection E as <- <- <-. split; [intros st []|intros f []].
    - cbn [wf_seq forallb] in W. rewrite andb_true_iff in W. destruct W as [W1 W2].
      destruct (@step_ok D st s S W1) as [s1 [e1 [E1 [T1 V1]]]].
      cbn [Cache.import_run] in E. rewrite E1 in E.
      destruct (import_run D tl s1) as [[[s2 e2] vs2]| |] eqn:E2; try discriminate E.
      injection E as <- <- <-.
      destruct (@step_events D st s s1 e1 _ E1) as [R1 D1].
      destruct (IH s1 s2 e2 vs2 (sane_tp T1 S) W2 E2) as [R2 D2].
      split.
      + intros x I. rewrite rebuilds_app in I. apply in_app_or in I. destruct I as [I|I].
        * rewrite (R1 x I) in *. split; [now left|]. intros V.
          pose proof (@step_quiet D st s V W1) as Q. rewrite E1 in Q. injection Q as _ Q.
          rewrite Q, rebuilds_quiet in I. exact I.
        * destruct (R2 x I) as [It N]. split; [now right|]. intros V. apply N.
          assert (Wx : wf_step D x = true) by (unfold wf_seq in W2; rewrite forallb_forall in W2; now apply W2).
          exact (tp_keeps T1 (@governed_entry D x Wx) V).
      + intros f I. rewrite dumps_of_app in I. apply in_app_or in I. destruct I as [I|I].
        * destruct (D1 f I) as [A B]. exists st. split; [|exact B]. rewrite rebuilds_app. apply in_or_app. now left.
        * destruct (D2 f I) as [x [A B]]. exists x. split; [|exact B]. rewrite rebuilds_app. apply in_or_app. now right.
  Qed.

  Lemma quiet_no_compile seq : existsb is_compile (flat_map quiet_events seq) = false.
  Proof. induction seq as [|[p|m] tl IH]; cbn; auto. Qed.

  (* ---- the property clauses ------------------------------------------------------------ *)
  (* for every cache state the start returns; never Raise, never Outside *)
  Theorem import_total D seq s :
    sane s -> wf_seq D seq = true -> exists s' ev vs, import_run D seq s = Ok (s', ev, vs).
  Proof.
    intros S W. destruct (@import_ok D seq s S W) as [s' [ev [E _]]]. now exists s', ev, (map (ref_val D) seq).
  Qed.

  (* what it hands out does not depend on the cache: it is what the data files say, and what
     a start without any cache directory hands out *)
  Theorem import_value_independent D seq s s' ev vs :
    sane s -> wf_seq D seq = true -> import_run D seq s = Ok (s', ev, vs) ->
    vs = map (ref_val D) seq /\
    exists s0 ev0, import_run D seq (no_dir content) = Ok (s0, ev0, vs).
  Proof.
    intros S W E. destruct (@import_ok D seq s S W) as [s1 [e1 [E1 _]]].
    rewrite E1 in E. injection E as <- <- <-. split; [reflexivity|].
    destruct (@import_ok D seq (no_dir content) no_dir_sane W) as [s0 [e0 [E0 _]]].
    now exists s0, e0.
  Qed.

  (* afterwards every consulted entry is valid; every file written holds a complete pickle;
     every file not written is untouched *)
  Theorem import_repairs D seq s s' ev vs :
    sane s -> wf_seq D seq = true -> import_run D seq s = Ok (s', ev, vs) ->
    clean seq s' /\
    (forall f, In f (dumps_of ev) -> exists v, look s' f = Some (enc v)) /\
    (forall f, ~ In f (dumps_of ev) -> look s' f = look s f) /\
    sane s'.
  Proof.
    intros S W E. destruct (@import_ok D seq s S W) as [s1 [e1 [E1 [T C]]]].
    rewrite E1 in E. injection E as <- <- <-.
    split; [exact C|]. split; [apply (tp_written T)|]. split; [apply (tp_frame T)|apply (sane_tp T S)].
  Qed.

  (* a start on a cache whose consulted entries are valid compiles nothing, writes nothing
     and leaves the state as it is *)
  Theorem clean_start_quiet D seq s :
    clean seq s -> wf_seq D seq = true ->
    import_run D seq s = Ok (s, flat_map quiet_events seq, map (ref_val D) seq)
    /\ existsb is_compile (flat_map quiet_events seq) = false.
  Proof. intros C W. split; [now apply import_quiet|apply quiet_no_compile]. Qed.

  (* the next start after any start is clean *)
  Theorem second_start_clean D seq s s' ev vs :
    sane s -> wf_seq D seq = true -> import_run D seq s = Ok (s', ev, vs) ->
    exists ev2, import_run D seq s' = Ok (s', ev2, vs) /\ existsb is_compile ev2 = false.
  Proof.
    intros S W E. destruct (@import_repairs D seq s s' ev vs S W E) as [C _].
    destruct (@import_value_independent D seq s s' ev vs S W E) as [-> _].
    exists (flat_map quiet_events seq). now apply clean_start_quiet.
  Qed.

  (* ---- damage --------------------------------------------------------------------------- *)
  Lemma prefix_dmg s d : prefix_state s -> prefix_state (apply_dmg s d).
  Proof.
    intros I n v G c L. destruct d as [f|f k|]; unfold Cache.look in L; cbn in L.
    - destruct (dir_ok s) eqn:Dk; [|discriminate].
      destruct (String.eqb (path n) f); [discriminate|]. exact (I n v G c L).
    - destruct (dir_ok s) eqn:Dk; [|discriminate].
      destruct (String.eqb (path n) f); [|exact (I n v G c L)].
      destruct (look s (path n)) as [c0|] eqn:L0; [|discriminate]. cbn in L. injection L as <-.
      apply (pre_trans (cut_pre k c0)). exact (I n v G c0 L0).
    - discriminate.
  Qed.

  Lemma prefix_dmgs ds : forall s, prefix_state s -> prefix_state (apply_dmgs s ds).
  Proof.
    induction ds as [|d tl IH]; intros s I; [exact I|]. cbn. apply IH. now apply prefix_dmg.
  Qed.

  (* any number of rounds of (delete / truncate / remove the directory, then start): every
     start returns, hands out the reference values, and leaves a clean cache *)
  Theorem restarts D seq :
    wf_seq D seq = true ->
    forall rounds s, prefix_state s ->
    exists s' outs, run_rounds D seq rounds s = Ok (s', outs)
                    /\ length outs = length rounds
                    /\ Forall (fun o => snd o = map (ref_val D) seq) outs
                    /\ prefix_state s'
                    /\ (rounds <> [] -> clean seq s').
  Proof.
    intros W. induction rounds as [|ds tl IH]; intros s I.
    - exists s, []. repeat split; auto. intros N. now contradiction N.
    - cbn [Cache.run_rounds].
      pose proof (prefix_dmgs ds I) as I1.
      destruct (@import_ok D seq _ (prefix_sane I1) W) as [s1 [e1 [E1 [T1 C1]]]].
      rewrite E1. destruct (IH s1 (prefix_tp T1 I1)) as [s2 [outs [E2 [Ln [F [I2 C2]]]]]].
      rewrite E2. exists s2, ((e1, map (ref_val D) seq) :: outs).
      split; [reflexivity|]. split; [cbn; now rewrite Ln|]. split; [constructor; auto|].
      split; [exact I2|]. intros _. destruct tl as [|d2 tl2].
      + cbn in E2. injection E2 as <- _. exact C1.
      + apply C2. discriminate.
  Qed.
End Proofs.

(* ------------------------------------------------------------------------------------ *)
(* byte lists: prefix order and truncation are the list ones, which leaves only the two
   statements about the decoder as premises                                             *)
Section Bytes.
  Variables value byte : Type.
  Variable enc : value -> list byte.
  Variable dec : list byte -> option value.

  Definition bpre (a b : list byte) : Prop := exists r, b = (a ++ r)%list.

  (* the decoder hypothesis of DESIGN 5/C20 in its original form *)
  Definition decoder_rejects_strict_prefixes : Prop :=
    forall v c r, r <> [] -> enc v = (c ++ r)%list -> dec c = None.

  Lemma bytes_dec_pre :
    decoder_rejects_strict_prefixes -> forall c v, bpre c (enc v) -> dec c = None \/ c = enc v.
  Proof.
    intros H c v [r E]. destruct r as [|b r].
    - right. now rewrite E, app_nil_r.
    - left. apply (H v c (b :: r)); [discriminate|exact E].
  Qed.

  Lemma bpre_refl c : bpre c c.
  Proof. exists []. now rewrite app_nil_r. Qed.

  Lemma bpre_trans a b c : bpre a b -> bpre b c -> bpre a c.
  Proof. intros [r ->] [r' ->]. exists (r ++ r')%list. now rewrite app_assoc. Qed.

  Lemma firstn_bpre k c : bpre (firstn k c) c.
  Proof. exists (skipn k c). now rewrite firstn_skipn. Qed.

  (* the empty file is a strict prefix of every pickle (a pickle is never empty under the
     hypotheses: the empty content would have to decode to every object) *)
  Lemma empty_file_rejected :
    (forall v, dec (enc v) = Some v) -> decoder_rejects_strict_prefixes ->
    forall v, dec [] = None \/ forall w : value, w = v.
  Proof.
    intros RT H v. destruct (enc v) as [|b r] eqn:E.
    - right. intros w. destruct (enc w) as [|b' r'] eqn:E'.
      + pose proof (RT v) as A. pose proof (RT w) as B. rewrite E in A. rewrite E' in B.
        rewrite A in B. now injection B.
      + pose proof (H w [] (b' :: r')) as K. pose proof (RT v) as A. rewrite E in A.
        rewrite K in A; [discriminate|discriminate|exact E'].
    - left. apply (H v [] (b :: r)); [discriminate|exact E].
  Qed.
End Bytes.
