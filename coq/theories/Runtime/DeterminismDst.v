(* DeterminismDst - model of the distance matrix the tree calculation starts from
   (basic/ops.py: get_score mode 'swadesh', wl2dst), property C18 kernel K9.

   wl.calculate('tree', ref=...) computes wl2dst(wl, ref=...) and hands the matrix to
   UPGMA / Neighbor-Joining (modelled under C09).  The matrix is computed from
   - the concepts (wl.rows, in whatever order they are enumerated),
   - per language the dictionary concept -> cognate ids of its words (get_dict(col, entry=ref)).
   Model and case code only; proofs are in DeterminismDstProofs.v. *)
From Coq Require Import List Bool Arith ZArith QArith Qabs.
From LV Require Import Common.Cases Runtime.SortX Runtime.Determinism.
Import ListNotations.
Local Open Scope nat_scope.

Definition cogdict := list (str * list Z).

(* [k for k in dictA[concept] if k in dictB[concept]] is not empty *)
Definition shares (a b : list Z) : bool := existsb (fun k => existsb (Z.eqb k) b) a.

Definition is_missing (dA dB : cogdict) (c : str) : bool :=
  match dget str_eqb dA c, dget str_eqb dB c with
  | Some _, Some _ => false
  | _, _ => true
  end.

Definition is_shared (dA dB : cogdict) (c : str) : bool :=
  match dget str_eqb dA c, dget str_eqb dB c with
  | Some a, Some b => shares a b
  | _, _ => false
  end.

Definition count_if {A} (p : A -> bool) (l : list A) : nat := length (filter p l).

(* get_score(wl, ref, 'swadesh', taxA, taxB): 1 - shared / (height - missing); a zero
   denominator is caught by the code and gives 1.0 *)
Definition swadesh_score (concepts : list str) (dA dB : cogdict) : Q :=
  let shared := count_if (is_shared dA dB) concepts in
  let missing := count_if (is_missing dA dB) concepts in
  let den := length concepts - missing in
  match den with
  | O => 1%Q
  | S _ => (1 - (Z.of_nat shared # Pos.of_nat den))%Q
  end.

(* wl2dst: distances[i][j] = distances[j][i] = get_score(taxon i, taxon j) for i < j, 0 on the diagonal *)
Definition wl2dst (concepts : list str) (dicts : list cogdict) : list (list Q) :=
  let n := length dicts in
  map (fun i => map (fun j =>
        if i =? j then 0%Q
        else if i <? j then swadesh_score concepts (nth i dicts []) (nth j dicts [])
        else swadesh_score concepts (nth j dicts []) (nth i dicts []))
      (seq 0 n)) (seq 0 n).

(* ------------------------------------------------------------------ *)
(* correspondence case: the implementation's matrix (floats, rendered exactly) must be the
   model's matrix up to the rounding of the one division and subtraction per cell *)
Record dst_case := {
  dc_rows : list str;               (* wl.rows as the implementation enumerates them *)
  dc_rows_rev : list str;           (* the same concepts in another order (the harness reverses / rotates them) *)
  dc_dicts : list cogdict;          (* get_dict(col=t, entry=ref) for t in wl.cols *)
  dc_matrix : list (list Q)         (* implementation: wl2dst(wl, ref=ref) *)
}.

Definition qclose (x y : Q) : bool := Qle_bool (Qabs (x - y)) (1 # 1099511627776).   (* 2^-40 *)

Definition qmat_close : list (list Q) -> list (list Q) -> bool := list_eqb (list_eqb qclose).

Definition qmget (m : list (list Q)) (i j : nat) : Q := nth j (nth i m []) 0%Q.

(* exact symmetry and exact zero diagonal of the implementation's matrix *)
Definition dst_shapeb (n : nat) (m : list (list Q)) : bool :=
  (length m =? n) && forallb (fun r => length r =? n) m
  && forallb (fun i => forallb (fun j =>
        Qeq_bool (qmget m i j) (qmget m j i) && (negb (i =? j) || Qeq_bool (qmget m i j) 0))
      (seq 0 n)) (seq 0 n).

Definition dst_case_code (c : dst_case) : nat :=
  bit 0 (qmat_close (wl2dst (dc_rows c) (dc_dicts c)) (dc_matrix c)
         && qmat_close (wl2dst (dc_rows_rev c) (dc_dicts c)) (dc_matrix c))
  + bit 1 (dst_shapeb (length (dc_dicts c)) (dc_matrix c))
  + bit 5 (set_enumb (dc_rows c) (dc_rows_rev c)).
