(* C20 - running the cache model against what the real start-up did (inside Coq, vm_compute).

   The instance that is evaluated:
     value   := (kind, name)      (0, m) the converter built from data/models/m/converter
                                  (1, m) the scorer read from data/models/m/matrix
                                  (2, d) the (diacritics, vowels, tones) triple of data/models/d
                                  (9, _) anything else
     content := (value, None)     the complete pickle of that object (byte-identical to the reference)
                (value, Some k)   something that is not a complete pickle (the first k bytes of it,
                                  or foreign bytes): pickle.load raises
   The harness classifies every file by comparing its bytes with the reference bytes and records
   separately whether pickle.load really raises on it (the decoder observation, bit 5).
   `import_seq` and `model_dirs` come from the regenerated LVGen.SettingsModels.

   bits of cache_case_code
     0  model and implementation disagree (events / values / files afterwards / outcome)
     1  a start raised
     2  a start handed out something else than the objects built from the data files
     3  after a start a consulted entry is not a complete pickle of the right object
     4  a start that follows a start (no damage in between) compiled or wrote something
     5  decoder hypothesis contradicted: a truncated / emptied file unpickled, or a complete one did not
     6  a start compiled for a call whose entry was valid (full traces only) *)
From Coq Require Import String List Bool ZArith Arith.
From LV Require Import Common.Cases Runtime.Cache.
From LVGen Require Import SettingsModels.
Import ListNotations.
Local Open Scope string_scope.

Definition xvalue : Type := (nat * string)%type.
Definition xcontent : Type := (xvalue * option Z)%type.

Definition xenc (v : xvalue) : xcontent := (v, None).
Definition xdec (c : xcontent) : option xvalue := match c with (v, None) => Some v | _ => None end.
Definition xconv (m : string) : xvalue := (0, m).
Definition xscorer (m : string) : xvalue := (1, m).
Definition xdvt (d : string) : xvalue := (2, d).

Definition xvalue_eqb (a b : xvalue) : bool := Nat.eqb (fst a) (fst b) && String.eqb (snd a) (snd b).
Definition xcontent_eqb (a b : xcontent) : bool :=
  xvalue_eqb (fst a) (fst b) && option_eqb Z.eqb (snd a) (snd b).

Definition outcome_eqb (a b : outcome) : bool :=
  match a, b with
  | ONotFound, ONotFound | OUndecodable, OUndecodable | OLoaded, OLoaded => true
  | _, _ => false
  end.

Definition event_eqb (a b : event) : bool :=
  match a, b with
  | EDvt x, EDvt y | EModel x, EModel y | EDump x, EDump y
  | ECompileModel x, ECompileModel y | ECompileDvt x, ECompileDvt y => String.eqb x y
  | ELoad x o, ELoad y p => String.eqb x y && outcome_eqb o p
  | _, _ => false
  end.

Definition sval_eqb (a b : sval xvalue) : bool :=
  match a, b with
  | VDvt x, VDvt y => xvalue_eqb x y
  | VModel c s, VModel c' s' => xvalue_eqb c c' && option_eqb xvalue_eqb s s'
  | _, _ => false
  end.

Fixpoint assoc {A} (f : string) (l : list (string * A)) : option A :=
  match l with
  | [] => None
  | (g, a) :: tl => if String.eqb f g then Some a else assoc f tl
  end.

Definition state_of (dir : bool) (fl : list (string * xcontent)) : cstate xcontent :=
  {| dir_ok := dir; files := fun f => assoc f fl |}.

(* one observed start *)
Record start_obs := {
  so_seq : list step;                         (* the calls made: import_seq for `import lingpy`, or any
                                                 other sequence of load_dvt(path) / Model(name) calls *)
  so_ok : bool;                               (* returned (true) / raised (false) *)
  so_events : list event;                     (* full trace, or only the EDump of rewritten files *)
  so_vals : list (sval xvalue);               (* what the start handed out, in sequence order *)
  so_dir : bool;                              (* the directory exists afterwards *)
  so_files : list (string * xcontent)         (* the files afterwards *)
}.

(* one round: the cache as found (after damage), then one or more starts *)
Record round_obs := {
  ro_dir : bool;
  ro_files : list (string * xcontent);
  ro_dec : list (string * bool);              (* per file found: did pickle.load raise on it *)
  ro_starts : list start_obs
}.

Record cache_case := {
  cc_full : bool;                             (* events are a complete trace (in-process) *)
  cc_names : list string;                     (* the file names compared after every start *)
  cc_rounds : list round_obs
}.

Definition ximport (seq : list step) := import_run xenc xdec xconv xscorer xdvt model_dirs seq.
Definition xref (seq : list step) : list (sval xvalue) := map (ref_val xconv xscorer xdvt model_dirs) seq.

Definition step_eqb (a b : step) : bool :=
  match a, b with
  | LoadDvt p, LoadDvt q => String.eqb (dvt_fn p) (dvt_fn q)     (* same cache entry *)
  | NewModel m, NewModel n => String.eqb m n
  | _, _ => false
  end.
(* every entry this sequence consults was consulted by the previous one *)
Definition covered (prev seq : list step) : bool := forallb (fun st => existsb (step_eqb st) prev) seq.

Definition dump_names (ev : list event) : list string :=
  flat_map (fun e => match e with EDump n => [n] | _ => [] end) ev.
Definition subset (a b : list string) : bool := forallb (fun x => existsb (String.eqb x) b) a.

Definition events_agree (full : bool) (model impl : list event) : bool :=
  if full then list_eqb event_eqb model impl
  else subset (dump_names model) (dump_names impl) && subset (dump_names impl) (dump_names model).

Definition files_agree (names : list string) (s : cstate xcontent) (dir : bool)
           (fl : list (string * xcontent)) : bool :=
  Bool.eqb (dir_ok s) dir
  && forallb (fun f => option_eqb xcontent_eqb (look s f) (look (state_of dir fl) f)) names.

(* bit 0 *)
Definition start_corr (full : bool) (names : list string) (dir : bool) (fl : list (string * xcontent))
           (o : start_obs) : bool :=
  match ximport (so_seq o) (state_of dir fl) with
  | Ok (s', ev, vs) =>
    so_ok o && events_agree full ev (so_events o) && list_eqb sval_eqb vs (so_vals o)
    && files_agree names s' (so_dir o) (so_files o)
  | _ => negb (so_ok o)
  end.

(* bit 2: checker for  vals = reference values *)
Definition vals_refb (o : start_obs) : bool := list_eqb sval_eqb (so_vals o) (xref (so_seq o)).

(* bit 3: checker for  clean : every consulted entry holds the complete pickle of its object *)
Definition cleanb (seq : list step) (dir : bool) (fl : list (string * xcontent)) : bool :=
  forallb (fun st => option_eqb xcontent_eqb (look (state_of dir fl) (path (entry_of st)))
                                (Some (xenc (entry_val xconv xdvt st)))) seq.

(* bit 4: checker for  quiet : nothing compiled, nothing written, files as before *)
Definition same_files (names : list string) (dir : bool) (fl : list (string * xcontent))
           (dir' : bool) (fl' : list (string * xcontent)) : bool :=
  Bool.eqb dir dir'
  && forallb (fun f => option_eqb xcontent_eqb (look (state_of dir fl) f) (look (state_of dir' fl') f)) names.
Definition quietb (names : list string) (dir : bool) (fl : list (string * xcontent)) (o : start_obs) : bool :=
  negb (existsb is_compile (so_events o)) && same_files names dir fl (so_dir o) (so_files o).

(* bit 6: checker for  rebuilds only what is damaged : every compile in the trace belongs to a call
   whose entry was not a complete pickle of its object when the start began *)
Definition validb (dir : bool) (fl : list (string * xcontent)) (st : step) : bool :=
  option_eqb xcontent_eqb (look (state_of dir fl) (path (entry_of st))) (Some (xenc (entry_val xconv xdvt st))).
Definition rebuild_onlyb (dir : bool) (fl : list (string * xcontent)) (o : start_obs) : bool :=
  forallb (fun st => negb (validb dir fl st)) (rebuilds (so_events o)).

(* bit 5: checker for the decoder observations: load raised iff the content is not a complete pickle *)
Definition decb (fl : list (string * xcontent)) (obs : list (string * bool)) : bool :=
  forallb (fun fo => match assoc (fst fo) fl with
                     | Some c => Bool.eqb (snd fo) (match xdec c with None => true | Some _ => false end)
                     | None => false
                     end) obs
  && forallb (fun fc => existsb (fun fo => String.eqb (fst fo) (fst fc)) obs) fl.

(* prev = the sequence of the previous start of this round (None: the first start after damage);
   bit 4 applies when the previous start consulted every entry this one consults *)
Fixpoint starts_code (full : bool) (names : list string) (prev : option (list step)) (dir : bool)
         (fl : list (string * xcontent)) (l : list start_obs)
  : list bool * list bool * list bool * list bool * list bool * list bool :=
  match l with
  | [] => ([], [], [], [], [], [])
  | o :: tl =>
    match starts_code full names (if so_ok o then Some (so_seq o) else None) (so_dir o) (so_files o) tl with
    | (c0, c1, c2, c3, c4, c6) =>
      (start_corr full names dir fl o :: c0,
       so_ok o :: c1,
       (negb (so_ok o) || vals_refb o) :: c2,
       (negb (so_ok o) || cleanb (so_seq o) (so_dir o) (so_files o)) :: c3,
       (match prev with
        | None => true
        | Some ps => negb (so_ok o) || negb (covered ps (so_seq o)) || quietb names dir fl o
        end) :: c4,
       (negb (so_ok o) || rebuild_onlyb dir fl o) :: c6)
    end
  end.

Definition all (l : list bool) : bool := forallb (fun b => b) l.

Definition round_code (full : bool) (names : list string) (r : round_obs) : nat :=
  match starts_code full names None (ro_dir r) (ro_files r) (ro_starts r) with
  | (c0, c1, c2, c3, c4, c6) =>
    bit 0 (all c0) + bit 1 (all c1) + bit 2 (all c2) + bit 3 (all c3) + bit 4 (all c4)
    + bit 5 (decb (ro_files r) (ro_dec r)) + bit 6 (negb full || all c6)
  end.

Fixpoint nat_lor_bits (a b : nat) (k : nat) : nat :=
  match k with
  | O => 0
  | S k' => nat_lor_bits a b k' + (if (Nat.testbit a k' || Nat.testbit b k') then 2 ^ k' else 0)
  end.

Definition cache_case_code (c : cache_case) : nat :=
  fold_left (fun acc r => nat_lor_bits acc (round_code (cc_full c) (cc_names c) r) 7) (cc_rounds c) 0.
