(* DeterminismDstProofs - the distance matrix of the tree calculation does not depend on the
   order in which the concepts are enumerated, is symmetric and has a zero diagonal (C18, K9). *)
From Coq Require Import List Bool Arith ZArith QArith Qabs Lia Permutation.
From LV Require Import Common.Cases Runtime.SortX Runtime.Determinism Runtime.DeterminismProofs Runtime.DeterminismDst.
Import ListNotations.
Local Open Scope nat_scope.

Lemma count_if_perm : forall (A : Type) (p : A -> bool) (l l' : list A),
  Permutation l l' -> count_if p l = count_if p l'.
Proof.
  intros A p l l' P. unfold count_if. induction P as [|x l l' P IH|x y l|l l' l'' P1 IH1 P2 IH2]; cbn [filter].
  - reflexivity.
  - destruct (p x); cbn [length]; rewrite IH; reflexivity.
  - destruct (p x); destruct (p y); reflexivity.
  - rewrite IH1. exact IH2.
Qed.

Lemma swadesh_score_perm : forall rows rows' dA dB,
  Permutation rows rows' -> swadesh_score rows dA dB = swadesh_score rows' dA dB.
Proof.
  intros rows rows' dA dB P. unfold swadesh_score.
  rewrite (count_if_perm _ (is_shared dA dB) _ _ P), (count_if_perm _ (is_missing dA dB) _ _ P),
          (Permutation_length P). reflexivity.
Qed.

(* the matrix is the same for ANY two enumerations of the concepts (not only sorted ones) *)
Theorem wl2dst_perm_invariant : forall rows rows' dicts,
  Permutation rows rows' -> wl2dst rows dicts = wl2dst rows' dicts.
Proof.
  intros rows rows' dicts P. unfold wl2dst.
  apply map_ext. intros i. apply map_ext. intros j.
  rewrite !(swadesh_score_perm rows rows' _ _ P). reflexivity.
Qed.

Theorem wl2dst_set_invariant : forall vals o1 o2 dicts,
  set_enum vals o1 -> set_enum vals o2 -> wl2dst o1 dicts = wl2dst o2 dicts.
Proof.
  intros vals o1 o2 dicts H1 H2. apply wl2dst_perm_invariant. eapply set_enum_perm; eassumption.
Qed.

(* in particular for the rows the wordlist computes, whatever the iteration order of the set of concepts *)
Theorem tree_distances_order_invariant : forall lower vals o1 o2 dicts,
  set_enum vals o1 -> set_enum vals o2 ->
  wl2dst (unique_sorted lower o1) dicts = wl2dst (unique_sorted lower o2) dicts.
Proof.
  intros lower vals o1 o2 dicts H1 H2. rewrite (unique_sorted_order_invariant lower vals o1 o2 H1 H2). reflexivity.
Qed.

Lemma nth_map_seq : forall (A : Type) (f : nat -> A) n i d, i < n -> nth i (map f (seq 0 n)) d = f i.
Proof.
  intros A f n i d H. rewrite (nth_indep _ d (f 0)) by (rewrite map_length, seq_length; exact H).
  rewrite map_nth. rewrite seq_nth by exact H. reflexivity.
Qed.

Lemma wl2dst_cell : forall rows dicts i j, i < length dicts -> j < length dicts ->
  qmget (wl2dst rows dicts) i j =
  if i =? j then 0%Q
  else if i <? j then swadesh_score rows (nth i dicts []) (nth j dicts [])
  else swadesh_score rows (nth j dicts []) (nth i dicts []).
Proof.
  intros rows dicts i j Hi Hj. unfold qmget, wl2dst.
  rewrite (nth_map_seq _ _ _ i [] Hi). rewrite (nth_map_seq _ _ _ j 0%Q Hj). reflexivity.
Qed.

(* symmetric, zero diagonal: what UPGMA / Neighbor-Joining receive *)
Theorem wl2dst_symmetric : forall rows dicts i j, i < length dicts -> j < length dicts ->
  qmget (wl2dst rows dicts) i j = qmget (wl2dst rows dicts) j i /\
  qmget (wl2dst rows dicts) i i = 0%Q.
Proof.
  intros rows dicts i j Hi Hj. rewrite !wl2dst_cell by assumption. rewrite Nat.eqb_refl. split; [|reflexivity].
  destruct (i =? j) eqn:E.
  - apply Nat.eqb_eq in E. subst j. rewrite Nat.eqb_refl. reflexivity.
  - rewrite (Nat.eqb_sym j i), E. apply Nat.eqb_neq in E.
    destruct (i <? j) eqn:L.
    + apply Nat.ltb_lt in L. assert (L' : (j <? i) = false) by (apply Nat.ltb_ge; lia). rewrite L'. reflexivity.
    + apply Nat.ltb_ge in L. assert (L' : (j <? i) = true) by (apply Nat.ltb_lt; lia). rewrite L'. reflexivity.
Qed.

(* every entry is a proper distance: 0 <= d <= 1 *)
Lemma shared_not_missing : forall dA dB c, is_shared dA dB c = true -> is_missing dA dB c = false.
Proof.
  intros dA dB c. unfold is_shared, is_missing.
  destruct (dget str_eqb dA c); destruct (dget str_eqb dB c); intros H; try discriminate H; reflexivity.
Qed.

Lemma shared_plus_missing : forall dA dB l,
  count_if (is_shared dA dB) l + count_if (is_missing dA dB) l <= length l.
Proof.
  intros dA dB l. unfold count_if. induction l as [|c t IH]; cbn [filter length]; [lia|].
  destruct (is_shared dA dB c) eqn:S.
  - rewrite (shared_not_missing _ _ _ S). cbn [length]. lia.
  - destruct (is_missing dA dB c); cbn [length]; lia.
Qed.

Theorem swadesh_score_range : forall rows dA dB,
  (0 <= swadesh_score rows dA dB)%Q /\ (swadesh_score rows dA dB <= 1)%Q.
Proof.
  intros rows dA dB. unfold swadesh_score.
  pose proof (shared_plus_missing dA dB rows) as H.
  set (s := count_if (is_shared dA dB) rows) in *. set (m := count_if (is_missing dA dB) rows) in *.
  destruct (length rows - m) as [|k] eqn:D.
  - split; [discriminate|apply Qle_refl].
  - assert (Hs : s <= S k) by lia.
    unfold Qle, Qminus, Qplus, Qopp. cbn [Qnum Qden]. split.
    + rewrite Z.mul_1_r, Z.mul_1_l, Z.mul_0_l.
      assert (Z.of_nat s <= Z.pos (Pos.of_nat (S k)))%Z by (rewrite <- (Nat2Pos.id (S k)) in Hs by discriminate; lia).
      lia.
    + rewrite !Z.mul_1_r, Z.mul_1_l. rewrite Pos2Z.inj_mul. nia.
Qed.
