(* SortX - a stable sort by key (what Python's [sorted(l, key=...)] computes),
   its basic facts, and the uniqueness lemma the order-independence theorems of
   C18 rest on:

     sort_unique : if [leb] is a total order on keys and [key] is injective on
       the elements, any two permutations of a list sort to the same list.

   Generic in the element type, the key type and the order. *)
From Coq Require Import List Bool Arith Lia Permutation Sorted ZArith.
Import ListNotations.

Set Implicit Arguments.

(* ------------------------------------------------------------------ *)
(* orders given by a boolean function *)

Definition total {K} (leb : K -> K -> bool) : Prop := forall a b, leb a b = true \/ leb b a = true.
Definition transitive {K} (leb : K -> K -> bool) : Prop :=
  forall a b c, leb a b = true -> leb b c = true -> leb a c = true.
Definition antisymmetric {K} (leb : K -> K -> bool) : Prop :=
  forall a b, leb a b = true -> leb b a = true -> a = b.

Record total_order {K} (leb : K -> K -> bool) : Prop := {
  to_total : total leb;
  to_trans : transitive leb;
  to_antisym : antisymmetric leb
}.

(* ------------------------------------------------------------------ *)
(* the sort *)

Section Sort.
  Variables (A K : Type) (key : A -> K) (leb : K -> K -> bool).

  (* x goes in front of the first element whose key is not smaller: elements with
     equal keys keep their original relative order (x stood before all of l) *)
  Fixpoint insert (x : A) (l : list A) : list A :=
    match l with
    | [] => [x]
    | y :: t => if leb (key x) (key y) then x :: y :: t else y :: insert x t
    end.

  Fixpoint sort_by (l : list A) : list A :=
    match l with
    | [] => []
    | x :: t => insert x (sort_by t)
    end.

  Definition le_el (a b : A) : Prop := leb (key a) (key b) = true.

  Lemma insert_perm : forall x l, Permutation (insert x l) (x :: l).
  Proof.
    intros x l. induction l as [|y t IH]; cbn [insert].
    - apply Permutation_refl.
    - destruct (leb (key x) (key y)).
      + apply Permutation_refl.
      + eapply perm_trans; [apply perm_skip; exact IH|apply perm_swap].
  Qed.

  Lemma sort_by_perm : forall l, Permutation (sort_by l) l.
  Proof.
    induction l as [|x t IH]; cbn [sort_by].
    - apply perm_nil.
    - eapply perm_trans; [apply insert_perm|apply perm_skip; exact IH].
  Qed.

  Lemma sort_by_length : forall l, length (sort_by l) = length l.
  Proof. intros l. apply Permutation_length, sort_by_perm. Qed.

  Lemma sort_by_in : forall l x, In x (sort_by l) <-> In x l.
  Proof.
    intros l x. split; apply Permutation_in; [apply sort_by_perm|apply Permutation_sym, sort_by_perm].
  Qed.

  Lemma insert_hdrel : forall a x l, le_el a x -> HdRel le_el a l -> HdRel le_el a (insert x l).
  Proof.
    intros a x l Hax Hl. destruct l as [|y t]; cbn [insert].
    - constructor; exact Hax.
    - destruct (leb (key x) (key y)); constructor.
      + exact Hax.
      + inversion Hl; assumption.
  Qed.

  Lemma insert_sorted : total leb -> forall x l, Sorted le_el l -> Sorted le_el (insert x l).
  Proof.
    intros T x l. induction l as [|y t IH]; intros Hs; cbn [insert].
    - constructor; constructor.
    - destruct (leb (key x) (key y)) eqn:E.
      + constructor; [exact Hs|constructor; exact E].
      + inversion Hs as [|y' t' Ht Hhd]; subst.
        constructor; [apply IH; exact Ht|].
        apply insert_hdrel; [|exact Hhd].
        destruct (T (key x) (key y)) as [H|H]; [rewrite H in E; discriminate|exact H].
  Qed.

  Lemma sort_by_sorted : total leb -> forall l, Sorted le_el (sort_by l).
  Proof.
    intros T. induction l as [|x t IH]; cbn [sort_by]; [constructor|apply insert_sorted; assumption].
  Qed.

  Lemma sort_by_strongly_sorted :
    total leb -> transitive leb -> forall l, StronglySorted le_el (sort_by l).
  Proof.
    intros T Tr l. apply Sorted_StronglySorted.
    - intros a b c Hab Hbc. exact (Tr _ _ _ Hab Hbc).
    - apply sort_by_sorted; exact T.
  Qed.

  (* two sorted lists with the same elements are equal when the order is
     antisymmetric on those elements *)
  Lemma sorted_perm_eq :
    forall l1 l2,
      StronglySorted le_el l1 -> StronglySorted le_el l2 -> Permutation l1 l2 ->
      (forall a b, In a l1 -> In b l1 -> le_el a b -> le_el b a -> a = b) ->
      l1 = l2.
  Proof.
    induction l1 as [|a t1 IH]; intros l2 S1 S2 P AS.
    - apply Permutation_nil in P. symmetry; exact P.
    - destruct l2 as [|b t2]; [apply Permutation_sym, Permutation_nil in P; discriminate|].
      inversion S1 as [|a' t1' St1 Fa]; subst. inversion S2 as [|b' t2' St2 Fb]; subst.
      assert (E : a = b).
      { assert (Ia : In a (b :: t2)) by (eapply Permutation_in; [exact P|left; reflexivity]).
        assert (Ib : In b (a :: t1)) by (eapply Permutation_in; [apply Permutation_sym; exact P|left; reflexivity]).
        destruct Ia as [Ea|Ia]; [symmetry; exact Ea|].
        destruct Ib as [Eb|Ib]; [exact Eb|].
        apply AS; [left; reflexivity|right; exact Ib| |].
        - rewrite Forall_forall in Fa. apply Fa; exact Ib.
        - rewrite Forall_forall in Fb. apply Fb; exact Ia. }
      subst b. f_equal. apply IH; [exact St1|exact St2|eapply Permutation_cons_inv; exact P|].
      intros x y Hx Hy. apply AS; right; assumption.
  Qed.

  (* THE uniqueness lemma *)
  Theorem sort_unique :
    total_order leb ->
    forall l1 l2,
      (forall x y, In x l1 -> In y l1 -> key x = key y -> x = y) ->
      Permutation l1 l2 ->
      sort_by l1 = sort_by l2.
  Proof.
    intros [T Tr As] l1 l2 Inj P.
    apply sorted_perm_eq.
    - apply sort_by_strongly_sorted; assumption.
    - apply sort_by_strongly_sorted; assumption.
    - eapply perm_trans; [apply sort_by_perm|].
      eapply perm_trans; [exact P|apply Permutation_sym, sort_by_perm].
    - intros a b Ha Hb Hab Hba. apply Inj.
      + apply sort_by_in; exact Ha.
      + apply sort_by_in; exact Hb.
      + apply As; assumption.
  Qed.

  (* a sorted list with the right elements IS the result of the sort *)
  Theorem sort_by_characterised :
    total_order leb ->
    forall l res,
      (forall x y, In x l -> In y l -> key x = key y -> x = y) ->
      StronglySorted le_el res -> Permutation res l ->
      sort_by l = res.
  Proof.
    intros [T Tr As] l res Inj S P.
    apply sorted_perm_eq.
    - apply sort_by_strongly_sorted; assumption.
    - exact S.
    - eapply perm_trans; [apply sort_by_perm|apply Permutation_sym; exact P].
    - intros a b Ha Hb Hab Hba. apply Inj.
      + apply sort_by_in; exact Ha.
      + apply sort_by_in; exact Hb.
      + apply As; assumption.
  Qed.

  (* stability: the elements whose key is equivalent to k keep their order *)
  Definition equiv_key (k : K) (y : A) : bool := leb k (key y) && leb (key y) k.

  Lemma insert_filter_equiv :
    transitive leb ->
    forall k x l, filter (equiv_key k) (insert x l) = filter (equiv_key k) (x :: l).
  Proof.
    intros Tr k x l. induction l as [|y t IH]; cbn [insert]; [reflexivity|].
    destruct (leb (key x) (key y)) eqn:E; [reflexivity|].
    cbn [filter] in *. rewrite IH.
    destruct (equiv_key k x) eqn:Ex; [|reflexivity].
    destruct (equiv_key k y) eqn:Ey; [|reflexivity].
    exfalso. unfold equiv_key in Ex, Ey.
    apply andb_true_iff in Ex. apply andb_true_iff in Ey.
    destruct Ex as [_ Hxk]. destruct Ey as [Hky _].
    rewrite (Tr _ _ _ Hxk Hky) in E. discriminate.
  Qed.

  Theorem sort_by_stable :
    transitive leb -> forall k l, filter (equiv_key k) (sort_by l) = filter (equiv_key k) l.
  Proof.
    intros Tr k. induction l as [|x t IH]; cbn [sort_by]; [reflexivity|].
    rewrite insert_filter_equiv by exact Tr. cbn [filter]. rewrite IH. reflexivity.
  Qed.

  (* boolean test: strictly increasing keys (adjacent) *)
  Fixpoint strict_sortedb (l : list A) : bool :=
    match l with
    | [] => true
    | x :: t => match t with
                | [] => true
                | y :: _ => leb (key x) (key y) && negb (leb (key y) (key x)) && strict_sortedb t
                end
    end.

  Lemma strict_sortedb_cons : forall x y t,
    strict_sortedb (x :: y :: t) = leb (key x) (key y) && negb (leb (key y) (key x)) && strict_sortedb (y :: t).
  Proof. reflexivity. Qed.

  Lemma strict_sortedb_sorted : forall l, strict_sortedb l = true -> Sorted le_el l.
  Proof.
    induction l as [|x t IH]; intros H; [constructor|].
    destruct t as [|y t'].
    - constructor; constructor.
    - rewrite strict_sortedb_cons in H. apply andb_true_iff in H. destruct H as [H Ht].
      apply andb_true_iff in H. destruct H as [Hxy _].
      constructor; [apply IH; exact Ht|constructor; exact Hxy].
  Qed.

  (* strictly below every later element *)
  Lemma strict_sortedb_head_strict :
    transitive leb ->
    forall l x, strict_sortedb (x :: l) = true ->
      forall y, In y l -> leb (key x) (key y) = true /\ leb (key y) (key x) = false.
  Proof.
    intros Tr. induction l as [|z t IH]; intros x H y Hy; [destruct Hy|].
    rewrite strict_sortedb_cons in H. apply andb_true_iff in H. destruct H as [H Ht].
    apply andb_true_iff in H. destruct H as [Hxz Hzx]. apply negb_true_iff in Hzx.
    destruct Hy as [->|Hy]; [split; assumption|].
    destruct (IH z Ht y Hy) as [Hzy Hyz]. split.
    - exact (Tr _ _ _ Hxz Hzy).
    - destruct (leb (key y) (key x)) eqn:E; [|reflexivity].
      rewrite (Tr _ _ _ Hzy E) in Hzx. discriminate.
  Qed.

  Lemma strict_sortedb_tail : forall x l, strict_sortedb (x :: l) = true -> strict_sortedb l = true.
  Proof.
    intros x l H. destruct l as [|y t]; [reflexivity|].
    rewrite strict_sortedb_cons in H. apply andb_true_iff in H. destruct H as [_ Ht]. exact Ht.
  Qed.

  Lemma strict_sortedb_nodup :
    transitive leb -> (forall k, leb k k = true) -> forall l, strict_sortedb l = true -> NoDup l.
  Proof.
    intros Tr Rf. induction l as [|x t IH]; intros H; constructor.
    - intros Hin. destruct (strict_sortedb_head_strict Tr _ _ H x Hin) as [_ Hf].
      rewrite Rf in Hf. discriminate.
    - apply IH. eapply strict_sortedb_tail; exact H.
  Qed.
End Sort.

(* ------------------------------------------------------------------ *)
(* concrete orders *)

(* Python compares strings by code point, lexicographically *)
Definition str := list Z.

Fixpoint str_leb (a b : str) : bool :=
  match a, b with
  | [], _ => true
  | _ :: _, [] => false
  | x :: a', y :: b' => (x <? y)%Z || ((x =? y)%Z && str_leb a' b')
  end.

Fixpoint str_eqb (a b : str) : bool :=
  match a, b with
  | [], [] => true
  | x :: a', y :: b' => (x =? y)%Z && str_eqb a' b'
  | _, _ => false
  end.

Lemma str_eqb_spec : forall a b, str_eqb a b = true <-> a = b.
Proof.
  induction a as [|x a IH]; destruct b as [|y b]; cbn [str_eqb]; try (split; intros H; [discriminate H|discriminate H]).
  - split; reflexivity.
  - rewrite andb_true_iff, Z.eqb_eq, IH. split; [intros [-> ->]; reflexivity|intros E; inversion E; auto].
Qed.

Lemma str_eqb_refl : forall a, str_eqb a a = true.
Proof. intros a. apply str_eqb_spec. reflexivity. Qed.

Lemma str_leb_total : total str_leb.
Proof.
  intros a. induction a as [|x a IH]; intros b; destruct b as [|y b]; cbn [str_leb]; auto.
  destruct (Z.ltb_spec x y) as [L|L]; [left; reflexivity|].
  destruct (Z.ltb_spec y x) as [L2|L2]; [right; reflexivity|].
  assert (E : x = y) by lia. subst y. rewrite Z.eqb_refl. cbn [orb andb]. apply IH.
Qed.

Lemma str_leb_trans : transitive str_leb.
Proof.
  intros a. induction a as [|x a IH]; intros b c Hab Hbc; [reflexivity|].
  destruct b as [|y b]; [discriminate Hab|]. destruct c as [|z c]; [discriminate Hbc|].
  cbn [str_leb] in *.
  apply orb_true_iff in Hab. apply orb_true_iff in Hbc. apply orb_true_iff.
  destruct Hab as [Hab|Hab]; destruct Hbc as [Hbc|Hbc].
  - left. apply Z.ltb_lt in Hab. apply Z.ltb_lt in Hbc. apply Z.ltb_lt. lia.
  - left. apply andb_true_iff in Hbc. destruct Hbc as [E _]. apply Z.eqb_eq in E. subst z. exact Hab.
  - left. apply andb_true_iff in Hab. destruct Hab as [E _]. apply Z.eqb_eq in E. subst y. exact Hbc.
  - right. apply andb_true_iff in Hab. apply andb_true_iff in Hbc.
    destruct Hab as [E1 H1]. destruct Hbc as [E2 H2]. apply Z.eqb_eq in E1. apply Z.eqb_eq in E2. subst.
    rewrite Z.eqb_refl. cbn [andb]. eapply IH; eassumption.
Qed.

Lemma str_leb_antisym : antisymmetric str_leb.
Proof.
  intros a. induction a as [|x a IH]; intros b Hab Hba; destruct b as [|y b]; try reflexivity; try discriminate.
  cbn [str_leb] in *.
  apply orb_true_iff in Hab. apply orb_true_iff in Hba.
  destruct Hab as [Hab|Hab]; destruct Hba as [Hba|Hba].
  - apply Z.ltb_lt in Hab. apply Z.ltb_lt in Hba. lia.
  - apply andb_true_iff in Hba. destruct Hba as [E _]. apply Z.eqb_eq in E. apply Z.ltb_lt in Hab. lia.
  - apply andb_true_iff in Hab. destruct Hab as [E _]. apply Z.eqb_eq in E. apply Z.ltb_lt in Hba. lia.
  - apply andb_true_iff in Hab. apply andb_true_iff in Hba.
    destruct Hab as [E1 H1]. destruct Hba as [_ H2]. apply Z.eqb_eq in E1. subst. f_equal. apply IH; assumption.
Qed.

Lemma str_leb_order : total_order str_leb.
Proof. constructor; [apply str_leb_total|apply str_leb_trans|apply str_leb_antisym]. Qed.

Lemma str_leb_refl : forall a, str_leb a a = true.
Proof. intros a. destruct (str_leb_total a a); assumption. Qed.

(* Python compares tuples at the first position where they differ *)
Section PairOrder.
  Variables (K1 K2 : Type) (eqb1 : K1 -> K1 -> bool) (le1 : K1 -> K1 -> bool) (le2 : K2 -> K2 -> bool).
  Hypothesis eqb1_spec : forall a b, eqb1 a b = true <-> a = b.
  Hypothesis O1 : total_order le1.
  Hypothesis O2 : total_order le2.

  Definition pair_leb (p q : K1 * K2) : bool :=
    if eqb1 (fst p) (fst q) then le2 (snd p) (snd q) else le1 (fst p) (fst q).

  Lemma pair_leb_total : total pair_leb.
  Proof.
    intros [a1 a2] [b1 b2]. unfold pair_leb. cbn [fst snd].
    destruct (eqb1 a1 b1) eqn:E.
    - apply eqb1_spec in E. subst b1.
      assert (E' : eqb1 a1 a1 = true) by (apply eqb1_spec; reflexivity). rewrite E'.
      apply (to_total O2).
    - destruct (eqb1 b1 a1) eqn:E'.
      + apply eqb1_spec in E'. subst b1.
        assert (X : eqb1 a1 a1 = true) by (apply eqb1_spec; reflexivity). rewrite X in E. discriminate.
      + apply (to_total O1).
  Qed.

  Lemma pair_leb_antisym : antisymmetric pair_leb.
  Proof.
    intros [a1 a2] [b1 b2]. unfold pair_leb. cbn [fst snd]. intros H1 H2.
    destruct (eqb1 a1 b1) eqn:E.
    - apply eqb1_spec in E. subst b1.
      assert (E' : eqb1 a1 a1 = true) by (apply eqb1_spec; reflexivity). rewrite E' in H2.
      f_equal. apply (to_antisym O2); assumption.
    - destruct (eqb1 b1 a1) eqn:E'.
      + apply eqb1_spec in E'. subst b1.
        assert (X : eqb1 a1 a1 = true) by (apply eqb1_spec; reflexivity). rewrite X in E. discriminate.
      + assert (X : a1 = b1) by (apply (to_antisym O1); assumption). subst b1.
        assert (Y : eqb1 a1 a1 = true) by (apply eqb1_spec; reflexivity). rewrite Y in E. discriminate.
  Qed.

  Lemma eqb1_false_ne : forall a b, eqb1 a b = false -> a <> b.
  Proof.
    intros a b E X. subst b.
    assert (Y : eqb1 a a = true) by (apply eqb1_spec; reflexivity). rewrite Y in E. discriminate.
  Qed.

  Lemma eqb1_refl : forall a, eqb1 a a = true.
  Proof. intros a. apply eqb1_spec. reflexivity. Qed.

  Lemma pair_leb_trans : transitive pair_leb.
  Proof.
    intros [a1 a2] [b1 b2] [c1 c2]. unfold pair_leb. cbn [fst snd]. intros H1 H2.
    destruct (eqb1 a1 b1) eqn:Eab.
    - apply eqb1_spec in Eab. subst b1.
      destruct (eqb1 a1 c1) eqn:Eac.
      + exact (to_trans O2 _ _ _ H1 H2).
      + exact H2.
    - destruct (eqb1 b1 c1) eqn:Ebc.
      + apply eqb1_spec in Ebc. subst c1. rewrite Eab. exact H1.
      + destruct (eqb1 a1 c1) eqn:Eac.
        * apply eqb1_spec in Eac. subst c1.
          exfalso. apply (eqb1_false_ne Eab). apply (to_antisym O1); assumption.
        * exact (to_trans O1 _ _ _ H1 H2).
  Qed.

  Lemma pair_leb_order : total_order pair_leb.
  Proof. constructor; [apply pair_leb_total|apply pair_leb_trans|apply pair_leb_antisym]. Qed.
End PairOrder.

(* the key order of [sorted(..., key=lambda x: (x.lower(), x))] *)
Definition key_leb : str * str -> str * str -> bool := pair_leb str_eqb str_leb str_leb.

Lemma key_leb_order : total_order key_leb.
Proof. apply pair_leb_order; [exact str_eqb_spec|exact str_leb_order|exact str_leb_order]. Qed.

(* ------------------------------------------------------------------ *)
(* Python sets as duplicate-free enumerations in an arbitrary order *)

Definition set_enum {A} (vals order : list A) : Prop :=
  NoDup order /\ forall x, In x order <-> In x vals.

Lemma set_enum_perm : forall A (vals o1 o2 : list A),
  set_enum vals o1 -> set_enum vals o2 -> Permutation o1 o2.
Proof.
  intros A vals o1 o2 [N1 H1] [N2 H2]. apply NoDup_Permutation; [exact N1|exact N2|].
  intros x. rewrite H1, H2. reflexivity.
Qed.

Lemma set_enum_same : forall A (v1 v2 o : list A),
  (forall x, In x v1 <-> In x v2) -> set_enum v1 o -> set_enum v2 o.
Proof.
  intros A v1 v2 o H [N Ho]. split; [exact N|]. intros x. rewrite Ho. apply H.
Qed.

(* sorting any enumeration of a set with an injective key: the enumeration order is irrelevant *)
Theorem sort_set_invariant :
  forall (A K : Type) (key : A -> K) (leb : K -> K -> bool),
    total_order leb -> (forall x y, key x = key y -> x = y) ->
    forall vals o1 o2, set_enum vals o1 -> set_enum vals o2 ->
      sort_by key leb o1 = sort_by key leb o2.
Proof.
  intros A K key leb O Inj vals o1 o2 H1 H2.
  apply sort_unique; [exact O| |eapply set_enum_perm; eassumption].
  intros x y _ _. apply Inj.
Qed.

(* boolean membership / set-equality tests over strings *)
Definition memb (x : str) (l : list str) : bool := existsb (str_eqb x) l.

Lemma memb_spec : forall x l, memb x l = true <-> In x l.
Proof.
  intros x l. unfold memb. rewrite existsb_exists. split.
  - intros [y [Hy E]]. apply str_eqb_spec in E. subst y. exact Hy.
  - intros H. exists x. split; [exact H|apply str_eqb_refl].
Qed.

Definition inclb (l1 l2 : list str) : bool := forallb (fun x => memb x l2) l1.

Lemma inclb_spec : forall l1 l2, inclb l1 l2 = true <-> (forall x, In x l1 -> In x l2).
Proof.
  intros l1 l2. unfold inclb. rewrite forallb_forall. split.
  - intros H x Hx. apply memb_spec. apply H; exact Hx.
  - intros H x Hx. apply memb_spec. apply H; exact Hx.
Qed.

Fixpoint nodupb (l : list str) : bool :=
  match l with
  | [] => true
  | x :: t => negb (memb x t) && nodupb t
  end.

Lemma nodupb_spec : forall l, nodupb l = true <-> NoDup l.
Proof.
  induction l as [|x t IH]; cbn [nodupb].
  - split; [constructor|reflexivity].
  - rewrite andb_true_iff, negb_true_iff, IH. split.
    + intros [Hm Ht]. constructor; [|exact Ht]. intros Hin. apply memb_spec in Hin. rewrite Hin in Hm. discriminate.
    + intros H. inversion H as [|x' t' Hn Ht]; subst. split; [|exact Ht].
      destruct (memb x t) eqn:E; [|reflexivity]. apply memb_spec in E. contradiction.
Qed.

(* [order] is an enumeration of the set of [vals] *)
Definition set_enumb (vals order : list str) : bool :=
  nodupb order && inclb order vals && inclb vals order.

Lemma set_enumb_spec : forall vals order, set_enumb vals order = true <-> set_enum vals order.
Proof.
  intros vals order. unfold set_enumb, set_enum.
  rewrite !andb_true_iff, nodupb_spec, !inclb_spec. split.
  - intros [[N I1] I2]. split; [exact N|]. intros x. split; [apply I1|apply I2].
  - intros [N H]. split; [split; [exact N|]|]; intros x Hx; apply H; exact Hx.
Qed.
