(* DeterminismExec - correspondence cases for C18: the harness renders what the
   implementation computed in a subprocess with a given PYTHONHASHSEED (inputs, the
   actual iteration orders of the sets involved, the kernel results) as record
   literals; [*_case_code] compares with the model and runs the verified checkers
   on the implementation's results.

   bit 0  model result differs from the implementation result
   bit 1.. a verified checker rejects the implementation's result (see each record)
   bit 5  an iteration order supplied by the harness is not an enumeration of the
          set the model expects (the tie itself is broken) *)
From Coq Require Import List Bool Arith ZArith.
From LV Require Import Common.Cases Runtime.SortX Runtime.Determinism Runtime.DeterminismProofs.
Import ListNotations.

(* compact literals (elaborating a literal costs far more than evaluating it): numbers are
   written as binary Z numerals, every distinct string of a case once, in a table *)
Definition N_ (z : Z) : nat := Z.to_nat z.
Definition NL_ (l : list Z) : list nat := map Z.to_nat l.
Definition tab_get (tab : list str) (z : Z) : str := nth (Z.to_nat z) tab [].

Definition strs_eqb : list str -> list str -> bool := list_eqb str_eqb.
Definition nats_eqb : list nat -> list nat -> bool := list_eqb Nat.eqb.
Definition sdict_eqb : list (str * list nat) -> list (str * list nat) -> bool :=
  list_eqb (pair_eqb str_eqb nats_eqb).

(* ------------------------------------------------------------------ *)
Record wl_case := {
  wc_lower : list (str * str);                     (* str.lower of every name *)
  wc_data : list entry;                            (* id, concept, language in insertion order *)
  wc_row_order : list str;                         (* list(set(concepts)) in the subprocess *)
  wc_col_order : list str;                         (* list(set(languages)) in the subprocess *)
  wc_rows : list str;                              (* implementation: wl.rows *)
  wc_cols : list str;                              (* wl.cols *)
  wc_dict : list (str * list (str * list nat));    (* wl._dict, non-empty cells *)
  wc_idx : list (str * list nat);                  (* wl._idx *)
  wc_array : list (list nat);                      (* wl._array *)
  wc_coldicts : list (list (str * list nat));      (* get_dict(col=t) for t in cols *)
  wc_collists : list (list nat);                   (* get_list(col=t, flat=True) *)
  wc_concepts : list (str * list nat)              (* (concept, indices) as yielded by LexStat._get_matrices *)
}.

Definition wl_case_code (c : wl_case) : nat :=
  let lower := lower_tab (wc_lower c) in
  let w := wl_build lower (wc_data c) (wc_row_order c) (wc_col_order c) in
  let js := seq 0 (length (w_cols w)) in
  bit 0 (strs_eqb (w_rows w) (wc_rows c) && strs_eqb (w_cols w) (wc_cols c)
         && list_eqb (pair_eqb str_eqb sdict_eqb) (w_dict w) (wc_dict c)
         && sdict_eqb (w_idx w) (wc_idx c)
         && list_eqb nats_eqb (w_array w) (wc_array c)
         && list_eqb sdict_eqb (map (get_dict_col (wc_data c) w) js) (wc_coldicts c)
         && list_eqb nats_eqb (map (col_ids w) js) (wc_collists c)
         && sdict_eqb (concept_order w) (wc_concepts c))
  + bit 1 (canon_keyb lower (row_vals (wc_data c)) (wc_rows c)
           && canon_keyb lower (col_vals (wc_data c)) (wc_cols c))
  + bit 2 (canon_idb (row_vals (wc_data c)) (map fst (wc_concepts c)))
  + bit 5 (set_enumb (row_vals (wc_data c)) (wc_row_order c)
           && set_enumb (col_vals (wc_data c)) (wc_col_order c)).

(* ------------------------------------------------------------------ *)
Record lex_case := {
  lc_cols : list str;
  lc_words : list (list (list str));               (* per taxon: get_list(col=t, entry=numbers, flat=True) *)
  lc_chars_order : list str;                       (* iteration order of the set self.chars *)
  lc_rchars_order : list str;                      (* iteration order of the set of suffixes *)
  lc_fkeys : list (list str);                      (* implementation: list(freqs[t]) *)
  lc_chars : list str;                             (* implementation: lex.chars *)
  lc_rchars : list str;                            (* implementation: lex.rchars *)
  lc_dicts : list (list (str * list nat));         (* get_dict(col=t) *)
  lc_segs : list (nat * str);                      (* ''.join(segments) per id *)
  lc_trans : list (nat * str);                     (* transcription per id *)
  lc_collists : list (list nat);                   (* get_list(col=t, flat=True) *)
  lc_dups : list (nat * bool);                     (* implementation: duplicates column, taxon by taxon *)
  lc_inter : list ((nat * nat) * list str);        (* list(set(dictA).intersection(dictB)) for i < j *)
  lc_pairs : list ((nat * nat) * list (nat * nat));(* implementation: lex.pairs *)
  lc_concept_of : list (nat * str)                 (* concept per id *)
}.

Fixpoint sorted_leb (l : list str) : bool :=
  match l with
  | [] => true
  | x :: t => match t with [] => true | y :: _ => str_leb x y && sorted_leb t end
  end.

Definition pairs_eqb : list ((nat * nat) * list (nat * nat)) -> list ((nat * nat) * list (nat * nat)) -> bool :=
  list_eqb (pair_eqb nat_pair_eqb (list_eqb nat_pair_eqb)).

Definition lex_case_code (c : lex_case) : nat :=
  let width := length (lc_cols c) in
  let inp := {| pi_cols := lc_cols c; pi_dicts := lc_dicts c; pi_segs := lc_segs c; pi_dups := lc_dups c |} in
  let cvals := chars_vals (lc_words c) in
  let mdups := flat_map (fun ids => dups_of (lookup_str (lc_trans c)) ids []) (lc_collists c) in
  bit 0 (list_eqb strs_eqb (map freq_keys (lc_words c)) (lc_fkeys c)
         && strs_eqb (lex_chars width (lc_chars_order c)) (lc_chars c)
         && strs_eqb (lex_rchars (lc_rchars_order c)) (lc_rchars c)
         && list_eqb (pair_eqb Nat.eqb Bool.eqb) mdups (lc_dups c)
         && pairs_eqb (lex_pairs inp (lc_inter c)) (lc_pairs c))
  + bit 1 (canon_idb cvals (firstn (length (lc_chars c) - width) (lc_chars c)) && nodupb (lc_chars c))
  + bit 2 (canon_idb (map after_dot cvals) (lc_rchars c))
  + bit 3 (forallb (fun kv => let '(ij, l) := kv in
                      (fst ij =? snd ij)
                      || sorted_leb (map (fun ab => lookup_str (lc_concept_of c) (fst ab)) l))
                   (lc_pairs c))
  + bit 5 (set_enumb cvals (lc_chars_order c)
           && set_enumb (map after_dot (lc_chars_order c)) (lc_rchars_order c)
           && forallb (fun kv => let '(ij, o) := kv in
                        set_enumb (inter_vals (nth (fst ij) (lc_dicts c) []) (nth (snd ij) (lc_dicts c) [])) o)
                      (lc_inter c)).

(* ------------------------------------------------------------------ *)
Record renum_case := {
  rn_vals : list str;                              (* str(wl[k, source]) for k in wl *)
  rn_order : list str;                             (* list(set(...)) in the subprocess *)
  rn_sources : list str;                           (* implementation: keys of the converter *)
  rn_col : list nat                                (* implementation: the new column *)
}.

Definition renum_case_code (c : renum_case) : nat :=
  bit 0 (nats_eqb (renumber_col (rn_vals c) (rn_order c)) (rn_col c)
         && strs_eqb (renumber_sources (rn_order c)) (rn_sources c))
  + bit 1 (canon_idb (rn_vals c) (rn_sources c))
  + bit 5 (set_enumb (rn_vals c) (rn_order c)).

(* ------------------------------------------------------------------ *)
(* scorer matrices: every distinct float is given an integer name by the harness *)
Record scorer_case := {
  sc_chars : list str;                             (* lex.chars *)
  sc_fkeys : list (list str);                      (* list(freqs[t]) per taxon *)
  sc_b : list (list Z);                            (* bscorer.matrix *)
  sc_c : list (list Z)                             (* cscorer.matrix after get_scorer *)
}.

Definition zmat_eqb : list (list Z) -> list (list Z) -> bool := list_eqb (list_eqb Z.eqb).

Definition scorer_case_code (c : scorer_case) : nat :=
  let n := length (sc_chars c) in
  bit 0 (zmat_eqb (assemble n (sc_b c)
                     (with_values (mget 0%Z (sc_c c)) (scorer_write_indices (sc_chars c) (sc_fkeys c))))
                  (sc_c c)
         && zmat_eqb (assemble n (zeros 0%Z n) (with_values (mget 0%Z (sc_b c)) (score_dict_indices n)))
                     (sc_b c))
  + bit 1 (squareb n (sc_c c) && symmetricb 0%Z Z.eqb n (sc_c c))
  + bit 2 (squareb n (sc_b c) && symmetricb 0%Z Z.eqb n (sc_b c)).

(* what an accepted scorer case means: the language-specific scorer is symmetric *)
Theorem scorer_check_sound : forall c,
  Nat.land (scorer_case_code c) 2 = 0 -> symmetric 0%Z (sc_c c).
Proof.
  intros c H. unfold scorer_case_code in H.
  destruct (squareb (length (sc_chars c)) (sc_c c) && symmetricb 0%Z Z.eqb (length (sc_chars c)) (sc_c c)) eqn:E.
  - apply andb_true_iff in E. destruct E as [Sq Sy].
    apply (symmetricb_sound 0%Z Z.eqb Z.eqb_eq (length (sc_chars c))); [apply squareb_spec; exact Sq|exact Sy].
  - exfalso. unfold bit in H.
    destruct (zmat_eqb _ _ && zmat_eqb _ _); destruct (squareb _ (sc_b c) && _); cbn in H; discriminate H.
Qed.
