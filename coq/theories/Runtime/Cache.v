(* C20 - model of the start-up path of lingpy that goes through the per-user cache.

   Anchors (read from /repo/src/lingpy as it is now):
     cache.py           path / load / dump                      -> [path] [load] [dump]
     data/derive.py     compile_model (298-434), compile_dvt     -> [compile_model] [compile_dvt]
     data/model.py      Model.__init__ (107-147), load_dvt       -> [model_init] [load_dvt]
     settings.py        the module-level calls, in order         -> [import_run] over a [list step]
                        (the list itself is regenerated from settings.py into LVGen.SettingsModels)

   What the model is generic in (Section variables, no hypotheses in this file):
     value, content     the type of unpickled objects / of file contents
     enc, dec           pickle.dump / pickle.load seen as functions (dec c = None: load raises)
     conv_of m          the dictionary _import_sound_classes builds from data/models/m/converter
     scorer_of m        the ScoreDict read_scorer builds from data/models/m/matrix
     dvt_of d           the triple compile_dvt builds from data/models/d/{diacritics,vowels,tones}

   The cache directory is a flag (does it exist) plus a map  file name -> content.
   Every function returns  Ok (new state, events in chronological order, value)  or
   Raise (a Python exception leaves the function) or Outside (the call leaves the fragment that
   is modelled: compile_model for a directory with a `scorer` tree but no `matrix` writes into
   the package data; compile_dvt with a custom directory reads outside the package).
   This file contains the model only. *)
From Coq Require Import String List Bool.
Import ListNotations.
Local Open Scope string_scope.
Set Implicit Arguments.

(* one module-level call of settings.py *)
Inductive step := LoadDvt (path : string) | NewModel (name : string).

(* data/models: directory name -> names of the files present *)
Definition dirs := list (string * list string).

Fixpoint has_file (D : dirs) (d f : string) : bool :=
  match D with
  | [] => false
  | (d', fs) :: tl => if String.eqb d d' then existsb (String.eqb f) fs else has_file tl d f
  end.

(* settings.rc(schema=v): the first branch of the if/elif chain whose list of accepted spellings
   contains v decides which calls are made; no branch, no call.  A session = `import lingpy`
   followed by any number of such switches. *)
Fixpoint schema_seq (T : list (list string * list step)) (v : string) : list step :=
  match T with
  | [] => []
  | (names, seq) :: tl => if existsb (String.eqb v) names then seq else schema_seq tl v
  end.
Definition session_seq (T : list (list string * list step)) (imp : list step) (vs : list string) : list step :=
  (imp ++ flat_map (schema_seq T) vs)%list.

Inductive result (A : Type) : Type :=
| Ok (a : A)
| Raise
| Outside.
Arguments Ok {A} a.
Arguments Raise {A}.
Arguments Outside {A}.

Inductive outcome := ONotFound | OUndecodable | OLoaded.

Inductive event :=
| EDvt (path : string)            (* load_dvt(path) entered *)
| EModel (name : string)          (* Model.__init__(name) entered *)
| ELoad (n : string) (o : outcome)(* cache.load(n) returned / raised *)
| EDump (n : string)              (* cache.dump(_, n) *)
| ECompileModel (name : string)   (* compile_model(name) entered *)
| ECompileDvt (path : string).    (* compile_dvt(path) entered *)

(* cache.path: d.joinpath(pathlib.Path(filename).name + '.pkl'); the names used here contain no '/' *)
Definition path (n : string) : string := n ++ ".pkl".

Definition is_el (p : string) : bool := String.eqb p "el" || String.eqb p "evolaemp".
(* load_dvt / compile_dvt: the cache entry and the data directory selected by `path` *)
Definition dvt_fn (p : string) : string := if is_el p then "dvt_el" else "dvt".
Definition dvt_dir (p : string) : string :=
  if String.eqb p "" then "dvt" else if is_el p then "dvt_el" else p.
Definition dvt_path_known (p : string) : bool := String.eqb p "" || is_el p.

Section Model.
  Variables value content : Type.
  Variable enc : value -> content.
  Variable dec : content -> option value.
  Variables conv_of scorer_of dvt_of : string -> value.

  Record cstate := { dir_ok : bool; files : string -> option content }.

  (* what open(...,'rb') finds: nothing at all when the directory does not exist *)
  Definition look (s : cstate) (f : string) : option content :=
    if dir_ok s then files s f else None.

  Inductive lres := NotFound | Undecodable | Loaded (v : value).

  Definition load (s : cstate) (n : string) : lres :=
    match look s (path n) with
    | None => NotFound
    | Some c => match dec c with None => Undecodable | Some v => Loaded v end
    end.

  Definition outcome_of (r : lres) : outcome :=
    match r with NotFound => ONotFound | Undecodable => OUndecodable | Loaded _ => OLoaded end.

  (* cache.dump: creates the directory when needed, then (over)writes the whole file *)
  Definition dump (s : cstate) (n : string) (v : value) : cstate :=
    {| dir_ok := true;
       files := fun f => if String.eqb f (path n) then Some (enc v) else look s f |}.

  (* derive.compile_model: converter first, then the scorer if a matrix file exists *)
  Definition compile_model (D : dirs) (m : string) (s : cstate) : result (cstate * list event) :=
    if has_file D m "converter" then
      let s1 := dump s (m ++ ".converter") (conv_of m) in
      let e1 := [ECompileModel m; EDump (m ++ ".converter")] in
      if has_file D m "matrix" then
        Ok (dump s1 (m ++ ".scorer") (scorer_of m), (e1 ++ [EDump (m ++ ".scorer")])%list)
      else if has_file D m "scorer" then Outside
      else Ok (s1, e1)
    else Raise.

  (* derive.compile_dvt *)
  Definition compile_dvt (D : dirs) (p : string) (s : cstate) : result (cstate * list event) :=
    if dvt_path_known p then
      if has_file D (dvt_dir p) "diacritics" && has_file D (dvt_dir p) "vowels"
         && has_file D (dvt_dir p) "tones"
      then Ok (dump s (dvt_fn p) (dvt_of (dvt_dir p)), [ECompileDvt p; EDump (dvt_fn p)])
      else Raise
    else Outside.

  (* the shape shared by model.py 112-117 and 193-197:
        try: x = cache.load(n)   except: <build>; x = cache.load(n)
     (a bare except: a missing file and an undecodable file take the same branch; an
     exception in <build> or in the second load propagates) *)
  Definition load_or_build (n : string) (build : cstate -> result (cstate * list event))
             (s : cstate) : result (cstate * list event * value) :=
    match load s n with
    | Loaded v => Ok (s, [ELoad n OLoaded], v)
    | r =>
      match build s with
      | Ok (s1, ev) =>
        match load s1 n with
        | Loaded v => Ok (s1, (ELoad n (outcome_of r) :: ev ++ [ELoad n OLoaded])%list, v)
        | _ => Raise
        end
      | Raise => Raise
      | Outside => Outside
      end
    end.

  Definition get_converter (D : dirs) (m : string) (s : cstate)
    : result (cstate * list event * value) :=
    load_or_build (m ++ ".converter") (compile_model D m) s.

  (* model.py 119-129: the matrix file wins; the cached scorer is read only when a file
     `scorer.bin` exists and no matrix does, and then only FileNotFoundError is caught *)
  Definition get_scorer (D : dirs) (m : string) (s : cstate) : result (list event * option value) :=
    if has_file D m "matrix" then Ok ([], Some (scorer_of m))
    else if has_file D m "scorer.bin" then
      match load s (m ++ ".scorer") with
      | Loaded v => Ok ([ELoad (m ++ ".scorer") OLoaded], Some v)
      | NotFound => Ok ([ELoad (m ++ ".scorer") ONotFound], None)
      | Undecodable => Raise
      end
    else Ok ([], None).

  (* what a start hands to the rest of the library *)
  Inductive sval :=
  | VDvt (v : value)
  | VModel (converter : value) (scorer : option value).

  Definition model_init (D : dirs) (m : string) (s : cstate) : result (cstate * list event * sval) :=
    match get_converter D m s with
    | Ok (s1, e1, cv) =>
      match get_scorer D m s1 with
      | Ok (e2, sc) =>
        if has_file D m "INFO" then Ok (s1, (EModel m :: e1 ++ e2)%list, VModel cv sc) else Raise
      | Raise => Raise
      | Outside => Outside
      end
    | Raise => Raise
    | Outside => Outside
    end.

  (* model.py 183-199 *)
  Definition load_dvt (D : dirs) (p : string) (s : cstate) : result (cstate * list event * sval) :=
    match load_or_build (dvt_fn p) (compile_dvt D p) s with
    | Ok (s1, ev, v) => Ok (s1, EDvt p :: ev, VDvt v)
    | Raise => Raise
    | Outside => Outside
    end.

  Definition run_step (D : dirs) (st : step) (s : cstate) : result (cstate * list event * sval) :=
    match st with
    | LoadDvt p => load_dvt D p s
    | NewModel m => model_init D m s
    end.

  (* `import lingpy`: the module-level calls of settings.py in order *)
  Fixpoint import_run (D : dirs) (seq : list step) (s : cstate)
    : result (cstate * list event * list sval) :=
    match seq with
    | [] => Ok (s, [], [])
    | st :: tl =>
      match run_step D st s with
      | Ok (s1, e1, v) =>
        match import_run D tl s1 with
        | Ok (s2, e2, vs) => Ok (s2, (e1 ++ e2)%list, v :: vs)
        | Raise => Raise
        | Outside => Outside
        end
      | Raise => Raise
      | Outside => Outside
      end
    end.

  (* ---- vocabulary of the theorems ------------------------------------------------ *)

  (* the value a start must deliver for a step: built from the data files alone *)
  Definition ref_val (D : dirs) (st : step) : sval :=
    match st with
    | LoadDvt p => VDvt (dvt_of (dvt_dir p))
    | NewModel m => VModel (conv_of m) (if has_file D m "matrix" then Some (scorer_of m) else None)
    end.

  (* the cache entry a step consults, and the object that belongs there *)
  Definition entry_of (st : step) : string :=
    match st with LoadDvt p => dvt_fn p | NewModel m => m ++ ".converter" end.
  Definition entry_val (st : step) : value :=
    match st with LoadDvt p => dvt_of (dvt_dir p) | NewModel m => conv_of m end.

  (* Valid: the entry is there and unpickles to the right object *)
  Definition step_valid (s : cstate) (st : step) : Prop :=
    load s (entry_of st) = Loaded (entry_val st).
  Definition clean (seq : list step) (s : cstate) : Prop := Forall (step_valid s) seq.

  (* guards: exactly the situations in which the real code raises or leaves the modelled
     fragment whatever the cache holds *)
  Definition wf_step (D : dirs) (st : step) : bool :=
    match st with
    | LoadDvt p =>
      dvt_path_known p && has_file D (dvt_dir p) "diacritics" && has_file D (dvt_dir p) "vowels"
      && has_file D (dvt_dir p) "tones"
    | NewModel m =>
      has_file D m "converter" && has_file D m "INFO"
      && (has_file D m "matrix" || (negb (has_file D m "scorer") && negb (has_file D m "scorer.bin")))
    end.
  Definition wf_seq (D : dirs) (seq : list step) : bool := forallb (wf_step D) seq.

  (* the events of a start that finds everything in place *)
  Definition quiet_events (st : step) : list event :=
    match st with
    | LoadDvt p => [EDvt p; ELoad (dvt_fn p) OLoaded]
    | NewModel m => [EModel m; ELoad (m ++ ".converter") OLoaded]
    end.

  (* the calls that had to rebuild their entry, read off the trace; the files a call may write *)
  Definition rebuilds (ev : list event) : list step :=
    flat_map (fun e => match e with
                       | ECompileModel m => [NewModel m]
                       | ECompileDvt p => [LoadDvt p]
                       | _ => []
                       end) ev.
  Definition step_files (st : step) : list string :=
    match st with
    | LoadDvt p => [path (dvt_fn p)]
    | NewModel m => [path (m ++ ".converter"); path (m ++ ".scorer")]
    end.

  Definition is_compile (e : event) : bool :=
    match e with EDump _ | ECompileModel _ | ECompileDvt _ => true | _ => false end.

  (* the state with no cache directory at all, and the one with an empty directory *)
  Definition no_dir : cstate := {| dir_ok := false; files := fun _ => None |}.
  Definition empty_dir : cstate := {| dir_ok := true; files := fun _ => None |}.

  (* ---- damage --------------------------------------------------------------------- *)
  Variable cut : nat -> content -> content.       (* keep the first k bytes *)

  Inductive dmg :=
  | Delete (f : string)               (* remove the file named f *)
  | Cut (f : string) (k : nat)        (* truncate it to k bytes (k = 0: emptied) *)
  | RmDir.                            (* remove the whole directory *)

  Definition apply_dmg (s : cstate) (d : dmg) : cstate :=
    match d with
    | Delete f => {| dir_ok := dir_ok s;
                     files := fun g => if String.eqb g f then None else look s g |}
    | Cut f k => {| dir_ok := dir_ok s;
                    files := fun g => if String.eqb g f then option_map (cut k) (look s g)
                                      else look s g |}
    | RmDir => {| dir_ok := false; files := files s |}
    end.

  Definition apply_dmgs (s : cstate) (ds : list dmg) : cstate := fold_left apply_dmg ds s.

  (* any number of rounds, each: damage the cache, then start the library *)
  Fixpoint run_rounds (D : dirs) (seq : list step) (rounds : list (list dmg)) (s : cstate)
    : result (cstate * list (list event * list sval)) :=
    match rounds with
    | [] => Ok (s, [])
    | ds :: tl =>
      match import_run D seq (apply_dmgs s ds) with
      | Ok (s1, ev, vs) =>
        match run_rounds D seq tl s1 with
        | Ok (s2, rest) => Ok (s2, (ev, vs) :: rest)
        | Raise => Raise
        | Outside => Outside
        end
      | Raise => Raise
      | Outside => Outside
      end
    end.
End Model.

Arguments NotFound {value}.
Arguments Undecodable {value}.
