(* Determinism - executable model of the lingpy kernels through which the
   iteration order of a Python [set] (which depends on the interpreter's string
   hash seed) could reach a result (property C18).

   Conventions
   * a string is its list of code points ([str = list Z]); Python compares
     strings exactly like [str_leb];
   * a Python [dict] is an association list in insertion order;
   * a Python [set] never appears as such: every kernel that iterates over a set
     takes the ENUMERATION ORDER of that set as an explicit argument ([order],
     any duplicate-free list with the same elements, see [SortX.set_enum]).  The
     theorems (DeterminismProofs.v) say that the results do not depend on it;
   * [str.lower] is a function argument ([lower]); the executable instance is a
     table look-up supplied by the harness;
   * float scores never enter: the scorer assembly is generic in the value type.

   Model only - proofs are in DeterminismProofs.v. *)
From Coq Require Import List Bool Arith ZArith.
From LV Require Import Runtime.SortX.
Import ListNotations.

(* ------------------------------------------------------------------ *)
(* insertion-ordered dictionaries *)

Section Dict.
  Context {K V : Type}.
  Variable eqb : K -> K -> bool.

  Fixpoint dget (d : list (K * V)) (k : K) : option V :=
    match d with
    | [] => None
    | (k', v) :: t => if eqb k k' then Some v else dget t k
    end.

  (* d[k] = f(d.get(k)) : an existing key keeps its position, a new key goes last *)
  Fixpoint dupd (d : list (K * V)) (k : K) (f : option V -> V) : list (K * V) :=
    match d with
    | [] => [(k, f None)]
    | (k', v) :: t => if eqb k k' then (k', f (Some v)) :: t else (k', v) :: dupd t k f
    end.

  Definition dset (d : list (K * V)) (k : K) (v : V) : list (K * V) := dupd d k (fun _ => v).
End Dict.

Definition odef {V} (o : option (list V)) : list V := match o with Some l => l | None => [] end.

Definition id_str (x : str) : str := x.

Fixpoint index_of (x : str) (l : list str) : nat :=
  match l with
  | [] => 0
  | y :: t => if str_eqb x y then 0 else S (index_of x t)
  end.

(* ------------------------------------------------------------------ *)
(* K1  basic/parser.py: unique_sorted *)

Definition total_key (lower : str -> str) (x : str) : str * str := (lower x, x).

(* sorted(set(...), key=lambda x: (x.lower(), x)); [order] = iteration order of the set *)
Definition unique_sorted (lower : str -> str) (order : list str) : list str :=
  sort_by (total_key lower) key_leb order.

(* the version before commit 40bc478 (defect F10): key = lower only *)
Definition unique_sorted_lower (lower : str -> str) (order : list str) : list str :=
  sort_by lower str_leb order.

(* executable [lower]: a table from the harness (str.lower of every name that occurs) *)
Definition lower_tab (tab : list (str * str)) (s : str) : str :=
  match dget str_eqb tab s with Some l => l | None => s end.

(* ASCII-only lower, used by the in-Coq examples *)
Definition ascii_lower (s : str) : str :=
  map (fun c => if (65 <=? c)%Z && (c <=? 90)%Z then (c + 32)%Z else c) s.

(* ------------------------------------------------------------------ *)
(* K2  basic/parser.py: rows, cols, _dict, _idx, _array; wordlist.get_list / get_dict *)

Record entry := { e_id : nat; e_row : str; e_col : str }.

Definition row_vals (data : list entry) : list str := map e_row data.
Definition col_vals (data : list entry) : list str := map e_col data.

(* self._dict[row][col].append(key), over the data in insertion order *)
Definition wl_dict (data : list entry) : list (str * list (str * list nat)) :=
  fold_left (fun d e =>
    dupd str_eqb d (e_row e) (fun o =>
      dupd str_eqb (odef o) (e_col e) (fun o2 => odef o2 ++ [e_id e])))
    data [].

Definition maxlen (d : list (str * list nat)) : nat :=
  fold_right (fun p m => Nat.max (length (snd p)) m) 0 d.

(* the rows of _array contributed by one concept: one per synonym rank, 0 = no word *)
Definition array_rows_of (cols : list str) (d : list (str * list nat)) : list (list nat) :=
  map (fun i => map (fun c => match dget str_eqb d c with
                              | Some l => nth i l 0
                              | None => 0
                              end) cols)
      (seq 0 (maxlen d)).

Definition wl_array (cols : list str) (dict : list (str * list (str * list nat))) : list (list nat) :=
  flat_map (fun kd => array_rows_of cols (snd kd)) dict.

Fixpoint wl_idx_from (count : nat) (dict : list (str * list (str * list nat))) : list (str * list nat) :=
  match dict with
  | [] => []
  | (k, d) :: t => (k, seq count (maxlen d)) :: wl_idx_from (count + maxlen d) t
  end.

Record wl := {
  w_rows : list str;
  w_cols : list str;
  w_dict : list (str * list (str * list nat));
  w_idx : list (str * list nat);
  w_array : list (list nat)
}.

(* [row_order], [col_order]: iteration orders of the two sets in unique_sorted *)
Definition wl_build (lower : str -> str) (data : list entry) (row_order col_order : list str) : wl :=
  let cols := unique_sorted lower col_order in
  let d := wl_dict data in
  {| w_rows := unique_sorted lower row_order;
     w_cols := cols;
     w_dict := d;
     w_idx := wl_idx_from 0 d;
     w_array := wl_array cols d |}.

Definition nz (i : nat) : bool := negb (i =? 0).

(* get_list(col=cols[j], flat=True) *)
Definition col_ids (w : wl) (j : nat) : list nat :=
  filter nz (map (fun r => nth j r 0) (w_array w)).

Definition row_of (data : list entry) (i : nat) : str :=
  match find (fun e => e_id e =? i) data with Some e => e_row e | None => [] end.

(* get_dict(col=cols[j]) : concept -> ids, in order of first appearance in the array column *)
Definition get_dict_col (data : list entry) (w : wl) (j : nat) : list (str * list nat) :=
  fold_left (fun d i => dupd str_eqb d (row_of data i) (fun o => odef o ++ [i])) (col_ids w j) [].

(* get_list(row=c, flat=True) *)
Definition row_ids (w : wl) (c : str) : list nat :=
  match dget str_eqb (w_idx w) c with
  | Some ks => filter nz (flat_map (fun k => nth k (w_array w) []) ks)
  | None => []
  end.

(* K5  lexstat._get_matrices: concepts = sorted(self.rows); indices per concept *)
Definition concept_order (w : wl) : list (str * list nat) :=
  map (fun c => (c, row_ids w c)) (sort_by id_str str_leb (w_rows w)).

(* ------------------------------------------------------------------ *)
(* K3  lexstat.py 397-410: freqs, chars, rchars *)

(* keys of a Counter updated with the words in order: first occurrences *)
Definition first_occ (l : list str) : list str :=
  fold_left (fun acc x => if memb x acc then acc else acc ++ [x]) l [].

Definition freq_keys (words : list (list str)) : list str := first_occ (concat words).

(* decimal rendering of a number (str(i)) *)
Fixpoint dec_aux (fuel n : nat) (acc : str) : str :=
  match fuel with
  | O => acc
  | S f => let d := (Z.of_nat (n mod 10) + 48)%Z in
           if n <? 10 then d :: acc else dec_aux f (n / 10) (d :: acc)
  end.
Definition dec (n : nat) : str := dec_aux (S n) n [].

(* util.charstring(i) = "i.X.-" *)
Definition gapchar (i : nat) : str := dec i ++ [46; 88; 46; 45]%Z.

(* char.split('.', 1)[1] *)
Fixpoint after_dot (s : str) : str :=
  match s with
  | [] => []
  | c :: t => if (c =? 46)%Z then t else after_dot t
  end.

(* the values put into the set self.chars: union of the keys of every taxon *)
Definition chars_vals (taxa_words : list (list (list str))) : list str :=
  flat_map freq_keys taxa_words.

(* sorted(self.chars) + [charstring(i + 1) for i in range(self.width)] *)
Definition lex_chars (width : nat) (chars_order : list str) : list str :=
  sort_by id_str str_leb chars_order ++ map (fun i => gapchar (S i)) (seq 0 width).

(* sorted(set(char.split('.', 1)[1] for char in self.chars)); the set comprehension
   iterates over the set self.chars and builds another set: [rchars_order] enumerates
   the set of [map after_dot chars_order] *)
Definition lex_rchars (rchars_order : list str) : list str :=
  sort_by id_str str_leb rchars_order.

(* ------------------------------------------------------------------ *)
(* K4  lexstat.py 386-394, 440-465: duplicates, pairs *)

(* duplicates per taxon: 1 if the same transcription occurred earlier in the taxon *)
Fixpoint dups_of (word : nat -> str) (ids : list nat) (seen : list str) : list (nat * bool) :=
  match ids with
  | [] => []
  | i :: t => (i, memb (word i) seen) :: dups_of word t (word i :: seen)
  end.

Definition lookup_str (tab : list (nat * str)) (i : nat) : str :=
  match dget Nat.eqb tab i with Some s => s | None => [] end.

Definition lookup_bool (tab : list (nat * bool)) (i : nat) : bool :=
  match dget Nat.eqb tab i with Some s => s | None => false end.

(* '{0}-{1}/{2}-{3}'.format(segsA, taxonA, segsB, taxonB) *)
Definition pair_label (sa ta sb tb : str) : str :=
  sa ++ [45%Z] ++ ta ++ [47%Z] ++ sb ++ [45%Z] ++ tb.

Definition keys {K V} (d : list (K * V)) : list K := map fst d.

(* the values of set(dictA).intersection(dictB) *)
Definition inter_vals (dA dB : list (str * list nat)) : list str :=
  filter (fun c => memb c (keys dB)) (keys dA).

Definition nat_pair_eqb (p q : nat * nat) : bool := (fst p =? fst q) && (snd p =? snd q).

Record pairs_input := {
  pi_cols : list str;                          (* taxa = self.cols *)
  pi_dicts : list (list (str * list nat));     (* get_dict(col=taxon) per taxon *)
  pi_segs : list (nat * str);                  (* ''.join(self[idx, segments]) *)
  pi_dups : list (nat * bool)                  (* duplicates column == 1 *)
}.

(* one language pair i < j: concepts in sorted order, product of the two id lists,
   only the first pair with a given label is kept *)
Definition pairs_lt (inp : pairs_input) (i j : nat) (inter_order : list str)
           (seen : list str) : list str * list (nat * nat) :=
  let dA := nth i (pi_dicts inp) [] in
  let dB := nth j (pi_dicts inp) [] in
  let tA := nth i (pi_cols inp) [] in
  let tB := nth j (pi_cols inp) [] in
  fold_left (fun st c =>
    fold_left (fun st2 ab =>
      let lab := pair_label (lookup_str (pi_segs inp) (fst ab)) tA (lookup_str (pi_segs inp) (snd ab)) tB in
      if memb lab (fst st2) then st2 else (lab :: fst st2, snd st2 ++ [ab]))
      (list_prod (odef (dget str_eqb dA c)) (odef (dget str_eqb dB c))) st)
    (sort_by id_str str_leb inter_order) (seen, []).

(* i = j: for c in sorted(dictA): every non-duplicate word with itself *)
Definition pairs_eq (inp : pairs_input) (i : nat) : list (nat * nat) :=
  let dA := nth i (pi_dicts inp) [] in
  flat_map (fun c => flat_map (fun idx => if lookup_bool (pi_dups inp) idx then [] else [(idx, idx)])
                              (odef (dget str_eqb dA c)))
           (sort_by id_str str_leb (keys dA)).

(* itertools.combinations_with_replacement(range(n), 2) *)
Definition multicomb (n : nat) : list (nat * nat) :=
  flat_map (fun i => map (fun j => (i, j)) (seq i (n - i))) (seq 0 n).

(* [inter] gives, for i < j, the iteration order of set(dictA).intersection(dictB) *)
Definition lex_pairs (inp : pairs_input) (inter : list ((nat * nat) * list str))
  : list ((nat * nat) * list (nat * nat)) :=
  snd (fold_left (fun st ij =>
         let '(i, j) := ij in
         if i =? j then (fst st, snd st ++ [(ij, pairs_eq inp i)])
         else let r := pairs_lt inp i j (odef (dget nat_pair_eqb inter ij)) (fst st) in
              (fst r, snd st ++ [(ij, snd r)]))
       (multicomb (length (pi_cols inp))) ([], [])).

(* ------------------------------------------------------------------ *)
(* K6  basic/ops.py renumber *)

(* sources = sorted(set(str(v) for v)); converter = zip(sources, 1..); '' -> 0 *)
Definition renumber_sources (order : list str) : list str := sort_by id_str str_leb order.

Definition renumber_col (vals order : list str) : list nat :=
  let sources := renumber_sources order in
  map (fun v => match v with [] => 0 | _ => S (index_of v sources) end) vals.

(* ------------------------------------------------------------------ *)
(* K7  lexstat.py 55-62 and 1056-1104: scorer matrices as folds of symmetric writes *)

Section Scorer.
  Context {V : Type}.

  Fixpoint set_nth {X} (l : list X) (i : nat) (v : X) : list X :=
    match l, i with
    | [], _ => []
    | _ :: t, O => v :: t
    | x :: t, S k => x :: set_nth t k v
    end.

  Definition mget (d : V) (m : list (list V)) (i j : nat) : V := nth j (nth i m []) d.

  Definition mset (m : list (list V)) (i j : nat) (v : V) : list (list V) :=
    match nth_error m i with
    | Some r => set_nth m i (set_nth r j v)
    | None => m
    end.

  (* matrix[iA][iB] = matrix[iB][iA] = v ; an index outside the matrix raises and the
     surrounding try/except skips the write *)
  Definition sym_write (n : nat) (m : list (list V)) (w : nat * nat * V) : list (list V) :=
    let '(i, j, v) := w in
    if (i <? n) && (j <? n) then mset (mset m i j v) j i v else m.

  Definition assemble (n : nat) (start : list (list V)) (writes : list (nat * nat * V)) : list (list V) :=
    fold_left (sym_write n) writes start.
End Scorer.

(* the index pairs written by the assembly loop of get_scorer:
   for (i,tA),(j,tB) in multicombinations2(enumerate(cols)):
     for charA, charB in product(list(freqs[tA]) + [charstring(i+1)], list(freqs[tB]) + [charstring(j+1)]) *)
Definition scorer_write_indices (chars : list str) (fkeys : list (list str)) : list (nat * nat) :=
  flat_map (fun ij =>
    let '(i, j) := ij in
    map (fun ab => (index_of (fst ab) chars, index_of (snd ab) chars))
        (list_prod (nth i fkeys [] ++ [gapchar (S i)]) (nth j fkeys [] ++ [gapchar (S j)])))
    (multicomb (length fkeys)).

(* get_score_dict: matrix[i][j] = model(a, b); matrix[j][i] = matrix[i][j], for i <= j *)
Definition score_dict_indices (n : nat) : list (nat * nat) := multicomb n.

Definition with_values {V} (val : nat -> nat -> V) (l : list (nat * nat)) : list (nat * nat * V) :=
  map (fun ab => (fst ab, snd ab, val (fst ab) (snd ab))) l.

(* ------------------------------------------------------------------ *)
(* K8  repeated analyses on one object.

   An object holds the base data (the columns the analyses read), the stored
   language-specific scorer (None until get_scorer has run) and the result
   columns.  [cl] is what a clustering computes from base data, stored scorer and
   its parameters; [sc] what get_scorer computes from the base data, its
   parameters and the random numbers it draws. *)
Section Analysis.
  Variables (B S P Pq R C N : Type).
  Variable name_eqb : N -> N -> bool.
  Variable ref : P -> N.
  Variable cl : B -> option S -> P -> C.
  Variable sc : B -> Pq -> R -> S.

  Record obj := { o_base : B; o_scorer : option S; o_columns : list (N * C) }.

  Inductive call :=
  | Cluster (p : P)
  | GetScorer (q : Pq) (force : bool) (rnd : R).

  Definition step (o : obj) (c : call) : obj :=
    match c with
    | Cluster p =>
        {| o_base := o_base o; o_scorer := o_scorer o;
           o_columns := dset name_eqb (o_columns o) (ref p) (cl (o_base o) (o_scorer o) p) |}
    | GetScorer q force rnd =>
        match o_scorer o, force with
        | Some _, false => o          (* "already calculated": returns without touching anything *)
        | _, _ => {| o_base := o_base o; o_scorer := Some (sc (o_base o) q rnd);
                     o_columns := o_columns o |}
        end
    end.

  Definition run (o : obj) (h : list call) : obj := fold_left step h o.

  Definition column (o : obj) (n : N) : option C := dget name_eqb (o_columns o) n.
End Analysis.
