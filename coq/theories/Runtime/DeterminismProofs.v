(* DeterminismProofs - order-independence, symmetry and repeatability theorems
   for the model in Determinism.v (property C18). *)
From Coq Require Import List Bool Arith ZArith Lia Permutation Sorted.
From LV Require Import Runtime.SortX Runtime.Determinism.
Import ListNotations.

(* ------------------------------------------------------------------ *)
(* generic helpers *)

Lemma fold_left_ext_in : forall (A B : Type) (f g : A -> B -> A) (l : list B) (a : A),
  (forall a b, In b l -> f a b = g a b) -> fold_left f l a = fold_left g l a.
Proof.
  intros A B f g l. induction l as [|b t IH]; intros a H; cbn [fold_left]; [reflexivity|].
  rewrite H by (left; reflexivity). apply IH. intros a' b' Hb. apply H. right; exact Hb.
Qed.

Lemma id_str_injective : forall x y : str, id_str x = id_str y -> x = y.
Proof. intros x y H. exact H. Qed.

Lemma total_key_injective : forall lower x y, total_key lower x = total_key lower y -> x = y.
Proof. intros lower x y H. unfold total_key in H. inversion H. reflexivity. Qed.

(* sorting a set of strings by the identity key *)
Lemma sort_id_invariant : forall vals o1 o2 : list str,
  set_enum vals o1 -> set_enum vals o2 -> sort_by id_str str_leb o1 = sort_by id_str str_leb o2.
Proof.
  intros vals o1 o2 H1 H2.
  exact (sort_set_invariant id_str str_leb_order id_str_injective H1 H2).
Qed.

(* ------------------------------------------------------------------ *)
(* K1 *)

Theorem unique_sorted_order_invariant :
  forall (lower : str -> str) (vals o1 o2 : list str),
    set_enum vals o1 -> set_enum vals o2 ->
    unique_sorted lower o1 = unique_sorted lower o2.
Proof.
  intros lower vals o1 o2 H1 H2. unfold unique_sorted.
  exact (sort_set_invariant (total_key lower) key_leb_order (total_key_injective lower) H1 H2).
Qed.

(* the result is the strictly increasing enumeration: no two equal neighbours, sorted *)
Theorem unique_sorted_sorted :
  forall lower order, StronglySorted (le_el (total_key lower) key_leb) (unique_sorted lower order).
Proof.
  intros lower order. unfold unique_sorted.
  apply sort_by_strongly_sorted; [apply (to_total key_leb_order)|apply (to_trans key_leb_order)].
Qed.

Theorem unique_sorted_elements :
  forall lower vals order, set_enum vals order ->
    NoDup (unique_sorted lower order) /\ forall x, In x (unique_sorted lower order) <-> In x vals.
Proof.
  intros lower vals order [N H]. unfold unique_sorted. split.
  - eapply Permutation_NoDup; [apply Permutation_sym, sort_by_perm|exact N].
  - intros x. rewrite sort_by_in. apply H.
Qed.

(* with key = lower alone (the code before commit 40bc478) the result DOES depend on the
   enumeration order: "Ab" and "aB" have the same key, the stable sort keeps them as they come *)
Theorem unique_sorted_lower_refuted :
  exists (lower : str -> str) (vals o1 o2 : list str),
    set_enum vals o1 /\ set_enum vals o2 /\
    unique_sorted_lower lower o1 <> unique_sorted_lower lower o2.
Proof.
  exists ascii_lower, [[65; 98]; [97; 66]]%Z, [[65; 98]; [97; 66]]%Z, [[97; 66]; [65; 98]]%Z.
  split; [|split].
  - apply set_enumb_spec. vm_compute. reflexivity.
  - apply set_enumb_spec. vm_compute. reflexivity.
  - vm_compute. intros H. discriminate H.
Qed.

(* ------------------------------------------------------------------ *)
(* K2 / K5 *)

Theorem wl_build_order_invariant :
  forall lower data ro1 ro2 co1 co2,
    set_enum (row_vals data) ro1 -> set_enum (row_vals data) ro2 ->
    set_enum (col_vals data) co1 -> set_enum (col_vals data) co2 ->
    wl_build lower data ro1 co1 = wl_build lower data ro2 co2.
Proof.
  intros lower data ro1 ro2 co1 co2 R1 R2 C1 C2. unfold wl_build.
  rewrite (unique_sorted_order_invariant lower _ _ _ R1 R2).
  rewrite (unique_sorted_order_invariant lower _ _ _ C1 C2).
  reflexivity.
Qed.

(* everything read through the index - language columns, per-language dictionaries,
   the concept order of the clustering loop and the ids per concept - is invariant too *)
Theorem wl_views_order_invariant :
  forall lower data ro1 ro2 co1 co2,
    set_enum (row_vals data) ro1 -> set_enum (row_vals data) ro2 ->
    set_enum (col_vals data) co1 -> set_enum (col_vals data) co2 ->
    let w1 := wl_build lower data ro1 co1 in
    let w2 := wl_build lower data ro2 co2 in
    concept_order w1 = concept_order w2 /\
    forall j, col_ids w1 j = col_ids w2 j /\ get_dict_col data w1 j = get_dict_col data w2 j.
Proof.
  intros lower data ro1 ro2 co1 co2 R1 R2 C1 C2 w1 w2.
  assert (E : w1 = w2) by (apply wl_build_order_invariant; assumption).
  rewrite E. split; [reflexivity|intros j; split; reflexivity].
Qed.

(* ------------------------------------------------------------------ *)
(* K3 *)

Theorem lex_chars_order_invariant :
  forall width vals o1 o2, set_enum vals o1 -> set_enum vals o2 ->
    lex_chars width o1 = lex_chars width o2.
Proof.
  intros width vals o1 o2 H1 H2. unfold lex_chars.
  rewrite (sort_id_invariant _ _ _ H1 H2). reflexivity.
Qed.

(* rchars: the second set is built while iterating over the first one; whatever the two
   iteration orders of the first set and whatever the iteration orders of the two second
   sets, the result is the same *)
Theorem lex_rchars_order_invariant :
  forall vals o1 o2 r1 r2,
    set_enum vals o1 -> set_enum vals o2 ->
    set_enum (map after_dot o1) r1 -> set_enum (map after_dot o2) r2 ->
    lex_rchars r1 = lex_rchars r2.
Proof.
  intros vals o1 o2 r1 r2 H1 H2 R1 R2. unfold lex_rchars.
  apply (sort_id_invariant (map after_dot vals)); [eapply set_enum_same; [|exact R1]|eapply set_enum_same; [|exact R2]].
  - intros x. rewrite !in_map_iff. destruct H1 as [_ H1].
    split; intros [y [E Hy]]; exists y; (split; [exact E|apply H1; exact Hy]).
  - intros x. rewrite !in_map_iff. destruct H2 as [_ H2].
    split; intros [y [E Hy]]; exists y; (split; [exact E|apply H2; exact Hy]).
Qed.

(* ------------------------------------------------------------------ *)
(* K4 *)

Lemma multicomb_le : forall n i j, In (i, j) (multicomb n) -> i <= j /\ j < n.
Proof.
  intros n i j H. unfold multicomb in H. apply in_flat_map in H. destruct H as [i' [Hi' H]].
  apply in_map_iff in H. destruct H as [j' [E Hj']]. inversion E; subst.
  apply in_seq in Hi'. apply in_seq in Hj'. lia.
Qed.

Lemma pairs_lt_sorted_ext : forall inp i j o o' seen,
  sort_by id_str str_leb o = sort_by id_str str_leb o' ->
  pairs_lt inp i j o seen = pairs_lt inp i j o' seen.
Proof. intros inp i j o o' seen E. unfold pairs_lt. rewrite E. reflexivity. Qed.

Definition inter_ok (inp : pairs_input) (inter : list ((nat * nat) * list str)) : Prop :=
  forall i j, i < j -> j < length (pi_cols inp) ->
    set_enum (inter_vals (nth i (pi_dicts inp) []) (nth j (pi_dicts inp) []))
             (odef (dget nat_pair_eqb inter (i, j))).

Theorem lex_pairs_order_invariant :
  forall inp inter1 inter2, inter_ok inp inter1 -> inter_ok inp inter2 ->
    lex_pairs inp inter1 = lex_pairs inp inter2.
Proof.
  intros inp inter1 inter2 H1 H2. unfold lex_pairs. f_equal.
  apply fold_left_ext_in. intros st [i j] Hin.
  destruct (multicomb_le _ _ _ Hin) as [Hle Hlt].
  destruct (i =? j) eqn:E; [reflexivity|].
  apply Nat.eqb_neq in E. assert (L : i < j) by lia.
  rewrite (pairs_lt_sorted_ext inp i j _ _ (fst st) (sort_id_invariant _ _ _ (H1 i j L Hlt) (H2 i j L Hlt))).
  reflexivity.
Qed.

(* ------------------------------------------------------------------ *)
(* K6 *)

Theorem renumber_order_invariant :
  forall vals setvals o1 o2, set_enum setvals o1 -> set_enum setvals o2 ->
    renumber_col vals o1 = renumber_col vals o2.
Proof.
  intros vals setvals o1 o2 H1 H2. unfold renumber_col, renumber_sources.
  rewrite (sort_id_invariant _ _ _ H1 H2). reflexivity.
Qed.

(* ------------------------------------------------------------------ *)
(* checker: a strictly sorted list with the elements of the set IS the order-independent result *)

Section Canon.
  Variables (key : str -> str * str).
  Hypothesis key_inj : forall x y, key x = key y -> x = y.

  Definition canonb (vals res : list str) : bool :=
    strict_sortedb key key_leb res && inclb res vals && inclb vals res.

  Lemma key_leb_refl : forall k, key_leb k k = true.
  Proof. intros k. destruct (to_total key_leb_order k k); assumption. Qed.

  Theorem canonb_sound :
    forall vals res, canonb vals res = true ->
      forall order, set_enum vals order -> sort_by key key_leb order = res.
  Proof.
    intros vals res H order [N Ho]. unfold canonb in H.
    apply andb_true_iff in H. destruct H as [H I2]. apply andb_true_iff in H. destruct H as [S I1].
    rewrite inclb_spec in I1, I2.
    apply sort_by_characterised.
    - exact key_leb_order.
    - intros x y _ _. apply key_inj.
    - apply Sorted_StronglySorted.
      + intros a b c Hab Hbc. exact (to_trans key_leb_order _ _ _ Hab Hbc).
      + apply strict_sortedb_sorted. exact S.
    - apply NoDup_Permutation.
      + eapply strict_sortedb_nodup; [exact (to_trans key_leb_order)|exact key_leb_refl|exact S].
      + exact N.
      + intros x. rewrite Ho. split; [apply I1|apply I2].
  Qed.

  (* and conversely the order-independent result passes the checker *)
  Theorem canonb_complete :
    forall vals order, set_enum vals order -> canonb vals (sort_by key key_leb order) = true.
  Proof.
    intros vals order [N Ho]. unfold canonb. rewrite !andb_true_iff. split; [split|].
    - assert (P : Permutation (sort_by key key_leb order) order) by apply sort_by_perm.
      assert (Nd : NoDup (sort_by key key_leb order)) by (eapply Permutation_NoDup; [apply Permutation_sym; exact P|exact N]).
      assert (S : StronglySorted (le_el key key_leb) (sort_by key key_leb order))
        by (apply sort_by_strongly_sorted; [apply (to_total key_leb_order)|apply (to_trans key_leb_order)]).
      clear P. induction S as [|x t St IH Fa]; [reflexivity|].
      destruct t as [|y t']; [reflexivity|].
      rewrite strict_sortedb_cons. inversion Nd as [|x' l' Hnin Ndt]; subst.
      rewrite IH by exact Ndt. rewrite andb_true_r.
      assert (Hxy : key_leb (key x) (key y) = true) by (rewrite Forall_forall in Fa; apply Fa; left; reflexivity).
      rewrite Hxy. cbn [andb]. apply negb_true_iff.
      destruct (key_leb (key y) (key x)) eqn:E; [|reflexivity].
      exfalso. apply Hnin. left. symmetry. apply key_inj. apply (to_antisym key_leb_order); assumption.
    - apply inclb_spec. intros x Hx. apply Ho. apply (sort_by_in key key_leb). exact Hx.
    - apply inclb_spec. intros x Hx. apply (sort_by_in key key_leb). apply Ho. exact Hx.
  Qed.
End Canon.

(* instance for plain string order: key = (x, x) sorts exactly like key = x *)
Definition dup_key (x : str) : str * str := (x, x).

Lemma dup_key_injective : forall x y, dup_key x = dup_key y -> x = y.
Proof. intros x y H. inversion H. reflexivity. Qed.

Lemma key_leb_dup : forall x y, key_leb (dup_key x) (dup_key y) = str_leb x y.
Proof.
  intros x y. unfold key_leb, pair_leb, dup_key. cbn [fst snd].
  destruct (str_eqb x y) eqn:E; [reflexivity|reflexivity].
Qed.

Lemma sort_dup_key : forall l, sort_by dup_key key_leb l = sort_by id_str str_leb l.
Proof.
  induction l as [|x t IH]; cbn [sort_by]; [reflexivity|]. rewrite IH.
  generalize (sort_by id_str str_leb t). intros s.
  induction s as [|y s IHs]; cbn [insert]; [reflexivity|].
  rewrite key_leb_dup. unfold id_str at 1 2. destruct (str_leb x y); [reflexivity|]. rewrite IHs. reflexivity.
Qed.

Definition canon_idb (vals res : list str) : bool := canonb dup_key vals res.

Theorem canon_idb_sound :
  forall vals res, canon_idb vals res = true ->
    forall order, set_enum vals order -> sort_by id_str str_leb order = res.
Proof.
  intros vals res H order Ho. rewrite <- sort_dup_key.
  exact (canonb_sound dup_key dup_key_injective vals res H order Ho).
Qed.

Definition canon_keyb (lower : str -> str) (vals res : list str) : bool := canonb (total_key lower) vals res.

Theorem canon_keyb_sound :
  forall lower vals res, canon_keyb lower vals res = true ->
    forall order, set_enum vals order -> unique_sorted lower order = res.
Proof.
  intros lower vals res H order Ho. unfold unique_sorted.
  exact (canonb_sound (total_key lower) (total_key_injective lower) vals res H order Ho).
Qed.

(* ------------------------------------------------------------------ *)
(* K7 scorer *)

Section ScorerProofs.
  Context {V : Type}.
  Variable d : V.

  Definition square (n : nat) (m : list (list V)) : Prop :=
    length m = n /\ Forall (fun r => length r = n) m.

  Definition symmetric (m : list (list V)) : Prop := forall a b, mget d m a b = mget d m b a.

  Lemma set_nth_length : forall X (l : list X) i v, length (set_nth l i v) = length l.
  Proof.
    intros X l. induction l as [|x t IH]; intros i v; destruct i; cbn [set_nth length]; auto.
  Qed.

  Lemma nth_set_nth : forall X (l : list X) i v a dflt, i < length l ->
    nth a (set_nth l i v) dflt = if a =? i then v else nth a l dflt.
  Proof.
    intros X l. induction l as [|x t IH]; intros i v a dflt H; cbn [length] in H; [lia|].
    destruct i as [|i]; destruct a as [|a]; cbn [set_nth nth Nat.eqb]; try reflexivity.
    apply IH. lia.
  Qed.

  Lemma square_row : forall n m i, square n m -> i < n -> length (nth i m []) = n.
  Proof.
    intros n m i [L F] H. rewrite Forall_forall in F. apply F. apply nth_In. lia.
  Qed.

  Lemma mset_square : forall n m i j v, square n m -> square n (mset m i j v).
  Proof.
    intros n m i j v [L F]. unfold mset. destruct (nth_error m i) as [r|] eqn:E; [|split; assumption].
    split; [rewrite set_nth_length; exact L|].
    assert (Hr : length r = n) by (rewrite Forall_forall in F; apply F; eapply nth_error_In; exact E).
    clear E L. revert i. induction F as [|x t Hx Ft IH]; intros i; destruct i; cbn [set_nth]; constructor; auto.
    rewrite set_nth_length. exact Hr.
  Qed.

  Lemma mget_mset : forall n m i j v a b, square n m -> i < n -> j < n ->
    mget d (mset m i j v) a b = if (a =? i) && (b =? j) then v else mget d m a b.
  Proof.
    intros n m i j v a b Sq Hi Hj. unfold mset, mget.
    destruct Sq as [L F].
    destruct (nth_error m i) as [r|] eqn:E.
    - rewrite nth_set_nth by lia.
      assert (Er : nth i m [] = r) by (apply nth_error_nth; exact E).
      destruct (a =? i) eqn:Ea; cbn [andb]; [|reflexivity].
      apply Nat.eqb_eq in Ea. subst a.
      assert (Hr : length r = n) by (rewrite <- Er; apply square_row; [split; assumption|exact Hi]).
      rewrite nth_set_nth by lia. rewrite Er. reflexivity.
    - apply nth_error_None in E. lia.
  Qed.

  Lemma sym_write_square : forall n m w, square n m -> square n (sym_write n m w).
  Proof.
    intros n m [[i j] v] Sq. unfold sym_write.
    destruct ((i <? n) && (j <? n)); [|exact Sq]. apply mset_square, mset_square. exact Sq.
  Qed.

  Lemma sym_write_symmetric : forall n m w, square n m -> symmetric m -> symmetric (sym_write n m w).
  Proof.
    intros n m [[i j] v] Sq Sy. unfold sym_write.
    destruct ((i <? n) && (j <? n)) eqn:R; [|exact Sy].
    apply andb_true_iff in R. destruct R as [Hi Hj]. apply Nat.ltb_lt in Hi. apply Nat.ltb_lt in Hj.
    intros a b.
    rewrite (mget_mset n) by (try apply mset_square; assumption).
    rewrite (mget_mset n) by assumption.
    rewrite (mget_mset n) by (try apply mset_square; assumption).
    rewrite (mget_mset n) by assumption.
    rewrite (Sy a b).
    destruct (a =? j) eqn:Aj; destruct (b =? i) eqn:Bi; destruct (b =? j) eqn:Bj; destruct (a =? i) eqn:Ai;
      cbn [andb]; reflexivity.
  Qed.

  (* a symmetric start and symmetric writes give a symmetric matrix, for any write sequence *)
  Theorem scorer_symmetric :
    forall n start writes, square n start -> symmetric start ->
      symmetric (assemble n start writes) /\ square n (assemble n start writes).
  Proof.
    intros n start writes. revert start. unfold assemble.
    induction writes as [|w t IH]; intros start Sq Sy; cbn [fold_left]; [split; assumption|].
    apply IH; [apply sym_write_square; exact Sq|apply sym_write_symmetric; assumption].
  Qed.

  (* cells no write touches keep the start value *)
  Theorem assemble_untouched :
    forall n writes start a b, square n start ->
      (forall i j v, In (i, j, v) writes -> ~ (a = i /\ b = j) /\ ~ (a = j /\ b = i)) ->
      mget d (assemble n start writes) a b = mget d start a b.
  Proof.
    intros n writes. unfold assemble. induction writes as [|w t IH]; intros start a b Sq H; cbn [fold_left]; [reflexivity|].
    rewrite IH; [|apply sym_write_square; exact Sq|intros i j v Hin; apply (H i j v); right; exact Hin].
    destruct w as [[i j] v]. destruct (H i j v (or_introl eq_refl)) as [N1 N2].
    unfold sym_write. destruct ((i <? n) && (j <? n)) eqn:R; [|reflexivity].
    apply andb_true_iff in R. destruct R as [Hi Hj]. apply Nat.ltb_lt in Hi. apply Nat.ltb_lt in Hj.
    rewrite (mget_mset n) by (try apply mset_square; assumption).
    rewrite (mget_mset n) by assumption.
    destruct (a =? j) eqn:Aj; destruct (b =? i) eqn:Bi; destruct (b =? j) eqn:Bj; destruct (a =? i) eqn:Ai;
      cbn [andb]; try reflexivity;
      repeat match goal with H : (_ =? _) = true |- _ => apply Nat.eqb_eq in H end; subst; exfalso; auto.
  Qed.

  Definition zeros (n : nat) : list (list V) := repeat (repeat d n) n.

  Lemma zeros_square : forall n, square n (zeros n).
  Proof.
    intros n. unfold zeros. split; [apply repeat_length|].
    apply Forall_forall. intros r Hr. apply repeat_spec in Hr. subst r. apply repeat_length.
  Qed.

  Lemma nth_repeat_any : forall X (x : X) n a, nth a (repeat x n) x = x.
  Proof. intros X x n. induction n as [|n IH]; intros a; destruct a; cbn [repeat nth]; auto. Qed.

  Lemma zeros_get : forall n a b, mget d (zeros n) a b = d.
  Proof.
    intros n a b. unfold mget, zeros.
    destruct (Nat.lt_ge_cases a n) as [L|G].
    - assert (E : nth a (repeat (repeat d n) n) [] = repeat d n).
      { apply (@repeat_spec _ n (repeat d n)). apply nth_In. rewrite repeat_length. exact L. }
      rewrite E. apply nth_repeat_any.
    - rewrite (nth_overflow (repeat (repeat d n) n)) by (rewrite repeat_length; exact G).
      destruct b; reflexivity.
  Qed.

  (* get_score_dict: symmetric whatever the sound-class model returns *)
  Theorem score_dict_symmetric :
    forall n (val : nat -> nat -> V),
      symmetric (assemble n (zeros n) (with_values val (score_dict_indices n))).
  Proof.
    intros n val. apply scorer_symmetric; [apply zeros_square|].
    intros a b. rewrite !zeros_get. reflexivity.
  Qed.

  (* boolean symmetry test on an n x n matrix *)
  Variable veqb : V -> V -> bool.
  Hypothesis veqb_spec : forall x y, veqb x y = true <-> x = y.

  Definition symmetricb (n : nat) (m : list (list V)) : bool :=
    forallb (fun a => forallb (fun b => veqb (mget d m a b) (mget d m b a)) (seq 0 n)) (seq 0 n).

  Theorem symmetricb_spec : forall n m,
    symmetricb n m = true <-> (forall a b, a < n -> b < n -> mget d m a b = mget d m b a).
  Proof.
    intros n m. unfold symmetricb. rewrite forallb_forall. split.
    - intros H a b Ha Hb. assert (Ia : In a (seq 0 n)) by (apply in_seq; lia).
      specialize (H a Ia). rewrite forallb_forall in H. apply veqb_spec. apply H. apply in_seq; lia.
    - intros H a Ia. apply forallb_forall. intros b Ib. apply in_seq in Ia. apply in_seq in Ib.
      apply veqb_spec. apply H; lia.
  Qed.

  Definition squareb (n : nat) (m : list (list V)) : bool :=
    (length m =? n) && forallb (fun r => length r =? n) m.

  Lemma squareb_spec : forall n m, squareb n m = true <-> square n m.
  Proof.
    intros n m. unfold squareb, square. rewrite andb_true_iff, Nat.eqb_eq, forallb_forall, Forall_forall.
    split; intros [L F]; (split; [exact L|]); intros r Hr; specialize (F r Hr).
    - apply Nat.eqb_eq in F. exact F.
    - apply Nat.eqb_eq. exact F.
  Qed.

  (* a square matrix accepted by the test is symmetric everywhere (outside the matrix
     every cell reads as the default) *)
  Theorem symmetricb_sound : forall n m, square n m -> symmetricb n m = true -> symmetric m.
  Proof.
    intros n m Sq H a b. rewrite symmetricb_spec in H.
    destruct (Nat.lt_ge_cases a n) as [La|Ga]; destruct (Nat.lt_ge_cases b n) as [Lb|Gb].
    - apply H; assumption.
    - unfold mget. rewrite (nth_overflow (nth a m [])) by (rewrite (square_row n); [exact Gb|exact Sq|exact La]).
      destruct Sq as [L _]. rewrite (nth_overflow m) by lia. destruct a; reflexivity.
    - unfold mget. rewrite (nth_overflow (nth b m [])) by (rewrite (square_row n); [exact Ga|exact Sq|exact Lb]).
      destruct Sq as [L _]. rewrite (nth_overflow m) by lia. destruct b; reflexivity.
    - unfold mget. destruct Sq as [L _]. rewrite !(nth_overflow m) by lia. destruct a; destruct b; reflexivity.
  Qed.
End ScorerProofs.

(* the write pattern of the assembly loops of LexStat.get_scorer and Partial.get_partial_scorer
   (the same iteration space: language pairs x (sounds + gap) x (sounds + gap)) *)
Section ScorerPattern.
  Context {V : Type}.
  Variable d : V.

  Lemma assemble_square : forall n writes (start : list (list V)),
    square n start -> square n (assemble n start writes).
  Proof.
    intros n writes. unfold assemble. induction writes as [|w t IH]; intros start Sq; cbn [fold_left]; [exact Sq|].
    apply IH. apply sym_write_square. exact Sq.
  Qed.

  (* whatever values the scores take (val), whatever sounds the languages have (fkeys) and whatever the
     alphabet order (chars): a symmetric basic scorer gives a symmetric language-specific scorer *)
  Theorem cscorer_pattern_symmetric :
    forall (chars : list str) (fkeys : list (list str)) (b : list (list V)) (val : nat -> nat -> V),
      square (length chars) b -> symmetric d b ->
      symmetric d (assemble (length chars) b (with_values val (scorer_write_indices chars fkeys))).
  Proof.
    intros chars fkeys b val Sq Sy. apply (scorer_symmetric d); assumption.
  Qed.

  (* the last write to a cell decides both mirrored cells: within one language the loop visits (a, b) and
     (b, a) with possibly different scores - the later one wins in BOTH cells *)
  Theorem assemble_last_write :
    forall n (start : list (list V)) ws i j v, square n start -> i < n -> j < n ->
      mget d (assemble n start (ws ++ [(i, j, v)])) i j = v /\
      mget d (assemble n start (ws ++ [(i, j, v)])) j i = v.
  Proof.
    intros n start ws i j v Sq Hi Hj. unfold assemble. rewrite fold_left_app. cbn [fold_left].
    assert (Sq' : square n (fold_left (sym_write n) ws start)) by (apply (assemble_square n ws start Sq)).
    set (m := fold_left (sym_write n) ws start) in *.
    unfold sym_write.
    assert (R : (i <? n) && (j <? n) = true)
      by (apply andb_true_iff; split; apply Nat.ltb_lt; assumption).
    rewrite R. split.
    - rewrite (mget_mset d n) by (try apply mset_square; assumption).
      rewrite (mget_mset d n) by assumption.
      rewrite !Nat.eqb_refl. cbn [andb]. destruct ((i =? j) && (j =? i)); reflexivity.
    - rewrite (mget_mset d n) by (try apply mset_square; assumption).
      rewrite !Nat.eqb_refl. reflexivity.
  Qed.
End ScorerPattern.

(* ------------------------------------------------------------------ *)
(* K8 repeated analyses *)

Section AnalysisProofs.
  Variables (B S P Pq R C N : Type).
  Variable name_eqb : N -> N -> bool.
  Hypothesis name_eqb_spec : forall a b, name_eqb a b = true <-> a = b.
  Variable ref : P -> N.
  Variable cl : B -> option S -> P -> C.
  Variable sc : B -> Pq -> R -> S.

  Notation obj := (obj B S C N).
  Notation call := (call P Pq R).
  Notation step := (step B S P Pq R C N name_eqb ref cl sc).
  Notation run := (run B S P Pq R C N name_eqb ref cl sc).
  Notation column := (column B S C N name_eqb).
  Notation obase := (o_base B S C N).
  Notation oscorer := (o_scorer B S C N).

  Lemma name_eqb_refl : forall a, name_eqb a a = true.
  Proof. intros a. apply name_eqb_spec. reflexivity. Qed.

  Lemma dset_idem : forall (dct : list (N * C)) k v, dset name_eqb (dset name_eqb dct k v) k v = dset name_eqb dct k v.
  Proof.
    unfold dset. induction dct as [|[k' v'] t IH]; intros k v; cbn [dupd].
    - rewrite name_eqb_refl. reflexivity.
    - destruct (name_eqb k k') eqn:E; cbn [dupd]; rewrite E; [reflexivity|]. rewrite IH. reflexivity.
  Qed.

  Lemma dget_dset_same : forall (dct : list (N * C)) k v, dget name_eqb (dset name_eqb dct k v) k = Some v.
  Proof.
    unfold dset. induction dct as [|[k' v'] t IH]; intros k v; cbn [dupd dget].
    - rewrite name_eqb_refl. reflexivity.
    - destruct (name_eqb k k') eqn:E; cbn [dget]; rewrite E; [reflexivity|apply IH].
  Qed.

  Lemma dget_dset_other : forall (dct : list (N * C)) k k' v, k <> k' ->
    dget name_eqb (dset name_eqb dct k v) k' = dget name_eqb dct k'.
  Proof.
    unfold dset. induction dct as [|[k0 v0] t IH]; intros k k' v Hne; cbn [dupd dget].
    - destruct (name_eqb k' k) eqn:E; [apply name_eqb_spec in E; subst; contradiction|reflexivity].
    - destruct (name_eqb k k0) eqn:E; cbn [dget].
      + apply name_eqb_spec in E. subst k0.
        destruct (name_eqb k' k) eqn:E'; [apply name_eqb_spec in E'; subst; contradiction|reflexivity].
      + destruct (name_eqb k' k0); [reflexivity|apply IH; exact Hne].
  Qed.

  (* the same clustering twice = once: the whole object is unchanged by the repetition *)
  Theorem cluster_idempotent :
    forall (o : obj) p, step (step o (Cluster P Pq R p)) (Cluster P Pq R p) = step o (Cluster P Pq R p).
  Proof.
    intros o p. cbn [step o_base o_scorer o_columns]. rewrite dset_idem. reflexivity.
  Qed.

  Definition is_cluster (c : call) : Prop := match c with Cluster _ _ _ _ => True | _ => False end.

  Lemma run_clusters_frame : forall (h : list call) (o : obj), Forall is_cluster h ->
    obase (run o h) = obase o /\ oscorer (run o h) = oscorer o.
  Proof.
    unfold run. induction h as [|c t IH]; intros o F; cbn [fold_left]; [split; reflexivity|].
    inversion F as [|c' t' Hc Ft]; subst. destruct c as [p|q f r]; [|destruct Hc].
    destruct (IH (step o (Cluster P Pq R p)) Ft) as [E1 E2]. rewrite E1, E2. split; reflexivity.
  Qed.

  (* whatever clusterings (any methods, any parameters, any number of repetitions, in any
     order) were run before, a clustering writes the column it would write on the fresh object *)
  Theorem cluster_history_independent :
    forall (o : obj) (h : list call) p, Forall is_cluster h ->
      column (run o (h ++ [Cluster P Pq R p])) (ref p) = Some (cl (obase o) (oscorer o) p).
  Proof.
    intros o h p F. unfold run. rewrite fold_left_app. cbn [fold_left].
    destruct (run_clusters_frame h o F) as [E1 E2]. unfold run in E1, E2.
    unfold column. cbn [step o_columns]. rewrite dget_dset_same, E1, E2. reflexivity.
  Qed.

  (* columns of other analyses are left alone *)
  Theorem cluster_frame :
    forall (o : obj) p n, n <> ref p ->
      column (step o (Cluster P Pq R p)) n = column o n.
  Proof.
    intros o p n Hne. unfold column. cbn [step o_columns]. apply dget_dset_other. auto.
  Qed.

  (* get_scorer: without force a second call changes nothing; with force and the same random
     numbers it stores the same scorer again *)
  Theorem get_scorer_repeat :
    forall (o : obj) q f rnd q' rnd',
      let o1 := step o (GetScorer P Pq R q f rnd) in
      step o1 (GetScorer P Pq R q' false rnd') = o1 /\
      (oscorer o = None \/ f = true -> step o1 (GetScorer P Pq R q true rnd) = o1).
  Proof.
    intros o q f rnd q' rnd'. cbn [step]. split.
    - destruct (oscorer o) as [s|] eqn:E; [destruct f|]; cbn [step o_scorer]; try rewrite E; reflexivity.
    - intros H. destruct (oscorer o) as [s|] eqn:E; [destruct f|]; cbn [step o_scorer o_base o_columns]; try reflexivity.
      destruct H as [H|H]; discriminate H.
  Qed.
End AnalysisProofs.
