(* Boolean checkers of the clauses of C12 and C17.  They are run on what the
   IMPLEMENTATION returned (the snapshots of a case), against the rows the
   implementation itself reports ([s_data]) - the model is not consulted,
   except for the shipped alias table wordlist_rc and the case-folding keys.
   Their specifications (checker = true -> clause) are in WordlistCheckProofs.v. *)
From Coq Require Import ZArith QArith List Bool String.
From LV Require Import Common.Cases Wordlist.Rows Wordlist.Index Wordlist.Views Wordlist.Renumber
     Wordlist.Dist Wordlist.Paps Wordlist.WordlistExec.
From LVGen Require Import WordlistRc.
Import ListNotations.
Local Open Scope Z_scope.

(* ---------------------------------------------------------------- helpers *)
Definition ccount (x : cell) (l : list cell) : nat := List.length (filter (cell_eqb x) l).
Definition cperm_b (a b : list cell) : bool :=
  forallb (fun x => Nat.eqb (ccount x a) (ccount x b)) (a ++ b).
Definition zcount (x : Z) (l : list Z) : nat := List.length (filter (Z.eqb x) l).
Definition zsubset_b (a b : list Z) : bool := forallb (fun x => zmem x b) a.
Fixpoint znodup_b (l : list Z) : bool :=
  match l with [] => true | x :: t => negb (zmem x t) && znodup_b t end.
Fixpoint sortedb (K : keys) (l : list Z) : bool :=
  match l with
  | x :: t => match t with y :: _ => klt K x y | [] => true end && sortedb K t
  | [] => true
  end.
Definition aget (A : list (list Z)) (i j : nat) : Z := nth j (nth i A []) 0.
Definition nth_Z (l : list Z) (j : nat) : Z := nth j l (-1000001).

(* where a spelling must lead, according to the shipped alias table alone:
   the column of that very name if there is one, else the column of the
   configured name whose name/alias it is (in lower or upper case) *)
Definition spells (s a : string) : bool := String.eqb (lower a) s || String.eqb (upper a) s.
Definition canon_of (s : string) : option string :=
  fold_left (fun acc ln => if existsb (spells s) (fst ln :: snd ln) then Some (fst ln) else acc) wordlist_rc None.
Fixpoint sindex (s : string) (l : list string) : option nat :=
  match l with
  | [] => None
  | x :: t => if String.eqb x s then Some O else option_map S (sindex s t)
  end.
Definition by_name (s : string) (columns : list string) : option nat :=
  match find (fun x => spells s x) columns with Some x => sindex x columns | None => None end.
Definition expected_idx (s : string) (columns : list string) : option nat :=
  match by_name s columns with
  | Some k => Some k            (* a column of that very name (lower/upper case) *)
  | None => match canon_of s with
            | Some c => sindex c columns
            | None => None
            end
  end.
Definition entry_idx (s : string) (columns : list string) : option (option nat) :=
  if String.eqb s "" then Some None else option_map Some (expected_idx s columns).

Section Check.
  Variables (K : keys) (S : snapshot).
  Let D := s_data S.
  Let A := s_array S.
  Let cols := s_cols S.
  Let rws := s_rows S.
  Definition ri_of : option nat := sindex "concept" (s_columns S).
  Definition ci_of : option nat := sindex "doculect" (s_columns S).

  Section WithIdx.
  Variables (ri ci : nat).

  (* ---- rows / cols / len ------------------------------------------------ *)
  Definition rowscols_b : bool :=
    sortedb K rws && zsubset_b rws (map (rkey ri) D) && zsubset_b (map (rkey ri) D) rws
    && sortedb K cols && zsubset_b cols (map (rkey ci) D) && zsubset_b (map (rkey ci) D) cols
    && (s_height S =? Z.of_nat (List.length rws)) && (s_width S =? Z.of_nat (List.length cols))
    && (s_len S =? Z.of_nat (List.length D)).

  (* ---- array ------------------------------------------------------------ *)
  Definition idx_of (c : Z) : list Z := match zget (s_idx S) c with Some l => l | None => [] end.
  Definition array_b : bool :=
    let flat := List.concat A in
    let h := List.length A in let w := List.length cols in
    forallb (fun r =>
      Nat.eqb (zcount (fst r) flat) 1
      && existsb (fun i => existsb (fun j =>
           (aget A i j =? fst r) && (nth_Z cols j =? rkey ci r) && zmem (Z.of_nat i) (idx_of (rkey ri r)))
           (seq 0 w)) (seq 0 h)) D
    && Nat.eqb (List.length (nonzero flat)) (List.length D)
    && forallb (fun row => Nat.eqb (List.length row) w) A.

  (* ---- views -------------------------------------------------------------- *)
  Definition lines_of (c : Z) : list (list Z) := map (fun i => nth (Z.to_nat i) A []) (idx_of c).
  Definition crows (c : Z) : list row := filter (fun r => rkey ri r =? c) D.
  Definition lrows (l : Z) : list row := filter (fun r => rkey ci r =? l) D.
  Definition opt_cells (rs : list row) (e : option nat) : option (list cell) :=
    match rs with [] => None | _ => Some (map (ent_row e) rs) end.

  Definition views_entry_b (e : option nat) (ev : entry_views) : bool :=
    (* get_list(row=c): the lines _idx records, mapped through the entry; flat: the matching rows *)
    Nat.eqb (List.length (ev_list_row ev)) (List.length rws)
    && forallb (fun cv => let c := fst cv in let v := snd cv in
         cll_eqb (fst v) (map (map (ent D e)) (lines_of c))
         && cperm_b (snd v) (map (ent_row e) (crows c))) (combine rws (ev_list_row ev))
    (* get_dict(row=c): every language of cols, with exactly the rows of the cell *)
    && Nat.eqb (List.length (ev_dict_row ev)) (List.length rws)
    && forallb (fun cd => let c := fst cd in let dd := snd cd in
         zsubset_b (map fst dd) cols && znodup_b (map fst dd)
         && forallb (fun l => option_eqb cl_eqb (zget dd l) (Some (map (ent_row e) (cellrows D ri ci c l)))) cols)
         (combine rws (ev_dict_row ev))
    (* get_list(col=l) *)
    && Nat.eqb (List.length (ev_list_col ev)) (List.length cols)
    && forallb (fun jv => let j := fst jv in let v := snd jv in
         cl_eqb (fst v) (map (ent D e) (column A j))
         && cperm_b (snd v) (map (ent_row e) (lrows (nth_Z cols j)))) (combine (seq 0 (List.length cols)) (ev_list_col ev))
    (* get_dict(col=l): every concept with a row in l, with exactly the rows of the cell *)
    && Nat.eqb (List.length (ev_dict_col ev)) (List.length cols)
    && forallb (fun ld => let l := fst ld in let dd := snd ld in
         zsubset_b (map fst dd) rws && znodup_b (map fst dd)
         && forallb (fun c => option_eqb cl_eqb (zget dd c) (opt_cells (cellrows D ri ci c l) e)) rws)
         (combine cols (ev_dict_col ev))
    (* get_entries *)
    && match e with Some _ => cll_eqb (ev_entries ev) (map (map (ent D e)) A) | None => true end.

  Definition views_b (q : queries) : bool :=
    forallb (fun sv => match entry_idx (fst sv) (s_columns S), snd sv with
                       | Some e, Some ev => views_entry_b e ev
                       | _, _ => true
                       end) (combine (q_entries q) (s_views S))
    && match s_iter S, all_some (map (fun s => sindex s (s_columns S)) (q_iter q)) with
       | Some it, Some ks => zcl_eqb it (map (fun r => (fst r, map (fun k => nth k (snd r) POISON) ks)) D)
       | _, _ => true
       end.

  (* ---- etymdict ----------------------------------------------------------- *)
  Definition etym_spec (ref : nat) (cog l : Z) : list Z :=
    flat_map (fun r => if rkey ci r =? l then repeat (fst r) (zcount cog (carried ref r)) else []) D.
  Definition etym_one_b (ref : nat) (e : option nat) (E : list (Z * list (list cell))) : bool :=
    znodup_b (map fst E)
    && forallb (fun cog => existsb (fun r => zmem cog (carried ref r)) D) (map fst E)
    && forallb (fun r => zsubset_b (carried ref r) (map fst E)) D
    && forallb (fun kv =>
         Nat.eqb (List.length (snd kv)) (List.length cols)
         && forallb (fun js => cl_eqb (snd js) (map (ent D e) (etym_spec ref (fst kv) (nth_Z cols (fst js)))))
                    (combine (seq 0 (List.length cols)) (snd kv))) E.
  Definition etym_b (q : queries) : bool :=
    forallb (fun sv => match entry_idx (fst sv) (s_columns S), snd sv with
                       | Some e, Some ev =>
                           forallb (fun re => match expected_idx (fst re) (s_columns S), snd re with
                                              | Some ref, Some E => etym_one_b ref e E
                                              | _, _ => true
                                              end) (combine (q_refs q) (ev_etym ev))
                       | _, _ => true
                       end) (combine (q_entries q) (s_views S)).

  (* ---- alias reachability ------------------------------------------------- *)
  Definition alias_b (q : queries) : bool :=
    forallb (fun sv => match expected_idx (fst sv) (s_columns S) with
                       | Some k => option_eqb cl_eqb (snd sv) (Some (map (fun r => nth k (snd r) POISON) D))
                       | None => true
                       end) (combine (q_items q) (s_items S))
    && forallb (fun sv => match entry_idx (fst sv) (s_columns S), snd sv with
                          | Some _, None => false          (* a reachable spelling raised KeyError *)
                          | _, _ => true
                          end) (combine (q_entries q) (s_views S)).

  (* ---- attribute access and keyword views ------------------------------------ *)
  (* wl.<s>: a spelling of the concept column gives rows, of the language column
     cols, of any other column its entry table - whatever the metadata holds;
     get_list(s=name, flat=True) lists the rows of that language / concept *)
  Definition dim_of (s : string) : option bool :=       (* Some true: concepts, Some false: languages *)
    match canon_of s with
    | Some c => if String.eqb c "concept" then Some true else if String.eqb c "doculect" then Some false else None
    | None => None
    end.
  Definition attr_b (q : queries) : bool :=
    forallb (fun sa => match dim_of (fst sa) with
                       | Some true => match snd sa with AList l => zl_eqb l rws | _ => false end
                       | Some false => match snd sa with AList l => zl_eqb l cols | _ => false end
                       | None => match expected_idx (fst sa) (s_columns S), snd sa with
                                 | Some k, ATable t => cll_eqb t (map (map (ent D (Some k))) A)
                                 | Some _, _ => false
                                 | None, _ => true
                                 end
                       end) (combine (q_attrs q) (s_attrs S))
    && forallb (fun kr => match dim_of (fst (fst kr)), snd kr with
                          | Some true, Some l => cperm_b l (map (ent_row None) (crows (snd (fst kr))))
                          | Some false, Some l => cperm_b l (map (ent_row None) (lrows (snd (fst kr))))
                          | Some true, None => negb (zmem (snd (fst kr)) rws)
                          | Some false, None => negb (zmem (snd (fst kr)) cols)
                          | None, _ => true
                          end) (combine (q_kws q) (s_kws S)).

  (* ---- distances ---------------------------------------------------------- *)
  Definition dst_formula (ref : nat) (ignore : bool) (l1 l2 : Z) : Q := dst_decl D ri ci rws ref ignore l1 l2.
  Definition qget (m : list (list Q)) (i j : nat) : Q := nth j (nth i m []) (-(1))%Q.
  Definition dst_one_b (ref : nat) (ignore : bool) (m : list (list Q)) : bool :=
    let w := List.length cols in
    Nat.eqb (List.length m) w && forallb (fun r => Nat.eqb (List.length r) w) m
    && forallb (fun i => forallb (fun j =>
         Qeq_bool (qget m i j) (qget m j i)
         && Qle_bool 0 (qget m i j) && Qle_bool (qget m i j) 1
         && (if Nat.eqb i j then Qeq_bool (qget m i j) 0
             else Qeq_bool (qget m i j) (dst_formula ref ignore (nth_Z cols i) (nth_Z cols j))))
         (seq 0 w)) (seq 0 w).
  Definition dst_b (q : queries) : bool :=
    forallb (fun rm => match expected_idx (fst (fst rm)) (s_columns S), snd rm with
                       | Some ref, Some m => dst_one_b ref (snd (fst rm)) m
                       | Some _, None => false       (* a reachable reference column, but the call raised *)
                       | None, _ => true
                       end) (combine (q_dst q) (s_dst S)).

  (* ---- paps ----------------------------------------------------------------- *)
  Definition pap_decl (ref : nat) (marker cog l : Z) : Z := pap_code marker (pap_decl3 D ri ci ref cog l).
  Definition paps_one_b (ref : nat) (marker : Z) (p : list (Z * list Z)) : bool :=
    znodup_b (map fst p)
    && forallb (fun cog => existsb (fun r => zmem cog (carried ref r)) D) (map fst p)
    && forallb (fun r => zsubset_b (carried ref r) (map fst p)) D
    && forallb (fun kv =>
         zl_eqb (snd kv) (map (pap_decl ref marker (fst kv)) cols)) p.
  Definition paps_b (q : queries) : bool :=
    forallb (fun rm => match expected_idx (fst (fst rm)) (s_columns S), snd rm with
                       | Some ref, Some p => paps_one_b ref (snd (fst rm)) p
                       | Some _, None => false
                       | None, _ => true
                       end) (combine (q_paps q) (s_paps S)).
  End WithIdx.

  Definition with_idx (f : nat -> nat -> bool) : bool :=
    match ri_of, ci_of with Some ri, Some ci => f ri ci | _, _ => false end.
End Check.

(* ---- renumber (checked on the snapshot taken right after the operation) ------ *)
Definition renum_b (S : snapshot) (o : op) : bool :=
  match o with
  | OpRenum source target override skey kempty =>
      let tname := lower (if String.eqb target "" then append source "id" else target) in
      match expected_idx source (s_columns S), sindex tname (s_columns S) with
      | Some src, Some tgt =>
          let sk := fun r => tbl_fun cell_eqb skey (-1) (nth src (snd r) POISON) in
          let tv := fun r => nth tgt (snd r) POISON in
          Nat.eqb src tgt ||
          forallb (fun a =>
            match tv a with
            | Atom n => (0 <=? n) && Bool.eqb (n =? 0) (sk a =? kempty)
            | Multi _ => false
            end
            && forallb (fun b => Bool.eqb (sk a =? sk b) (cell_eqb (tv a) (tv b))) (s_data S)) (s_data S)
      | _, _ => false
      end
  | _ => true
  end.

(* ---- the per-case code ------------------------------------------------------ *)
Definition snap_bits (K : keys) (S : snapshot) (q : queries) : list bool :=
  [ with_idx S (fun ri ci => array_b S ri ci);
    with_idx S (fun ri ci => views_b S ri ci q);
    with_idx S (fun ri ci => etym_b S ci q);
    with_idx S (fun ri ci => rowscols_b K S ri ci);
    with_idx S (fun ri ci => alias_b S q && attr_b S ri ci q);
    true;
    with_idx S (fun ri ci => dst_b S ri ci q);
    with_idx S (fun ri ci => paps_b S ri ci q) ].

Definition and_bits (a b : list bool) : list bool := map (fun p => andb (fst p) (snd p)) (combine a b).

Fixpoint bits_from (k : nat) (l : list bool) : nat :=
  match l with [] => 0%nat | b :: t => (bit k b + bits_from (Datatypes.S k) t)%nat end.

Definition wl_case_code (c : wl_case) : nat :=
  let K := keys_of (k_lowk c) (k_rawk c) in
  let all_true := [true; true; true; true; true; true; true; true] in
  let b0 := match k_snap0 c with
            | Some s0 => and_bits (snap_bits K s0 (k_q0 c))
                          [true; list_eqb (pair_eqb Z.eqb cl_eqb) (s_data s0) (keep_rows (k_data c));
                           true; true; true; true; true; true]
            | None => all_true end in
  let bs := fold_left (fun acc st =>
              match st with
              | (o, q, Some s1) =>
                  and_bits acc (and_bits (snap_bits K s1 q)
                                         [true; true; true; true; true; renum_b s1 o; true; true])
              | (_, _, None) => acc
              end) (k_steps c) b0 in
  (bit 0 (corr_ok c) + bits_from 1 bs)%nat.
