(* Wordlist rows, cells, Python-dict-like association lists, the sort that
   defines [rows]/[cols], and the name layer (read_conf alias table, header,
   _header) of lingpy.basic.parser.QLCParser.  Model only; proofs are in
   RowsProofs.v.

   Coding of Python values (done by the harness, harness/comp/wordlist.py):
     int n                 -> Atom n        (|n| < 1000)
     str ''                -> Atom 1000
     any other str         -> Atom k, k > 1000 (one code per distinct string)
     list of ints / strs   -> Multi [codes]
   so equality of cells is Python equality of the values they stand for. *)
From Coq Require Import ZArith List Bool String Ascii NArith.
Import ListNotations.
Local Open Scope Z_scope.

(* ------------------------------------------------------------------ cells *)
Inductive cell := Atom (z : Z) | Multi (l : list Z).

Fixpoint zlist_eqb (a b : list Z) : bool :=
  match a, b with
  | [], [] => true
  | x :: a', y :: b' => (x =? y) && zlist_eqb a' b'
  | _, _ => false
  end.

Definition cell_eqb (c d : cell) : bool :=
  match c, d with
  | Atom x, Atom y => x =? y
  | Multi a, Multi b => zlist_eqb a b
  | _, _ => false
  end.

Definition EMPTY : Z := 1000.            (* the code of the empty string *)

(* raw input rows: the items of the source dictionary, in dictionary order *)
Definition row := (Z * list cell)%type.

(* a row whose concept and language have been extracted *)
Record prow := { pid : Z; pconc : Z; plang : Z; pcells : list cell }.

(* ------------------------------------------- Python dict as an assoc list *)
(* insertion-ordered; assignment to an existing key keeps its position *)
Section Dict.
  Context {K V : Type} (keqb : K -> K -> bool).
  Fixpoint dget (m : list (K * V)) (k : K) : option V :=
    match m with
    | [] => None
    | (k', v) :: t => if keqb k' k then Some v else dget t k
    end.
  Fixpoint dset (m : list (K * V)) (k : K) (v : V) : list (K * V) :=
    match m with
    | [] => [(k, v)]
    | (k', v') :: t => if keqb k' k then (k', v) :: t else (k', v') :: dset t k v
    end.
  Definition dmem (m : list (K * V)) (k : K) : bool :=
    match dget m k with Some _ => true | None => false end.
End Dict.

Definition zget {V} := @dget Z V Z.eqb.
Definition zset {V} := @dset Z V Z.eqb.
Definition sget {V} := @dget string V String.eqb.
Definition sset {V} := @dset string V String.eqb.
Definition smem {V} := @dmem string V String.eqb.

(* ------------------------------------------------ the sort of rows / cols *)
(* sorted(set(values), key=lambda x: (x.lower(), x)).  Names are Z codes; the
   key is supplied as two functions: [lowk x] stands for x.lower() and [rawk x]
   for x itself, both embedded order-preservingly into Z (ranks).  The case
   folding is thus a parameter of the model. *)
Record keys := { lowk : Z -> Z; rawk : Z -> Z }.

Definition klt (K : keys) (x y : Z) : bool :=
  (lowk K x <? lowk K y) || ((lowk K x =? lowk K y) && (rawk K x <? rawk K y)).

Fixpoint kinsert (K : keys) (x : Z) (l : list Z) : list Z :=
  match l with
  | [] => [x]
  | y :: t => if x =? y then l
              else if klt K x y then x :: l
              else y :: kinsert K x t
  end.

Definition usort (K : keys) (l : list Z) : list Z := fold_right (kinsert K) [] l.

Fixpoint index_of (x : Z) (l : list Z) : option nat :=
  match l with
  | [] => None
  | y :: t => if y =? x then Some O else option_map S (index_of x t)
  end.

Definition zmem (x : Z) (l : list Z) : bool := existsb (Z.eqb x) l.

(* --------------------------------------------------------- ASCII case map *)
Definition lower_ascii (a : ascii) : ascii :=
  let n := N_of_ascii a in
  if ((65 <=? n) && (n <=? 90))%N then ascii_of_N (n + 32) else a.
Definition upper_ascii (a : ascii) : ascii :=
  let n := N_of_ascii a in
  if ((97 <=? n) && (n <=? 122))%N then ascii_of_N (n - 32) else a.
Fixpoint smap (f : ascii -> ascii) (s : string) : string :=
  match s with
  | EmptyString => EmptyString
  | String a t => String (f a) (smap f t)
  end.
Definition lower := smap lower_ascii.
Definition upper := smap upper_ascii.

(* ------------------------------------------------------------ name layer *)
(* one line of wordlist.rc: name, aliases (the class is not modelled) *)
Definition conf := list (string * list string).

(* parser.read_conf: aliasD (later lines overwrite earlier ones) *)
Definition conf_line (m : list (string * string)) (ln : string * list string) :=
  let name := fst ln in
  let m := sset (sset m (lower name) name) (upper name) name in
  fold_left (fun m a => sset (sset m (lower a) name) (upper a) name) (snd ln) m.
Definition read_conf (t : conf) : list (string * string) := fold_left conf_line t [].

(* alias2D[name] = sorted(set(aliases)) + [name]; only membership matters for
   what is modelled (the order of insertion of keys into _header is not
   observable through any accessor), so the list is kept unsorted *)
Definition read_conf2 (t : conf) : list (string * list string) :=
  fold_left (fun m ln => sset m (fst ln) (snd ln ++ [fst ln])) t [].

Record names := {
  n_alias  : list (string * string);        (* _alias  *)
  n_alias2 : list (string * list string);   (* _alias2 *)
  n_header : list (string * nat);           (* header : canonical name -> index *)
  n_hdr    : list (string * nat);           (* _header : every reachable spelling -> index *)
  n_columns : list string                   (* columns *)
}.

(* QLCParser.__init__, lines 95-105: names of the header that are not configured *)
Definition augment (m : list (string * string)) (name : string) :=
  let m := if smem m (lower name) then m else sset m (lower name) (lower name) in
  if smem m (upper name) then m else sset m (upper name) (lower name).

Fixpoint all_some {A} (l : list (option A)) : option (list A) :=
  match l with
  | [] => Some []
  | None :: _ => None
  | Some x :: t => option_map (cons x) (all_some t)
  end.

Fixpoint sNoDupb (l : list string) : bool :=
  match l with
  | [] => true
  | x :: t => negb (existsb (String.eqb x) t) && sNoDupb t
  end.

(* the loop "for alias in self._alias: try: _header[alias] = _header[_alias[alias]]" *)
Definition hdr_loop (alias : list (string * string)) (h : list (string * nat)) :=
  fold_left (fun h ac => match sget h (snd ac) with
                         | Some i => sset h (fst ac) i
                         | None => h
                         end) alias h.

(* None: the constructor raises (KeyError for a header spelling that is neither
   all-lower nor all-upper case of a known name).  Two header names with the
   same canonical name make the later row-length check fail as soon as there is
   a row; there always is one (an empty dictionary raises earlier), so this
   case is folded into None as well. *)
Definition init_names (t : conf) (hdr : list string) : option names :=
  let alias := fold_left augment hdr (read_conf t) in
  let alias := sset alias EmptyString EmptyString in
  match all_some (map (sget alias) hdr) with
  | None => None
  | Some canon =>
      if sNoDupb canon then
        let header := combine canon (seq 0 (List.length canon)) in
        Some {| n_alias := alias; n_alias2 := read_conf2 t; n_header := header;
                n_hdr := hdr_loop alias header; n_columns := canon |}
      else None
  end.

(* wl[id, name] resolves through _alias and header; get_list/get_dict/
   get_entries/get_etymdict resolve through _header *)
Definition resolve_item (n : names) (s : string) : option nat :=
  match sget (n_alias n) s with
  | Some c => sget (n_header n) c
  | None => None
  end.
Definition resolve_hdr (n : names) (s : string) : option nat := sget (n_hdr n) s.

(* _add_entries, the part that touches names (override=False; entry not in _header).
   Result: new names and the index of the new column. *)
Definition max_idx (h : list (string * nat)) : nat := fold_right Nat.max O (map snd h).

Definition add_name (n : names) (entry : string) : option (names * nat) :=
  let le := lower entry in
  let '(alias2, alias) :=
    if smem (n_alias2 n) le then (n_alias2 n, n_alias n)
    else (sset (n_alias2 n) le [le; upper entry],
          sset (sset (n_alias n) le le) (upper entry) le) in
  match sget alias le with
  | None => None
  | Some name =>
      match sget alias2 name with
      | None => None                                (* KeyError *)
      | Some spellings =>
          let newIdx := S (max_idx (n_hdr n)) in
          let hdr := fold_left (fun h a => sset h a newIdx) spellings (n_hdr n) in
          (* "for a in [a for a, n in self._alias.items() if n == name]: self._header[a] = newIdx" *)
          let hdr := fold_left (fun h an => if String.eqb (snd an) name then sset h (fst an) newIdx else h)
                               alias hdr in
          match sget hdr name with
          | None => None
          | Some i => Some ({| n_alias := alias; n_alias2 := alias2;
                               n_header := sset (n_header n) name i;
                               n_hdr := hdr; n_columns := n_columns n ++ [name] |}, i)
          end
      end
  end.

(* ------------------------------------------------------- file input: types *)
(* The class column of wordlist.rc, as far as it is modelled: what
   QLCParser.__init__ does to the cells of a column when the wordlist is read
   from a file (self._class[head](cell); a ValueError leaves the string). *)
Inductive kind :=
| KStr        (* str *)
| KInt        (* int *)
| KInteger    (* basictypes.integer: int(x) if x else 0 *)
| KInts       (* basictypes.ints / lambda x: [int(s) for s in x.split()] *)
| KStrs       (* basictypes.lists / lambda x: x.split() *)
| KOther.     (* anything else (floats, split(" "), ...): outside the model *)

(* a cell of the file as the harness pre-parses it with Python's own str.split
   and int: the code of the whole (stripped) string, int(string) if that
   succeeds, and the whitespace-separated tokens with int(token) if that succeeds *)
Record raw := { r_str : Z; r_int : option Z; r_toks : list (Z * option Z) }.

Definition conv (k : kind) (r : raw) : option cell :=
  match k with
  | KStr => Some (Atom (r_str r))
  | KInt => Some (match r_int r with Some z => Atom z | None => Atom (r_str r) end)
  | KInteger => Some (if r_str r =? EMPTY then Atom 0
                      else match r_int r with Some z => Atom z | None => Atom (r_str r) end)
  | KInts => Some (match all_some (map snd (r_toks r)) with
                   | Some zs => Multi zs
                   | None => Atom (r_str r)           (* ValueError: the string stays *)
                   end)
  | KStrs => Some (Multi (map fst (r_toks r)))
  | KOther => None
  end.

(* parser.read_conf: classD, keyed like aliasD (later lines overwrite earlier ones) *)
Definition kinds_line (m : list (string * kind)) (ln : (string * list string) * kind) :=
  let name := fst (fst ln) in let k := snd ln in
  let m := sset (sset m (lower name) k) (upper name) k in
  fold_left (fun m a => sset (sset m (lower a) k) (upper a) k) (snd (fst ln)) m.
Definition read_kinds (t : list ((string * list string) * kind)) : list (string * kind) :=
  fold_left kinds_line t [].

(* the class of a header column: configured, or str for an unknown name *)
Definition kind_of (kd : list (string * kind)) (h : string) : kind :=
  match sget kd h with Some k => k | None => KStr end.

Fixpoint conv_cells (ks : list kind) (rs : list raw) : option (list cell) :=
  match ks, rs with
  | k :: ks', r :: rs' =>
      match conv k r, conv_cells ks' rs' with
      | Some c, Some cs => Some (c :: cs)
      | _, _ => None
      end
  | [], rs' => Some (map (fun r => Atom (r_str r)) rs')     (* cells beyond the header: untouched strings *)
  | _ :: _, [] => Some []
  end.

(* the typed rows of a file: None when a column has a class outside the model *)
Definition convert_rows (kd : list (string * kind)) (hdr : list string) (d : list (Z * list raw))
  : option (list row) :=
  all_some (map (fun r => option_map (pair (fst r)) (conv_cells (map (kind_of kd) hdr) (snd r))) d).

(* ------------------------------------------------------------- row layer *)
(* self._data: integer keys k != 0 with str(k).isnumeric(), i.e. k > 0 *)
Definition keep_rows (d : list row) : list row := filter (fun r => 0 <? fst r) d.

Definition name_of (c : option cell) : option Z :=
  match c with
  | Some (Atom z) => if EMPTY <? z then Some z else None
  | _ => None
  end.

(* concept and language of every row; None when a row is too short/long
   (ValueError) or a name is not a non-empty string (outside the model) *)
Definition to_prow (width ri ci : nat) (r : row) : option prow :=
  if Nat.eqb (List.length (snd r)) width then
    match name_of (nth_error (snd r) ri), name_of (nth_error (snd r) ci) with
    | Some c, Some l => Some {| pid := fst r; pconc := c; plang := l; pcells := snd r |}
    | _, _ => None
    end
  else None.

Definition to_prows (width ri ci : nat) (d : list row) : option (list prow) :=
  all_some (map (to_prow width ri ci) d).
