(* lingpy.basic.ops.get_score (mode 'swadesh') and wl2dst over exact rationals.
   Model only. *)
From Coq Require Import ZArith QArith List Bool.
From LV Require Import Wordlist.Rows Wordlist.Index Wordlist.Views.
Import ListNotations.
Local Open Scope Z_scope.

Definition cdget (d : list (Z * list cell)) (c : Z) : option (list cell) := zget d c.

(* [k for k in dictA[concept] if k in dictB[concept]] is non-empty *)
Definition share (a b : list cell) : bool := existsb (fun k => existsb (cell_eqb k) b) a.

(* the loop over wl.concepts: (shared, missing) *)
Definition count_step (dA dB : list (Z * list cell)) (ignore : bool) (sm : Z * Z) (c : Z) : Z * Z :=
  match cdget dA c, cdget dB c with
  | Some a, Some b => if share a b then (fst sm + 1, snd sm) else sm
  | _, _ => (fst sm, if ignore then snd sm else snd sm + 1)
  end.
Definition counts (dA dB : list (Z * list cell)) (rows : list Z) (ignore : bool) : Z * Z :=
  fold_left (count_step dA dB ignore) rows (0, 0).

(* 1 - shared / (wl.height - missing); the ZeroDivisionError branch returns 1.0 *)
Definition score_of (shared den : Z) : Q :=
  if den =? 0 then 1%Q else (1 - inject_Z shared / inject_Z den)%Q.

Definition get_score (dA dB : list (Z * list cell)) (rows : list Z) (ignore : bool) : Q :=
  let sm := counts dA dB rows ignore in
  score_of (fst sm) (Z.of_nat (length rows) - snd sm).

Section Dst.
  Variables (D : list row) (ri : nat) (X : index) (ref : nat) (ignore : bool).

  Definition lang_dict (l : Z) : list (Z * list cell) :=
    match get_dict_col D ri X l (Some ref) with Some d => d | None => [] end.

  (* wl2dst: get_score is evaluated for i < j and the value stored at (i, j)
     and (j, i); the diagonal keeps the integer 0 *)
  Definition dst_entry (i j : nat) : Q :=
    let c := x_cols X in
    if Nat.ltb i j then get_score (lang_dict (nth i c 0)) (lang_dict (nth j c 0)) (x_rows X) ignore
    else if Nat.ltb j i then get_score (lang_dict (nth j c 0)) (lang_dict (nth i c 0)) (x_rows X) ignore
    else 0%Q.

  Definition wl2dst : list (list Q) :=
    let n := length (x_cols X) in
    map (fun i => map (dst_entry i) (seq 0 n)) (seq 0 n).
End Dst.

(* ------------------------------------------------ the property's formula *)
(* stated on the rows alone: a language attests a concept when it has a row
   for it; two languages share a cognate id in a concept when two of their
   rows for it carry equal values in the reference column *)
Section Decl.
  Variables (D : list row) (ri ci : nat) (rws : list Z).
  Definition attested (c l : Z) : bool := negb (is_nil (cellrows D ri ci c l)).
  Definition shares (ref : nat) (c l1 l2 : Z) : bool :=
    existsb (fun r1 => existsb (fun r2 => cell_eqb (nth ref (snd r1) POISON) (nth ref (snd r2) POISON))
                               (cellrows D ri ci c l2)) (cellrows D ri ci c l1).
  (* 1 - (concepts with a shared cognate id) / (concepts both attest, or all
     concepts when missing data is ignored); 1 when that denominator is 0 *)
  Definition dst_decl (ref : nat) (ignore : bool) (l1 l2 : Z) : Q :=
    let both := filter (fun c => attested c l1 && attested c l2) rws in
    let shared := filter (fun c => shares ref c l1 l2) both in
    score_of (Z.of_nat (length shared)) (Z.of_nat (if ignore then length rws else length both)).
End Decl.
