(* C17, distances: the matrix wl2dst builds is symmetric, has a zero diagonal,
   entries in [0,1], and each entry is the property's formula on the rows. *)
From Coq Require Import ZArith QArith List Bool Lia Lqa.
From LV Require Import Wordlist.Rows Wordlist.RowsProofs Wordlist.Index Wordlist.IndexProofs
     Wordlist.Views Wordlist.ViewsProofs Wordlist.Dist.
Import ListNotations.
Local Open Scope Z_scope.

(* ------------------------------------------------------------- counting *)
Definition both_at (dA dB : list (Z * list cell)) (c : Z) : bool :=
  match cdget dA c, cdget dB c with Some _, Some _ => true | _, _ => false end.
Definition share_at (dA dB : list (Z * list cell)) (c : Z) : bool :=
  match cdget dA c, cdget dB c with Some a, Some b => share a b | _, _ => false end.

Lemma counts_acc dA dB ignore rows : forall s m,
  fold_left (count_step dA dB ignore) rows (s, m) =
  (s + Z.of_nat (length (filter (share_at dA dB) (filter (both_at dA dB) rows))),
   m + if ignore then 0 else Z.of_nat (length (filter (fun c => negb (both_at dA dB c)) rows))).
Proof.
  induction rows as [|c t IH]; intros s m.
  - cbn. destruct ignore; f_equal; lia.
  - cbn [fold_left]. unfold count_step at 2. cbn [fst snd].
    assert (Eb : both_at dA dB c = match cdget dA c, cdget dB c with Some _, Some _ => true | _, _ => false end) by reflexivity.
    assert (Es : share_at dA dB c = match cdget dA c, cdget dB c with Some a, Some b => share a b | _, _ => false end) by reflexivity.
    cbn [filter]. destruct (cdget dA c) as [a|]; [destruct (cdget dB c) as [b|]|]; rewrite Eb; cbn [negb filter].
    + rewrite Es. destruct (share a b); rewrite IH; cbn [length]; destruct ignore; f_equal; lia.
    + rewrite IH. cbn [length]. destruct ignore; f_equal; lia.
    + rewrite IH. cbn [length]. destruct ignore; f_equal; lia.
Qed.

Lemma filter_partition_length {A} (p : A -> bool) (l : list A) :
  (length (filter p l) + length (filter (fun x => negb (p x)) l) = length l)%nat.
Proof.
  induction l as [|a t IH]; [reflexivity|]. cbn [filter]. destruct (p a); cbn [negb length]; lia.
Qed.

Lemma filter_length_le {A} (p : A -> bool) (l : list A) : (length (filter p l) <= length l)%nat.
Proof. induction l as [|a t IH]; [cbn; lia|]. cbn [filter]. destruct (p a); cbn [length]; lia. Qed.

Lemma get_score_spec dA dB rows ignore :
  get_score dA dB rows ignore =
  score_of (Z.of_nat (length (filter (share_at dA dB) (filter (both_at dA dB) rows))))
           (Z.of_nat (if ignore then length rows else length (filter (both_at dA dB) rows))).
Proof.
  unfold get_score, counts. rewrite counts_acc. cbn [fst snd]. f_equal.
  pose proof (filter_partition_length (both_at dA dB) rows) as E. destruct ignore; lia.
Qed.

(* ---------------------------------------------------------------- range *)
Lemma score_of_range s d : 0 <= s <= d -> (0 <= score_of s d /\ score_of s d <= 1)%Q.
Proof.
  intros [H1 H2]. unfold score_of. destruct (d =? 0) eqn:E; [split; lra|].
  apply Z.eqb_neq in E. assert (Hd : 0 < d) by lia.
  assert (Hq : (0 < inject_Z d)%Q) by (change (inject_Z 0 < inject_Z d)%Q; rewrite <- Zlt_Qlt; exact Hd).
  assert (A : (0 <= inject_Z s / inject_Z d)%Q).
  { apply Qle_shift_div_l; [exact Hq|]. rewrite Qmult_0_l. change (inject_Z 0 <= inject_Z s)%Q. rewrite <- Zle_Qle. exact H1. }
  assert (B : (inject_Z s / inject_Z d <= 1)%Q).
  { apply Qle_shift_div_r; [exact Hq|]. rewrite Qmult_1_l. rewrite <- Zle_Qle. exact H2. }
  split; lra.
Qed.

Lemma get_score_range dA dB rows ignore :
  (0 <= get_score dA dB rows ignore /\ get_score dA dB rows ignore <= 1)%Q.
Proof.
  rewrite get_score_spec. apply score_of_range.
  pose proof (filter_length_le (share_at dA dB) (filter (both_at dA dB) rows)).
  pose proof (filter_length_le (both_at dA dB) rows). destruct ignore; lia.
Qed.

(* ------------------------------------------------- the matrix, by position *)
Section Matrix.
  Variables (D : list row) (ri : nat) (X : index) (ref : nat) (ignore : bool).

  Theorem dst_symmetric i j : dst_entry D ri X ref ignore i j = dst_entry D ri X ref ignore j i.
  Proof.
    unfold dst_entry. destruct (Nat.ltb i j) eqn:E1, (Nat.ltb j i) eqn:E2; try reflexivity.
    apply Nat.ltb_lt in E1. apply Nat.ltb_lt in E2. lia.
  Qed.

  Theorem dst_zero_diag i : dst_entry D ri X ref ignore i i = 0%Q.
  Proof. unfold dst_entry. rewrite Nat.ltb_irrefl. reflexivity. Qed.

  Theorem dst_range i j :
    (0 <= dst_entry D ri X ref ignore i j /\ dst_entry D ri X ref ignore i j <= 1)%Q.
  Proof.
    unfold dst_entry. destruct (Nat.ltb i j); [apply get_score_range|].
    destruct (Nat.ltb j i); [apply get_score_range|]. split; lra.
  Qed.

  Lemma wl2dst_entry i j : (i < length (x_cols X))%nat -> (j < length (x_cols X))%nat ->
    nth j (nth i (wl2dst D ri X ref ignore) []) 0%Q = dst_entry D ri X ref ignore i j.
  Proof.
    intros Hi Hj. unfold wl2dst.
    rewrite (nth_indep _ [] (map (dst_entry D ri X ref ignore 0) (seq 0 (length (x_cols X)))))
      by (rewrite map_length, seq_length; exact Hi).
    rewrite (map_nth (fun i => map (dst_entry D ri X ref ignore i) (seq 0 (length (x_cols X)))) _ O).
    rewrite seq_nth by exact Hi. cbn [plus].
    rewrite (nth_indep _ 0%Q (dst_entry D ri X ref ignore i 0)) by (rewrite map_length, seq_length; exact Hj).
    rewrite (map_nth (dst_entry D ri X ref ignore i) _ O). rewrite seq_nth by exact Hj. reflexivity.
  Qed.
End Matrix.

(* -------------------------------------------------------------- formula *)
Lemma cell_eqb_sym a b : cell_eqb a b = cell_eqb b a.
Proof.
  destruct a as [x|l], b as [y|l']; cbn [cell_eqb]; try reflexivity; [apply Z.eqb_sym|].
  revert l'. induction l as [|u t IH]; intros [|v t']; cbn [zlist_eqb]; try reflexivity.
  rewrite (Z.eqb_sym u v), IH. reflexivity.
Qed.

Lemma existsb_swap {A B} (p : A -> B -> bool) (la : list A) (lb : list B) :
  existsb (fun a => existsb (p a) lb) la = existsb (fun b => existsb (fun a => p a b) la) lb.
Proof.
  apply eq_true_iff_eq. rewrite !existsb_exists. split.
  - intros [a [Ha H]]. apply existsb_exists in H. destruct H as [b [Hb H]]. exists b. split; [exact Hb|].
    apply existsb_exists. exists a. auto.
  - intros [b [Hb H]]. apply existsb_exists in H. destruct H as [a [Ha H]]. exists a. split; [exact Ha|].
    apply existsb_exists. exists b. auto.
Qed.

Lemma existsb_ext' {A} (p q : A -> bool) (l : list A) : (forall x, p x = q x) -> existsb p l = existsb q l.
Proof. intros E. induction l as [|a t IH]; [reflexivity|]. cbn [existsb]. rewrite E, IH. reflexivity. Qed.

Lemma shares_sym D ri ci ref c l1 l2 : shares D ri ci ref c l1 l2 = shares D ri ci ref c l2 l1.
Proof.
  unfold shares. rewrite existsb_swap. apply existsb_ext'. intros r2. apply existsb_ext'. intros r1. apply cell_eqb_sym.
Qed.

Lemma filter_ext_in' {A} (p q : A -> bool) (l : list A) : (forall x, In x l -> p x = q x) -> filter p l = filter q l.
Proof.
  induction l as [|a t IH]; intros H; [reflexivity|]. cbn [filter]. rewrite (H a (or_introl eq_refl)).
  rewrite IH; [reflexivity|]. intros x Hx. apply H. right. exact Hx.
Qed.

Lemma dst_decl_sym D ri ci rws ref ignore l1 l2 : dst_decl D ri ci rws ref ignore l1 l2 = dst_decl D ri ci rws ref ignore l2 l1.
Proof.
  unfold dst_decl.
  assert (E : filter (fun c => attested D ri ci c l1 && attested D ri ci c l2) rws =
              filter (fun c => attested D ri ci c l2 && attested D ri ci c l1) rws).
  { apply filter_ext. intros c. apply andb_comm. }
  rewrite E. rewrite (filter_ext (fun c => shares D ri ci ref c l1 l2) (fun c => shares D ri ci ref c l2 l1));
    [reflexivity|]. intros c. apply shares_sym.
Qed.

Lemma existsb_map {A B} (f : A -> B) (p : B -> bool) (l : list A) : existsb p (map f l) = existsb (fun x => p (f x)) l.
Proof. induction l as [|a t IH]; [reflexivity|]. cbn [map existsb]. rewrite IH. reflexivity. Qed.

Section Formula.
  Variables (K : keys) (D : list row) (ri ci : nat) (ref : nat) (ignore : bool).
  Hypothesis ids_distinct : NoDup (map fst D).
  Hypothesis ids_pos : forall r, In r D -> 0 < fst r.
  Let X := build_index K (map (mkp ri ci) D).

  Lemma lang_dict_spec l : In l (x_cols X) -> forall c,
    cdget (lang_dict D ri X ref l) c =
    match cellrows D ri ci c l with [] => None | rs => Some (map (ent_row (Some ref)) rs) end.
  Proof.
    intros Hl c. unfold lang_dict.
    destruct (get_dict_col_spec K D ri ci ids_distinct ids_pos l (Some ref) Hl) as [out [E1 E2]].
    fold X in E1. rewrite E1. unfold cdget. apply E2.
  Qed.

  Lemma score_decl l1 l2 : In l1 (x_cols X) -> In l2 (x_cols X) ->
    get_score (lang_dict D ri X ref l1) (lang_dict D ri X ref l2) (x_rows X) ignore =
    dst_decl D ri ci (x_rows X) ref ignore l1 l2.
  Proof.
    intros H1 H2. rewrite get_score_spec. unfold dst_decl.
    assert (Eb : forall c, both_at (lang_dict D ri X ref l1) (lang_dict D ri X ref l2) c =
                           attested D ri ci c l1 && attested D ri ci c l2).
    { intros c. unfold both_at, attested. rewrite (lang_dict_spec l1 H1 c), (lang_dict_spec l2 H2 c).
      destruct (cellrows D ri ci c l1), (cellrows D ri ci c l2); reflexivity. }
    assert (Es : forall c, share_at (lang_dict D ri X ref l1) (lang_dict D ri X ref l2) c =
                           attested D ri ci c l1 && attested D ri ci c l2 && shares D ri ci ref c l1 l2).
    { intros c. unfold share_at, attested, shares. rewrite (lang_dict_spec l1 H1 c), (lang_dict_spec l2 H2 c).
      destruct (cellrows D ri ci c l1) as [|r1 t1] eqn:E1; [reflexivity|].
      destruct (cellrows D ri ci c l2) as [|r2 t2] eqn:E2; [cbn; try rewrite andb_false_r; reflexivity|].
      cbn [is_nil negb andb]. unfold share. rewrite existsb_map. apply existsb_ext'. intros ra.
      rewrite existsb_map. reflexivity. }
    rewrite (filter_ext _ _ Eb).
    rewrite (filter_ext_in' (share_at (lang_dict D ri X ref l1) (lang_dict D ri X ref l2))
                            (fun c => shares D ri ci ref c l1 l2)).
    - reflexivity.
    - intros c Hc. apply filter_In in Hc. destruct Hc as [_ Hc]. rewrite Es, Hc. reflexivity.
  Qed.

  (* each entry off the diagonal equals 1 - shared / attested-by-both (or / all
     concepts when missing data is ignored), 1 when the denominator is 0 *)
  Theorem dst_formula i j li lj : i <> j ->
    nth_error (x_cols X) i = Some li -> nth_error (x_cols X) j = Some lj ->
    dst_entry D ri X ref ignore i j = dst_decl D ri ci (x_rows X) ref ignore li lj.
  Proof.
    intros N Hi Hj. unfold dst_entry.
    assert (Ei : nth i (x_cols X) 0 = li) by (apply nth_error_nth; exact Hi).
    assert (Ej : nth j (x_cols X) 0 = lj) by (apply nth_error_nth; exact Hj).
    assert (Li : In li (x_cols X)) by (eapply nth_error_In; exact Hi).
    assert (Lj : In lj (x_cols X)) by (eapply nth_error_In; exact Hj).
    rewrite Ei, Ej. destruct (Nat.ltb i j) eqn:E1.
    - apply score_decl; assumption.
    - destruct (Nat.ltb j i) eqn:E2.
      + rewrite dst_decl_sym. apply score_decl; assumption.
      + apply Nat.ltb_ge in E1. apply Nat.ltb_ge in E2. lia.
  Qed.
End Formula.

(* for any well-formed wordlist (after the constructor, after add_entries) *)
Theorem wf_dst_formula K w ref ignore i j li lj : wf K w -> i <> j ->
  nth_error (x_cols (w_index w)) i = Some li -> nth_error (x_cols (w_index w)) j = Some lj ->
  dst_entry (w_data w) (w_ri w) (w_index w) ref ignore i j =
  dst_decl (w_data w) (w_ri w) (w_ci w) (x_rows (w_index w)) ref ignore li lj.
Proof.
  intros W. rewrite (wf_index K w W).
  exact (dst_formula K (w_data w) (w_ri w) (w_ci w) ref ignore (wf_ids K w W) (wf_pos K w W) i j li lj).
Qed.

Lemma score_of_spec (s d : Z) :
  (d <> 0 -> score_of s d = (1 - inject_Z s / inject_Z d)%Q) /\ (d = 0 -> score_of s d = 1%Q).
Proof.
  unfold score_of. split; intros H.
  - destruct (d =? 0) eqn:E; [apply Z.eqb_eq in E; contradiction|reflexivity].
  - subst d. reflexivity.
Qed.
