(* Correspondence cases for the wordlist component (C12, C17): the record the
   harness renders (input, history, everything the implementation returned),
   the model's version of the same observations, and the per-case code.
   Boolean checkers that are run on the implementation's outputs are in
   WordlistCheck.v; their specifications in the *Proofs.v files. *)
From Coq Require Import ZArith QArith List Bool String.
From LV Require Import Common.Cases Wordlist.Rows Wordlist.Index Wordlist.Views Wordlist.Renumber
     Wordlist.Dist Wordlist.Paps.
From LVGen Require Import WordlistRc.
Import ListNotations.
Local Open Scope Z_scope.

(* ------------------------------------------------------------ observations *)
Record entry_views := {
  ev_list_row : list (list (list cell) * list cell);   (* per concept of rows: get_list(row=c), flat *)
  ev_dict_row : list (list (Z * list cell));           (* per concept: get_dict(row=c) *)
  ev_list_col : list (list cell * list cell);          (* per language of cols: get_list(col=l), flat *)
  ev_dict_col : list (list (Z * list cell));           (* per language: get_dict(col=l) *)
  ev_entries : list (list cell);                       (* get_entries(entry); [] for entry '' *)
  ev_etym : list (option (list (Z * list (list cell))))  (* per queried ref: get_etymdict(ref, entry) *)
}.

Record snapshot := {
  s_rows : list Z;
  s_cols : list Z;
  s_len : Z;
  s_height : Z;
  s_width : Z;
  s_array : list (list Z);
  s_idx : list (Z * list Z);
  s_dict : list (Z * list (Z * list Z));
  s_columns : list string;
  s_data : list row;                                   (* [(k, wl[k]) for k in wl] *)
  s_iter : option (list (Z * list cell));
  s_views : list (option entry_views);                 (* per queried entry spelling *)
  s_items : list (option (list cell));                 (* per queried spelling: [wl[id, s] for id in wl] *)
  s_dst : list (option (list (list Q)));               (* per (ref, ignore_missing) *)
  s_paps : list (option (list (Z * list Z)));          (* per (ref, marker) *)
  s_attrs : list attr_res;                             (* per queried spelling: wl.<s> *)
  s_kws : list (option (list cell))                    (* per (keyword, name): get_list(keyword=name, flat=True) *)
}.

Record queries := {
  q_entries : list string;
  q_refs : list string;
  q_items : list string;
  q_iter : list string;
  q_dst : list (string * bool);
  q_paps : list (string * Z);
  q_attrs : list string;
  q_kws : list (string * Z)
}.

Inductive op :=
| OpAdd (entry source : string) (tbl : list (cell * cell)) (dflt : cell) (override : bool)
| OpRenum (source target : string) (override : bool) (skey : list (cell * Z)) (kempty : Z)
| OpSet (id : Z) (col : string) (v : cell).

Record wl_case := {
  k_hdr : list string;
  k_data : list row;
  k_row : string;                     (* Wordlist(..., row=, col=) *)
  k_col : string;
  k_meta : list (string * cell);      (* the non-integer keys of the source dictionary *)
  k_raw : option (list (Z * list raw)); (* a written file: the rows as read_qlc delivers them (strings) *)
  k_lowk : list (Z * Z);
  k_rawk : list (Z * Z);
  k_q0 : queries;
  k_snap0 : option snapshot;          (* None: the constructor raised *)
  (* the history: after every operation all views are read again (with the
     queries of that step); None: the operation, or an earlier one, raised *)
  k_steps : list (op * queries * option snapshot);
  k_conv : list (list (Z * Z))        (* the converters the renumber operations stored *)
}.

(* ------------------------------------------------------------------ model *)
Definition tbl_fun {A} (eqb : A -> A -> bool) {B} (tbl : list (A * B)) (dflt : B) (x : A) : B :=
  match dget eqb tbl x with Some y => y | None => dflt end.

Definition keys_of (lk rk : list (Z * Z)) : keys :=
  {| lowk := tbl_fun Z.eqb lk (-1); rawk := tbl_fun Z.eqb rk (-1) |}.

Definition resolve_ref (n : names) (s : string) : option nat :=
  match sget (n_alias n) s with Some c => sget (n_hdr n) c | None => None end.

Definition od {A} (d : A) (o : option A) : A := match o with Some x => x | None => d end.

Definition views_of (w : wl) (q : queries) (s : string) : option entry_views :=
  match entry_arg w s with
  | None => None
  | Some e =>
      let D := w_data w in let X := w_index w in let ri := w_ri w in let ci := w_ci w in
      Some {|
        ev_list_row := map (fun c => (od [] (get_list_row D X c e), od [] (get_list_row_flat D X c e))) (x_rows X);
        ev_dict_row := map (fun c => od [] (get_dict_row D X c e)) (x_rows X);
        ev_list_col := map (fun l => (od [] (get_list_col D X l e), od [] (get_list_col_flat D X l e))) (x_cols X);
        ev_dict_col := map (fun l => od [] (get_dict_col D ri X l e)) (x_cols X);
        ev_entries := match e with Some k => get_entries D X k | None => [] end;
        ev_etym := map (fun r => option_map (fun k => get_etymdict_entry D ci X k e) (resolve_ref (w_names w) r))
                       (q_refs q)
      |}
  end.

Definition snapshot_of (w : wl) (q : queries) : snapshot :=
  let D := w_data w in let X := w_index w in let ri := w_ri w in let ci := w_ci w in
  {| s_rows := x_rows X;
     s_cols := x_cols X;
     s_len := Z.of_nat (wl_len D);
     s_height := Z.of_nat (List.length (x_rows X));
     s_width := Z.of_nat (List.length (x_cols X));
     s_array := x_array X;
     s_idx := map (fun ci => (fst ci, map Z.of_nat (snd ci))) (x_idx X);
     s_dict := x_dict X;
     s_columns := n_columns (w_names w);
     s_data := w_data w;
     s_iter := option_map (iter_rows D) (all_some (map (sget (n_header (w_names w))) (q_iter q)));
     s_views := map (views_of w q) (q_entries q);
     s_items := map (getitem_col w) (q_items q);
     s_dst := map (fun ri_ => option_map (fun k => wl2dst D ri X k (snd ri_)) (resolve_hdr (w_names w) (fst ri_)))
                  (q_dst q);
     s_paps := map (fun rm =>
                 match resolve_ref (w_names w) (fst rm), resolve_hdr (w_names w) "concept" with
                 | Some k, Some me =>
                     option_map (map (fun kv => (fst kv, map (pap_code (snd rm)) (snd kv))))
                                (get_paps D ci X k me)
                 | _, _ => None
                 end) (q_paps q);
     s_attrs := map (get_attr w) (q_attrs q);
     s_kws := map (fun sv => kw_list w (fst sv) (snd sv)) (q_kws q)
  |}.

Definition apply_op (w : wl) (o : op) : option (wl * list (list (Z * Z))) :=
  match o with
  | OpAdd entry source tbl dflt override =>
      option_map (fun w' => (w', [])) (add_entries w entry source (tbl_fun cell_eqb tbl dflt) override)
  | OpRenum source target override skey kempty =>
      option_map (fun wc => (fst wc, [snd wc]))
                 (renumber w source target override (tbl_fun cell_eqb skey (-1)) kempty)
  | OpSet id col v => option_map (fun w' => (w', [])) (set_cell w id col v)
  end.

(* the model has no cache: every snapshot is computed from the current state *)
Fixpoint run_steps (st : option wl) (steps : list (op * queries * option snapshot))
  : list (option snapshot) * list (list (Z * Z)) :=
  match steps with
  | [] => ([], [])
  | (o, q, _) :: t =>
      match st with
      | None => let r := run_steps None t in (None :: fst r, snd r)
      | Some w =>
          match apply_op w o with
          | None => let r := run_steps None t in (None :: fst r, snd r)
          | Some (w', cv) => let r := run_steps (Some w') t in (Some (snapshot_of w' q) :: fst r, cv ++ snd r)
          end
      end
  end.

Definition run_model (c : wl_case) : option snapshot * list (option snapshot) * list (list (Z * Z)) :=
  match (match k_raw c with
         | Some rawrows => load_file wordlist_rc wordlist_rc_kinds (keys_of (k_lowk c) (k_rawk c)) (k_hdr c) rawrows
                                     (k_row c) (k_col c) (k_meta c)
         | None => build_gen wordlist_rc (keys_of (k_lowk c) (k_rawk c)) (k_hdr c) (k_data c)
                             (k_row c) (k_col c) (k_meta c)
         end) with
  | None => (None, map (fun _ => None) (k_steps c), [])
  | Some w => let r := run_steps (Some w) (k_steps c) in (Some (snapshot_of w (k_q0 c)), fst r, snd r)
  end.

(* -------------------------------------------------------------- equality *)
Definition zl_eqb := list_eqb Z.eqb.
Definition cl_eqb := list_eqb cell_eqb.
Definition cll_eqb := list_eqb cl_eqb.
Definition zcl_eqb := list_eqb (pair_eqb Z.eqb cl_eqb).
Definition q_eqb (a b : Q) : bool := Qeq_bool a b.

Definition ev_eqb (a b : entry_views) : bool :=
  list_eqb (pair_eqb cll_eqb cl_eqb) (ev_list_row a) (ev_list_row b)
  && list_eqb zcl_eqb (ev_dict_row a) (ev_dict_row b)
  && list_eqb (pair_eqb cl_eqb cl_eqb) (ev_list_col a) (ev_list_col b)
  && list_eqb zcl_eqb (ev_dict_col a) (ev_dict_col b)
  && cll_eqb (ev_entries a) (ev_entries b)
  && list_eqb (option_eqb (list_eqb (pair_eqb Z.eqb cll_eqb))) (ev_etym a) (ev_etym b).

Definition attr_eqb (a b : attr_res) : bool :=
  match a, b with
  | AList x, AList y => zl_eqb x y
  | ATable x, ATable y => cll_eqb x y
  | AAtom x, AAtom y => x =? y
  | AErr, AErr => true
  | _, _ => false
  end.

Definition snap_eqb (a b : snapshot) : bool :=
  zl_eqb (s_rows a) (s_rows b)
  && zl_eqb (s_cols a) (s_cols b)
  && (s_len a =? s_len b) && (s_height a =? s_height b) && (s_width a =? s_width b)
  && list_eqb zl_eqb (s_array a) (s_array b)
  && list_eqb (pair_eqb Z.eqb zl_eqb) (s_idx a) (s_idx b)
  && list_eqb (pair_eqb Z.eqb (list_eqb (pair_eqb Z.eqb zl_eqb))) (s_dict a) (s_dict b)
  && list_eqb String.eqb (s_columns a) (s_columns b)
  && list_eqb (pair_eqb Z.eqb cl_eqb) (s_data a) (s_data b)
  && option_eqb zcl_eqb (s_iter a) (s_iter b)
  && list_eqb (option_eqb ev_eqb) (s_views a) (s_views b)
  && list_eqb (option_eqb cl_eqb) (s_items a) (s_items b)
  && list_eqb (option_eqb (list_eqb (list_eqb q_eqb))) (s_dst a) (s_dst b)
  && list_eqb (option_eqb (list_eqb (pair_eqb Z.eqb zl_eqb))) (s_paps a) (s_paps b)
  && list_eqb attr_eqb (s_attrs a) (s_attrs b)
  && list_eqb (option_eqb cl_eqb) (s_kws a) (s_kws b).

Definition corr_ok (c : wl_case) : bool :=
  let '(m0, ms, convs) := run_model c in
  option_eqb snap_eqb m0 (k_snap0 c)
  && list_eqb (option_eqb snap_eqb) ms (map snd (k_steps c))
  && list_eqb (list_eqb (pair_eqb Z.eqb Z.eqb)) convs (k_conv c).
