(* C19, second half - distance matrices as heap objects.

   A matrix handed to a clustering function is a list of row objects; a function
   could write to them (flat_cluster(method='ward') did, before the repair F2).
   The model makes the rows heap locations so that "leaves the matrix unchanged"
   is a statement with content:  flat_cluster_h  is lingpy.algorithm.clustering.
   flat_cluster (lines 151-159): for 'ward' the rows are copied to fresh
   locations, the copy is squared in place, and average linkage runs on the copy;
   the other methods only read.  [flat_cluster_inplace] is the pre-repair code,
   kept for the non-vacuity example.  No proofs here. *)
From Coq Require Import QArith List Bool Arith.
From LV Require Import Common.Cases Cluster.Flat Cluster.FlatQ.
Import ListNotations.
Local Open Scope nat_scope.

Definition qheap := list (list Q).

Definition qget (h : qheap) (l : nat) : list Q := nth l h [].

Fixpoint qset (h : qheap) (l : nat) (v : list Q) : qheap :=
  match h, l with
  | [], _ => []
  | _ :: t, O => v :: t
  | x :: t, S l' => x :: qset t l' v
  end.

(* the matrix the caller sees: the rows at the given locations *)
Definition mview (h : qheap) (m : list nat) : mat := map (qget h) m.

(* [[cell for cell in line] for line in matrix] *)
Definition alloc_mat (h : qheap) (v : mat) : qheap * list nat :=
  (h ++ v, seq (length h) (length v)).

(* rows written back to the locations of a matrix *)
Fixpoint write_rows (h : qheap) (m : list nat) (rows : mat) : qheap :=
  match m, rows with
  | l :: tm, r :: tr => write_rows (qset h l r) tm tr
  | _, _ => h
  end.

Definition flat_cluster_h (ward : bool) (meth : method) (thr : Q) (h : qheap) (m : list nat)
  : clusters * qheap :=
  if ward then
    let (h1, m1) := alloc_mat h (mview h m) in
    let h2 := write_rows h1 m1 (ward_matrix (mview h1 m1)) in
    (flat_cluster Upgma thr (mview h2 m1), h2)
  else (flat_cluster meth thr (mview h m), h).

(* the code before the repair: squares the caller's rows *)
Definition flat_cluster_inplace (ward : bool) (meth : method) (thr : Q) (h : qheap) (m : list nat)
  : clusters * qheap :=
  if ward then
    let h2 := write_rows h m (ward_matrix (mview h m)) in
    (flat_cluster Upgma thr (mview h2 m), h2)
  else (flat_cluster meth thr (mview h m), h).

(* a function of a matrix object: returns a result and the heap it leaves *)
Definition heap_fun (R : Type) := qheap -> list nat -> R * qheap.

(* F writes to fresh locations only *)
Definition preserves {R} (F : heap_fun R) : Prop :=
  forall h m, length h <= length (snd (F h m)) /\
              forall l, l < length h -> qget (snd (F h m)) l = qget h l.

(* the result of F depends on the heap through the content of the matrix only *)
Definition extensional {R} (F : heap_fun R) : Prop :=
  forall h h' m, mview h m = mview h' m -> fst (F h m) = fst (F h' m).

Definition wfm (h : qheap) (m : list nat) : Prop := Forall (fun l => l < length h) m.

(* ------------------------------------------------------------------ *)
(* the other matrix-taking functions of clustering.py / cython/_cluster.py as
   functions of a matrix OBJECT.  The results are the models of C05/C09
   (Cluster/FlatQ.v, Cluster/Upgma.v, Cluster/Neighbor.v, tied to the code there);
   here it matters where they write. *)
From LV Require Cluster.Upgma Cluster.Neighbor.

(* cython/_cluster.flat_cluster, which matrix2groups and Wordlist.calculate('groups')
   call directly on the caller's matrix: it knows three methods; any other name
   ('ward' arrives here un-squared) leaves the singleton clusters *)
Inductive lmethod := LKnown (m : method) | LOther.

Definition singletons (n : nat) : clusters := map (fun i => (i, [i])) (seq 0 n).

Definition low_flat (lm : lmethod) (thr : Q) (m : mat) : clusters :=
  match lm with
  | LKnown meth => flat_cluster meth thr m
  | LOther => singletons (length m)
  end.

(* _neighbor: new_matrix = [[cell for cell in line] for line in matrix]; the scores
   score - averages[i] - averages[j] are written into new_matrix, below the diagonal
   and mirrored (lines 601-610); the recursion then works on squareform() lists *)
Definition nj_scored (m : mat) : mat :=
  Neighbor.mk_mat (length m) (fun a b =>
    if Nat.ltb b a then Neighbor.nj_q m b a
    else if Nat.ltb a b then Neighbor.nj_q m a b
    else dm m a a).

Inductive mfun :=
| MFlat (ward : bool) (meth : method) (thr : Q)     (* clustering.flat_cluster *)
| MLowFlat (lm : lmethod) (thr : Q)                 (* _cluster.flat_cluster; matrix2groups(thr, m, taxa, method) *)
| MUpgma                                            (* upgma / matrix2tree(..., 'upgma') *)
| MNeighbor.                                        (* neighbor / matrix2tree(..., 'neighbor') *)

Inductive mres := RClusters (c : clusters) | RRows (r : list Nwk.row).

Definition mfun_run (f : mfun) : heap_fun mres :=
  fun h m =>
    match f with
    | MFlat ward meth thr => let (r, h') := flat_cluster_h ward meth thr h m in (RClusters r, h')
    | MLowFlat lm thr => (RClusters (low_flat lm thr (mview h m)), h)
    | MUpgma => (RRows (Upgma.upgma_rows (length m) (dm (mview h m))), h)
    | MNeighbor =>
        let v := mview h m in
        let (h1, m1) := alloc_mat h v in
        let h2 := match length v with
                  | 0 | 1 | 2 => h1              (* returns before the working copy is made *)
                  | _ => write_rows h1 m1 (nj_scored v)
                  end in
        (RRows (Neighbor.nj_rows v), h2)
    end.

(* the variant a dropped working copy gives (mutant M4): the scores go into the caller's rows *)
Definition neighbor_inplace : heap_fun mres :=
  fun h m => let v := mview h m in (RRows (Neighbor.nj_rows v), write_rows h m (nj_scored v)).
