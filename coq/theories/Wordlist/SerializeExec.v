(* C13 - correspondence cases and boolean checkers (evaluated by vm_compute on what the
   implementation wrote / loaded).  Spec lemmas of the checkers are in SerializeProofs.v. *)
From Coq Require Import QArith ZArith List Bool.
From LV Require Import Common.Cases Wordlist.SerializeStr Wordlist.SerializeNum Wordlist.Serialize Wordlist.SerializeMsa.
From LVGen Require Import NamespaceRc.
Import ListNotations.
Local Open Scope Z_scope.

(* ------------------------------------------------------------------ *)
(* equality tests *)
Fixpoint cells_eqb (a b : list cell) : bool :=
  match a, b with
  | [], [] => true
  | x :: a', y :: b' => cell_eqb x y && cells_eqb a' b'
  | _, _ => false
  end.
Definition row_eqb (a b : row) : bool := (fst a =? fst b) && cells_eqb (snd a) (snd b).
Definition wl_eqb (a b : wl) : bool :=
  strs_eqb (wl_cols a) (wl_cols b) && list_eqb row_eqb (wl_rows a) (wl_rows b).
Definition res_eqb {A} (eqb : A -> A -> bool) (a b : res A) : bool :=
  match a, b with
  | Ok x, Ok y => eqb x y
  | Err, Err => true
  | _, _ => false
  end.
(* texts are compared as texts: a line break inside a cell splits the implementation's line *)
Definition lines_eqb (a b : list str) : bool := str_eqb (join [10] a) (join [10] b).

(* the loaded object has the same columns, the same row ids, and for every id the same cells
   (value and value type); the order of the rows in the dictionary is not compared *)
Definition same_objectb (w : wl) (loaded : res wl) : bool :=
  match loaded with
  | Err => false
  | Ok w' =>
      strs_eqb (wl_cols w) (wl_cols w')
      && (length (wl_rows w) =? length (wl_rows w'))%nat
      && znodupb (map fst (wl_rows w'))
      && forallb (fun r => match lookup_row (fst r) (wl_rows w') with
                           | Some cells => cells_eqb (snd r) cells
                           | None => false
                           end) (wl_rows w)
  end.

Definition pairs_eqb (a b : pairs_t) : bool :=
  list_eqb (fun x y => str_eqb (fst (fst x)) (fst (fst y)) && str_eqb (snd (fst x)) (snd (fst y))
                       && list_eqb (fun p q => (fst p =? fst q) && (snd p =? snd q)) (snd x) (snd y)) a b.

Definition zz_eqb (a b : list (Z * list str)) : bool :=
  list_eqb (fun p q => (fst p =? fst q) && strs_eqb (snd p) (snd q)) a b.

(* ------------------------------------------------------------------ *)
Definition opt_eqb {A} (eqb : A -> A -> bool) (a b : option A) : bool :=
  match a, b with Some x, Some y => eqb x y | None, None => true | _, _ => false end.

(* <msa> blocks and the alignment state *)
Definition nats_eqb : list nat -> list nat -> bool := list_eqb Nat.eqb.
Definition swaps_eqb : list (nat * nat * nat) -> list (nat * nat * nat) -> bool :=
  list_eqb (fun a b => Nat.eqb (fst (fst a)) (fst (fst b)) && Nat.eqb (snd (fst a)) (snd (fst b)) && Nat.eqb (snd a) (snd b)).
Definition rows_eqb : list (list str) -> list (list str) -> bool := list_eqb strs_eqb.
(* ids, taxa, aligned rows, plain segments *)
Definition msa_core_eqb (a b : msa_read) : bool :=
  str_eqb (r_ids a) (r_ids b) && strs_eqb (r_taxa a) (r_taxa b) && rows_eqb (r_alm a) (r_alm b)
  && rows_eqb (r_seqs a) (r_seqs b).
Definition msa_read_eqb (a b : msa_read) : bool :=
  msa_core_eqb a b && nats_eqb (r_local a) (r_local b) && swaps_eqb (r_swaps a) (r_swaps b)
  && opt_eqb strs_eqb (r_cons a) (r_cons b).
Definition state_eqb (eqb : msa_read -> msa_read -> bool) (a b : list (Z * msa_read)) : bool :=
  list_eqb (fun p q => (fst p =? fst q) && eqb (snd p) (snd q)) a b.

Definition triples_eqb (a b : list (str * Z * msa_read)) : bool :=
  list_eqb (fun p q => str_eqb (fst (fst p)) (fst (fst q)) && (snd (fst p) =? snd (fst q)) && msa_read_eqb (snd p) (snd q)) a b.
Definition expected_triples (l : list (str * list (Z * list str * msa))) : list (str * Z * msa_read) :=
  concat (map (fun p => map (fun e => (fst p, fst (fst e), expected_read (snd e))) (snd p)) l).
Definition ref_okb (ref : str) : bool := clean_strb ref && negb (existsb (fun x => (x =? 62) || (x =? 34)) ref).

Record msa_case := {
  mc_sections : list (str * list (Z * list str * msa));
                                              (* per reference column: key, stamp lines, msa of the object that is saved *)
  mc_seqs : list (list (list str));           (* its msa['seqs'], block by block *)
  mc_pre : list str;                          (* implementation: the lines it wrote before the data *)
  mc_load : res (list (str * Z * msa_read))   (* implementation: msa[ref][key] of the loaded object, in dictionary order *)
}.
Definition msa_case_code (c : msa_case) : nat :=
  let blocks := concat (map (fun p => snd p) (mc_sections c)) in
  let in_guard := forallb (fun p => ref_okb (fst p) && forallb (fun e => msa_okb (snd e)) (snd p)) (mc_sections c)
                  && rows_eqb (concat (map (fun e => map degap (m_alm (snd e))) blocks)) (concat (mc_seqs c)) in
  bit 0 (lines_eqb (msa_sections (mc_sections c)) (mc_pre c)
         && res_eqb triples_eqb (read_msa_section (mc_pre c)) (mc_load c))
  + bit 7 (negb in_guard || res_eqb triples_eqb (Ok (expected_triples (mc_sections c))) (mc_load c)).

(* ------------------------------------------------------------------ *)
(* save / load case *)
Record ser_case := {
  sc_pretty : bool;
  sc_cols : list str;
  sc_rows : list row;                       (* the object that is saved *)
  sc_stamp : list str;                      (* lines of the object's stamp *)
  sc_pre : list str;                        (* implementation: the meta / block lines it wrote before the data
                                               (not generated by the model, only scanned) *)
  sc_text : list str;                       (* implementation: the lines of the written file *)
  sc_load : res wl;                         (* implementation: the object loaded from that file (Err: it raised) *)
  sc_nfc : bool;                            (* every string of the object is NFC (decided by the harness) *)
  sc_lex : option (list str * list str * pairs_t * pairs_t);
                                            (* LexStat: taxa, concepts, pairs of the saved / of the loaded object *)
  sc_derived : bool;                        (* LexStat: check the types of the derived columns against the model's list *)
  sc_analysis : option (list (Z * list str) * list (Z * list str));
                                            (* result of the same analysis on the saved / the loaded object *)
  sc_msa : option (list str * list Z * list (Z * msa_read) * list (Z * msa_read));
                                            (* Alignments: doculects, cognate ids, msa[cogid] of the saved / of the loaded object (by key) *)
  sc_reanalysis : option (list (Z * list str) * list (Z * list str))
                                            (* Alignments only: result of align() on an already aligned object, saved / loaded *)
}.

Definition derived_kinds_okb (cols : list str) (rows : list row) : bool :=
  forallb (fun p => match index_of (fst p) cols with
                    | None => true
                    | Some i => forallb (fun r => match nth_error (snd r) i with
                                                  | Some v => kind_eqb (kind_of v) (snd p)
                                                              || match v with VList [] => true | _ => false end
                                                  | None => false
                                                  end) rows
                    end) derived_columns.

Definition ser_case_code (c : ser_case) : nat :=
  let tbl := namespace_rc in
  let w := retype_wl tbl (mk_wl (sc_cols c) (sc_rows c)) in
  let in_guard := sc_nfc c && wl_okb_gen tbl (sc_derived c) w in
  let model_text := write (sc_pretty c) (sc_pre c) (sc_stamp c) w in
  let model_load := read tbl (sc_text c) in
  bit 0 (res_eqb lines_eqb model_text (Ok (sc_text c))
         && res_eqb wl_eqb model_load (sc_load c)
         && match sc_lex c with
            | Some (taxa, concepts, before, _) => pairs_eqb (pairs (sc_cols c) taxa concepts (wl_rows w)) before
            | None => true
            end
         && (negb (sc_derived c) || derived_kinds_okb (sc_cols c) (wl_rows w))
         && match sc_msa c, sc_load c with
            | Some (taxa, cogids, saved, loaded), Ok w' =>
                state_eqb msa_core_eqb (alignments_state (sc_cols c) c_cogid taxa cogids (wl_rows w)) saved
                && state_eqb msa_core_eqb (alignments_state (wl_cols w') c_cogid taxa cogids (wl_rows w')) loaded
            | _, _ => true
            end)
  + bit 1 (negb in_guard || same_objectb w (sc_load c))
  + bit 2 (match sc_lex c with Some (_, _, before, after) => pairs_eqb before after | None => true end)
  + bit 3 (match sc_analysis c with Some (a, b) => zz_eqb a b | None => true end)
  + bit 6 (match sc_reanalysis c with Some (a, b) => zz_eqb a b | None => true end).

(* ------------------------------------------------------------------ *)
(* reader case: an arbitrary text file *)
Record rd_case := {
  rd_lines : list str;
  rd_need_rowcol : bool;                    (* loaded with Wordlist (true) or with the bare parser (false) *)
  rd_load : res wl
}.
Definition rd_case_code (c : rd_case) : nat :=
  bit 0 (res_eqb wl_eqb
           (match read_raw (rd_lines c) with
            | Ok (data, _, _) => build namespace_rc (rd_need_rowcol c) data
            | Err => Err
            end) (rd_load c)).

(* ------------------------------------------------------------------ *)
(* <dst> / <scorer> blocks *)
Record blk_case := {
  bk_taxa : list str;
  bk_dst : list (list Q);                   (* the matrix that is saved: exact values of the doubles *)
  bk_dst_text : list str;                   (* implementation: lines between <dst> and </dst> *)
  bk_dst_load : option (list (list Q));     (* implementation: the matrix after loading (decimal repr of the doubles) *)
  bk_chars : list str;
  bk_sc : list (list Q);
  bk_sc_text : list str;                    (* implementation: lines between <scorer ...> and </scorer> *)
  bk_sc_load : option (list (str * list Q));
  bk_sid : str;                             (* the id under which the scorer is stored *)
  bk_pre : list str                         (* implementation: all the lines it wrote before the data *)
}.
Definition scorer_eqb (a b : list (str * list Q)) : bool :=
  list_eqb (fun p q => str_eqb (fst p) (fst q) && qlist_eqb (snd p) (snd q)) a b.

(* entrywise: loaded = decimal rounding of what was saved *)
Definition dst_roundedb (taxa : list str) (m : list (list Q)) (loaded : option (list (list Q))) : bool :=
  if existsb (starts 35) taxa then true else     (* a name starting with '#' makes its line a comment: outside the guard *)
  match loaded with
  | Some l => qmat_eqb l (map (map r4) (sym_upper m))
  | None => false
  end.
Definition scorer_roundedb (chars : list str) (m : list (list Q)) (loaded : option (list (str * list Q))) : bool :=
  if (length chars <? 2)%nat then true else      (* a one-symbol scorer is not read back at all: outside the guard *)
  match loaded with
  | Some l => scorer_eqb l (combine chars (map (map r2) m))
  | None => false
  end.

Definition blk_case_code (c : blk_case) : nat :=
  bit 0 (lines_eqb (dst_lines (bk_taxa c) (bk_dst c)) (bk_dst_text c)
         && opt_eqb qmat_eqb (read_dst_block (bk_dst_text c)) (bk_dst_load c)
         && lines_eqb (scorer_lines (bk_chars c) (bk_sc c)) (bk_sc_text c)
         && opt_eqb scorer_eqb (read_scorer_lines (bk_sc_text c)) (bk_sc_load c)
         (* the whole meta part of the file, and the file reader on it *)
         && lines_eqb (meta_part [] (Some (bk_taxa c, bk_dst c)) [(bk_sid c, bk_chars c, bk_sc c)]) (bk_pre c)
         && match read_raw (bk_pre c) with
            | Ok (_, bs, _) =>
                opt_eqb qmat_eqb (match read_distances bs None with Ok (Some m) => Some m | _ => None end) (bk_dst_load c)
                && opt_eqb scorer_eqb (match read_scorers bs with Ok [(_, t)] => Some t | _ => None end) (bk_sc_load c)
            | Err => false
            end)
  + bit 4 (dst_roundedb (bk_taxa c) (bk_dst c) (bk_dst_load c))
  + bit 5 (scorer_roundedb (bk_chars c) (bk_sc c) (bk_sc_load c)).
