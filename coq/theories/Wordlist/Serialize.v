(* C13 - saving a wordlist and loading it again.  Executable model of
     lingpy.basic.ops.wl2qlc            (cell serialisation by value type, line assembly)
     lingpy.read.qlc.read_qlc           (line parser: comments, @-lines, <blocks>, data lines)
     lingpy.basic.parser.QLCParser      (aliases, per-column conversion from the namespace table)
     lingpy.compare.lexstat.LexStat     (derived columns, word pairs)
   Strings are lists of code points (SerializeStr.v), numbers are in SerializeNum.v.
   The namespace table is a parameter here; the instance regenerated from
   data/conf/wordlist.rc is LVGen.NamespaceRc.namespace_rc.  Model only. *)
From Coq Require Import QArith ZArith List Bool.
From LV Require Import Wordlist.SerializeStr Wordlist.SerializeNum.
Import ListNotations.
Local Open Scope Z_scope.

Inductive res (A : Type) : Type := Ok (a : A) | Err.
Arguments Ok {A} a.
Arguments Err {A}.

(* ------------------------------------------------------------------ *)
(* converter classes of the namespace table (the Python expressions wordlist.rc contains) *)
Inductive conv : Type :=
| KStr        (* str *)
| KInt        (* int *)
| KInteger    (* basictypes.integer = lambda x: int(x) if x else 0 *)
| KBInts      (* basictypes.ints *)
| KBLists     (* basictypes.lists *)
| KBStrings   (* basictypes.strings *)
| KBFloats    (* basictypes.floats *)
| KSplitWs    (* lambda x: x.split() *)
| KSplitSp    (* lambda x: x.split(" ") *)
| KIntsWs     (* lambda x: [int(s) for s in x.split()] *)
| KIntsSp     (* lambda x: [int(s) for s in x.split(" ")] *)
| KFloatsWs   (* lambda x: [float(s) for s in x.split()] *)
| KFloatsSp.  (* lambda x: [float(s) for s in x.split(" ")] *)

(* typed cells.  A list subclass of basictypes counts as a list of its item type. *)
Inductive cell : Type :=
| VNone
| VInt (z : Z)
| VStr (s : str)
| VList (l : list str)       (* list of str *)
| VInts (l : list Z)         (* list of int *)
| VFloats (l : list dec)     (* list of float, each as the decimal str() prints *)
| VFloat (q : Q).            (* a float cell: exact value *)

(* value types *)
Inductive kind : Type := TNone | TInt | TStr | TList | TInts | TFloats | TFloat.
Definition kind_of (v : cell) : kind :=
  match v with
  | VNone => TNone | VInt _ => TInt | VStr _ => TStr | VList _ => TList
  | VInts _ => TInts | VFloats _ => TFloats | VFloat _ => TFloat
  end.
Definition kind_eqb (a b : kind) : bool :=
  match a, b with
  | TNone, TNone | TInt, TInt | TStr, TStr | TList, TList | TInts, TInts | TFloats, TFloats
  | TFloat, TFloat => true
  | _, _ => false
  end.
(* the type a converter class produces when the conversion succeeds *)
Definition produces (k : conv) : kind :=
  match k with
  | KStr => TStr
  | KInt | KInteger => TInt
  | KBLists | KBStrings | KSplitWs | KSplitSp => TList
  | KBInts | KIntsWs | KIntsSp => TInts
  | KBFloats | KFloatsWs | KFloatsSp => TFloats
  end.

(* ops.py:436-449: the if/elif chain over type(value) *)
Definition show_cell (v : cell) : str :=
  match v with
  | VList l => join [32] l                          (* type(value) == list: ' '.join(value) *)
  | VInts l => join [32] (map show_int l)           (*   ... except: ' '.join(str(v) ...)  *)
  | VFloats l => join [32] (map show_dec l)
  | VInt z => show_int z                            (* type(value) == int *)
  | VFloat q => show_fixed 4 q                      (* type(value) == float: '{0:.4f}' *)
  | VNone => []                                     (* value is None *)
  | VStr s => s                                     (* else '{:}'.format(value) *)
  end.

(* parser.py:152-172: self._class[head](cell); ValueError -> the cell stays the string *)
Definition conv_list {A} (items : list str) (f : str -> option A) (mk : list A -> cell) (s : str) : cell :=
  match all_some (map f items) with
  | Some l => mk l
  | None => VStr s
  end.
Definition parse_cell (k : conv) (s : str) : cell :=
  match k with
  | KStr => VStr s
  | KInt => match parse_int s with Some z => VInt z | None => VStr s end
  | KInteger => match s with
                | [] => VInt 0
                | _ :: _ => match parse_int s with Some z => VInt z | None => VStr s end
                end
  | KBLists | KBStrings | KSplitWs => VList (split_ws s)
  | KSplitSp => VList (split_on 32 s)
  | KBInts | KIntsWs => conv_list (split_ws s) parse_int VInts s
  | KIntsSp => conv_list (split_on 32 s) parse_int VInts s
  | KBFloats | KFloatsWs => conv_list (split_ws s) parse_dec VFloats s
  | KFloatsSp => conv_list (split_on 32 s) parse_dec VFloats s
  end.

(* ------------------------------------------------------------------ *)
(* namespace table: parser.read_conf.  Each key (name and aliases, lower and UPPER case) is
   bound by the LAST line that mentions it. *)
Definition entry : Type := (str * conv * list str)%type.
Definition entry_has (key : str) (e : entry) : bool :=
  let '(n, _, al) := e in
  mem_str key (map lower (n :: al)) || mem_str key (map upper (n :: al)).
Fixpoint lookup_entry (key : str) (tbl : list entry) : option entry :=
  match tbl with
  | [] => None
  | e :: r => match lookup_entry key r with
              | Some e' => Some e'
              | None => if entry_has key e then Some e else None
              end
  end.
(* self._alias[x] for a (lower-cased) header name; unknown names alias to themselves *)
Definition alias_of (tbl : list entry) (key : str) : str :=
  match lookup_entry key tbl with Some (n, _, _) => n | None => lower key end.
(* self._class[x]; unknown names are str *)
Definition class_of (tbl : list entry) (key : str) : conv :=
  match lookup_entry key tbl with Some (_, k, _) => k | None => KStr end.

(* ------------------------------------------------------------------ *)
(* the object: columns in index order, rows as the _data dictionary in insertion order *)
Definition row : Type := (Z * list cell)%type.
Record wl := mk_wl { wl_cols : list str; wl_rows : list row }.

Fixpoint index_of (s : str) (l : list str) : option nat :=
  match l with
  | [] => None
  | x :: r => if str_eqb s x then Some O else option_map S (index_of s r)
  end.

Definition s_ID : str := [73; 68].
Definition s_id : str := [105; 100].
Definition s_local_id : str := [108; 111; 99; 97; 108; 95; 105; 100].
Definition s_localid : str := [108; 111; 99; 97; 108; 105; 100].
Definition s_CONCEPT : str := [67; 79; 78; 67; 69; 80; 84].
Definition s_concept : str := [99; 111; 110; 99; 101; 112; 116].
Definition s_doculect : str := [100; 111; 99; 117; 108; 101; 99; 116].
Definition s_wordlist : str := [35; 32; 87; 111; 114; 100; 108; 105; 115; 116].   (* "# Wordlist" *)
Definition s_data : str := [35; 32; 68; 65; 84; 65].                               (* "# DATA" *)

(* Python == between two cells as far as the writer needs it (line[idx] != formatter) *)
Fixpoint strs_eqb (a b : list str) : bool :=
  match a, b with
  | [], [] => true
  | x :: a', y :: b' => str_eqb x y && strs_eqb a' b'
  | _, _ => false
  end.
Fixpoint decs_eqb (a b : list dec) : bool :=
  match a, b with
  | [], [] => true
  | x :: a', y :: b' => dec_eqb x y && decs_eqb a' b'
  | _, _ => false
  end.
Definition cell_eqb (a b : cell) : bool :=
  match a, b with
  | VNone, VNone => true
  | VInt x, VInt y => x =? y
  | VStr x, VStr y => str_eqb x y
  | VList x, VList y => strs_eqb x y
  | VInts x, VInts y => str_eqb x y
  | VFloats x, VFloats y => decs_eqb x y
  | VFloat x, VFloat y => Qeq_bool x y
  (* an empty list has no item type *)
  | VList [], VInts [] | VList [], VFloats [] | VInts [], VList [] | VInts [], VFloats []
  | VFloats [], VList [] | VFloats [], VInts [] => true
  | _, _ => false
  end.

(* ---- writer (ops.py:401-456) ---- *)
Fixpoint insert_by {A} (leb : A -> A -> bool) (x : A) (l : list A) : list A :=
  match l with
  | [] => [x]
  | y :: r => if leb x y then x :: l else y :: insert_by leb x r
  end.
(* stable sort (Python's sorted) *)
Definition isort {A} (leb : A -> A -> bool) (l : list A) : list A := fold_right (insert_by leb) [] l.

Definition cell_leb (a b : cell) : bool :=
  match a, b with
  | VStr x, VStr y => str_leb x y
  | VInt x, VInt y => x <=? y
  | _, _ => false
  end.
Definition key_cell (idx : nat) (r : row) : cell := nth idx (snd r) VNone.
Definition row_leb (idx : nat) (a b : row) : bool := cell_leb (key_cell idx a) (key_cell idx b).
Definition id_leb (a b : row) : bool := fst a <=? fst b.

(* sorted() raises TypeError on keys of different types; lists / floats as sort keys are not modelled *)
Definition sortableb (idx : nat) (rows : list row) : bool :=
  match rows with
  | [] | [_] => true
  | _ => forallb (fun r => match key_cell idx r with VStr _ => true | _ => false end) rows
         || forallb (fun r => match key_cell idx r with VInt _ => true | _ => false end) rows
  end.

Definition row_line (r : row) : str := join [9] (show_int (fst r) :: map show_cell (snd r)).

(* the '#' separator lines of prettified output: a new block whenever line[idx] != formatter *)
Fixpoint body_lines (pretty : bool) (idx : nat) (prev : cell) (rows : list row) : list str :=
  match rows with
  | [] => []
  | r :: rest =>
      match nth_error (snd r) idx with
      | Some v =>
          if cell_eqb v prev then row_line r :: body_lines pretty idx prev rest
          else (if pretty then [[35]] else []) ++ row_line r :: body_lines pretty idx v rest
      | None => row_line r :: body_lines pretty idx prev rest
      end
  end.

Definition header_line (cols : list str) : str := join [9] (s_ID :: map upper cols).

(* the rows in the order they are written *)
Definition sorted_rows (w : wl) : list row :=
  match index_of s_CONCEPT (map upper (wl_cols w)) with
  | Some i => isort (row_leb i) (wl_rows w)
  | None => isort id_leb (wl_rows w)
  end.

(* pre = the lines of the meta / block section (given), stamp = lines appended after the data *)
Definition write (pretty : bool) (pre stamp : list str) (w : wl) : res (list str) :=
  let hdr := map upper (wl_cols w) in
  let ok := match index_of s_CONCEPT hdr with Some i => sortableb i (wl_rows w) | None => true end in
  let '(idx, init) := match index_of s_CONCEPT hdr with Some i => (i, VNone) | None => (O, VStr []) end in
  if ok then
    Ok ((if pretty then [s_wordlist] else []) ++ pre ++ (if pretty then [[]; s_data] else [])
        ++ header_line (wl_cols w) :: body_lines pretty idx init (sorted_rows w) ++ stamp)
  else Err.

(* ---- reader (read_qlc) ---- *)
Fixpoint prefixb (p s : str) : bool :=
  match p, s with
  | [], _ => true
  | x :: p', y :: s' => (x =? y) && prefixb p' s'
  | _ :: _, [] => false
  end.
Definition starts (c : Z) (l : str) : bool := match l with x :: _ => x =? c | [] => false end.
Fixpoint take_until (c : Z) (s : str) : option str :=     (* s[:s.index(c)] *)
  match s with
  | [] => None
  | x :: r => if x =? c then Some [] else option_map (cons x) (take_until c r)
  end.
Definition memc (c : Z) (s : str) : bool := existsb (Z.eqb c) s.

(* the tag name of a '<...>' line: tmp = line[1:line.index('>')]; first word if it has a space *)
Definition block_dtype (line : str) : option str :=
  match line with
  | _ :: r => match take_until 62 r with
              | Some tmp => Some (if memc 32 tmp then hd [] (split_on 32 tmp) else strip tmp)
              | None => None
              end
  | [] => None
  end.

(* the attributes of a '<tag k=QUOTE v QUOTE ...>' line (read_qlc after b56b54e):
     keys = {k: v for k, _, v in re.findall(r'''(\S+?)=([QUOTE APOSTROPHE])(.*?)\2''', tmp[len(dtype):])}
   i.e. scanning from the left: a shortest non-empty run of non-blank characters followed by '=', a quote character
   and a value up to the next occurrence of the same quote; blanks inside the value are fine; a later attribute
   with the same name wins; a tag without any such attribute gives the empty dictionary (nothing raises). *)
Definition is_quote (c : Z) : bool := (c =? 34) || (c =? 39).
Fixpoint split_at (c : Z) (s : str) : option (str * str) :=           (* s = v ++ c :: rest, first c *)
  match s with
  | [] => None
  | x :: r => if x =? c then Some ([], r)
              else match split_at c r with Some (v, rest) => Some (x :: v, rest) | None => None end
  end.
(* key = the non-blank characters consumed so far (reversed, non-empty): try '=QUOTE value QUOTE' here, else go on *)
Fixpoint match_here (key : str) (s : str) : option (str * str * str) :=
  match s with
  | [] => None
  | c :: r =>
      match (if c =? 61 then match r with
                              | q :: r' => if is_quote q then split_at q r' else None
                              | [] => None
                              end
             else None) with
      | Some (v, rest) => Some (rev key, v, rest)
      | None => if is_space c then None else match_here (c :: key) r
      end
  end.
Definition match_start (s : str) : option (str * str * str) :=
  match s with
  | [] => None
  | c :: r => if is_space c then None else match_here [c] r
  end.
(* re.findall: leftmost, non-overlapping; skip = characters still covered by the last match *)
Fixpoint findall_attrs (skip : nat) (s : str) : list (str * str) :=
  match s with
  | [] => []
  | _ :: r =>
      match skip with
      | S k => findall_attrs k r
      | O => match match_start s with
             | Some (k, v, rest) => (k, v) :: findall_attrs (length r - length rest) r
             | None => findall_attrs 0 r
             end
      end
  end.
Definition block_keys (line : str) : option (list (str * str)) :=
  match line with
  | _ :: r => match take_until 62 r with
              | Some tmp => if memc 32 tmp
                            then Some (findall_attrs 0 (skipn (length (hd [] (split_on 32 tmp))) tmp))
                            else Some []
              | None => None
              end
  | [] => None
  end.
(* keys[k] of the dictionary built from the pairs: the last pair with that name *)
Fixpoint assoc_first (k : str) (l : list (str * str)) : option str :=
  match l with [] => None | (k', v) :: r => if str_eqb k k' then Some v else assoc_first k r end.
Definition assoc_last (k : str) (l : list (str * str)) : option str := assoc_first k (rev l).

Record block := mk_block { b_head : str; b_dtype : str; b_body : list str }.
Record racc := mk_racc {
  ra_err : bool;
  ra_open : option (str * str * list str);   (* head line, dtype, body lines reversed *)
  ra_data : list (list str);                 (* reversed *)
  ra_blocks : list block;                    (* reversed *)
  ra_meta : list str }.                      (* '@' lines, reversed *)
Definition racc0 : racc := mk_racc false None [] [] [].

Definition read_step (a : racc) (line : str) : racc :=
  if ra_err a then a else
  match ra_open a with
  | Some (h, dt, body) =>
      if prefixb ([60; 47] ++ dt ++ [62]) line
      then mk_racc false None (ra_data a) (mk_block h dt (rev body) :: ra_blocks a) (ra_meta a)
      else mk_racc false (Some (h, dt, line :: body)) (ra_data a) (ra_blocks a) (ra_meta a)
  | None =>
      if starts 35 line || nullb line then a
      else if starts 64 line then
        (* key, value = line[1:].split(':', 1): a line without ':' raises *)
        if memc 58 line then mk_racc false None (ra_data a) (ra_blocks a) (line :: ra_meta a)
        else mk_racc true None (ra_data a) (ra_blocks a) (ra_meta a)
      else if starts 60 line then
        match block_dtype line, block_keys line with
        | Some dt, Some _ => mk_racc false (Some (line, dt, [])) (ra_data a) (ra_blocks a) (ra_meta a)
        | _, _ => mk_racc true None (ra_data a) (ra_blocks a) (ra_meta a)
        end
      else mk_racc false None (map strip (split_on 9 line) :: ra_data a) (ra_blocks a) (ra_meta a)
  end.
Definition scan (lines : list str) : racc := fold_left read_step lines racc0.

(* d[key] = value on an insertion-ordered dictionary *)
Fixpoint dict_set (d : list (Z * list str)) (k : Z) (v : list str) : list (Z * list str) :=
  match d with
  | [] => [(k, v)]
  | (k', v') :: r => if k' =? k then (k, v) :: r else (k', v') :: dict_set r k v
  end.
Fixpoint number_rows (i : Z) (body : list (list str)) : list (Z * list str) :=
  match body with [] => [] | l :: r => (i, l) :: number_rows (i + 1) r end.
Fixpoint keyed_rows (body : list (list str)) (d : list (Z * list str)) : option (list (Z * list str)) :=
  match body with
  | [] => Some d
  | l :: r => match l with
              | [] => None
              | k :: cells => match parse_int k with
                              | Some z => keyed_rows r (dict_set d z cells)
                              | None => None            (* int(line[0]) raises *)
                              end
              end
  end.

Fixpoint nodupb (l : list str) : bool :=
  match l with [] => true | x :: r => negb (mem_str x r) && nodupb r end.

Fixpoint convert_row (ks : list conv) (cells : list str) : list cell :=
  match ks, cells with
  | k :: ks', c :: cells' => parse_cell k c :: convert_row ks' cells'
  | _, _ => []
  end.

(* what read_qlc + QLCParser + Wordlist.__init__ make of the data lines *)
Definition build (tbl : list entry) (need_rowcol : bool) (data : list (list str)) : res wl :=
  match data with
  | [] => Err                                          (* data[0]: IndexError *)
  | hdr :: body =>
      let local_id := mem_str (lower (hd [] hdr)) [s_id; s_local_id; s_localid] in
      let names := map lower (if local_id then tl hdr else hdr) in
      let keyed := if local_id then keyed_rows body [] else Some (number_rows 1 body) in
      match keyed with
      | None => Err
      | Some d =>
          let cols := map (alias_of tbl) names in
          let d' := filter (fun kv => 0 <? fst kv) d in         (* k != 0 and str(k).isnumeric() *)
          let n := length cols in
          if negb (nodupb cols) then Err                        (* header dictionary shrinks: row lengths differ *)
          else if negb (forallb (fun kv => (length (snd kv) =? n)%nat) d') then Err
          else if need_rowcol && negb (mem_str s_concept cols && mem_str s_doculect cols) then Err
          else
            let ks := map (class_of tbl) cols in
            Ok (mk_wl cols (map (fun kv => (fst kv, convert_row ks (snd kv))) d'))
      end
  end.

Definition read_raw (lines : list str) : res (list (list str) * list block * list str) :=
  let a := scan lines in
  if ra_err a then Err
  else match ra_open a with
       | Some _ => Err                                 (* unclosed block: lines.pop(0) on an empty list *)
       | None => Ok (rev (ra_data a), rev (ra_blocks a), rev (ra_meta a))
       end.

(* Wordlist(file) *)
Definition read (tbl : list entry) (lines : list str) : res wl :=
  match read_raw lines with
  | Ok (data, _, _) => build tbl true data
  | Err => Err
  end.

Definition write_text (pretty : bool) (pre stamp : list str) (w : wl) : res str :=
  match write pretty pre stamp w with Ok ls => Ok (unlines ls) | Err => Err end.
Definition read_text (tbl : list entry) (text : str) : res wl := read tbl (lines_of text).

(* ------------------------------------------------------------------ *)
(* LexStat: derived columns with the type they are written with (lexstat.py:334-394) *)
Definition s_of_ascii (l : list Z) : str := l.
Definition c_sonars : str := [115; 111; 110; 97; 114; 115].
Definition c_prostrings : str := [112; 114; 111; 115; 116; 114; 105; 110; 103; 115].
Definition c_classes : str := [99; 108; 97; 115; 115; 101; 115].
Definition c_langid : str := [108; 97; 110; 103; 105; 100].
Definition c_numbers : str := [110; 117; 109; 98; 101; 114; 115].
Definition c_weights : str := [119; 101; 105; 103; 104; 116; 115].
Definition c_duplicates : str := [100; 117; 112; 108; 105; 99; 97; 116; 101; 115].
Definition c_tokens : str := [116; 111; 107; 101; 110; 115].
Definition c_ipa : str := [105; 112; 97].
Definition c_cogid : str := [99; 111; 103; 105; 100].
Definition c_alignment : str := [97; 108; 105; 103; 110; 109; 101; 110; 116].
Definition c_scaid : str := [115; 99; 97; 105; 100].
Definition c_editid : str := [101; 100; 105; 116; 105; 100].
Definition c_turchinid : str := [116; 117; 114; 99; 104; 105; 110; 105; 100].
Definition c_lexstatid : str := [108; 101; 120; 115; 116; 97; 116; 105; 100].

Definition derived_columns : list (str * kind) :=
  [ (c_tokens, TList);          (* ipa2tokens(ipa): list of str (when only IPA is given) *)
    (c_sonars, TInts);          (* [int(i) for i in tokens2class(tokens, art)] *)
    (c_prostrings, TStr);       (* prosodic_string(sonars) *)
    (c_classes, TStr);          (* ''.join(tokens2class(tokens, model)) *)
    (c_langid, TStr);           (* str(i + 1) *)
    (c_numbers, TList);         (* ['1.A.C', ...] *)
    (c_weights, TFloats);       (* prosodic_weights(prostring) *)
    (c_ipa, TStr);              (* ''.join(tokens) (when only tokens are given) *)
    (c_duplicates, TInt);       (* 0 / 1 *)
    (* cognate-id columns written by LexStat.cluster (default ref = method + 'id') *)
    (c_scaid, TInt); (c_editid, TInt); (c_turchinid, TInt); (c_lexstatid, TInt);
    (* Alignments: the aligned rows written by align() / _msa2col *)
    (c_alignment, TList) ].

(* classes that accept every value of the type they produce (the split(" ") variants do not: they
   never produce an empty list) *)
Definition conv_total (k : conv) : bool :=
  match k with KSplitSp | KIntsSp | KFloatsSp => false | _ => true end.

(* every derived column is a canonical name whose class produces the type it is written with,
   for every value of that type *)
Definition derived_columns_typedb (tbl : list entry) : bool :=
  forallb (fun p => str_eqb (alias_of tbl (fst p)) (fst p)
                    && kind_eqb (produces (class_of tbl (fst p))) (snd p)
                    && conv_total (class_of tbl (fst p))) derived_columns.

(* ---- word pairs (lexstat.py:440-466) ---- *)
Definition get_col (cols : list str) (name : str) (r : row) : cell :=
  match index_of name cols with Some i => nth i (snd r) VNone | None => VNone end.
Definition cell_is (s : str) (v : cell) : bool := match v with VStr x => str_eqb x s | _ => false end.
(* the rows of concept c and doculect t, in _data order: get_dict(col=t)[c] *)
Definition sel (cols : list str) (rows : list row) (c t : str) : list row :=
  filter (fun r => cell_is c (get_col cols s_concept r) && cell_is t (get_col cols s_doculect r)) rows.
Definition joined_tokens (v : cell) : str :=
  match v with VList l => concat l | VStr s => s | _ => [] end.
Definition pair_key (cols : list str) (a b : row) (ta tb : str) : str :=
  joined_tokens (get_col cols c_tokens a) ++ 45 :: ta ++ 47 :: joined_tokens (get_col cols c_tokens b) ++ 45 :: tb.

Definition pairs_t : Type := list (str * str * list (Z * Z)).

Fixpoint add_pairs (cols : list str) (ta tb : str) (cands : list (row * row)) (seen : list str) (acc : list (Z * Z))
  : list str * list (Z * Z) :=
  match cands with
  | [] => (seen, acc)
  | (a, b) :: r =>
      let k := pair_key cols a b ta tb in
      if mem_str k seen then add_pairs cols ta tb r seen acc
      else add_pairs cols ta tb r (k :: seen) (acc ++ [(fst a, fst b)])
  end.

Definition is_dup (cols : list str) (r : row) : bool :=
  match get_col cols c_duplicates r with VInt z => z =? 1 | _ => false end.

Section Pairs.
  Variable cols : list str.
  Variable Sel : str -> str -> list row.     (* Sel c t = the rows of concept c, doculect t *)
  Variable concepts : list str.

  (* A strictly before B *)
  Definition cross_pairs (ta tb : str) (seen : list str) : list str * list (Z * Z) :=
    fold_left (fun st c => add_pairs cols ta tb (list_prod (Sel c ta) (Sel c tb)) (fst st) (snd st))
              concepts (seen, []).
  Definition self_pairs (ta : str) : list (Z * Z) :=
    flat_map (fun c => map (fun r => (fst r, fst r)) (filter (fun r => negb (is_dup cols r)) (Sel c ta))) concepts.

  (* multicombinations2(enumerate(cols)): (t0,t0) (t0,t1) ... (t1,t1) (t1,t2) ... *)
  Fixpoint pairs_from (ta : str) (later : list str) (seen : list str) : list str * pairs_t :=
    match later with
    | [] => (seen, [])
    | tb :: r =>
        let '(seen1, ps) := cross_pairs ta tb seen in
        let '(seen2, rest) := pairs_from ta r seen1 in
        (seen2, (ta, tb, ps) :: rest)
    end.
  Fixpoint pairs_all (taxa : list str) (seen : list str) : pairs_t :=
    match taxa with
    | [] => []
    | ta :: r =>
        let '(seen1, ps) := pairs_from ta r seen in
        (ta, ta, self_pairs ta) :: ps ++ pairs_all r seen1
    end.
End Pairs.

Definition pairs (cols : list str) (taxa concepts : list str) (rows : list row) : pairs_t :=
  pairs_all cols (sel cols rows) concepts taxa [].

(* self._data[id] *)
Fixpoint lookup_row (id : Z) (rows : list row) : option (list cell) :=
  match rows with
  | [] => None
  | r :: rest => if fst r =? id then Some (snd r) else lookup_row id rest
  end.

(* ------------------------------------------------------------------ *)
(* the guard of the property, as a boolean *)
Definition clean_strb (s : str) : bool :=
  forallb (fun c => negb ((c =? 9) || (c =? 10) || (c =? 13))) s && strippedb s.
Definition item_okb (s : str) : bool := negb (nullb s) && forallb (fun c => negb (is_space c)) s.

Definition cell_okb (k : conv) (v : cell) : bool :=
  match k, v with
  | KStr, VStr s => clean_strb s
  | KInt, VInt _ | KInteger, VInt _ => true
  | KBLists, VList l | KBStrings, VList l | KSplitWs, VList l => forallb item_okb l
  | KSplitSp, VList l => negb (nullb l) && forallb item_okb l
  | KBInts, VInts _ | KIntsWs, VInts _ => true
  | KIntsSp, VInts l => negb (nullb l)
  | KBFloats, VFloats l | KFloatsWs, VFloats l => forallb dec_okb l
  | KFloatsSp, VFloats l => negb (nullb l) && forallb dec_okb l
  | _, _ => false
  end.

(* an empty Python list has no item type: give it the one its column produces *)
Definition retype (k : conv) (v : cell) : cell :=
  match v, produces k with
  | VList [], TInts => VInts []
  | VList [], TFloats => VFloats []
  | _, _ => v
  end.
Fixpoint retype_row (ks : list conv) (cells : list cell) : list cell :=
  match ks, cells with
  | k :: ks', c :: cells' => retype k c :: retype_row ks' cells'
  | _, _ => cells
  end.
Definition retype_wl (tbl : list entry) (w : wl) : wl :=
  let ks := map (class_of tbl) (wl_cols w) in
  mk_wl (wl_cols w) (map (fun r => (fst r, retype_row ks (snd r))) (wl_rows w)).

Definition col_okb (tbl : list entry) (c : str) : bool :=
  negb (nullb c) && clean_strb c && str_eqb (lower (upper c)) c && str_eqb (alias_of tbl c) c.

Fixpoint cells_okb (ks : list conv) (cells : list cell) : bool :=
  match ks, cells with
  | [], [] => true
  | k :: ks', c :: cells' => cell_okb k c && cells_okb ks' cells'
  | _, _ => false
  end.

Fixpoint znodupb (l : list Z) : bool :=
  match l with [] => true | x :: r => negb (existsb (Z.eqb x) r) && znodupb r end.

(* a representative class for a value type *)
Definition class_for (kd : kind) : conv :=
  match kd with
  | TInt => KInt | TList => KSplitWs | TInts => KIntsWs | TFloats => KFloatsWs
  | TStr | TNone | TFloat => KStr
  end.
Fixpoint assoc_kind (c : str) (l : list (str * kind)) : option kind :=
  match l with
  | [] => None
  | (n, kd) :: r => if str_eqb c n then Some kd else assoc_kind c r
  end.
(* the class a column is expected to have: the table's, except that for a LexStat object the derived
   columns are expected to come back with the type LexStat writes (whatever the table says) *)
Definition expected_class (tbl : list entry) (derived : bool) (c : str) : conv :=
  match (if derived then assoc_kind c derived_columns else None) with
  | Some kd => class_for kd
  | None => class_of tbl c
  end.

Definition wl_okb_gen (tbl : list entry) (derived : bool) (w : wl) : bool :=
  let cols := wl_cols w in
  let ks := map (expected_class tbl derived) cols in
  forallb (col_okb tbl) cols && nodupb cols
  && mem_str s_concept cols && mem_str s_doculect cols
  && forallb (fun r => 0 <? fst r) (wl_rows w) && znodupb (map fst (wl_rows w))
  && forallb (fun r => cells_okb ks (snd r)) (wl_rows w)
  && match index_of s_CONCEPT (map upper cols) with
     | Some i => forallb (fun r => match key_cell i r with VStr _ => true | _ => false end) (wl_rows w)
     | None => true
     end.
Definition wl_okb (tbl : list entry) (w : wl) : bool := wl_okb_gen tbl false w.

