(* Proofs about Index.v: what _dict, _idx and _array contain, in terms of the rows. *)
From Coq Require Import ZArith List Bool Lia Arith.
From LV Require Import Wordlist.Rows Wordlist.RowsProofs Wordlist.Index.
Import ListNotations.
Local Open Scope Z_scope.

(* ids of the rows with concept c and language l, in row order *)
Definition cellset (P : list prow) (c l : Z) : list Z :=
  map pid (filter (fun r => (pconc r =? c) && (plang r =? l)) P).

Definition lk (d : ldict) (l : Z) : list Z := match zget d l with Some ids => ids | None => [] end.
Definition lk2 (D : cdict) (c l : Z) : list Z := match zget D c with Some d => lk d l | None => [] end.

(* -------------------------------------------------------------- _dict *)
Lemma ld_add_zget d l id l' :
  zget (ld_add d l id) l' = if l' =? l then Some (lk d l ++ [id]) else zget d l'.
Proof.
  unfold lk, zget. induction d as [|[k ids] t IH]; cbn [ld_add dget].
  - rewrite (Z.eqb_sym l l'). destruct (l' =? l); reflexivity.
  - destruct (k =? l) eqn:E; cbn [dget].
    + apply Z.eqb_eq in E. subst k. rewrite (Z.eqb_sym l l'). destruct (l' =? l) eqn:E2; reflexivity.
    + destruct (k =? l') eqn:E2.
      * apply Z.eqb_eq in E2. subst k. rewrite E. reflexivity.
      * rewrite IH. destruct (l' =? l); reflexivity.
Qed.

Lemma ld_add_lk d l id l' : lk (ld_add d l id) l' = lk d l' ++ (if l' =? l then [id] else []).
Proof.
  unfold lk at 1. rewrite ld_add_zget. destruct (l' =? l) eqn:E.
  - apply Z.eqb_eq in E. subst. reflexivity.
  - fold (lk d l'). rewrite app_nil_r. reflexivity.
Qed.

Lemma cd_add_zget D c l id c' :
  zget (cd_add D c l id) c' =
  if c' =? c then Some (match zget D c with Some d => ld_add d l id | None => [(l, [id])] end) else zget D c'.
Proof.
  unfold zget. induction D as [|[k d] t IH]; cbn [cd_add dget].
  - rewrite (Z.eqb_sym c c'). destruct (c' =? c); reflexivity.
  - destruct (k =? c) eqn:E; cbn [dget].
    + apply Z.eqb_eq in E. subst k. rewrite (Z.eqb_sym c c'). destruct (c' =? c) eqn:E2; reflexivity.
    + destruct (k =? c') eqn:E2.
      * apply Z.eqb_eq in E2. subst k. rewrite E. reflexivity.
      * rewrite IH. destruct (c' =? c); reflexivity.
Qed.

Lemma cd_add_lk2 D c l id c' l' :
  lk2 (cd_add D c l id) c' l' = lk2 D c' l' ++ (if (c' =? c) && (l' =? l) then [id] else []).
Proof.
  unfold lk2 at 1. rewrite cd_add_zget. destruct (c' =? c) eqn:E.
  - apply Z.eqb_eq in E. subst c'. unfold lk2. destruct (zget D c) as [d|].
    + rewrite ld_add_lk. cbn [andb]. reflexivity.
    + unfold lk, zget. cbn [dget]. rewrite (Z.eqb_sym l l'). cbn [andb]. destruct (l' =? l); reflexivity.
  - cbn [andb]. fold (lk2 D c' l'). rewrite app_nil_r. reflexivity.
Qed.

Lemma cellset_cons P r c l :
  cellset (r :: P) c l = (if (pconc r =? c) && (plang r =? l) then [pid r] else []) ++ cellset P c l.
Proof. unfold cellset. cbn [filter]. destruct ((pconc r =? c) && (plang r =? l)); reflexivity. Qed.

Lemma build_dict_acc P : forall acc c l,
  lk2 (fold_left (fun d r => cd_add d (pconc r) (plang r) (pid r)) P acc) c l = lk2 acc c l ++ cellset P c l.
Proof.
  induction P as [|r t IH]; intros acc c l; cbn [fold_left].
  - unfold cellset. cbn. rewrite app_nil_r. reflexivity.
  - rewrite IH, cd_add_lk2, cellset_cons, <- app_assoc.
    rewrite (Z.eqb_sym c), (Z.eqb_sym l). reflexivity.
Qed.

(* the language lists of _dict are exactly the ids of the matching rows, in row order *)
Lemma dict_spec P c l : lk2 (build_dict P) c l = cellset P c l.
Proof. unfold build_dict. rewrite build_dict_acc. reflexivity. Qed.

Lemma ld_add_keys_NoDup d l id : NoDup (map fst d) -> NoDup (map fst (ld_add d l id)).
Proof.
  induction d as [|[k ids] t IH]; cbn [ld_add map fst]; intros ND.
  - constructor; [intros []|constructor].
  - inversion ND as [|? ? Hn ND']. subst. destruct (k =? l) eqn:E; cbn [map fst]; [exact ND|].
    constructor; [|exact (IH ND')].
    intros Hin. apply Hn. clear - Hin E. induction t as [|[k2 i2] t2 IH2]; cbn [ld_add map fst In] in *.
    + destruct Hin as [H|[]]. subst. rewrite Z.eqb_refl in E. discriminate.
    + destruct (k2 =? l); cbn [map fst In] in *; [exact Hin|]. destruct Hin as [H|H]; [left; exact H|right; exact (IH2 H)].
Qed.

Lemma cd_add_keys D c l id :
  map fst (cd_add D c l id) = if dmem Z.eqb D c then map fst D else map fst D ++ [c].
Proof.
  unfold dmem. induction D as [|[k d] t IH]; cbn [cd_add dget map fst]; [reflexivity|].
  destruct (k =? c) eqn:E; cbn [map fst]; [reflexivity|].
  rewrite IH. destruct (dget Z.eqb t c); reflexivity.
Qed.

Lemma cd_add_keys_NoDup D c l id : NoDup (map fst D) -> NoDup (map fst (cd_add D c l id)).
Proof.
  intros ND. rewrite cd_add_keys. unfold dmem. destruct (dget Z.eqb D c) eqn:E; [exact ND|].
  apply (dget_None_notin Z.eqb Zeqb_spec) in E.
  apply NoDup_rev in ND. rewrite <- (rev_involutive (map fst D ++ [c])). apply NoDup_rev.
  rewrite rev_app_distr. cbn [rev app]. constructor; [rewrite <- in_rev; exact E|exact ND].
Qed.

Lemma build_dict_keys_NoDup P : NoDup (map fst (build_dict P)).
Proof.
  unfold build_dict. assert (H : NoDup (map fst (@nil (Z * ldict)))) by constructor.
  revert H. generalize (@nil (Z * ldict)). induction P as [|r t IH]; intros acc H; cbn [fold_left]; [exact H|].
  apply IH. apply cd_add_keys_NoDup. exact H.
Qed.

Lemma cd_add_inner_NoDup D c l id :
  (forall c' d, In (c', d) D -> NoDup (map fst d)) ->
  forall c' d, In (c', d) (cd_add D c l id) -> NoDup (map fst d).
Proof.
  induction D as [|[k d0] t IH]; intros H c' d Hin; cbn [cd_add] in Hin.
  - destruct Hin as [Hin|[]]. inversion Hin. cbn. constructor; [intros []|constructor].
  - destruct (k =? c) eqn:E.
    + destruct Hin as [Hin|Hin].
      * inversion Hin. apply ld_add_keys_NoDup. apply (H k d0). left. reflexivity.
      * apply (H c' d). right. exact Hin.
    + destruct Hin as [Hin|Hin].
      * apply (H c' d). left. exact Hin.
      * apply (IH (fun c2 d2 H2 => H c2 d2 (or_intror H2)) c' d Hin).
Qed.

Lemma build_dict_inner_NoDup P c d : In (c, d) (build_dict P) -> NoDup (map fst d).
Proof.
  unfold build_dict.
  assert (H : forall c' d', In (c', d') (@nil (Z * ldict)) -> NoDup (map fst d')) by (intros ? ? []).
  revert H. generalize (@nil (Z * ldict)). induction P as [|r t IH]; intros acc H; cbn [fold_left]; [apply H|].
  apply IH. apply cd_add_inner_NoDup. exact H.
Qed.

(* ------------------------------------------------------ maxlen, lines *)
Lemma maxlen_ge d l : (length (lk d l) <= maxlen d)%nat.
Proof.
  unfold lk, zget, maxlen. induction d as [|[k ids] t IH]; cbn [dget map fold_right snd length]; [lia|].
  destruct (k =? l); [lia|]. etransitivity; [exact IH|lia].
Qed.

Lemma maxlen_attained d : d <> [] -> exists l ids, In (l, ids) d /\ length ids = maxlen d.
Proof.
  unfold maxlen. induction d as [|[l ids] t IH]; intros N; [contradiction|]. cbn [map fold_right snd].
  destruct t as [|p t'].
  - exists l, ids. split; [left; reflexivity|]. cbn. lia.
  - destruct (IH ltac:(discriminate)) as [l' [ids' [Hin E]]].
    destruct (Nat.le_ge_cases (length ids) (fold_right Nat.max O (map (fun p0 => length (snd p0)) (p :: t')))) as [L|L].
    + exists l', ids'. split; [right; exact Hin|]. rewrite E. lia.
    + exists l, ids. split; [left; reflexivity|]. lia.
Qed.

(* the lines of the array: (concept, synonym rank) in the order of _dict *)
Definition lines (D : cdict) : list (Z * nat) :=
  flat_map (fun cd => map (pair (fst cd)) (seq 0 (maxlen (snd cd)))) D.

Lemma lines_In D c k : In (c, k) (lines D) -> exists d, In (c, d) D /\ (k < maxlen d)%nat.
Proof.
  unfold lines. rewrite in_flat_map. intros [[c' d] [H1 H2]]. cbn [fst snd] in H2.
  apply in_map_iff in H2. destruct H2 as [k' [E H3]]. inversion E. subst.
  apply in_seq in H3. exists d. split; [exact H1|lia].
Qed.

Lemma NoDup_app_intro {A} (l1 l2 : list A) :
  NoDup l1 -> NoDup l2 -> (forall x, In x l1 -> ~ In x l2) -> NoDup (l1 ++ l2).
Proof.
  induction l1 as [|a t IH]; intros N1 N2 Dj; cbn [app]; [exact N2|].
  inversion N1 as [|? ? Hn N1']. subst. constructor.
  - rewrite in_app_iff. intros [H|H]; [exact (Hn H)|exact (Dj a (or_introl eq_refl) H)].
  - apply IH; [exact N1'|exact N2|]. intros x Hx. apply Dj. right. exact Hx.
Qed.

Lemma lines_NoDup D : NoDup (map fst D) -> NoDup (lines D).
Proof.
  induction D as [|[c d] t IH]; cbn [map fst]; intros ND; [constructor|].
  inversion ND as [|? ? Hn ND']. subst. unfold lines. cbn [flat_map fst snd]. fold (lines t).
  apply NoDup_app_intro.
  - apply FinFun.Injective_map_NoDup; [intros a b E; inversion E; reflexivity|apply seq_NoDup].
  - exact (IH ND').
  - intros [c' k] H1 H2. apply in_map_iff in H1. destruct H1 as [k' [E _]]. inversion E. subst.
    apply lines_In in H2. destruct H2 as [d' [H _]]. apply Hn. apply (in_map fst) in H. exact H.
Qed.

(* --------------------------------------------------------- _array, _idx *)
Definition aget (A : list (list Z)) (i j : nat) : Z := nth j (nth i A []) 0.

Definition slot (P : list prow) (ck : Z * nat) (l : Z) : Z := nth (snd ck) (cellset P (fst ck) l) 0.

Lemma block_row_lk cols d i : block_row cols d i = map (fun l => nth i (lk d l) 0) cols.
Proof.
  unfold block_row, lk. apply map_ext. intros l. destruct (zget d l); [reflexivity|destruct i; reflexivity].
Qed.

(* the array is the grid (line, language) -> id *)
Lemma build_array_grid cols D :
  NoDup (map fst D) ->
  build_array cols D = map (fun ck => map (fun l => nth (snd ck) (lk2 D (fst ck) l) 0) cols) (lines D).
Proof.
  unfold build_array, lines.
  intros ND.
  assert (G : forall D0, (forall c d, In (c, d) D0 -> zget D c = Some d) ->
    flat_map (fun cd => block cols (snd cd)) D0 =
    map (fun ck => map (fun l => nth (snd ck) (lk2 D (fst ck) l) 0) cols)
        (flat_map (fun cd => map (pair (fst cd)) (seq 0 (maxlen (snd cd)))) D0)).
  { induction D0 as [|[c d] t IH]; intros Hz; cbn [flat_map fst snd]; [reflexivity|].
    rewrite map_app, map_map. f_equal.
    - unfold block. apply map_ext. intros i. cbn [fst snd]. rewrite block_row_lk.
      apply map_ext. intros l. unfold lk2. rewrite (Hz c d (or_introl eq_refl)). reflexivity.
    - apply IH. intros c' d' H. apply Hz. right. exact H. }
  apply G. intros c d H. apply (In_dget_NoDup Z.eqb Zeqb_spec); assumption.
Qed.

Lemma array_grid K P :
  x_array (build_index K P) =
  map (fun ck => map (slot P ck) (x_cols (build_index K P))) (lines (build_dict P)).
Proof.
  cbn [build_index x_array x_cols]. rewrite build_array_grid by apply build_dict_keys_NoDup.
  apply map_ext. intros ck. apply map_ext. intros l. unfold slot. rewrite dict_spec. reflexivity.
Qed.

(* reading a grid by position *)
Lemma grid_aget {X} (f : X -> Z -> Z) (I : list X) (J : list Z) i j v :
  aget (map (fun x => map (f x) J) I) i j = v -> v <> 0 ->
  exists x l, nth_error I i = Some x /\ nth_error J j = Some l /\ f x l = v.
Proof.
  unfold aget. intros E N.
  destruct (nth_error I i) as [x|] eqn:Ei.
  - assert (E1 : nth i (map (fun x => map (f x) J) I) [] = map (f x) J).
    { apply nth_error_nth. rewrite nth_error_map, Ei. reflexivity. }
    rewrite E1 in E. destruct (nth_error J j) as [l|] eqn:Ej.
    + exists x, l. split; [reflexivity|]. split; [reflexivity|].
      rewrite <- E. symmetry. apply nth_error_nth. rewrite nth_error_map, Ej. reflexivity.
    + exfalso. apply N. rewrite <- E. apply nth_overflow. rewrite map_length. apply nth_error_None. exact Ej.
  - exfalso. apply N. rewrite <- E. apply nth_error_None in Ei.
    rewrite (nth_overflow _ []); [destruct j; reflexivity|rewrite map_length; exact Ei].
Qed.

Lemma grid_aget_intro {X} (f : X -> Z -> Z) (I : list X) (J : list Z) i j x l :
  nth_error I i = Some x -> nth_error J j = Some l -> aget (map (fun x => map (f x) J) I) i j = f x l.
Proof.
  intros Ei Ej. unfold aget.
  rewrite (nth_error_nth _ i [] (x := map (f x) J)) by (rewrite nth_error_map, Ei; reflexivity).
  apply nth_error_nth. rewrite nth_error_map, Ej. reflexivity.
Qed.

(* _idx: the line numbers stored for a concept are where its lines are *)
Lemma build_idx_spec D : NoDup (map fst D) -> forall n c is,
  zget (build_idx n D) c = Some is ->
  exists d off, zget D c = Some d /\ is = seq (n + off) (maxlen d) /\
    forall k, (k < maxlen d)%nat -> nth_error (lines D) (off + k) = Some (c, k).
Proof.
  induction D as [|[c0 d0] t IH]; intros ND n c is; cbn [build_idx]; unfold zget; cbn [dget]; [discriminate|].
  inversion ND as [|? ? Hn ND']. subst.
  destruct (c0 =? c) eqn:E.
  - apply Z.eqb_eq in E. subst c0. intros H. inversion H. subst is.
    exists d0, O. split; [reflexivity|]. split; [f_equal; lia|].
    intros k Hk. unfold lines. cbn [flat_map fst snd]. rewrite nth_error_app1 by (rewrite map_length, seq_length; exact Hk).
    rewrite nth_error_map. cbn [plus].
    rewrite (nth_error_nth' _ O) by (rewrite seq_length; exact Hk). rewrite seq_nth by exact Hk. reflexivity.
  - intros H. destruct (IH ND' _ _ _ H) as [d [off [H1 [H2 H3]]]].
    exists d, (maxlen d0 + off)%nat. split; [exact H1|]. split; [rewrite H2; f_equal; lia|].
    intros k Hk. unfold lines. cbn [flat_map fst snd]. fold (lines t).
    rewrite nth_error_app2 by (rewrite map_length, seq_length; lia).
    rewrite map_length, seq_length. replace (maxlen d0 + off + k - maxlen d0)%nat with (off + k)%nat by lia.
    exact (H3 k Hk).
Qed.

Lemma build_idx_keys n D : map fst (build_idx n D) = map fst D.
Proof.
  revert n. induction D as [|[c d] t IH]; intros n; cbn [build_idx map fst]; [reflexivity|]. f_equal. apply IH.
Qed.

(* ------------------------------------------------------- facts about rows *)
Lemma cellset_In P c l id :
  In id (cellset P c l) <-> exists r, In r P /\ pid r = id /\ pconc r = c /\ plang r = l.
Proof.
  unfold cellset. rewrite in_map_iff. split.
  - intros [r [E H]]. apply filter_In in H. destruct H as [H1 H2]. apply andb_true_iff in H2.
    destruct H2 as [H2 H3]. apply Z.eqb_eq in H2. apply Z.eqb_eq in H3. exists r. auto.
  - intros [r [H1 [H2 [H3 H4]]]]. exists r. split; [exact H2|]. apply filter_In. split; [exact H1|].
    subst. rewrite !Z.eqb_refl. reflexivity.
Qed.

Lemma NoDup_map_filter {A B} (f : A -> B) (p : A -> bool) (l : list A) :
  NoDup (map f l) -> NoDup (map f (filter p l)).
Proof.
  induction l as [|a t IH]; cbn [map filter]; intros ND; [constructor|].
  inversion ND as [|? ? Hn ND']. subst. destruct (p a); cbn [map]; [|exact (IH ND')].
  constructor; [|exact (IH ND')]. intros H. apply Hn. apply in_map_iff in H. destruct H as [x [E Hx]].
  apply filter_In in Hx. apply in_map_iff. exists x. split; [exact E|apply Hx].
Qed.

Lemma cellset_NoDup P c l : NoDup (map pid P) -> NoDup (cellset P c l).
Proof. apply NoDup_map_filter. Qed.

Lemma pid_inj P r1 r2 : NoDup (map pid P) -> In r1 P -> In r2 P -> pid r1 = pid r2 -> r1 = r2.
Proof.
  induction P as [|a t IH]; cbn [map]; intros ND H1 H2 E; [destruct H1|].
  inversion ND as [|? ? Hn ND']. subst.
  destruct H1 as [H1|H1], H2 as [H2|H2].
  - congruence.
  - subst a. exfalso. apply Hn. rewrite E. apply in_map. exact H2.
  - subst a. exfalso. apply Hn. rewrite <- E. apply in_map. exact H1.
  - exact (IH ND' H1 H2 E).
Qed.

(* ------------------------------------------------ array_each_id_once *)
Section Once.
  Variables (K : keys) (P : list prow).
  Hypothesis ids_distinct : NoDup (map pid P).
  Hypothesis ids_nonzero : forall r, In r P -> pid r <> 0.
  Hypothesis langs_inj : key_inj K (map plang P).

  Let X := build_index K P.

  Lemma cols_NoDup : NoDup (x_cols X).
  Proof. apply usort_NoDup. exact langs_inj. Qed.

  Lemma cols_In l : In l (x_cols X) <-> exists r, In r P /\ plang r = l.
  Proof.
    cbn [X build_index x_cols]. rewrite usort_In, in_map_iff.
    split; intros [r [H1 H2]]; exists r; auto.
  Qed.

  (* every non-empty slot of the array holds the id of a row, at a line of the
     row's concept and in the column of the row's language *)
  Lemma array_ids_only i j :
    aget (x_array X) i j <> 0 ->
    exists r c k, In r P /\ pid r = aget (x_array X) i j /\ nth_error (lines (build_dict P)) i = Some (c, k)
                  /\ pconc r = c /\ nth_error (x_cols X) j = Some (plang r).
  Proof.
    intros N. unfold X in *. rewrite array_grid in *.
    set (v := aget (map (fun ck => map (slot P ck) (x_cols (build_index K P))) (lines (build_dict P))) i j) in *.
    destruct (grid_aget _ _ _ _ _ v eq_refl N) as [[c k] [l [H1 [H2 H3]]]].
    change (nth k (cellset P c l) 0 = v) in H3.
    assert (Hin : In v (cellset P c l)).
    { rewrite <- H3. apply nth_In. destruct (Nat.lt_ge_cases k (length (cellset P c l))) as [L|L]; [exact L|].
      exfalso. apply N. rewrite <- H3. apply nth_overflow. exact L. }
    apply cellset_In in Hin. destruct Hin as [r [R1 [R2 [R3 R4]]]].
    exists r, c, k. subst l. auto.
  Qed.

  Lemma array_each_id_once_lemma r : In r P ->
    exists i j,
      aget (x_array X) i j = pid r
      /\ (exists is, zget (x_idx X) (pconc r) = Some is /\ In i is)
      /\ nth_error (x_cols X) j = Some (plang r)
      /\ forall i' j', aget (x_array X) i' j' = pid r -> i' = i /\ j' = j.
  Proof.
    intros Hr.
    set (c := pconc r). set (l := plang r).
    assert (Hin : In (pid r) (cellset P c l)) by (apply cellset_In; exists r; auto).
    destruct (In_nth_error _ _ Hin) as [k Hk].
    assert (Hklen : (k < length (cellset P c l))%nat) by (apply nth_error_Some; congruence).
    destruct (zget (build_dict P) c) as [d|] eqn:Ed.
    2:{ exfalso. pose proof (dict_spec P c l) as S. unfold lk2 in S. rewrite Ed in S. rewrite <- S in Hin. exact Hin. }
    assert (Hlk : lk d l = cellset P c l).
    { pose proof (dict_spec P c l) as S. unfold lk2 in S. rewrite Ed in S. exact S. }
    assert (Hmax : (k < maxlen d)%nat).
    { eapply Nat.lt_le_trans; [exact Hklen|]. rewrite <- Hlk. apply maxlen_ge. }
    (* the line *)
    assert (Hidx : exists is, zget (x_idx X) c = Some is).
    { cbn [X build_index x_idx]. destruct (zget (build_idx 0 (build_dict P)) c) eqn:E; [eexists; reflexivity|].
      exfalso. apply (dget_None_notin Z.eqb Zeqb_spec) in E. apply E. rewrite build_idx_keys.
      apply (dget_In Z.eqb Zeqb_spec) in Ed. apply (in_map fst) in Ed. exact Ed. }
    destruct Hidx as [is His].
    destruct (build_idx_spec _ (build_dict_keys_NoDup P) _ _ _ His) as [d' [off [D1 [D2 D3]]]].
    rewrite Ed in D1. inversion D1. subst d'. clear D1.
    (* the column *)
    assert (Hl : In l (x_cols X)) by (apply cols_In; exists r; auto).
    destruct (In_nth_error _ _ Hl) as [j Hj].
    exists (off + k)%nat, j.
    assert (Hval : aget (x_array X) (off + k) j = pid r).
    { unfold X. rewrite array_grid. rewrite (grid_aget_intro _ _ _ _ _ _ _ (D3 k Hmax) Hj).
      unfold slot. cbn [fst snd]. apply nth_error_nth. exact Hk. }
    split; [exact Hval|]. split.
    { exists is. split; [exact His|]. rewrite D2. apply in_seq. cbn [plus]. lia. }
    split; [exact Hj|].
    intros i' j' E.
    assert (N : aget (x_array X) i' j' <> 0) by (rewrite E; apply ids_nonzero; exact Hr).
    destruct (array_ids_only i' j' N) as [r' [c' [k' [R1 [R2 [R3 [R4 R5]]]]]]].
    assert (r' = r) by (apply (pid_inj P); [exact ids_distinct|exact R1|exact Hr|congruence]). subst r'.
    fold c in R4. subst c'. fold l in R5.
    assert (j' = j).
    { eapply (proj1 (NoDup_nth_error (x_cols X)) cols_NoDup); [apply nth_error_Some; congruence|congruence]. }
    subst j'. split; [|reflexivity].
    (* same synonym rank *)
    assert (Hk' : nth k' (cellset P c l) 0 = pid r).
    { rewrite <- E. unfold X. rewrite array_grid. rewrite (grid_aget_intro _ _ _ _ _ _ _ R3 Hj). reflexivity. }
    assert (Hk'len : (k' < length (cellset P c l))%nat).
    { destruct (Nat.lt_ge_cases k' (length (cellset P c l))) as [L|L]; [exact L|].
      exfalso. apply (ids_nonzero r Hr). rewrite <- Hk'. apply nth_overflow. exact L. }
    assert (k' = k).
    { eapply (proj1 (NoDup_nth_error (cellset P c l)) (cellset_NoDup P c l ids_distinct)); [exact Hk'len|].
      rewrite Hk. rewrite (nth_error_nth' _ 0 Hk'len). f_equal. exact Hk'. }
    subst k'.
    eapply (proj1 (NoDup_nth_error (lines (build_dict P))) (lines_NoDup _ (build_dict_keys_NoDup P)));
      [apply nth_error_Some; congruence|]. rewrite R3. symmetry. exact (D3 k Hmax).
  Qed.
End Once.

(* ------------------------------------------------------------- slots *)
Lemma lines_In_intro D c d k : In (c, d) D -> (k < maxlen d)%nat -> In (c, k) (lines D).
Proof.
  intros H L. unfold lines. apply in_flat_map. exists (c, d). split; [exact H|].
  cbn [fst snd]. apply in_map. apply in_seq. lia.
Qed.

Section Slots.
  Variable P : list prow.
  Hypothesis ids_distinct : NoDup (map pid P).
  Hypothesis ids_nonzero : forall r, In r P -> pid r <> 0.

  Lemma slot_range ck l : slot P ck l <> 0 -> (snd ck < length (cellset P (fst ck) l))%nat.
  Proof.
    intros N. destruct (Nat.lt_ge_cases (snd ck) (length (cellset P (fst ck) l))) as [L|L]; [exact L|].
    exfalso. apply N. unfold slot. apply nth_overflow. exact L.
  Qed.

  Lemma slot_row ck l : slot P ck l <> 0 ->
    exists r, In r P /\ pid r = slot P ck l /\ pconc r = fst ck /\ plang r = l.
  Proof.
    intros N. assert (Hin : In (slot P ck l) (cellset P (fst ck) l)).
    { unfold slot. apply nth_In. apply slot_range. exact N. }
    apply cellset_In in Hin. exact Hin.
  Qed.

  Lemma slot_inj ck l ck' l' : slot P ck l = slot P ck' l' -> slot P ck l <> 0 -> ck = ck' /\ l = l'.
  Proof.
    intros E N. assert (N' : slot P ck' l' <> 0) by (rewrite <- E; exact N).
    destruct (slot_row ck l N) as [r [R1 [R2 [R3 R4]]]].
    destruct (slot_row ck' l' N') as [r' [R1' [R2' [R3' R4']]]].
    assert (r = r') by (apply (pid_inj P); [exact ids_distinct|exact R1|exact R1'|congruence]). subst r'.
    assert (El : l' = l) by congruence. clear R4 R4'. subst l'. split; [|reflexivity].
    destruct ck as [c k], ck' as [c' k']. cbn [fst snd] in *. assert (Hc : c' = c) by congruence. clear R3 R3'. subst c'.
    f_equal. pose proof (slot_range (c, k) l N) as L1. pose proof (slot_range (c, k') l N') as L2. cbn [fst snd] in *.
    eapply (proj1 (NoDup_nth_error (cellset P c l)) (cellset_NoDup P c l ids_distinct)); [exact L1|].
    rewrite (nth_error_nth' _ 0 L1), (nth_error_nth' _ 0 L2). f_equal. exact E.
  Qed.

  Lemma slot_exists r : In r P ->
    exists k, In (pconc r, k) (lines (build_dict P)) /\ slot P (pconc r, k) (plang r) = pid r.
  Proof.
    intros Hr. set (c := pconc r). set (l := plang r).
    assert (Hin : In (pid r) (cellset P c l)) by (apply cellset_In; exists r; auto).
    destruct (In_nth_error _ _ Hin) as [k Hk].
    assert (Hklen : (k < length (cellset P c l))%nat) by (apply nth_error_Some; congruence).
    destruct (zget (build_dict P) c) as [d|] eqn:Ed.
    2:{ exfalso. pose proof (dict_spec P c l) as S. unfold lk2 in S. rewrite Ed in S. rewrite <- S in Hin. exact Hin. }
    assert (Hlk : lk d l = cellset P c l).
    { pose proof (dict_spec P c l) as S. unfold lk2 in S. rewrite Ed in S. exact S. }
    exists k. split.
    - apply (lines_In_intro _ c d); [apply (dget_In Z.eqb Zeqb_spec); exact Ed|].
      eapply Nat.lt_le_trans; [exact Hklen|]. rewrite <- Hlk. apply maxlen_ge.
    - unfold slot. cbn [fst snd]. apply nth_error_nth. exact Hk.
  Qed.
End Slots.

Lemma seq_offset off a m : map (fun k => (off + k)%nat) (seq a m) = seq (off + a) m.
Proof.
  revert a. induction m as [|m IH]; intros a; cbn [seq map]; [reflexivity|].
  f_equal. rewrite IH. f_equal. lia.
Qed.

(* the block of lines that _idx records for a concept *)
Lemma block_lines K P c is :
  zget (x_idx (build_index K P)) c = Some is ->
  exists d, zget (build_dict P) c = Some d /\
    map (fun i => nth i (x_array (build_index K P)) []) is =
    map (fun k => map (slot P (c, k)) (x_cols (build_index K P))) (seq 0 (maxlen d)).
Proof.
  intros H. cbn [build_index x_idx] in H.
  destruct (build_idx_spec _ (build_dict_keys_NoDup P) _ _ _ H) as [d [off [D1 [D2 D3]]]].
  exists d. split; [exact D1|]. subst is. cbn [plus].
  replace off with (off + 0)%nat at 1 by lia. rewrite <- seq_offset, map_map. rewrite array_grid.
  apply map_ext_in. intros k Hk. apply in_seq in Hk.
  apply nth_error_nth. rewrite nth_error_map, (D3 k) by lia. reflexivity.
Qed.
