(* renumber: equal values (through str) get equal integers, different values
   different ones; positive, except that '' gets 0. *)
From Coq Require Import ZArith List Bool Lia String.
From LV Require Import Wordlist.Rows Wordlist.RowsProofs Wordlist.Index Wordlist.Views Wordlist.Renumber.
Import ListNotations.
Local Open Scope Z_scope.

Lemma zkeys_inj l : key_inj zkeys l.
Proof. intros x y _ _ _ H. exact H. Qed.

Lemma number_from_zget l : forall n k,
  zget (number_from n l) k = option_map (fun p => n + Z.of_nat p) (index_of k l).
Proof.
  unfold zget. induction l as [|x t IH]; intros n k; cbn [number_from dget index_of]; [reflexivity|].
  destruct (x =? k); cbn [option_map]; [f_equal; lia|].
  rewrite IH. destruct (index_of k t) as [p|]; cbn [option_map]; [f_equal; lia|reflexivity].
Qed.

Section Renum.
  Variables (skey : cell -> Z) (kempty : Z) (vs : list cell).
  Let src := renum_sources skey vs.

  Lemma src_In v : In v vs -> In (skey v) src.
  Proof. intros H. unfold src, renum_sources. apply usort_In. apply in_map. exact H. Qed.

  Lemma src_NoDup : NoDup src.
  Proof. apply usort_NoDup. apply zkeys_inj. Qed.

  (* the sorted list of distinct str-values: strictly increasing *)
  Lemma src_sorted : Sorted.StronglySorted (fun x y => x < y) src.
  Proof.
    pose proof (usort_sorted zkeys (map skey vs) (zkeys_inj _)) as S. fold (renum_sources skey vs) in S. fold src in S.
    induction S as [|x t St IH Hx]; constructor; [exact IH|].
    rewrite Forall_forall in *. intros y Hy. specialize (Hx y Hy). unfold kltP in Hx. rewrite klt_spec in Hx.
    cbn [zkeys lowk rawk] in Hx. lia.
  Qed.

  Lemma conv_zget k : In k src ->
    exists p, index_of k src = Some p /\
      zget (converter skey kempty vs) k = Some (if k =? kempty then 0 else 1 + Z.of_nat p).
  Proof.
    intros Hk. destruct (index_of_In k src Hk) as [p Hp]. exists p. split; [exact Hp|].
    unfold converter. fold src.
    destruct (dmem Z.eqb (number_from 1 src) kempty) eqn:Em.
    - unfold zset, zget. destruct (k =? kempty) eqn:E.
      + apply Z.eqb_eq in E. subst k. apply (dget_dset_same Z.eqb Zeqb_spec).
      + apply Z.eqb_neq in E. rewrite (dget_dset_other Z.eqb Zeqb_spec) by congruence.
        fold (zget (number_from 1 src) k). rewrite number_from_zget, Hp. reflexivity.
    - rewrite number_from_zget, Hp. cbn [option_map]. destruct (k =? kempty) eqn:E; [|reflexivity].
      apply Z.eqb_eq in E. subst k. exfalso. unfold dmem in Em.
      fold (zget (number_from 1 src) kempty) in Em. rewrite number_from_zget, Hp in Em. discriminate.
  Qed.

  (* positive, except that the empty value maps to 0 *)
  Theorem renum_sign v : In v vs ->
    exists m, renum_fun skey kempty vs v = Atom m /\ 0 <= m /\ (m = 0 <-> skey v = kempty).
  Proof.
    intros Hv. destruct (conv_zget (skey v) (src_In v Hv)) as [p [Hp Hz]].
    unfold renum_fun. rewrite Hz.
    destruct (skey v =? kempty) eqn:E.
    - apply Z.eqb_eq in E. exists 0. split; [reflexivity|]. split; [lia|]. tauto.
    - apply Z.eqb_neq in E. exists (1 + Z.of_nat p). split; [reflexivity|]. split; [lia|]. split; [lia|contradiction].
  Qed.

  (* equal values to equal integers, different values to different integers *)
  Theorem renum_injective v v' : In v vs -> In v' vs ->
    (renum_fun skey kempty vs v = renum_fun skey kempty vs v' <-> skey v = skey v').
  Proof.
    intros Hv Hv'. split.
    - destruct (conv_zget (skey v) (src_In v Hv)) as [p [Hp Hz]].
      destruct (conv_zget (skey v') (src_In v' Hv')) as [p' [Hp' Hz']].
      unfold renum_fun. rewrite Hz, Hz'.
      destruct (skey v =? kempty) eqn:E, (skey v' =? kempty) eqn:E'; intros H;
        pose proof (f_equal (fun c => match c with Atom z => z | Multi _ => 0 end) H) as H0; cbv beta iota in H0.
      + apply Z.eqb_eq in E. apply Z.eqb_eq in E'. congruence.
      + lia.
      + lia.
      + assert (p = p') by lia. subst p'. apply index_of_spec in Hp. apply index_of_spec in Hp'. congruence.
    - intros E. unfold renum_fun. rewrite E. reflexivity.
  Qed.
End Renum.
