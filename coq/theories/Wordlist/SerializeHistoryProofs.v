(* C13 - histories: the object that was loaded is again inside the guard, saving it writes the same file
   again, so any number of save -> load steps returns the same object. *)
From Coq Require Import QArith ZArith List Bool Lia Permutation.
From LV Require Import Common.Cases Wordlist.SerializeStr Wordlist.SerializeStrProofs Wordlist.SerializeNum
  Wordlist.SerializeNumProofs Wordlist.Serialize Wordlist.SerializeProofs Wordlist.SerializeMsa Wordlist.SerializeExec
  Wordlist.SerializeExecProofs.
Import ListNotations.
Local Open Scope Z_scope.

(* ------------------------------------------------------------------ *)
(* sorting a sorted list changes nothing *)
Lemma str_leb_total : forall a b, str_leb a b = false -> str_leb b a = true.
Proof.
  induction a as [|x a IH]; intros b H; [discriminate H|].
  destruct b as [|y b]; [reflexivity|]. cbn [str_leb] in *.
  destruct (x <? y) eqn:E1; [discriminate H|]. destruct (y <? x) eqn:E2; [reflexivity|]. apply IH, H.
Qed.

Fixpoint adj {A} (leb : A -> A -> bool) (l : list A) : Prop :=
  match l with
  | [] => True
  | x :: r => match r with [] => True | y :: _ => leb x y = true end /\ adj leb r
  end.

Lemma insert_adj : forall {A} (leb : A -> A -> bool) x l,
  (forall y, In y l -> leb x y = false -> leb y x = true) -> adj leb l -> adj leb (insert_by leb x l).
Proof.
  intros A leb x. induction l as [|y r IH]; intros T S.
  - cbn. split; exact I.
  - cbn [insert_by]. destruct (leb x y) eqn:E.
    + cbn [adj]. split; [exact E|exact S].
    + destruct S as [S1 S2].
      assert (IHr : adj leb (insert_by leb x r)) by (apply IH; [intros z Iz; apply T; right; exact Iz|exact S2]).
      cbn [adj]. split; [|exact IHr].
      destruct r as [|z r'].
      * cbn [insert_by]. apply T; [left; reflexivity|exact E].
      * cbn [insert_by]. destruct (leb x z); [apply T; [left; reflexivity|exact E]|exact S1].
Qed.

Lemma isort_adj : forall {A} (leb : A -> A -> bool) l,
  (forall x y, In x l -> In y l -> leb x y = false -> leb y x = true) -> adj leb (isort leb l).
Proof.
  intros A leb. induction l as [|x l IH]; intros T; [exact I|].
  rewrite isort_cons. apply insert_adj.
  - intros y Iy. apply T; [left; reflexivity|]. right. eapply Permutation_in; [apply isort_perm|exact Iy].
  - apply IH. intros a b Ia Ib. apply T; right; assumption.
Qed.

Lemma isort_of_adj : forall {A} (leb : A -> A -> bool) l, adj leb l -> isort leb l = l.
Proof.
  intros A leb. induction l as [|x l IH]; intros S; [reflexivity|].
  destruct S as [S1 S2]. rewrite isort_cons, IH by exact S2.
  destruct l as [|y r]; [reflexivity|]. cbn [insert_by]. rewrite S1. reflexivity.
Qed.

Lemma isort_idem : forall {A} (leb : A -> A -> bool) l,
  (forall x y, In x l -> In y l -> leb x y = false -> leb y x = true) -> isort leb (isort leb l) = isort leb l.
Proof. intros A leb l T. apply isort_of_adj, isort_adj, T. Qed.

(* ------------------------------------------------------------------ *)
(* the guard is a property of the columns and of the multiset of rows *)
Lemma wl_okb_perm : forall tbl cols rows rows', Permutation rows' rows ->
  wl_okb tbl (mk_wl cols rows) = true -> wl_okb tbl (mk_wl cols rows') = true.
Proof.
  intros tbl cols rows rows' P H. unfold wl_okb, wl_okb_gen in *. cbn [wl_cols wl_rows] in *.
  repeat (apply andb_true_iff in H; let H' := fresh "K" in destruct H as [H H']).
  repeat (apply andb_true_iff; split); try assumption.
  - eapply forallb_perm; [exact P|exact K2].
  - apply NoDup_znodupb. eapply Permutation_NoDup; [apply Permutation_sym, Permutation_map, P|apply znodupb_NoDup, K1].
  - eapply forallb_perm; [exact P|exact K0].
  - destruct (index_of s_CONCEPT (map upper cols)); [|reflexivity]. eapply forallb_perm; [exact P|exact K].
Qed.

Definition loaded (w : wl) : wl := mk_wl (wl_cols w) (sorted_rows w).

Theorem loaded_in_guard : forall tbl w, wl_okb tbl w = true -> wl_okb tbl (loaded w) = true.
Proof.
  intros tbl w H. unfold loaded. apply (wl_okb_perm tbl (wl_cols w) (wl_rows w)); [apply sorted_rows_perm|].
  destruct w; exact H.
Qed.

Theorem sorted_rows_idem : forall tbl w, wl_okb tbl w = true -> sorted_rows (loaded w) = sorted_rows w.
Proof.
  intros tbl w H. pose proof (wl_okb_ok tbl w H) as OK. unfold loaded, sorted_rows. cbn [wl_cols wl_rows].
  pose proof (ok_keys _ _ OK) as K.
  destruct (index_of s_CONCEPT (map upper (wl_cols w))) as [i|].
  - apply isort_idem. intros x y Ix Iy E. rewrite forallb_forall in K.
    pose proof (K x Ix) as Kx. pose proof (K y Iy) as Ky. unfold row_leb in *.
    destruct (key_cell i x); try discriminate Kx. destruct (key_cell i y); try discriminate Ky.
    cbn [cell_leb] in *. apply str_leb_total, E.
  - apply isort_idem. intros x y _ _ E. unfold id_leb in *. lia.
Qed.

(* the lines written, as a function of the columns and of the rows in the order written *)
Definition written (pretty : bool) (pre stamp : list str) (cols : list str) (srows : list row) : list str :=
  let hdr := map upper cols in
  let '(idx, init) := match index_of s_CONCEPT hdr with Some i => (i, VNone) | None => (O, VStr []) end in
  (if pretty then [s_wordlist] else []) ++ pre ++ (if pretty then [[]; s_data] else [])
  ++ header_line cols :: body_lines pretty idx init srows ++ stamp.

Lemma write_form : forall tbl pretty pre stamp w, wl_okb tbl w = true ->
  write pretty pre stamp w = Ok (written pretty pre stamp (wl_cols w) (sorted_rows w)).
Proof.
  intros tbl pretty pre stamp w H. pose proof (wl_okb_ok tbl w H) as OK. unfold write, written.
  assert (SB : match index_of s_CONCEPT (map upper (wl_cols w)) with
               | Some i => sortableb i (wl_rows w) | None => true end = true).
  { pose proof (ok_keys _ _ OK) as K. destruct (index_of s_CONCEPT (map upper (wl_cols w))); [apply sortableb_str, K|reflexivity]. }
  rewrite SB.
  destruct (match index_of s_CONCEPT (map upper (wl_cols w)) with
            | Some i => (i, VNone) | None => (0%nat, VStr []) end) as [idx init].
  reflexivity.
Qed.

(* SAVING THE LOADED OBJECT WRITES THE SAME FILE AGAIN *)
Theorem second_save_same_file : forall tbl pretty pre stamp w, wl_okb tbl w = true ->
  write pretty pre stamp (loaded w) = write pretty pre stamp w.
Proof.
  intros tbl pretty pre stamp w H.
  rewrite (write_form tbl pretty pre stamp (loaded w) (loaded_in_guard tbl w H)).
  rewrite (write_form tbl pretty pre stamp w H).
  rewrite (sorted_rows_idem tbl w H). reflexivity.
Qed.

(* one save -> load step of the model *)
Definition reload (tbl : list entry) (pretty : bool) (pre stamp : list str) (w : wl) : res wl :=
  match write pretty pre stamp w with Ok ls => read tbl ls | Err => Err end.
Fixpoint reload_n (tbl : list entry) (pretty : bool) (pre stamp : list str) (n : nat) (w : wl) : res wl :=
  match n with
  | O => Ok w
  | S k => match reload tbl pretty pre stamp w with Ok w' => reload_n tbl pretty pre stamp k w' | Err => Err end
  end.

Lemma reload_once : forall tbl pretty pre stamp w, wl_okb tbl w = true -> closed_pre pre -> Forall skipline stamp ->
  reload tbl pretty pre stamp w = Ok (loaded w).
Proof.
  intros tbl pretty pre stamp w H CP FS. destruct (file_roundtrip tbl pretty pre stamp w H CP FS) as [ls [W R]].
  unfold reload. rewrite W. exact R.
Qed.

Lemma loaded_loaded : forall tbl w, wl_okb tbl w = true -> loaded (loaded w) = loaded w.
Proof. intros tbl w H. unfold loaded at 1. rewrite (sorted_rows_idem tbl w H). reflexivity. Qed.

(* HISTORIES: any number (>= 1) of save -> load steps gives the object the first step gave *)
Theorem history_roundtrip : forall tbl pretty pre stamp n w,
  wl_okb tbl w = true -> closed_pre pre -> Forall skipline stamp ->
  reload_n tbl pretty pre stamp (S n) w = Ok (loaded w).
Proof.
  intros tbl pretty pre stamp. induction n as [|n IH]; intros w H CP FS.
  - cbn [reload_n]. rewrite reload_once by assumption. reflexivity.
  - change (reload_n tbl pretty pre stamp (S (S n)) w)
      with (match reload tbl pretty pre stamp w with Ok w' => reload_n tbl pretty pre stamp (S n) w' | Err => Err end).
    rewrite reload_once by assumption.
    rewrite IH by (try assumption; apply loaded_in_guard, H).
    rewrite (loaded_loaded tbl w H). reflexivity.
Qed.
