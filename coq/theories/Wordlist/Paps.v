(* Wordlist.get_paps: presence / absence / missing patterns of cognate sets.
   Model only. *)
From Coq Require Import ZArith List Bool.
From LV Require Import Wordlist.Rows Wordlist.Index Wordlist.Views.
Import ListNotations.
Local Open Scope Z_scope.

Inductive pap := Present | Absent | Missing.

Definition pap_code (marker : Z) (p : pap) : Z :=
  match p with Present => 1 | Absent => 0 | Missing => marker end.

(* Python truth value of a name: '' (and the integer 0) are false *)
Definition truthyZ (m : Z) : bool := negb (m =? 0) && negb (m =? EMPTY).

Fixpoint zdedup (l : list Z) : list Z :=
  match l with
  | [] => []
  | x :: t => if zmem x t then zdedup t else x :: zdedup t
  end.

Definition zsum (l : list Z) : Z := fold_right Z.add 0 l.

Section Paps.
  Variables (D : list row) (ri ci : nat) (X : index).

  (* missed[meaning]: columns whose sum over get_list(row=meaning) is 0.
     None: get_list raises *)
  Definition missed (m : Z) : option (list bool) :=
    option_map (fun b => map (fun j => zsum (column b j) =? 0) (seq 0 (length (x_cols X))))
               (block_of X m).

  (* one cognate set: [slots] is its line of the etymological dictionary,
     [me] the column get_paps(entry=...) reads the meanings from *)
  Definition pap_vec (me : nat) (slots : list (list Z)) : option (list pap) :=
    let meanings := zdedup (map (fun id => key_at D id me) (concat slots)) in
    match meanings with
    | [m] =>
        if truthyZ m then
          option_map (fun ms =>
            map (fun sm => match fst sm with
                           | _ :: _ => Present
                           | [] => if (snd sm : bool) then Missing else Absent
                           end) (combine slots ms)) (missed m)
        else Some (map (fun s => match s with _ :: _ => Present | [] => Absent end) slots)
    | _ => Some (map (fun s => match s with _ :: _ => Present | [] => Absent end) slots)
    end.

  Fixpoint all_some_snd {A B} (l : list (A * option B)) : option (list (A * B)) :=
    match l with
    | [] => Some []
    | (a, None) :: _ => None
    | (a, Some b) :: t => option_map (cons (a, b)) (all_some_snd t)
    end.

  Definition get_paps (ref me : nat) : option (list (Z * list pap)) :=
    all_some_snd (map (fun kv => (fst kv, pap_vec me (snd kv))) (get_etymdict D ci X ref)).
End Paps.

(* ------------------------------------------------ the property's pattern *)
(* stated on the rows alone *)
Section Decl.
  Variables (D : list row) (ri ci : nat).
  Definition pap_decl3 (ref : nat) (cog l : Z) : pap :=
    (* present: the language has a word in the set *)
    if existsb (fun r => (rkey ci r =? l) && zmem cog (carried ref r)) D then Present
    else
      (* the concepts of the words of the set *)
      match zdedup (map (rkey ri) (filter (fun r => zmem cog (carried ref r)) D)) with
      | [m] => (* one concept: missing iff the language has no word for it *)
               if truthyZ m && is_nil (cellrows D ri ci m l) then Missing else Absent
      | _ => Absent
      end.
End Decl.
