(* The redundant indexes QLCParserWithRowsAndCols.__init__ builds over the rows
   (parser.py, "unique_sorted" .. "self._array = np.array(tmp_list)"):
   rows, cols, _dict, _idx, _array.  Model only. *)
From Coq Require Import ZArith List Bool.
From LV Require Import Wordlist.Rows.
Import ListNotations.
Local Open Scope Z_scope.

(* language -> ids, and concept -> (language -> ids), in insertion order *)
Definition ldict := list (Z * list Z).
Definition cdict := list (Z * ldict).

(* self._dict[value[rowIdx]][value[colIdx]].append(key)  (defaultdicts) *)
Fixpoint ld_add (d : ldict) (l id : Z) : ldict :=
  match d with
  | [] => [(l, [id])]
  | (l', ids) :: t => if l' =? l then (l', ids ++ [id]) :: t else (l', ids) :: ld_add t l id
  end.
Fixpoint cd_add (d : cdict) (c l id : Z) : cdict :=
  match d with
  | [] => [(c, [(l, [id])])]
  | (c', ld) :: t => if c' =? c then (c', ld_add ld l id) :: t else (c', ld) :: cd_add t c l id
  end.
Definition build_dict (P : list prow) : cdict :=
  fold_left (fun d r => cd_add d (pconc r) (plang r) (pid r)) P [].

(* max([len(x) for x in d.values()]) *)
Definition maxlen (d : ldict) : nat := fold_right Nat.max O (map (fun p => length (snd p)) d).

(* one line of the array: d[self.cols[j]][i], 0 when that raises *)
Definition block_row (cols : list Z) (d : ldict) (i : nat) : list Z :=
  map (fun l => match zget d l with Some ids => nth i ids 0 | None => 0 end) cols.
Definition block (cols : list Z) (d : ldict) : list (list Z) :=
  map (block_row cols d) (seq 0 (maxlen d)).

Definition build_array (cols : list Z) (D : cdict) : list (list Z) :=
  flat_map (fun cd => block cols (snd cd)) D.

(* self._idx[k]: the line numbers of the block of concept k *)
Fixpoint build_idx (count : nat) (D : cdict) : list (Z * list nat) :=
  match D with
  | [] => []
  | (c, d) :: t => (c, seq count (maxlen d)) :: build_idx (count + maxlen d) t
  end.

(* side effect of d[self.cols[j]] on a defaultdict: every language without an
   entry for the concept gets an empty list, in the order of cols *)
Definition ld_fill (cols : list Z) (d : ldict) : ldict :=
  fold_left (fun d l => match zget d l with Some _ => d | None => d ++ [(l, [])] end) cols d.

Record index := {
  x_rows : list Z;                 (* self.rows *)
  x_cols : list Z;                 (* self.cols *)
  x_dict : cdict;                  (* self._dict, as left behind by the array loop *)
  x_idx : list (Z * list nat);     (* self._idx *)
  x_array : list (list Z)          (* self._array *)
}.

Definition build_index (K : keys) (P : list prow) : index :=
  let cols := usort K (map plang P) in
  let D := build_dict P in
  {| x_rows := usort K (map pconc P);
     x_cols := cols;
     x_dict := map (fun cd => (fst cd, ld_fill cols (snd cd))) D;
     x_idx := build_idx 0 D;
     x_array := build_array cols D |}.
