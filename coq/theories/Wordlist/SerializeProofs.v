(* C13 - proofs: cell round trip, file round trip, derived columns, word pairs. *)
From Coq Require Import QArith ZArith List Bool Lia Permutation.
From LV Require Import Wordlist.SerializeStr Wordlist.SerializeStrProofs Wordlist.SerializeNum
  Wordlist.SerializeNumProofs Wordlist.Serialize.
Import ListNotations.
Local Open Scope Z_scope.

(* ------------------------------------------------------------------ *)
(* items and joined items *)
Lemma item_okb_ok : forall s, item_okb s = true -> item_ok s.
Proof.
  intros s H. unfold item_okb in H. apply andb_true_iff in H. destruct H as [H1 H2].
  split; [|exact H2]. destruct s; [discriminate|discriminate].
Qed.

Lemma items_okb_ok : forall l, forallb item_okb l = true -> Forall item_ok l.
Proof.
  intros l H. apply Forall_forall. intros x I. rewrite forallb_forall in H. apply item_okb_ok, H, I.
Qed.

Lemma nospace_not_in : forall s c, nospace s -> is_space c = true -> ~ In c s.
Proof.
  intros s c H Hc I. unfold nospace in H. rewrite forallb_forall in H. specialize (H c I).
  rewrite Hc in H. discriminate.
Qed.

Lemma show_int_item : forall z, item_ok (show_int z).
Proof. intros z. split; [apply show_int_nonempty|apply show_int_nospace]. Qed.

Lemma show_dec_item : forall d, dec_ok d -> item_ok (show_dec d).
Proof. intros d H. split; [apply show_dec_nonempty|apply show_dec_nospace, H]. Qed.

Lemma Forall_map_item : forall {A} (f : A -> str) (P : A -> Prop) l,
  (forall x, P x -> item_ok (f x)) -> Forall P l -> Forall item_ok (map f l).
Proof.
  intros A f P l H F. induction F as [|x l Hx Hl IH]; cbn [map]; constructor; auto.
Qed.

Lemma all_some_map : forall {A} (f : str -> option A) (g : A -> str) (P : A -> Prop) l,
  (forall x, P x -> f (g x) = Some x) -> Forall P l -> all_some (map f (map g l)) = Some l.
Proof.
  intros A f g P l H F. induction F as [|x l Hx Hl IH]; cbn [map all_some]; [reflexivity|].
  rewrite (H x Hx), IH. reflexivity.
Qed.

Lemma decs_okb_ok : forall l, forallb dec_okb l = true -> Forall dec_ok l.
Proof.
  intros l H. apply Forall_forall. intros x I. rewrite forallb_forall in H. apply dec_okb_ok, H, I.
Qed.

Lemma Forall_True : forall {A} (l : list A), Forall (fun _ => True) l.
Proof. intros A l. apply Forall_forall. intros; exact I. Qed.

Lemma items_no32 : forall l, Forall item_ok l -> Forall (fun x => ~ In 32 x) l.
Proof.
  intros l F. eapply Forall_impl; [|exact F]. intros x [_ H]. apply nospace_not_in; [exact H|reflexivity].
Qed.

Lemma map_nonnil : forall {A B} (f : A -> B) l, l <> [] -> map f l <> [].
Proof. intros A B f l H. destruct l; [congruence|discriminate]. Qed.

Lemma nullb_nonnil : forall {A} (l : list A), negb (nullb l) = true -> l <> [].
Proof. intros A l H. destruct l; [discriminate|discriminate]. Qed.

(* ------------------------------------------------------------------ *)
(* THE CELL ROUND TRIP: for every converter class and every value of the type it produces,
   inside the guard, parsing what was written gives the value back - constructor included *)
Theorem cell_roundtrip : forall k v, cell_okb k v = true -> parse_cell k (show_cell v) = v.
Proof.
  intros k v H.
  destruct k, v; cbn [cell_okb] in H; try discriminate H; cbn [parse_cell show_cell].
  - (* KStr *) reflexivity.
  - (* KInt *) rewrite parse_show_int. reflexivity.
  - (* KInteger *)
    pose proof (show_int_nonempty z) as NE. destruct (show_int z) eqn:E; [congruence|].
    rewrite <- E, parse_show_int. reflexivity.
  - (* KBInts *)
    unfold conv_list. rewrite split_ws_join by (apply (Forall_map_item show_int (fun _ => True)); [intros; apply show_int_item|apply Forall_True]).
    rewrite (all_some_map parse_int show_int (fun _ => True)); [reflexivity|intros; apply parse_show_int|apply Forall_True].
  - (* KBLists *) rewrite split_ws_join by (apply items_okb_ok, H). reflexivity.
  - (* KBStrings *) rewrite split_ws_join by (apply items_okb_ok, H). reflexivity.
  - (* KBFloats *)
    apply decs_okb_ok in H. unfold conv_list.
    rewrite split_ws_join by (apply (Forall_map_item show_dec dec_ok); [apply show_dec_item|exact H]).
    rewrite (all_some_map parse_dec show_dec dec_ok); [reflexivity|apply parse_show_dec|exact H].
  - (* KSplitWs *) rewrite split_ws_join by (apply items_okb_ok, H). reflexivity.
  - (* KSplitSp *)
    apply andb_true_iff in H. destruct H as [H1 H2]. apply nullb_nonnil in H1. apply items_okb_ok in H2.
    rewrite split_join; [reflexivity|exact H1|apply items_no32, H2].
  - (* KIntsWs *)
    unfold conv_list. rewrite split_ws_join by (apply (Forall_map_item show_int (fun _ => True)); [intros; apply show_int_item|apply Forall_True]).
    rewrite (all_some_map parse_int show_int (fun _ => True)); [reflexivity|intros; apply parse_show_int|apply Forall_True].
  - (* KIntsSp *)
    apply nullb_nonnil in H. unfold conv_list.
    rewrite split_join; [|apply map_nonnil, H|].
    + rewrite (all_some_map parse_int show_int (fun _ => True)); [reflexivity|intros; apply parse_show_int|apply Forall_True].
    + apply items_no32. apply (Forall_map_item show_int (fun _ => True)); [intros; apply show_int_item|apply Forall_True].
  - (* KFloatsWs *)
    apply decs_okb_ok in H. unfold conv_list.
    rewrite split_ws_join by (apply (Forall_map_item show_dec dec_ok); [apply show_dec_item|exact H]).
    rewrite (all_some_map parse_dec show_dec dec_ok); [reflexivity|apply parse_show_dec|exact H].
  - (* KFloatsSp *)
    apply andb_true_iff in H. destruct H as [H1 H2]. apply nullb_nonnil in H1. apply decs_okb_ok in H2.
    unfold conv_list. rewrite split_join; [|apply map_nonnil, H1|].
    + rewrite (all_some_map parse_dec show_dec dec_ok); [reflexivity|apply parse_show_dec|exact H2].
    + apply items_no32. apply (Forall_map_item show_dec dec_ok); [apply show_dec_item|exact H2].
Qed.

(* the type of what is read is the type the class produces *)
Corollary cell_roundtrip_kind : forall k v, cell_okb k v = true -> kind_of v = produces k.
Proof. intros k v H. destruct k, v; cbn [cell_okb] in H; try discriminate H; reflexivity. Qed.

(* ------------------------------------------------------------------ *)
(* the stable sort the writer applies is a permutation *)
Lemma insert_by_perm : forall {A} (leb : A -> A -> bool) x l, Permutation (insert_by leb x l) (x :: l).
Proof.
  intros A leb x. induction l as [|y r IH]; cbn [insert_by]; [apply Permutation_refl|].
  destruct (leb x y); [apply Permutation_refl|].
  eapply perm_trans; [apply perm_skip, IH|apply perm_swap].
Qed.

Lemma isort_cons : forall {A} (leb : A -> A -> bool) x l, isort leb (x :: l) = insert_by leb x (isort leb l).
Proof. reflexivity. Qed.

Lemma isort_perm : forall {A} (leb : A -> A -> bool) l, Permutation (isort leb l) l.
Proof.
  intros A leb. induction l as [|x l IH]; [apply Permutation_refl|].
  rewrite isort_cons. eapply perm_trans; [apply insert_by_perm|apply perm_skip, IH].
Qed.

Theorem sorted_rows_perm : forall w, Permutation (sorted_rows w) (wl_rows w).
Proof.
  intros w. unfold sorted_rows. destruct (index_of s_CONCEPT (map upper (wl_cols w))); apply isort_perm.
Qed.

Lemma lookup_row_perm : forall l l', Permutation l l' -> NoDup (map fst l) ->
  forall id, lookup_row id l = lookup_row id l'.
Proof.
  intros l l' P. induction P as [|x l l' P IH|x y l|l l' l'' P1 IH1 P2 IH2]; intros ND id.
  - reflexivity.
  - cbn [lookup_row]. cbn [map] in ND. inversion ND; subst. rewrite IH by assumption. reflexivity.
  - cbn [lookup_row]. cbn [map] in ND. inversion ND as [|? ? N1 N2]; subst.
    destruct (fst x =? id) eqn:Ex; destruct (fst y =? id) eqn:Ey; try reflexivity.
    apply Z.eqb_eq in Ex, Ey. exfalso. apply N1. left. congruence.
  - rewrite IH1 by exact ND. apply IH2.
    eapply Permutation_NoDup; [apply Permutation_map, P1|exact ND].
Qed.

(* the object that is read back holds, for every id, the row that was saved *)
Theorem sorted_rows_lookup : forall w, NoDup (map fst (wl_rows w)) ->
  forall id, lookup_row id (sorted_rows w) = lookup_row id (wl_rows w).
Proof.
  intros w ND id. symmetry. apply lookup_row_perm; [apply Permutation_sym, sorted_rows_perm|exact ND].
Qed.

(* ------------------------------------------------------------------ *)
(* what is written into a field contains no TAB / LF and has no blanks at its ends *)
Definition field_clean (s : str) : Prop := ~ In 9 s /\ ~ In 10 s /\ strippedb s = true.

Lemma last_app_cons : forall {A} (a : list A) b c d, last (a ++ b :: c) d = last (b :: c) d.
Proof.
  intros A. induction a as [|x a IH]; intros b c d; [reflexivity|].
  cbn [app]. destruct (a ++ b :: c) eqn:E.
  - exfalso. eapply app_cons_not_nil. symmetry. exact E.
  - rewrite <- E. cbn [last]. rewrite E. rewrite <- E. apply IH.
Qed.

Lemma last_in : forall (s : str) d, s <> [] -> In (last s d) s.
Proof.
  intros s d H. destruct (@exists_last _ s H) as [s' [x E]]. rewrite E, last_last.
  apply in_or_app. right. left. reflexivity.
Qed.

Lemma nospace_in : forall s c, nospace s -> In c s -> is_space c = false.
Proof.
  intros s c H I. unfold nospace in H. rewrite forallb_forall in H. specialize (H c I).
  apply negb_true_iff in H. exact H.
Qed.

Lemma join_chars : forall xs, Forall item_ok xs -> forall c, In c (join [32] xs) -> c = 32 \/ is_space c = false.
Proof.
  induction xs as [|x r IH]; intros F c I; [destruct I|].
  inversion F as [|? ? [_ Hx] Hr]; subst.
  destruct r as [|y r'].
  - cbn [join] in I. right. eapply nospace_in; eauto.
  - rewrite join_cons2 in I. apply in_app_or in I. destruct I as [I|I].
    + right. eapply nospace_in; eauto.
    + cbn [app] in I. destruct I as [<-|I]; [left; reflexivity|]. apply IH; assumption.
Qed.

Lemma join_ends : forall r x, item_ok x -> Forall item_ok r ->
  join [32] (x :: r) <> [] /\ is_space (hd 32 (join [32] (x :: r))) = false
  /\ is_space (last (join [32] (x :: r)) 0) = false.
Proof.
  induction r as [|y r' IH]; intros x [Hne Hns] F.
  - cbn [join]. split; [exact Hne|]. split.
    + destruct x as [|c t]; [congruence|]. cbn [hd]. eapply nospace_in; [exact Hns|left; reflexivity].
    + eapply nospace_in; [exact Hns|]. apply last_in. exact Hne.
  - inversion F as [|? ? Hy Hr]; subst. destruct (IH y Hy Hr) as [J1 [J2 J3]].
    rewrite join_cons2. split; [|split].
    + destruct x; [congruence|discriminate].
    + destruct x as [|c t]; [congruence|]. cbn [app hd]. eapply nospace_in; [exact Hns|left; reflexivity].
    + cbn [app]. rewrite last_app_cons.
      destruct (join [32] (y :: r')) as [|c t] eqn:E; [congruence|].
      change (last (32 :: c :: t) 0) with (last (c :: t) 0). exact J3.
Qed.

Lemma strippedb_ends : forall s, s <> [] -> is_space (hd 32 s) = false -> is_space (last s 0) = false ->
  strippedb s = true.
Proof.
  intros s NE H1 H2. destruct s as [|c t]; [congruence|]. unfold strippedb. cbn [hd] in H1.
  rewrite H1, H2. reflexivity.
Qed.

Lemma join_items_clean : forall xs, Forall item_ok xs -> field_clean (join [32] xs).
Proof.
  intros xs F. split; [|split].
  - intros I. destruct (join_chars xs F 9 I) as [E|E]; discriminate.
  - intros I. destruct (join_chars xs F 10 I) as [E|E]; discriminate.
  - destruct xs as [|x r]; [reflexivity|]. inversion F; subst.
    destruct (join_ends r x) as [J1 [J2 J3]]; try assumption.
    apply strippedb_ends; assumption.
Qed.

Lemma clean_strb_clean : forall s, clean_strb s = true -> field_clean s /\ ~ In 13 s.
Proof.
  intros s H. unfold clean_strb in H. apply andb_true_iff in H. destruct H as [H1 H2].
  rewrite forallb_forall in H1.
  assert (forall x, In x s -> x <> 9 /\ x <> 10 /\ x <> 13) as N.
  { intros x I. specialize (H1 x I). lia. }
  split; [split; [|split]|].
  - intros I. destruct (N 9 I) as [? _]. congruence.
  - intros I. destruct (N 10 I) as [_ [? _]]. congruence.
  - exact H2.
  - intros I. destruct (N 13 I) as [_ [_ ?]]. congruence.
Qed.

Lemma item_clean : forall s, item_ok s -> field_clean s.
Proof.
  intros s [_ H]. split; [|split].
  - apply nospace_not_in; [exact H|reflexivity].
  - apply nospace_not_in; [exact H|reflexivity].
  - apply strippedb_nospace, H.
Qed.

Lemma show_cell_clean : forall k v, cell_okb k v = true -> field_clean (show_cell v).
Proof.
  intros k v H.
  assert (LI : forall l, field_clean (join [32] (map show_int l))).
  { intros l. apply join_items_clean. apply (Forall_map_item show_int (fun _ => True)); [intros; apply show_int_item|apply Forall_True]. }
  assert (LD : forall l, forallb dec_okb l = true -> field_clean (join [32] (map show_dec l))).
  { intros l Hl. apply join_items_clean. apply (Forall_map_item show_dec dec_ok); [apply show_dec_item|apply decs_okb_ok, Hl]. }
  destruct k, v; cbn [cell_okb] in H; try discriminate H; cbn [show_cell];
    try (apply LI); try (apply item_clean, show_int_item);
    try (apply join_items_clean, items_okb_ok, H);
    try (apply LD, H).
  - apply clean_strb_clean, H.
  - apply andb_true_iff in H. destruct H as [_ H]. apply join_items_clean, items_okb_ok, H.
  - apply andb_true_iff in H. destruct H as [_ H]. apply LD, H.
Qed.

(* ------------------------------------------------------------------ *)
(* a written line splits back into its fields *)
Lemma fields_roundtrip : forall fs, fs <> [] -> Forall field_clean fs ->
  map strip (split_on 9 (join [9] fs)) = fs.
Proof.
  intros fs NE F. rewrite split_join.
  - rewrite <- (map_id fs) at 2. apply map_ext_in. intros s I. rewrite Forall_forall in F.
    destruct (F s I) as [_ [_ H]]. apply strip_stripped, H.
  - exact NE.
  - eapply Forall_impl; [|exact F]. intros s [H _]. exact H.
Qed.

Lemma join_head : forall sep c t rest, exists t', join sep ((c :: t) :: rest) = c :: t'.
Proof.
  intros sep c t rest. destruct rest as [|y r].
  - exists t. reflexivity.
  - rewrite join_cons2. cbn [app]. eexists. reflexivity.
Qed.

(* upper-casing keeps a clean name clean *)
Lemma last_map_upc : forall s, last (map upc s) 0 = upc (last s 0).
Proof.
  induction s as [|c s IH]; [reflexivity|].
  cbn [map]. destruct s as [|d s']; [reflexivity|].
  cbn [map] in *. change (last (upc c :: upc d :: map upc s') 0) with (last (upc d :: map upc s') 0).
  rewrite IH. reflexivity.
Qed.

Lemma upper_clean : forall s, field_clean s -> field_clean (upper s).
Proof.
  intros s [H9 [H10 HS]]. unfold upper. split; [|split].
  - intros I. apply in_map_iff in I. destruct I as [x [E I]].
    assert (x = 9) as -> by (pose proof (upc_eq_small x 9 ltac:(lia)); lia). exact (H9 I).
  - intros I. apply in_map_iff in I. destruct I as [x [E I]].
    assert (x = 10) as -> by (pose proof (upc_eq_small x 10 ltac:(lia)); lia). exact (H10 I).
  - destruct s as [|c t]; [reflexivity|]. unfold strippedb in *.
    rewrite last_map_upc. cbn [map]. rewrite !upc_space. exact HS.
Qed.

(* ------------------------------------------------------------------ *)
(* the reader on the lines the writer produces *)
Definition good (a : racc) : Prop := ra_err a = false /\ ra_open a = None.
Definition skipline (l : str) : Prop := starts 35 l || nullb l = true.
Definition dataline (l : str) : Prop :=
  exists c t, l = c :: t /\ c <> 35 /\ c <> 64 /\ c <> 60.

Lemma read_step_skip : forall a l, good a -> skipline l -> read_step a l = a.
Proof.
  intros a l [H1 H2] S. unfold read_step. rewrite H1, H2. unfold skipline in S. rewrite S. reflexivity.
Qed.

Lemma read_step_data : forall a l, good a -> dataline l ->
  read_step a l = mk_racc false None (map strip (split_on 9 l) :: ra_data a) (ra_blocks a) (ra_meta a).
Proof.
  intros a l [H1 H2] [c [t [-> [N1 [N2 N3]]]]]. unfold read_step. rewrite H1, H2.
  cbn [starts nullb].
  assert (c =? 35 = false) as -> by lia.
  assert (c =? 64 = false) as -> by lia.
  assert (c =? 60 = false) as -> by lia.
  reflexivity.
Qed.

Lemma scan_skips : forall ls a, good a -> Forall skipline ls -> fold_left read_step ls a = a.
Proof.
  induction ls as [|l r IH]; intros a G F; [reflexivity|].
  inversion F; subst. cbn [fold_left]. rewrite read_step_skip by assumption. apply IH; assumption.
Qed.

Definition fields (l : str) : list str := map strip (split_on 9 l).

Lemma row_line_dataline : forall r, dataline (row_line r).
Proof.
  intros r. unfold row_line.
  pose proof (show_int_nonempty (fst r)) as NE.
  destruct (show_int (fst r)) as [|c t] eqn:E; [congruence|].
  destruct (join_head [9] c t (map show_cell (snd r))) as [t' J].
  exists c, t'. split; [exact J|].
  assert (In c (show_int (fst r))) as I by (rewrite E; left; reflexivity).
  destruct (show_int_chars _ _ I) as [->|D]; [lia|]. unfold is_digit in D. lia.
Qed.

Lemma scan_body : forall rows pretty idx prev a, good a ->
  fold_left read_step (body_lines pretty idx prev rows) a
  = mk_racc false None (rev (map (fun r => fields (row_line r)) rows) ++ ra_data a) (ra_blocks a) (ra_meta a).
Proof.
  induction rows as [|r rest IH]; intros pretty idx prev a G.
  - cbn [body_lines fold_left map rev app]. destruct a as [e o d b m]. destruct G as [G1 G2]. cbn in *. subst. reflexivity.
  - assert (STEP : forall prev' a', good a' ->
      fold_left read_step (row_line r :: body_lines pretty idx prev' rest) a'
      = mk_racc false None (rev (map (fun r => fields (row_line r)) (r :: rest)) ++ ra_data a') (ra_blocks a') (ra_meta a')).
    { intros prev' a' G'. cbn [fold_left]. rewrite read_step_data by (try exact G'; apply row_line_dataline).
      rewrite IH by (split; reflexivity). cbn [ra_data ra_blocks ra_meta map rev].
      rewrite <- app_assoc. reflexivity. }
    cbn [body_lines]. destruct (nth_error (snd r) idx) as [v|].
    + destruct (cell_eqb v prev).
      * apply STEP, G.
      * destruct pretty.
        -- cbn [app].
           change (fold_left read_step ([35] :: row_line r :: body_lines true idx v rest) a)
             with (fold_left read_step (row_line r :: body_lines true idx v rest) (read_step a [35])).
           rewrite (read_step_skip a [35]) by (try exact G; reflexivity). apply STEP, G.
        -- cbn [app]. apply STEP, G.
    + apply STEP, G.
Qed.

(* the meta / block section leaves the reader at top level with no data line seen *)
Definition closed_pre (pre : list str) : Prop :=
  good (scan pre) /\ ra_data (scan pre) = [].

Lemma closed_pre_nil : closed_pre [].
Proof. split; [split|]; reflexivity. Qed.

Lemma closed_pre_skips : forall pre, Forall skipline pre -> closed_pre pre.
Proof.
  intros pre F. unfold closed_pre, scan. rewrite scan_skips; [apply closed_pre_nil| |exact F].
  split; reflexivity.
Qed.

Lemma scan_app : forall l1 l2, scan (l1 ++ l2) = fold_left read_step l2 (scan l1).
Proof. intros. unfold scan. apply fold_left_app. Qed.

Lemma scan_written : forall p1 pre p2 h rows pretty idx prev stamp,
  Forall skipline p1 -> closed_pre pre -> Forall skipline p2 -> dataline h -> Forall skipline stamp ->
  read_raw (p1 ++ pre ++ p2 ++ h :: body_lines pretty idx prev rows ++ stamp)
  = Ok (fields h :: map (fun r => fields (row_line r)) rows, rev (ra_blocks (scan pre)), rev (ra_meta (scan pre))).
Proof.
  intros p1 pre p2 h rows pretty idx prev stamp F1 [G D] F2 DH FS.
  unfold read_raw.
  assert (E : scan (p1 ++ pre ++ p2 ++ h :: body_lines pretty idx prev rows ++ stamp)
              = mk_racc false None (rev (map (fun r => fields (row_line r)) rows) ++ [fields h])
                        (ra_blocks (scan pre)) (ra_meta (scan pre))).
  { assert (S1 : scan p1 = racc0) by (unfold scan; apply scan_skips; [split; reflexivity|exact F1]).
    rewrite scan_app, S1.
    rewrite fold_left_app. change (fold_left read_step pre racc0) with (scan pre).
    rewrite fold_left_app. rewrite (scan_skips p2) by assumption.
    cbn [fold_left]. rewrite read_step_data by assumption.
    rewrite fold_left_app. rewrite scan_body by (split; reflexivity).
    cbn [ra_data ra_blocks ra_meta]. rewrite D.
    rewrite scan_skips; [reflexivity|split; reflexivity|exact FS]. }
  rewrite E. cbn [ra_err ra_open ra_data ra_blocks ra_meta].
  rewrite rev_app_distr, rev_involutive. reflexivity.
Qed.

(* ------------------------------------------------------------------ *)
(* building the object from the data lines *)
Lemma znodupb_NoDup : forall l, znodupb l = true -> NoDup l.
Proof.
  induction l as [|x l IH]; intros H; [constructor|].
  cbn [znodupb] in H. apply andb_true_iff in H. destruct H as [H1 H2].
  constructor; [|apply IH, H2].
  intros I. apply negb_true_iff in H1. assert (existsb (Z.eqb x) l = true) as E.
  { apply existsb_exists. exists x. split; [exact I|apply Z.eqb_refl]. }
  congruence.
Qed.

Lemma dict_set_fresh : forall d k v, ~ In k (map fst d) -> dict_set d k v = d ++ [(k, v)].
Proof.
  induction d as [|[k' v'] d IH]; intros k v H; [reflexivity|].
  cbn [dict_set]. cbn [map fst In] in H. destruct (k' =? k) eqn:E.
  - apply Z.eqb_eq in E. exfalso. apply H. left. exact E.
  - rewrite IH; [reflexivity|]. intros I. apply H. right. exact I.
Qed.

Definition row_fields (r : row) : list str := show_int (fst r) :: map show_cell (snd r).
Definition row_text (r : row) : Z * list str := (fst r, map show_cell (snd r)).

Lemma keyed_rows_ok : forall rows d, NoDup (map fst d ++ map fst rows) ->
  keyed_rows (map row_fields rows) d = Some (d ++ map row_text rows).
Proof.
  induction rows as [|r rest IH]; intros d ND.
  - cbn [map keyed_rows]. rewrite app_nil_r. reflexivity.
  - cbn [map keyed_rows]. unfold row_fields at 1. rewrite parse_show_int.
    assert (~ In (fst r) (map fst d)) as NI.
    { cbn [map] in ND. apply NoDup_remove_2 in ND. intros I. apply ND. apply in_or_app. left. exact I. }
    rewrite dict_set_fresh by exact NI.
    rewrite IH.
    + rewrite <- app_assoc. reflexivity.
    + rewrite map_app. cbn [map fst]. rewrite <- app_assoc. exact ND.
Qed.

Lemma cells_okb_convert : forall ks cells, cells_okb ks cells = true ->
  convert_row ks (map show_cell cells) = cells /\ length cells = length ks.
Proof.
  induction ks as [|k ks IH]; intros cells H; destruct cells as [|c cells]; cbn [cells_okb] in H; try discriminate H.
  - split; reflexivity.
  - apply andb_true_iff in H. destruct H as [H1 H2]. destruct (IH cells H2) as [E L].
    cbn [map convert_row length]. rewrite cell_roundtrip by exact H1. rewrite E, L. split; reflexivity.
Qed.

Lemma cells_okb_clean : forall ks cells, cells_okb ks cells = true -> Forall field_clean (map show_cell cells).
Proof.
  induction ks as [|k ks IH]; intros cells H; destruct cells as [|c cells]; cbn [cells_okb] in H; try discriminate H.
  - constructor.
  - apply andb_true_iff in H. destruct H as [H1 H2]. cbn [map]. constructor; [eapply show_cell_clean; exact H1|apply IH, H2].
Qed.

Lemma filter_all : forall {A} (f : A -> bool) l, forallb f l = true -> filter f l = l.
Proof.
  intros A f. induction l as [|x l IH]; intros H; [reflexivity|].
  cbn [forallb] in H. apply andb_true_iff in H. destruct H as [H1 H2]. cbn [filter]. rewrite H1, IH by exact H2. reflexivity.
Qed.

Lemma s_ID_clean : field_clean s_ID.
Proof.
  split; [|split]; [| |reflexivity]; unfold s_ID; intros [H|[H|[]]]; discriminate H.
Qed.

(* the guard, unpacked *)
Record wl_ok (tbl : list entry) (w : wl) : Prop := {
  ok_cols : Forall (fun c => c <> [] /\ field_clean c /\ lower (upper c) = c /\ alias_of tbl c = c) (wl_cols w);
  ok_nodup : nodupb (wl_cols w) = true;
  ok_concept : mem_str s_concept (wl_cols w) = true;
  ok_doculect : mem_str s_doculect (wl_cols w) = true;
  ok_ids : forallb (fun r : row => 0 <? fst r) (wl_rows w) = true;
  ok_ids_nodup : NoDup (map fst (wl_rows w));
  ok_cells : Forall (fun r : row => cells_okb (map (class_of tbl) (wl_cols w)) (snd r) = true) (wl_rows w);
  ok_keys : match index_of s_CONCEPT (map upper (wl_cols w)) with
            | Some i => forallb (fun r => match key_cell i r with VStr _ => true | _ => false end) (wl_rows w) = true
            | None => True
            end }.

Lemma expected_class_plain : forall tbl c, expected_class tbl false c = class_of tbl c.
Proof. reflexivity. Qed.

Lemma wl_okb_ok : forall tbl w, wl_okb tbl w = true -> wl_ok tbl w.
Proof.
  intros tbl w H. unfold wl_okb, wl_okb_gen in H.
  repeat (apply andb_true_iff in H; let H' := fresh "H" in destruct H as [H H']).
  constructor; try assumption.
  - apply Forall_forall. intros c I. rewrite forallb_forall in H. specialize (H c I).
    unfold col_okb in H. repeat (apply andb_true_iff in H; let H' := fresh "K" in destruct H as [H H']).
    split; [destruct c; [discriminate|discriminate]|]. split; [apply clean_strb_clean, K1|].
    split; apply str_eqb_eq; assumption.
  - apply znodupb_NoDup. assumption.
  - apply Forall_forall. intros r I. rewrite forallb_forall in H1. specialize (H1 r I).
    rewrite (map_ext _ _ (expected_class_plain tbl)) in H1. exact H1.
  - destruct (index_of s_CONCEPT (map upper (wl_cols w))); [assumption|exact I].
Qed.

Lemma Forall_perm : forall {A} (P : A -> Prop) l l', Permutation l l' -> Forall P l' -> Forall P l.
Proof.
  intros A P l l' Pm F. apply Forall_forall. intros x I. rewrite Forall_forall in F.
  apply F. eapply Permutation_in; eauto.
Qed.

Lemma forallb_perm : forall {A} (f : A -> bool) l l', Permutation l l' -> forallb f l' = true -> forallb f l = true.
Proof.
  intros A f l l' Pm F. apply forallb_forall. intros x I. rewrite forallb_forall in F.
  apply F. eapply Permutation_in; eauto.
Qed.

Lemma forallb_map : forall {A B} (f : B -> bool) (g : A -> B) l, forallb f (map g l) = forallb (fun x => f (g x)) l.
Proof. intros A B f g. induction l as [|x l IH]; cbn [map forallb]; [reflexivity|]. rewrite IH. reflexivity. Qed.

Lemma header_fields : forall tbl w, wl_ok tbl w ->
  fields (header_line (wl_cols w)) = s_ID :: map upper (wl_cols w).
Proof.
  intros tbl w OK. unfold fields, header_line. apply fields_roundtrip; [discriminate|].
  constructor; [apply s_ID_clean|].
  apply Forall_forall. intros u I. apply in_map_iff in I. destruct I as [c [<- I]].
  pose proof (ok_cols _ _ OK) as F. rewrite Forall_forall in F. destruct (F c I) as [_ [C _]].
  apply upper_clean, C.
Qed.

Lemma row_fields_ok : forall ks r, cells_okb ks (snd r) = true -> fields (row_line r) = row_fields r.
Proof.
  intros ks r H. unfold fields, row_line, row_fields. apply fields_roundtrip; [discriminate|].
  constructor; [apply item_clean, show_int_item|]. eapply cells_okb_clean. exact H.
Qed.

(* QLCParser + Wordlist.__init__ on the data lines of a written file *)
Lemma build_written : forall tbl w rows, wl_ok tbl w -> Permutation rows (wl_rows w) ->
  build tbl true (fields (header_line (wl_cols w)) :: map (fun r => fields (row_line r)) rows)
  = Ok (mk_wl (wl_cols w) rows).
Proof.
  intros tbl w rows OK Pm.
  rewrite (header_fields tbl w OK).
  set (cols := wl_cols w). set (ks := map (class_of tbl) cols).
  assert (CELLS : Forall (fun r : row => cells_okb ks (snd r) = true) rows)
    by (eapply Forall_perm; [exact Pm|apply (ok_cells _ _ OK)]).
  assert (BODY : map (fun r => fields (row_line r)) rows = map row_fields rows).
  { apply map_ext_in. intros r I. rewrite Forall_forall in CELLS. eapply row_fields_ok. apply CELLS, I. }
  rewrite BODY.
  assert (NAMES : map lower (map upper cols) = cols).
  { rewrite map_map. rewrite <- (map_id cols) at 2. apply map_ext_in. intros c I.
    pose proof (ok_cols _ _ OK) as F. rewrite Forall_forall in F. destruct (F c I) as [_ [_ [E _]]]. exact E. }
  assert (ALIAS : map (alias_of tbl) cols = cols).
  { rewrite <- (map_id cols) at 2. apply map_ext_in. intros c I.
    pose proof (ok_cols _ _ OK) as F. rewrite Forall_forall in F. destruct (F c I) as [_ [_ [_ E]]]. exact E. }
  assert (KEYED : keyed_rows (map row_fields rows) [] = Some (map row_text rows)).
  { rewrite keyed_rows_ok; [reflexivity|]. cbn [map app].
    eapply Permutation_NoDup; [apply Permutation_sym, Permutation_map, Pm|apply (ok_ids_nodup _ _ OK)]. }
  assert (POS : filter (fun kv : Z * list str => 0 <? fst kv) (map row_text rows) = map row_text rows).
  { apply filter_all. rewrite forallb_map. unfold row_text. cbn [fst].
    eapply forallb_perm; [exact Pm|apply (ok_ids _ _ OK)]. }
  assert (LEN : forallb (fun kv : Z * list str => (length (snd kv) =? length cols)%nat) (map row_text rows) = true).
  { rewrite forallb_map. apply forallb_forall. intros r I. unfold row_text. cbn [snd].
    rewrite map_length. rewrite Forall_forall in CELLS. destruct (cells_okb_convert ks _ (CELLS r I)) as [_ L].
    rewrite L. unfold ks. rewrite map_length. apply Nat.eqb_refl. }
  assert (CONV : map (fun kv : Z * list str => (fst kv, convert_row ks (snd kv))) (map row_text rows) = rows).
  { rewrite map_map. rewrite <- (map_id rows) at 2. apply map_ext_in. intros r I. unfold row_text. cbn [fst snd].
    rewrite Forall_forall in CELLS. destruct (cells_okb_convert ks _ (CELLS r I)) as [E _]. rewrite E.
    destruct r; reflexivity. }
  unfold build.
  change (mem_str (lower (hd [] (s_ID :: map upper cols))) [s_id; s_local_id; s_localid]) with true.
  cbv iota. cbn [tl]. rewrite NAMES, KEYED, ALIAS. cbv zeta. rewrite POS.
  assert (ND : nodupb cols = true) by apply (ok_nodup _ _ OK).
  assert (MC : mem_str s_concept cols = true) by apply (ok_concept _ _ OK).
  assert (MD : mem_str s_doculect cols = true) by apply (ok_doculect _ _ OK).
  rewrite ND. cbn [negb]. cbv iota.
  rewrite LEN. cbn [negb]. cbv iota.
  rewrite MC, MD. cbn [andb negb]. cbv iota.
  fold ks. rewrite CONV. reflexivity.
Qed.

Lemma sortableb_str : forall i rows,
  forallb (fun r => match key_cell i r with VStr _ => true | _ => false end) rows = true -> sortableb i rows = true.
Proof.
  intros i rows H. unfold sortableb. destruct rows as [|a [|b r]]; [reflexivity|reflexivity|].
  rewrite H. reflexivity.
Qed.

Lemma header_dataline : forall cols, dataline (header_line cols).
Proof.
  intros cols. unfold header_line, s_ID.
  destruct (join_head [9] 73 [68] (map upper cols)) as [t' J].
  exists 73, t'. split; [exact J|lia].
Qed.

(* THE FILE ROUND TRIP (lines): inside the guard, plain or prettified, with any closed meta / block
   section before the data and any comment lines after it, the writer succeeds and the reader
   rebuilds the same columns and the same rows (ids, values, value types) - in the order written *)
Theorem file_roundtrip : forall tbl pretty pre stamp w,
  wl_okb tbl w = true -> closed_pre pre -> Forall skipline stamp ->
  exists ls, write pretty pre stamp w = Ok ls /\ read tbl ls = Ok (mk_wl (wl_cols w) (sorted_rows w)).
Proof.
  intros tbl pretty pre stamp w H CP FS. pose proof (wl_okb_ok tbl w H) as OK.
  unfold write.
  assert (SB : match index_of s_CONCEPT (map upper (wl_cols w)) with
               | Some i => sortableb i (wl_rows w) | None => true end = true).
  { pose proof (ok_keys _ _ OK) as K. destruct (index_of s_CONCEPT (map upper (wl_cols w))); [apply sortableb_str, K|reflexivity]. }
  rewrite SB.
  destruct (match index_of s_CONCEPT (map upper (wl_cols w)) with
            | Some i => (i, VNone) | None => (0%nat, VStr []) end) as [idx init].
  eexists. split; [reflexivity|].
  unfold read. rewrite scan_written.
  - apply build_written; [exact OK|apply sorted_rows_perm].
  - destruct pretty; repeat constructor.
  - exact CP.
  - destruct pretty; repeat constructor.
  - apply header_dataline.
  - exact FS.
Qed.

(* ---- the same at the level of the text of the file ---- *)
Definition lf_free (ls : list str) : Prop := Forall (fun l => ~ In 10 l) ls.

Lemma join_no : forall x fs, Forall (fun f => ~ In x f) fs -> x <> 9 -> ~ In x (join [9] fs).
Proof.
  intros x. induction fs as [|f r IH]; intros F N I; [destruct I|].
  inversion F as [|? ? Hf Hr]; subst. destruct r as [|g r'].
  - exact (Hf I).
  - rewrite join_cons2 in I. apply in_app_or in I. destruct I as [I|I]; [exact (Hf I)|].
    cbn [app] in I. destruct I as [E|I]; [congruence|]. exact (IH Hr N I).
Qed.

Lemma body_lines_lf : forall rows pretty idx prev, Forall (fun r => ~ In 10 (row_line r)) rows ->
  lf_free (body_lines pretty idx prev rows).
Proof.
  induction rows as [|r rest IH]; intros pretty idx prev F; [constructor|].
  inversion F as [|? ? Hr Hrest]; subst. cbn [body_lines].
  assert (H35 : ~ In 10 [35]) by (intros [E|[]]; discriminate E).
  destruct (nth_error (snd r) idx) as [v|].
  - destruct (cell_eqb v prev).
    + constructor; [exact Hr|apply IH, Hrest].
    + destruct pretty; cbn [app]; repeat (constructor; [first [exact H35|exact Hr]|]); apply IH, Hrest.
  - constructor; [exact Hr|apply IH, Hrest].
Qed.

Theorem file_roundtrip_text : forall tbl pretty pre stamp w,
  wl_okb tbl w = true -> closed_pre pre -> Forall skipline stamp -> lf_free pre -> lf_free stamp ->
  exists text, write_text pretty pre stamp w = Ok text
               /\ read_text tbl text = Ok (mk_wl (wl_cols w) (sorted_rows w)).
Proof.
  intros tbl pretty pre stamp w H CP FS LP LS.
  destruct (file_roundtrip tbl pretty pre stamp w H CP FS) as [ls [W R]].
  pose proof (wl_okb_ok tbl w H) as OK.
  unfold write_text, read_text. rewrite W. eexists. split; [reflexivity|].
  rewrite lines_unlines; [exact R|].
  (* every line written is free of LF *)
  unfold write in W.
  assert (SB : match index_of s_CONCEPT (map upper (wl_cols w)) with
               | Some i => sortableb i (wl_rows w) | None => true end = true).
  { pose proof (ok_keys _ _ OK) as K. destruct (index_of s_CONCEPT (map upper (wl_cols w))); [apply sortableb_str, K|reflexivity]. }
  rewrite SB in W.
  destruct (match index_of s_CONCEPT (map upper (wl_cols w)) with
            | Some i => (i, VNone) | None => (0%nat, VStr []) end) as [idx init].
  inversion W as [E]. clear W E.
  assert (HDR : ~ In 10 (header_line (wl_cols w))).
  { unfold header_line. apply join_no; [|lia]. constructor; [destruct s_ID_clean as [_ [N _]]; exact N|].
    apply Forall_forall. intros u I. apply in_map_iff in I. destruct I as [c [<- I]].
    pose proof (ok_cols _ _ OK) as F. rewrite Forall_forall in F. destruct (F c I) as [_ [C _]].
    destruct (upper_clean c C) as [_ [N _]]. exact N. }
  assert (ROWS : Forall (fun r => ~ In 10 (row_line r)) (sorted_rows w)).
  { eapply Forall_perm; [apply sorted_rows_perm|].
    pose proof (ok_cells _ _ OK) as F. eapply Forall_impl; [|exact F]. intros r Hr.
    unfold row_line. apply join_no; [|lia]. constructor.
    - destruct (item_clean _ (show_int_item (fst r))) as [_ [N _]]. exact N.
    - pose proof (cells_okb_clean _ _ Hr) as C. eapply Forall_impl; [|exact C]. intros s [_ [N _]]. exact N. }
  unfold lf_free. repeat (apply Forall_app; split).
  - destruct pretty; repeat constructor. intros I. unfold s_wordlist in I. cbn [In] in I.
    repeat (destruct I as [I|I]; [discriminate I|]). exact I.
  - exact LP.
  - destruct pretty; repeat constructor; [intros []|].
    intros I. unfold s_data in I. cbn [In] in I. repeat (destruct I as [I|I]; [discriminate I|]). exact I.
  - constructor; [exact HDR|]. apply Forall_app. split; [apply body_lines_lf, ROWS|exact LS].
Qed.

(* ------------------------------------------------------------------ *)
(* derived columns *)
Lemma kind_eqb_eq : forall a b, kind_eqb a b = true -> a = b.
Proof. intros a b H. destruct a, b; try discriminate H; reflexivity. Qed.

Lemma class_for_guard : forall k kd v, produces k = kd -> conv_total k = true ->
  cell_okb (class_for kd) v = true -> cell_okb k v = true.
Proof.
  intros k kd v P T H. subst kd.
  destruct k; cbn [conv_total] in T; try discriminate T; cbn [produces class_for] in H;
    destruct v; cbn [cell_okb] in *; try discriminate H; exact H.
Qed.

(* if the table passes the check, every column LexStat derives comes back as it was written:
   same name, same value, same type - for every value of the written type inside the guard *)
Theorem derived_columns_roundtrip : forall tbl, derived_columns_typedb tbl = true ->
  forall c kd, In (c, kd) derived_columns ->
    alias_of tbl c = c /\
    forall v, cell_okb (class_for kd) v = true ->
      parse_cell (class_of tbl c) (show_cell v) = v /\ kind_of v = kd.
Proof.
  intros tbl H c kd I. unfold derived_columns_typedb in H. rewrite forallb_forall in H.
  specialize (H (c, kd) I). cbn [fst snd] in H.
  apply andb_true_iff in H. destruct H as [H H3]. apply andb_true_iff in H. destruct H as [H1 H2].
  apply str_eqb_eq in H1. apply kind_eqb_eq in H2.
  split; [exact H1|]. intros v G.
  pose proof (class_for_guard _ _ _ H2 H3 G) as G'.
  split; [apply cell_roundtrip, G'|]. rewrite <- H2. apply cell_roundtrip_kind, G'.
Qed.

(* ------------------------------------------------------------------ *)
(* word pairs are not affected by the reordering of the rows *)
Lemma filter_insert : forall (p : row -> bool) (leb : row -> row -> bool) x l,
  (p x = true -> forall y, In y l -> p y = true -> leb x y = true) ->
  filter p (insert_by leb x l) = (if p x then [x] else []) ++ filter p l.
Proof.
  intros p leb x. induction l as [|y l IH]; intros H.
  - cbn [insert_by filter]. destruct (p x); reflexivity.
  - cbn [insert_by]. destruct (leb x y) eqn:E.
    + cbn [filter]. destruct (p x); reflexivity.
    + cbn [filter]. rewrite IH by (intros Px z Iz Pz; apply H; [exact Px|right; exact Iz|exact Pz]).
      destruct (p x) eqn:Px; destruct (p y) eqn:Py; try reflexivity.
      rewrite (H eq_refl y (or_introl eq_refl) Py) in E. discriminate E.
Qed.

Lemma filter_isort : forall (p : row -> bool) (leb : row -> row -> bool) l,
  (forall x y, p x = true -> p y = true -> leb x y = true) ->
  filter p (isort leb l) = filter p l.
Proof.
  intros p leb l H. induction l as [|x l IH]; [reflexivity|].
  rewrite isort_cons, filter_insert by (intros Px y _ Py; apply H; assumption).
  rewrite IH. cbn [filter]. destruct (p x); reflexivity.
Qed.

Lemma index_of_upper : forall cols, Forall (fun c => lower (upper c) = c) cols ->
  index_of s_CONCEPT (map upper cols) = index_of s_concept cols.
Proof.
  induction cols as [|c cols IH]; intros F; [reflexivity|].
  inversion F as [|? ? Hc Hr]; subst. cbn [map index_of]. rewrite IH by exact Hr.
  assert (str_eqb s_CONCEPT (upper c) = str_eqb s_concept c) as ->; [|reflexivity].
  destruct (str_eqb s_concept c) eqn:E.
  - apply str_eqb_eq in E. subst c. reflexivity.
  - destruct (str_eqb s_CONCEPT (upper c)) eqn:E2; [|reflexivity].
    apply str_eqb_eq in E2. rewrite <- Hc, <- E2 in E. discriminate E.
Qed.

Lemma cell_is_eq : forall s v, cell_is s v = true -> v = VStr s.
Proof. intros s v H. destruct v; try discriminate H. cbn [cell_is] in H. apply str_eqb_eq in H. subst. reflexivity. Qed.

Theorem sel_sorted : forall tbl w c t, wl_ok tbl w ->
  sel (wl_cols w) (sorted_rows w) c t = sel (wl_cols w) (wl_rows w) c t.
Proof.
  intros tbl w c t OK. unfold sel, sorted_rows.
  assert (LU : Forall (fun c => lower (upper c) = c) (wl_cols w)).
  { eapply Forall_impl; [|apply (ok_cols _ _ OK)]. intros a [_ [_ [E _]]]. exact E. }
  rewrite (index_of_upper _ LU). unfold get_col.
  destruct (index_of s_concept (wl_cols w)) as [i|] eqn:E.
  - apply filter_isort. intros x y Px Py.
    apply andb_true_iff in Px. destruct Px as [Px _]. apply andb_true_iff in Py. destruct Py as [Py _].
    apply cell_is_eq in Px. apply cell_is_eq in Py.
    unfold row_leb, key_cell. rewrite Px, Py. cbn [cell_leb]. apply str_leb_refl.
  - apply filter_isort. intros x y Px _. cbn [cell_is andb] in Px. discriminate Px.
Qed.

Section PairsExt.
  Variable cols : list str.
  Variables S1 S2 : str -> str -> list row.
  Hypothesis HS : forall c t, S1 c t = S2 c t.

  Lemma cross_pairs_ext : forall concepts ta tb seen,
    cross_pairs cols S1 concepts ta tb seen = cross_pairs cols S2 concepts ta tb seen.
  Proof.
    intros concepts ta tb seen. unfold cross_pairs. generalize (seen, @nil (Z * Z)).
    induction concepts as [|c r IH]; intros st; [reflexivity|].
    cbn [fold_left]. rewrite !HS. apply IH.
  Qed.

  Lemma self_pairs_ext : forall concepts ta, self_pairs cols S1 concepts ta = self_pairs cols S2 concepts ta.
  Proof.
    intros concepts ta. unfold self_pairs. induction concepts as [|c r IH]; [reflexivity|].
    cbn [flat_map]. rewrite HS, IH. reflexivity.
  Qed.

  Lemma pairs_from_ext : forall concepts later ta seen,
    pairs_from cols S1 concepts ta later seen = pairs_from cols S2 concepts ta later seen.
  Proof.
    intros concepts. induction later as [|tb r IH]; intros ta seen; [reflexivity|].
    cbn [pairs_from]. rewrite cross_pairs_ext.
    destruct (cross_pairs cols S2 concepts ta tb seen) as [seen1 ps]. rewrite IH. reflexivity.
  Qed.

  Lemma pairs_all_ext : forall concepts taxa seen,
    pairs_all cols S1 concepts taxa seen = pairs_all cols S2 concepts taxa seen.
  Proof.
    intros concepts. induction taxa as [|ta r IH]; intros seen; [reflexivity|].
    cbn [pairs_all]. rewrite pairs_from_ext, self_pairs_ext.
    destruct (pairs_from cols S2 concepts ta r seen) as [seen1 ps]. rewrite IH. reflexivity.
  Qed.
End PairsExt.

(* the word pairs of the object read back = the word pairs of the object saved *)
Theorem pairs_roundtrip : forall tbl w taxa concepts, wl_okb tbl w = true ->
  pairs (wl_cols w) taxa concepts (sorted_rows w) = pairs (wl_cols w) taxa concepts (wl_rows w).
Proof.
  intros tbl w taxa concepts H. unfold pairs. apply pairs_all_ext.
  intros c t. apply (sel_sorted tbl). apply wl_okb_ok, H.
Qed.
