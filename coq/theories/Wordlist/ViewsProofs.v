(* Proofs about Views.v: every accessor lists exactly the matching rows. *)
From Coq Require Import ZArith List Bool Lia Arith String.
From LV Require Import Wordlist.Rows Wordlist.RowsProofs Wordlist.Index Wordlist.IndexProofs Wordlist.Views.
Import ListNotations.
Local Open Scope Z_scope.

(* ------------------------------------------------- rows and extracted rows *)

Lemma all_some_map {A B} (f : A -> option B) (l : list A) (out : list B) :
  all_some (map f l) = Some out -> Forall2 (fun a b => f a = Some b) l out.
Proof.
  revert out. induction l as [|a t IH]; cbn [map all_some]; intros out H.
  - inversion H. constructor.
  - destruct (f a) as [b|] eqn:E; [|discriminate].
    destruct (all_some (map f t)) as [o|]; cbn [option_map] in H; [|discriminate].
    inversion H. subst. constructor; [exact E|apply IH; reflexivity].
Qed.

Lemma name_of_spec (cs : list cell) k z :
  name_of (nth_error cs k) = Some z -> nth k cs POISON = Atom z /\ EMPTY < z.
Proof.
  unfold name_of. destruct (nth_error cs k) as [[z'|l]|] eqn:E; try discriminate.
  destruct (EMPTY <? z') eqn:L; [|discriminate]. intros H. inversion H. subst z'.
  split; [apply nth_error_nth; exact E|apply Z.ltb_lt; exact L].
Qed.

Lemma to_prow_spec w ri ci r p :
  to_prow w ri ci r = Some p ->
  p = mkp ri ci r /\ List.length (snd r) = w /\ EMPTY < rkey ri r /\ EMPTY < rkey ci r.
Proof.
  unfold to_prow. destruct (Nat.eqb (List.length (snd r)) w) eqn:E; [|discriminate].
  apply Nat.eqb_eq in E.
  destruct (name_of (nth_error (snd r) ri)) as [c|] eqn:Ec; [|discriminate].
  destruct (name_of (nth_error (snd r) ci)) as [l|] eqn:El; [|discriminate].
  apply name_of_spec in Ec. apply name_of_spec in El. destruct Ec as [Ec1 Ec2]. destruct El as [El1 El2].
  intros H. inversion H. unfold mkp, rkey. rewrite Ec1, El1. auto.
Qed.

Lemma to_prows_spec w ri ci D P :
  to_prows w ri ci D = Some P ->
  P = map (mkp ri ci) D /\
  forall r, In r D -> List.length (snd r) = w /\ EMPTY < rkey ri r /\ EMPTY < rkey ci r.
Proof.
  unfold to_prows. intros H. apply all_some_map in H.
  induction H as [|r p t tp H1 H2 IH]; [split; [reflexivity|intros r []]|].
  apply to_prow_spec in H1. destruct H1 as [-> H1]. destruct IH as [-> IH].
  split; [reflexivity|]. intros r' [<-|Hr]; [exact H1|exact (IH r' Hr)].
Qed.

(* lookups by id *)
Lemma row_of_In D r : NoDup (map fst D) -> In r D -> row_of D (fst r) = Some (snd r).
Proof.
  unfold row_of. induction D as [|a t IH]; cbn [map find]; intros ND H; [destruct H|].
  inversion ND as [|? ? Hn ND']. subst. destruct H as [->|H].
  - rewrite Z.eqb_refl. reflexivity.
  - destruct (fst a =? fst r) eqn:E; [|exact (IH ND' H)].
    apply Z.eqb_eq in E. exfalso. apply Hn. rewrite E. apply in_map. exact H.
Qed.

Lemma cell_at_In D r k : NoDup (map fst D) -> In r D -> cell_at D (fst r) k = nth k (snd r) POISON.
Proof. intros ND H. unfold cell_at. rewrite (row_of_In D r ND H). reflexivity. Qed.

Lemma key_at_In D r k : NoDup (map fst D) -> In r D -> key_at D (fst r) k = rkey k r.
Proof. intros ND H. unfold key_at, rkey. rewrite (cell_at_In D r k ND H). reflexivity. Qed.


Lemma ent_In D e r : NoDup (map fst D) -> In r D -> fst r <> 0 -> ent D e (fst r) = ent_row e r.
Proof.
  intros ND H N. unfold ent, ent_row. destruct e as [k|]; [|reflexivity].
  destruct (fst r =? 0) eqn:E; [apply Z.eqb_eq in E; contradiction|]. apply cell_at_In; assumption.
Qed.

(* a duplicate-free list of ids of rows is the list of ids of a duplicate-free list of rows *)
Lemma ids_to_rows D L :
  NoDup (map fst D) -> NoDup L ->
  (forall id, In id L -> id <> 0 /\ exists r, In r D /\ fst r = id) ->
  exists rs, (forall e, map (ent D e) L = map (ent_row e) rs) /\ map fst rs = L /\ NoDup rs /\ incl rs D.
Proof.
  intros ND. induction L as [|id t IH]; intros NL H.
  - exists []. cbn. repeat split; [constructor|intros x []].
  - inversion NL as [|? ? Hn NL']. subst.
    destruct (IH NL' (fun i Hi => H i (or_intror Hi))) as [rs [E1 [E2 [E3 E4]]]].
    destruct (H id (or_introl eq_refl)) as [N [r [Hr Hid]]].
    exists (r :: rs). cbn [map]. subst id. rewrite E2.
    repeat split.
    + intros e. rewrite (ent_In D e r ND Hr N), E1. reflexivity.
    + constructor; [|exact E3]. intros Hin. apply Hn. rewrite <- E2. apply in_map. exact Hin.
    + intros x [<-|Hx]; [exact Hr|exact (E4 x Hx)].
Qed.

(* -------------------------------------------------------------- grids *)
Lemma nonzero_app a b : nonzero (a ++ b) = nonzero a ++ nonzero b.
Proof. unfold nonzero. apply filter_app. Qed.

Lemma nonzero_In v l : In v (nonzero l) <-> In v l /\ v <> 0.
Proof.
  unfold nonzero. rewrite filter_In. rewrite negb_true_iff, Z.eqb_neq. tauto.
Qed.

Lemma grid_In {X} (f : X -> Z -> Z) (I : list X) (J : list Z) v :
  In v (nonzero (List.concat (map (fun x => map (f x) J) I))) <->
  v <> 0 /\ exists x l, In x I /\ In l J /\ f x l = v.
Proof.
  rewrite nonzero_In, in_concat. split.
  - intros [[row [H1 H2]] N]. apply in_map_iff in H1. destruct H1 as [x [<- Hx]].
    apply in_map_iff in H2. destruct H2 as [l [<- Hl]]. split; [exact N|]. exists x, l. auto.
  - intros [N [x [l [Hx [Hl E]]]]]. split; [|exact N]. exists (map (f x) J). split.
    + apply in_map_iff. exists x. auto.
    + apply in_map_iff. exists l. auto.
Qed.

Lemma NoDup_nonzero_map {X} (f : X -> Z) (J : list X) :
  NoDup J -> (forall l l', In l J -> In l' J -> f l = f l' -> f l <> 0 -> l = l') ->
  NoDup (nonzero (map f J)).
Proof.
  induction J as [|a t IH]; intros ND Inj; [constructor|].
  inversion ND as [|? ? Hn ND']. subst. cbn [map]. unfold nonzero. cbn [filter]. fold (nonzero (map f t)).
  assert (IH' : NoDup (nonzero (map f t))).
  { apply IH; [exact ND'|]. intros l l' Hl Hl'. apply Inj; right; assumption. }
  destruct (f a =? 0) eqn:E; cbn [negb]; [exact IH'|].
  constructor; [|exact IH']. intros Hin. apply nonzero_In in Hin. destruct Hin as [Hin N].
  apply in_map_iff in Hin. destruct Hin as [l [El Hl]]. apply Hn.
  rewrite (Inj a l (or_introl eq_refl) (or_intror Hl) (eq_sym El)); [exact Hl|]. apply Z.eqb_neq. exact E.
Qed.

Lemma grid_NoDup {X} (f : X -> Z -> Z) (I : list X) (J : list Z) :
  NoDup I -> NoDup J ->
  (forall x l x' l', In x I -> In l J -> In x' I -> In l' J -> f x l = f x' l' -> f x l <> 0 -> x = x' /\ l = l') ->
  NoDup (nonzero (List.concat (map (fun x => map (f x) J) I))).
Proof.
  intros NI NJ Inj. induction I as [|a t IH]; [constructor|].
  inversion NI as [|? ? Hn NI']. subst. cbn [map List.concat]. rewrite nonzero_app.
  apply NoDup_app_intro.
  - apply NoDup_nonzero_map; [exact NJ|]. intros l l' Hl Hl' E N.
    exact (proj2 (Inj a l a l' (or_introl eq_refl) Hl (or_introl eq_refl) Hl' E N)).
  - apply IH; [exact NI'|]. intros x l x' l' Hx Hl Hx' Hl'. apply Inj; auto; right; assumption.
  - intros v H1 H2. apply nonzero_In in H1. destruct H1 as [H1 N]. apply in_map_iff in H1.
    destruct H1 as [l [El Hl]]. apply grid_In in H2. destruct H2 as [_ [x' [l' [Hx' [Hl' E']]]]].
    apply Hn. subst v.
    rewrite (proj1 (Inj a l x' l' (or_introl eq_refl) Hl (or_intror Hx') Hl' (eq_sym E') N)). exact Hx'.
Qed.

Lemma column_grid {X} (f : X -> Z -> Z) (I : list X) (J : list Z) j l :
  nth_error J j = Some l -> column (map (fun x => map (f x) J) I) j = map (fun x => f x l) I.
Proof.
  intros E. unfold column. rewrite map_map. apply map_ext. intros x.
  apply nth_error_nth. rewrite nth_error_map, E. reflexivity.
Qed.

(* ------------------------------------------------- dictionaries, grouping *)
Lemma zget_map_snd {A B} (g : A -> B) (m : list (Z * A)) k :
  zget (map (fun kv => (fst kv, g (snd kv))) m) k = option_map g (zget m k).
Proof.
  unfold zget. induction m as [|[k' v] t IH]; cbn [map dget fst snd]; [reflexivity|].
  destruct (k' =? k); [reflexivity|exact IH].
Qed.

Lemma zget_app_new {A} (m : list (Z * A)) k v k' :
  zget m k = None -> zget (m ++ [(k, v)]) k' = if k' =? k then Some v else zget m k'.
Proof.
  unfold zget. induction m as [|[k0 v0] t IH]; cbn [app dget]; intros H.
  - rewrite (Z.eqb_sym k k'). destruct (k' =? k); reflexivity.
  - destruct (k0 =? k) eqn:E; [discriminate|]. destruct (k0 =? k') eqn:E2.
    + apply Z.eqb_eq in E2. subst k0. rewrite E. reflexivity.
    + exact (IH H).
Qed.

Lemma ld_fill_zget cols : forall d l,
  zget (ld_fill cols d) l = match zget d l with Some v => Some v | None => if zmem l cols then Some [] else None end.
Proof.
  unfold ld_fill. induction cols as [|a t IH]; intros d l; cbn [fold_left].
  - destruct (zget d l); reflexivity.
  - rewrite IH. unfold zmem. cbn [existsb]. fold (zmem l t).
    destruct (zget d a) eqn:Ea; cbn [zget] in *.
    + destruct (zget d l) eqn:El; [reflexivity|]. destruct (l =? a) eqn:E; [|reflexivity].
      apply Z.eqb_eq in E. subst. unfold zget in *. congruence.
    + rewrite (zget_app_new d a [] l Ea). destruct (l =? a) eqn:E.
      * apply Z.eqb_eq in E. subst l. rewrite Ea. reflexivity.
      * destruct (zget d l); reflexivity.
Qed.

(* grouping a list of ids by a key, in order of first occurrence *)
Lemma group_zget (key : Z -> Z) L : forall acc c,
  zget (fold_left (fun d id => ld_add d (key id) id) L acc) c =
  match filter (fun id => key id =? c) L with
  | [] => zget acc c
  | s => Some (lk acc c ++ s)
  end.
Proof.
  induction L as [|id t IH]; intros acc c; cbn [fold_left filter]; [reflexivity|].
  rewrite IH. unfold lk at 1. rewrite !ld_add_zget. rewrite (Z.eqb_sym c (key id)).
  destruct (key id =? c) eqn:E.
  - apply Z.eqb_eq in E. subst c.
    destruct (filter (fun id0 => key id0 =? key id) t) as [|x s]; [reflexivity|].
    rewrite <- app_assoc. reflexivity.
  - fold (lk acc c). reflexivity.
Qed.

Lemma nonzero_flat_map {A} (g : A -> list Z) (l : list A) :
  nonzero (flat_map g l) = flat_map (fun x => nonzero (g x)) l.
Proof.
  induction l as [|a t IH]; cbn [flat_map]; [reflexivity|]. rewrite nonzero_app, IH. reflexivity.
Qed.

Lemma map_nth_seq (S : list Z) : map (fun k => nth k S 0) (seq 0 (List.length S)) = S.
Proof.
  induction S as [|a t IH]; [reflexivity|]. cbn [List.length seq map nth]. f_equal.
  rewrite <- seq_shift, map_map. exact IH.
Qed.

Lemma nonzero_id (S : list Z) : (forall x, In x S -> x <> 0) -> nonzero S = S.
Proof.
  induction S as [|a t IH]; intros H; [reflexivity|]. unfold nonzero. cbn [filter].
  destruct (a =? 0) eqn:E; [apply Z.eqb_eq in E; exfalso; exact (H a (or_introl eq_refl) E)|].
  cbn [negb]. f_equal. apply IH. intros x Hx. apply H. right. exact Hx.
Qed.

Lemma nonzero_pad (S : list Z) m :
  (forall x, In x S -> x <> 0) -> (List.length S <= m)%nat ->
  nonzero (map (fun k => nth k S 0) (seq 0 m)) = S.
Proof.
  intros NZ L. replace m with (List.length S + (m - List.length S))%nat by lia.
  rewrite seq_app, map_app, nonzero_app, map_nth_seq, (nonzero_id S NZ). cbn [plus].
  replace (nonzero (map (fun k => nth k S 0) (seq (List.length S) (m - List.length S)))) with (@nil Z);
    [apply app_nil_r|].
  symmetry. generalize (m - List.length S)%nat as n. intros n.
  assert (G : forall a, (List.length S <= a)%nat -> nonzero (map (fun k => nth k S 0) (seq a n)) = []).
  { induction n as [|n IHn]; intros a La; [reflexivity|]. cbn [seq map]. unfold nonzero. cbn [filter].
    rewrite (nth_overflow S 0 La). cbn. apply IHn. lia. }
  apply G. lia.
Qed.

Lemma filter_all {A} (p : A -> bool) (l : list A) : (forall x, In x l -> p x = true) -> filter p l = l.
Proof.
  induction l as [|a t IH]; intros H; [reflexivity|]. cbn [filter]. rewrite (H a (or_introl eq_refl)).
  f_equal. apply IH. intros x Hx. apply H. right. exact Hx.
Qed.
Lemma filter_none {A} (p : A -> bool) (l : list A) : (forall x, In x l -> p x = false) -> filter p l = [].
Proof.
  induction l as [|a t IH]; intros H; [reflexivity|]. cbn [filter]. rewrite (H a (or_introl eq_refl)).
  apply IH. intros x Hx. apply H. right. exact Hx.
Qed.

(* ------------------------------------------------------------ etymdict *)
Definition etym_wf (w : nat) (E : etym) : Prop := forall k v, In (k, v) E -> List.length v = w.

Lemma upd_length {A} j (x : A) l : List.length (upd j x l) = List.length l.
Proof.
  revert j. induction l as [|a t IH]; intros j; destruct j as [|j]; cbn [upd List.length]; try reflexivity.
  rewrite IH. reflexivity.
Qed.

Lemma nth_upd {A} j j' (x d : A) l : (j < List.length l)%nat ->
  nth j' (upd j x l) d = if Nat.eqb j' j then x else nth j' l d.
Proof.
  revert j j'. induction l as [|a t IH]; intros j j' L; cbn [List.length] in L; [lia|].
  destruct j as [|j]; cbn [upd].
  - destruct j' as [|j']; reflexivity.
  - destruct j' as [|j']; cbn [nth Nat.eqb]; [reflexivity|]. apply IH. lia.
Qed.

Lemma dset_In_inv {V} (m : list (Z * V)) k0 v0 k v :
  In (k, v) (zset m k0 v0) -> (k, v) = (k0, v0) \/ In (k, v) m.
Proof.
  unfold zset. induction m as [|[k' v'] t IH]; cbn [dset In].
  - intros [H|[]]. left. auto.
  - destruct (k' =? k0) eqn:E; cbn [In].
    + apply Z.eqb_eq in E. subst k'. intros [H|H]; [left; congruence|right; right; exact H].
    + intros [H|H]; [right; left; exact H|]. destruct (IH H) as [H2|H2]; [left; exact H2|right; right; exact H2].
Qed.

Lemma nth_repeat_nil {A} j n : nth j (repeat (@nil A) n) [] = [].
Proof. revert j. induction n as [|n IH]; intros [|j]; cbn [repeat nth]; auto. Qed.

Lemma etym_add_spec w E cog j id : etym_wf w E -> (j < w)%nat ->
  etym_wf w (etym_add w E cog j id) /\
  forall cog' j', etym_slot (etym_add w E cog j id) cog' j' =
                  etym_slot E cog' j' ++ (if (cog' =? cog) && Nat.eqb j' j then [id] else []).
Proof.
  intros WF L. unfold etym_add.
  assert (Lv : List.length (match zget E cog with Some v => v | None => repeat [] w end) = w).
  { destruct (zget E cog) as [v0|] eqn:Ez; [|apply repeat_length].
    apply (dget_In Z.eqb Zeqb_spec) in Ez. exact (WF _ _ Ez). }
  assert (Es : forall jj, etym_slot E cog jj = nth jj (match zget E cog with Some v => v | None => repeat [] w end) []).
  { intros jj. unfold etym_slot. destruct (zget E cog); [reflexivity|]. rewrite nth_repeat_nil. reflexivity. }
  revert Lv Es. generalize (match zget E cog with Some v => v | None => repeat [] w end) as v. intros v Lv Es.
  split.
  - intros k v' H. apply dset_In_inv in H. destruct H as [H|H]; [|exact (WF _ _ H)].
    inversion H. rewrite upd_length. exact Lv.
  - intros cog' j'. unfold etym_slot at 1, zset, zget.
    destruct (cog' =? cog) eqn:Ec.
    + apply Z.eqb_eq in Ec. subst cog'. rewrite (dget_dset_same Z.eqb Zeqb_spec). cbn [andb].
      rewrite nth_upd by (rewrite Lv; exact L).
      destruct (Nat.eqb j' j) eqn:Ej.
      * apply Nat.eqb_eq in Ej. subst j'. rewrite Es. reflexivity.
      * rewrite Es, app_nil_r. reflexivity.
    + assert (N : cog <> cog') by (intros H; subst; rewrite Z.eqb_refl in Ec; discriminate).
      rewrite (dget_dset_other Z.eqb Zeqb_spec _ _ _ _ N). cbn [andb]. rewrite app_nil_r. reflexivity.
Qed.

Lemma etym_cogs_spec w j id cs : (j < w)%nat -> forall E, etym_wf w E ->
  etym_wf w (fold_left (fun E cog => etym_add w E cog j id) cs E) /\
  forall cog' j', etym_slot (fold_left (fun E cog => etym_add w E cog j id) cs E) cog' j' =
                  etym_slot E cog' j' ++ (if Nat.eqb j' j then repeat id (count_occ Z.eq_dec cs cog') else []).
Proof.
  intros L. induction cs as [|c t IH]; intros E WF; cbn [fold_left].
  - split; [exact WF|]. intros cog' j'. cbn [count_occ repeat]. destruct (Nat.eqb j' j); rewrite app_nil_r; reflexivity.
  - destruct (etym_add_spec w E c j id WF L) as [WF1 S1]. destruct (IH _ WF1) as [WF2 S2].
    split; [exact WF2|]. intros cog' j'. rewrite S2, S1, <- app_assoc. f_equal.
    cbn [count_occ]. destruct (Z.eq_dec c cog') as [->|N].
    + rewrite Z.eqb_refl. cbn [andb]. destruct (Nat.eqb j' j); reflexivity.
    + replace (cog' =? c) with false by (symmetry; apply Z.eqb_neq; congruence). reflexivity.
Qed.

Lemma etym_keys_add w E cog j id k :
  In k (map fst (etym_add w E cog j id)) -> k = cog \/ In k (map fst E).
Proof.
  unfold etym_add, zset. rewrite (dset_keys Z.eqb). destruct (dmem Z.eqb E cog); [right; assumption|].
  rewrite in_app_iff. intros [H|[H|[]]]; [right; exact H|left; auto].
Qed.

Lemma etym_keys_cogs w j id cs : forall E k,
  In k (map fst (fold_left (fun E cog => etym_add w E cog j id) cs E)) -> In k (map fst E) \/ In k cs.
Proof.
  induction cs as [|c t IH]; intros E k H; cbn [fold_left] in H; [left; exact H|].
  destruct (IH _ _ H) as [H2|H2]; [|right; right; exact H2].
  apply etym_keys_add in H2. destruct H2 as [->|H2]; [right; left; reflexivity|left; exact H2].
Qed.

Lemma etym_add_NoDup w E cog j id : NoDup (map fst E) -> NoDup (map fst (etym_add w E cog j id)).
Proof. intros H. unfold etym_add, zset. apply (dset_NoDup Z.eqb Zeqb_spec). exact H. Qed.

Lemma etym_rows_NoDup (g : row -> option nat) w ref rows : forall E : etym, NoDup (map fst E) ->
  NoDup (map fst (fold_left (fun E r =>
    match g r with
    | None => E
    | Some j => fold_left (fun E cog => etym_add w E cog j (fst r)) (cogs_of (nth ref (snd r) POISON)) E
    end) rows E)).
Proof.
  induction rows as [|r t IH]; intros E H; cbn [fold_left]; [exact H|].
  apply IH. destruct (g r); [|exact H].
  revert E H. induction (cogs_of (nth ref (snd r) POISON)) as [|c cs IHc]; intros E H; cbn [fold_left]; [exact H|].
  apply IHc. apply etym_add_NoDup. exact H.
Qed.

Lemma etymdict_NoDup D ci X ref : NoDup (map fst (get_etymdict D ci X ref)).
Proof.
  unfold get_etymdict.
  apply (etym_rows_NoDup (fun r => index_of (key_at D (fst r) ci) (x_cols X))). constructor.
Qed.

Lemma fold_max_eq {A} (f : A -> nat) (L : list A) m :
  (forall x, In x L -> (f x <= m)%nat) -> (exists x, In x L /\ f x = m) ->
  fold_right Nat.max O (map f L) = m.
Proof.
  intros B [x [Hx E]]. apply Nat.le_antisymm.
  - clear x Hx E. induction L as [|a t IH]; cbn [map fold_right]; [lia|].
    pose proof (B a (or_introl eq_refl)). specialize (IH (fun y Hy => B y (or_intror Hy))). lia.
  - clear B. induction L as [|a t IH]; [destruct Hx|]. cbn [map fold_right].
    destruct Hx as [->|Hx]; [lia|]. specialize (IH Hx). lia.
Qed.

Lemma dict_keys_first_occ (P : list prow) : forall acc : cdict,
  map fst (fold_left (fun d r => cd_add d (pconc r) (plang r) (pid r)) P acc) =
  fold_left (fun a x => if zmem x a then a else a ++ [x]) (map pconc P) (map fst acc).
Proof.
  induction P as [|r t IH]; intros acc; cbn [fold_left map]; [reflexivity|].
  rewrite IH, cd_add_keys. f_equal.
  unfold dmem. destruct (dget Z.eqb acc (pconc r)) eqn:E.
  - apply (dget_In Z.eqb Zeqb_spec) in E. apply (in_map fst) in E. cbn [fst] in E.
    rewrite (proj2 (zmem_In _ _) E). reflexivity.
  - apply (dget_None_notin Z.eqb Zeqb_spec) in E.
    destruct (zmem (pconc r) (map fst acc)) eqn:Ez; [apply zmem_In in Ez; contradiction|reflexivity].
Qed.

Lemma flat_map_keys {V B} (g : Z -> nat -> list B) (h : V -> nat) (hh : Z -> nat) (D0 : list (Z * V)) :
  (forall c d, In (c, d) D0 -> h d = hh c) ->
  flat_map (fun cd => g (fst cd) (h (snd cd))) D0 = flat_map (fun c => g c (hh c)) (map fst D0).
Proof.
  induction D0 as [|[c d] t IH]; intros H; cbn [flat_map map fst snd]; [reflexivity|].
  rewrite (H c d (or_introl eq_refl)), IH; [reflexivity|]. intros c' d' Hin. apply H. right. exact Hin.
Qed.

(* ------------------------------------------------------- well-formed state *)
Section WF.
  Variables (K : keys) (D : list row) (ri ci : nat).
  Hypothesis ids_distinct : NoDup (map fst D).
  Hypothesis ids_pos : forall r, In r D -> 0 < fst r.
  Hypothesis langs_inj : key_inj K (map (rkey ci) D).
  Hypothesis concs_inj : key_inj K (map (rkey ri) D).

  Let P := map (mkp ri ci) D.
  Let X := build_index K P.

  Lemma P_pid : map pid P = map fst D.
  Proof. unfold P. rewrite map_map. reflexivity. Qed.
  Lemma P_plang : map plang P = map (rkey ci) D.
  Proof. unfold P. rewrite map_map. reflexivity. Qed.
  Lemma P_pconc : map pconc P = map (rkey ri) D.
  Proof. unfold P. rewrite map_map. reflexivity. Qed.

  Lemma P_ids_distinct : NoDup (map pid P).
  Proof. rewrite P_pid. exact ids_distinct. Qed.
  Lemma P_ids_nonzero : forall r, In r P -> pid r <> 0.
  Proof.
    intros r H. unfold P in H. apply in_map_iff in H. destruct H as [r0 [<- H0]]. cbn. specialize (ids_pos r0 H0). lia.
  Qed.
  Lemma P_langs_inj : key_inj K (map plang P).
  Proof. rewrite P_plang. exact langs_inj. Qed.

  Lemma P_In r' : In r' P <-> exists r, In r D /\ r' = mkp ri ci r.
  Proof. unfold P. rewrite in_map_iff. split; intros [r [H1 H2]]; exists r; auto. Qed.

  Lemma cols_spec l : In l (x_cols X) <-> exists r, In r D /\ rkey ci r = l.
  Proof.
    cbn [X build_index x_cols]. rewrite usort_In, P_plang, in_map_iff. split; intros [r [H1 H2]]; exists r; auto.
  Qed.
  Lemma rows_spec c : In c (x_rows X) <-> exists r, In r D /\ rkey ri r = c.
  Proof.
    cbn [X build_index x_rows]. rewrite usort_In, P_pconc, in_map_iff. split; intros [r [H1 H2]]; exists r; auto.
  Qed.

  Lemma fst_inj r1 r2 : In r1 D -> In r2 D -> fst r1 = fst r2 -> r1 = r2.
  Proof.
    clear - ids_distinct. induction D as [|a t IH]; cbn [map] in *; intros H1 H2 E; [destruct H1|].
    inversion ids_distinct as [|? ? Hn ND']. subst.
    destruct H1 as [H1|H1], H2 as [H2|H2].
    - congruence.
    - subst a. exfalso. apply Hn. rewrite E. apply in_map. exact H2.
    - subst a. exfalso. apply Hn. rewrite <- E. apply in_map. exact H1.
    - exact (IH ND' H1 H2 E).
  Qed.

  (* from a duplicate-free list of ids with a known membership to the rows *)
  Lemma rows_of_ids (L : list Z) (p : row -> Prop) :
    NoDup L -> (forall id, In id L <-> exists r, In r D /\ fst r = id /\ p r) ->
    exists rs, (forall e, map (ent D e) L = map (ent_row e) rs) /\ map fst rs = L /\ NoDup rs
               /\ forall r, In r rs <-> In r D /\ p r.
  Proof.
    intros NL M.
    destruct (ids_to_rows D L ids_distinct NL) as [rs [E1 [E2 [E3 E4]]]].
    { intros id Hid. apply M in Hid. destruct Hid as [r [H1 [H2 _]]]. split; [|exists r; auto].
      specialize (ids_pos r H1). lia. }
    exists rs. split; [exact E1|]. split; [exact E2|]. split; [exact E3|].
    intros r. split.
    - intros Hr. split; [exact (E4 r Hr)|].
      assert (Hid : In (fst r) L) by (rewrite <- E2; apply in_map; exact Hr).
      apply M in Hid. destruct Hid as [r2 [H1 [H2 H3]]].
      rewrite <- (fst_inj r2 r H1 (E4 r Hr) H2). exact H3.
    - intros [Hr Hp]. assert (Hid : In (fst r) L) by (apply M; exists r; auto).
      rewrite <- E2 in Hid. apply in_map_iff in Hid. destruct Hid as [r3 [H1 H2]].
      rewrite <- (fst_inj r3 r (E4 r3 H2) Hr H1). exact H2.
  Qed.

  Lemma slot_of_row r : In r D ->
    exists k, In (rkey ri r, k) (lines (build_dict P)) /\ slot P (rkey ri r, k) (rkey ci r) = fst r.
  Proof.
    intros Hr. assert (Hp : In (mkp ri ci r) P) by (apply P_In; exists r; auto).
    exact (slot_exists P (mkp ri ci r) Hp).
  Qed.

  Lemma row_of_slot ck l : slot P ck l <> 0 ->
    exists r, In r D /\ fst r = slot P ck l /\ rkey ri r = fst ck /\ rkey ci r = l.
  Proof.
    intros N. destruct (slot_row P ck l N) as [r' [R1 [R2 [R3 R4]]]].
    apply P_In in R1. destruct R1 as [r [Hr ->]]. exists r. cbn in *. auto.
  Qed.

  Lemma idx_of_row c : In c (x_rows X) -> exists is, zget (x_idx X) c = Some is.
  Proof.
    intros Hc. cbn [X build_index x_idx]. destruct (zget (build_idx 0 (build_dict P)) c) eqn:E; [eexists; reflexivity|].
    exfalso. apply (dget_None_notin Z.eqb Zeqb_spec) in E. apply E. rewrite build_idx_keys.
    apply rows_spec in Hc. destruct Hc as [r [Hr <-]].
    destruct (slot_of_row r Hr) as [k [Hk _]]. apply lines_In in Hk. destruct Hk as [d [Hd _]].
    apply (in_map fst) in Hd. exact Hd.
  Qed.

  (* ---------------------------------------------- get_list(row=c, flat=True) *)
  Theorem get_list_row_flat_spec c : In c (x_rows X) ->
    exists rs, (forall e, get_list_row_flat D X c e = Some (map (ent_row e) rs))
               /\ NoDup rs /\ forall r, In r rs <-> In r D /\ rkey ri r = c.
  Proof.
    intros Hc. destruct (idx_of_row c Hc) as [is His].
    destruct (block_lines K P c is His) as [d [Hd Hb]]. fold X in Hb.
    set (L := nonzero (List.concat (map (fun k => map (slot P (c, k)) (x_cols X)) (seq 0 (maxlen d))))).
    assert (NL : NoDup L).
    { apply (grid_NoDup (fun k l => slot P (c, k) l)); [apply seq_NoDup|apply cols_NoDup; exact P_langs_inj|].
      intros k l k' l' _ _ _ _ E N. destruct (slot_inj P P_ids_distinct _ _ _ _ E N) as [E1 E2].
      inversion E1. auto. }
    assert (M : forall id, In id L <-> exists r, In r D /\ fst r = id /\ rkey ri r = c).
    { intros id. unfold L. rewrite (grid_In (fun k l => slot P (c, k) l)). split.
      - intros [N [k [l [_ [_ E]]]]]. rewrite <- E in N. destruct (row_of_slot _ _ N) as [r [R1 [R2 [R3 R4]]]].
        exists r. cbn [fst] in R3. rewrite <- E. auto.
      - intros [r [H1 [H2 H3]]]. split; [specialize (ids_pos r H1); lia|].
        destruct (slot_of_row r H1) as [k [Hk Hs]]. rewrite H3 in *.
        exists k, (rkey ci r). split; [|split; [apply cols_spec; exists r; auto|congruence]].
        apply lines_In in Hk. destruct Hk as [d' [Hd' Hk]].
        pose proof (In_dget_NoDup Z.eqb Zeqb_spec _ _ _ (build_dict_keys_NoDup P) Hd') as Hd2.
        unfold zget in Hd. rewrite Hd2 in Hd. inversion Hd. subst d'.
        apply in_seq. lia. }
    destruct (rows_of_ids L (fun r => rkey ri r = c) NL M) as [rs [E1 [E2 [E3 E4]]]].
    exists rs. split; [|split; [exact E3|exact E4]].
    intros e. unfold get_list_row_flat, block_of. rewrite (proj2 (zmem_In c (x_rows X)) Hc), His.
    cbn [option_map]. unfold sel_rows. rewrite Hb. fold L. rewrite E1. reflexivity.
  Qed.

  (* ---------------------------------------------- get_list(col=l, flat=True) *)
  Theorem get_list_col_flat_spec l : In l (x_cols X) ->
    exists rs, (forall e, get_list_col_flat D X l e = Some (map (ent_row e) rs))
               /\ NoDup rs /\ forall r, In r rs <-> In r D /\ rkey ci r = l.
  Proof.
    intros Hl. destruct (index_of_In l (x_cols X) Hl) as [j Hj].
    pose proof (index_of_spec _ _ _ Hj) as Hnth.
    set (L := nonzero (map (fun ck => slot P ck l) (lines (build_dict P)))).
    assert (NL : NoDup L).
    { apply NoDup_nonzero_map; [apply lines_NoDup, build_dict_keys_NoDup|].
      intros ck ck' _ _ E N. exact (proj1 (slot_inj P P_ids_distinct _ _ _ _ E N)). }
    assert (M : forall id, In id L <-> exists r, In r D /\ fst r = id /\ rkey ci r = l).
    { intros id. unfold L. rewrite nonzero_In, in_map_iff. split.
      - intros [[ck [E _]] N]. rewrite <- E in N. destruct (row_of_slot _ _ N) as [r [R1 [R2 [R3 R4]]]].
        exists r. rewrite <- E. auto.
      - intros [r [H1 [H2 H3]]]. split; [|specialize (ids_pos r H1); lia].
        destruct (slot_of_row r H1) as [k [Hk Hs]]. exists (rkey ri r, k). split; [congruence|exact Hk]. }
    destruct (rows_of_ids L (fun r => rkey ci r = l) NL M) as [rs [E1 [E2 [E3 E4]]]].
    exists rs. split; [|split; [exact E3|exact E4]].
    intros e. unfold get_list_col_flat, col_of. rewrite (proj2 (zmem_In l (x_cols X)) Hl), Hj.
    cbn [option_map]. unfold X at 1. rewrite array_grid. fold X. rewrite (column_grid _ _ _ _ _ Hnth).
    fold L. rewrite E1. reflexivity.
  Qed.

  (* ------------------------------------------------- len: one slot per row *)
  Theorem array_count : List.length (nonzero (List.concat (x_array X))) = List.length D.
  Proof.
    transitivity (List.length (map fst D)); [|apply map_length].
    apply Permutation.Permutation_length. apply Permutation.NoDup_Permutation.
    - unfold X. rewrite array_grid. fold X.
      apply (grid_NoDup (slot P)); [apply lines_NoDup, build_dict_keys_NoDup|apply cols_NoDup; exact P_langs_inj|].
      intros x l x' l' _ _ _ _ E N. exact (slot_inj P P_ids_distinct _ _ _ _ E N).
    - exact ids_distinct.
    - intros id. unfold X. rewrite array_grid. fold X. rewrite (grid_In (slot P)). rewrite in_map_iff. split.
      + intros [N [ck [l [_ [_ E]]]]]. rewrite <- E in N. destruct (row_of_slot _ _ N) as [r [R1 [R2 _]]].
        exists r. split; [congruence|exact R1].
      + intros [r [E Hr]]. split; [specialize (ids_pos r Hr); lia|].
        destruct (slot_of_row r Hr) as [k [Hk Hs]]. exists (rkey ri r, k), (rkey ci r).
        split; [exact Hk|]. split; [apply cols_spec; exists r; auto|congruence].
  Qed.

  (* --------------------------------------------------------- dictionaries *)
  Notation cellrows := (Views.cellrows D ri ci).

  Lemma cellset_cellrows c l : cellset P c l = map fst (cellrows c l).
  Proof.
    unfold cellset, Views.cellrows, P. clear. induction D as [|r t IH]; [reflexivity|].
    cbn [map filter mkp pconc plang]. destruct ((rkey ri r =? c) && (rkey ci r =? l)); cbn [map pid]; [f_equal|]; exact IH.
  Qed.

  Lemma ent_cellrows e c l : map (ent D e) (cellset P c l) = map (ent_row e) (cellrows c l).
  Proof.
    rewrite cellset_cellrows, map_map. apply map_ext_in. intros r Hr.
    apply filter_In in Hr. destruct Hr as [Hr _]. apply ent_In; [exact ids_distinct|exact Hr|].
    specialize (ids_pos r Hr). lia.
  Qed.

  Lemma dict_entry c d : zget (build_dict P) c = Some d -> forall l, lk d l = cellset P c l.
  Proof. intros H l. pose proof (dict_spec P c l) as S. unfold lk2 in S. rewrite H in S. exact S. Qed.

  Lemma dict_has c : In c (x_rows X) -> exists d, zget (build_dict P) c = Some d.
  Proof.
    intros Hc. apply rows_spec in Hc. destruct Hc as [r [Hr <-]].
    destruct (slot_of_row r Hr) as [k [Hk _]]. apply lines_In in Hk. destruct Hk as [d [Hd _]].
    exists d. apply (In_dget_NoDup Z.eqb Zeqb_spec); [apply build_dict_keys_NoDup|exact Hd].
  Qed.

  (* get_dict(row=c, entry=e): under every language of cols exactly the rows of that cell *)
  Theorem get_dict_row_spec c e : In c (x_rows X) ->
    exists out, get_dict_row D X c e = Some out /\
      forall l, In l (x_cols X) -> zget out l = Some (map (ent_row e) (cellrows c l)).
  Proof.
    intros Hc. destruct (dict_has c Hc) as [d Hd].
    unfold get_dict_row. rewrite (proj2 (zmem_In c (x_rows X)) Hc).
    cbn [X build_index x_dict]. rewrite (zget_map_snd (ld_fill (usort K (map plang P)))), Hd. cbn [option_map].
    eexists. split; [reflexivity|]. intros l Hl.
    rewrite (zget_map_snd (map (ent D e))), ld_fill_zget.
    change (usort K (map plang P)) with (x_cols X). rewrite (proj2 (zmem_In l (x_cols X)) Hl).
    rewrite <- ent_cellrows, <- (dict_entry c d Hd l). unfold lk. destruct (zget d l); reflexivity.
  Qed.

  Lemma key_at_cellset c l id : In id (cellset P c l) -> key_at D id ri = c.
  Proof.
    rewrite cellset_cellrows, in_map_iff. intros [r [<- Hr]]. apply filter_In in Hr. destruct Hr as [Hr Hb].
    apply andb_true_iff in Hb. destruct Hb as [Hb _]. apply Z.eqb_eq in Hb.
    rewrite (key_at_In D r ri ids_distinct Hr). exact Hb.
  Qed.

  Lemma col_nonzero l :
    nonzero (map (fun ck => slot P ck l) (lines (build_dict P))) =
    flat_map (fun cd => cellset P (fst cd) l) (build_dict P).
  Proof.
    unfold lines. rewrite flat_map_concat_map, concat_map, map_map, <- flat_map_concat_map, nonzero_flat_map.
    assert (G : forall D0, (forall c d, In (c, d) D0 -> zget (build_dict P) c = Some d) ->
      flat_map (fun cd => nonzero (map (fun ck => slot P ck l) (map (pair (fst cd)) (seq 0 (maxlen (snd cd)))))) D0 =
      flat_map (fun cd => cellset P (fst cd) l) D0).
    { induction D0 as [|[c d] t IH]; intros Hz; cbn [flat_map fst snd]; [reflexivity|]. f_equal.
      - rewrite map_map. unfold slot. cbn [fst snd].
        pose proof (dict_entry c d (Hz c d (or_introl eq_refl)) l) as El.
        apply nonzero_pad.
        + intros x Hx. apply cellset_In in Hx. destruct Hx as [r [R1 [R2 _]]]. rewrite <- R2. apply P_ids_nonzero. exact R1.
        + rewrite <- El. apply maxlen_ge.
      - apply IH. intros c' d' H. apply Hz. right. exact H. }
    apply G. intros c d H. apply (In_dget_NoDup Z.eqb Zeqb_spec); [apply build_dict_keys_NoDup|exact H].
  Qed.

  Lemma filter_key_flat (key : Z -> Z) l c :
    (forall c' id, In id (cellset P c' l) -> key id = c') ->
    forall D0 : cdict, NoDup (map fst D0) ->
    filter (fun id => key id =? c) (flat_map (fun cd => cellset P (fst cd) l) D0) =
    if zmem c (map fst D0) then cellset P c l else [].
  Proof.
    intros Hk. induction D0 as [|[c0 d0] t IH]; intros ND; cbn [flat_map map fst]; [reflexivity|].
    inversion ND as [|? ? Hn ND']. subst. rewrite filter_app, (IH ND').
    unfold zmem. cbn [existsb]. fold (zmem c (map fst t)).
    destruct (c =? c0) eqn:E.
    - apply Z.eqb_eq in E. subst c0. cbn [orb].
      replace (zmem c (map fst t)) with false by (symmetry; apply not_true_is_false; rewrite zmem_In; exact Hn).
      rewrite app_nil_r. apply filter_all. intros id Hid.
      apply Z.eqb_eq. exact (Hk c id Hid).
    - cbn [orb]. replace (filter (fun id => key id =? c) (cellset P c0 l)) with (@nil Z); [reflexivity|].
      symmetry. apply filter_none. intros id Hid. rewrite (Hk c0 id Hid).
      apply Z.eqb_neq. intros H. subst. rewrite Z.eqb_refl in E. discriminate.
  Qed.

  (* get_dict(col=l, entry=e): under every concept exactly the rows of that
     cell; concepts without a row in language l are not keys *)
  Theorem get_dict_col_spec l e : In l (x_cols X) ->
    exists out, get_dict_col D ri X l e = Some out /\
      forall c, zget out c = match cellrows c l with [] => None | rs => Some (map (ent_row e) rs) end.
  Proof.
    intros Hl. destruct (index_of_In l (x_cols X) Hl) as [j Hj].
    pose proof (index_of_spec _ _ _ Hj) as Hnth.
    unfold get_dict_col, col_of. rewrite (proj2 (zmem_In l (x_cols X)) Hl), Hj. cbn [option_map].
    eexists. split; [reflexivity|]. intros c.
    rewrite (zget_map_snd (map (ent D e))).
    unfold X at 1. rewrite array_grid. fold X. rewrite (column_grid _ _ _ _ _ Hnth), col_nonzero.
    rewrite group_zget.
    rewrite (filter_key_flat (fun id => key_at D id ri) l c (fun c' id H => key_at_cellset c' l id H)
                             (build_dict P) (build_dict_keys_NoDup P)).
    assert (E : (if zmem c (map fst (build_dict P)) then cellset P c l else []) = cellset P c l).
    { destruct (zmem c (map fst (build_dict P))) eqn:Ez; [reflexivity|].
      destruct (zget (build_dict P) c) as [d|] eqn:Ed.
      - exfalso. apply (dget_In Z.eqb Zeqb_spec) in Ed. apply (in_map fst) in Ed. cbn [fst] in Ed. apply zmem_In in Ed. congruence.
      - pose proof (dict_spec P c l) as S. unfold lk2 in S. rewrite Ed in S. exact S. }
    rewrite E. unfold lk, zget. cbn [dget app].
    pose proof (ent_cellrows e c l) as Ee. rewrite cellset_cellrows in *.
    destruct (cellrows c l) as [|r rs]; cbn [map option_map] in *; [reflexivity|].
    f_equal. exact Ee.
  Qed.

  (* ------------------------------------------------------------ etymdict *)
  (* ids listed under cognate id cog in the column of language l: every row
     of that language, as often as it carries cog, in row order *)
  Definition etym_spec (ref : nat) (cog l : Z) : list Z :=
    flat_map (fun r => if rkey ci r =? l then repeat (fst r) (count_occ Z.eq_dec (carried ref r) cog) else []) D.

  Definition etym_fold (ref : nat) (rows : list row) (E : etym) : etym :=
    fold_left (fun E r =>
      match index_of (key_at D (fst r) ci) (x_cols X) with
      | None => E
      | Some j => fold_left (fun E cog => etym_add (List.length (x_cols X)) E cog j (fst r))
                            (cogs_of (nth ref (snd r) POISON)) E
      end) rows E.

  Lemma etym_rows_spec ref (rows : list row) : incl rows D -> forall E, etym_wf (List.length (x_cols X)) E ->
    etym_wf (List.length (x_cols X)) (etym_fold ref rows E) /\
    (forall cog j l, nth_error (x_cols X) j = Some l ->
       etym_slot (etym_fold ref rows E) cog j = etym_slot E cog j ++
         flat_map (fun r => if rkey ci r =? l then repeat (fst r) (count_occ Z.eq_dec (carried ref r) cog) else []) rows) /\
    (forall k, In k (map fst (etym_fold ref rows E)) -> In k (map fst E) \/ exists r, In r rows /\ In k (carried ref r)).
  Proof.
    unfold etym_fold. induction rows as [|r t IH]; intros Hin E WF; cbn [fold_left].
    - split; [exact WF|]. split; [intros; cbn [flat_map]; rewrite app_nil_r; reflexivity|intros k H; left; exact H].
    - assert (Hr : In r D) by (apply Hin; left; reflexivity).
      rewrite (key_at_In D r ci ids_distinct Hr).
      assert (Hl : In (rkey ci r) (x_cols X)) by (apply cols_spec; exists r; auto).
      destruct (index_of_In _ _ Hl) as [j Hj]. rewrite Hj.
      pose proof (index_of_spec _ _ _ Hj) as Hnth.
      assert (Lj : (j < List.length (x_cols X))%nat) by (apply nth_error_Some; congruence).
      destruct (etym_cogs_spec _ j (fst r) (cogs_of (nth ref (snd r) POISON)) Lj E WF) as [WF1 S1].
      destruct (IH (fun x Hx => Hin x (or_intror Hx)) _ WF1) as [WF2 [S2 K2]].
      split; [exact WF2|]. split.
      + intros cog j' l Hj'. rewrite (S2 cog j' l Hj'), S1, <- app_assoc. f_equal. cbn [flat_map]. f_equal.
        fold (carried ref r).
        destruct (Nat.eqb j' j) eqn:Ej.
        * apply Nat.eqb_eq in Ej. subst j'. assert (l = rkey ci r) by congruence. subst l. rewrite Z.eqb_refl. reflexivity.
        * destruct (rkey ci r =? l) eqn:El; [|reflexivity]. apply Z.eqb_eq in El. subst l.
          apply Nat.eqb_neq in Ej. exfalso. apply Ej.
          eapply (proj1 (NoDup_nth_error (x_cols X)) (cols_NoDup K P P_langs_inj)); [apply nth_error_Some; congruence|congruence].
      + intros k Hk. destruct (K2 k Hk) as [H|[r' [H1 H2]]]; [|right; exists r'; split; [right; exact H1|exact H2]].
        apply etym_keys_cogs in H. destruct H as [H|H]; [left; exact H|].
        right. exists r. split; [left; reflexivity|exact H].
  Qed.

  (* get_etymdict: an id is listed under cognate id cog and language column l
     exactly as often as its row carries cog and l *)
  Theorem etymdict_exact ref cog j l : nth_error (x_cols X) j = Some l ->
    etym_slot (get_etymdict D ci X ref) cog j = etym_spec ref cog l.
  Proof.
    intros Hj. change (get_etymdict D ci X ref) with (etym_fold ref D []).
    destruct (etym_rows_spec ref D (incl_refl D) [] (fun k v H => match H with end)) as [_ [S _]].
    rewrite (S cog j l Hj). unfold etym_slot, zget. cbn [dget app]. reflexivity.
  Qed.

  Theorem etymdict_keys ref cog : In cog (map fst (get_etymdict D ci X ref)) <-> exists r, In r D /\ In cog (carried ref r).
  Proof.
    split.
    - intros H. change (get_etymdict D ci X ref) with (etym_fold ref D []) in H.
      destruct (etym_rows_spec ref D (incl_refl D) [] (fun k v H => match H with end)) as [_ [_ Kk]].
      destruct (Kk cog H) as [[]|H2]. exact H2.
    - intros [r [Hr Hc]].
      assert (Hl : In (rkey ci r) (x_cols X)) by (apply cols_spec; exists r; auto).
      destruct (In_nth_error _ _ Hl) as [j Hj].
      pose proof (etymdict_exact ref cog j _ Hj) as S.
      assert (Hin : In (fst r) (etym_spec ref cog (rkey ci r))).
      { unfold etym_spec. apply in_flat_map. exists r. split; [exact Hr|]. rewrite Z.eqb_refl.
        apply (count_occ_In Z.eq_dec) in Hc. destruct (count_occ Z.eq_dec (carried ref r) cog); [lia|]. left. reflexivity. }
      rewrite <- S in Hin. unfold etym_slot in Hin. destruct (zget (get_etymdict D ci X ref) cog) eqn:Ez; [|destruct Hin].
      apply (dget_In Z.eqb Zeqb_spec) in Ez. apply (in_map fst) in Ez. exact Ez.
  Qed.

  Lemma etymdict_width ref k v : In (k, v) (get_etymdict D ci X ref) -> List.length v = List.length (x_cols X).
  Proof.
    change (get_etymdict D ci X ref) with (etym_fold ref D []).
    destruct (etym_rows_spec ref D (incl_refl D) [] (fun k v H => match H with end)) as [W _]. apply W.
  Qed.

  (* ------------------------------------------ get_list(row=c), two-dimensional *)
  Lemma ent_nth e (rs : list row) k : incl rs D ->
    ent D e (nth k (map fst rs) 0) = nth k (map (ent_row e) rs) (Atom 0).
  Proof.
    revert k. induction rs as [|r t IH]; intros k Hin.
    - destruct k; cbn [map nth]; unfold ent; destruct e; reflexivity.
    - destruct k as [|k]; cbn [map nth].
      + apply ent_In; [exact ids_distinct|apply Hin; left; reflexivity|].
        specialize (ids_pos r (Hin r (or_introl eq_refl))). lia.
      + apply IH. intros x Hx. apply Hin. right. exact Hx.
  Qed.

  Lemma maxlen_bounds c d : In c (x_rows X) -> zget (build_dict P) c = Some d ->
    (forall l, List.length (cellrows c l) <= maxlen d)%nat
    /\ (exists l, In l (x_cols X) /\ List.length (cellrows c l) = maxlen d).
  Proof.
    intros Hc Hd. split.
    - intros l. pose proof (maxlen_ge d l) as G.
      rewrite (dict_entry c d Hd l), cellset_cellrows, map_length in G. exact G.
    - pose proof (dget_In Z.eqb Zeqb_spec _ _ _ Hd) as Hind.
      assert (Nd : d <> []).
      { apply rows_spec in Hc. destruct Hc as [r [Hr Ec]].
        assert (Hin : In (fst r) (cellset P c (rkey ci r))).
        { apply cellset_In. exists (mkp ri ci r). split; [apply P_In; exists r; auto|]. cbn. auto. }
        rewrite <- (dict_entry c d Hd) in Hin. intros E. subst d. exact Hin. }
      destruct (maxlen_attained d Nd) as [l [ids [Hl El]]].
      pose proof (In_dget_NoDup Z.eqb Zeqb_spec _ _ _ (build_dict_inner_NoDup P c d Hind) Hl) as Hz.
      assert (Elk : lk d l = ids) by (unfold lk, zget; rewrite Hz; reflexivity).
      assert (Elen : List.length (cellrows c l) = maxlen d).
      { rewrite <- El, <- Elk, (dict_entry c d Hd l), cellset_cellrows, map_length. reflexivity. }
      exists l. split; [|exact Elen].
      apply cols_spec.
      assert (Hne : cellrows c l <> []).
      { intros E. rewrite E in Elen. cbn in Elen.
        destruct ids as [|i0 it]; [|cbn in El; lia].
        (* an empty list is never stored in _dict *)
        rewrite <- Elk, (dict_entry c d Hd l), cellset_cellrows, E in El. clear El.
        apply rows_spec in Hc. destruct Hc as [r [Hr Ec]].
        assert (Hin : In (fst r) (cellset P c (rkey ci r))).
        { apply cellset_In. exists (mkp ri ci r). split; [apply P_In; exists r; auto|]. cbn. auto. }
        rewrite <- (dict_entry c d Hd) in Hin.
        pose proof (maxlen_ge d (rkey ci r)) as G. rewrite <- Elen in G.
        destruct (lk d (rkey ci r)); [exact Hin|cbn in G; lia]. }
      destruct (cellrows c l) as [|r0 t0] eqn:E0; [contradiction|].
      assert (Hr0 : In r0 (cellrows c l)) by (rewrite E0; left; reflexivity).
      apply filter_In in Hr0. destruct Hr0 as [Hr0 Hb0]. apply andb_true_iff in Hb0.
      exists r0. split; [exact Hr0|]. apply Z.eqb_eq. apply Hb0.
  Qed.

  Lemma maxlen_height c d : In c (x_rows X) -> zget (build_dict P) c = Some d ->
    maxlen d = height_of D ri ci (x_cols X) c.
  Proof.
    intros Hc Hd. destruct (maxlen_bounds c d Hc Hd) as [B A]. symmetry. unfold height_of.
    apply (fold_max_eq (fun l => List.length (cellrows c l))); [intros l _; apply B|exact A].
  Qed.

  (* the concept-by-language table of one concept, slot by slot: line k holds,
     in the column of language l, the k-th row (in row order) of the cell (c, l),
     or 0 when the cell has no more than k rows; there are as many lines as the
     fullest cell of the concept has rows *)
  Theorem get_list_row_spec c e : In c (x_rows X) ->
    get_list_row D X c e =
    Some (map (fun k => map (fun l => nth k (map (ent_row e) (cellrows c l)) (Atom 0)) (x_cols X))
              (seq 0 (height_of D ri ci (x_cols X) c))).
  Proof.
    intros Hc. destruct (idx_of_row c Hc) as [is His].
    destruct (block_lines K P c is His) as [d [Hd Hb]]. fold X in Hb.
    rewrite <- (maxlen_height c d Hc Hd).
    unfold get_list_row, block_of. rewrite (proj2 (zmem_In c (x_rows X)) Hc), His. cbn [option_map].
    unfold sel_rows. rewrite Hb, map_map. f_equal. apply map_ext. intros k. rewrite map_map.
    apply map_ext. intros l. unfold slot. cbn [fst snd]. rewrite cellset_cellrows.
    apply ent_nth. intros r Hr. apply filter_In in Hr. apply Hr.
  Qed.

  Lemma first_occ_acc_In (l : list Z) : forall acc x,
    In x (fold_left (fun a y => if zmem y a then a else a ++ [y]) l acc) <-> In x acc \/ In x l.
  Proof.
    induction l as [|y t IH]; intros acc x; cbn [fold_left In]; [tauto|].
    rewrite IH. destruct (zmem y acc) eqn:E.
    - apply zmem_In in E. split; [tauto|]. intros [H|[<-|H]]; auto.
    - rewrite in_app_iff. cbn [In]. tauto.
  Qed.

  Lemma dict_keys : map fst (build_dict P) = first_occ (map (rkey ri) D).
  Proof. unfold build_dict, first_occ. rewrite dict_keys_first_occ, P_pconc. reflexivity. Qed.

  (* the whole concept-by-language table: the concepts in order of first
     occurrence in the rows; for each, the lines described above (ids) *)
  Theorem array_exact :
    x_array X =
    flat_map (fun c => map (fun k => map (fun l => nth k (map fst (cellrows c l)) 0) (x_cols X))
                           (seq 0 (height_of D ri ci (x_cols X) c)))
             (first_occ (map (rkey ri) D)).
  Proof.
    rewrite <- dict_keys. unfold X at 1. rewrite array_grid. fold X. unfold lines.
    rewrite flat_map_concat_map, concat_map, map_map, <- flat_map_concat_map.
    rewrite <- (flat_map_keys
      (fun c n => map (fun k => map (fun l => nth k (map fst (cellrows c l)) 0) (x_cols X)) (seq 0 n))
      maxlen (height_of D ri ci (x_cols X)) (build_dict P)).
    - apply flat_map_ext. intros [c d]. cbn [fst snd]. rewrite map_map. apply map_ext. intros k.
      apply map_ext. intros l. unfold slot. cbn [fst snd]. rewrite cellset_cellrows. reflexivity.
    - intros c d Hin. apply maxlen_height.
      + apply rows_spec. apply (in_map fst) in Hin. cbn [fst] in Hin. rewrite dict_keys in Hin.
        apply first_occ_acc_In in Hin. destruct Hin as [[]|Hin]. apply in_map_iff in Hin.
        destruct Hin as [r [E Hr]]. exists r. auto.
      + apply (In_dget_NoDup Z.eqb Zeqb_spec); [apply build_dict_keys_NoDup|exact Hin].
  Qed.

  (* get_list(col=l, entry=e), not flat: the column of language l of that table,
     read through the entry *)
  Theorem get_list_col_spec l e : In l (x_cols X) ->
    get_list_col D X l e =
    Some (flat_map (fun c => map (fun k => nth k (map (ent_row e) (cellrows c l)) (Atom 0))
                                 (seq 0 (height_of D ri ci (x_cols X) c)))
                   (first_occ (map (rkey ri) D))).
  Proof.
    intros Hl. destruct (index_of_In l (x_cols X) Hl) as [j Hj].
    pose proof (index_of_spec _ _ _ Hj) as Hnth.
    unfold get_list_col, col_of. rewrite (proj2 (zmem_In l (x_cols X)) Hl), Hj. cbn [option_map]. f_equal.
    unfold X at 1. rewrite array_grid. fold X. rewrite (column_grid _ _ _ _ _ Hnth), map_map.
    rewrite <- dict_keys. unfold lines.
    rewrite flat_map_concat_map, concat_map, map_map, <- flat_map_concat_map.
    rewrite <- (flat_map_keys
      (fun c n => map (fun k => nth k (map (ent_row e) (cellrows c l)) (Atom 0)) (seq 0 n))
      maxlen (height_of D ri ci (x_cols X)) (build_dict P)).
    - apply flat_map_ext. intros [c d]. cbn [fst snd]. rewrite map_map. apply map_ext. intros k.
      unfold slot. cbn [fst snd]. rewrite cellset_cellrows.
      apply ent_nth. intros r Hr. apply filter_In in Hr. apply Hr.
    - intros c d Hin. apply maxlen_height.
      + apply rows_spec. apply (in_map fst) in Hin. cbn [fst] in Hin. rewrite dict_keys in Hin.
        apply first_occ_acc_In in Hin. destruct Hin as [[]|Hin]. apply in_map_iff in Hin.
        destruct Hin as [r [E Hr]]. exists r. auto.
      + apply (In_dget_NoDup Z.eqb Zeqb_spec); [apply build_dict_keys_NoDup|exact Hin].
  Qed.
End WF.

(* ================================================= well-formed wordlists *)
(* the state invariant: the stored indexes are the indexes of the stored rows *)
Record wf (K : keys) (w : wl) : Prop := {
  wf_index : w_index w = build_index K (map (mkp (w_ri w) (w_ci w)) (w_data w));
  wf_ids : NoDup (map fst (w_data w));
  wf_pos : forall r, In r (w_data w) -> 0 < fst r;
  wf_len : forall r, In r (w_data w) -> (w_ri w < List.length (snd r))%nat /\ (w_ci w < List.length (snd r))%nat;
  wf_nonempty : w_data w <> []
}.

Lemma keep_rows_spec d r : In r (keep_rows d) <-> In r d /\ 0 < fst r.
Proof. unfold keep_rows. rewrite filter_In, Z.ltb_lt. tauto. Qed.

Lemma name_of_len (cs : list cell) k z : name_of (nth_error cs k) = Some z -> (k < List.length cs)%nat.
Proof.
  intros H. apply nth_error_Some. intros E. rewrite E in H. discriminate.
Qed.

Lemma to_prows_len w ri ci D P : to_prows w ri ci D = Some P ->
  forall r, In r D -> (ri < List.length (snd r))%nat /\ (ci < List.length (snd r))%nat.
Proof.
  unfold to_prows. intros H. apply all_some_map in H.
  induction H as [|r p t tp H1 H2 IH]; [intros r []|].
  intros r' [<-|Hr]; [|exact (IH r' Hr)].
  unfold to_prow in H1. destruct (Nat.eqb (List.length (snd r)) w); [|discriminate].
  destruct (name_of (nth_error (snd r) ri)) eqn:Ec; [|discriminate].
  destruct (name_of (nth_error (snd r) ci)) eqn:El; [|discriminate].
  split; eapply name_of_len; eassumption.
Qed.

(* Wordlist(dict) establishes the invariant *)
Theorem build_gen_wf t K hdr d row col meta w :
  NoDup (map fst d) -> build_gen t K hdr d row col meta = Some w -> wf K w.
Proof.
  intros ND. unfold build_gen. destruct (init_names t hdr) as [n|]; [|discriminate].
  destruct (resolve_item n row) as [ri|]; [|discriminate].
  destruct (resolve_item n col) as [ci|]; [|discriminate].
  destruct (keep_rows d) as [|r0 rest] eqn:Ek; [discriminate|]. rewrite <- Ek.
  destruct (to_prows (List.length (n_header n)) ri ci (keep_rows d)) as [P|] eqn:Ep; [|discriminate].
  intros H. inversion H. subst w. clear H.
  destruct (to_prows_spec _ _ _ _ _ Ep) as [EP _].
  constructor; cbn [w_index w_ri w_ci w_data].
  - rewrite EP. reflexivity.
  - unfold keep_rows. apply NoDup_map_filter. exact ND.
  - intros r Hr. apply keep_rows_spec in Hr. apply Hr.
  - exact (to_prows_len _ _ _ _ _ Ep).
  - rewrite Ek. discriminate.
Qed.

(* file input: the converted rows keep the ids of the file's rows *)
Lemma convert_rows_ids kd hdr d typed : convert_rows kd hdr d = Some typed -> map fst typed = map fst d.
Proof.
  unfold convert_rows. intros H. apply all_some_map in H.
  induction H as [|r p t tp H1 H2 IH]; [reflexivity|]. cbn [map]. rewrite IH. f_equal.
  destruct (conv_cells (map (kind_of kd) hdr) (snd r)); cbn [option_map] in H1; [|discriminate].
  inversion H1. reflexivity.
Qed.

(* every view of a loaded file is the view of its typed rows: the object is the
   one the dictionary constructor builds from the converted rows, and it is well-formed *)
Theorem load_file_wf t kinds K hdr d row col meta w :
  NoDup (map fst d) -> load_file t kinds K hdr d row col meta = Some w ->
  wf K w /\ exists typed, convert_rows (read_kinds kinds) hdr d = Some typed /\
                          build_gen t K hdr typed row col meta = Some w /\ map fst typed = map fst d.
Proof.
  intros ND. unfold load_file. destruct (convert_rows (read_kinds kinds) hdr d) as [typed|] eqn:E; [|discriminate].
  intros H. pose proof (convert_rows_ids _ _ _ _ E) as Ei. split.
  - apply (build_gen_wf t K hdr typed row col meta w); [rewrite Ei; exact ND|exact H].
  - exists typed. auto.
Qed.

Theorem build_wf t K hdr d w : NoDup (map fst d) -> build t K hdr d = Some w -> wf K w.
Proof. intros ND H. exact (build_gen_wf t K hdr d _ _ _ w ND H). Qed.

(* wl.<s> for the spellings of the two dimensions: rows and cols, whatever the metadata holds *)
Lemma get_attr_dims w s n : sget (n_alias (w_names w)) s = Some n ->
  (n = d_rown (w_dims w) -> get_attr w s = AList (x_rows (w_index w))) /\
  (n <> d_rown (w_dims w) -> n = d_coln (w_dims w) -> get_attr w s = AList (x_cols (w_index w))).
Proof.
  intros H. unfold get_attr. rewrite H. split.
  - intros ->. rewrite String.eqb_refl. reflexivity.
  - intros N ->. destruct (String.eqb (d_coln (w_dims w)) (d_rown (w_dims w))) eqn:E;
      [apply String.eqb_eq in E; contradiction|]. rewrite String.eqb_refl. reflexivity.
Qed.

(* the indexes depend on id, concept and language of the rows only *)
Lemma build_index_ext K (P P' : list prow) :
  Forall2 (fun r r' => pid r = pid r' /\ pconc r = pconc r' /\ plang r = plang r') P P' ->
  build_index K P = build_index K P'.
Proof.
  intros F.
  assert (E1 : map pconc P = map pconc P') by (induction F as [|x y l l' [_ [H _]] _ IH]; cbn [map]; [reflexivity|rewrite H, IH; reflexivity]).
  assert (E2 : map plang P = map plang P') by (clear E1; induction F as [|x y l l' [_ [_ H]] _ IH]; cbn [map]; [reflexivity|rewrite H, IH; reflexivity]).
  assert (E3 : build_dict P = build_dict P').
  { clear E1 E2. unfold build_dict. generalize (@nil (Z * ldict)). induction F as [|r r' t t' [H1 [H2 H3]] _ IH]; intros acc; cbn [fold_left]; [reflexivity|].
    rewrite H1, H2, H3. apply IH. }
  unfold build_index. rewrite E1, E2, E3. reflexivity.
Qed.

Lemma nth_upd_other {A} j j' (x d : A) l : j' <> j -> nth j' (upd j x l) d = nth j' l d.
Proof.
  revert j j'. induction l as [|a t IH]; intros j j' N; destruct j as [|j]; cbn [upd]; try reflexivity.
  - destruct j' as [|j']; [contradiction|reflexivity].
  - destruct j' as [|j']; cbn [nth]; [reflexivity|]. apply IH. congruence.
Qed.

Lemma index_preserved K ri ci (g : list cell -> list cell) (D : list row) :
  (forall r, In r D -> nth ri (g (snd r)) POISON = nth ri (snd r) POISON /\
                       nth ci (g (snd r)) POISON = nth ci (snd r) POISON) ->
  build_index K (map (mkp ri ci) (map (fun r => (fst r, g (snd r))) D)) = build_index K (map (mkp ri ci) D).
Proof.
  intros H. apply build_index_ext. induction D as [|r t IH]; cbn [map]; [constructor|].
  constructor; [|apply IH; intros r' Hr'; apply H; right; exact Hr'].
  destruct (H r (or_introl eq_refl)) as [H1 H2]. unfold mkp, rkey. cbn [pid pconc plang fst snd].
  rewrite H1, H2. auto.
Qed.

(* add_entries keeps the invariant (views_after_add): a new column, or an
   overwritten column other than the concept and the language column *)
Theorem add_entries_wf K w entry source f override w' :
  wf K w -> add_entries w entry source f override = Some w' ->
  (forall tgt, override = true -> sget (n_hdr (w_names w)) (lower entry) = Some tgt -> tgt <> w_ri w /\ tgt <> w_ci w) ->
  wf K w' /\ map fst (w_data w') = map fst (w_data w) /\ w_index w' = w_index w
  /\ w_ri w' = w_ri w /\ w_ci w' = w_ci w.
Proof.
  intros W H G. unfold add_entries in H.
  destruct (String.eqb entry ""); [discriminate|].
  set (ov := if negb (smem (n_hdr (w_names w)) (lower entry)) && override then false else override) in *.
  destruct (smem (n_hdr (w_names w)) (lower entry) && negb ov); [discriminate|].
  destruct W as [Wi Wd Wp Wl Wn].
  destruct ov eqn:Eov.
  - (* override *)
    destruct (sget (n_hdr (w_names w)) source) as [src|]; [|discriminate].
    destruct (sget (n_hdr (w_names w)) (lower entry)) as [tgt|] eqn:Et; [|discriminate].
    inversion H. subst w'. clear H. cbn [w_data w_index w_ri w_ci].
    assert (Eo : override = true).
    { unfold ov in Eov. destruct (negb (smem (n_hdr (w_names w)) (lower entry)) && override); [discriminate|exact Eov]. }
    destruct (G tgt Eo eq_refl) as [G1 G2].
    assert (Em : map fst (set_col f src tgt (w_data w)) = map fst (w_data w)).
    { unfold set_col. rewrite map_map. reflexivity. }
    split; [|auto].
    constructor; cbn [w_data w_index w_ri w_ci].
    + rewrite Wi. symmetry. unfold set_col.
      apply (index_preserved K (w_ri w) (w_ci w) (fun cs => upd tgt (f (nth src cs POISON)) cs)).
      intros r _. split; apply nth_upd_other; congruence.
    + rewrite Em. exact Wd.
    + intros r Hr. unfold set_col in Hr. apply in_map_iff in Hr. destruct Hr as [r0 [<- Hr0]]. exact (Wp r0 Hr0).
    + intros r Hr. unfold set_col in Hr. apply in_map_iff in Hr. destruct Hr as [r0 [<- Hr0]]. cbn [snd].
      rewrite upd_length. exact (Wl r0 Hr0).
    + unfold set_col. destruct (w_data w); [contradiction|discriminate].
  - (* a new column *)
    destruct (add_name (w_names w) entry) as [[n' i]|]; [|discriminate].
    destruct (sget (n_hdr n') source) as [src|]; [|discriminate].
    inversion H. subst w'. clear H. cbn [w_data w_index w_ri w_ci].
    assert (Em : map fst (app_col f src (w_data w)) = map fst (w_data w)).
    { unfold app_col. rewrite map_map. reflexivity. }
    split; [|auto].
    constructor; cbn [w_data w_index w_ri w_ci].
    + rewrite Wi. symmetry. unfold app_col.
      apply (index_preserved K (w_ri w) (w_ci w) (fun cs => cs ++ [f (nth src cs POISON)])).
      intros r Hr. destruct (Wl r Hr) as [L1 L2]. split; apply app_nth1; assumption.
    + rewrite Em. exact Wd.
    + intros r Hr. unfold app_col in Hr. apply in_map_iff in Hr. destruct Hr as [r0 [<- Hr0]]. exact (Wp r0 Hr0).
    + intros r Hr. unfold app_col in Hr. apply in_map_iff in Hr. destruct Hr as [r0 [<- Hr0]]. cbn [snd].
      rewrite app_length. destruct (Wl r0 Hr0). cbn [List.length]. lia.
    + unfold app_col. destruct (w_data w); [contradiction|discriminate].
Qed.

Lemma index_preserved_rows K ri ci (h : row -> row) (D : list row) :
  (forall r, In r D -> fst (h r) = fst r /\ nth ri (snd (h r)) POISON = nth ri (snd r) POISON /\
                       nth ci (snd (h r)) POISON = nth ci (snd r) POISON) ->
  build_index K (map (mkp ri ci) (map h D)) = build_index K (map (mkp ri ci) D).
Proof.
  intros H. apply build_index_ext. induction D as [|r t IH]; cbn [map]; [constructor|].
  constructor; [|apply IH; intros r' Hr'; apply H; right; exact Hr'].
  destruct (H r (or_introl eq_refl)) as [H0 [H1 H2]]. unfold mkp, rkey. cbn [pid pconc plang].
  rewrite H0, H1, H2. auto.
Qed.

(* wl[id, name] = v keeps the invariant as long as it does not write into the
   concept or the language column; ids and indexes are untouched *)
Theorem set_cell_wf K w id s v w' :
  wf K w -> set_cell w id s v = Some w' ->
  (forall k, resolve_item (w_names w) s = Some k -> k <> w_ri w /\ k <> w_ci w) ->
  wf K w' /\ map fst (w_data w') = map fst (w_data w) /\ w_index w' = w_index w
  /\ w_ri w' = w_ri w /\ w_ci w' = w_ci w.
Proof.
  intros W H G. unfold set_cell in H.
  destruct (resolve_item (w_names w) s) as [k|]; [|discriminate].
  destruct (row_of (w_data w) id); [|discriminate].
  inversion H. subst w'. clear H. cbn [w_data w_index w_ri w_ci].
  destruct (G k eq_refl) as [G1 G2]. destruct W as [Wi Wd Wp Wl Wn].
  set (h := fun r : Z * list cell => if fst r =? id then (fst r, upd k v (snd r)) else r) in *.
  assert (Hf : forall r, fst (h r) = fst r) by (intros r; unfold h; destruct (fst r =? id); reflexivity).
  assert (Em : map fst (map h (w_data w)) = map fst (w_data w)).
  { rewrite map_map. apply map_ext. exact Hf. }
  split; [|auto].
  constructor; cbn [w_data w_index w_ri w_ci].
  - rewrite Wi. symmetry. apply index_preserved_rows. intros r _. split; [apply Hf|].
    unfold h. destruct (fst r =? id); [|split; reflexivity]. cbn [snd].
    split; apply nth_upd_other; congruence.
  - rewrite Em. exact Wd.
  - intros r Hr. apply in_map_iff in Hr. destruct Hr as [r0 [<- Hr0]]. rewrite Hf. exact (Wp r0 Hr0).
  - intros r Hr. apply in_map_iff in Hr. destruct Hr as [r0 [<- Hr0]]. unfold h.
    destruct (fst r0 =? id); [cbn [snd]; rewrite upd_length|]; exact (Wl r0 Hr0).
  - destruct (w_data w); [contradiction|discriminate].
Qed.

(* ============================== the theorems, for any well-formed wordlist *)
Definition names_inj (K : keys) (w : wl) : Prop :=
  key_inj K (map (rkey (w_ci w)) (w_data w)) /\ key_inj K (map (rkey (w_ri w)) (w_data w)).

Section WFW.
  Variables (K : keys) (w : wl).
  Hypothesis W : wf K w.
  Hypothesis I : names_inj K w.
  Let D := w_data w.
  Let ri := w_ri w.
  Let ci := w_ci w.
  Let X := w_index w.

  Lemma wf_X : X = build_index K (map (mkp ri ci) D).
  Proof. exact (wf_index K w W). Qed.

  Lemma wf_P_ids : NoDup (map pid (map (mkp ri ci) D)).
  Proof. rewrite map_map. exact (wf_ids K w W). Qed.
  Lemma wf_P_nonzero : forall r, In r (map (mkp ri ci) D) -> pid r <> 0.
  Proof.
    intros r H. apply in_map_iff in H. destruct H as [r0 [<- H0]]. cbn. pose proof (wf_pos K w W r0 H0). lia.
  Qed.
  Lemma wf_P_langs : key_inj K (map plang (map (mkp ri ci) D)).
  Proof. rewrite map_map. exact (proj1 I). Qed.

  (* array_each_id_once *)
  Theorem wf_array_each_id_once r : In r D ->
    exists i j,
      IndexProofs.aget (x_array X) i j = fst r
      /\ (exists is, zget (x_idx X) (rkey ri r) = Some is /\ In i is)
      /\ nth_error (x_cols X) j = Some (rkey ci r)
      /\ forall i' j', IndexProofs.aget (x_array X) i' j' = fst r -> i' = i /\ j' = j.
  Proof.
    intros Hr. rewrite wf_X.
    exact (array_each_id_once_lemma K (map (mkp ri ci) D) wf_P_ids wf_P_nonzero wf_P_langs
                                    (mkp ri ci r) (in_map (mkp ri ci) D r Hr)).
  Qed.

  Theorem wf_array_ids_only i j : IndexProofs.aget (x_array X) i j <> 0 ->
    exists r, In r D /\ fst r = IndexProofs.aget (x_array X) i j.
  Proof.
    rewrite wf_X. intros N. destruct (array_ids_only K (map (mkp ri ci) D) i j N) as [r' [c [k [R1 [R2 _]]]]].
    apply in_map_iff in R1. destruct R1 as [r [<- Hr]]. exists r. split; [exact Hr|exact R2].
  Qed.

  Theorem wf_len_rows : wl_len D = List.length D /\ List.length (nonzero (List.concat (x_array X))) = List.length D.
  Proof.
    split; [reflexivity|]. rewrite wf_X.
    exact (array_count K D ri ci (wf_ids K w W) (wf_pos K w W) (proj1 I)).
  Qed.

  (* rows_cols_sorted_distinct *)
  Theorem wf_rows_cols :
    Sorted.StronglySorted (kltP K) (x_rows X) /\ (forall c, In c (x_rows X) <-> exists r, In r D /\ rkey ri r = c) /\
    Sorted.StronglySorted (kltP K) (x_cols X) /\ (forall l, In l (x_cols X) <-> exists r, In r D /\ rkey ci r = l) /\
    Sorted.StronglySorted (fun x y => lowk K x <= lowk K y) (x_rows X) /\
    Sorted.StronglySorted (fun x y => lowk K x <= lowk K y) (x_cols X) /\
    NoDup (x_rows X) /\ NoDup (x_cols X).
  Proof.
    rewrite wf_X.
    assert (S1 : Sorted.StronglySorted (kltP K) (x_rows (build_index K (map (mkp ri ci) D)))).
    { cbn [build_index x_rows]. apply usort_sorted. rewrite map_map. exact (proj2 I). }
    assert (S2 : Sorted.StronglySorted (kltP K) (x_cols (build_index K (map (mkp ri ci) D)))).
    { cbn [build_index x_cols]. apply usort_sorted. rewrite map_map. exact (proj1 I). }
    split; [exact S1|]. split; [intros c; apply rows_spec|]. split; [exact S2|]. split; [intros l; apply cols_spec|].
    split; [apply sorted_lowk; exact S1|]. split; [apply sorted_lowk; exact S2|].
    split; [exact (sorted_NoDup K _ S1)|exact (sorted_NoDup K _ S2)].
  Qed.

  (* views_agree *)
  Theorem wf_list_row_flat c : In c (x_rows X) ->
    exists rs, (forall e, get_list_row_flat D X c e = Some (map (ent_row e) rs))
               /\ NoDup rs /\ forall r, In r rs <-> In r D /\ rkey ri r = c.
  Proof.
    rewrite wf_X. exact (get_list_row_flat_spec K D ri ci (wf_ids K w W) (wf_pos K w W) (proj1 I) c).
  Qed.

  Theorem wf_list_col_flat l : In l (x_cols X) ->
    exists rs, (forall e, get_list_col_flat D X l e = Some (map (ent_row e) rs))
               /\ NoDup rs /\ forall r, In r rs <-> In r D /\ rkey ci r = l.
  Proof.
    rewrite wf_X. exact (get_list_col_flat_spec K D ri ci (wf_ids K w W) (wf_pos K w W) l).
  Qed.

  Theorem wf_dict_row c e : In c (x_rows X) ->
    exists out, get_dict_row D X c e = Some out /\
      forall l, In l (x_cols X) -> zget out l = Some (map (ent_row e) (cellrows D ri ci c l)).
  Proof.
    rewrite wf_X. exact (get_dict_row_spec K D ri ci (wf_ids K w W) (wf_pos K w W) c e).
  Qed.

  Theorem wf_dict_col l e : In l (x_cols X) ->
    exists out, get_dict_col D ri X l e = Some out /\
      forall c, zget out c = match cellrows D ri ci c l with [] => None | rs => Some (map (ent_row e) rs) end.
  Proof.
    rewrite wf_X. exact (get_dict_col_spec K D ri ci (wf_ids K w W) (wf_pos K w W) l e).
  Qed.

  (* the two-dimensional views and get_entries are the array, read through the entry *)
  Theorem wf_entries k i j : (i < List.length (x_array X))%nat -> (j < List.length (x_cols X))%nat ->
    nth j (nth i (get_entries D X k) []) POISON =
    if IndexProofs.aget (x_array X) i j =? 0 then Atom 0
    else match find (fun r => fst r =? IndexProofs.aget (x_array X) i j) D with
         | Some r => nth k (snd r) POISON
         | None => POISON
         end.
  Proof.
    intros Hi Hj. unfold get_entries.
    rewrite (nth_indep _ [] (map (ent D (Some k)) [])) by (rewrite map_length; exact Hi).
    rewrite (map_nth (map (ent D (Some k)))).
    unfold IndexProofs.aget.
    destruct (Nat.lt_ge_cases j (List.length (nth i (x_array X) []))) as [L|L].
    - rewrite (nth_indep _ POISON (ent D (Some k) 0)) by (rewrite map_length; exact L).
      rewrite (map_nth (ent D (Some k))). unfold ent, cell_at, row_of.
      destruct (nth j (nth i (x_array X) []) 0 =? 0); [reflexivity|].
      destruct (find (fun r => fst r =? nth j (nth i (x_array X) []) 0) D); reflexivity.
    - rewrite (nth_overflow (map _ _)) by (rewrite map_length; exact L).
      rewrite (nth_overflow (nth i (x_array X) [])) by exact L. cbn.
      exfalso. revert L. rewrite wf_X, array_grid.
      destruct (nth_error (lines (build_dict (map (mkp ri ci) D))) i) as [ck|] eqn:E.
      + rewrite (nth_error_nth _ _ [] (x := map (slot (map (mkp ri ci) D) ck) (x_cols (build_index K (map (mkp ri ci) D)))))
          by (rewrite nth_error_map, E; reflexivity).
        rewrite map_length. rewrite <- wf_X. lia.
      + apply nth_error_None in E. rewrite wf_X, array_grid, map_length in Hi. lia.
  Qed.

  (* etymdict_exact *)
  Theorem wf_etymdict_exact ref cog j l : nth_error (x_cols X) j = Some l ->
    etym_slot (get_etymdict D ci X ref) cog j = etym_spec D ci ref cog l.
  Proof.
    rewrite wf_X. exact (etymdict_exact K D ri ci (wf_ids K w W) (proj1 I) ref cog j l).
  Qed.

  Theorem wf_etymdict_keys ref cog :
    In cog (map fst (get_etymdict D ci X ref)) <-> exists r, In r D /\ In cog (carried ref r).
  Proof.
    rewrite wf_X. exact (etymdict_keys K D ri ci (wf_ids K w W) (proj1 I) ref cog).
  Qed.

  Theorem wf_list_row c e : In c (x_rows X) ->
    get_list_row D X c e =
    Some (map (fun k => map (fun l => nth k (map (ent_row e) (cellrows D ri ci c l)) (Atom 0)) (x_cols X))
              (seq 0 (height_of D ri ci (x_cols X) c))).
  Proof.
    rewrite wf_X. exact (get_list_row_spec K D ri ci (wf_ids K w W) (wf_pos K w W) c e).
  Qed.

  Theorem wf_array_exact :
    x_array X =
    flat_map (fun c => map (fun k => map (fun l => nth k (map fst (cellrows D ri ci c l)) 0) (x_cols X))
                           (seq 0 (height_of D ri ci (x_cols X) c)))
             (first_occ (map (rkey ri) D)).
  Proof.
    rewrite wf_X. exact (array_exact K D ri ci).
  Qed.

  Theorem wf_list_col l e : In l (x_cols X) ->
    get_list_col D X l e =
    Some (flat_map (fun c => map (fun k => nth k (map (ent_row e) (cellrows D ri ci c l)) (Atom 0))
                                 (seq 0 (height_of D ri ci (x_cols X) c)))
                   (first_occ (map (rkey ri) D))).
  Proof.
    rewrite wf_X. exact (get_list_col_spec K D ri ci (wf_ids K w W) (wf_pos K w W) l e).
  Qed.
End WFW.
