(* C13 - proofs about the number formats: float items, '{:.nf}' as decimal rounding,
   <dst> and <scorer> blocks. *)
From Coq Require Import QArith Qround Qabs ZArith List Bool Lia Lqa.
From LV Require Import Wordlist.SerializeStr Wordlist.SerializeStrProofs Wordlist.SerializeNum.
Import ListNotations.
Local Open Scope Z_scope.

(* ------------------------------------------------------------------ *)
Lemma dval_dvalue : forall s, dval s = dvalue s 0.
Proof. reflexivity. Qed.

Lemma all_digits_Forall : forall s, Forall (fun c => is_digit c = true) s -> all_digits s = true.
Proof. intros s F. unfold all_digits. apply forallb_forall. rewrite Forall_forall in F. exact F. Qed.

Lemma digit_ne : forall c x, is_digit c = true -> x < 48 -> c <> x.
Proof. intros c x H L. unfold is_digit in H. lia. Qed.

Definition digitval (x : Z) : Prop := 0 <= x <= 9.

Lemma dchar_digit : forall x, digitval x -> is_digit (dchar x) = true.
Proof. intros x H. unfold digitval in H. unfold is_digit, dchar. lia. Qed.

Lemma map_dchar_digits : forall l, Forall digitval l -> Forall (fun c => is_digit c = true) (map dchar l).
Proof. induction l as [|x l IH]; intros F; cbn [map]; inversion F; subst; constructor; auto using dchar_digit. Qed.

Lemma map_undchar : forall l, map (fun c => c - 48) (map dchar l) = l.
Proof.
  induction l as [|x l IH]; cbn [map]; [reflexivity|]. rewrite IH. f_equal. unfold dchar. lia.
Qed.

Lemma digits_no : forall s x, Forall (fun c => is_digit c = true) s -> x < 48 -> ~ In x s.
Proof.
  intros s x F L I. rewrite Forall_forall in F. specialize (F x I). unfold is_digit in F. lia.
Qed.

Lemma digits_nospace : forall s, Forall (fun c => is_digit c = true) s -> nospace s.
Proof.
  intros s F. unfold nospace. apply forallb_forall. intros c I. rewrite Forall_forall in F.
  rewrite (digit_not_space c (F c I)). reflexivity.
Qed.

Lemma nospace_app : forall a b, nospace a -> nospace b -> nospace (a ++ b).
Proof. intros a b Ha Hb. unfold nospace in *. rewrite forallb_app, Ha, Hb. reflexivity. Qed.

Lemma nospace_cons : forall c s, is_space c = false -> nospace s -> nospace (c :: s).
Proof. intros c s Hc Hs. unfold nospace in *. cbn [forallb]. rewrite Hc, Hs. reflexivity. Qed.

Definition dec_ok (d : dec) : Prop :=
  0 <= d_int d /\ Forall digitval (d_frac d) /\ canon_frac (d_frac d) = d_frac d.

Lemma dec_okb_ok : forall d, dec_okb d = true -> dec_ok d.
Proof.
  intros d H. unfold dec_okb in H. apply andb_true_iff in H. destruct H as [H H3].
  apply andb_true_iff in H. destruct H as [H1 H2].
  split; [lia|]. split.
  - apply Forall_forall. intros x I. rewrite forallb_forall in H2. specialize (H2 x I). unfold digitval. lia.
  - apply str_eqb_eq. exact H3.
Qed.

Lemma show_dec_nospace : forall d, dec_ok d -> nospace (show_dec d).
Proof.
  intros d [H1 [H2 _]]. unfold show_dec.
  apply nospace_app; [destruct (d_neg d); reflexivity|].
  apply nospace_app; [apply digits_nospace, show_nat_digits, H1|].
  apply nospace_cons; [reflexivity|]. apply digits_nospace, map_dchar_digits, H2.
Qed.

Lemma show_dec_nonempty : forall d, show_dec d <> [].
Proof.
  intros d. unfold show_dec. destruct (d_neg d); cbn [app]; [discriminate|].
  intros E. apply app_eq_nil in E. destruct E as [_ E]. discriminate.
Qed.

Lemma split_sign_digit : forall c r, is_digit c = true -> split_sign (c :: r) = (false, c :: r).
Proof.
  intros c r H. unfold split_sign.
  assert (c =? 45 = false) as -> by (unfold is_digit in H; lia).
  assert (c =? 43 = false) as -> by (unfold is_digit in H; lia).
  reflexivity.
Qed.

Lemma split_sign_body : forall (neg : bool) (body : str),
  body <> [] -> Forall (fun c => is_digit c = true) body ->
  split_sign ((if neg then [45] else []) ++ body) = (neg, body).
Proof.
  intros neg body NE F. destruct neg.
  - cbn [app]. unfold split_sign. change (45 =? 45) with true. reflexivity.
  - cbn [app]. destruct body as [|c r]; [congruence|]. inversion F; subst. apply split_sign_digit. assumption.
Qed.

Lemma split_sign_body2 : forall (neg : bool) (a b : str),
  a <> [] -> Forall (fun c => is_digit c = true) a ->
  split_sign ((if neg then [45] else []) ++ a ++ b) = (neg, a ++ b).
Proof.
  intros neg a b NE F. destruct neg.
  - cbn [app]. unfold split_sign. change (45 =? 45) with true. reflexivity.
  - cbn [app]. destruct a as [|c r]; [congruence|]. inversion F; subst. cbn [app]. apply split_sign_digit. assumption.
Qed.

Lemma nullb_false : forall {A} (l : list A), l <> [] -> nullb l = false.
Proof. intros A l H. destruct l; [congruence|reflexivity]. Qed.

(* float(str(x)) == x on the decimals str() prints *)
Theorem parse_show_dec : forall d, dec_ok d -> parse_dec (show_dec d) = Some d.
Proof.
  intros d OK. pose proof OK as [H1 [H2 H3]].
  unfold parse_dec. rewrite strip_nospace by (apply show_dec_nospace, OK).
  pose proof (show_nat_digits (d_int d) H1) as FD.
  pose proof (show_nat_nonempty (d_int d)) as NE.
  pose proof (map_dchar_digits _ H2) as FF.
  assert (SS : split_sign (show_dec d) = (d_neg d, show_nat (d_int d) ++ 46 :: map dchar (d_frac d))).
  { unfold show_dec. apply split_sign_body2; assumption. }
  rewrite SS.
  rewrite split_on_app_sep by (apply digits_no; [exact FD|lia]).
  rewrite split_on_nosep by (apply digits_no; [exact FF|lia]).
  rewrite (all_digits_Forall _ FD), (all_digits_Forall _ FF).
  rewrite (nullb_false _ NE). cbn [andb negb].
  rewrite dval_dvalue, show_nat_value by exact H1.
  rewrite map_undchar, H3. destruct d; reflexivity.
Qed.

(* ------------------------------------------------------------------ *)
(* '{:.nf}' *)
Lemma pow10_pos : forall n, 0 < pow10 n.
Proof. intros n. unfold pow10. apply Z.pow_pos_nonneg; lia. Qed.

Lemma Qfloor_nonneg : forall y, (0 <= y)%Q -> 0 <= Qfloor y.
Proof. intros y H. change 0 with (Qfloor 0). apply Qfloor_resp_le. exact H. Qed.

Lemma rhe_nonneg : forall y, (0 <= y)%Q -> 0 <= rhe y.
Proof.
  intros y H. unfold rhe. pose proof (Qfloor_nonneg y H).
  destruct (Qcompare (y - inject_Z (Qfloor y)) (1 # 2)); [destruct (Z.even (Qfloor y))|..]; lia.
Qed.

(* round-half-even moves a number by at most one half *)
Lemma rhe_err : forall y, (- (1 # 2) <= y - inject_Z (rhe y) /\ y - inject_Z (rhe y) <= 1 # 2)%Q.
Proof.
  intros y. unfold rhe.
  pose proof (Qfloor_le y) as L. pose proof (Qlt_floor y) as U.
  rewrite inject_Z_plus in U. change (inject_Z 1) with 1%Q in U.
  set (f := Qfloor y) in *.
  destruct (Qcompare_spec (y - inject_Z f) (1 # 2)) as [E|E|E].
  - destruct (Z.even f).
    + split; lra.
    + rewrite inject_Z_plus. change (inject_Z 1) with 1%Q. split; lra.
  - split; lra.
  - rewrite inject_Z_plus. change (inject_Z 1) with 1%Q. split; lra.
Qed.

Lemma scaled_nonneg : forall n x, 0 <= scaled n x.
Proof.
  intros n x. unfold scaled. apply rhe_nonneg.
  apply Qmult_le_0_compat; [apply Qabs_nonneg|].
  change 0%Q with (inject_Z 0). rewrite <- Zle_Qle. pose proof (pow10_pos n). lia.
Qed.

Lemma dvalue_zeros : forall j a, dvalue (repeat 48 j) a = a * 10 ^ Z.of_nat j.
Proof.
  induction j as [|j IH]; intros a.
  - cbn [repeat]. unfold dvalue. cbn [fold_left]. change (Z.of_nat 0) with 0. rewrite Z.pow_0_r. lia.
  - cbn [repeat]. unfold dvalue in *. cbn [fold_left]. rewrite IH. unfold dstep.
    rewrite Nat2Z.inj_succ, Z.pow_succ_r by lia. lia.
Qed.

Lemma dvalue_pad0 : forall m s, dvalue (pad0 m s) 0 = dvalue s 0.
Proof.
  intros m s. unfold pad0, dvalue. rewrite fold_left_app.
  fold (dvalue (repeat 48 (m - length s)) 0). rewrite dvalue_zeros. reflexivity.
Qed.

Lemma pad0_digits : forall m s, Forall (fun c => is_digit c = true) s -> Forall (fun c => is_digit c = true) (pad0 m s).
Proof.
  intros m s F. unfold pad0. apply Forall_app. split; [|exact F].
  apply Forall_forall. intros c I. apply repeat_spec in I. subst. reflexivity.
Qed.

Lemma pad0_length : forall m s, (m <= length (pad0 m s))%nat.
Proof. intros m s. unfold pad0. rewrite app_length, repeat_length. lia. Qed.

Lemma Forall_firstn : forall {A} (P : A -> Prop) n l, Forall P l -> Forall P (firstn n l).
Proof.
  intros A P. induction n as [|n IH]; intros l F; [constructor|].
  destruct l as [|x l]; [constructor|]. inversion F; subst. cbn [firstn]. constructor; auto.
Qed.

Lemma Forall_skipn : forall {A} (P : A -> Prop) n l, Forall P l -> Forall P (skipn n l).
Proof.
  intros A P. induction n as [|n IH]; intros l F; [exact F|].
  destruct l as [|x l]; [constructor|]. inversion F; subst. cbn [skipn]. auto.
Qed.

(* float('{:.nf}'.format(x)) is the decimal rounding of x to n places *)
Theorem parse_show_fixed : forall n x, parse_decQ (show_fixed n x) = Some (rn n x).
Proof.
  intros n x. unfold show_fixed.
  remember (pad0 (S n) (show_nat (scaled n x))) as ds eqn:Hds.
  pose proof (scaled_nonneg n x) as K.
  assert (FD : Forall (fun c => is_digit c = true) ds) by (rewrite Hds; apply pad0_digits, show_nat_digits, K).
  pose proof (pad0_length (S n) (show_nat (scaled n x))) as LEN. rewrite <- Hds in LEN.
  remember (length ds - n)%nat as ip eqn:Hip.
  assert (FA : Forall (fun c => is_digit c = true) (firstn ip ds)) by (apply Forall_firstn, FD).
  assert (FB : Forall (fun c => is_digit c = true) (skipn ip ds)) by (apply Forall_skipn, FD).
  assert (NA : firstn ip ds <> []).
  { intros E. apply (f_equal (@length Z)) in E. rewrite firstn_length in E. cbn [length] in E. lia. }
  assert (LB : length (skipn ip ds) = n) by (rewrite skipn_length; lia).
  assert (NS : nospace ((if qneg x then [45] else []) ++ firstn ip ds ++ 46 :: skipn ip ds)).
  { apply nospace_app; [destruct (qneg x); reflexivity|].
    apply nospace_app; [apply digits_nospace, FA|]. apply nospace_cons; [reflexivity|apply digits_nospace, FB]. }
  unfold parse_decQ. rewrite strip_nospace by exact NS.
  rewrite split_sign_body2 by assumption.
  rewrite split_on_app_sep by (apply digits_no; [exact FA|lia]).
  rewrite split_on_nosep by (apply digits_no; [exact FB|lia]).
  rewrite (all_digits_Forall _ FA), (all_digits_Forall _ FB).
  rewrite (nullb_false _ NA). cbn [andb negb].
  rewrite firstn_skipn, LB.
  rewrite dval_dvalue, Hds, dvalue_pad0, show_nat_value by exact K.
  reflexivity.
Qed.

Lemma Qmake_mult : forall z p, (Qmake z p == inject_Z z * (1 # p))%Q.
Proof. intros z p. unfold Qeq, Qmult, inject_Z. cbn [Qnum Qden]. lia. Qed.

Lemma qneg_lt : forall x, qneg x = true -> (x < 0)%Q.
Proof. intros x H. unfold qneg in H. unfold Qlt. cbn [Qnum Qden]. lia. Qed.
Lemma qneg_ge : forall x, qneg x = false -> (0 <= x)%Q.
Proof. intros x H. unfold qneg in H. unfold Qle. cbn [Qnum Qden]. lia. Qed.

(* rounding to four / two decimals moves a number by at most half a unit of the last place *)
Theorem r4_error : forall x, (Qabs (x - r4 x) <= 1 # 20000)%Q.
Proof.
  intros x. unfold r4, rn, scaled.
  change (Z.to_pos (pow10 4)) with 10000%positive. change (pow10 4) with 10000.
  destruct (rhe_err (Qabs x * inject_Z 10000)) as [L U].
  set (k := rhe (Qabs x * inject_Z 10000)) in *.
  rewrite Qmake_mult. apply Qabs_Qle_condition.
  destruct (qneg x) eqn:E.
  - apply qneg_lt in E. rewrite (Qabs_neg x) in L, U by lra.
    rewrite inject_Z_mult. change (inject_Z (-1)) with (-1)%Q. change (inject_Z 10000) with 10000%Q in *.
    split; lra.
  - apply qneg_ge in E. rewrite (Qabs_pos x) in L, U by lra.
    rewrite inject_Z_mult. change (inject_Z 1) with 1%Q. change (inject_Z 10000) with 10000%Q in *.
    split; lra.
Qed.

Theorem r2_error : forall x, (Qabs (x - r2 x) <= 1 # 200)%Q.
Proof.
  intros x. unfold r2, rn, scaled.
  change (Z.to_pos (pow10 2)) with 100%positive. change (pow10 2) with 100.
  destruct (rhe_err (Qabs x * inject_Z 100)) as [L U].
  set (k := rhe (Qabs x * inject_Z 100)) in *.
  rewrite Qmake_mult. apply Qabs_Qle_condition.
  destruct (qneg x) eqn:E.
  - apply qneg_lt in E. rewrite (Qabs_neg x) in L, U by lra.
    rewrite inject_Z_mult. change (inject_Z (-1)) with (-1)%Q. change (inject_Z 100) with 100%Q in *.
    split; lra.
  - apply qneg_ge in E. rewrite (Qabs_pos x) in L, U by lra.
    rewrite inject_Z_mult. change (inject_Z 1) with 1%Q. change (inject_Z 100) with 100%Q in *.
    split; lra.
Qed.
