(* C13 - lemmas about the string primitives: split / join / strip / integers / lines. *)
From Coq Require Import ZArith List Bool Lia.
From LV Require Import Wordlist.SerializeStr.
Import ListNotations.
Local Open Scope Z_scope.

(* ------------------------------------------------------------------ *)
(* str_eqb *)
Lemma str_eqb_refl : forall s, str_eqb s s = true.
Proof. induction s as [|c s IH]; cbn [str_eqb]; [reflexivity|]. rewrite Z.eqb_refl, IH. reflexivity. Qed.

Lemma str_eqb_eq : forall a b, str_eqb a b = true <-> a = b.
Proof.
  induction a as [|x a IH]; destruct b as [|y b]; cbn [str_eqb]; try (split; [discriminate|discriminate]).
  - split; reflexivity.
  - rewrite andb_true_iff, Z.eqb_eq, IH. split.
    + intros [-> ->]. reflexivity.
    + intros E. inversion E. auto.
Qed.

Lemma str_leb_refl : forall s, str_leb s s = true.
Proof.
  induction s as [|c s IH]; cbn [str_leb]; [reflexivity|].
  rewrite Z.ltb_irrefl. exact IH.
Qed.

Lemma mem_str_In : forall s l, mem_str s l = true <-> In s l.
Proof.
  intros s. induction l as [|x r IH]; cbn [mem_str In].
  - split; [discriminate|tauto].
  - rewrite orb_true_iff, IH, str_eqb_eq. split; intros [H|H]; auto.
Qed.

(* ------------------------------------------------------------------ *)
(* split_on / join *)
Lemma split_on_nosep : forall sep x, ~ In sep x -> split_on sep x = [x].
Proof.
  intros sep. induction x as [|c x IH]; intros H; cbn [split_on]; [reflexivity|].
  destruct (c =? sep) eqn:E.
  - apply Z.eqb_eq in E. exfalso. apply H. left. exact E.
  - rewrite IH; [reflexivity|]. intros I. apply H. right. exact I.
Qed.

Lemma split_on_app_sep : forall sep x r, ~ In sep x -> split_on sep (x ++ sep :: r) = x :: split_on sep r.
Proof.
  intros sep. induction x as [|c x IH]; intros r H.
  - cbn [app split_on]. rewrite Z.eqb_refl. reflexivity.
  - cbn [app split_on]. destruct (c =? sep) eqn:E.
    + apply Z.eqb_eq in E. exfalso. apply H. left. exact E.
    + rewrite IH; [reflexivity|]. intros I. apply H. right. exact I.
Qed.

Lemma join_cons2 : forall sep x y r, join sep (x :: y :: r) = x ++ sep ++ join sep (y :: r).
Proof. reflexivity. Qed.

(* sep.join(xs).split(sep) == xs for a non-empty list of sep-free items *)
Theorem split_join : forall sep xs, xs <> [] -> Forall (fun x => ~ In sep x) xs ->
  split_on sep (join [sep] xs) = xs.
Proof.
  intros sep. induction xs as [|x r IH]; intros NE F; [congruence|].
  inversion F as [|? ? Hx Hr]; subst.
  destruct r as [|y r'].
  - cbn [join]. apply split_on_nosep. exact Hx.
  - rewrite join_cons2. change ([sep] ++ join [sep] (y :: r')) with (sep :: join [sep] (y :: r')).
    rewrite split_on_app_sep by exact Hx.
    rewrite IH; [reflexivity|discriminate|exact Hr].
Qed.

Lemma split_on_nonempty : forall sep s, split_on sep s <> [].
Proof.
  intros sep. induction s as [|c s IH]; cbn [split_on]; [discriminate|].
  destruct (c =? sep); [discriminate|]. destruct (split_on sep s); discriminate.
Qed.

(* ------------------------------------------------------------------ *)
(* strip *)
Lemma lstrip_nonspace : forall c r, is_space c = false -> lstrip (c :: r) = c :: r.
Proof. intros c r H. cbn [lstrip]. rewrite H. reflexivity. Qed.

Theorem strip_stripped : forall s, strippedb s = true -> strip s = s.
Proof.
  intros s H. destruct s as [|c r]; [reflexivity|].
  unfold strippedb in H. apply andb_true_iff in H. destruct H as [H1 H2].
  apply negb_true_iff in H1. apply negb_true_iff in H2.
  unfold strip. rewrite lstrip_nonspace by exact H1.
  unfold rstrip.
  destruct (@exists_last _ (c :: r)) as [s' [x E]]; [discriminate|].
  rewrite E in *. rewrite last_last in H2. rewrite rev_app_distr. cbn [rev app].
  rewrite lstrip_nonspace by exact H2. cbn [rev]. rewrite rev_involutive. reflexivity.
Qed.

Lemma strippedb_nospace : forall s, forallb (fun c => negb (is_space c)) s = true -> strippedb s = true.
Proof.
  intros s H. destruct s as [|c r]; [reflexivity|].
  unfold strippedb. rewrite forallb_forall in H.
  rewrite (H c) by (left; reflexivity). cbn [andb].
  apply H. destruct (@exists_last _ (c :: r)) as [s' [x E]]; [discriminate|].
  rewrite E. rewrite last_last. apply in_or_app. right. left. reflexivity.
Qed.

Lemma strip_nospace : forall s, forallb (fun c => negb (is_space c)) s = true -> strip s = s.
Proof. intros s H. apply strip_stripped, strippedb_nospace, H. Qed.

(* ------------------------------------------------------------------ *)
(* split_ws *)
Definition nospace (s : str) : Prop := forallb (fun c => negb (is_space c)) s = true.

Lemma words_aux_word : forall w rest, nospace w ->
  words_aux (w ++ rest) = (w ++ fst (words_aux rest), snd (words_aux rest)).
Proof.
  induction w as [|c w IH]; intros rest H.
  - cbn [app]. destruct (words_aux rest); reflexivity.
  - unfold nospace in H. cbn [forallb] in H. apply andb_true_iff in H. destruct H as [Hc Hw].
    apply negb_true_iff in Hc.
    cbn [app words_aux]. rewrite (IH rest Hw). rewrite Hc. reflexivity.
Qed.

Definition item_ok (s : str) : Prop := s <> [] /\ nospace s.

(* ' '.join(xs).split() == xs for non-empty blank-free items *)
Theorem split_ws_join : forall xs, Forall item_ok xs -> split_ws (join [32] xs) = xs.
Proof.
  induction xs as [|x r IH]; intros F; [reflexivity|].
  inversion F as [|? ? [Hne Hns] Hr]; subst.
  destruct r as [|y r'].
  - cbn [join]. unfold split_ws. rewrite <- (app_nil_r x) at 1. rewrite words_aux_word by exact Hns.
    cbn [words_aux fst snd]. rewrite app_nil_r. destruct x; [congruence|reflexivity].
  - rewrite join_cons2. specialize (IH Hr). unfold split_ws in *.
    rewrite words_aux_word by exact Hns.
    cbn [app words_aux].
    change (is_space 32) with true. cbv iota.
    destruct (words_aux (join [32] (y :: r'))) as [w ws] eqn:E.
    cbn [fst snd]. rewrite app_nil_r.
    destruct x as [|c x']; [congruence|].
    rewrite IH. reflexivity.
Qed.

(* ------------------------------------------------------------------ *)
(* integers *)
Definition dstep (a c : Z) : Z := a * 10 + (c - 48).
Definition dvalue (s : str) (a : Z) : Z := fold_left dstep s a.

Lemma dvalue_snoc : forall s c a, dvalue (s ++ [c]) a = dvalue s a * 10 + (c - 48).
Proof. intros. unfold dvalue. rewrite fold_left_app. reflexivity. Qed.

Lemma digs_value : forall f n, 0 <= n < 10 ^ Z.of_nat f -> dvalue (digs f n) 0 = n.
Proof.
  induction f as [|f IH]; intros n H.
  - change (Z.of_nat 0) with 0 in H. rewrite Z.pow_0_r in H.
    unfold digs, dvalue. cbn [fold_left]. lia.
  - cbn [digs]. destruct (n <? 10) eqn:E.
    + unfold dvalue, dstep. cbn [fold_left]. lia.
    + apply Z.ltb_ge in E. rewrite dvalue_snoc. rewrite IH.
      * pose proof (Z.div_mod n 10 ltac:(lia)). lia.
      * rewrite Nat2Z.inj_succ, Z.pow_succ_r in H by lia.
        split; [apply Z.div_pos; lia|]. apply Z.div_lt_upper_bound; lia.
Qed.

Lemma digs_digits : forall f n, 0 <= n -> Forall (fun c => is_digit c = true) (digs f n).
Proof.
  induction f as [|f IH]; intros n H; cbn [digs]; [constructor|].
  destruct (n <? 10) eqn:E.
  - apply Z.ltb_lt in E. constructor; [|constructor]. unfold is_digit. lia.
  - apply Z.ltb_ge in E. apply Forall_app. split.
    + apply IH. apply Z.div_pos; lia.
    + constructor; [|constructor]. pose proof (Z.mod_pos_bound n 10 ltac:(lia)). unfold is_digit. lia.
Qed.

Lemma digs_nonempty : forall f n, digs (S f) n <> [].
Proof.
  intros f n. cbn [digs]. destruct (n <? 10); [discriminate|].
  intros E. apply app_eq_nil in E. destruct E as [_ E]. discriminate.
Qed.

Lemma show_nat_fuel : forall n, 0 <= n -> n < 10 ^ Z.of_nat (S (Z.to_nat (Z.log2 n))).
Proof.
  intros n H. rewrite Nat2Z.inj_succ, Z2Nat.id by apply Z.log2_nonneg.
  destruct (Z.eq_dec n 0) as [->|NZ].
  - cbn. lia.
  - pose proof (Z.log2_spec n ltac:(lia)) as [_ L].
    eapply Z.lt_le_trans; [exact L|].
    apply Z.pow_le_mono_l. pose proof (Z.log2_nonneg n). lia.
Qed.

Lemma show_nat_value : forall n, 0 <= n -> dvalue (show_nat n) 0 = n.
Proof. intros n H. unfold show_nat. apply digs_value. split; [exact H|apply show_nat_fuel, H]. Qed.

Lemma show_nat_digits : forall n, 0 <= n -> Forall (fun c => is_digit c = true) (show_nat n).
Proof. intros. apply digs_digits. assumption. Qed.

Lemma show_nat_nonempty : forall n, show_nat n <> [].
Proof. intros. apply digs_nonempty. Qed.

Lemma ubody_digits : forall s prev acc, Forall (fun c => is_digit c = true) s -> (s <> [] \/ prev = true) ->
  ubody prev acc s = Some (dvalue s acc).
Proof.
  induction s as [|c s IH]; intros prev acc F H.
  - destruct H as [H|H]; [congruence|]. subst. reflexivity.
  - inversion F as [|? ? Hc Hs]; subst. cbn [ubody]. rewrite Hc.
    rewrite IH; [reflexivity|exact Hs|right; reflexivity].
Qed.

Lemma digit_not_space : forall c, is_digit c = true -> is_space c = false.
Proof. intros c H. unfold is_digit in H. unfold is_space. lia. Qed.

Lemma show_int_nospace : forall z, nospace (show_int z).
Proof.
  intros z. unfold nospace, show_int. apply forallb_forall. intros c Hc.
  destruct (z <? 0) eqn:E.
  - destruct Hc as [<-|Hc]; [reflexivity|].
    apply Z.ltb_lt in E.
    pose proof (show_nat_digits (- z) ltac:(lia)) as F. rewrite Forall_forall in F.
    rewrite (digit_not_space c (F c Hc)). reflexivity.
  - apply Z.ltb_ge in E.
    pose proof (show_nat_digits z E) as F. rewrite Forall_forall in F.
    rewrite (digit_not_space c (F c Hc)). reflexivity.
Qed.

Lemma show_int_nonempty : forall z, show_int z <> [].
Proof.
  intros z. unfold show_int. destruct (z <? 0); [discriminate|apply show_nat_nonempty].
Qed.

(* int(str(z)) == z *)
Theorem parse_show_int : forall z, parse_int (show_int z) = Some z.
Proof.
  intros z. unfold parse_int. rewrite strip_nospace by apply show_int_nospace.
  unfold show_int. destruct (z <? 0) eqn:E.
  - apply Z.ltb_lt in E. change (45 =? 45) with true. cbv iota.
    rewrite ubody_digits.
    + rewrite show_nat_value by lia. cbn [option_map]. f_equal. lia.
    + apply show_nat_digits. lia.
    + left. apply show_nat_nonempty.
  - apply Z.ltb_ge in E.
    pose proof (show_nat_digits z E) as F. pose proof (show_nat_nonempty z) as NE.
    destruct (show_nat z) as [|c r] eqn:S; [congruence|].
    inversion F as [|? ? Hc Hr]; subst.
    assert (c =? 45 = false) as -> by (unfold is_digit in Hc; lia).
    assert (c =? 43 = false) as -> by (unfold is_digit in Hc; lia).
    rewrite ubody_digits; [|exact F|left; discriminate].
    rewrite <- S. rewrite show_nat_value by exact E. reflexivity.
Qed.

(* the characters of str(z): digits and '-' *)
Lemma show_int_chars : forall z c, In c (show_int z) -> c = 45 \/ is_digit c = true.
Proof.
  intros z c H. unfold show_int in H. destruct (z <? 0) eqn:E.
  - destruct H as [<-|H]; [left; reflexivity|]. right.
    apply Z.ltb_lt in E. pose proof (show_nat_digits (- z) ltac:(lia)) as F.
    rewrite Forall_forall in F. apply F, H.
  - right. apply Z.ltb_ge in E. pose proof (show_nat_digits z E) as F.
    rewrite Forall_forall in F. apply F, H.
Qed.

(* ------------------------------------------------------------------ *)
(* lines *)
Lemma split_unlines : forall ls, Forall (fun l => ~ In 10 l) ls -> split_on 10 (unlines ls) = ls ++ [[]].
Proof.
  induction ls as [|l r IH]; intros F; [reflexivity|].
  inversion F as [|? ? Hl Hr]; subst.
  unfold unlines. cbn [map concat]. rewrite <- app_assoc. cbn [app].
  rewrite split_on_app_sep by exact Hl. fold (unlines r). rewrite IH by exact Hr. reflexivity.
Qed.

(* reading the lines of a file that was written line by line gives the lines back *)
Theorem lines_unlines : forall ls, Forall (fun l => ~ In 10 l) ls -> lines_of (unlines ls) = ls.
Proof.
  intros ls F. unfold lines_of. rewrite split_unlines by exact F.
  rewrite rev_app_distr. cbn [rev app]. apply rev_involutive.
Qed.

(* ------------------------------------------------------------------ *)
(* case mapping *)
Lemma upc_space : forall c, is_space (upc c) = is_space c.
Proof.
  intros c. unfold upc. destruct ((97 <=? c) && (c <=? 122)) eqn:E; [|reflexivity].
  unfold is_space. lia.
Qed.

Lemma upc_eq_small : forall c x, x < 65 -> (upc c =? x) = (c =? x).
Proof.
  intros c x H. unfold upc. destruct ((97 <=? c) && (c <=? 122)) eqn:E; [|reflexivity]. lia.
Qed.
