(* Proofs about Rows.v: Python-dict association lists, the rows/cols sort. *)
From Coq Require Import ZArith List Bool String Ascii NArith Lia Sorted Permutation.
From LV Require Import Wordlist.Rows.
Import ListNotations.
Local Open Scope Z_scope.

(* --------------------------------------------------------------- dict *)
Section DictP.
  Context {K V : Type} (keqb : K -> K -> bool).
  Hypothesis keqb_spec : forall a b, keqb a b = true <-> a = b.

  Lemma keqb_refl a : keqb a a = true.
  Proof. apply keqb_spec. reflexivity. Qed.

  Lemma keqb_neq a b : a <> b -> keqb a b = false.
  Proof. intros N. destruct (keqb a b) eqn:E; [apply keqb_spec in E; contradiction|reflexivity]. Qed.

  Lemma dget_dset_same (m : list (K * V)) k v : dget keqb (dset keqb m k v) k = Some v.
  Proof.
    induction m as [|[k' v'] t IH]; cbn [dset dget].
    - rewrite keqb_refl. reflexivity.
    - destruct (keqb k' k) eqn:E; cbn [dget]; rewrite E; [reflexivity|exact IH].
  Qed.

  Lemma dget_dset_other (m : list (K * V)) k v k2 : k <> k2 -> dget keqb (dset keqb m k v) k2 = dget keqb m k2.
  Proof.
    intros N. induction m as [|[k' v'] t IH]; cbn [dset dget].
    - rewrite (keqb_neq _ _ N). reflexivity.
    - destruct (keqb k' k) eqn:E; cbn [dget].
      + apply keqb_spec in E. subst k'. rewrite (keqb_neq _ _ N). reflexivity.
      + destruct (keqb k' k2); [reflexivity|exact IH].
  Qed.

  Lemma dget_In (m : list (K * V)) k v : dget keqb m k = Some v -> In (k, v) m.
  Proof.
    induction m as [|[k' v'] t IH]; cbn [dget]; [discriminate|].
    destruct (keqb k' k) eqn:E.
    - apply keqb_spec in E. subst k'. intros H. inversion H. left. reflexivity.
    - intros H. right. exact (IH H).
  Qed.

  Lemma dget_None_notin (m : list (K * V)) k : dget keqb m k = None -> ~ In k (map fst m).
  Proof.
    induction m as [|[k' v'] t IH]; cbn [dget map fst]; [intros _ []|].
    destruct (keqb k' k) eqn:E; [discriminate|].
    intros H [H1|H1]; [subst k'; rewrite keqb_refl in E; discriminate|exact (IH H H1)].
  Qed.

  Lemma In_dget_NoDup (m : list (K * V)) k v : NoDup (map fst m) -> In (k, v) m -> dget keqb m k = Some v.
  Proof.
    induction m as [|[k' v'] t IH]; cbn [dget map fst]; [intros _ []|].
    intros ND [H|H].
    - inversion H. subst. rewrite keqb_refl. reflexivity.
    - inversion ND as [|? ? Hn ND']. subst.
      destruct (keqb k' k) eqn:E.
      + apply keqb_spec in E. subst k'. exfalso. apply Hn. apply (in_map fst) in H. exact H.
      + exact (IH ND' H).
  Qed.

  Lemma dset_keys (m : list (K * V)) k v :
    map fst (dset keqb m k v) = if dmem keqb m k then map fst m else map fst m ++ [k].
  Proof.
    unfold dmem. induction m as [|[k' v'] t IH]; cbn [dset dget map fst]; [reflexivity|].
    destruct (keqb k' k) eqn:E; cbn [map fst]; [reflexivity|].
    rewrite IH. destruct (dget keqb t k); reflexivity.
  Qed.

  Lemma dset_NoDup (m : list (K * V)) k v : NoDup (map fst m) -> NoDup (map fst (dset keqb m k v)).
  Proof.
    intros ND. rewrite dset_keys. unfold dmem. destruct (dget keqb m k) eqn:E; [exact ND|].
    apply dget_None_notin in E.
    apply NoDup_rev in ND. rewrite <- (rev_involutive (map fst m ++ [k])). apply NoDup_rev.
    rewrite rev_app_distr. cbn [rev app]. constructor; [rewrite <- in_rev; exact E|exact ND].
  Qed.
End DictP.

Lemma Zeqb_spec a b : (a =? b) = true <-> a = b.
Proof. apply Z.eqb_eq. Qed.
Lemma Seqb_spec a b : String.eqb a b = true <-> a = b.
Proof. apply String.eqb_eq. Qed.

(* --------------------------------------------------------------- usort *)
Definition key_inj (K : keys) (l : list Z) : Prop :=
  forall x y, In x l -> In y l -> lowk K x = lowk K y -> rawk K x = rawk K y -> x = y.

Definition kltP (K : keys) (x y : Z) : Prop := klt K x y = true.

Lemma klt_spec K x y :
  klt K x y = true <-> (lowk K x < lowk K y \/ (lowk K x = lowk K y /\ rawk K x < rawk K y)).
Proof.
  unfold klt. rewrite orb_true_iff, andb_true_iff, !Z.ltb_lt, Z.eqb_eq. tauto.
Qed.

Lemma klt_trans K x y z : kltP K x y -> kltP K y z -> kltP K x z.
Proof. unfold kltP. rewrite !klt_spec. lia. Qed.

Lemma klt_irrefl K x : ~ kltP K x x.
Proof. unfold kltP. rewrite klt_spec. lia. Qed.

Lemma kinsert_In K x l y : In y (kinsert K x l) <-> y = x \/ In y l.
Proof.
  induction l as [|z t IH]; cbn [kinsert In].
  - split; [intros [H|[]]; left; auto|intros [H|[]]; left; auto].
  - destruct (x =? z) eqn:E.
    + apply Z.eqb_eq in E. subst z. cbn [In]. split; [intros H; right; exact H|intros [H|H]; [left; auto|exact H]].
    + destruct (klt K x z); cbn [In]; [|rewrite IH]; split; intros H; intuition auto.
  Qed.

Lemma usort_In K l x : In x (usort K l) <-> In x l.
Proof.
  induction l as [|y t IH]; cbn [usort fold_right In]; [tauto|].
  fold (usort K t). rewrite kinsert_In, IH. split; intros [H|H]; auto.
Qed.

(* strict sortedness is stated with StronglySorted (every earlier element is
   smaller than every later one) *)
Lemma kinsert_sorted K x l :
  (forall y, In y l -> y <> x -> kltP K x y \/ kltP K y x) ->
  StronglySorted (kltP K) l -> StronglySorted (kltP K) (kinsert K x l).
Proof.
  intros T S. induction S as [|z t St IH Hz]; cbn [kinsert].
  - constructor; [constructor|constructor].
  - destruct (x =? z) eqn:E; [constructor; assumption|].
    apply Z.eqb_neq in E.
    destruct (klt K x z) eqn:L.
    + constructor; [constructor; assumption|].
      constructor; [exact L|]. rewrite Forall_forall in *. intros y Hy.
      exact (klt_trans K x z y L (Hz y Hy)).
    + constructor.
      * apply IH. intros y Hy. apply T. right. exact Hy.
      * rewrite Forall_forall in *. intros y Hy. apply kinsert_In in Hy. destruct Hy as [->|Hy]; [|exact (Hz y Hy)].
        destruct (T z (or_introl eq_refl) (fun H => E (eq_sym H))) as [H|H]; [unfold kltP in H; congruence|exact H].
Qed.

Lemma key_inj_total K l x y : key_inj K l -> In x l -> In y l -> y <> x -> kltP K x y \/ kltP K y x.
Proof.
  intros I Hx Hy N. unfold kltP. rewrite !klt_spec.
  destruct (Z.lt_trichotomy (lowk K x) (lowk K y)) as [H|[H|H]]; [lia| |lia].
  destruct (Z.lt_trichotomy (rawk K x) (rawk K y)) as [H2|[H2|H2]]; [lia| |lia].
  exfalso. apply N. symmetry. exact (I x y Hx Hy H H2).
Qed.

Lemma usort_sorted K l : key_inj K l -> StronglySorted (kltP K) (usort K l).
Proof.
  induction l as [|x t IH]; intros I; cbn [usort fold_right]; [constructor|].
  fold (usort K t). apply kinsert_sorted.
  - intros y Hy N. apply usort_In in Hy. apply (key_inj_total K (x :: t)); [exact I|left; reflexivity|right; exact Hy|exact N].
  - apply IH. intros a b Ha Hb. apply I; right; assumption.
Qed.

Lemma sorted_NoDup K l : StronglySorted (kltP K) l -> NoDup l.
Proof.
  induction 1 as [|x t S IH Hx]; constructor; [|exact IH].
  intros Hin. rewrite Forall_forall in Hx. exact (klt_irrefl K x (Hx x Hin)).
Qed.

Lemma usort_NoDup K l : key_inj K l -> NoDup (usort K l).
Proof. intros I. exact (sorted_NoDup K _ (usort_sorted K l I)). Qed.

(* two strictly sorted lists with the same elements are equal: the result of
   the sort does not depend on the enumeration order of the Python set *)
Lemma sorted_unique K l1 l2 :
  StronglySorted (kltP K) l1 -> StronglySorted (kltP K) l2 -> (forall x, In x l1 <-> In x l2) -> l1 = l2.
Proof.
  intros S1. revert l2. induction S1 as [|x t S IH Hx]; intros l2 S2 E.
  - destruct l2 as [|y t2]; [reflexivity|]. exfalso. apply (proj2 (E y)). left. reflexivity.
  - destruct S2 as [|y t2 S2 Hy]; [exfalso; apply (proj1 (E x)); left; reflexivity|].
    rewrite Forall_forall in Hx, Hy.
    assert (x = y) as ->.
    { destruct (proj1 (E x) (or_introl eq_refl)) as [H|H]; [auto|].
      destruct (proj2 (E y) (or_introl eq_refl)) as [H2|H2]; [auto|].
      exfalso. exact (klt_irrefl K x (klt_trans K x y x (Hx y H2) (Hy x H))). }
    f_equal. apply IH; [exact S2|].
    intros z. split; intros Hz.
    + destruct (proj1 (E z) (or_intror Hz)) as [H|H]; [|exact H].
      subst z. exfalso. exact (klt_irrefl K y (Hx y Hz)).
    + destruct (proj2 (E z) (or_intror Hz)) as [H|H]; [|exact H].
      subst z. exfalso. exact (klt_irrefl K y (Hy y Hz)).
Qed.

Lemma usort_unique K l1 l2 : key_inj K l1 -> (forall x, In x l1 <-> In x l2) -> usort K l1 = usort K l2.
Proof.
  intros I E. apply (sorted_unique K).
  - apply usort_sorted. exact I.
  - apply usort_sorted. intros x y Hx Hy. apply I; apply E; assumption.
  - intros x. rewrite !usort_In. apply E.
Qed.

(* case-insensitive alphabetical order: the folded keys never decrease *)
Lemma sorted_lowk K l : StronglySorted (kltP K) l -> StronglySorted (fun x y => lowk K x <= lowk K y) l.
Proof.
  induction 1 as [|x t S IH Hx]; constructor; [exact IH|].
  rewrite Forall_forall in *. intros y Hy. specialize (Hx y Hy). unfold kltP in Hx. rewrite klt_spec in Hx. lia.
Qed.

Lemma index_of_spec x l n : index_of x l = Some n -> nth_error l n = Some x.
Proof.
  revert n. induction l as [|y t IH]; cbn [index_of]; [discriminate|].
  intros n. destruct (y =? x) eqn:E.
  - apply Z.eqb_eq in E. subst y. intros H. inversion H. reflexivity.
  - destruct (index_of x t) as [m|]; cbn [option_map]; [|discriminate].
    intros H. inversion H. cbn [nth_error]. apply IH. reflexivity.
Qed.

Lemma index_of_In x l : In x l -> exists n, index_of x l = Some n.
Proof.
  induction l as [|y t IH]; [intros []|]. cbn [index_of].
  destruct (y =? x) eqn:E; [eexists; reflexivity|].
  intros [H|H]; [subst y; rewrite Z.eqb_refl in E; discriminate|].
  destruct (IH H) as [n Hn]. rewrite Hn. eexists. reflexivity.
Qed.

Lemma index_of_nth_NoDup l n x : NoDup l -> nth_error l n = Some x -> index_of x l = Some n.
Proof.
  revert n. induction l as [|y t IH]; intros n ND H; [destruct n; discriminate|].
  cbn [index_of]. destruct n as [|n]; cbn [nth_error] in H.
  - inversion H. subst. rewrite Z.eqb_refl. reflexivity.
  - inversion ND as [|? ? Hn ND']. subst. destruct (y =? x) eqn:E.
    + apply Z.eqb_eq in E. subst y. exfalso. apply Hn. eapply nth_error_In. exact H.
    + rewrite (IH n ND' H). reflexivity.
Qed.

Lemma zmem_In x l : zmem x l = true <-> In x l.
Proof.
  unfold zmem. rewrite existsb_exists. split.
  - intros [y [H E]]. apply Z.eqb_eq in E. subst. exact H.
  - intros H. exists x. split; [exact H|apply Z.eqb_refl].
Qed.

(* ======================================================== the name layer *)
(* ---- ASCII case mapping *)
Lemma lower_upper_ascii a : lower_ascii (upper_ascii a) = lower_ascii a.
Proof. destruct a as [[] [] [] [] [] [] [] []]; vm_compute; reflexivity. Qed.
Lemma upper_lower_ascii a : upper_ascii (lower_ascii a) = upper_ascii a.
Proof. destruct a as [[] [] [] [] [] [] [] []]; vm_compute; reflexivity. Qed.
Lemma lower_lower_ascii a : lower_ascii (lower_ascii a) = lower_ascii a.
Proof. destruct a as [[] [] [] [] [] [] [] []]; vm_compute; reflexivity. Qed.
Lemma upper_upper_ascii a : upper_ascii (upper_ascii a) = upper_ascii a.
Proof. destruct a as [[] [] [] [] [] [] [] []]; vm_compute; reflexivity. Qed.

Lemma smap_smap f g s : smap f (smap g s) = smap (fun a => f (g a)) s.
Proof. induction s as [|a t IH]; cbn [smap]; [reflexivity|]. rewrite IH. reflexivity. Qed.
Lemma smap_ext f g s : (forall a, f a = g a) -> smap f s = smap g s.
Proof. intros E. induction s as [|a t IH]; cbn [smap]; [reflexivity|]. rewrite E, IH. reflexivity. Qed.

Lemma lower_upper s : lower (upper s) = lower s.
Proof. unfold lower, upper. rewrite smap_smap. apply smap_ext. apply lower_upper_ascii. Qed.
Lemma upper_lower s : upper (lower s) = upper s.
Proof. unfold lower, upper. rewrite smap_smap. apply smap_ext. apply upper_lower_ascii. Qed.
Lemma lower_lower s : lower (lower s) = lower s.
Proof. unfold lower. rewrite smap_smap. apply smap_ext. apply lower_lower_ascii. Qed.
Lemma upper_upper s : upper (upper s) = upper s.
Proof. unfold upper. rewrite smap_smap. apply smap_ext. apply upper_upper_ascii. Qed.
Lemma smap_empty f s : smap f s = EmptyString -> s = EmptyString.
Proof. destruct s; cbn [smap]; [reflexivity|discriminate]. Qed.

(* ---- the finite obligations over a configuration table *)
Definition conf_reachable (t : conf) : Prop :=
  forall name als, In (name, als) t -> forall a, In a (name :: als) ->
    sget (read_conf t) (lower a) = Some name /\ sget (read_conf t) (upper a) = Some name.

Definition is_some_eq (o : option string) (s : string) : bool :=
  match o with Some x => String.eqb x s | None => false end.

Definition conf_reachableb (t : conf) : bool :=
  forallb (fun ln => forallb (fun a => is_some_eq (sget (read_conf t) (lower a)) (fst ln)
                                        && is_some_eq (sget (read_conf t) (upper a)) (fst ln))
                             (fst ln :: snd ln)) t.

Lemma is_some_eq_spec o s : is_some_eq o s = true -> o = Some s.
Proof. destruct o as [x|]; cbn; [|discriminate]. intros H. apply String.eqb_eq in H. subst. reflexivity. Qed.

Lemma conf_reachableb_spec t : conf_reachableb t = true -> conf_reachable t.
Proof.
  unfold conf_reachableb, conf_reachable. intros H name als Hin a Ha.
  rewrite forallb_forall in H. specialize (H _ Hin). cbn [fst snd] in H.
  rewrite forallb_forall in H. specialize (H a Ha). apply andb_true_iff in H. destruct H as [H1 H2].
  split; apply is_some_eq_spec; assumption.
Qed.

(* names are written in lower case and nothing in the table is empty *)
Definition conf_names_lower (t : conf) : Prop :=
  forall name als, In (name, als) t ->
    lower name = name /\ forall a, In a (name :: als) -> a <> EmptyString.
Definition conf_names_lowerb (t : conf) : bool :=
  forallb (fun ln => String.eqb (lower (fst ln)) (fst ln)
                     && forallb (fun a => negb (String.eqb a EmptyString)) (fst ln :: snd ln)) t.
Lemma conf_names_lowerb_spec t : conf_names_lowerb t = true -> conf_names_lower t.
Proof.
  unfold conf_names_lowerb, conf_names_lower. intros H name als Hin.
  rewrite forallb_forall in H. specialize (H _ Hin). cbn [fst snd] in H.
  apply andb_true_iff in H. destruct H as [H1 H2]. split; [apply String.eqb_eq; exact H1|].
  intros a Ha. rewrite forallb_forall in H2. specialize (H2 a Ha). apply negb_true_iff in H2.
  apply String.eqb_neq. exact H2.
Qed.

(* ---- sset-built maps have distinct keys *)
Lemma sset_NoDup {V} (m : list (string * V)) k v : NoDup (map fst m) -> NoDup (map fst (sset m k v)).
Proof. apply (dset_NoDup String.eqb Seqb_spec). Qed.

Lemma conf_line_NoDup m ln : NoDup (map fst m) -> NoDup (map fst (conf_line m ln)).
Proof.
  intros H. unfold conf_line.
  assert (H0 : NoDup (map fst (sset (sset m (lower (fst ln)) (fst ln)) (upper (fst ln)) (fst ln))))
    by (apply sset_NoDup, sset_NoDup; exact H).
  revert H0. generalize (sset (sset m (lower (fst ln)) (fst ln)) (upper (fst ln)) (fst ln)).
  induction (snd ln) as [|a t IH]; intros m0 H0; cbn [fold_left]; [exact H0|].
  apply IH. apply sset_NoDup, sset_NoDup. exact H0.
Qed.

Lemma read_conf_NoDup t : NoDup (map fst (read_conf t)).
Proof.
  unfold read_conf. assert (H : NoDup (map fst (@nil (string * string)))) by constructor.
  revert H. generalize (@nil (string * string)). induction t as [|ln t IH]; intros m H; cbn [fold_left]; [exact H|].
  apply IH. apply conf_line_NoDup. exact H.
Qed.

Lemma augment_NoDup m h : NoDup (map fst m) -> NoDup (map fst (augment m h)).
Proof.
  intros H. unfold augment.
  assert (H1 : NoDup (map fst (if smem m (lower h) then m else sset m (lower h) (lower h))))
    by (destruct (smem m (lower h)); [exact H|apply sset_NoDup; exact H]).
  destruct (smem (if smem m (lower h) then m else sset m (lower h) (lower h)) (upper h));
    [exact H1|apply sset_NoDup; exact H1].
Qed.

(* augment never changes an existing entry *)
Lemma sget_sset_same {V} (m : list (string * V)) k v : sget (sset m k v) k = Some v.
Proof. apply (dget_dset_same String.eqb Seqb_spec). Qed.
Lemma sget_sset_other {V} (m : list (string * V)) k v k2 : k <> k2 -> sget (sset m k v) k2 = sget m k2.
Proof. apply (dget_dset_other String.eqb Seqb_spec). Qed.

Lemma sset_absent_preserves {V} (m : list (string * V)) k v s x :
  smem m k = false -> sget m s = Some x -> sget (sset m k v) s = Some x.
Proof.
  intros A H. destruct (String.eqb k s) eqn:E.
  - apply String.eqb_eq in E. subst s. unfold smem, dmem in A. unfold sget in H. rewrite H in A. discriminate.
  - apply String.eqb_neq in E. rewrite (sget_sset_other m k v s E). exact H.
Qed.

Lemma augment_preserves m h s x : sget m s = Some x -> sget (augment m h) s = Some x.
Proof.
  intros H. unfold augment.
  assert (H1 : sget (if smem m (lower h) then m else sset m (lower h) (lower h)) s = Some x).
  { destruct (smem m (lower h)) eqn:E; [exact H|apply sset_absent_preserves; assumption]. }
  destruct (smem (if smem m (lower h) then m else sset m (lower h) (lower h)) (upper h)) eqn:E2;
    [exact H1|apply sset_absent_preserves; assumption].
Qed.

Lemma augment_all_preserves hdr : forall m s x, sget m s = Some x -> sget (fold_left augment hdr m) s = Some x.
Proof.
  induction hdr as [|h t IH]; intros m s x H; cbn [fold_left]; [exact H|]. apply IH. apply augment_preserves. exact H.
Qed.

Lemma augment_all_NoDup hdr : forall m, NoDup (map fst m) -> NoDup (map fst (fold_left augment hdr m)).
Proof.
  induction hdr as [|h t IH]; intros m H; cbn [fold_left]; [exact H|]. apply IH. apply augment_NoDup. exact H.
Qed.

(* ---- header = combine canon (0..) *)
Lemma sget_combine_seq (canon : list string) : forall a i c,
  NoDup canon -> nth_error canon i = Some c -> sget (combine canon (seq a (List.length canon))) c = Some (a + i)%nat.
Proof.
  unfold sget. induction canon as [|x t IH]; intros a i c ND H; [destruct i; discriminate|].
  cbn [List.length seq combine dget]. inversion ND as [|? ? Hn ND']. subst.
  destruct i as [|i]; cbn [nth_error] in H.
  - inversion H. subst. rewrite String.eqb_refl. f_equal. lia.
  - destruct (String.eqb x c) eqn:E.
    + apply String.eqb_eq in E. subst x. exfalso. apply Hn. eapply nth_error_In. exact H.
    + rewrite (IH (S a) i c ND' H). f_equal. lia.
Qed.

Lemma sNoDupb_spec l : sNoDupb l = true -> NoDup l.
Proof.
  induction l as [|x t IH]; cbn [sNoDupb]; intros H; [constructor|].
  apply andb_true_iff in H. destruct H as [H1 H2]. constructor; [|exact (IH H2)].
  intros Hin. apply negb_true_iff in H1. assert (E : existsb (String.eqb x) t = true).
  { apply existsb_exists. exists x. split; [exact Hin|apply String.eqb_refl]. }
  congruence.
Qed.

(* ---- the loop that copies header indices to every alias *)
Definition hstep (h : list (string * nat)) (ac : string * string) :=
  match sget h (snd ac) with Some i => sset h (fst ac) i | None => h end.

Lemma hdr_loop_no_key al : forall h s, ~ In s (map fst al) -> sget (fold_left hstep al h) s = sget h s.
Proof.
  induction al as [|[a c] t IH]; intros h s N; cbn [fold_left]; [reflexivity|].
  cbn [map fst In] in N. rewrite IH by tauto. unfold hstep. cbn [fst snd].
  destruct (sget h c); [|reflexivity]. apply sget_sset_other. tauto.
Qed.

Lemma hdr_loop_spec al c i s : forall h,
  NoDup (map fst al) ->
  (forall c', In (c, c') al -> c' = c) ->
  sget h c = Some i -> In (s, c) al ->
  sget (fold_left hstep al h) s = Some i.
Proof.
  induction al as [|[a c'] t IH]; intros h ND Idem Hc Hin; [destruct Hin|].
  cbn [fold_left map fst] in *. inversion ND as [|? ? Hn ND']. subst.
  assert (Hc' : sget (hstep h (a, c')) c = Some i).
  { unfold hstep. cbn [fst snd]. destruct (sget h c') as [i'|] eqn:E; [|exact Hc].
    destruct (String.eqb a c) eqn:Ea.
    - apply String.eqb_eq in Ea. subst a. rewrite (Idem c' (or_introl eq_refl)) in E.
      rewrite Hc in E. inversion E. subst i'. apply sget_sset_same.
    - apply String.eqb_neq in Ea. rewrite (sget_sset_other h a i' c Ea). exact Hc. }
  destruct Hin as [Hin|Hin].
  - inversion Hin. subst a c'. rewrite hdr_loop_no_key by exact Hn.
    unfold hstep. cbn [fst snd]. rewrite Hc. apply sget_sset_same.
  - apply IH; [exact ND'|intros c2 H2; apply Idem; right; exact H2|exact Hc'|exact Hin].
Qed.

Lemma sget_In {V} (m : list (string * V)) k v : sget m k = Some v -> In (k, v) m.
Proof. apply (dget_In String.eqb Seqb_spec). Qed.
Lemma In_sget {V} (m : list (string * V)) k v : NoDup (map fst m) -> In (k, v) m -> sget m k = Some v.
Proof. apply (In_dget_NoDup String.eqb Seqb_spec). Qed.

Lemma all_some_nth {A} (l : list (option A)) out i x :
  all_some l = Some out -> nth_error l i = Some (Some x) -> nth_error out i = Some x.
Proof.
  revert out i. induction l as [|o t IH]; intros out i H Hn; [destruct i; discriminate|].
  cbn [all_some] in H. destruct o as [y|]; [|discriminate].
  destruct (all_some t) as [ot|]; cbn [option_map] in H; [|discriminate]. inversion H. subst out.
  destruct i as [|i]; cbn [nth_error] in *; [inversion Hn; reflexivity|]. apply (IH ot i eq_refl Hn).
Qed.

Lemma all_some_length {A} (l : list (option A)) out : all_some l = Some out -> List.length out = List.length l.
Proof.
  revert out. induction l as [|o t IH]; intros out H; cbn [all_some] in H; [inversion H; reflexivity|].
  destruct o as [y|]; [|discriminate]. destruct (all_some t) as [ot|]; cbn [option_map] in H; [|discriminate].
  inversion H. cbn [List.length]. rewrite (IH ot eq_refl). reflexivity.
Qed.

(* alias_reachable, generic part: whatever spelling the alias table maps to the
   canonical name of header column i leads to column i, through wl[id, s]
   (alias + header) and through the entry= arguments (_header) *)
Theorem header_reachable t hdr n i h c s :
  init_names t hdr = Some n ->
  nth_error hdr i = Some h -> sget (n_alias n) h = Some c ->
  sget (n_alias n) s = Some c ->
  (forall c', sget (n_alias n) c = Some c' -> c' = c) ->
  resolve_item n s = Some i /\ resolve_hdr n s = Some i.
Proof.
  unfold init_names.
  set (alias := sset (fold_left augment hdr (read_conf t)) EmptyString EmptyString).
  destruct (all_some (map (sget alias) hdr)) as [canon|] eqn:Ec; [|discriminate].
  destruct (sNoDupb canon) eqn:End; [|discriminate].
  intros H. inversion H. subst n. clear H. cbn [n_alias n_header n_hdr].
  intros Hi Hh Hs Idem.
  assert (NDa : NoDup (map fst alias)).
  { unfold alias. apply sset_NoDup, augment_all_NoDup, read_conf_NoDup. }
  assert (NDc : NoDup canon) by (apply sNoDupb_spec; exact End).
  assert (Hci : nth_error canon i = Some c).
  { apply (all_some_nth _ _ _ _ Ec). rewrite nth_error_map, Hi. cbn [option_map]. rewrite Hh. reflexivity. }
  assert (Hhdr : sget (combine canon (seq 0 (List.length canon))) c = Some i).
  { rewrite (sget_combine_seq canon 0 i c NDc Hci). reflexivity. }
  split.
  - unfold resolve_item. cbn [n_alias n_header]. rewrite Hs. exact Hhdr.
  - unfold resolve_hdr. cbn [n_hdr]. unfold hdr_loop. change (fun h ac => _) with hstep.
    apply (hdr_loop_spec alias c i s); [exact NDa| |exact Hhdr|apply sget_In; exact Hs].
    intros c' Hin. apply Idem. apply In_sget; assumption.
Qed.

Lemma init_names_alias t hdr n : init_names t hdr = Some n ->
  n_alias n = sset (fold_left augment hdr (read_conf t)) EmptyString EmptyString.
Proof.
  unfold init_names.
  destruct (all_some (map (sget (sset (fold_left augment hdr (read_conf t)) EmptyString EmptyString)) hdr)); [|discriminate].
  destruct (sNoDupb l); [|discriminate]. intros H. inversion H. reflexivity.
Qed.

Lemma final_alias_preserves t hdr k x : k <> EmptyString -> sget (read_conf t) k = Some x ->
  sget (sset (fold_left augment hdr (read_conf t)) EmptyString EmptyString) k = Some x.
Proof.
  intros N H. rewrite sget_sset_other by congruence. apply augment_all_preserves. exact H.
Qed.

Lemma spelled_nonempty a s : a <> EmptyString -> s = lower a \/ s = upper a -> s <> EmptyString.
Proof. intros N [-> | ->] E; apply smap_empty in E; contradiction. Qed.

(* alias_reachable for a configuration table that passed the finite checks:
   a column whose header is a configured name or alias (all-lower or all-upper
   case) is reached by the name and by every alias, in lower and upper case *)
Theorem conf_header_reachable t hdr n :
  conf_reachable t -> conf_names_lower t -> init_names t hdr = Some n ->
  forall i h name als h0 a s,
    nth_error hdr i = Some h -> In (name, als) t ->
    In h0 (name :: als) -> h = lower h0 \/ h = upper h0 ->
    In a (name :: als) -> s = lower a \/ s = upper a ->
    resolve_item n s = Some i /\ resolve_hdr n s = Some i.
Proof.
  intros R NL Hn i h name als h0 a s Hi Hin Hh0 Hh Ha Hs.
  pose proof (init_names_alias t hdr n Hn) as Ea.
  destruct (NL name als Hin) as [Ln NE].
  assert (Look : forall b x, In b (name :: als) -> x = lower b \/ x = upper b -> sget (n_alias n) x = Some name).
  { intros b x Hb Hx. rewrite Ea. apply final_alias_preserves; [exact (spelled_nonempty b x (NE b Hb) Hx)|].
    destruct (R name als Hin b Hb) as [R1 R2]. destruct Hx as [-> | ->]; assumption. }
  apply (header_reachable t hdr n i h name s Hn Hi (Look h0 h Hh0 Hh) (Look a s Ha Hs)).
  intros c' Hc'. rewrite (Look name name (or_introl eq_refl) (or_introl (eq_sym Ln))) in Hc'. congruence.
Qed.

(* ---- header names that are not configured *)
Section Plain.
  Variable h : string.
  Local Notation L := (lower h).
  Local Notation U := (upper h).
  Definition plain_inv (m : list (string * string)) : Prop :=
    (sget m L = None \/ sget m L = Some L) /\ (sget m U = None \/ sget m U = Some L).
  Definition plain_both (m : list (string * string)) : Prop := sget m L = Some L /\ sget m U = Some L.

  Lemma smem_sget {V} (m : list (string * V)) k : smem m k = false <-> sget m k = None.
  Proof. unfold smem, dmem, sget. destruct (dget String.eqb m k); split; intros; congruence. Qed.

  Lemma plain_set m k v : plain_inv m -> sget m k = None -> (k = L -> v = L) -> (k = U -> v = L) -> plain_inv (sset m k v).
  Proof.
    intros [I1 I2] A H1 H2. split.
    - destruct (String.eqb k L) eqn:E.
      + apply String.eqb_eq in E. subst k. right. rewrite sget_sset_same. f_equal. auto.
      + apply String.eqb_neq in E. rewrite (sget_sset_other m k v L E). exact I1.
    - destruct (String.eqb k U) eqn:E.
      + apply String.eqb_eq in E. subst k. right. rewrite sget_sset_same. f_equal. auto.
      + apply String.eqb_neq in E. rewrite (sget_sset_other m k v U E). exact I2.
  Qed.

  Lemma plain_augment m x : plain_inv m -> plain_inv (augment m x).
  Proof.
    intros I. unfold augment.
    assert (I1 : plain_inv (if smem m (lower x) then m else sset m (lower x) (lower x))).
    { destruct (smem m (lower x)) eqn:E; [exact I|]. apply plain_set; [exact I|apply smem_sget; exact E| |].
      - intros H. exact H.
      - intros H. rewrite <- (lower_lower x), H, lower_upper. reflexivity. }
    destruct (smem (if smem m (lower x) then m else sset m (lower x) (lower x)) (upper x)) eqn:E2; [exact I1|].
    apply plain_set; [exact I1|apply smem_sget; exact E2| |].
    - intros H. rewrite <- (lower_upper x), H, lower_lower. reflexivity.
    - intros H. rewrite <- (lower_upper x), H, lower_upper. reflexivity.
  Qed.

  Lemma plain_augment_self m : plain_inv m -> plain_both (augment m h).
  Proof.
    intros I. pose proof (plain_augment m h I) as [J1 J2]. unfold augment in *.
    assert (P1 : sget (if smem m L then m else sset m L L) L <> None).
    { destruct (smem m L) eqn:E; [intros H; apply smem_sget in H; congruence|rewrite sget_sset_same; discriminate]. }
    set (m1 := if smem m L then m else sset m L L) in *.
    assert (P2 : sget (if smem m1 U then m1 else sset m1 U L) U <> None).
    { destruct (smem m1 U) eqn:E; [intros H; apply smem_sget in H; congruence|rewrite sget_sset_same; discriminate]. }
    assert (P1' : sget (if smem m1 U then m1 else sset m1 U L) L <> None).
    { destruct (smem m1 U) eqn:E; [exact P1|].
      destruct (String.eqb U L) eqn:E2.
      - apply String.eqb_eq in E2. rewrite E2. rewrite sget_sset_same. discriminate.
      - apply String.eqb_neq in E2. rewrite (sget_sset_other m1 U L L E2). exact P1. }
    split; [destruct J1 as [J1|J1]; [contradiction|exact J1]|destruct J2 as [J2|J2]; [contradiction|exact J2]].
  Qed.

  Lemma plain_all hdr : forall m, plain_inv m -> (In h hdr \/ plain_both m) -> plain_both (fold_left augment hdr m).
  Proof.
    induction hdr as [|x t IH]; intros m I H; cbn [fold_left].
    - destruct H as [[]|H]. exact H.
    - apply IH; [apply plain_augment; exact I|].
      destruct H as [[->|H]|[B1 B2]].
      + right. apply plain_augment_self. exact I.
      + left. exact H.
      + right. split; apply augment_preserves; assumption.
  Qed.
End Plain.

(* the generic rule: a header name without configuration is reached by its
   lower-case and its upper-case spelling *)
Theorem plain_header_reachable t hdr n i h s :
  init_names t hdr = Some n -> nth_error hdr i = Some h ->
  h = lower h \/ h = upper h -> h <> EmptyString ->
  smem (read_conf t) (lower h) = false -> smem (read_conf t) (upper h) = false ->
  s = lower h \/ s = upper h ->
  resolve_item n s = Some i /\ resolve_hdr n s = Some i.
Proof.
  intros Hn Hi Hh NE A1 A2 Hs.
  pose proof (init_names_alias t hdr n Hn) as Ea.
  assert (B : plain_both h (fold_left augment hdr (read_conf t))).
  { apply plain_all; [split; left; apply smem_sget; assumption|left; eapply nth_error_In; exact Hi]. }
  destruct B as [B1 B2].
  assert (Look : forall x, x = lower h \/ x = upper h -> sget (n_alias n) x = Some (lower h)).
  { intros x Hx. rewrite Ea. rewrite sget_sset_other by (apply not_eq_sym; exact (spelled_nonempty h x NE Hx)).
    destruct Hx as [-> | ->]; assumption. }
  apply (header_reachable t hdr n i h (lower h) s Hn Hi (Look h Hh) (Look s Hs)).
  intros c' Hc'. rewrite (Look (lower h) (or_introl eq_refl)) in Hc'. congruence.
Qed.

(* ---- add_entries: the name of the new column *)
Definition set_if (name : string) (v : nat) (h : list (string * nat)) (an : string * string) :=
  if String.eqb (snd an) name then sset h (fst an) v else h.

Lemma set_if_keeps name v h an s : sget h s = Some v -> sget (set_if name v h an) s = Some v.
Proof.
  intros H. unfold set_if. destruct (String.eqb (snd an) name); [|exact H].
  destruct (String.eqb (fst an) s) eqn:E.
  - apply String.eqb_eq in E. subst s. apply sget_sset_same.
  - apply String.eqb_neq in E. rewrite (sget_sset_other h (fst an) v s E). exact H.
Qed.

Lemma set_if_all_keeps name v al : forall h s, sget h s = Some v -> sget (fold_left (set_if name v) al h) s = Some v.
Proof.
  induction al as [|an t IH]; intros h s H; cbn [fold_left]; [exact H|]. apply IH. apply set_if_keeps. exact H.
Qed.

Lemma set_if_all_sets name v al s : forall h, In (s, name) al -> sget (fold_left (set_if name v) al h) s = Some v.
Proof.
  induction al as [|an t IH]; intros h Hin; [destruct Hin|]. cbn [fold_left]. destruct Hin as [->|Hin].
  - apply set_if_all_keeps. unfold set_if. cbn [fst snd]. rewrite String.eqb_refl. apply sget_sset_same.
  - apply IH. exact Hin.
Qed.

Lemma set_if_all_other name v al s : forall h,
  (forall c, In (s, c) al -> c <> name) -> sget (fold_left (set_if name v) al h) s = sget h s.
Proof.
  induction al as [|[a c] t IH]; intros h H; cbn [fold_left]; [reflexivity|].
  rewrite IH by (intros c' Hc'; apply H; right; exact Hc').
  unfold set_if. cbn [fst snd]. destruct (String.eqb c name) eqn:E; [|reflexivity].
  apply String.eqb_eq in E. subst c. apply sget_sset_other. intros ->. exact (H name (or_introl eq_refl) eq_refl).
Qed.

Lemma set_all_other (v : nat) sp s : forall h, ~ In s sp -> sget (fold_left (fun h a => sset h a v) sp h) s = sget h s.
Proof.
  induction sp as [|a t IH]; intros h N; cbn [fold_left]; [reflexivity|].
  rewrite IH by (intros H; apply N; right; exact H). apply sget_sset_other. intros ->. apply N. left. reflexivity.
Qed.

(* after add_entries(entry, ...) (a column that did not exist): every spelling
   the alias table maps to the new column's name reaches the new column, through
   wl[id, s] and through the entry= arguments *)
Theorem add_name_reachable n entry n' i name :
  add_name n entry = Some (n', i) ->
  sget (n_alias n') (lower entry) = Some name -> sget (n_alias n') name = Some name ->
  i = S (max_idx (n_hdr n)) /\
  forall s, sget (n_alias n') s = Some name -> resolve_item n' s = Some i /\ resolve_hdr n' s = Some i.
Proof.
  unfold add_name.
  destruct (if smem (n_alias2 n) (lower entry)
            then (n_alias2 n, n_alias n)
            else (sset (n_alias2 n) (lower entry) [lower entry; upper entry],
                  sset (sset (n_alias n) (lower entry) (lower entry)) (upper entry) (lower entry)))
    as [alias2 alias] eqn:Ep.
  destruct (sget alias (lower entry)) as [name0|] eqn:En; [|discriminate].
  destruct (sget alias2 name0) as [spellings|]; [|discriminate].
  set (newIdx := S (max_idx (n_hdr n))).
  set (hdr1 := fold_left (fun h a => sset h a newIdx) spellings (n_hdr n)).
  fold (set_if name0 newIdx).
  destruct (sget (fold_left (set_if name0 newIdx) alias hdr1) name0) as [i0|] eqn:Ei; [|discriminate].
  intros H. inversion H. subst n' i0. clear H. cbn [n_alias n_header n_hdr].
  intros H1 H2. rewrite En in H1. inversion H1. subst name0. clear H1.
  assert (Ei' : i = newIdx).
  { rewrite (set_if_all_sets name newIdx alias name hdr1 (sget_In _ _ _ H2)) in Ei. congruence. }
  split; [exact Ei'|]. intros s Hs. split.
  - unfold resolve_item. cbn [n_alias n_header]. rewrite Hs. apply sget_sset_same.
  - unfold resolve_hdr. cbn [n_hdr]. rewrite Ei'. apply set_if_all_sets. apply sget_In. exact Hs.
Qed.

(* ---- after add_entries, for the names of a configuration table ---- *)
Lemma smem_sset {V} (m : list (string * V)) k v k' :
  smem (sset m k v) k' = true <-> k = k' \/ smem m k' = true.
Proof.
  unfold smem, dmem. fold (sget (sset m k v) k') (sget m k').
  destruct (String.eqb k k') eqn:E.
  - apply String.eqb_eq in E. subst k'. rewrite sget_sset_same. split; [left; reflexivity|reflexivity].
  - apply String.eqb_neq in E. rewrite (sget_sset_other m k v k' E).
    split; [intros H; right; exact H|intros [H|H]; [contradiction|exact H]].
Qed.

Lemma read_conf2_mem t name als : In (name, als) t -> smem (read_conf2 t) name = true.
Proof.
  unfold read_conf2. generalize (@nil (string * list string)) as acc.
  induction t as [|ln t IH]; intros acc Hin; [destruct Hin|]. cbn [fold_left]. destruct Hin as [->|Hin].
  - cbn [fst snd]. assert (H : smem (sset acc name (als ++ [name])) name = true) by (apply smem_sset; left; reflexivity).
    revert H. generalize (sset acc name (als ++ [name])). clear. induction t as [|ln t IH]; intros m H; cbn [fold_left]; [exact H|].
    apply IH. apply smem_sset. right. exact H.
  - apply IH. exact Hin.
Qed.

Lemma init_names_alias2 t hdr n : init_names t hdr = Some n -> n_alias2 n = read_conf2 t.
Proof.
  unfold init_names.
  destruct (all_some (map (sget (sset (fold_left augment hdr (read_conf t)) EmptyString EmptyString)) hdr)); [|discriminate].
  destruct (sNoDupb l); [|discriminate]. intros H. inversion H. reflexivity.
Qed.

Lemma add_name_alias_kept n entry n' i :
  smem (n_alias2 n) (lower entry) = true -> add_name n entry = Some (n', i) -> n_alias n' = n_alias n.
Proof.
  intros M. unfold add_name. rewrite M.
  destruct (sget (n_alias n) (lower entry)) as [name0|]; [|discriminate].
  destruct (sget (n_alias2 n) name0) as [spellings|]; [|discriminate].
  match goal with |- match ?x with _ => _ end = _ -> _ => destruct x end; [|discriminate].
  intros H. inversion H. reflexivity.
Qed.

(* add_entries(entry, ...) for a configured name that is not yet a column: the
   new column is reached by the name and by every configured alias, in lower
   and in upper case, through wl[id, s] and through the entry= arguments *)
Theorem add_name_configured t hdr n name als entry n' i :
  conf_reachable t -> conf_names_lower t -> init_names t hdr = Some n ->
  In (name, als) t -> lower entry = name -> add_name n entry = Some (n', i) ->
  i = S (max_idx (n_hdr n)) /\
  forall a s, In a (name :: als) -> s = lower a \/ s = upper a ->
    resolve_item n' s = Some i /\ resolve_hdr n' s = Some i.
Proof.
  intros R NL Hn Hin Le Ha.
  pose proof (init_names_alias t hdr n Hn) as Ea.
  destruct (NL name als Hin) as [Ln NE].
  assert (M : smem (n_alias2 n) (lower entry) = true).
  { rewrite (init_names_alias2 t hdr n Hn), Le. exact (read_conf2_mem t name als Hin). }
  pose proof (add_name_alias_kept n entry n' i M Ha) as Ek.
  assert (Look : forall b x, In b (name :: als) -> x = lower b \/ x = upper b -> sget (n_alias n') x = Some name).
  { intros b x Hb Hx. rewrite Ek, Ea. apply final_alias_preserves; [exact (spelled_nonempty b x (NE b Hb) Hx)|].
    destruct (R name als Hin b Hb) as [R1 R2]. destruct Hx as [-> | ->]; assumption. }
  assert (L1 : sget (n_alias n') (lower entry) = Some name).
  { rewrite Le. apply (Look name name (or_introl eq_refl)). left. symmetry. exact Ln. }
  assert (L2 : sget (n_alias n') name = Some name).
  { apply (Look name name (or_introl eq_refl)). left. symmetry. exact Ln. }
  destruct (add_name_reachable n entry n' i name Ha L1 L2) as [Ei Hs].
  split; [exact Ei|]. intros a s Hb Hx. apply Hs. exact (Look a s Hb Hx).
Qed.

(* add_entries(entry, ...) for a name the configuration does not know: the new
   column is reached by the lower-case and the upper-case spelling of the name *)
Theorem add_name_fresh n entry n' i :
  smem (n_alias2 n) (lower entry) = false -> add_name n entry = Some (n', i) ->
  i = S (max_idx (n_hdr n)) /\
  forall s, s = lower entry \/ s = upper entry -> resolve_item n' s = Some i /\ resolve_hdr n' s = Some i.
Proof.
  intros M Ha.
  assert (Ealias : n_alias n' = sset (sset (n_alias n) (lower entry) (lower entry)) (upper entry) (lower entry)).
  { revert Ha. unfold add_name. rewrite M.
    destruct (sget (sset (sset (n_alias n) (lower entry) (lower entry)) (upper entry) (lower entry)) (lower entry)) as [name0|]; [|discriminate].
    destruct (sget (sset (n_alias2 n) (lower entry) [lower entry; upper entry]) name0) as [spellings|]; [|discriminate].
    match goal with |- match ?x with _ => _ end = _ -> _ => destruct x end; [|discriminate].
    intros H. inversion H. reflexivity. }
  assert (Look : forall s, s = lower entry \/ s = upper entry -> sget (n_alias n') s = Some (lower entry)).
  { intros s Hs. rewrite Ealias. destruct (String.eqb (upper entry) s) eqn:E.
    - apply String.eqb_eq in E. subst s. apply sget_sset_same.
    - apply String.eqb_neq in E. rewrite sget_sset_other by exact E.
      destruct Hs as [-> | ->]; [apply sget_sset_same|contradiction]. }
  destruct (add_name_reachable n entry n' i (lower entry) Ha (Look _ (or_introl eq_refl)) (Look _ (or_introl eq_refl)))
    as [Ei Hs].
  split; [exact Ei|]. intros s Hx. apply Hs. exact (Look s Hx).
Qed.
